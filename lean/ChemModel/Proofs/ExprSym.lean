/-
C16 — refinement along maps between number structures, the symbolic backend (`Sym`, a free term algebra with
`substEval`) and the corollary "evaluated symbolically and then substituted = evaluated numerically".
-/
import ChemModel.Proofs.Expr
set_option autoImplicit false
set_option linter.unusedSectionVars false
namespace ChemModel.PyExpr
open ChemModel

section ref
variable {α β : Type} [Add α] [Sub α] [Mul α] [Div α] [Neg α] [NatCast α] [PyNum α]
  [Add β] [Sub β] [Mul β] [Div β] [Neg β] [NatCast β] [PyNum β]

/-- `y` refines `x` along `ψ`: whenever `x` succeeds, `y` succeeds with the mapped value -/
def Ref {γ δ : Type} (ψ : γ → δ) (x : Except Err γ) (y : Except Err δ) : Prop := ∀ a, x = .ok a → y = .ok (ψ a)

/-- a map under which the target number structure can do everything the source can (it may succeed more often):
exact on `+ − · neg` and literals, refining on `/`, `**`, `exp`, `log10`, `sin` -/
structure PyRef (φ : α → β) : Prop where
  map_add : ∀ x y, φ (x + y) = φ x + φ y
  map_sub : ∀ x y, φ (x - y) = φ x - φ y
  map_mul : ∀ x y, φ (x * y) = φ x * φ y
  map_neg : ∀ x, φ (-x) = -φ x
  map_natCast : ∀ n : Nat, φ (n : α) = (n : β)
  ref_div : ∀ x y, Ref φ (pyDiv x y) (pyDiv (φ x) (φ y))
  ref_pow : ∀ x y, Ref φ (PyNum.pow x y) (PyNum.pow (φ x) (φ y))
  ref_exp : ∀ x, Ref φ (PyNum.exp x) (PyNum.exp (φ x))
  ref_log10 : ∀ x, Ref φ (PyNum.log10 x) (PyNum.log10 (φ x))
  ref_sin : ∀ x, Ref φ (PyNum.sin x) (PyNum.sin (φ x))

variable {φ : α → β}

theorem ref_ok {γ δ : Type} (ψ : γ → δ) (a : γ) : Ref ψ (.ok a) (.ok (ψ a)) := by
  intro b hb; cases hb; rfl

theorem ref_error {γ δ : Type} (ψ : γ → δ) (e : Err) (y : Except Err δ) : Ref ψ (.error e) y := by
  intro b hb; cases hb

theorem ref_map {γ δ : Type} (ψ : γ → δ) (x : Except Err γ) : Ref ψ x (x.map ψ) := by
  intro a h; subst h; rfl

theorem ref_bind {γ δ γ' δ' : Type} {ψ : γ → δ} {χ : γ' → δ'} {x : Except Err γ} {y : Except Err δ}
    {f : γ → Except Err γ'} {g : δ → Except Err δ'} (hx : Ref ψ x y) (hf : ∀ a, Ref χ (f a) (g (ψ a))) :
    Ref χ (x >>= f) (y >>= g) := by
  intro b hb
  cases x with
  | error e => cases hb
  | ok a =>
    rw [hx a rfl]
    exact hf a b hb

theorem ofInt_ref (h : PyRef φ) (i : Int) : φ (Num.ofInt i) = Num.ofInt i := by
  unfold Num.ofInt
  split
  · rw [h.map_neg, h.map_natCast]
  · rw [h.map_natCast]

theorem mapM_ref {γ : Type} (f : γ → Except Err α) (f' : γ → Except Err β) (hf : ∀ x, Ref φ (f x) (f' x)) :
    ∀ l : List γ, Ref (List.map φ) (l.mapM f) (l.mapM f')
  | [] => by intro a h; cases h; rfl
  | a :: l => by
      rw [List.mapM_cons, List.mapM_cons]
      refine ref_bind (hf a) (fun x => ?_)
      refine ref_bind (mapM_ref f f' hf l) (fun xs => ?_)
      exact ref_ok _ _

/-- element-wise refinement of evaluated argument lists -/
def RefL (φ : α → β) (l : List (Except Err α)) (l' : List (Except Err β)) : Prop :=
  ∀ (i : Nat) (r : Except Err α), l[i]? = some r → ∃ r', l'[i]? = some r' ∧ Ref φ r r'

theorem defaults_ref (h : PyRef φ) (k : Kind) :
    (k.defaults : Option (List β)) = (k.defaults : Option (List α)).map (List.map φ) := by
  cases k <;> simp [Kind.defaults, h.map_natCast]

theorem argAt_ref (h : PyRef φ) (ctx : Ctx α) (k : Kind) (na : Bool) (n : Nat) (vals : List (Except Err α))
    (vals' : List (Except Err β)) (hv : RefL φ vals vals') (uks : Option (List String)) (i : Nat) :
    Ref φ (argAt ctx k na n vals uks i) (argAt (ctx.map φ) k na n vals' uks i) := by
  unfold argAt
  have hstored : Ref φ (if na then Except.error Err.typeError else
        match vals[i]? with | some r => r | none => Except.error Err.indexError)
      (if na then Except.error Err.typeError else
        match vals'[i]? with | some r => r | none => Except.error Err.indexError) := by
    cases na
    · simp only [Bool.false_eq_true, if_false]
      cases hr : vals[i]? with
      | none => exact ref_error _ _ _
      | some r =>
        obtain ⟨r', hr', hrr⟩ := hv i r hr
        rw [hr']
        exact hrr
    · exact ref_error _ _ _
  cases uks with
  | none => exact hstored
  | some uk =>
    simp only
    cases uk[i]? with
    | some key =>
      simp only [Ctx.map]
      cases hvk : ctx.vars key with
      | some v => simp only [Option.map_some]; exact ref_ok _ _
      | none =>
        simp only [Option.map_none]
        cases na
        · exact hstored
        · exact ref_error _ _ _
    | none =>
      simp only
      split
      · rw [defaults_ref h k]
        cases (k.defaults : Option (List α)) with
        | none => exact ref_error _ _ _
        | some d =>
          cases k.nargs with
          | none => exact ref_error _ _ _
          | some m =>
            simp only [Option.map_some, List.length_map, pyIndex_map]
            cases pyIndex d (↑i - m + ↑d.length) with
            | none => exact ref_error _ _ _
            | some x => exact ref_ok _ _
      · exact hstored

theorem allArgs_ref (h : PyRef φ) (ctx : Ctx α) (k : Kind) (na : Bool) (n : Nat) (vals : List (Except Err α))
    (vals' : List (Except Err β)) (hv : RefL φ vals vals') (uks : Option (List String)) :
    Ref (List.map φ) (allArgs ctx k na n vals uks) (allArgs (ctx.map φ) k na n vals' uks) := by
  unfold allArgs
  have hm := fun m => mapM_ref (φ := φ) (argAt ctx k na n vals uks) (argAt (ctx.map φ) k na n vals' uks)
    (argAt_ref h ctx k na n vals vals' hv uks) (List.range m)
  cases k.nargs with
  | none =>
    cases na
    · simp only [Bool.false_eq_true, if_false, pure_eq_ok, ok_bind]; exact hm n
    · exact ref_error _ _ _
  | some m =>
    simp only
    split
    · cases na
      · simp only [Bool.false_eq_true, if_false, pure_eq_ok, ok_bind]; exact hm n
      · exact ref_error _ _ _
    · simp only [pure_eq_ok, ok_bind]; exact hm _

theorem get_ref (ctx : Ctx α) (k : String) : Ref φ (ctx.get k) ((ctx.map φ).get k) := by
  rw [get_nat]; exact ref_map _ _

theorem polyLoop_ref (h : PyRef φ) (recip : Bool) (x0 : α) : ∀ (cs : List α) (res : Option α) (cur : α),
    Ref (Option.map φ) (polyLoop recip x0 cs res cur) (polyLoop recip (φ x0) (cs.map φ) (res.map φ) (φ cur))
  | [], res, cur => ref_ok _ _
  | c :: cs, res, cur => by
      have key : ∀ r0 : α,
          polyLoop recip (φ x0) (List.map φ (c :: cs)) (Option.map φ res) (φ cur)
          = (if recip = true then do
              let cur' ← pyDiv (φ cur) (φ x0)
              polyLoop recip (φ x0) (cs.map φ) (some (φ r0)) cur'
            else polyLoop recip (φ x0) (cs.map φ) (some (φ r0)) (φ cur * φ x0)) →
          (polyLoop recip x0 (c :: cs) res cur
          = (if recip = true then do
              let cur' ← pyDiv cur x0
              polyLoop recip x0 cs (some r0) cur'
            else polyLoop recip x0 cs (some r0) (cur * x0))) →
          Ref (Option.map φ) (polyLoop recip x0 (c :: cs) res cur)
            (polyLoop recip (φ x0) (List.map φ (c :: cs)) (Option.map φ res) (φ cur)) := by
        intro r0 h1 h2
        rw [h1, h2]
        cases recip
        · simp only [Bool.false_eq_true, if_false, ← h.map_mul]
          exact polyLoop_ref h false x0 cs (some r0) _
        · simp only [if_true]
          refine ref_bind (h.ref_div _ _) (fun cur' => ?_)
          exact polyLoop_ref h true x0 cs (some r0) _
      cases res with
      | none =>
        refine key (c * cur) ?_ ?_
        · simp only [List.map_cons, Option.map_none, polyLoop, h.map_mul]
          cases recip <;> rfl
        · simp only [polyLoop]
          cases recip <;> rfl
      | some r =>
        refine key (r + c * cur) ?_ ?_
        · simp only [List.map_cons, Option.map_some, polyLoop, h.map_mul, h.map_add]
          cases recip <;> rfl
        · simp only [polyLoop]
          cases recip <;> rfl

theorem polyBody_ref (h : PyRef φ) (recip shift : Bool) (args : List α) (x : α) :
    Ref φ (polyBody recip shift args x) (polyBody recip shift (args.map φ) (φ x)) := by
  have fin : ∀ (X : Except Err (Option α)) (Y : Except Err (Option β)), Ref (Option.map φ) X Y →
      Ref φ (do match ← X with | some r => pure r | none => throw Err.returnsNone)
            (do match ← Y with | some r => pure r | none => throw Err.returnsNone) := by
    intro X Y hXY
    refine ref_bind hXY (fun r => ?_)
    cases r with
    | none => exact ref_error _ _ _
    | some r => exact ref_ok _ _
  unfold polyBody
  cases shift
  · simp only [Bool.false_eq_true, if_false, pure_eq_ok, ok_bind]
    have := polyLoop_ref h recip x args none ((1 : Nat) : α)
    rw [h.map_natCast] at this
    exact fin _ _ this
  · cases args with
    | nil => exact ref_error _ _ _
    | cons a0 rest =>
      simp only [if_true, List.map_cons, pure_eq_ok, ok_bind, ← h.map_sub]
      have := polyLoop_ref h recip (x - a0) rest none ((1 : Nat) : α)
      rw [h.map_natCast] at this
      exact fin _ _ this

theorem concProd_ref (h : PyRef φ) (ctx : Ctx α) : ∀ (reac : List (String × Int)) (acc : α),
    Ref φ (concProd ctx reac acc) (concProd (ctx.map φ) reac (φ acc))
  | [], acc => ref_ok _ _
  | (k, v) :: rest, acc => by
      simp only [concProd]
      refine ref_bind (get_ref ctx k) (fun c => ?_)
      rw [← ofInt_ref h]
      refine ref_bind (h.ref_pow _ _) (fun p => ?_)
      rw [← h.map_mul]
      exact concProd_ref h ctx rest _

theorem radSum_ref (h : PyRef φ) (ctx : Ctx α) : ∀ (ks : List String) (gs : List α) (acc : Option α),
    Ref (Option.map φ) (radSum ctx ks gs acc) (radSum (ctx.map φ) ks (gs.map φ) (acc.map φ))
  | [], _, _ => by simp only [radSum]; exact ref_ok _ _
  | _ :: _, [], _ => by simp only [radSum, List.map_nil]; exact ref_ok _ _
  | k :: ks, g :: gs, acc => by
      cases acc with
      | none =>
        simp only [List.map_cons, Option.map_none, radSum]
        refine ref_bind (get_ref ctx k) (fun d => ?_)
        rw [← h.map_mul]
        exact radSum_ref h ctx ks gs (some (d * g))
      | some a =>
        simp only [List.map_cons, Option.map_some, radSum]
        refine ref_bind (get_ref ctx k) (fun d => ?_)
        rw [← h.map_mul, ← h.map_add]
        exact radSum_ref h ctx ks gs (some (a + d * g))

theorem rxnOf_ref (ctx : Ctx α) (b : Bool) : Ref id (rxnOf ctx b) (rxnOf (ctx.map φ) b) := by
  intro a h; exact h


syntax "shapeR " ident : tactic
macro_rules
  | `(tactic| shapeR $l) =>
    `(tactic| (rcases $l:ident with _ | ⟨a1, _ | ⟨a2, _ | ⟨a3, _ | ⟨a4, _ | ⟨a5, rest⟩⟩⟩⟩⟩ <;>
        simp only [List.map_cons, List.map_nil] <;> try exact ref_error _ _ _))

theorem call_ref (h : PyRef φ) (ctx : Ctx α) (k : Kind) (hk : ∀ p, k ≠ .piecewise p) (na : Bool) (args : List (Val α))
    (vals : List (Except Err α)) (vals' : List (Except Err β)) (hv : RefL φ vals vals') (uks : Option (List String)) :
    Ref φ (call ctx k na args vals uks) (call (ctx.map φ) k na (Val.mapList φ args) vals' uks) := by
  unfold call
  simp only [mapList_length]
  have haa := allArgs_ref h ctx k na args.length vals vals' hv uks
  cases k with
  | const =>
    cases na
    · cases args with
      | nil => exact ref_error _ _ _
      | cons a rest =>
        cases a with
        | num x => exact ref_ok _ _
        | str _ => exact ref_error _ _ _
        | node _ _ _ _ => exact ref_error _ _ _
    · exact ref_error _ _ _
  | symbol =>
    cases uks with
    | none => exact ref_error _ _ _
    | some u =>
      rcases u with _ | ⟨uk, _ | ⟨_, _⟩⟩
      · exact ref_error _ _ _
      · exact get_ref ctx uk
      · exact ref_error _ _ _
  | neg =>
    refine ref_bind haa (fun l => ?_)
    shapeR l
    rw [← h.map_neg]; exact ref_ok _ _
  | add =>
    refine ref_bind haa (fun l => ?_)
    shapeR l
    rw [← h.map_add]; exact ref_ok _ _
  | sub =>
    refine ref_bind haa (fun l => ?_)
    shapeR l
    rw [← h.map_sub]; exact ref_ok _ _
  | mul =>
    refine ref_bind haa (fun l => ?_)
    shapeR l
    rw [← h.map_mul]; exact ref_ok _ _
  | div =>
    refine ref_bind haa (fun l => ?_)
    shapeR l
    exact h.ref_div _ _
  | pow =>
    refine ref_bind haa (fun l => ?_)
    shapeR l
    exact h.ref_pow _ _
  | log10 =>
    refine ref_bind haa (fun l => ?_)
    shapeR l
    exact h.ref_log10 _
  | exp =>
    refine ref_bind haa (fun l => ?_)
    shapeR l
    exact h.ref_exp _
  | poly p recip shift =>
    refine ref_bind haa (fun l => ?_)
    refine ref_bind (get_ref ctx p) (fun x => ?_)
    exact polyBody_ref h recip shift l x
  | piecewise p => exact absurd rfl (hk p)
  | massAction =>
    refine ref_bind haa (fun l => ?_)
    shapeR l
    refine ref_bind (rxnOf_ref ctx false) (fun r => ?_)
    rw [← h.map_natCast 1]
    refine ref_bind (concProd_ref h ctx r _) (fun p => ?_)
    rw [← h.map_mul]; exact ref_ok _ _
  | arrhenius =>
    refine ref_bind haa (fun l => ?_)
    shapeR l
    refine ref_bind (get_ref ctx _) (fun t => ?_)
    rw [← h.map_neg]
    refine ref_bind (h.ref_div _ _) (fun q => ?_)
    refine ref_bind (h.ref_exp _) (fun x => ?_)
    rw [← h.map_mul]; exact ref_ok _ _
  | eyring =>
    refine ref_bind haa (fun l => ?_)
    shapeR l
    refine ref_bind (get_ref ctx _) (fun t => ?_)
    rw [← h.map_neg]
    refine ref_bind (h.ref_div _ _) (fun q => ?_)
    refine ref_bind (h.ref_exp _) (fun x => ?_)
    refine ref_bind (rxnOf_ref ctx true) (fun r => ?_)
    rw [← ofInt_ref h]
    refine ref_bind (h.ref_pow _ _) (fun p => ?_)
    simp only [id, ← h.map_mul]; exact ref_ok _ _
  | eyringHS =>
    refine ref_bind haa (fun l => ?_)
    shapeR l
    refine ref_bind (get_ref ctx _) (fun t => ?_)
    refine ref_bind (get_ref ctx _) (fun r => ?_)
    refine ref_bind (get_ref ctx _) (fun kB => ?_)
    refine ref_bind (get_ref ctx _) (fun hh => ?_)
    rw [← h.map_mul, ← h.map_mul, ← h.map_sub, ← h.map_neg]
    refine ref_bind (h.ref_div _ _) (fun q => ?_)
    refine ref_bind (h.ref_div _ _) (fun f => ?_)
    refine ref_bind (h.ref_exp _) (fun x => ?_)
    refine ref_bind (rxnOf_ref ctx false) (fun rx => ?_)
    rw [← ofInt_ref h]
    refine ref_bind (h.ref_pow _ _) (fun p => ?_)
    simp only [id, ← h.map_mul]; exact ref_ok _ _
  | radiolytic names =>
    dsimp only
    refine ref_bind (get_ref ctx _) (fun d => ?_)
    refine ref_bind haa (fun l => ?_)
    have := radSum_ref h ctx (names.map (fun n => "doserate" ++ radSuffix n)) l none
    simp only [Option.map_none] at this
    refine ref_bind this (fun r => ?_)
    cases r with
    | none => exact ref_error _ _ _
    | some sm => simp only [Option.map_some, pure_eq_ok, ← h.map_mul]; exact ref_ok _ _
  | rampedTemp =>
    refine ref_bind haa (fun l => ?_)
    shapeR l
    refine ref_bind (get_ref ctx _) (fun t => ?_)
    simp only [pure_eq_ok, ← h.map_mul, ← h.map_add]; exact ref_ok _ _
  | sinTemp =>
    refine ref_bind haa (fun l => ?_)
    shapeR l
    refine ref_bind (get_ref ctx _) (fun t => ?_)
    rw [← h.map_mul, ← h.map_add]
    refine ref_bind (h.ref_sin _) (fun x => ?_)
    simp only [pure_eq_ok, ← h.map_mul, ← h.map_add]; exact ref_ok _ _
  | massActionEq =>
    refine ref_bind haa (fun l => ?_)
    shapeR l
    exact ref_ok _ _
  | gibbsEqConst =>
    refine ref_bind haa (fun l => ?_)
    shapeR l
    refine ref_bind (get_ref ctx _) (fun t => ?_)
    refine ref_bind (h.ref_div _ _) (fun q => ?_)
    rw [← h.map_sub]
    exact h.ref_exp _

mutual
/-- no `create_Piecewise` instance anywhere in the tree (the comparison-free fragment) -/
def noPW {γ : Type} : Val γ → Bool
  | .num _ => true
  | .str _ => true
  | .node k _ args _ => (match k with | .piecewise _ => false | _ => true) && noPWList args
def noPWList {γ : Type} : List (Val γ) → Bool
  | [] => true
  | a :: as => noPW a && noPWList as
end

theorem noneArg_ref (k : Kind) (r : Except Err α) (r' : Except Err β) (hr : Ref φ r r') :
    Ref φ (noneArg k r) (noneArg k r') := by
  intro a ha
  cases r with
  | ok x =>
    have hx : a = x := by
      simp only [noneArg] at ha
      exact (Except.ok.inj ha).symm
    subst hx
    rw [hr a rfl]; rfl
  | error e =>
    cases e <;> simp only [noneArg] at ha <;> try cases ha
    split at ha <;> cases ha

mutual
theorem eval_ref (h : PyRef φ) : ∀ (ctx : Ctx α) (v : Val α), noPW v = true →
    Ref φ (eval ctx v) (eval (ctx.map φ) (Val.map φ v))
  | ctx, .num x, _ => ref_ok _ _
  | ctx, .str s, _ => get_ref ctx s
  | ctx, .node k na args uks, hp => by
      simp only [noPW, Bool.and_eq_true] at hp
      have hk : ∀ p, k ≠ .piecewise p := by
        intro p hkp; subst hkp; simp at hp
      simp only [Val.map, eval]
      rw [childCtx_map]
      refine call_ref h ctx k hk na args _ _ ?_ uks
      have hl := evalList_ref h (childCtx k ctx) args hp.2
      intro i r hr
      simp only [List.getElem?_map] at hr ⊢
      cases hri : (evalList (childCtx k ctx) args)[i]? with
      | none => rw [hri] at hr; cases hr
      | some r0 =>
        rw [hri] at hr
        simp only [Option.map_some, Option.some.injEq] at hr
        obtain ⟨r0', hr0', hrr⟩ := hl i r0 hri
        refine ⟨noneArg k r0', by rw [hr0']; rfl, ?_⟩
        rw [← hr]
        exact noneArg_ref k r0 r0' hrr
theorem evalList_ref (h : PyRef φ) : ∀ (ctx : Ctx α) (l : List (Val α)), noPWList l = true →
    RefL φ (evalList ctx l) (evalList (ctx.map φ) (Val.mapList φ l))
  | ctx, [], _ => by intro i r hr; simp [evalList] at hr
  | ctx, a :: l, hp => by
      simp only [noPWList, Bool.and_eq_true] at hp
      intro i r hr
      cases i with
      | zero =>
        simp only [evalList, List.getElem?_cons_zero, Option.some.injEq] at hr
        refine ⟨eval (ctx.map φ) (Val.map φ a), by simp only [Val.mapList, evalList, List.getElem?_cons_zero], ?_⟩
        rw [← hr]
        exact eval_ref h ctx a hp.1
      | succ j =>
        simp only [evalList, List.getElem?_cons_succ] at hr
        obtain ⟨r', hr', hrr⟩ := evalList_ref h ctx l hp.2 j r hr
        exact ⟨r', by simp only [Val.mapList, evalList, List.getElem?_cons_succ]; exact hr', hrr⟩
end

end ref

/-! ### the symbolic backend: a free term algebra -/

open scoped Classical

/-- symbolic expressions as the `sympy` backend builds them from symbolic variables: variables, numbers and the operations
an expression tree can apply to a value -/
inductive Sym
  | var (name : String)
  | num (x : ℝ)
  | add (a b : Sym) | sub (a b : Sym) | mul (a b : Sym) | div (a b : Sym) | neg (a : Sym)
  | pow (a b : Sym) | exp (a : Sym) | log10 (a : Sym) | sin (a : Sym)

instance : Add Sym := ⟨Sym.add⟩
instance : Sub Sym := ⟨Sym.sub⟩
instance : Mul Sym := ⟨Sym.mul⟩
instance : Div Sym := ⟨Sym.div⟩
instance : Neg Sym := ⟨Sym.neg⟩
noncomputable instance : NatCast Sym := ⟨fun n => Sym.num n⟩

/-- evaluation with symbolic values builds a term and never raises: `x / y`, `x ** y`, `exp`, `log10`, `sin` of symbols
are expressions; `==` between a symbolic value and a number is structurally `False` (so `pyDiv`'s zero test does not fire);
`<=` has no truth value (Piecewise conditions are outside this fragment). -/
noncomputable instance : PyNum Sym where
  beq _ _ := false
  le _ _ := false
  isScalar _ := false
  pow a b := .ok (.pow a b)
  exp a := .ok (.exp a)
  log10 a := .ok (.log10 a)
  sin a := .ok (.sin a)

/-- substitute numbers for the variables and evaluate (`expr.subs(σ)`), with Lean's total real operations -/
noncomputable def substEval (σ : String → ℝ) : Sym → ℝ
  | .var s => σ s
  | .num x => x
  | .add a b => substEval σ a + substEval σ b
  | .sub a b => substEval σ a - substEval σ b
  | .mul a b => substEval σ a * substEval σ b
  | .div a b => substEval σ a / substEval σ b
  | .neg a => -substEval σ a
  | .pow a b => substEval σ a ^ substEval σ b
  | .exp a => Real.exp (substEval σ a)
  | .log10 a => Real.log (substEval σ a) / Real.log 10
  | .sin a => Real.sin (substEval σ a)

/-- the reals with the exceptions of scalar arithmetic switched off (auxiliary: the common refinement of symbolic
evaluation-then-substitution and of Python's numeric evaluation) -/
structure RTot where
  val : ℝ

noncomputable instance : Add RTot := ⟨fun a b => ⟨a.val + b.val⟩⟩
noncomputable instance : Sub RTot := ⟨fun a b => ⟨a.val - b.val⟩⟩
noncomputable instance : Mul RTot := ⟨fun a b => ⟨a.val * b.val⟩⟩
noncomputable instance : Div RTot := ⟨fun a b => ⟨a.val / b.val⟩⟩
noncomputable instance : Neg RTot := ⟨fun a => ⟨-a.val⟩⟩
noncomputable instance : NatCast RTot := ⟨fun n => ⟨n⟩⟩
noncomputable instance : PyNum RTot where
  beq _ _ := false
  le _ _ := false
  isScalar _ := true
  pow a b := .ok ⟨a.val ^ b.val⟩
  exp a := .ok ⟨Real.exp a.val⟩
  log10 a := .ok ⟨Real.log a.val / Real.log 10⟩
  sin a := .ok ⟨Real.sin a.val⟩

theorem substEval_hom (σ : String → ℝ) : PyHom (fun t : Sym => (⟨substEval σ t⟩ : RTot)) where
  map_add _ _ := rfl
  map_sub _ _ := rfl
  map_mul _ _ := rfl
  map_div _ _ := rfl
  map_neg _ := rfl
  map_natCast _ := rfl
  map_beq _ _ := rfl
  map_le _ _ := rfl
  map_pow _ _ := rfl
  map_exp _ := rfl
  map_log10 _ := rfl
  map_sin _ := rfl

theorem pyDiv_rtot (x y : RTot) : pyDiv x y = .ok ⟨x.val / y.val⟩ := rfl

theorem real_to_rtot : PyRef (RTot.mk : ℝ → RTot) where
  map_add _ _ := rfl
  map_sub _ _ := rfl
  map_mul _ _ := rfl
  map_neg _ := rfl
  map_natCast _ := rfl
  ref_div x y := by
    intro a ha
    by_cases hy : y = 0
    · subst hy; rw [pyDiv_real_zero] at ha; cases ha
    · rw [pyDiv_real hy] at ha
      cases ha
      rfl
  ref_pow x y := by
    intro a ha
    change (if x = 0 ∧ y < 0 then Except.error Err.zeroDivision
      else if x < 0 ∧ ¬ ∃ n : ℤ, y = n then Except.error Err.complexResult else Except.ok (x ^ y)) = _ at ha
    split at ha
    · cases ha
    · split at ha
      · cases ha
      · cases ha; rfl
  ref_exp x := by intro a ha; cases ha; rfl
  ref_log10 x := by
    intro a ha
    change (if x ≤ 0 then Except.error Err.valueError else Except.ok (Real.log x / Real.log 10)) = _ at ha
    split at ha
    · cases ha
    · cases ha; rfl
  ref_sin x := by intro a ha; cases ha; rfl

section comp
variable {α β γ : Type}

mutual
theorem Val.map_map (f : α → β) (g : β → γ) : ∀ v : Val α, Val.map g (Val.map f v) = Val.map (fun x => g (f x)) v
  | .num _ => rfl
  | .str _ => rfl
  | .node k na args uks => by simp only [Val.map, Val.mapList_mapList f g args]
theorem Val.mapList_mapList (f : α → β) (g : β → γ) : ∀ l : List (Val α),
    Val.mapList g (Val.mapList f l) = Val.mapList (fun x => g (f x)) l
  | [] => rfl
  | a :: l => by simp only [Val.mapList, Val.map_map f g a, Val.mapList_mapList f g l]
end

mutual
theorem noPW_map (f : α → β) : ∀ v : Val α, noPW (Val.map f v) = noPW v
  | .num _ => rfl
  | .str _ => rfl
  | .node k na args uks => by simp only [Val.map, noPW, noPWList_map f args]
theorem noPWList_map (f : α → β) : ∀ l : List (Val α), noPWList (Val.mapList f l) = noPWList l
  | [] => rfl
  | a :: l => by simp only [Val.mapList, noPWList, noPW_map f a, noPWList_map f l]
end

theorem Ctx.map_map (f : α → β) (g : β → γ) (ctx : Ctx α) : (ctx.map f).map g = ctx.map (fun x => g (f x)) := by
  simp only [Ctx.map, Option.map_map]
  rfl

end comp

/-- symbolic evaluation followed by substitution agrees with numeric evaluation at the substituted point -/
theorem sym_subst_agrees (σ : String → ℝ) (ctx : Ctx Sym) (v : Val Sym) (hpw : noPW v = true) (t : Sym) (r : ℝ)
    (hs : eval ctx v = .ok t) (hn : eval (ctx.map (substEval σ)) (v.map (substEval σ)) = .ok r) :
    substEval σ t = r := by
  have h1 := eval_nat (substEval_hom σ) ctx v
  rw [hs] at h1
  have h2 := eval_ref real_to_rtot (ctx.map (substEval σ)) (v.map (substEval σ)) (by rw [noPW_map]; exact hpw) r hn
  rw [Ctx.map_map, Val.map_map] at h2
  rw [h1] at h2
  simp only [map_ok, Except.ok.injEq, RTot.mk.injEq] at h2
  exact h2

/-- … and the symbolic evaluation does not fail where the numeric one succeeds -/
theorem sym_eval_total (σ : String → ℝ) (ctx : Ctx Sym) (v : Val Sym) (hpw : noPW v = true) (r : ℝ)
    (hn : eval (ctx.map (substEval σ)) (v.map (substEval σ)) = .ok r) : ∃ t, eval ctx v = .ok t := by
  have h1 := eval_nat (substEval_hom σ) ctx v
  have h2 := eval_ref real_to_rtot (ctx.map (substEval σ)) (v.map (substEval σ)) (by rw [noPW_map]; exact hpw) r hn
  rw [Ctx.map_map, Val.map_map] at h2
  rw [h2] at h1
  cases he : eval ctx v with
  | ok t => exact ⟨t, rfl⟩
  | error e => rw [he] at h1; cases h1

/-! ### change of units (pure algebra) -/

theorem order_eq_sum (reac : List (String × ℤ)) : order reac = (reac.map (·.2)).sum := by
  unfold order
  rw [List.sum_eq_foldl]

theorem prod_scaled (conc : String → ℝ) (c : ℝ) (hc : c ≠ 0) : ∀ reac : List (String × ℤ),
    (reac.map fun p => (conc p.1 / c) ^ p.2).prod
      = (reac.map fun p => conc p.1 ^ p.2).prod / c ^ (reac.map (·.2)).sum
  | [] => by simp
  | p :: rest => by
      have ih := prod_scaled conc c hc rest
      rw [List.map_cons, List.prod_cons, ih, List.map_cons, List.prod_cons, List.map_cons, List.sum_cons,
        div_zpow, zpow_add₀ hc]
      have h1 : c ^ p.2 ≠ 0 := zpow_ne_zero _ hc
      have h2 : c ^ (List.map (fun x => x.2) rest).sum ≠ 0 := zpow_ne_zero _ hc
      field_simp

/-- change of units for the Arrhenius mass-action rate: concentrations measured in a unit `c` times larger, times in a unit `s`
times larger, temperatures in a unit `θ` times larger.  The magnitudes of the inputs become `conc/c`, `T/θ`, `Ea_over_R/θ` and
`A·c^(n−1)·s` (`A` has the unit concentration^(1−n)/time); the magnitude of the rate becomes `rate·s/c` — the unit factor of a
concentration per time. -/
theorem arrhenius_rate_unit_scaling (ctx ctx' : Ctx ℝ) (A E T c s θ : ℝ) (reac : List (String × ℤ)) (conc : String → ℝ)
    (hc : 0 < c) (hθ : θ ≠ 0) (hT0 : T ≠ 0)
    (hT : ctx.vars "temperature" = some T) (hT' : ctx'.vars "temperature" = some (T / θ))
    (hr : ctx.rxn = .some reac) (hr' : ctx'.rxn = .some reac)
    (hconc : ∀ p ∈ reac, ctx.vars p.1 = some (conc p.1) ∧ 0 < conc p.1)
    (hconc' : ∀ p ∈ reac, ctx'.vars p.1 = some (conc p.1 / c)) :
    ∃ rate : ℝ,
      eval ctx (.node .massAction false [.node .arrhenius false [.num A, .num E] none] none) = .ok rate ∧
      eval ctx' (.node .massAction false
          [.node .arrhenius false [.num (A * c ^ (order reac - 1) * s), .num (E / θ)] none] none)
        = .ok (rate * s / c) := by
  have hTθ : T / θ ≠ 0 := div_ne_zero hT0 hθ
  have h1 := eval_arrhenius_node ctx A E T none (by simp) hT hT0
  have h1' := eval_arrhenius_node ctx' (A * c ^ (order reac - 1) * s) (E / θ) (T / θ) none (by simp) hT' hTθ
  have hc'' : ∀ p ∈ reac, ctx'.vars p.1 = some ((fun k => conc k / c) p.1) ∧ 0 < (fun k => conc k / c) p.1 :=
    fun p hp => ⟨hconc' p hp, div_pos (hconc p hp).2 hc⟩
  refine ⟨_, eval_massAction_node ctx _ _ reac conc hr h1 hconc, ?_⟩
  rw [eval_massAction_node ctx' _ _ reac (fun k => conc k / c) hr' h1' hc'']
  congr 1
  rw [prod_scaled conc c hc.ne' reac, ← order_eq_sum]
  have he : -(E / θ) / (T / θ) = -E / T := by field_simp
  rw [he, zpow_sub₀ hc.ne', zpow_one]
  field_simp


/-- the constructed `A` is positive for a positive rate constant -/
theorem from_rateconst_A_pos (Ea T k : ℝ) (hk : 0 < k) : 0 < Gen.arrheniusFromRateconstA Ea T k := by
  simp only [Gen.arrheniusFromRateconstA, NumReal.exp_def]
  exact mul_pos hk (Real.exp_pos _)

/-- evaluation of a `create_Piecewise` instance with numeric stored arguments -/
theorem eval_piecewise_node (ctx : Ctx ℝ) (p : String) (b : List ℝ) (x : ℝ) (hx : ctx.vars p = some x) :
    eval ctx (.node (.piecewise p) false (b.map Val.num) none) = pwBody b x := by
  have haa := allArgs_no_override ctx (.piecewise p) b none (Or.inr rfl) (by simp)
  have hev : ∀ (c : Ctx ℝ) (l : List ℝ), (evalList c (l.map Val.num)).map (noneArg (.piecewise p)) = l.map Except.ok := by
    intro c l
    induction l with
    | nil => simp [evalList]
    | cons a l ih => simp [evalList, eval, ih]
  simp only [eval, call, hev, List.length_map, haa, ok_bind, get_some hx]

/-! ### `MassActionEq.equilibrium_equation` -/

/-- the signed concentration product for positive concentrations -/
theorem eqConcProd_pos (ctx : Ctx ℝ) (c : String → ℝ) : ∀ (l : List (String × ℤ)) (acc : ℝ),
    (∀ p ∈ l, ctx.vars p.1 = some (c p.1) ∧ 0 < c p.1) →
    eqConcProd ctx l (some acc) = .ok (some (acc * (l.map fun p => c p.1 ^ p.2).prod))
  | [], acc, _ => by simp [eqConcProd]
  | (k, e) :: rest, acc, h => by
      have hk := h (k, e) List.mem_cons_self
      have ih := eqConcProd_pos ctx c rest (acc * c k ^ e) (fun p hp => h p (List.mem_cons_of_mem _ hp))
      simp only [eqConcProd, get_some hk.1, ok_bind, pow_real_int hk.2, List.map_cons, List.prod_cons]
      rw [ih, mul_assoc]

theorem eqConcProd_pos_none (ctx : Ctx ℝ) (c : String → ℝ) (k : String) (e : ℤ) (rest : List (String × ℤ))
    (h : ∀ p ∈ (k, e) :: rest, ctx.vars p.1 = some (c p.1) ∧ 0 < c p.1) :
    eqConcProd ctx ((k, e) :: rest) none = .ok (some ((((k, e) :: rest).map fun p => c p.1 ^ p.2).prod)) := by
  have hk := h (k, e) List.mem_cons_self
  have ih := eqConcProd_pos ctx c rest (c k ^ e) (fun p hp => h p (List.mem_cons_of_mem _ hp))
  simp only [eqConcProd, get_some hk.1, ok_bind, pow_real_int hk.2, List.map_cons, List.prod_cons]
  exact ih

/-! ### closed formulas of the remaining classes -/

theorem sin_real (x : ℝ) : PyNum.sin x = .ok (Real.sin x) := rfl
theorem log10_real {x : ℝ} (h : 0 < x) : PyNum.log10 x = .ok (Real.log x / Real.log 10) := by
  show (if x ≤ 0 then Except.error Err.valueError else Except.ok (Real.log x / Real.log 10)) = _
  rw [if_neg (not_le.mpr h)]

/-- `EyringHS([dH, dS, c0])`: the coded `kB/h·T·exp(−(dH − T·dS)/(R·T))·c0^(1−n)` is the documented
`(kB·T/h)·exp(dS/R)·exp(−dH/(R·T))·c0^(1−n)` -/
theorem eval_eyringHS_node (ctx : Ctx ℝ) (dH dS c0 T R kB h : ℝ) (reac : List (String × ℤ))
    (hT : ctx.vars "temperature" = some T) (hR : ctx.vars "molar_gas_constant" = some R)
    (hkB : ctx.vars "Boltzmann_constant" = some kB) (hh : ctx.vars "Planck_constant" = some h)
    (hT0 : T ≠ 0) (hR0 : R ≠ 0) (hh0 : h ≠ 0) (hc0 : 0 < c0) (hr : ctx.rxn = .some reac) :
    eval ctx (.node .eyringHS false [.num dH, .num dS, .num c0] none)
      = .ok (kB * T / h * Real.exp (dS / R) * Real.exp (-dH / (R * T)) * c0 ^ (1 - order reac)) := by
  have haa := allArgs_no_override ctx .eyringHS [dH, dS, c0] none (Or.inl rfl) (by simp)
  simp only [List.length_cons, List.length_nil, List.map_cons, List.map_nil] at haa
  have hRT : R * T ≠ 0 := mul_ne_zero hR0 hT0
  simp only [eval, evalList, call, List.map_cons, List.map_nil, noneArg_ok, List.length_cons, List.length_nil, haa, ok_bind,
    get_some hT, get_some hR, get_some hkB, get_some hh, pyDiv_real hRT, pyDiv_real hh0, exp_real, pure_eq_ok, rxnOf, hr,
    pow_real_int hc0]
  congr 2
  have he : -(dH - T * dS) / (R * T) = dS / R + -dH / (R * T) := by field_simp; ring
  rw [he, Real.exp_add]
  ring

theorem eval_gibbs_node (ctx : Ctx ℝ) (dHR dSR T : ℝ) (hT : ctx.vars "temperature" = some T) (hT0 : T ≠ 0) :
    eval ctx (.node .gibbsEqConst false [.num dHR, .num dSR] none) = .ok (Real.exp (dSR - dHR / T)) := by
  have haa := allArgs_no_override ctx .gibbsEqConst [dHR, dSR] none (Or.inl rfl) (by simp)
  simp only [List.length_cons, List.length_nil, List.map_cons, List.map_nil] at haa
  simp only [eval, evalList, call, List.map_cons, List.map_nil, noneArg_ok, List.length_cons, List.length_nil, haa, ok_bind,
    get_some hT, pyDiv_real hT0, exp_real]

theorem eval_rampedTemp_node (ctx : Ctx ℝ) (T0 dTdt t : ℝ) (ht : ctx.vars "time" = some t) :
    eval ctx (.node .rampedTemp false [.num T0, .num dTdt] none) = .ok (T0 + dTdt * t) := by
  have haa := allArgs_no_override ctx .rampedTemp [T0, dTdt] none (Or.inl rfl) (by simp)
  simp only [List.length_cons, List.length_nil, List.map_cons, List.map_nil] at haa
  simp only [eval, evalList, call, List.map_cons, List.map_nil, noneArg_ok, List.length_cons, List.length_nil, haa, ok_bind,
    get_some ht, pure_eq_ok]

theorem eval_sinTemp_node (ctx : Ctx ℝ) (Tb Ta w ph t : ℝ) (ht : ctx.vars "time" = some t) :
    eval ctx (.node .sinTemp false [.num Tb, .num Ta, .num w, .num ph] none) = .ok (Tb + Ta * Real.sin (w * t + ph)) := by
  have haa := allArgs_no_override ctx .sinTemp [Tb, Ta, w, ph] none (Or.inl rfl) (by simp)
  simp only [List.length_cons, List.length_nil, List.map_cons, List.map_nil] at haa
  simp only [eval, evalList, call, List.map_cons, List.map_nil, noneArg_ok, List.length_cons, List.length_nil, haa, ok_bind,
    get_some ht, sin_real, pure_eq_ok]

theorem eval_massActionEq_node (ctx : Ctx ℝ) (K : ℝ) :
    eval ctx (.node .massActionEq false [.num K] none) = .ok K := by
  have haa := allArgs_no_override ctx .massActionEq [K] none (Or.inl rfl) (by simp)
  simp only [List.length_cons, List.length_nil, List.map_cons, List.map_nil] at haa
  simp only [eval, evalList, call, List.map_cons, List.map_nil, noneArg_ok, List.length_cons, List.length_nil, haa, ok_bind,
    pure_eq_ok]

theorem eval_exp_node (ctx : Ctx ℝ) (v : Val ℝ) (a : ℝ) (hv : eval ctx v = .ok a) :
    eval ctx (.node .exp false [v] none) = .ok (Real.exp a) := by
  have haa := allArgs_no_override ctx .exp [a] none (Or.inl rfl) (by simp)
  simp only [List.length_cons, List.length_nil, List.map_cons, List.map_nil] at haa
  simp only [eval, evalList, call, childCtx, hv, List.map_cons, List.map_nil, noneArg_ok, List.length_cons, List.length_nil,
    haa, ok_bind, exp_real]

theorem eval_log10_node (ctx : Ctx ℝ) (v : Val ℝ) (a : ℝ) (hv : eval ctx v = .ok a) (ha : 0 < a) :
    eval ctx (.node .log10 false [v] none) = .ok (Real.log a / Real.log 10) := by
  have haa := allArgs_no_override ctx .log10 [a] none (Or.inl rfl) (by simp)
  simp only [List.length_cons, List.length_nil, List.map_cons, List.map_nil] at haa
  simp only [eval, evalList, call, childCtx, hv, List.map_cons, List.map_nil, noneArg_ok, List.length_cons, List.length_nil,
    haa, ok_bind, log10_real ha]

/-- the sum of `Radiolytic.__call__` -/
theorem radSum_spec (ctx : Ctx ℝ) (d : String → ℝ) : ∀ (ks : List String) (gs : List ℝ) (acc : ℝ),
    ks.length = gs.length → (∀ k ∈ ks, ctx.vars k = some (d k)) →
    radSum ctx ks gs (some acc) = .ok (some (acc + (List.zipWith (fun k g => d k * g) ks gs).sum))
  | [], [], acc, _, _ => by simp [radSum]
  | [], _ :: _, _, h, _ => by simp at h
  | _ :: _, [], _, h, _ => by simp at h
  | k :: ks, g :: gs, acc, hl, hv => by
      have ih := radSum_spec ctx d ks gs (acc + d k * g) (by simpa using hl) (fun k' hk' => hv k' (List.mem_cons_of_mem _ hk'))
      simp only [radSum, get_some (hv k List.mem_cons_self), ok_bind, ih, List.zipWith_cons_cons, List.sum_cons, add_assoc]

theorem eval_radiolytic_node (ctx : Ctx ℝ) (names : List String) (g0 : ℝ) (gs : List ℝ) (rho : ℝ) (d : String → ℝ)
    (n0 : String) (hn : names.length = gs.length) (hrho : ctx.vars "density" = some rho)
    (hd : ∀ k ∈ (n0 :: names).map (fun n => "doserate" ++ radSuffix n), ctx.vars k = some (d k)) :
    eval ctx (.node (.radiolytic (n0 :: names)) false ((g0 :: gs).map Val.num) none)
      = .ok (rho * (List.zipWith (fun k g => d k * g) ((n0 :: names).map (fun n => "doserate" ++ radSuffix n)) (g0 :: gs)).sum) := by
  have hk : (Kind.radiolytic (n0 :: names)).nargs = some (((g0 :: gs).length : Nat) : Int) := by
    simp [Kind.nargs, Kind.argNames, Kind.nargsCls, hn]
  have haa := allArgs_no_override ctx (.radiolytic (n0 :: names)) (g0 :: gs) none (Or.inl hk) (by simp)
  have hev : ∀ (c : Ctx ℝ) (l : List ℝ), (evalList c (l.map Val.num)).map (noneArg (.radiolytic (n0 :: names))) = l.map Except.ok := by
    intro c l
    induction l with
    | nil => simp [evalList]
    | cons a l ih => simp [evalList, eval, ih]
  have hsum := radSum_spec ctx d (names.map (fun n => "doserate" ++ radSuffix n)) gs (d ("doserate" ++ radSuffix n0) * g0)
    (by simpa using hn) (fun k hk' => hd k (List.mem_cons_of_mem _ hk'))
  have h0 : ctx.vars ("doserate" ++ radSuffix n0) = some (d ("doserate" ++ radSuffix n0)) :=
    hd _ (by simp)
  simp only [eval, call, hev, List.length_map, haa, ok_bind, get_some hrho]
  simp only [List.map_cons, radSum, get_some h0, ok_bind, hsum, pure_eq_ok, List.zipWith_cons_cons, List.sum_cons]

/-! ### overrides: masking of the stored argument, key-only instances -/

section generic
variable {α : Type} [Add α] [Sub α] [Mul α] [Div α] [Neg α] [NatCast α] [PyNum α]

/-- the override MASKS whatever the stored i-th argument evaluates to (a nested expression that fails, a missing variable, …):
`vals` are the evaluated stored arguments, all but the i-th known to be `ok g[j]` -/
theorem allArgs_override_masks (ctx : Ctx α) (k : Kind) (vals : List (Except Err α)) (g : List α) (u : List String) (i : Nat) (v : α)
    (hlen : vals.length = g.length) (hn : k.nargs = some (g.length : Int) ∨ k.nargs = none) (hu : u.Nodup) (hi : i < u.length)
    (hul : u.length ≤ g.length) (h : ∀ key ∈ u, ctx.vars key = none)
    (hv : ∀ j (hj : j < g.length), j ≠ i → vals[j]? = some (.ok g[j])) :
    allArgs (ctx.set u[i] v) k false g.length vals (some u) = .ok (g.set i v) := by
  have hmap : (List.range g.length).mapM (argAt (ctx.set u[i] v) k false g.length vals (some u)) = .ok (g.set i v) := by
    apply mapM_ok_idx _ _ _ (by simp)
    intro j hj
    have hj' : j < g.length := by simpa using hj
    simp only [List.getElem_range]
    unfold argAt
    simp only [Bool.false_eq_true, if_false, Bool.false_or, decide_eq_true_eq]
    by_cases hju : j < u.length
    · rw [List.getElem?_eq_getElem hju]
      simp only [Ctx.set]
      by_cases hji : j = i
      · subst hji
        simp
      · have hne : u[j] ≠ u[i] := fun he => hji ((List.Nodup.getElem_inj_iff hu).mp he)
        simp [hne, h u[j] (List.getElem_mem hju), hv j hj' hji, List.getElem_set_ne (Ne.symm hji)]
    · rw [List.getElem?_eq_none (Nat.le_of_not_lt hju)]
      have hji : j ≠ i := by omega
      simp [Nat.not_lt.mpr (Nat.le_of_lt hj'), hv j hj' hji, List.getElem_set_ne (Ne.symm hji)]
  unfold allArgs
  rcases hn with hn | hn
  · rw [hn]
    have : ((g.length : Int) == -1) = false := by
      simp only [beq_eq_false_iff_ne, ne_eq]; omega
    simp only [this, Bool.false_eq_true, if_false, pure_eq_ok, ok_bind, Int.toNat_natCast]
    exact hmap
  · rw [hn]
    simp only [Bool.false_eq_true, if_false, pure_eq_ok, ok_bind]
    exact hmap

/-- key-only construction (`cls.fk(*keys)`, `self.args is None`): every argument comes from the variables -/
theorem allArgs_fk (ctx : Ctx α) (k : Kind) (g : List α) (u : List String) (hlen : u.length = g.length)
    (hn : k.nargs = some (g.length : Int)) (hv : ∀ j (hj : j < g.length), ctx.vars (u[j]'(hlen ▸ hj)) = some g[j]) :
    allArgs ctx k true 0 [] (some u) = .ok g := by
  have hmap : (List.range g.length).mapM (argAt ctx k true 0 [] (some u)) = .ok g := by
    apply mapM_ok_idx _ _ _ (by simp)
    intro j hj
    have hj' : j < g.length := by simpa using hj
    have hju : j < u.length := hlen ▸ hj'
    simp only [List.getElem_range]
    unfold argAt
    simp only [List.getElem?_eq_getElem hju, hv j hj']
  unfold allArgs
  rw [hn]
  have : ((g.length : Int) == -1) = false := by
    simp only [beq_eq_false_iff_ne, ne_eq]; omega
  simp only [this, Bool.false_eq_true, if_false, pure_eq_ok, ok_bind, Int.toNat_natCast]
  exact hmap

/-- … and a key-only instance whose (single) key is missing is `KeyError('Unique key missing')` -/
theorem allArgs_fk_missing (ctx : Ctx α) (k : Kind) (key : String) (hn : k.nargs = some 1) (hv : ctx.vars key = none) :
    allArgs ctx k true 0 [] (some [key]) = .error .keyError := by
  unfold allArgs
  rw [hn]
  simp only [show ((1 : Int) == -1) = false from rfl, Bool.false_eq_true, if_false, pure_eq_ok, ok_bind]
  show List.mapM _ [0] = _
  simp only [List.mapM_cons, argAt, List.getElem?_cons_zero, hv]
  rfl

end generic
theorem set_other {ctx : Ctx ℝ} {key k' : String} {v : ℝ} (h : k' ≠ key) : (ctx.set key v).vars k' = ctx.vars k' := by
  simp [Ctx.set, h]

/-- an override masks the stored argument whatever it is — a nested expression, even one whose own evaluation fails -/
theorem eval_arrhenius_override_masks (ctx : Ctx ℝ) (a0 : Val ℝ) (E T v : ℝ) (key : String) (hk : ctx.vars key = none)
    (hkT : key ≠ "temperature") (hT : ctx.vars "temperature" = some T) (hT0 : T ≠ 0) :
    eval (ctx.set key v) (.node .arrhenius false [a0, .num E] (some [key])) = .ok (v * Real.exp (-E / T)) := by
  have hT' : (ctx.set key v).vars "temperature" = some T := by rw [set_other (Ne.symm hkT)]; exact hT
  have haa := allArgs_override_masks ctx .arrhenius
    [noneArg .arrhenius (eval (childCtx .arrhenius (ctx.set key v)) a0), Except.ok E] [0, E] [key] 0 v rfl (Or.inl rfl)
    (by simp) (by simp) (by simp) (by simpa using hk)
    (by
      intro j hj hj0
      have : j = 1 := by simp at hj; omega
      subst this; rfl)
  simp only [List.length_cons, List.length_nil, List.getElem_cons_zero, List.set_cons_zero] at haa
  simp only [eval, evalList, call, List.map_cons, List.map_nil, noneArg_ok, List.length_cons, List.length_nil, haa, ok_bind,
    get_some hT', pyDiv_real hT0, exp_real, pure_eq_ok]

/-- key-only construction `Arrhenius.fk(kA, kE)`: both arguments come from the variables -/
theorem eval_arrhenius_fk (ctx : Ctx ℝ) (kA kE : String) (A E T : ℝ) (hA : ctx.vars kA = some A) (hE : ctx.vars kE = some E)
    (hT : ctx.vars "temperature" = some T) (hT0 : T ≠ 0) :
    eval ctx (.node .arrhenius true [] (some [kA, kE])) = .ok (A * Real.exp (-E / T)) := by
  have haa := allArgs_fk ctx .arrhenius [A, E] [kA, kE] rfl rfl (by
    intro j hj
    have : j = 0 ∨ j = 1 := by simp at hj; omega
    rcases this with rfl | rfl
    · exact hA
    · exact hE)
  simp only [eval, evalList, call, List.map_nil, List.length_nil, haa, ok_bind, get_some hT, pyDiv_real hT0, exp_real, pure_eq_ok]

/-- a key-only `MassAction.fk(key)` without its key is `KeyError` -/
theorem eval_massAction_fk_missing (ctx : Ctx ℝ) (key : String) (hk : ctx.vars key = none) :
    eval ctx (.node .massAction true [] (some [key])) = .error .keyError := by
  have haa := allArgs_fk_missing ctx .massAction key rfl hk
  simp only [eval, evalList, call, List.map_nil, List.length_nil, haa, error_bind]

/-- `equilibrium_equation` for an equilibrium without any substance: `K - None` is `TypeError` -/
theorem equilibriumEquation_empty (ctx : Ctx ℝ) (v : Val ℝ) (K : ℝ) (hK : eval ctx v = .ok K) :
    equilibriumEquation ctx v [] [] = .error .typeError := by
  simp [equilibriumEquation, hK, eqExponents, eqConcProd]

/-- a `create_Piecewise` instance whose stored bounds / branches are arbitrary expressions that evaluate (without the
`reaction` keyword, which `_pw` bodies do not forward) to the numbers `b` -/
theorem eval_piecewise_node_exprs (ctx : Ctx ℝ) (p : String) (args : List (Val ℝ)) (b : List ℝ) (x : ℝ) (hx : ctx.vars p = some x)
    (hargs : evalList (childCtx (.piecewise p) ctx) args = b.map Except.ok) :
    eval ctx (.node (.piecewise p) false args none) = pwBody b x := by
  have hlen : ∀ (c : Ctx ℝ) (l : List (Val ℝ)), (evalList c l).length = l.length := by
    intro c l
    induction l with
    | nil => rfl
    | cons a l ih => simp [evalList, ih]
  have hl : args.length = b.length := by
    have h1 := hlen (childCtx (.piecewise p) ctx) args
    rw [hargs] at h1
    simpa using h1.symm
  have haa := allArgs_no_override ctx (.piecewise p) b none (Or.inr rfl) (by simp)
  have hmap : (b.map (Except.ok (ε := Err))).map (noneArg (.piecewise p)) = b.map Except.ok := by
    induction b with
    | nil => rfl
    | cons a l ih => simp
  simp only [eval, call, hargs, hmap, hl, haa, ok_bind, get_some hx]

theorem eval_rampedTemp_scaled (ctx ctx' : Ctx ℝ) (T0 dTdt t s θ : ℝ) (hs : s ≠ 0) (hθ : θ ≠ 0)
    (ht : ctx.vars "time" = some t) (ht' : ctx'.vars "time" = some (t / s)) :
    eval ctx' (.node .rampedTemp false [.num (T0 / θ), .num (dTdt * s / θ)] none)
      = (eval ctx (.node .rampedTemp false [.num T0, .num dTdt] none)).map (· / θ) := by
  rw [eval_rampedTemp_node ctx' _ _ _ ht', eval_rampedTemp_node ctx _ _ _ ht]
  simp only [Except.map, Except.ok.injEq]
  field_simp

theorem eval_gibbs_scaled (ctx ctx' : Ctx ℝ) (dHR dSR T θ : ℝ) (hθ : θ ≠ 0) (hT0 : T ≠ 0)
    (hT : ctx.vars "temperature" = some T) (hT' : ctx'.vars "temperature" = some (T / θ)) :
    eval ctx' (.node .gibbsEqConst false [.num (dHR / θ), .num dSR] none)
      = eval ctx (.node .gibbsEqConst false [.num dHR, .num dSR] none) := by
  rw [eval_gibbs_node ctx' _ _ _ hT' (div_ne_zero hT0 hθ), eval_gibbs_node ctx _ _ _ hT hT0]
  congr 2
  field_simp

theorem eval_radiolytic_scaled (ctx ctx' : Ctx ℝ) (g rho d a b : ℝ)
    (hrho : ctx.vars "density" = some rho) (hd : ctx.vars "doserate" = some d)
    (hrho' : ctx'.vars "density" = some (rho * a)) (hd' : ctx'.vars "doserate" = some (d * b)) (c : ℝ) :
    eval ctx' (.node (.radiolytic [""]) false [.num (g * c)] none)
      = (eval ctx (.node (.radiolytic [""]) false [.num g] none)).map (· * (a * b * c)) := by
  have h1 := eval_radiolytic_node ctx' [] (g * c) [] (rho * a) (fun _ => d * b) "" rfl hrho' (by
    intro k hk; simp [radSuffix] at hk; subst hk; exact hd')
  have h2 := eval_radiolytic_node ctx [] g [] rho (fun _ => d) "" rfl hrho (by
    intro k hk; simp [radSuffix] at hk; subst hk; exact hd)
  simp only [List.map_cons, List.map_nil] at h1 h2
  rw [h1, h2]
  simp only [Except.map, List.zipWith_cons_cons, List.zipWith_nil_right, List.sum_cons, List.sum_nil, Except.ok.injEq]
  ring

/-! ### round 11: defaulted arguments, overrides in MassAction arithmetic, totality of the operators -/

/-- `Eyring([c0, c1], unique_keys=(k0, k1, k2))`: `__init__` appends the default `conc0 = 1`, and the THIRD key then overrides that
defaulted argument like any stored one -/
theorem eval_eyring_default_override (ctx : Ctx ℝ) (c0 c1 T v : ℝ) (k0 k1 k2 : String) (reac : List (String × ℤ))
    (hnd : [k0, k1, k2].Nodup) (hk : ∀ key ∈ [k0, k1, k2], ctx.vars key = none) (hkT : k2 ≠ "temperature")
    (hT : ctx.vars "temperature" = some T) (hT0 : T ≠ 0) (hr : ctx.rxn = .some reac) (hv : 0 < v) :
    mkNode .eyring (.list [.num c0, .num c1]) (some [k0, k1, k2])
        = .ok (.node .eyring false [.num c0, .num c1, .num 1] (some [k0, k1, k2]))
    ∧ eval (ctx.set k2 v) (.node .eyring false [.num c0, .num c1, .num 1] (some [k0, k1, k2]))
        = .ok (c0 * T * Real.exp (-c1 / T) * v ^ (1 - order reac))
    ∧ eval ctx (.node .eyring false [.num c0, .num c1, .num 1] (some [k0, k1, k2]))
        = .ok (c0 * T * Real.exp (-c1 / T) * 1 ^ (1 - order reac)) := by
  refine ⟨mkNode_eyring c0 c1 _ (by intro u hu; cases hu; simp), ?_, ?_⟩
  · have haa := allArgs_override ctx .eyring [c0, c1, 1] [k0, k1, k2] 2 v (Or.inl rfl) hnd (by simp) (by simp) hk
    simp only [List.length_cons, List.length_nil, List.map_cons, List.map_nil] at haa
    have hT' : (ctx.set k2 v).vars "temperature" = some T := by rw [set_other (Ne.symm hkT)]; exact hT
    have hr' : (ctx.set k2 v).rxn = .some reac := hr
    simp only [eval, evalList, call, List.map_cons, List.map_nil, noneArg_ok, List.length_cons, List.length_nil] 
    simp only [show ([k0, k1, k2] : List String)[2] = k2 from rfl] at haa
    simp only [haa, ok_bind, List.set_cons_succ, List.set_cons_zero, get_some hT', pyDiv_real hT0, exp_real, pure_eq_ok, rxnOf, hr',
      pow_real_int hv]
  · exact eval_eyring_node ctx c0 c1 1 T _ reac (fun u hu => by cases hu; exact hk) hT hT0 hr one_pos

/-- a named override inside `MassAction` arithmetic: `ma ∘ o` acts on the rate coefficient, and the coefficient is evaluated with the
override present — `massAction_ops` at the context `ctx.set key v` -/
theorem massAction_ops_override (ctx : Ctx ℝ) (c o e : Val ℝ) (key : String) (v k b : ℝ) (reac : List (String × ℤ)) (conc : String → ℝ)
    (hr : ctx.rxn = .some reac) (hkey : ∀ p ∈ reac, p.1 ≠ key)
    (hc : ∀ p ∈ reac, ctx.vars p.1 = some (conc p.1) ∧ 0 < conc p.1)
    (hk : eval (ctx.set key v) c = .ok k) (hb : eval (ctx.set key v) o = .ok b) (hmo : o.isMassAction = false) :
    let ma : Val ℝ := .node .massAction false [c] none
    let P := (reac.map fun p => conc p.1 ^ p.2).prod
    (pyMul ma o = .ok e → eval (ctx.set key v) e = .ok (k * b * P))
    ∧ (pyMul o ma = .ok e → eval (ctx.set key v) e = .ok (k * b * P))
    ∧ (pyDivOp ma o = .ok e → b ≠ 0 → eval (ctx.set key v) e = .ok (k / b * P))
    ∧ (pyDivOp o ma = .ok e → k ≠ 0 → eval (ctx.set key v) e = .ok (b / k * P)) :=
  massAction_ops (ctx.set key v) c o e k b reac conc hr
    (fun p hp => by rw [set_other (hkey p hp)]; exact hc p hp) hk hb hmo

theorem conv_total (v : Val ℝ) : ∃ v', conv v = .ok v' ∧ (v.isNode = true → v' = v) ∧ (constErr v = none → constErr v' = none) := by
  cases v with
  | num x => exact ⟨constNode x, rfl, by simp [Val.isNode], fun _ => rfl⟩
  | str s => exact ⟨symbolNode s, rfl, by simp [Val.isNode], fun _ => rfl⟩
  | node k na args uks => exact ⟨_, rfl, fun _ => rfl, id⟩

theorem subShort_total (o : Val ℝ) (ho : noMA o = true) : ∃ b, subShort o = .ok b := by
  cases o with
  | num x => exact ⟨_, rfl⟩
  | str s => exact ⟨_, rfl⟩
  | node k na args uks =>
    unfold subShort
    split
    · rename_i heq; cases heq
    · rename_i heq; cases heq
    · rename_i heq; cases heq; simp [noMA] at ho
    · exact ⟨false, by simp [PyNum.isScalar]⟩
    · exact ⟨false, rfl⟩

/-- success side of `operators_are_homomorphic`: when does an operator build a tree at all? -/
theorem operators_total (l r : Val ℝ) (hn : l.isNode = true ∨ r.isNode = true) (hml : noMA l = true) (hmr : noMA r = true)
    (hcl : constErr l = none) (hcr : constErr r = none) :
    (∃ e, pyAdd l r = .ok e) ∧ (∃ e, pyMul l r = .ok e) ∧ (∃ e, pyDivOp l r = .ok e) ∧ (∃ e, pyPow l r = .ok e)
    ∧ (l.isNode = true → ∃ e, pySub l r = .ok e) := by
  have hAdd : ∀ s o : Val ℝ, constErr o = none → ∃ e, exprAdd s o = .ok e := by
    intro s o hco
    obtain ⟨o', ho', _, hc'⟩ := conv_total o
    unfold exprAdd
    simp only [ho', ok_bind, hc' hco, pure_eq_ok]
    split
    · exact ⟨_, rfl⟩
    · exact ⟨_, rfl⟩
  have hMul : ∀ s o : Val ℝ, noMA s = true → noMA o = true → ∃ e, exprMul s o = .ok e := by
    intro s o hs ho
    obtain ⟨o', ho', _, _⟩ := conv_total o
    unfold exprMul
    simp only [noMA_isMA hs, noMA_isMA ho, Bool.false_eq_true, if_false, ho', ok_bind, pure_eq_ok]
    split
    · exact ⟨_, rfl⟩
    · exact ⟨_, rfl⟩
  have hRDiv : ∀ s o : Val ℝ, noMA s = true → ∃ e, exprRDiv s o = .ok e := by
    intro s o hs
    obtain ⟨o', ho', _, _⟩ := conv_total o
    unfold exprRDiv
    simp only [noMA_isMA hs, Bool.false_eq_true, if_false, ho', ok_bind, pure_eq_ok]
    exact ⟨_, rfl⟩
  have hDiv : ∀ s o : Val ℝ, noMA s = true → noMA o = true → ∃ e, exprDiv s o = .ok e := by
    intro s o hs ho
    obtain ⟨o', ho', _, _⟩ := conv_total o
    unfold exprDiv
    simp only [noMA_isMA hs, noMA_isMA ho, Bool.false_eq_true, if_false, ho', ok_bind, pure_eq_ok]
    split
    · exact ⟨_, rfl⟩
    · exact ⟨_, rfl⟩
  refine ⟨?_, ?_, ?_, ?_, ?_⟩
  · unfold pyAdd
    rcases hn with h | h
    · simp only [h, if_true]; exact hAdd l r hcr
    · by_cases h' : l.isNode = true
      · simp only [h', if_true]; exact hAdd l r hcr
      · simp only [h', Bool.false_eq_true, if_false, h, if_true]; exact hAdd r l hcl
  · unfold pyMul
    rcases hn with h | h
    · simp only [h, if_true]; exact hMul l r hml hmr
    · by_cases h' : l.isNode = true
      · simp only [h', if_true]; exact hMul l r hml hmr
      · simp only [h', Bool.false_eq_true, if_false, h, if_true]; exact hMul r l hmr hml
  · unfold pyDivOp
    rcases hn with h | h
    · simp only [h, if_true]; exact hDiv l r hml hmr
    · by_cases h' : l.isNode = true
      · simp only [h', if_true]; exact hDiv l r hml hmr
      · simp only [h', Bool.false_eq_true, if_false, h, if_true]; exact hRDiv r l hmr
  · unfold pyPow
    obtain ⟨r', hr', _, _⟩ := conv_total r
    obtain ⟨l', hl', _, _⟩ := conv_total l
    rcases hn with h | h
    · simp only [h, if_true, hr', ok_bind, pure_eq_ok]; exact ⟨_, rfl⟩
    · by_cases h' : l.isNode = true
      · simp only [h', if_true, hr', ok_bind, pure_eq_ok]; exact ⟨_, rfl⟩
      · simp only [h', Bool.false_eq_true, if_false, h, if_true, hl', ok_bind, pure_eq_ok]; exact ⟨_, rfl⟩
  · intro h
    unfold pySub
    simp only [h, if_true]
    obtain ⟨b, hb⟩ := subShort_total r hmr
    obtain ⟨r', hr', _, _⟩ := conv_total r
    unfold exprSub
    simp only [hb, ok_bind, hr', pure_eq_ok]
    cases b
    · exact ⟨_, rfl⟩
    · exact ⟨_, rfl⟩

theorem arrheniusRateExpr_too_many_keys (a e : ℝ) (u : List String) (hu : 2 < u.length) :
    arrheniusRateExpr a e (some u) = .error .valueError := by
  have h : ((u.length : Int) > 2) := by exact_mod_cast hu
  simp [arrheniusRateExpr, mkNode, Kind.nargs, Kind.argNames, Kind.nargsCls, Kind.defaults, h]

theorem eyringRateExpr_too_many_keys (a e : ℝ) (u : List String) (hu : 3 < u.length) :
    eyringRateExpr a e (some u) = .error .valueError := by
  have h : ((u.length : Int) > 3) := by exact_mod_cast hu
  simp [eyringRateExpr, mkNode, Kind.nargs, Kind.argNames, Kind.nargsCls, Kind.defaults, lastN, h]

end ChemModel.PyExpr
