/-
Formula-level helper lemmas for Props/C14.lean: the mass of the composition parsed from a rendered
formula AST (C01 round trip, `roundtrip_core` = Props/C01 `parse_render`) equals the occurrence-based
specification `occurrenceMass`, plus the AST-level corollaries (hydrate parts, group multiplier, ion).
-/
import ChemModel.Proofs.Periodic
import ChemModel.Proofs.FormulaSuffix
import ChemModel.Proofs.FormulaFormat
import Mathlib.Algebra.BigOperators.Group.Finset.Piecewise
import Mathlib.Algebra.BigOperators.Ring.Finset

namespace ChemModel.Periodic
open ChemModel.Gen
open ChemModel.Formula (Formula Terms Term Part Charge total)

/-! ### linear functionals of a composition are functions of the per-key totals -/

/-- Σ over the entries of `amount × u key` -/
def lin (u : Nat → Rat) (c : List (Nat × Rat)) : Rat := (c.map fun p => p.2 * u p.1).sum

theorem lin_nil (u : Nat → Rat) : lin u [] = 0 := rfl

theorem lin_cons (u : Nat → Rat) (p : Nat × Rat) (c : List (Nat × Rat)) :
    lin u (p :: c) = p.2 * u p.1 + lin u c := by
  simp only [lin, List.map_cons, List.sum_cons]

theorem lin_append (u : Nat → Rat) (a b : List (Nat × Rat)) : lin u (a ++ b) = lin u a + lin u b := by
  simp only [lin, List.map_append, List.sum_append]

theorem lin_eq_finset (u : Nat → Rat) (c : List (Nat × Rat)) (K : Finset Nat)
    (hK : ∀ k ∈ Formula.Comp.keys c, k ∈ K) : lin u c = ∑ k ∈ K, total c k * u k := by
  induction c with
  | nil => simp [lin, total]
  | cons p r ih =>
    obtain ⟨k0, v0⟩ := p
    have hk0 : k0 ∈ K := hK k0 (by simp [Formula.Comp.keys])
    have hr : ∀ k ∈ Formula.Comp.keys r, k ∈ K := fun k hk => hK k (by
      simp only [Formula.Comp.keys, List.map_cons, List.mem_cons] at hk ⊢; exact Or.inr hk)
    rw [lin_cons, ih hr]
    simp only [total, add_mul, Finset.sum_add_distrib, ite_mul, zero_mul]
    rw [Finset.sum_ite_eq K k0 (fun k => v0 * u k), if_pos hk0]

/-- if the per-key totals of `a` are `m` times those of `b`, so is every linear functional -/
theorem lin_congr (u : Nat → Rat) (a b : List (Nat × Rat)) (m : Rat)
    (h : ∀ k, total a k = m * total b k) : lin u a = m * lin u b := by
  classical
  let K : Finset Nat := (Formula.Comp.keys a).toFinset ∪ (Formula.Comp.keys b).toFinset
  have ha : ∀ k ∈ Formula.Comp.keys a, k ∈ K := fun k hk => by
    simp only [K, Finset.mem_union, List.mem_toFinset]; exact Or.inl hk
  have hb : ∀ k ∈ Formula.Comp.keys b, k ∈ K := fun k hk => by
    simp only [K, Finset.mem_union, List.mem_toFinset]; exact Or.inr hk
  rw [lin_eq_finset u a K ha, lin_eq_finset u b K hb, Finset.mul_sum]
  apply Finset.sum_congr rfl
  intro k _
  rw [h k, mul_assoc]

/-! ### `massSum` as a plain sum -/

/-- mass of one unit of key `k` as a plain number -/
def unitOf (k : Nat) : Rat := if k = 0 then -electronMass else stdWeight k

theorem weight?_eq_stdWeight (z : Nat) (h1 : 1 ≤ z) (h2 : z ≤ 118) : weight? z = some (stdWeight z) := by
  have hs : (unitMass z).isSome := (unitMass_isSome z).mpr h2
  have hz : z ≠ 0 := by omega
  unfold unitMass at hs
  rw [if_neg hz] at hs
  unfold stdWeight
  cases hw : weight? z with
  | none => rw [hw] at hs; cases hs
  | some w => rfl

theorem unitMass_eq_unitOf (k : Nat) (h : k ≤ 118) : unitMass k = some (unitOf k) := by
  unfold unitMass unitOf
  split
  · rfl
  · next hk => exact weight?_eq_stdWeight k (by omega) h

theorem entryMass_eq (p : Nat × Rat) : entryMass p = p.2 * unitOf p.1 := by
  unfold entryMass unitOf
  split
  · rw [mul_neg]
  · rfl

theorem map_entryMass_sum (c : List (Nat × Rat)) : (c.map entryMass).sum = lin unitOf c := by
  unfold lin
  congr 1
  apply List.map_congr_left
  intro p _
  exact entryMass_eq p

theorem massSum_eq_lin (c : Comp) (h : ∀ p ∈ c, p.1 ≤ 118) : massSum c = some (lin unitOf c) := by
  induction c with
  | nil => rfl
  | cons p r ih =>
    obtain ⟨k, v⟩ := p
    have hk : k ≤ 118 := h (k, v) (List.mem_cons_self)
    have hr := ih fun q hq => h q (List.mem_cons_of_mem _ hq)
    rw [massSum_cons_of (unitMass_eq_unitOf k hk) hr, lin_cons]

/-- `mass_from_composition` against the independent per-entry sum, with its success condition -/
theorem massFromComposition_eq_entrySum (c : Comp) :
    massFromComposition c = if ∀ p ∈ c, p.1 ≤ 118 then some (c.map entryMass).sum else none := by
  split
  · next h => rw [massFromComposition_eq_sum, massSum_eq_lin c h, map_entryMass_sum]
  · next h =>
    have := (mass_isSome_iff c).not.mpr h
    cases hm : massFromComposition c with
    | none => rfl
    | some m => rw [hm] at this; exact absurd rfl this

/-! ### the mass of a rendered formula -/

theorem lin_unitOf_occ (c : List (Nat × Rat)) (h : ∀ k ∈ Formula.Comp.keys c, 1 ≤ k) :
    lin unitOf c = lin stdWeight c := by
  unfold lin
  congr 1
  apply List.map_congr_left
  intro p hp
  have : 1 ≤ p.1 := h p.1 (List.mem_map_of_mem (f := Prod.fst) hp)
  unfold unitOf
  rw [if_neg (by omega)]

theorem occurrenceMass_eq (f : Formula) :
    occurrenceMass f = lin stdWeight f.occurrences - f.denote 0 * electronMass := rfl

/-- every occurring element of a well-formed formula is in the table -/
theorem occurrence_keys_in_table (f : Formula) (h : f.WF) :
    ∀ p ∈ f.occurrences, 1 ≤ p.1 ∧ p.1 ≤ 118 := by
  intro p hp
  exact Formula.occ_keys_pos f.parts (Formula.Formula.wfd f h).parts p.1
    (List.mem_map_of_mem (f := Prod.fst) hp)

theorem mass_of_agrees (f : Formula) (h : f.WF) (c : List (Nat × Rat)) (ha : Formula.Agrees f c) :
    massFromComposition c = some (occurrenceMass f) := by
  have hpos : ∀ k ∈ Formula.Comp.keys f.occurrences, 1 ≤ k ∧ k ≤ 118 :=
    Formula.occ_keys_pos f.parts (Formula.Formula.wfd f h).parts
  have h0occ : total f.occurrences 0 = 0 :=
    Formula.total_not_mem _ 0 (fun hm => by have := hpos 0 hm; omega)
  -- all keys are in the table
  have hkeys : ∀ p ∈ c, p.1 ≤ 118 := by
    intro p hp
    have hm : p.1 ∈ Formula.Comp.keys c := List.mem_map_of_mem (f := Prod.fst) hp
    rcases (ha.keys p.1).mp hm with hk | ⟨hk, _⟩
    · exact (hpos p.1 hk).2
    · omega
  -- per-key totals of the parsed dict = totals of the occurrences, plus the charge on key 0
  have htot : ∀ k, total c k = 1 * total (f.occurrences ++ [(0, f.denote 0)]) k := by
    intro k
    rw [one_mul, Formula.total_append]
    by_cases hk : k ∈ Formula.Comp.keys c
    · have hv : total c k = f.denote k := by
        have h1 := Formula.get?_some c k ha.nodup hk
        rw [ha.value k hk] at h1
        exact (Option.some.inj h1).symm
      rw [hv]
      by_cases hk0 : k = 0
      · subst hk0; rw [h0occ]; simp [total]
      · have : f.denote k = total f.occurrences k := by simp [Formula.Formula.denote, hk0]
        rw [this]; simp [total, Ne.symm hk0]
    · rw [Formula.total_not_mem c k hk]
      have hnot := (ha.keys k).not.mp hk
      have hocc : k ∉ Formula.Comp.keys f.occurrences := fun hm => hnot (Or.inl hm)
      rw [Formula.total_not_mem _ k hocc]
      by_cases hk0 : k = 0
      · subst hk0
        have hch : f.charge.isSome ≠ true := fun hs => hnot (Or.inr ⟨rfl, hs⟩)
        have : f.denote 0 = 0 := by
          cases hc : f.charge with
          | none => simp [Formula.Formula.denote, hc]
          | some ch => rw [hc] at hch; exact absurd rfl hch
        rw [this]; simp [total]
      · simp [total, Ne.symm hk0]
  rw [massFromComposition_eq_sum, massSum_eq_lin c hkeys, lin_congr unitOf _ _ 1 htot, one_mul, lin_append,
    lin_unitOf_occ _ (fun k hk => (hpos k hk).1), occurrenceMass_eq]
  congr 1
  simp only [lin, List.map_cons, List.map_nil, List.sum_cons, List.sum_nil, unitOf, if_true]
  ring

theorem formulaMass_render (f : Formula) (h : f.WF) : formulaMass f.renderStr = .ok (occurrenceMass f) := by
  obtain ⟨c, hc, ha⟩ := Formula.roundtrip_core f h (Formula.noSuffixEnd_of_wf f (Formula.Formula.wfd f h))
  have hc' : Formula.formulaToCompositionWith prefixesL suffixesL f.renderStr.toList = .ok c := hc
  unfold formulaMass formulaMassWith
  rw [hc']
  simp only [mass_of_agrees f h c ha]

theorem defaultPhases_extra : defaultPhases ++ speciesExtraSuffixes = suffixesL := by decide

theorem speciesExtra_sub : ∀ s ∈ speciesExtraSuffixes, s ∈ suffixesL := by decide
theorem speciesExtra_eq : speciesExtraSuffixes = [['(', 'a', 'q', ')']] := by decide

/-- `mass_from_composition(formula_to_composition(text, suffixes=sfxs))` on a rendered well-formed formula does not depend
    on the suffix list, as long as the list is drawn from the default vocabulary and contains the written suffix -/
theorem formulaMassWith_render (f : Formula) (h : f.WF) (sfxs : List (List Char))
    (hok : ChemModel.FormulaFormat.SfxOK sfxs f) :
    formulaMassWith prefixesL sfxs f.renderStr.toList = .ok (occurrenceMass f) := by
  have hd := Formula.Formula.wfd f h
  have hr : f.renderStr.toList = f.render := by
    simp only [Formula.Formula.renderStr, String.toList_ofList]
  have hparts : Formula.formulaToCompositionWith prefixesL sfxs f.render
      = Formula.formulaToCompositionWith prefixesL suffixesL f.render := by
    unfold Formula.formulaToCompositionWith
    rw [ChemModel.FormulaFormat.formulaToParts_render' f hd sfxs hok,
      ChemModel.FormulaFormat.formulaToParts_render' f hd suffixesL (ChemModel.FormulaFormat.sfxOK_default f hd)]
  have h0 := formulaMass_render f h
  unfold formulaMass at h0
  unfold formulaMassWith at h0 ⊢
  rw [hr] at h0 ⊢
  rw [hparts]
  exact h0

/-- `Species.from_formula(render f, phases).mass` for any `phases` over the default suffix vocabulary that (together
    with "(aq)") contain the written suffix -/
theorem speciesMass_render_gen (f : Formula) (h : f.WF) (phases : List (List Char))
    (hsub : ∀ s ∈ phases, s ∈ suffixesL)
    (hmem : ∀ s, f.suffix = some s → s ∈ phases ∨ s = ['(', 'a', 'q', ')']) :
    speciesMass phases f.renderStr = .ok (occurrenceMass f) := by
  unfold speciesMass
  apply formulaMassWith_render f h
  refine ⟨fun s hs => ?_, fun s hs => ?_⟩
  · rcases List.mem_append.mp hs with h1 | h1
    · exact hsub s h1
    · exact speciesExtra_sub s h1
  · rcases hmem s hs with h1 | h1
    · exact List.mem_append.mpr (Or.inl h1)
    · exact List.mem_append.mpr (Or.inr (by rw [speciesExtra_eq, h1]; exact List.mem_singleton.mpr rfl))

theorem speciesMass_render (f : Formula) (h : f.WF) :
    speciesMass defaultPhases f.renderStr = .ok (occurrenceMass f) := by
  unfold speciesMass
  rw [defaultPhases_extra]
  exact formulaMass_render f h

theorem soluteMass_render (f : Formula) (h : f.WF) : soluteMass f.renderStr = .ok (occurrenceMass f) :=
  formulaMass_render f h

/-- when does `Substance.from_formula(s).mass` return at all -/
theorem formulaMass_ok_iff (s : String) :
    (∃ m, formulaMass s = .ok m) ↔
      ∃ c, Formula.formulaToComposition s = .ok c ∧ ∀ p ∈ c, p.1 ≤ 118 := by
  have hdef : Formula.formulaToComposition s = Formula.formulaToCompositionWith prefixesL suffixesL s.toList := rfl
  unfold formulaMass formulaMassWith
  rw [hdef]
  cases hc : Formula.formulaToCompositionWith prefixesL suffixesL s.toList with
  | error e => simp
  | ok c =>
    simp only [Except.ok.injEq, exists_eq_left']
    rw [← mass_isSome_iff c]
    cases hm : massFromComposition c with
    | none => simp
    | some m => simp

/-! ### corollaries on ASTs -/

theorem lin_occ_scale (u : Nat → Rat) (ts : Terms) (m : Rat) : lin u (ts.occ m) = m * lin u (ts.occ 1) :=
  lin_congr u _ _ m (Formula.Terms.total_occ ts m)

theorem denote_zero_eq (f g : Formula) (h : f.charge = g.charge) : f.denote 0 = g.denote 0 := by
  simp [Formula.Formula.denote, h]

theorem occurrenceMass_bare (ts : Terms) : occurrenceMass (bareFormula ts) = lin stdWeight (ts.occ 1) := by
  rw [occurrenceMass_eq]
  simp [bareFormula, Formula.Formula.occurrences, Formula.Formula.denote, Formula.Part.mult]

/-- hydrate parts: the last part contributes its leading count times the mass of its terms -/
theorem occurrenceMass_snoc (f : Formula) (ps : List Part) (p : Part) (hp : f.parts = ps ++ [p]) :
    occurrenceMass f = occurrenceMass { f with parts := ps } + p.mult * occurrenceMass (bareFormula p.terms) := by
  rw [occurrenceMass_bare, occurrenceMass_eq, occurrenceMass_eq,
    denote_zero_eq { f with parts := ps } f rfl]
  simp only [Formula.Formula.occurrences, hp, List.flatMap_append, List.flatMap_cons, List.flatMap_nil,
    List.append_nil, lin_append]
  rw [lin_occ_scale stdWeight p.terms p.mult]
  ring

/-- a group multiplier scales the mass of the group's content -/
theorem occurrenceMass_group (b : Formula.Br) (body : Terms) (n : Formula.Cnt) (st : Option Formula.St)
    (marks : List Char) :
    occurrenceMass (bareFormula (.cons (.group b body n st marks) .nil))
      = n.val * occurrenceMass (bareFormula body) := by
  rw [occurrenceMass_bare, occurrenceMass_bare]
  simp only [Formula.Terms.occ, Formula.Term.occ, List.append_nil, one_mul]
  exact lin_occ_scale stdWeight body n.val

/-- an ion and its neutral parent -/
theorem occurrenceMass_charge (f : Formula) (c : Charge) (hc : f.charge = some c) :
    occurrenceMass f = occurrenceMass { f with charge := none } - (c.val : Rat) * electronMass := by
  rw [occurrenceMass_eq, occurrenceMass_eq]
  have h1 : f.denote 0 = (c.val : Rat) := by simp [Formula.Formula.denote, hc]
  have h2 : ({ f with charge := none } : Formula).denote 0 = 0 := by simp [Formula.Formula.denote]
  rw [h1, h2]
  simp only [Formula.Formula.occurrences]
  ring

/-- all hydrate parts: the occurrence sum splits into leading count × the part's own occurrence sum -/
theorem lin_parts (ps : List Part) :
    lin stdWeight (ps.flatMap fun p => p.terms.occ p.mult)
      = (ps.map fun p => p.mult * occurrenceMass (bareFormula p.terms)).sum := by
  induction ps with
  | nil => rfl
  | cons p r ih =>
    rw [List.flatMap_cons, lin_append, ih, List.map_cons, List.sum_cons, occurrenceMass_bare,
      lin_occ_scale stdWeight p.terms p.mult]

theorem occurrenceMass_parts (f : Formula) :
    occurrenceMass f = (f.parts.map fun p => p.mult * occurrenceMass (bareFormula p.terms)).sum
      - f.denote 0 * electronMass := by
  rw [occurrenceMass_eq]
  unfold Formula.Formula.occurrences
  rw [lin_parts]

end ChemModel.Periodic
