/-
C13: `formula_to_latex` on formulas WITH `{ }` groups.
The braces of the whole text are escaped (`{` ↦ `\{`, `}` ↦ `\}`) before `_formula_to_parts`; braces and the backslash are not
prefix / suffix / charge / separator characters, so peeling, splitting and the leading integer commute with the escaping, and the
digit-run scan of an escaped term list gives the LaTeX presentation with `\{ … \}`.
-/
import ChemModel.Proofs.FormulaFormatInst

set_option linter.constructorNameAsVariable false

namespace ChemModel.FormulaFormat
open ChemModel.Formula ChemModel.Gen

local notation "E" => escapeBraces

/-! ### the escaping -/

theorem E_nil : E [] = [] := rfl

theorem E_append (a b : Str) : E (a ++ b) = E a ++ E b := by simp [escapeBraces, List.flatMap_append]

theorem E_cons (c : Char) (r : Str) : E (c :: r) = (if c = '{' ∨ c = '}' then ['\\', c] else [c]) ++ E r := by
  simp [escapeBraces, List.flatMap_cons]

theorem E_cons_nb {c : Char} (h : nbB c = true) (r : Str) : E (c :: r) = c :: E r := by
  simp only [nbB, Bool.and_eq_true, bne_iff_ne, ne_eq] at h
  simp [E_cons, h.1, h.2]

theorem E_cons_brace {c : Char} (h : c = '{' ∨ c = '}') (r : Str) : E (c :: r) = '\\' :: c :: E r := by
  simp [E_cons, h]

theorem nb_or_brace (c : Char) : nbB c = true ∨ (c = '{' ∨ c = '}') := by
  by_cases h1 : c = '{'
  · exact Or.inr (Or.inl h1)
  · by_cases h2 : c = '}'
    · exact Or.inr (Or.inr h2)
    · exact Or.inl (by simp [nbB, h1, h2])

theorem mem_E {c : Char} {x : Str} (h : c ∈ E x) : c ∈ x ∨ c = '\\' := by
  induction x with
  | nil => simp [E_nil] at h
  | cons a x ih =>
    rcases nb_or_brace a with ha | ha
    · rw [E_cons_nb ha] at h
      rcases List.mem_cons.mp h with e | e
      · exact Or.inl (by simp [e])
      · rcases ih e with e' | e'
        · exact Or.inl (by simp [e'])
        · exact Or.inr e'
    · rw [E_cons_brace ha] at h
      simp only [List.mem_cons] at h
      rcases h with e | e | e
      · exact Or.inr e
      · exact Or.inl (by simp [e])
      · rcases ih e with e' | e'
        · exact Or.inl (by simp [e'])
        · exact Or.inr e'

theorem mem_E_of_mem {c : Char} {x : Str} (h : c ∈ x) : c ∈ E x := by
  induction x with
  | nil => simp at h
  | cons a x ih =>
    rcases List.mem_cons.mp h with e | e
    · subst e
      rcases nb_or_brace c with ha | ha
      · rw [E_cons_nb ha]; simp
      · rw [E_cons_brace ha]; simp
    · have := ih e
      rcases nb_or_brace a with ha | ha
      · rw [E_cons_nb ha]; simp [this]
      · rw [E_cons_brace ha]; simp [this]

/-- a character that is neither a brace nor the backslash -/
def spB (c : Char) : Bool := nbB c && c != '\\'

theorem noBrace_of_E_sp {x : Str} (h : ∀ c ∈ E x, nbB c = true) : NoBrace x :=
  fun c hc => h c (mem_E_of_mem hc)

/-- a text free of braces and backslashes that ends the escaped text already ends the original text -/
theorem suffix_E {s : Str} (hs : ∀ c ∈ s, spB c = true) : ∀ x : Str, s <:+ E x → s <:+ x := by
  intro x
  induction x with
  | nil => intro h; simpa [E_nil] using h
  | cons a x ih =>
    intro h
    have hwhole : ∀ t : Str, s = t ++ E x → (∀ c ∈ t, c ∈ s) := fun t e c hc => by rw [e]; simp [hc]
    rcases nb_or_brace a with ha | ha
    · rw [E_cons_nb ha] at h
      rcases List.suffix_cons_iff.mp h with e | e
      · -- s = a :: E x: E x is brace-free, so E x = x
        have hx : NoBrace x := noBrace_of_E_sp (fun c hc => by
          have := hs c (by rw [e]; simp [hc])
          simp only [spB, Bool.and_eq_true] at this; exact this.1)
        rw [e, escapeBraces_noBrace hx]
        exact List.suffix_refl _
      · exact (ih e).trans (List.suffix_cons a x)
    · rw [E_cons_brace ha] at h
      rcases List.suffix_cons_iff.mp h with e | e
      · exfalso
        have := hs '\\' (by rw [e]; simp)
        exact absurd this (by decide)
      · rcases List.suffix_cons_iff.mp e with e2 | e2
        · exfalso
          have := hs a (by rw [e2]; simp)
          rcases ha with ha | ha <;> (subst ha; exact absurd this (by decide))
        · exact (ih e2).trans (List.suffix_cons a x)

/-! ### splitting commutes with the escaping -/

theorem contains_E (x : Str) : (E x).contains '·' = x.contains '·' := by
  have : '·' ∈ E x ↔ '·' ∈ x := ⟨fun h => by
    rcases mem_E h with h1 | h1
    · exact h1
    · exact absurd h1 (by decide), mem_E_of_mem⟩
  simp only [List.contains_eq_mem]
  by_cases h : '·' ∈ x
  · simp [h, this.mpr h]
  · have h2 : ¬ '·' ∈ E x := fun h' => h (this.mp h')
    simp [h, h2]

theorem splitChar_E (x : Str) :
    splitChar '·' (E x) = (E (splitChar '·' x).1, (splitChar '·' x).2.map escapeBraces) := by
  induction x with
  | nil => rfl
  | cons a x ih =>
    rcases nb_or_brace a with ha | ha
    · rw [E_cons_nb ha]
      by_cases e : a = '·'
      · simp [splitChar, ih, e, E_nil]
      · simp [splitChar, ih, e, E_cons_nb ha]
    · have h1 : a ≠ '·' := by rcases ha with ha | ha <;> (subst ha; decide)
      rw [E_cons_brace ha]
      simp [splitChar, ih, h1, E_cons_brace ha]

theorem splitDD_E_aux (x : Str) :
    (splitDD (E x) = (E (splitDD x).1, (splitDD x).2.map escapeBraces)) ∧
    (∀ c, splitDD (E (c :: x)) = (E (splitDD (c :: x)).1, (splitDD (c :: x)).2.map escapeBraces)) := by
  induction x with
  | nil =>
    refine ⟨rfl, fun c => ?_⟩
    rcases nb_or_brace c with hc | hc
    · rw [E_cons_nb hc, E_nil]
      by_cases e : c = '.'
      · subst e; rfl
      · rw [splitDD_cons_ne c [] e]; simp [splitDD, E_cons_nb hc, E_nil]
    · have h1 : c ≠ '.' := by rcases hc with hc | hc <;> (subst hc; decide)
      rw [E_cons_brace hc, E_nil, splitDD_cons_ne _ _ (by decide), splitDD_cons_ne c [] h1]
      simp [splitDD, E_cons_brace hc, E_nil]
  | cons a x ih =>
    refine ⟨ih.2 a, fun c => ?_⟩
    rcases nb_or_brace c with hc | hc
    · rw [E_cons_nb hc]
      by_cases e : c = '.'
      · subst e
        -- '.' :: a :: x
        by_cases e2 : a = '.'
        · subst e2
          rw [E_cons_nb (by decide), splitDD_dd, splitDD_dd, ih.1]
          simp [E_nil]
        · -- head of E (a :: x) is not '.'
          rcases nb_or_brace a with ha | ha
          · rw [E_cons_nb ha, splitDD_dot_digit a _ e2, splitDD_dot_digit a _ e2, ← E_cons_nb ha, ih.2 a]
            simp [E_cons_nb (show nbB '.' = true by decide)]
          · rw [E_cons_brace ha, splitDD_dot_digit '\\' _ (by decide), splitDD_dot_digit a _ e2, ← E_cons_brace ha, ih.2 a]
            simp [E_cons_nb (show nbB '.' = true by decide)]
      · rw [splitDD_cons_ne c _ e, splitDD_cons_ne c _ e, ih.2 a]
        simp [E_cons_nb hc]
    · have h1 : c ≠ '.' := by rcases hc with hc | hc <;> (subst hc; decide)
      rw [E_cons_brace hc, splitDD_cons_ne _ _ (by decide), splitDD_cons_ne c _ h1, splitDD_cons_ne c _ h1, ih.2 a]
      simp [E_cons_brace hc]

theorem splitDD_E (x : Str) : splitDD (E x) = (E (splitDD x).1, (splitDD x).2.map escapeBraces) := (splitDD_E_aux x).1

/-! ### brace-free pieces of a rendered formula -/

theorem noBrace_prefixes (f : Formula) (hd : f.WFd) : NoBrace f.prefixes.flatten := by
  intro c hc
  obtain ⟨p, hp, hcp⟩ := List.mem_flatten.mp hc
  have key : ∀ q ∈ prefixesL, ∀ c ∈ q, nbB c = true := by decide
  exact key p (hd.prefixes.subset hp) c hcp

theorem noBrace_charge (f : Formula) (hd : f.WFd) : NoBrace (renderCharge f.charge) := by
  cases hc : f.charge with
  | none => exact NoBrace.nil
  | some c =>
    simp only [renderCharge, Charge.render_eq]
    exact NoBrace.cons (by cases c.neg <;> decide) (noBrace_digits (chargeDigits_digits c (hd.charge c hc)))

theorem noBrace_suffix (f : Formula) (hd : f.WFd) : NoBrace (renderSuffix f.suffix) := by
  cases hs : f.suffix with
  | none => exact NoBrace.nil
  | some sx =>
    have key : ∀ q ∈ suffixesL, ∀ c ∈ q, nbB c = true := by decide
    exact key sx (hd.suffix sx hs)

/-! ### `_formula_to_parts` on the escaped text -/

theorem prefixes_no_backslash : ∀ p ∈ prefixesL, ∀ rest : Str, ¬ p <+: '\\' :: rest := by
  have key : prefixesL.all (fun p => match p with | [] => false | h :: _ => h != '\\') = true := by decide
  intro p hp rest hpre
  have := List.all_eq_true.mp key p hp
  cases p with
  | nil => simp at this
  | cons a t =>
    have e : a = '\\' := (List.cons_prefix_cons.mp hpre).1
    rw [e] at this
    simp at this

theorem suffixes_special_free : ∀ s ∈ suffixesL, ∀ c ∈ s, spB c = true := by decide

theorem chargeFree_E {x : Str} (h : ChargeFree x) : ChargeFree (E x) :=
  ⟨fun hc => by rcases mem_E hc with e | e; exact h.slash e; exact absurd e (by decide),
   fun hc => by rcases mem_E hc with e | e; exact h.plus e; exact absurd e (by decide),
   fun hc => by rcases mem_E hc with e | e; exact h.minus e; exact absurd e (by decide)⟩

theorem formulaToParts_renderE (f : Formula) (hd : f.WFd) (sfxs : List Str) (hok : SfxOK sfxs f) :
    formulaToParts prefixesL sfxs (E f.render)
      = .ok ⟨E f.renderStoich, f.charge.map Charge.render, f.prefixes, suffixList f.suffix⟩ := by
  have hsfx := noSuffixEnd_of_wf f hd
  let body := E f.renderStoich ++ renderCharge f.charge
  let sfx : Str := renderSuffix f.suffix
  have hbody : body = E (f.renderStoich ++ renderCharge f.charge) := by
    simp [body, E_append, escapeBraces_noBrace (noBrace_charge f hd)]
  have hrender : E f.render = f.prefixes.flatten ++ (body ++ sfx) := by
    simp [Formula.render, E_append, body, sfx, escapeBraces_noBrace (noBrace_prefixes f hd),
      escapeBraces_noBrace (noBrace_charge f hd), escapeBraces_noBrace (noBrace_suffix f hd), List.append_assoc]
  obtain ⟨c, rest, he, hc⟩ := renderStoich_head f hd []
  simp only [List.append_nil] at he
  have hstart : ∀ p ∈ prefixesL, ¬ p <+: body ++ sfx := by
    intro p hp
    simp only [body, he, List.append_assoc]
    rcases nb_or_brace c with hcb | hcb
    · rw [E_cons_nb hcb]; exact prefix_not_start p hp c _ hc
    · rw [E_cons_brace hcb]; exact prefixes_no_backslash p hp _
  have hstrip := stripPrefixes_sublist prefixesL prefixes_incomparable f.prefixes hd.prefixes (body ++ sfx) hstart
  have hno : ∀ s ∈ sfxs, ¬ s <:+ body := by
    intro s hs hsuf
    rw [hbody] at hsuf
    exact hsfx s (hok.sub s hs) (suffix_E (suffixes_special_free s (hok.sub s hs)) _ hsuf)
  have hsuff : stripSuffixes sfxs (body ++ sfx) = (suffixList f.suffix, body) := by
    cases hs : f.suffix with
    | none =>
      have : sfx = [] := by simp [sfx, hs, renderSuffix]
      rw [this, List.append_nil]
      exact stripSuffixes_none' sfxs body hno
    | some s =>
      have : sfx = s := by simp [sfx, hs, renderSuffix]
      rw [this]
      exact stripSuffixes_one'' sfxs hok.inc body s (hok.mem s hs) hno
  have hcf : ChargeFree (E f.renderStoich) := chargeFree_E (renderParts_chargeFree f.sep f.parts hd.parts)
  have := charge_cascade (E f.renderStoich) hcf f.charge hd.charge f.prefixes (suffixList f.suffix)
  have hrev : (suffixList f.suffix).reverse = suffixList f.suffix := by cases f.suffix <;> rfl
  simp only [formulaToParts, hrender, hstrip, hsuff, hrev]
  exact this

/-! ### hydrate split and leading integer on the escaped text -/

theorem split_stoichE (sep : Sep) (p : Part) (ps : List Part) (h : ∀ q ∈ p :: ps, q.wf = true) :
    (if (E (renderParts sep (p :: ps))).contains '·' then splitChar '·' (E (renderParts sep (p :: ps)))
      else splitDD (E (renderParts sep (p :: ps)))) = (E p.render, ps.map (fun q => E q.render)) := by
  have h0 := split_stoich sep p ps h
  rw [contains_E, splitChar_E, splitDD_E]
  by_cases hc : (renderParts sep (p :: ps)).contains '·' = true
  · rw [if_pos hc] at h0 ⊢
    rw [h0]; simp
  · rw [if_neg hc] at h0 ⊢
    rw [h0]; simp

theorem startC_E_head {c : Char} {rest : Str} (hc : StartC c) :
    ∃ d rest', E (c :: rest) = d :: rest' ∧ d.isDigit = false ∧ d ≠ '.' := by
  rcases nb_or_brace c with hcb | hcb
  · exact ⟨c, E rest, E_cons_nb hcb rest, (startC_followC hc).notDigit, (startC_followC hc).notDot⟩
  · exact ⟨'\\', c :: E rest, E_cons_brace hcb rest, by decide, by decide⟩

theorem getLeadingInteger_partE (p : Part) (h : p.wf = true) :
    getLeadingInteger (E p.render) = (partMult p, E p.terms.render) := by
  obtain ⟨hn, ht, hne⟩ := Part.wf_iff p h
  obtain ⟨c, rest, he, hc⟩ := Terms.render_head p.terms ht hne []
  simp only [List.append_nil] at he
  obtain ⟨d, rest', hE, hd1, _⟩ := startC_E_head (rest := rest) hc
  have hstop : ∀ x, (E p.terms.render).head? = some x → x.isDigit = false := by
    intro x hx; rw [he, hE] at hx; simp at hx; subst hx; exact hd1
  unfold Part.render partMult
  cases hp : p.n with
  | none =>
    have h0 : takeDigits (E p.terms.render) = ([], E p.terms.render) := by
      simpa using takeDigits_append [] (E p.terms.render) (by simp) hstop
    simp [getLeadingInteger, h0]
  | some ds =>
    obtain ⟨hne', hdg⟩ := hn ds hp
    have h0 := takeDigits_append ds (E p.terms.render) hdg hstop
    simp [getLeadingInteger, E_append, escapeBraces_noBrace (noBrace_digits hdg), h0, hne']

/-! ### the digit-run scan of an escaped term list -/

theorem E_br (b : Br) : E [b.op] = latexPres.op b ∧ E [b.cl] = latexPres.cl b := by cases b <;> exact ⟨rfl, rfl⟩

theorem latex_br_chars (b : Br) :
    (∀ c ∈ latexPres.op b, c.isDigit = false) ∧ (∀ c ∈ latexPres.cl b, c.isDigit = false) ∧
    (∃ d t, latexPres.cl b = d :: t ∧ d.isDigit = false ∧ d ≠ '.') := by
  cases b
  · exact ⟨by decide, by decide, ⟨')', [], rfl, by decide, by decide⟩⟩
  · exact ⟨by decide, by decide, ⟨']', [], rfl, by decide, by decide⟩⟩
  · exact ⟨by decide, by decide, ⟨'\\', ['}'], rfl, by decide, by decide⟩⟩

theorem E_tail (n : Cnt) (hn : n.wf = true) (st : Option St) (marks : Str) (hm : ∀ c ∈ marks, isMark c = true) :
    E (n.render ++ (stText st ++ marks)) = n.render ++ (stText st ++ marks) :=
  escapeBraces_noBrace (noBrace_tail n hn st marks hm)

theorem stops_E_terms (ts : Terms) (h : ts.wf = true) (hne : ts.isNil = false) (r : Str) : Stops (E ts.render ++ r) := by
  obtain ⟨c, rest, he, hc⟩ := Terms.render_head ts h hne []
  simp only [List.append_nil] at he
  obtain ⟨d, rest', hE, hd1, hd2⟩ := startC_E_head (rest := rest) hc
  rw [he, hE]
  exact stops_cons hd1 hd2

section
variable (sub : Str → Option Str) (hS : SubSpec sub latexPres (fun b => b != .curly))
include hS

mutual
theorem go_out_termE : ∀ (t : Term), t.wf = true → ∀ r, Stops r →
      subRunsGo sub .out (E t.render ++ r) = (subRunsGo sub .out r).map (presTerm latexPres t ++ ·)
  | .elem z n st marks, h, r, hr => by
    have hnb : NoBrace (Term.elem z n st marks).render := noBrace_term _ h rfl
    rw [escapeBraces_noBrace hnb]
    exact go_out_term sub hS _ h rfl r hr
  | .group b body n st marks, h, r, hr => by
    obtain ⟨hbw, _, hn, hm⟩ := Term.wf_group h
    obtain ⟨hop, hcl, d, t, hcle, hd1, hd2⟩ := latex_br_chars b
    have e : E (Term.group b body n st marks).render ++ r
        = latexPres.op b ++ (E body.render ++ (latexPres.cl b ++ (n.render ++ (stText st ++ marks) ++ r))) := by
      have : (Term.group b body n st marks).render = [b.op] ++ (body.render ++ ([b.cl] ++ (n.render ++ (stText st ++ marks)))) := by
        simp [Term.render]
      rw [this, E_append, E_append, E_append, (E_br b).1, (E_br b).2, E_tail n hn st marks hm]
      simp [List.append_assoc]
    have hstopcl : Stops (latexPres.cl b ++ (n.render ++ (stText st ++ marks) ++ r)) := by
      rw [hcle]; exact stops_cons hd1 hd2
    rw [e, go_out_append sub _ _ hop, go_out_termsE body hbw _ hstopcl, go_out_append sub _ _ hcl,
      go_out_tail sub hS n hn st marks r hm hr]
    simp [presTerm, Option.map_map, Function.comp_def]
  | .cage body, h, r, hr => by
    obtain ⟨hbw, _⟩ := Term.wf_cage h
    have e : E (Term.cage body).render ++ r = '@' :: (E body.render ++ r) := by
      simp [Term.render, E_cons_nb (show nbB '@' = true by decide)]
    rw [e, go_out_cons sub '@' _ (by decide), go_out_termsE body hbw r hr]
    simp [presTerm, Option.map_map, Function.comp_def]
theorem go_out_termsE : ∀ (ts : Terms), ts.wf = true → ∀ r, Stops r →
      subRunsGo sub .out (E ts.render ++ r) = (subRunsGo sub .out r).map (presTerms latexPres ts ++ ·)
  | .nil, _, r, _ => by simp [Terms.render, presTerms, E_nil]
  | .cons t ts, h, r, hr => by
    obtain ⟨ht, hts, _⟩ := Terms.wf_cons h
    have e : E (Terms.cons t ts).render ++ r = E t.render ++ (E ts.render ++ r) := by simp [Terms.render, E_append]
    have hstop : Stops (E ts.render ++ r) := by
      cases hnil : ts.isNil with
      | true => rw [Terms.isNil_eq_true hnil]; simpa [Terms.render, E_nil] using hr
      | false => exact stops_E_terms ts hts hnil r
    rw [e, go_out_termE t ht _ hstop, go_out_termsE ts hts r hr]
    simp [presTerms, Option.map_map, Function.comp_def]
end

theorem subRuns_termsE (ts : Terms) (h : ts.wf = true) : subRuns sub (E ts.render) = some (presTerms latexPres ts) := by
  have := go_out_termsE sub hS ts h [] stops_nil
  simpa [subRuns, subRunsGo] using this

end

/-! ### the whole function on the escaped text -/

theorem fmtRest_specE (ps : List Part) (h : ∀ q ∈ ps, q.wf = true) :
    fmtRest latexFmt (ps.map (fun q => E q.render)) = some (presRest latexPres ps) := by
  induction ps with
  | nil => rfl
  | cons p ps ih =>
    have hp := h p (by simp)
    obtain ⟨_, ht, _⟩ := Part.wf_iff p hp
    simp only [List.map_cons, fmtRest, getLeadingInteger_partE p hp,
      subRuns_termsE latexFmt.sub latexFmtSpec.sub p.terms ht,
      ih (fun q hq => h q (by simp [hq])), presMult_eq p]
    simp [andThen, presRest, latexFmtSpec.infx]

/-- **`formula_to_latex` on the rendering of ANY well-formed formula** (all brackets): the presentation with `\{ … \}` -/
theorem toLatex_render (f : Formula) (h : f.WF) (sfxs : List Str) (hok : SfxOK sfxs f) :
    toLatex sfxs f.render = .ok (present latexPres f) := by
  have hd := Formula.wfd f h
  obtain ⟨p, ps, hp, hn⟩ := hd.first
  have hsplit := split_stoichE f.sep p ps (fun q hq => hd.parts q (by rw [hp]; exact hq))
  have hpw := hd.parts p (by simp [hp])
  obtain ⟨_, ht, _⟩ := Part.wf_iff p hpw
  have hpr : p.render = p.terms.render := by simp [Part.render, hn]
  have hstoich : f.renderStoich = renderParts f.sep (p :: ps) := by simp [Formula.renderStoich, hp]
  have hfirst := subRuns_termsE latexFmt.sub latexFmtSpec.sub p.terms ht
  have hrest := fmtRest_specE ps (fun q hq => hd.parts q (by simp [hp, hq]))
  have hpre := mapPrefixes_spec latexFmtSpec f.prefixes (fun q hq => hd.prefixes.subset hq)
  unfold toLatex formulaToFormat
  rw [latexFmtSpec.keys, formulaToParts_renderE f hd sfxs hok]
  simp only [hstoich, hsplit, hpr, hfirst, hrest, andThen_some_some]
  have hchg : fmtCharge latexFmt (presTerms latexPres p.terms ++ presRest latexPres ps) (f.charge.map Charge.render)
      = .ok ((presTerms latexPres p.terms ++ presRest latexPres ps) ++ presCharge latexPres f.charge) := by
    cases hc : f.charge with
    | none => simp [fmtCharge, presCharge]
    | some c =>
      obtain ⟨ds, sg, e, hds, hsg⟩ := chargeTok_shape c
      by_cases hz : c.val = 0
      · simp [fmtCharge, getCharge_render c (hd.charge c hc), hz, presCharge]
      · simp only [Option.map_some, fmtCharge, getCharge_render c (hd.charge c hc), chargeToken_val c hz, presCharge, hz, if_false]
        rw [e, latexFmtSpec.sup ds sg hds hsg]
  rw [hchg]
  simp only [hpre]
  cases hs : f.suffix <;> simp [present, presParts, hp, hs, suffixList, renderSuffix, List.append_assoc]

end ChemModel.FormulaFormat
