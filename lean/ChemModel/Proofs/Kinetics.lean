/-
Helper lemmas about the kinetics model (Model/Kinetics.lean) used by Props/C03 and Props/C05 (and available to C04, C06).

Part 1  dictionaries as association lists
Part 2  closed forms of the rate functions over a commutative ring
Part 3  array path
Part 4  composition / balance
Part 5  analytic elimination
-/
import ChemModel.Model.Kinetics
import Mathlib.Tactic.Ring
import Mathlib.Tactic.FieldSimp
import Mathlib.Algebra.BigOperators.Group.List.Basic
import Mathlib.Algebra.BigOperators.Ring.List

set_option linter.unusedSectionVars false

namespace ChemModel.Kinetics

/-! ## Part 1: dictionaries -/
section Dict
variable {σ β : Type} [DecidableEq σ]

@[simp] theorem dget?_nil (s : σ) : dget? ([] : List (σ × β)) s = none := rfl

theorem dget?_cons (k : σ) (v : β) (t : List (σ × β)) (s : σ) :
    dget? ((k, v) :: t) s = if k = s then some v else dget? t s := rfl

theorem dget?_eq_none_iff {d : List (σ × β)} {s : σ} : dget? d s = none ↔ s ∉ dkeys d := by
  induction d with
  | nil => simp [dkeys]
  | cons h t ih =>
    obtain ⟨k, v⟩ := h
    rw [dget?_cons]
    by_cases hk : k = s
    · simp [hk, dkeys]
    · have : s ≠ k := fun e => hk e.symm
      simp [hk, this, dkeys] at ih ⊢
      exact ih

theorem dmem_iff {d : List (σ × β)} {s : σ} : dmem d s = true ↔ s ∈ dkeys d := by
  unfold dmem
  rw [Option.isSome_iff_ne_none, ne_eq, dget?_eq_none_iff, not_not]

theorem dgetD_of_not_mem {d : List (σ × β)} {s : σ} (h : s ∉ dkeys d) (x : β) : dgetD d s x = x := by
  unfold dgetD
  rw [dget?_eq_none_iff.mpr h]

theorem dget?_dset (d : List (σ × β)) (k : σ) (v : β) (s : σ) :
    dget? (dset d k v) s = if k = s then some v else dget? d s := by
  induction d with
  | nil => simp [dset, dget?_cons]
  | cons h t ih =>
    obtain ⟨k', v'⟩ := h
    unfold dset
    by_cases hk : k' = k
    · subst hk
      by_cases hs : k' = s <;> simp [dget?_cons, hs]
    · simp only [hk, if_false, dget?_cons, ih]
      by_cases hs : k' = s
      · have : k ≠ s := fun e => hk (hs.trans e.symm)
        simp [hs, this]
      · simp [hs]

theorem dset_of_not_mem {d : List (σ × β)} {k : σ} (h : k ∉ dkeys d) (v : β) : dset d k v = d ++ [(k, v)] := by
  induction d with
  | nil => rfl
  | cons hd t ih =>
    obtain ⟨k', v'⟩ := hd
    have h1 : k' ≠ k := fun e => h (by simp [dkeys, e])
    have h2 : k ∉ dkeys t := fun e => h (by simp [dkeys] at e ⊢; exact Or.inr e)
    simp [dset, h1, ih h2]

theorem mem_dkeys_dset {d : List (σ × β)} {k : σ} {v : β} {s : σ} : s ∈ dkeys (dset d k v) ↔ s ∈ dkeys d ∨ s = k := by
  rw [← not_iff_not, ← dget?_eq_none_iff, dget?_dset, not_or, ← dget?_eq_none_iff]
  by_cases h : k = s
  · simp [h]
  · have : ¬ s = k := fun e => h e.symm
    simp [h, this]

theorem nodup_dkeys_dset {d : List (σ × β)} (h : (dkeys d).Nodup) (k : σ) (v : β) : (dkeys (dset d k v)).Nodup := by
  induction d with
  | nil => simp [dset, dkeys]
  | cons hd t ih =>
    obtain ⟨k', v'⟩ := hd
    simp only [dkeys, List.map_cons, List.nodup_cons] at h
    unfold dset
    by_cases hk : k' = k
    · simp only [hk, if_true, dkeys, List.map_cons, List.nodup_cons]
      rw [← hk]; exact h
    · simp only [hk, if_false, dkeys, List.map_cons, List.nodup_cons]
      refine ⟨?_, ih h.2⟩
      intro hm
      have := (mem_dkeys_dset (d := t) (k := k) (v := v) (s := k')).mp hm
      rcases this with h1 | h1
      · exact h.1 h1
      · exact hk h1

theorem nodup_dkeys_foldl_dset (pairs d : List (σ × β)) (h : (dkeys d).Nodup) :
    (dkeys (pairs.foldl (fun d p => dset d p.1 p.2) d)).Nodup := by
  induction pairs generalizing d with
  | nil => exact h
  | cons p t ih => exact ih _ (nodup_dkeys_dset h _ _)

theorem nodup_dkeys_dictOf (pairs : List (σ × β)) : (dkeys (dictOf pairs)).Nodup :=
  nodup_dkeys_foldl_dset pairs [] (by simp [dkeys])

/-- a dict comprehension `{k: f k for k in keys}` read at `s` -/
theorem dget?_dictOf_map (keys : List σ) (f : σ → β) (s : σ) :
    dget? (dictOf (keys.map fun k => (k, f k))) s = if s ∈ keys then some (f s) else none := by
  have aux : ∀ (d : List (σ × β)), dget? ((keys.map fun k => (k, f k)).foldl (fun d p => dset d p.1 p.2) d) s =
      if s ∈ keys then some (f s) else dget? d s := by
    induction keys with
    | nil => intro d; simp
    | cons k t ih =>
      intro d
      simp only [List.map_cons, List.foldl_cons, ih, dget?_dset, List.mem_cons]
      by_cases h1 : s ∈ t
      · simp [h1]
      · by_cases h2 : k = s
        · simp [h2]
        · have : ¬ s = k := fun e => h2 e.symm
          simp [h1, h2, this]
  simpa [dictOf] using aux []

/-- without repeated keys the comprehension is the list itself, in order -/
theorem dictOf_map_of_nodup (keys : List σ) (f : σ → β) (h : keys.Nodup) :
    dictOf (keys.map fun k => (k, f k)) = keys.map fun k => (k, f k) := by
  have aux : ∀ (d : List (σ × β)), (∀ k ∈ keys, k ∉ dkeys d) →
      (keys.map fun k => (k, f k)).foldl (fun d p => dset d p.1 p.2) d = d ++ keys.map fun k => (k, f k) := by
    induction keys with
    | nil => intro d _; simp
    | cons k t ih =>
      intro d hd
      rw [List.nodup_cons] at h
      simp only [List.map_cons, List.foldl_cons]
      rw [dset_of_not_mem (hd k (by simp)), ih h.2]
      · simp
      · intro k' hk' hm
        simp only [dkeys, List.map_append, List.map_cons, List.map_nil, List.mem_append, List.mem_singleton] at hm
        rcases hm with hm | hm
        · exact hd k' (by simp [hk']) (by simpa [dkeys] using hm)
        · exact h.1 (hm ▸ hk')
  simpa [dictOf] using aux [] (by simp [dkeys])

theorem mem_dkeys_dictOf_map (keys : List σ) (f : σ → β) (s : σ) :
    s ∈ dkeys (dictOf (keys.map fun k => (k, f k))) ↔ s ∈ keys := by
  rw [← not_iff_not, ← dget?_eq_none_iff, dget?_dictOf_map]
  by_cases h : s ∈ keys <;> simp [h]

theorem mem_dedupKeys {l : List σ} {s : σ} : s ∈ dedupKeys l ↔ s ∈ l := by
  induction l with
  | nil => simp [dedupKeys]
  | cons k t ih =>
    simp only [dedupKeys, List.mem_cons, List.mem_filter, ih]
    by_cases h : s = k <;> simp [h]

theorem nodup_dedupKeys (l : List σ) : (dedupKeys l).Nodup := by
  induction l with
  | nil => simp [dedupKeys]
  | cons k t ih =>
    simp only [dedupKeys, List.nodup_cons, List.mem_filter]
    exact ⟨by simp, ih.filter _⟩

theorem indexOf?_of_mem {keys : List σ} {s : σ} (h : s ∈ keys) : ∃ i, indexOf? keys s = some i ∧ keys[i]? = some s := by
  induction keys with
  | nil => simp at h
  | cons k t ih =>
    unfold indexOf?
    by_cases hk : k = s
    · exact ⟨0, by simp [hk]⟩
    · have : s ∈ t := by
        rcases List.mem_cons.mp h with h | h
        · exact absurd h.symm hk
        · exact h
      obtain ⟨i, hi, hg⟩ := ih this
      exact ⟨i + 1, by simp [hk, hi], by simpa using hg⟩

end Dict

/-! ### accumulation (`d[k] += v`) over a commutative additive monoid -/
section Acc
variable {σ β : Type} [DecidableEq σ] [AddCommMonoid β]

/-- value of a dictionary read as a function with default `0` -/
def valOr0 (d : List (σ × β)) (s : σ) : β := dgetD d s 0

theorem valOr0_nil (s : σ) : valOr0 ([] : List (σ × β)) s = 0 := rfl

theorem valOr0_cons (k : σ) (v : β) (t : List (σ × β)) (s : σ) :
    valOr0 ((k, v) :: t) s = if k = s then v else valOr0 t s := by
  unfold valOr0 dgetD
  rw [dget?_cons]
  by_cases h : k = s <;> simp [h]

theorem valOr0_dacc (d : List (σ × β)) (k : σ) (v : β) (s : σ) :
    valOr0 (dacc d k v) s = valOr0 d s + if k = s then v else 0 := by
  induction d with
  | nil => simp [dacc, valOr0_cons, valOr0_nil]
  | cons h t ih =>
    obtain ⟨k', v'⟩ := h
    unfold dacc
    by_cases hk : k' = k
    · subst hk
      by_cases hs : k' = s <;> simp [valOr0_cons, hs]
    · simp only [hk, if_false, valOr0_cons, ih]
      by_cases hs : k' = s
      · have : k ≠ s := fun e => hk (hs.trans e.symm)
        simp [hs, this]
      · simp [hs]

theorem mem_dkeys_dacc {d : List (σ × β)} {k : σ} {v : β} {s : σ} : s ∈ dkeys (dacc d k v) ↔ s ∈ dkeys d ∨ s = k := by
  induction d with
  | nil => simp [dacc, dkeys]
  | cons h t ih =>
    obtain ⟨k', v'⟩ := h
    unfold dacc
    by_cases hk : k' = k
    · subst hk
      simp only [if_true, dkeys, List.map_cons, List.mem_cons]
      tauto
    · simp only [hk, if_false]
      simp only [dkeys, List.map_cons, List.mem_cons] at ih ⊢
      rw [ih]; tauto

theorem valOr0_foldl_dacc (items : List (σ × β)) (d : List (σ × β)) (s : σ) :
    valOr0 (items.foldl (fun d kv => dacc d kv.1 kv.2) d) s =
      valOr0 d s + (items.map fun kv => if kv.1 = s then kv.2 else 0).sum := by
  induction items generalizing d with
  | nil => simp
  | cons p t ih =>
    simp only [List.foldl_cons, ih, valOr0_dacc, List.map_cons, List.sum_cons, add_assoc]

theorem mem_dkeys_foldl_dacc (items : List (σ × β)) (d : List (σ × β)) (s : σ) :
    s ∈ dkeys (items.foldl (fun d kv => dacc d kv.1 kv.2) d) ↔ s ∈ dkeys d ∨ s ∈ dkeys items := by
  induction items generalizing d with
  | nil => simp [dkeys]
  | cons p t ih =>
    simp only [List.foldl_cons, ih, mem_dkeys_dacc]
    simp only [dkeys, List.map_cons, List.mem_cons]
    tauto

/-- in a dictionary (unique keys) the entries with key `s` sum to the value at `s` -/
theorem sum_ite_of_nodup {γ : Type} (l : List (σ × γ)) (h : (dkeys l).Nodup) (g : σ × γ → β) (s : σ) :
    (l.map fun kv => if kv.1 = s then g kv else 0).sum =
      match dget? l s with
      | some v => g (s, v)
      | none => 0 := by
  induction l with
  | nil => simp
  | cons p t ih =>
    obtain ⟨k, v⟩ := p
    simp only [dkeys, List.map_cons, List.nodup_cons] at h
    simp only [List.map_cons, List.sum_cons, dget?_cons]
    by_cases hk : k = s
    · subst hk
      have hz : (t.map fun kv => if kv.1 = k then g kv else 0).sum = 0 := by
        apply List.sum_eq_zero
        intro x hx
        obtain ⟨kv, hkv, rfl⟩ := List.mem_map.mp hx
        have : kv.1 ≠ k := fun e => h.1 (e ▸ List.mem_map_of_mem (f := Prod.fst) hkv)
        simp [this]
      simp [hz]
    · simp [hk, ih h.2]

theorem sum_ite_eq_valOr0 (l : List (σ × β)) (h : (dkeys l).Nodup) (s : σ) :
    (l.map fun kv => if kv.1 = s then kv.2 else 0).sum = valOr0 l s := by
  rw [sum_ite_of_nodup l h (fun kv => kv.2) s]
  unfold valOr0 dgetD
  cases dget? l s <;> rfl

/-! ### written terms of a reaction string: merging sums the multiplicities -/

omit [AddCommMonoid β] in
/-- `_parse_multiplicity`: the merged coefficient of `s` is the SUM of the coefficients of all written terms naming `s` -/
theorem coef_mergeTerms (terms : List (ℕ × σ)) (s : σ) :
    dgetD (mergeTerms terms) s 0 = (terms.map fun t => if t.2 = s then t.1 else 0).sum := by
  have h : mergeTerms terms = (terms.map fun t => (t.2, t.1)).foldl (fun d kv => dacc d kv.1 kv.2) [] := by
    unfold mergeTerms
    rw [List.foldl_map]
  have := valOr0_foldl_dacc (β := ℕ) (terms.map fun t => (t.2, t.1)) [] s
  rw [h]
  unfold valOr0 at this
  rw [this, List.map_map]
  simp [dgetD, Function.comp_def]

end Acc

/-! ## Part 2: closed forms over a commutative ring -/
section Ring
variable {σ : Type} [DecidableEq σ] {R : Type} [CommRing R]

theorem npow_eq (x : R) (n : ℕ) : Num.npow x n = x ^ n := by
  induction n with
  | zero => simp [Num.npow]
  | succ n ih => simp [Num.npow, ih, pow_succ]

/-- `∏_{(j,ν) ∈ reac} c j ^ ν` -/
def concProd (c : σ → R) (reac : List (σ × ℕ)) : R := (reac.map fun p => c p.1 ^ p.2).prod

/-- the closed form of C03: net stoichiometry (inactive parts included) times `k · ∏ c^ν` over the active reactants -/
def contribution (c : σ → R) (r : Reaction σ R) (s : σ) : R :=
  (((coef r.prod s : ℤ) - (coef r.reac s : ℤ) + (coef r.inactProd s : ℤ) - (coef r.inactReac s : ℤ) : ℤ) : R)
    * (r.param * concProd c r.reac)

theorem foldl_mul_eq {γ : Type} (f : γ → R) (l : List γ) (a : R) :
    l.foldl (fun acc x => acc * f x) a = a * (l.map f).prod := by
  induction l generalizing a with
  | nil => simp
  | cons h t ih => simp [ih, mul_assoc]

theorem foldl_add_eq {γ : Type} (f : γ → R) (l : List γ) (a : R) :
    l.foldl (fun acc x => acc + f x) a = a + (l.map f).sum := by
  induction l generalizing a with
  | nil => simp
  | cons h t ih => simp [ih, add_assoc]

omit [DecidableEq σ] in
theorem activeConcProd_eq (c : σ → R) (r : Reaction σ R) : activeConcProd c r = concProd c r.reac := by
  unfold activeConcProd concProd
  rw [foldl_mul_eq (fun kv : σ × ℕ => Num.npow (c kv.1) kv.2)]
  simp [npow_eq]

theorem valueAt_eq_valOr0 (d : List (σ × R)) (s : σ) : valueAt d s = valOr0 d s := by
  simp [valueAt, valOr0]

theorem dget?_rxnRate (c : σ → R) (r : Reaction σ R) (keys : List σ) (s : σ) :
    dget? (rxnRate c r keys) s = if s ∈ keys then some (contribution c r s) else none := by
  unfold rxnRate
  rw [dget?_dictOf_map]
  by_cases h : s ∈ keys
  · simp only [h, if_true, massAction, activeConcProd_eq, contribution, netStoich]
    congr 1
    ring
  · simp [h]

theorem valueAt_rxnRate (c : σ → R) (r : Reaction σ R) (keys : List σ) (s : σ) :
    valueAt (rxnRate c r keys) s = if s ∈ keys then contribution c r s else 0 := by
  unfold valueAt dgetD
  rw [dget?_rxnRate]
  by_cases h : s ∈ keys <;> simp [h]

theorem coef_eq_zero_of_not_mem {d : List (σ × ℕ)} {s : σ} (h : s ∉ dkeys d) : coef d s = 0 :=
  dgetD_of_not_mem h 0

omit [CommRing R] in
theorem mem_rxnKeys {r : Reaction σ R} {s : σ} :
    s ∈ rxnKeys r ↔ s ∈ dkeys r.reac ∨ s ∈ dkeys r.prod ∨ s ∈ dkeys r.inactReac ∨ s ∈ dkeys r.inactProd := by
  unfold rxnKeys
  rw [mem_dedupKeys]
  simp only [List.mem_append]
  tauto

theorem contribution_eq_zero_of_not_mem (c : σ → R) {r : Reaction σ R} {s : σ} (h : s ∉ rxnKeys r) :
    contribution c r s = 0 := by
  rw [mem_rxnKeys] at h
  simp only [not_or] at h
  unfold contribution
  rw [coef_eq_zero_of_not_mem h.1, coef_eq_zero_of_not_mem h.2.1, coef_eq_zero_of_not_mem h.2.2.1,
    coef_eq_zero_of_not_mem h.2.2.2]
  simp

theorem valueAt_rxnRate_rxnKeys (c : σ → R) (r : Reaction σ R) (s : σ) :
    valueAt (rxnRate c r (rxnKeys r)) s = contribution c r s := by
  rw [valueAt_rxnRate]
  by_cases h : s ∈ rxnKeys r
  · simp [h]
  · simp [h, contribution_eq_zero_of_not_mem c h]

theorem nodup_dkeys_rxnRate (c : σ → R) (r : Reaction σ R) (keys : List σ) : (dkeys (rxnRate c r keys)).Nodup :=
  nodup_dkeys_dictOf _

theorem valOr0_accumulate_rxnRate (c : σ → R) (r : Reaction σ R) (keys : List σ) (d : List (σ × R)) (s : σ) :
    valOr0 (accumulate d (rxnRate c r keys)) s = valOr0 d s + valOr0 (rxnRate c r keys) s := by
  unfold accumulate
  rw [valOr0_foldl_dacc, sum_ite_eq_valOr0 _ (nodup_dkeys_rxnRate c r keys)]

theorem valOr0_foldl_accumulate (c : σ → R) (keys? : Option (List σ)) (rs : List (Reaction σ R)) (d : List (σ × R)) (s : σ) :
    valOr0 (rs.foldl (fun result r => accumulate result (rxnRate c r (keysFor keys? r))) d) s =
      valOr0 d s + (rs.map fun r => valOr0 (rxnRate c r (keysFor keys? r)) s).sum := by
  induction rs generalizing d with
  | nil => simp
  | cons r t ih => simp only [List.foldl_cons, ih, valOr0_accumulate_rxnRate, List.map_cons, List.sum_cons, add_assoc]

theorem valueAt_sysRatesNoFeed (c : σ → R) (rs : List (Reaction σ R)) (keys? : Option (List σ)) (s : σ) :
    valueAt (sysRatesNoFeed c rs keys?) s = (rs.map fun r => valueAt (rxnRate c r (keysFor keys? r)) s).sum := by
  unfold sysRatesNoFeed
  rw [valueAt_eq_valOr0, valOr0_foldl_accumulate]
  simp [valOr0_nil, valueAt_eq_valOr0]

/-- value reported by `ReactionSystem.rates` (no CSTR) for a requested substance: the sum of the closed-form contributions -/
theorem valueAt_sysRatesNoFeed_contribution (c : σ → R) (rs : List (Reaction σ R)) (keys? : Option (List σ)) (s : σ)
    (hs : ∀ ks, keys? = some ks → s ∈ ks) :
    valueAt (sysRatesNoFeed c rs keys?) s = (rs.map fun r => contribution c r s).sum := by
  rw [valueAt_sysRatesNoFeed]
  congr 1
  apply List.map_congr_left
  intro r _
  cases keys? with
  | none => exact valueAt_rxnRate_rxnKeys c r s
  | some ks => simp [keysFor, valueAt_rxnRate, hs ks rfl]

/-- the feed term seen by substance `s`: `F · (c_feed s − c s)` when `s` is fed, else `0` -/
def feedTerm (c : σ → R) (cs : Cstr σ) (s : σ) : R :=
  match dget? cs.fc s with
  | some fck => c cs.frKey * (c fck - c s)
  | none => 0

/-- sum of the feed terms of all `fc` entries for substance `s` (a dict has at most one) -/
def feedSum (c : σ → R) (cs : Cstr σ) (s : σ) : R :=
  (cs.fc.map fun kv => if kv.1 = s then c cs.frKey * (c kv.2 - c kv.1) else 0).sum

theorem valueAt_addFeed_sum (c : σ → R) (d : List (σ × R)) (cs : Cstr σ) (s : σ) :
    valueAt (addFeed c d cs) s = valueAt d s + feedSum c cs s := by
  have hf : addFeed c d cs =
      (cs.fc.map fun kv => (kv.1, c cs.frKey * (c kv.2 - c kv.1))).foldl (fun d kv => dacc d kv.1 kv.2) d := by
    unfold addFeed
    rw [List.foldl_map]
  rw [valueAt_eq_valOr0, hf, valOr0_foldl_dacc, List.map_map, valueAt_eq_valOr0]
  rfl

theorem feedSum_eq_feedTerm (c : σ → R) (cs : Cstr σ) (h : (dkeys cs.fc).Nodup) (s : σ) :
    feedSum c cs s = feedTerm c cs s := by
  have := sum_ite_of_nodup (β := R) cs.fc h (fun kv => c cs.frKey * (c kv.2 - c kv.1)) s
  unfold feedTerm feedSum
  rw [← this]

theorem valueAt_addFeed (c : σ → R) (d : List (σ × R)) (cs : Cstr σ) (h : (dkeys cs.fc).Nodup) (s : σ) :
    valueAt (addFeed c d cs) s = valueAt d s + feedTerm c cs s := by
  rw [valueAt_addFeed_sum, feedSum_eq_feedTerm c cs h]

theorem mem_dkeys_accumulate {d items : List (σ × R)} {s : σ} :
    s ∈ dkeys (accumulate d items) ↔ s ∈ dkeys d ∨ s ∈ dkeys items :=
  mem_dkeys_foldl_dacc items d s

theorem mem_dkeys_rxnRate {c : σ → R} {r : Reaction σ R} {keys : List σ} {s : σ} :
    s ∈ dkeys (rxnRate c r keys) ↔ s ∈ keys :=
  mem_dkeys_dictOf_map keys _ s

theorem mem_dkeys_sysRatesNoFeed (c : σ → R) (rs : List (Reaction σ R)) (keys? : Option (List σ)) (s : σ) :
    s ∈ dkeys (sysRatesNoFeed c rs keys?) ↔ ∃ r ∈ rs, s ∈ keysFor keys? r := by
  have aux : ∀ (d : List (σ × R)),
      s ∈ dkeys (rs.foldl (fun result r => accumulate result (rxnRate c r (keysFor keys? r))) d) ↔
        s ∈ dkeys d ∨ ∃ r ∈ rs, s ∈ keysFor keys? r := by
    induction rs with
    | nil => intro d; simp
    | cons r t ih =>
      intro d
      simp only [List.foldl_cons, ih, mem_dkeys_accumulate, mem_dkeys_rxnRate, List.mem_cons, exists_eq_or_imp]
      tauto
  simpa [sysRatesNoFeed, dkeys] using aux []

theorem mem_dkeys_addFeed (c : σ → R) (d : List (σ × R)) (cs : Cstr σ) (s : σ) :
    s ∈ dkeys (addFeed c d cs) ↔ s ∈ dkeys d ∨ s ∈ dkeys cs.fc := by
  have hf : addFeed c d cs =
      (cs.fc.map fun kv => (kv.1, c cs.frKey * (c kv.2 - c kv.1))).foldl (fun d kv => dacc d kv.1 kv.2) d := by
    unfold addFeed
    rw [List.foldl_map]
  rw [hf, mem_dkeys_foldl_dacc]
  simp [dkeys, List.map_map, Function.comp_def]


/-! ### lemmas moved out of Props/C03 (they restate definitions) -/

/-- the concentration product reads `reac` only (`rfl`) and is the product over the active reactants -/
theorem activeConcProd_ignores_other_parts (c : σ → R) (r : Reaction σ R) (prod' inactReac' inactProd' : List (σ × ℕ)) :
    activeConcProd c { r with prod := prod', inactReac := inactReac', inactProd := inactProd' } = activeConcProd c r ∧
      activeConcProd c r = (r.reac.map fun jν => c jν.1 ^ jν.2).prod :=
  ⟨rfl, activeConcProd_eq c r⟩

/-- `ratesDict` is the `KeyError` guard in front of `sysRates` (re-reads the definition) -/
theorem ratesDict_spec (vars : List (σ × R)) (rs : List (Reaction σ R)) (keys? : Option (List σ))
    (cstr? : Option (Cstr σ)) :
    (ratesDict vars rs keys? cstr? = none ↔ ∃ k ∈ neededVars rs cstr?, k ∉ dkeys vars) ∧
      (∀ d, ratesDict vars rs keys? cstr? = some d → d = sysRates (fun k => dgetD vars k 0) rs keys? cstr?) := by
  unfold ratesDict missingVars
  constructor
  · cases h : List.find? (fun k => !dmem vars k) (neededVars rs cstr?) with
    | none =>
      simp only [reduceCtorEq, false_iff, not_exists, not_and, not_not]
      intro k hk
      have := List.find?_eq_none.mp h k hk
      simpa [dmem_iff] using this
    | some k =>
      simp only [true_iff]
      refine ⟨k, List.mem_of_find?_eq_some h, ?_⟩
      have := List.find?_some h
      simpa [← dmem_iff] using this
  · intro d
    cases h : List.find? (fun k => !dmem vars k) (neededVars rs cstr?) with
    | none => simp; intro e; exact e.symm
    | some k => simp

/-- value of `ReactionSystem.rates` at a requested substance, with or without CSTR: contributions + feed terms -/
theorem valueAt_sysRates_sum (c : σ → R) (rs : List (Reaction σ R)) (keys? : Option (List σ)) (cstr? : Option (Cstr σ))
    (s : σ) (hs : ∀ ks, keys? = some ks → s ∈ ks) :
    valueAt (sysRates c rs keys? cstr?) s =
      (rs.map fun r => contribution c r s).sum + (match cstr? with | none => 0 | some cs => feedSum c cs s) := by
  cases cstr? with
  | none => simp [sysRates, valueAt_sysRatesNoFeed_contribution c rs keys? s hs]
  | some cs => simp [sysRates, valueAt_addFeed_sum, valueAt_sysRatesNoFeed_contribution c rs keys? s hs]

/-! ### stoichiometry matrices -/

omit [DecidableEq σ] in
/-- entry `(i, j)` of a matrix built row by row -/
theorem entry_map_map {γ : Type} (f : Reaction σ R → σ → γ) (rs : List (Reaction σ R)) (keys : List σ) (i j : ℕ) :
    ((rs.map fun r => keys.map (f r))[i]?.bind (·[j]?)) = rs[i]?.bind fun r => keys[j]?.map (f r) := by
  simp only [List.getElem?_map]
  cases rs[i]? with
  | none => rfl
  | some r => simp [List.getElem?_map]

theorem dgetD_map_cast (d : List (σ × ℕ)) (s : σ) :
    dgetD (d.map fun kv => (kv.1, (kv.2 : ℤ))) s 0 = ((coef d s : ℕ) : ℤ) := by
  induction d with
  | nil => simp [coef, dgetD, dget?]
  | cons h t ih =>
    obtain ⟨k, v⟩ := h
    unfold coef dgetD at ih ⊢
    simp only [List.map_cons, dget?_cons]
    by_cases hk : k = s
    · simp [hk]
    · simp only [hk, if_false]; exact ih


end Ring

/-! ## Part 3: array path -/
section ArrayPath
variable {σ : Type} [DecidableEq σ] {R : Type} [CommRing R]

/-- the concentration function an array denotes: `conc[keys.index(s)]` (the `0` branches are unreachable for `s ∈ keys`
    and `conc.length = keys.length`) -/
def concOf (keys : List σ) (conc : List R) (s : σ) : R :=
  match indexOf? keys s with
  | some i => conc.getD i 0
  | none => 0

theorem lookup_conc {keys : List σ} {conc : List R} (hlen : conc.length = keys.length) {s : σ} (h : s ∈ keys) :
    ∃ i, indexOf? keys s = some i ∧ conc[i]? = some (concOf keys conc s) := by
  obtain ⟨i, hi, hg⟩ := indexOf?_of_mem h
  refine ⟨i, hi, ?_⟩
  have hlt : i < keys.length := (List.getElem?_eq_some_iff.mp hg).1
  have hlt' : i < conc.length := hlen ▸ hlt
  unfold concOf
  rw [hi]
  simp [List.getD_eq_getElem?_getD, List.getElem?_eq_getElem hlt']

theorem lawRateAux_eq {keys : List σ} {conc : List R} (hlen : conc.length = keys.length) (reac : List (σ × ℕ))
    (h : ∀ k ∈ dkeys reac, k ∈ keys) (acc : R) :
    lawRateAux conc keys reac acc = .ok (acc * concProd (concOf keys conc) reac) := by
  induction reac generalizing acc with
  | nil => simp [lawRateAux, concProd]
  | cons p t ih =>
    obtain ⟨k, v⟩ := p
    have hk : k ∈ keys := h k (by simp [dkeys])
    obtain ⟨i, hi, hc⟩ := lookup_conc hlen hk
    unfold lawRateAux
    simp only [hi, hc]
    rw [ih (fun k' hk' => h k' (by simp only [dkeys, List.map_cons, List.mem_cons] at hk' ⊢; exact Or.inr hk'))]
    simp [concProd, npow_eq, mul_assoc]

/-- rate of one reaction as the array path computes it: `(∏ c^ν) · k` -/
def arrayRate (c : σ → R) (r : Reaction σ R) : R := concProd c r.reac * r.param

theorem lawRate_eq {keys : List σ} {conc : List R} (hlen : conc.length = keys.length) (r : Reaction σ R)
    (h : ∀ k ∈ dkeys r.reac, k ∈ keys) : lawRate conc keys r = .ok (arrayRate (concOf keys conc) r) := by
  unfold lawRate
  rw [lawRateAux_eq hlen r.reac h]
  simp [arrayRate]

theorem lawOfMassActionRates_eq {keys : List σ} {conc : List R} (hlen : conc.length = keys.length)
    (rs : List (Reaction σ R)) (h : ∀ r ∈ rs, ∀ k ∈ dkeys r.reac, k ∈ keys) :
    lawOfMassActionRates conc keys rs = .ok (rs.map (arrayRate (concOf keys conc))) := by
  induction rs with
  | nil => rfl
  | cons r t ih =>
    unfold lawOfMassActionRates
    rw [lawRate_eq hlen r (h r (by simp)), ih (fun r' hr' => h r' (by simp [hr']))]
    rfl

theorem dCdtEntry_eq (s : σ) (rs : List (Reaction σ R)) (g : Reaction σ R → R) (acc : R) :
    dCdtEntry s rs (rs.map g) acc = .ok (acc + (rs.map fun r => ((netStoich r s : ℤ) : R) * g r).sum) := by
  induction rs generalizing acc with
  | nil => simp [dCdtEntry]
  | cons r t ih =>
    simp only [List.map_cons, dCdtEntry, ih, List.sum_cons, add_assoc]

theorem dCdtList_eq (keys : List σ) (rs : List (Reaction σ R)) (g : Reaction σ R → R) :
    dCdtList keys rs (rs.map g) = .ok (keys.map fun s => (rs.map fun r => ((netStoich r s : ℤ) : R) * g r).sum) := by
  induction keys with
  | nil => rfl
  | cons s t ih =>
    unfold dCdtList
    rw [dCdtEntry_eq, ih]
    simp

theorem netStoich_mul_arrayRate (c : σ → R) (r : Reaction σ R) (s : σ) :
    ((netStoich r s : ℤ) : R) * arrayRate c r = contribution c r s := by
  unfold arrayRate contribution netStoich
  ring

/-! ### success / refusal of the array path -/

theorem indexOf?_eq_none_iff {keys : List σ} {s : σ} : indexOf? keys s = none ↔ s ∉ keys := by
  induction keys with
  | nil => simp [indexOf?]
  | cons k t ih =>
    unfold indexOf?
    by_cases hk : k = s
    · simp [hk]
    · have : ¬ s = k := fun e => hk e.symm
      simp [hk, this, ih]

/-- a reactant can be looked up: it is a substance and its index lies inside `conc` -/
def Reachable (conc : List R) (keys : List σ) (k : σ) : Prop := ∃ i, indexOf? keys k = some i ∧ i < conc.length

theorem concOf_of_index {keys : List σ} {conc : List R} {k : σ} {i : ℕ} (hi : indexOf? keys k = some i) (hlt : i < conc.length) :
    conc[i]? = some (concOf keys conc k) := by
  unfold concOf
  rw [hi]
  simp [List.getD_eq_getElem?_getD, List.getElem?_eq_getElem hlt]

theorem lawRateAux_ok_of_reachable (conc : List R) (keys : List σ) (reac : List (σ × ℕ))
    (h : ∀ k ∈ dkeys reac, Reachable conc keys k) (acc : R) :
    lawRateAux conc keys reac acc = .ok (acc * concProd (concOf keys conc) reac) := by
  induction reac generalizing acc with
  | nil => simp [lawRateAux, concProd]
  | cons p t ih =>
    obtain ⟨k, v⟩ := p
    obtain ⟨i, hi, hlt⟩ := h k (by simp [dkeys])
    unfold lawRateAux
    simp only [hi, concOf_of_index hi hlt]
    rw [ih (fun k' hk' => h k' (by simp only [dkeys, List.map_cons, List.mem_cons] at hk' ⊢; exact Or.inr hk'))]
    simp [concProd, npow_eq, mul_assoc]

/-- what a failure of the inner loop means -/
theorem lawRateAux_error (conc : List R) (keys : List σ) (reac : List (σ × ℕ)) (acc : R) {e : Err}
    (h : lawRateAux conc keys reac acc = .error e) :
    (e = .valueError ∧ ∃ k ∈ dkeys reac, k ∉ keys) ∨
      (e = .indexError ∧ ∃ k ∈ dkeys reac, ∃ i, indexOf? keys k = some i ∧ conc.length ≤ i) := by
  induction reac generalizing acc with
  | nil => simp [lawRateAux] at h
  | cons p t ih =>
    obtain ⟨k, v⟩ := p
    unfold lawRateAux at h
    cases hi : indexOf? keys k with
    | none =>
      rw [hi] at h
      simp only [Except.error.injEq] at h
      exact Or.inl ⟨h.symm, k, by simp [dkeys], indexOf?_eq_none_iff.mp hi⟩
    | some i =>
      rw [hi] at h
      simp only at h
      cases hc : conc[i]? with
      | none =>
        rw [hc] at h
        simp only [Except.error.injEq] at h
        exact Or.inr ⟨h.symm, k, by simp [dkeys], i, hi, List.getElem?_eq_none_iff.mp hc⟩
      | some x =>
        rw [hc] at h
        simp only at h
        rcases ih _ h with ⟨he, k', hk', hn⟩ | ⟨he, k', hk', i', hi', hl'⟩
        · exact Or.inl ⟨he, k', by simp only [dkeys, List.map_cons, List.mem_cons] at hk' ⊢; exact Or.inr hk', hn⟩
        · exact Or.inr ⟨he, k', by simp only [dkeys, List.map_cons, List.mem_cons] at hk' ⊢; exact Or.inr hk', i', hi', hl'⟩

theorem not_reachable_of {conc : List R} {keys : List σ} {k : σ}
    (h : k ∉ keys ∨ ∃ i, indexOf? keys k = some i ∧ conc.length ≤ i) : ¬ Reachable conc keys k := by
  rintro ⟨i, hi, hlt⟩
  rcases h with h | ⟨i', hi', hl⟩
  · rw [indexOf?_eq_none_iff.mpr h] at hi; cases hi
  · rw [hi] at hi'; cases hi'; omega

/-- **success characterisation of `list(law_of_mass_action_rates(conc, rsys))`** (plain parameters) -/
theorem lawOfMassActionRates_ok_iff (conc : List R) (keys : List σ) (rs : List (Reaction σ R)) (xs : List R) :
    lawOfMassActionRates conc keys rs = .ok xs ↔
      (∀ r ∈ rs, ∀ k ∈ dkeys r.reac, Reachable conc keys k) ∧ xs = rs.map (arrayRate (concOf keys conc)) := by
  induction rs generalizing xs with
  | nil => simp [lawOfMassActionRates, eq_comm]
  | cons r t ih =>
    unfold lawOfMassActionRates lawRate
    by_cases hr : ∀ k ∈ dkeys r.reac, Reachable conc keys k
    · rw [lawRateAux_ok_of_reachable conc keys r.reac hr]
      simp only [Nat.cast_one, one_mul]
      cases ht : lawOfMassActionRates conc keys t with
      | error e =>
        simp only [reduceCtorEq, false_iff, not_and]
        intro hall
        have := (ih (t.map (arrayRate (concOf keys conc)))).mpr ⟨fun r' hr' => hall r' (List.mem_cons_of_mem _ hr'), rfl⟩
        rw [ht] at this; cases this
      | ok ys =>
        have hy := (ih ys).mp ht
        simp only [Except.ok.injEq, List.mem_cons, forall_eq_or_imp, List.map_cons]
        constructor
        · rintro rfl
          exact ⟨⟨hr, hy.1⟩, by rw [hy.2]; rfl⟩
        · rintro ⟨_, rfl⟩
          rw [hy.2]; rfl
    · have hne : ∀ x, lawRateAux conc keys r.reac ((1 : ℕ) : R) ≠ .ok x := by
        intro x hx
        apply hr
        intro k hk
        by_contra hnr
        -- success of the loop implies reachability of every reactant
        have : ∀ (reac : List (σ × ℕ)) (acc x : R), lawRateAux conc keys reac acc = .ok x → ∀ k ∈ dkeys reac, Reachable conc keys k := by
          intro reac
          induction reac with
          | nil => intro _ _ _ k hk; simp [dkeys] at hk
          | cons p t' ih' =>
            obtain ⟨k0, v0⟩ := p
            intro acc x hx k hk
            unfold lawRateAux at hx
            cases hi : indexOf? keys k0 with
            | none => rw [hi] at hx; cases hx
            | some i =>
              rw [hi] at hx
              simp only at hx
              cases hc : conc[i]? with
              | none => rw [hc] at hx; cases hx
              | some y =>
                rw [hc] at hx
                simp only [dkeys, List.map_cons, List.mem_cons] at hk
                rcases hk with rfl | hk
                · exact ⟨i, hi, (List.getElem?_eq_some_iff.mp hc).1⟩
                · exact ih' _ _ hx k (by simpa [dkeys] using hk)
        exact hnr (this r.reac _ x hx k hk)
      cases hl : lawRateAux conc keys r.reac ((1 : ℕ) : R) with
      | ok x => exact absurd hl (hne x)
      | error e =>
        simp only [reduceCtorEq, false_iff, not_and, List.mem_cons, forall_eq_or_imp]
        intro hall
        exact absurd hall.1 hr

/-- **what a refusal means**: `ValueError` names a reactant that is no substance, `IndexError` a substance beyond a short
    `conc`; no other exception occurs -/
theorem lawOfMassActionRates_error (conc : List R) (keys : List σ) (rs : List (Reaction σ R)) {e : Err}
    (h : lawOfMassActionRates conc keys rs = .error e) :
    (e = .valueError ∧ ∃ r ∈ rs, ∃ k ∈ dkeys r.reac, k ∉ keys) ∨
      (e = .indexError ∧ ∃ r ∈ rs, ∃ k ∈ dkeys r.reac, ∃ i, indexOf? keys k = some i ∧ conc.length ≤ i) := by
  induction rs with
  | nil => simp [lawOfMassActionRates] at h
  | cons r t ih =>
    unfold lawOfMassActionRates lawRate at h
    cases hl : lawRateAux conc keys r.reac ((1 : ℕ) : R) with
    | error e' =>
      rw [hl] at h
      simp only [Except.error.injEq] at h
      subst h
      rcases lawRateAux_error conc keys r.reac _ hl with ⟨he, k, hk, hn⟩ | ⟨he, k, hk, i, hi, hlen⟩
      · exact Or.inl ⟨he, r, by simp, k, hk, hn⟩
      · exact Or.inr ⟨he, r, by simp, k, hk, i, hi, hlen⟩
    | ok x =>
      rw [hl] at h
      simp only at h
      cases ht : lawOfMassActionRates conc keys t with
      | ok ys => rw [ht] at h; cases h
      | error e' =>
        rw [ht] at h
        simp only [Except.error.injEq] at h
        subst h
        rcases ih ht with ⟨he, r', hr', rest⟩ | ⟨he, r', hr', rest⟩
        · exact Or.inl ⟨he, r', List.mem_cons_of_mem _ hr', rest⟩
        · exact Or.inr ⟨he, r', List.mem_cons_of_mem _ hr', rest⟩


theorem dCdtEntry_ok_iff (s : σ) (rs : List (Reaction σ R)) (rates : List R) (acc : R) :
    (∃ x, dCdtEntry s rs rates acc = .ok x) ↔ rs.length ≤ rates.length := by
  induction rs generalizing rates acc with
  | nil => simp [dCdtEntry]
  | cons r t ih =>
    cases rates with
    | nil => simp [dCdtEntry]
    | cons x xs => simp only [dCdtEntry, ih, List.length_cons, Nat.add_le_add_iff_right]

theorem dCdtEntry_error (s : σ) (rs : List (Reaction σ R)) (rates : List R) (acc : R) {e : Err}
    (h : dCdtEntry s rs rates acc = .error e) : e = .indexError := by
  induction rs generalizing rates acc with
  | nil => simp [dCdtEntry] at h
  | cons r t ih =>
    cases rates with
    | nil => simp only [dCdtEntry, Except.error.injEq] at h; exact h.symm
    | cons x xs => simp only [dCdtEntry] at h; exact ih _ _ h

/-- `dCdt_list` succeeds iff there is no substance or `rates` is at least as long as the reaction list; the only failure is
    the `IndexError` of `rates[idx_r]` -/
theorem dCdtList_ok_iff (keys : List σ) (rs : List (Reaction σ R)) (rates : List R) :
    ((∃ xs, dCdtList keys rs rates = .ok xs) ↔ keys = [] ∨ rs.length ≤ rates.length) ∧
      (∀ e, dCdtList keys rs rates = .error e → e = .indexError) := by
  induction keys with
  | nil => simp [dCdtList]
  | cons s t ih =>
    unfold dCdtList
    cases he : dCdtEntry s rs rates ((0 : ℕ) : R) with
    | error e =>
      have hn : ¬ rs.length ≤ rates.length := fun hle => by
        obtain ⟨x, hx⟩ := (dCdtEntry_ok_iff s rs rates ((0 : ℕ) : R)).mpr hle
        rw [he] at hx; cases hx
      refine ⟨by simp [hn], ?_⟩
      intro e' h'
      simp only [Except.error.injEq] at h'
      rw [← h']; exact dCdtEntry_error s rs rates _ he
    | ok x =>
      have hle : rs.length ≤ rates.length := (dCdtEntry_ok_iff s rs rates _).mp ⟨x, he⟩
      cases ht : dCdtList t rs rates with
      | error e =>
        exfalso
        have := ih.1.mpr (Or.inr hle)
        rw [ht] at this
        obtain ⟨_, h⟩ := this
        cases h
      | ok ys => simp [hle]


/-! ### the `MassAction` branch agrees with the plain branch -/
theorem zip_eq_map_concOf (keys : List σ) (conc : List R) (hnd : keys.Nodup) (hlen : conc.length = keys.length) :
    keys.zip conc = keys.map fun k => (k, concOf keys conc k) := by
  induction keys generalizing conc with
  | nil => simp
  | cons k t ih =>
    cases conc with
    | nil => simp at hlen
    | cons x xs =>
      rw [List.nodup_cons] at hnd
      simp only [List.zip_cons_cons, List.map_cons]
      have h0 : concOf (k :: t) (x :: xs) k = x := by simp [concOf, indexOf?]
      rw [h0, ih xs hnd.2 (by simpa using hlen)]
      congr 1
      apply List.map_congr_left
      intro k' hk'
      have hne : ¬ k = k' := fun e => hnd.1 (e ▸ hk')
      obtain ⟨i, hi, _⟩ := indexOf?_of_mem hk'
      simp [concOf, indexOf?, hne, hi]

theorem concProd_congr (c c' : σ → R) (reac : List (σ × ℕ)) (h : ∀ k ∈ dkeys reac, c k = c' k) :
    concProd c reac = concProd c' reac := by
  unfold concProd
  congr 1
  apply List.map_congr_left
  intro p hp
  rw [h p.1 (List.mem_map_of_mem (f := Prod.fst) hp)]

/-- the `MassAction` branch of `law_of_mass_action_rates` agrees with the plain branch on well-formed input -/
theorem lawRateMassAction_eq (keys : List σ) (conc : List R) (hnd : keys.Nodup) (hlen : conc.length = keys.length)
    (r : Reaction σ R) (h : ∀ k ∈ dkeys r.reac, k ∈ keys) :
    lawRateMassAction conc keys r = lawRate conc keys r := by
  have hz : dictOf (keys.zip conc) = keys.map fun k => (k, concOf keys conc k) := by
    rw [zip_eq_map_concOf keys conc hnd hlen, dictOf_map_of_nodup keys _ hnd]
  have hget : ∀ k ∈ keys, dgetD (dictOf (keys.zip conc)) k ((0 : ℕ) : R) = concOf keys conc k := by
    intro k hk
    unfold dgetD
    rw [zip_eq_map_concOf keys conc hnd hlen, dget?_dictOf_map, if_pos hk]
  have hmiss : missingVars (dictOf (keys.zip conc)) (dkeys r.reac) = none := by
    unfold missingVars
    rw [List.find?_eq_none]
    intro k hk
    have : k ∈ dkeys (dictOf (keys.zip conc)) := by
      rw [hz]; simpa [dkeys, Function.comp_def] using h k hk
    simp [dmem_iff.mpr this]
  unfold lawRateMassAction
  simp only [hmiss]
  rw [lawRate_eq hlen r h]
  congr 1
  unfold massAction arrayRate
  rw [activeConcProd_eq, concProd_congr _ (concOf keys conc) r.reac (fun k hk => hget k (h k hk)), mul_comm]

theorem lawOfMassActionRatesK_massAction (keys : List σ) (conc : List R) (hnd : keys.Nodup) (hlen : conc.length = keys.length)
    (rs : List (Reaction σ R)) (kinds : List ParamKind) (hk : kinds.length = rs.length)
    (hkind : ∀ kd ∈ kinds, kd = .plain ∨ kd = .massAction) (h : ∀ r ∈ rs, ∀ k ∈ dkeys r.reac, k ∈ keys) :
    lawOfMassActionRatesK conc keys (rs.zip kinds) = lawOfMassActionRates conc keys rs := by
  induction rs generalizing kinds with
  | nil => simp [lawOfMassActionRatesK, lawOfMassActionRates]
  | cons r t ih =>
    cases kinds with
    | nil => simp at hk
    | cons kd ks =>
      simp only [List.zip_cons_cons, lawOfMassActionRatesK, lawOfMassActionRates]
      have hrest := ih ks (by simpa using hk) (fun kd' hkd' => hkind kd' (List.mem_cons_of_mem _ hkd'))
        (fun r' hr' => h r' (List.mem_cons_of_mem _ hr'))
      rcases hkind kd (by simp) with rfl | rfl
      · simp only [hrest]
      · simp only [hrest, lawRateMassAction_eq keys conc hnd hlen r (h r (by simp))]


end ArrayPath

/-! ## Part 4: compositions and balance -/
section Balance
variable {σ ρ : Type} [DecidableEq σ] {A : Type} [CommRing A]

theorem mem_insertKey {k x : ℤ} {l : List ℤ} : x ∈ insertKey k l ↔ x = k ∨ x ∈ l := by
  induction l with
  | nil => simp [insertKey]
  | cons h t ih =>
    unfold insertKey
    by_cases h1 : k < h
    · simp [h1]
    · by_cases h2 : k = h
      · subst h2; simp
      · simp only [h1, h2, if_false, List.mem_cons, ih]; tauto

theorem mem_foldl_insertKey {γ : Type} (f : γ → ℤ) (c : List γ) (acc : List ℤ) (x : ℤ) :
    x ∈ c.foldl (fun a kv => insertKey (f kv) a) acc ↔ x ∈ acc ∨ x ∈ c.map f := by
  induction c generalizing acc with
  | nil => simp
  | cons h t ih => simp only [List.foldl_cons, ih, mem_insertKey, List.map_cons, List.mem_cons]; tauto

/-- the composition keys are exactly the keys occurring in some composition -/
theorem mem_compositionKeys {subs : Substances σ A} {x : ℤ} :
    x ∈ compositionKeys subs ↔ ∃ sc ∈ subs, ∃ c, sc.2 = some c ∧ x ∈ dkeys c := by
  have aux : ∀ (acc : List ℤ), x ∈ subs.foldl (fun acc s => addCompKeys acc s.2) acc ↔
      x ∈ acc ∨ ∃ sc ∈ subs, ∃ c, sc.2 = some c ∧ x ∈ dkeys c := by
    induction subs with
    | nil => intro acc; simp
    | cons h t ih =>
      intro acc
      obtain ⟨k, oc⟩ := h
      simp only [List.foldl_cons, ih, List.mem_cons, exists_eq_or_imp]
      cases oc with
      | none => simp [addCompKeys]
      | some c =>
        simp only [addCompKeys, mem_foldl_insertKey (fun kv : ℤ × A => kv.1), Option.some.injEq, exists_eq_left', dkeys]
        tauto
  simpa [compositionKeys] using aux []

/-- amount of composition key `key` in a substance entry (a missing composition counts as empty; all statements
    using it assume every substance has one) -/
def compAt (sc : σ × Option (Comp A)) (key : ℤ) : A :=
  match sc.2 with
  | some c => compGet c key
  | none => 0

/-- `Σ_s comp s key · net r s` over the substances of the system -/
def compSum (r : Reaction σ ρ) (key : ℤ) (subs : Substances σ A) : A :=
  (subs.map fun sc => compAt sc key * ((netStoich r sc.1 : ℤ) : A)).sum

omit [DecidableEq σ] [CommRing A] in
theorem firstWithoutComposition_cons_none {k : σ} {oc : Option (Comp A)} {t : Substances σ A}
    (h : firstWithoutComposition ((k, oc) :: t) = none) : (∃ c, oc = some c) ∧ firstWithoutComposition t = none := by
  cases oc with
  | none => simp [firstWithoutComposition] at h
  | some c => exact ⟨⟨c, rfl⟩, by simpa [firstWithoutComposition] using h⟩

omit [DecidableEq σ] [CommRing A] in
theorem firstWithoutComposition_eq_none_iff {subs : Substances σ A} :
    firstWithoutComposition subs = none ↔ ∀ sc ∈ subs, ∃ c, sc.2 = some c := by
  induction subs with
  | nil => simp [firstWithoutComposition]
  | cons h t ih =>
    obtain ⟨k, oc⟩ := h
    cases oc with
    | none => simp [firstWithoutComposition]
    | some c => simp [firstWithoutComposition, ih]

theorem compGet_eq_zero_of_not_mem {c : Comp A} {key : ℤ} (h : key ∉ dkeys c) : compGet c key = 0 := by
  unfold compGet
  rw [dgetD_of_not_mem h]
  simp

theorem compSum_eq_zero_of_not_mem (r : Reaction σ ρ) {key : ℤ} {subs : Substances σ A}
    (h : key ∉ compositionKeys subs) : compSum r key subs = 0 := by
  unfold compSum
  apply List.sum_eq_zero
  intro x hx
  obtain ⟨sc, hsc, rfl⟩ := List.mem_map.mp hx
  have : compAt sc key = 0 := by
    unfold compAt
    cases hc : sc.2 with
    | none => rfl
    | some c =>
      exact compGet_eq_zero_of_not_mem (fun hm => h (mem_compositionKeys.mpr ⟨sc, hsc, c, hc, hm⟩))
  simp [this]

theorem violationEntry_eq (r : Reaction σ ρ) (key : ℤ) (subs : Substances σ A)
    (h : firstWithoutComposition subs = none) (acc : A) :
    violationEntry r key subs acc = .ok (acc + compSum r key subs) := by
  induction subs generalizing acc with
  | nil => simp [violationEntry, compSum]
  | cons hd t ih =>
    obtain ⟨k, oc⟩ := hd
    obtain ⟨⟨c, rfl⟩, ht⟩ := firstWithoutComposition_cons_none h
    simp only [violationEntry, ih ht, compSum, List.map_cons, List.sum_cons, compAt, add_assoc]

theorem violationList_eq (r : Reaction σ ρ) (subs : Substances σ A) (h : firstWithoutComposition subs = none)
    (ck : List ℤ) : violationList r subs ck = .ok (ck.map fun key => compSum r key subs) := by
  induction ck with
  | nil => rfl
  | cons key t ih =>
    unfold violationList
    rw [violationEntry_eq r key subs h, ih]
    simp

theorem compositionViolation_eq (r : Reaction σ ρ) {subs : Substances σ A} (hne : subs ≠ [])
    (h : firstWithoutComposition subs = none) :
    compositionViolation r subs none =
      .ok ((compositionKeys subs).map (fun key => compSum r key subs), compositionKeys subs) := by
  cases subs with
  | nil => exact absurd rfl hne
  | cons hd t =>
    simp only [compositionViolation]
    rw [violationList_eq r _ h]

variable [DecidableEq A]

theorem firstViolation_map_eq_none_iff (f : ℤ → A) (ck : List ℤ) :
    firstViolation (ck.map f) ck = none ↔ ∀ k ∈ ck, f k = 0 := by
  induction ck with
  | nil => simp [firstViolation]
  | cons k t ih =>
    simp only [List.map_cons, firstViolation, Nat.cast_zero, ne_eq, ite_not, List.mem_cons, forall_eq_or_imp]
    by_cases h : f k = 0
    · simp [h, ih]
    · simp [h]

theorem firstViolation_map_eq_some (f : ℤ → A) (ck : List ℤ) {k : ℤ} {n : A}
    (h : firstViolation (ck.map f) ck = some (k, n)) : k ∈ ck ∧ n = f k ∧ n ≠ 0 := by
  induction ck with
  | nil => simp [firstViolation] at h
  | cons k' t ih =>
    simp only [List.map_cons, firstViolation, Nat.cast_zero, ne_eq, ite_not] at h
    by_cases hz : f k' = 0
    · simp only [hz, if_true] at h
      obtain ⟨h1, h2, h3⟩ := ih h
      exact ⟨List.mem_cons_of_mem _ h1, h2, h3⟩
    · simp only [hz, if_false, Option.some.injEq, Prod.mk.injEq] at h
      obtain ⟨rfl, rfl⟩ := h
      exact ⟨by simp, rfl, hz⟩

theorem checkRxns_ok_iff {subs : Substances σ A} (hne : subs ≠ []) (h : firstWithoutComposition subs = none)
    (rs : List (Reaction σ ρ)) (idx : ℕ) :
    checkRxns subs rs idx = .ok ↔ ∀ r ∈ rs, ∀ k ∈ compositionKeys subs, compSum r k subs = 0 := by
  induction rs generalizing idx with
  | nil => simp [checkRxns]
  | cons r t ih =>
    unfold checkRxns
    rw [compositionViolation_eq r hne h]
    simp only
    cases hv : firstViolation ((compositionKeys subs).map fun key => compSum r key subs) (compositionKeys subs) with
    | none =>
      simp only [ih, List.mem_cons, forall_eq_or_imp]
      have := (firstViolation_map_eq_none_iff (fun key => compSum r key subs) _).mp hv
      tauto
    | some kn =>
      obtain ⟨k, n⟩ := kn
      obtain ⟨h1, h2, h3⟩ := firstViolation_map_eq_some (fun key => compSum r key subs) _ hv
      simp only [reduceCtorEq, List.mem_cons, forall_eq_or_imp, false_iff, not_and]
      intro hall
      exact absurd (hall k h1) (h2 ▸ h3)

theorem checkRxns_violation {subs : Substances σ A} (hne : subs ≠ []) (h : firstWithoutComposition subs = none)
    (rs : List (Reaction σ ρ)) (idx : ℕ) {i : ℕ} {k : ℤ} {n : A} (hv : checkRxns subs rs idx = .violation i k n) :
    ∃ r, idx ≤ i ∧ rs[i - idx]? = some r ∧ k ∈ compositionKeys subs ∧ n = compSum r k subs ∧ n ≠ 0 ∧
      ∀ j, j < i - idx → ∀ r' , rs[j]? = some r' → ∀ k' ∈ compositionKeys subs, compSum r' k' subs = 0 := by
  induction rs generalizing idx with
  | nil => simp [checkRxns] at hv
  | cons r t ih =>
    unfold checkRxns at hv
    rw [compositionViolation_eq r hne h] at hv
    simp only at hv
    cases hf : firstViolation ((compositionKeys subs).map fun key => compSum r key subs) (compositionKeys subs) with
    | none =>
      rw [hf] at hv
      obtain ⟨r', h0, h1, h2, h3, h4, h5⟩ := ih (idx + 1) hv
      have hi : i - idx = (i - (idx + 1)) + 1 := by omega
      refine ⟨r', by omega, ?_, h2, h3, h4, ?_⟩
      · rw [hi]; simpa using h1
      · intro j hj r'' hr'' k' hk'
        cases j with
        | zero =>
          simp only [List.getElem?_cons_zero, Option.some.injEq] at hr''
          subst hr''
          exact (firstViolation_map_eq_none_iff (fun key => compSum r key subs) _).mp hf k' hk'
        | succ j =>
          simp only [List.getElem?_cons_succ] at hr''
          exact h5 j (by omega) r'' hr'' k' hk'
    | some kn =>
      obtain ⟨k', n'⟩ := kn
      rw [hf] at hv
      simp only [BalanceResult.violation.injEq] at hv
      obtain ⟨rfl, rfl, rfl⟩ := hv
      obtain ⟨h1, h2, h3⟩ := firstViolation_map_eq_some (fun key => compSum r key subs) _ hf
      exact ⟨r, le_refl _, by simp, h1, h2, h3, by simp⟩

theorem checkRxns_not_raised_or_noComposition {subs : Substances σ A} (hne : subs ≠ [])
    (h : firstWithoutComposition subs = none) (rs : List (Reaction σ ρ)) (idx : ℕ) :
    (∀ e, checkRxns subs rs idx ≠ .raised e) ∧ (∀ s, checkRxns subs rs idx ≠ .noComposition s) := by
  induction rs generalizing idx with
  | nil => simp [checkRxns]
  | cons r t ih =>
    unfold checkRxns
    rw [compositionViolation_eq r hne h]
    simp only
    cases firstViolation ((compositionKeys subs).map fun key => compSum r key subs) (compositionKeys subs) with
    | none => exact ih (idx + 1)
    | some kn => simp

/-- "some substance has no composition ⇒ accept" (non-strict) / `ValueError("No composition …")` (strict): re-reads the first
    `match` of `checkBalance` -/
theorem checkBalance_of_missing (subs : Substances σ A) (rs : List (Reaction σ ρ)) (s : σ)
    (h : firstWithoutComposition subs = some s) :
    checkBalance subs rs false = .ok ∧ checkBalance subs rs true = .noComposition s := by
  unfold checkBalance
  rw [h]
  exact ⟨rfl, rfl⟩

theorem constructorChecks_default (subs : Substances σ A) (rs : List (Reaction σ ρ)) (dupOk : Bool) :
    constructorChecks true true subs rs dupOk = constructorAccepts subs rs dupOk := by
  simp [constructorChecks, constructorAccepts]

omit [CommRing A] [DecidableEq A] in
theorem checkSubstanceKeys_iff (subs : Substances σ A) (rs : List (Reaction σ ρ)) :
    checkSubstanceKeys subs rs = true ↔ ∀ r ∈ rs, ∀ k ∈ rxnKeys r, k ∈ dkeys subs := by
  unfold checkSubstanceKeys rxnKeys
  simp only [List.all_eq_true, dmem_iff, mem_dedupKeys]

omit [DecidableEq A] [DecidableEq σ] in
/-- terms that vanish outside a predicate can be dropped from a sum -/
theorem sum_map_filter_of_zero {γ : Type} (l : List γ) (p : γ → Bool) (f : γ → A) (h : ∀ x ∈ l, p x = false → f x = 0) :
    (l.map f).sum = ((l.filter p).map f).sum := by
  induction l with
  | nil => rfl
  | cons a t ih =>
    have ih' := ih (fun x hx => h x (List.mem_cons_of_mem _ hx))
    by_cases hp : p a = true
    · simp [hp, ih']
    · have hz : f a = 0 := h a (by simp) (by simpa using hp)
      simp [hp, ih', hz]

omit [CommRing A] [DecidableEq A] in
theorem netStoich_eq_zero_of_not_mem {r : Reaction σ ρ} {s : σ} (h : s ∉ rxnKeys r) : netStoich r s = 0 := by
  unfold rxnKeys at h
  rw [mem_dedupKeys] at h
  simp only [List.mem_append, not_or] at h
  unfold netStoich coef
  rw [dgetD_of_not_mem h.1.1.1, dgetD_of_not_mem h.1.1.2, dgetD_of_not_mem h.1.2, dgetD_of_not_mem h.2]
  simp

omit [DecidableEq A] [DecidableEq σ] in
theorem balanceRow_eq (key : ℤ) (subs : Substances σ A) (h : firstWithoutComposition subs = none) :
    balanceRow key subs = .ok (subs.map fun sc => compAt sc key) := by
  induction subs with
  | nil => rfl
  | cons hd t ih =>
    obtain ⟨k, oc⟩ := hd
    obtain ⟨⟨c, rfl⟩, ht⟩ := firstWithoutComposition_cons_none h
    simp [balanceRow, ih ht, compAt]

omit [DecidableEq A] in
theorem balanceRows_eq (subs : Substances σ A) (h : firstWithoutComposition subs = none) (ck : List ℤ) :
    balanceRows subs ck = .ok (ck.map fun key => subs.map fun sc => compAt sc key) := by
  induction ck with
  | nil => rfl
  | cons key t ih =>
    unfold balanceRows
    rw [balanceRow_eq key subs h, ih]
    simp

omit [DecidableEq A] in
theorem compositionBalanceVectors_eq (subs : Substances σ A) (h : firstWithoutComposition subs = none) :
    compositionBalanceVectors subs =
      .ok ((compositionKeys subs).map (fun key => subs.map fun sc => compAt sc key), compositionKeys subs) := by
  unfold compositionBalanceVectors
  simp only
  rw [balanceRows_eq subs h]

end Balance

/-! ### the balance check ignores rate parameters -/
section BalanceCongr
variable {σ ρ ρ' : Type} [DecidableEq σ] {A : Type} [CommRing A]

/-- the balance check reads a reaction only through its net stoichiometry -/
theorem violationEntry_congr {r : Reaction σ ρ} {r' : Reaction σ ρ'} (h : ∀ s, netStoich r s = netStoich r' s) (key : ℤ)
    (subs : Substances σ A) (acc : A) : violationEntry r key subs acc = violationEntry r' key subs acc := by
  induction subs generalizing acc with
  | nil => rfl
  | cons hd t ih =>
    obtain ⟨k, oc⟩ := hd
    cases oc with
    | none => rfl
    | some c => simp only [violationEntry, h, ih]

theorem violationList_congr {r : Reaction σ ρ} {r' : Reaction σ ρ'} (h : ∀ s, netStoich r s = netStoich r' s)
    (subs : Substances σ A) (ck : List ℤ) : violationList r subs ck = violationList r' subs ck := by
  induction ck with
  | nil => rfl
  | cons key t ih => simp only [violationList, violationEntry_congr h, ih]

theorem compositionViolation_congr {r : Reaction σ ρ} {r' : Reaction σ ρ'} (h : ∀ s, netStoich r s = netStoich r' s)
    (subs : Substances σ A) (ck? : Option (List ℤ)) : compositionViolation r subs ck? = compositionViolation r' subs ck? := by
  cases subs with
  | nil => rfl
  | cons hd t => simp only [compositionViolation, violationList_congr h]

variable [DecidableEq A]

theorem checkRxns_congr {γ : Type} (f : γ → Reaction σ ρ) (g : γ → Reaction σ ρ')
    (h : ∀ x s, netStoich (f x) s = netStoich (g x) s) (subs : Substances σ A) (l : List γ) (idx : ℕ) :
    checkRxns subs (l.map f) idx = checkRxns subs (l.map g) idx := by
  induction l generalizing idx with
  | nil => rfl
  | cons x t ih => simp only [List.map_cons, checkRxns, compositionViolation_congr (h x), ih]

/-- `check_balance` does not look at rate parameters: two reaction lists with the same stoichiometry get the same verdict -/
theorem checkBalance_congr {γ : Type} (f : γ → Reaction σ ρ) (g : γ → Reaction σ ρ')
    (h : ∀ x s, netStoich (f x) s = netStoich (g x) s) (subs : Substances σ A) (l : List γ) (strict : Bool) :
    checkBalance subs (l.map f) strict = checkBalance subs (l.map g) strict := by
  unfold checkBalance
  cases firstWithoutComposition subs with
  | some s => rfl
  | none => exact checkRxns_congr f g h subs l 0

end BalanceCongr

/-! ### conservation: `B · f(c) = 0` -/
section Invariant
variable {σ : Type} [DecidableEq σ] {A : Type} [CommRing A] {R : Type} [CommRing R]

/-- `Σ_s φ(b_s) · Σ_r contribution r s  =  Σ_r rate_r · φ(Σ_s b_s · net r s)` -/
theorem weighted_rates_eq (φ : A →+* R) (c : σ → R) (key : ℤ) (subs : Substances σ A) (rs : List (Reaction σ R)) :
    (subs.map fun sc => φ (compAt sc key) * (rs.map fun r => contribution c r sc.1).sum).sum =
      (rs.map fun r => (r.param * concProd c r.reac) * φ (compSum r key subs)).sum := by
  induction rs with
  | nil => simp
  | cons r t ih =>
    simp only [List.map_cons, List.sum_cons, mul_add, List.sum_map_add, ih]
    congr 1
    unfold compSum
    rw [map_list_sum, List.map_map, ← List.sum_map_mul_left]
    congr 1
    apply List.map_congr_left
    intro sc _
    simp only [Function.comp, map_mul, map_intCast, contribution, netStoich]
    ring

end Invariant

/-! ### violation helpers (`mass_balance_violation`, `charge_neutrality_violation`) -/
section Helpers
variable {σ ρ : Type} [DecidableEq σ] {A : Type} [CommRing A]

theorem attrViolation_eq (r : Reaction σ ρ) (attrs : List (σ × A)) :
    attrViolation r attrs = (attrs.map fun sa => sa.2 * ((netStoich r sa.1 : ℤ) : A)).sum := by
  unfold attrViolation
  rw [foldl_add_eq (fun sa : σ × A => sa.2 * ((netStoich r sa.1 : ℤ) : A))]
  simp

/-- an attribute that is a fixed linear combination `Σ_key w key · comp s key` of the composition (mass: atomic
    weights and minus the electron mass for key 0; charge: `w 0 = 1`) has violation `Σ_key w key · compSum key` -/
theorem attrViolation_of_linear (r : Reaction σ ρ) (subs : Substances σ A) (ks : List ℤ) (w : ℤ → A) :
    attrViolation r (subs.map fun sc => (sc.1, (ks.map fun key => w key * compAt sc key).sum)) =
      (ks.map fun key => w key * compSum r key subs).sum := by
  rw [attrViolation_eq, List.map_map]
  show (subs.map fun sc => (ks.map fun key => w key * compAt sc key).sum * ((netStoich r sc.1 : ℤ) : A)).sum = _
  induction ks with
  | nil => simp
  | cons key t ih =>
    simp only [List.map_cons, List.sum_cons, add_mul, List.sum_map_add, ih]
    congr 1
    unfold compSum
    rw [← List.sum_map_mul_left]
    congr 1
    apply List.map_congr_left
    intro sc _
    ring

end Helpers

/-! ## Part 5: analytic elimination -/
section Elim
variable {K : Type} [Field K] [DecidableEq K]

/-- `Σ_{di < ny} M[rj, di] · v di` -/
def rowDot (M : Mat K) (ny rj : ℕ) (v : ℕ → K) : K := ((List.range ny).map fun di => entry M rj di * v di).sum

theorem entry_pivotOn (m ny : ℕ) (M : Mat K) (ri idx : ℕ) {rj di : ℕ} (hr : rj < m) (hd : di < ny) :
    entry (pivotOn m ny M ri idx) rj di = pivotEntry M ri idx rj di := by
  unfold entry pivotOn
  simp [hr, hd]

theorem pivot_unit_col (m ny : ℕ) (M : Mat K) {ri idx : ℕ} (hri : ri < m) (hidx : idx < ny)
    (hp : entry M ri idx ≠ 0) :
    entry (pivotOn m ny M ri idx) ri idx = 1 ∧ ∀ rj, rj < m → rj ≠ ri → entry (pivotOn m ny M ri idx) rj idx = 0 := by
  constructor
  · rw [entry_pivotOn m ny M ri idx hri hidx]
    simp [pivotEntry, hp]
  · intro rj hrj hne
    rw [entry_pivotOn m ny M ri idx hrj hidx]
    unfold pivotEntry
    by_cases hz : entry M rj idx = 0
    · simp [hne, hz]
    · simp [hne, hz, hp]

theorem pivot_keeps_col (m ny : ℕ) (M : Mat K) (ri idx : ℕ) {c : ℕ} (hc : c < ny) (hz : entry M ri c = 0)
    {rj : ℕ} (hrj : rj < m) : entry (pivotOn m ny M ri idx) rj c = entry M rj c := by
  rw [entry_pivotOn m ny M ri idx hrj hc]
  unfold pivotEntry
  by_cases h1 : rj = ri
  · simp [h1, hz]
  · by_cases h2 : entry M rj idx = 0
    · simp [h1, h2]
    · simp [h1, h2, hz]

theorem rowDot_pivot_self (m ny : ℕ) (M : Mat K) {ri idx : ℕ} (hri : ri < m) (v : ℕ → K) :
    rowDot (pivotOn m ny M ri idx) ny ri v = rowDot M ny ri v / entry M ri idx := by
  unfold rowDot
  rw [div_eq_mul_inv, ← List.sum_map_mul_right]
  congr 1
  apply List.map_congr_left
  intro di hdi
  rw [entry_pivotOn m ny M ri idx hri (List.mem_range.mp hdi)]
  simp only [pivotEntry, if_true]
  ring

omit [DecidableEq K] in
theorem list_sum_map_sub {γ : Type} (l : List γ) (f g : γ → K) :
    (l.map fun x => f x - g x).sum = (l.map f).sum - (l.map g).sum := by
  induction l with
  | nil => simp
  | cons a t ih => simp only [List.map_cons, List.sum_cons, ih]; ring

theorem rowDot_pivot_other (m ny : ℕ) (M : Mat K) {ri idx rj : ℕ} (hrj : rj < m) (hne : rj ≠ ri) (v : ℕ → K) :
    rowDot (pivotOn m ny M ri idx) ny rj v =
      rowDot M ny rj v - entry M rj idx * (rowDot M ny ri v / entry M ri idx) := by
  unfold rowDot
  rw [div_eq_mul_inv, ← List.sum_map_mul_right, ← List.sum_map_mul_left, ← list_sum_map_sub]
  congr 1
  apply List.map_congr_left
  intro di hdi
  rw [entry_pivotOn m ny M ri idx hrj (List.mem_range.mp hdi)]
  unfold pivotEntry
  by_cases hz : entry M rj idx = 0
  · simp [hne, hz]
  · simp only [hne, if_false, Nat.cast_zero, ne_eq, hz, not_false_eq_true, if_true]
    ring

/-- a pivot step does not change the set of vectors annihilated by all rows (the invariants) -/
theorem pivot_kernel (m ny : ℕ) (M : Mat K) {ri idx : ℕ} (hri : ri < m) (hp : entry M ri idx ≠ 0) (v : ℕ → K) :
    (∀ rj, rj < m → rowDot (pivotOn m ny M ri idx) ny rj v = 0) ↔ (∀ rj, rj < m → rowDot M ny rj v = 0) := by
  constructor
  · intro h
    have hself : rowDot M ny ri v = 0 := by
      have := h ri hri
      rw [rowDot_pivot_self m ny M hri] at this
      rcases div_eq_zero_iff.mp this with h0 | h0
      · exact h0
      · exact absurd h0 hp
    intro rj hrj
    by_cases hne : rj = ri
    · rw [hne]; exact hself
    · have := h rj hrj
      rw [rowDot_pivot_other m ny M hrj hne, hself] at this
      simpa using this
  · intro h rj hrj
    by_cases hne : rj = ri
    · rw [hne, rowDot_pivot_self m ny M hri, h ri hri]; simp
    · rw [rowDot_pivot_other m ny M hrj hne, h rj hrj, h ri hri]; simp

/-- column `c` is the unit column of row `r`: `M[r, c] = 1` and zero in every other row -/
def UnitCol (m : ℕ) (M : Mat K) (r c : ℕ) : Prop := entry M r c = 1 ∧ ∀ rj, rj < m → rj ≠ r → entry M rj c = 0

theorem chooseIdx_spec {σ : Type} [DecidableEq σ] (row : ℕ → K) (names : ℕ → σ)
    (pref : Option (List σ)) (idx fuel : ℕ) {j : ℕ} (h : chooseIdx row names pref idx fuel = some j) :
    idx ≤ j ∧ j < idx + fuel ∧ row j ≠ 0 ∧ allowed pref (names j) = true := by
  induction fuel generalizing idx with
  | zero => simp [chooseIdx] at h
  | succ n ih =>
    unfold chooseIdx at h
    by_cases hc : row idx ≠ ((0 : ℕ) : K) ∧ allowed pref (names idx) = true
    · rw [if_pos hc] at h
      simp only [Option.some.injEq] at h
      subst h
      exact ⟨le_refl _, by omega, by simpa using hc.1, hc.2⟩
    · rw [if_neg hc] at h
      obtain ⟨a, b, c, d⟩ := ih (idx + 1) h
      exact ⟨by omega, by omega, c, d⟩

/-- what phase 1 of the solver guarantees, for the loop started at row `ri` with `fuel` rows to go -/
theorem elimLoop_spec {σ : Type} [DecidableEq σ] (m ny : ℕ) (names : ℕ → σ) (fuel : ℕ) :
    ∀ (ri : ℕ) (M : Mat K) (pref : Option (List σ)), ri + fuel ≤ m →
      let res := elimLoop m ny names ri fuel M pref
      (∀ v : ℕ → K, (∀ rj, rj < m → rowDot res.1 ny rj v = 0) ↔ (∀ rj, rj < m → rowDot M ny rj v = 0)) ∧
      (∀ rc ∈ res.2.1, ri ≤ rc.1 ∧ rc.1 < ri + fuel ∧ rc.2 < ny ∧ UnitCol m res.1 rc.1 rc.2) ∧
      (res.2.1.Pairwise fun a b => a.1 < b.1) ∧
      (∀ r0 c, r0 < ri → c < ny → UnitCol m M r0 c → UnitCol m res.1 r0 c) := by
  induction fuel with
  | zero =>
    intro ri M pref _
    simp [elimLoop]
  | succ n ih =>
    intro ri M pref hle
    unfold elimLoop
    cases hch : chooseIdx (entry M ri) names pref 0 ny with
    | none =>
      simp only
      obtain ⟨h1, h2, h3, h4⟩ := ih (ri + 1) M pref (by omega)
      refine ⟨h1, ?_, h3, ?_⟩
      · intro rc hrc
        obtain ⟨a, b, c, d⟩ := h2 rc hrc
        exact ⟨by omega, by omega, c, d⟩
      · intro r0 c hr0 hc hu
        exact h4 r0 c (by omega) hc hu
    | some idx =>
      simp only
      obtain ⟨_, hidx, hnz, _⟩ := chooseIdx_spec (entry M ri) names pref 0 ny hch
      have hidx' : idx < ny := by omega
      have hri : ri < m := by omega
      obtain ⟨h1, h2, h3, h4⟩ := ih (ri + 1) (pivotOn m ny M ri idx) (pref.map fun p => p.erase (names idx)) (by omega)
      have hunit : UnitCol m (pivotOn m ny M ri idx) ri idx := pivot_unit_col m ny M hri hidx' hnz
      refine ⟨?_, ?_, ?_, ?_⟩
      · intro v
        rw [h1 v, pivot_kernel m ny M hri hnz v]
      · intro rc hrc
        rcases List.mem_cons.mp hrc with rfl | hrc
        · exact ⟨le_refl _, by omega, hidx', h4 ri idx (by omega) hidx' hunit⟩
        · obtain ⟨a, b, c, d⟩ := h2 rc hrc
          exact ⟨by omega, by omega, c, d⟩
      · rw [List.pairwise_cons]
        refine ⟨?_, h3⟩
        intro rc hrc
        have := (h2 rc hrc).1
        show ri < rc.1
        omega
      · intro r0 c hr0 hc hu
        apply h4 r0 c (by omega) hc
        have hz : entry M ri c = 0 := hu.2 ri hri (by omega)
        constructor
        · rw [pivot_keeps_col m ny M ri idx hc hz (by omega)]; exact hu.1
        · intro rj hrj hne
          rw [pivot_keeps_col m ny M ri idx hc hz hrj]
          exact hu.2 rj hrj hne

/-! ### coverage for `preferred=None`: every row is served or zero -/

/-- row `rj` is zero on the first `ny` columns -/
def ZeroRow (ny : ℕ) (M : Mat K) (rj : ℕ) : Prop := ∀ di, di < ny → entry M rj di = 0

theorem pivot_keeps_zero_row (m ny : ℕ) (M : Mat K) (ri idx : ℕ) {rj : ℕ} (hrj : rj < m) (hne : rj ≠ ri)
    (hidx : idx < ny) (hz : ZeroRow ny M rj) : ZeroRow ny (pivotOn m ny M ri idx) rj := by
  intro di hdi
  rw [entry_pivotOn m ny M ri idx hrj hdi]
  unfold pivotEntry
  simp [hne, hz idx hidx, hz di hdi]

theorem chooseIdx_none_zero {σ : Type} [DecidableEq σ] (row : ℕ → K) (names : ℕ → σ) (idx fuel : ℕ)
    (h : chooseIdx row names none idx fuel = none) : ∀ di, idx ≤ di → di < idx + fuel → row di = 0 := by
  induction fuel generalizing idx with
  | zero => intro di h1 h2; omega
  | succ n ih =>
    unfold chooseIdx at h
    by_cases hc : row idx ≠ ((0 : ℕ) : K) ∧ allowed (none : Option (List σ)) (names idx) = true
    · rw [if_pos hc] at h; cases h
    · rw [if_neg hc] at h
      intro di h1 h2
      by_cases he : di = idx
      · subst he
        by_contra hne
        exact hc ⟨by simpa using hne, rfl⟩
      · exact ih (idx + 1) h di (by omega) (by omega)

theorem elimLoop_cover {σ : Type} [DecidableEq σ] (m ny : ℕ) (names : ℕ → σ) (fuel : ℕ) :
    ∀ (ri : ℕ) (M : Mat K), ri + fuel ≤ m →
      let res := elimLoop m ny names ri fuel M (none : Option (List σ))
      (∀ rj, rj < m → ZeroRow ny M rj → ZeroRow ny res.1 rj) ∧
      (∀ rj, ri ≤ rj → rj < ri + fuel → (∃ rc ∈ res.2.1, rc.1 = rj) ∨ ZeroRow ny res.1 rj) := by
  induction fuel with
  | zero =>
    intro ri M _
    simp only [elimLoop]
    exact ⟨fun _ _ h => h, fun rj h1 h2 => by omega⟩
  | succ n ih =>
    intro ri M hle
    unfold elimLoop
    cases hch : chooseIdx (entry M ri) names (none : Option (List σ)) 0 ny with
    | none =>
      simp only
      obtain ⟨h1, h2⟩ := ih (ri + 1) M (by omega)
      refine ⟨h1, ?_⟩
      intro rj hlo hhi
      by_cases he : rj = ri
      · subst he
        right
        apply h1 rj (by omega)
        intro di hdi
        exact chooseIdx_none_zero (entry M rj) names 0 ny hch di (by omega) (by omega)
      · exact h2 rj (by omega) (by omega)
    | some idx =>
      simp only [Option.map_none]
      obtain ⟨_, hidx, hnz, _⟩ := chooseIdx_spec (entry M ri) names none 0 ny hch
      have hidx' : idx < ny := by omega
      obtain ⟨h1, h2⟩ := ih (ri + 1) (pivotOn m ny M ri idx) (by omega)
      refine ⟨?_, ?_⟩
      · intro rj hrj hz
        have hne : rj ≠ ri := fun e => hnz (e ▸ hz idx hidx')
        exact h1 rj hrj (pivot_keeps_zero_row m ny M ri idx hrj hne hidx' hz)
      · intro rj hlo hhi
        by_cases he : rj = ri
        · left; exact ⟨(ri, idx), by simp, he.symm⟩
        · rcases h2 rj (by omega) (by omega) with ⟨rc, hrc, e⟩ | hz
          · left; exact ⟨rc, List.mem_cons_of_mem _ hrc, e⟩
          · right; exact hz

omit [DecidableEq K] in
theorem sum_split_of_nodup (l : List ℕ) (h : l.Nodup) (idx : ℕ) (hm : idx ∈ l) (f : ℕ → K) :
    (l.map f).sum = f idx + ((l.filter fun di => di ≠ idx).map f).sum := by
  induction l with
  | nil => simp at hm
  | cons a t ih =>
    rw [List.nodup_cons] at h
    by_cases ha : a = idx
    · subst ha
      have : t.filter (fun di => di ≠ a) = t := by
        apply List.filter_eq_self.mpr
        intro x hx
        have : x ≠ a := fun e => h.1 (e ▸ hx)
        simpa using this
      have e : (a :: t).filter (fun di => decide (di ≠ a)) = t := by
        have h0 : (a :: t).filter (fun di => decide (di ≠ a)) = t.filter (fun di => decide (di ≠ a)) := by
          simp
        rw [h0, this]
      rw [e]
      simp
    · have hm' : idx ∈ t := by
        rcases List.mem_cons.mp hm with e | e
        · exact absurd e.symm ha
        · exact e
      simp only [List.map_cons, List.sum_cons, ih h.2 hm', List.filter_cons, ne_eq, ha, not_false_eq_true,
        decide_true, if_true]
      ring

omit [DecidableEq K] in
/-- the offered expression for `y idx`, built from a row with `row idx = 1`, makes `row · (y − y₀) = 0` hold -/
theorem elim_row (row y0 y : ℕ → K) (ny idx : ℕ) (h2 : idx < ny) (hone : row idx = 1)
    (hy : y idx = elimExpr row y0 y ny idx) :
    ((List.range ny).map fun di => row di * (y di - y0 di)).sum = 0 := by
  rw [sum_split_of_nodup _ List.nodup_range idx (List.mem_range.mpr h2)]
  have hS : elimExpr row y0 y ny idx = y0 idx -
      (((List.range ny).filter fun di => di ≠ idx).map fun di => row di * (y di - y0 di)).sum := by
    unfold elimExpr
    rw [foldl_add_eq (fun di => row di * (y di - y0 di))]
    simp
  rw [hy, hS, hone]
  ring

omit [DecidableEq K] in
/-- the offered expression does not mention `y idx` itself, nor any `y c` whose coefficient `row c` vanishes -/
theorem elimExpr_congr (row y0 y y' : ℕ → K) (ny idx : ℕ) (h : ∀ di, di < ny → di ≠ idx → row di ≠ 0 → y di = y' di) :
    elimExpr row y0 y ny idx = elimExpr row y0 y' ny idx := by
  unfold elimExpr
  rw [foldl_add_eq (fun di => row di * (y di - y0 di)), foldl_add_eq (fun di => row di * (y' di - y0 di))]
  have e : ((List.range ny).filter fun di => di ≠ idx).map (fun di => row di * (y di - y0 di)) =
      ((List.range ny).filter fun di => di ≠ idx).map (fun di => row di * (y' di - y0 di)) := by
    apply List.map_congr_left
    intro di hdi
    have hm := List.mem_filter.mp hdi
    have h1 : di ≠ idx := by simpa using hm.2
    by_cases hz : row di = 0
    · simp [hz]
    · rw [h di (List.mem_range.mp hm.1) h1 hz]
  rw [e]

end Elim


/-! ## Round 11: specifications of small helpers -/
section Round11
variable {σ : Type} [DecidableEq σ] {A : Type} [CommRing A]

theorem mem_foldl_insertKey_skip (skip : List ℤ) (c : Comp A) (acc : List ℤ) (x : ℤ) :
    x ∈ c.foldl (fun a kv => if skip.contains kv.1 then a else insertKey kv.1 a) acc ↔
      x ∈ acc ∨ (x ∈ dkeys c ∧ x ∉ skip) := by
  induction c generalizing acc with
  | nil => simp [dkeys]
  | cons h t ih =>
    simp only [List.foldl_cons, ih, dkeys, List.map_cons, List.mem_cons]
    by_cases hs : skip.contains h.1 = true
    · have hm : h.1 ∈ skip := by simpa using hs
      simp only [hs, if_true]
      constructor
      · rintro (h1 | h1)
        · exact Or.inl h1
        · exact Or.inr ⟨Or.inr h1.1, h1.2⟩
      · rintro (h1 | ⟨h1 | h1, h2⟩)
        · exact Or.inl h1
        · exact absurd (h1 ▸ hm) h2
        · exact Or.inr ⟨h1, h2⟩
    · have hm : h.1 ∉ skip := by simpa using hs
      simp only [hs, if_false, mem_insertKey, Bool.false_eq_true]
      constructor
      · rintro ((h1 | h1) | h1)
        · exact Or.inr ⟨Or.inl h1, h1 ▸ hm⟩
        · exact Or.inl h1
        · exact Or.inr ⟨Or.inr h1.1, h1.2⟩
      · rintro (h1 | ⟨h1 | h1, h2⟩)
        · exact Or.inl (Or.inr h1)
        · exact Or.inl (Or.inl h1)
        · exact Or.inr ⟨h1, h2⟩

/-- `Substance.composition_keys(substances, skip_keys)`: exactly the composition keys that are not skipped -/
theorem mem_compositionKeysSkipping (skip : List ℤ) (subs : Substances σ A) (x : ℤ) :
    x ∈ compositionKeysSkipping skip subs ↔ x ∈ compositionKeys subs ∧ x ∉ skip := by
  have aux : ∀ (acc : List ℤ), x ∈ subs.foldl (fun acc s => addCompKeysSkipping skip acc s.2) acc ↔
      x ∈ acc ∨ ((∃ sc ∈ subs, ∃ c, sc.2 = some c ∧ x ∈ dkeys c) ∧ x ∉ skip) := by
    induction subs with
    | nil => intro acc; simp
    | cons h t ih =>
      intro acc
      obtain ⟨k, oc⟩ := h
      simp only [List.foldl_cons, ih, List.mem_cons, exists_eq_or_imp]
      cases oc with
      | none => simp [addCompKeysSkipping]
      | some c =>
        simp only [addCompKeysSkipping, mem_foldl_insertKey_skip, Option.some.injEq, exists_eq_left']
        tauto
  rw [mem_compositionKeys]
  unfold compositionKeysSkipping
  rw [aux []]
  simp

/-- `linear_dependencies(preferred)` refuses exactly: an empty list, a list at least as long as the substance list, an unknown key -/
theorem checkPreferred_eq_false_iff (pref : List σ) (keys : List σ) :
    checkPreferred (some pref) keys = false ↔ pref = [] ∨ keys.length ≤ pref.length ∨ ∃ k ∈ pref, k ∉ keys := by
  unfold checkPreferred
  simp only [Bool.and_eq_false_iff, Bool.not_eq_false', List.isEmpty_iff, decide_eq_false_iff_not, Nat.not_lt,
    List.all_eq_false, List.contains_iff_mem, decide_eq_false_iff_not]
  constructor
  · rintro ((h | h) | ⟨k, hk, hn⟩)
    · exact Or.inl h
    · exact Or.inr (Or.inl h)
    · exact Or.inr (Or.inr ⟨k, hk, by simpa using hn⟩)
  · rintro (h | h | ⟨k, hk, hn⟩)
    · exact Or.inl (Or.inl h)
    · exact Or.inl (Or.inr h)
    · exact Or.inr ⟨k, hk, by simpa using hn⟩

end Round11

section Round11b
variable {σ : Type} [DecidableEq σ] {R : Type} [CommRing R]

theorem missingVars_eq_none_iff (vars : List (σ × R)) (needed : List σ) :
    missingVars vars needed = none ↔ ∀ k ∈ needed, k ∈ dkeys vars := by
  unfold missingVars
  rw [List.find?_eq_none]
  constructor
  · intro h k hk
    have := h k hk
    simpa [dmem_iff] using this
  · intro h k hk
    simp [dmem_iff.mpr (h k hk)]

theorem rateDict_eq_none_iff (vars : List (σ × R)) (r : Reaction σ R) (keys : List σ) :
    rateDict vars r keys = none ↔ ∃ k ∈ dkeys r.reac, k ∉ dkeys vars := by
  unfold rateDict
  cases h : missingVars vars (dkeys r.reac) with
  | none =>
    have := (missingVars_eq_none_iff vars _).mp h
    simp only [reduceCtorEq, false_iff, not_exists, not_and, not_not]
    exact this
  | some k =>
    simp only [true_iff]
    by_contra hc
    simp only [not_exists, not_and, not_not] at hc
    rw [(missingVars_eq_none_iff vars _).mpr hc] at h
    cases h

/-- **Named rate constants feed the rate.** -/
theorem rateDictP_spec (vars : List (σ × R)) (p : Param σ R) (r : Reaction σ R) (keys : List σ) :
    (rateDictP vars p r keys = none ↔
        (∃ name, p = .key name ∧ name ∉ dkeys vars) ∨ ∃ k ∈ dkeys r.reac, k ∉ dkeys vars) ∧
      (∀ d, rateDictP vars p r keys = some d →
        ∃ k, (p = .const k ∨ ∃ name, p = .key name ∧ dget? vars name = some k) ∧
          d = rxnRateOf (k * activeConcProd (fun s => dgetD vars s 0) r) r keys) := by
  unfold rateDictP
  cases p with
  | const k =>
    simp only [resolveParam]
    constructor
    · rw [rateDict_eq_none_iff]
      simp
    · intro d hd
      refine ⟨k, Or.inl rfl, ?_⟩
      unfold rateDict at hd
      cases hm : missingVars vars (dkeys r.reac) with
      | some _ => rw [hm] at hd; cases hd
      | none =>
        rw [hm] at hd
        simp only [Option.some.injEq] at hd
        rw [← hd]
        simp [rxnRate, rxnRateOf, massAction, activeConcProd, netStoich]
  | key name =>
    simp only [resolveParam]
    cases hg : dget? vars name with
    | none =>
      have : name ∉ dkeys vars := dget?_eq_none_iff.mp hg
      simp only [true_iff]
      exact ⟨Or.inl ⟨name, rfl, this⟩, fun d hd => by cases hd⟩
    | some k =>
      have hin : name ∈ dkeys vars := by
        by_contra hn
        rw [dget?_eq_none_iff.mpr hn] at hg; cases hg
      constructor
      · rw [rateDict_eq_none_iff]
        constructor
        · intro h; exact Or.inr h
        · rintro (⟨n, hn, hnot⟩ | h)
          · cases hn; exact absurd hin hnot
          · exact h
      · intro d hd
        refine ⟨k, Or.inr ⟨name, rfl, hg⟩, ?_⟩
        dsimp only at hd
        unfold rateDict at hd
        dsimp only at hd
        cases hm : missingVars vars (dkeys r.reac) with
        | some _ => rw [hm] at hd; cases hd
        | none =>
          rw [hm] at hd
          simp only [Option.some.injEq] at hd
          rw [← hd]
          simp [rxnRate, rxnRateOf, massAction, activeConcProd, netStoich]

end Round11b

end ChemModel.Kinetics
