/-
C20, reading the produced text back: an explicit reader of `%g` output returns the value of the
decimal record (digit-string lemmas, zero stripping, point placement, sign, exponent field).
-/
import ChemModel.Proofs.NumFmt

namespace ChemModel.NumFmt

/-! ### the reader (specification side) -/

/-- value of an unsigned fixed-point body `ddd` or `ddd.ddd` with sign flag -/
def bodyValue (neg : Bool) (s : List Char) : Option ℚ :=
  (readFixedBody neg s).map fun nw => (nw.1 : ℚ) / (10 : ℚ) ^ nw.2

/-- value of a plain decimal numeral `[-]ddd[.ddd]` -/
def plainValue (s : List Char) : Option ℚ :=
  (readFixed s).map fun nw => (nw.1 : ℚ) / (10 : ℚ) ^ nw.2

/-- value of a `%g` text: `[-]ddd[.ddd]` optionally followed by `e[+-]dd` -/
def readG (s : List Char) : Option ℚ :=
  match splitOn 'e' s with
  | [a] => plainValue a
  | [a, b] =>
    match plainValue a, parseInt b with
    | some v, some e => some (v * (10 : ℚ) ^ e)
    | _, _ => none
  | _ => none

def sgn (neg : Bool) : ℚ := if neg then -1 else 1

/-! ### values of unstripped bodies -/

theorem bodyValue_int (neg : Bool) (a : List Char) (ha : ∀ c ∈ a, isDigit c = true) :
    bodyValue neg a = some (sgn neg * (readNat a : ℚ)) := by
  have hdot : '.' ∉ a := fun hc => isDigit_ne_dot (ha _ hc) rfl
  unfold bodyValue readFixedBody
  rw [splitOn_not_mem _ _ hdot]
  cases neg <;> simp [sgn]

theorem bodyValue_point (neg : Bool) (a b : List Char) (ha : ∀ c ∈ a, isDigit c = true)
    (hb : ∀ c ∈ b, isDigit c = true) :
    bodyValue neg (a ++ '.' :: b) = some (sgn neg * (readNat (a ++ b) : ℚ) / (10 : ℚ) ^ b.length) := by
  have hda : '.' ∉ a := fun hc => isDigit_ne_dot (ha _ hc) rfl
  have hdb : '.' ∉ b := fun hc => isDigit_ne_dot (hb _ hc) rfl
  unfold bodyValue readFixedBody
  rw [splitOn_one _ _ _ hda hdb]
  cases neg <;> simp [sgn]

/-! ### zero stripping keeps the value -/

theorem rstrip_snoc (c x : Char) (s : List Char) :
    rstrip c (s ++ [x]) = if x == c then rstrip c s else s ++ [x] := by
  unfold rstrip
  rw [List.reverse_append, List.reverse_singleton, List.singleton_append, List.dropWhile_cons]
  split
  · rfl
  · simp

theorem rstrip_digit_end (c : Char) (s : List Char) (x : Char) (hx : x ≠ c) : rstrip c (s ++ [x]) = s ++ [x] := by
  rw [rstrip_snoc]
  have : (x == c) = false := by rw [beq_eq_false_iff_ne]; exact hx
  simp [this]

theorem readNat_append_zero (l : List Char) : readNat (l ++ ['0']) = 10 * readNat l := by
  rw [readNat_append_singleton]; simp [digitVal]

/-- `s.rstrip('0').rstrip('.')` of `a.b` denotes the same number as `a.b` -/
theorem bodyValue_stripZeros (neg : Bool) (a b : List Char) (hne : a ≠ [])
    (ha : ∀ c ∈ a, isDigit c = true) (hb : ∀ c ∈ b, isDigit c = true) :
    bodyValue neg (stripZeros (a ++ '.' :: b)) =
      some (sgn neg * (readNat (a ++ b) : ℚ) / (10 : ℚ) ^ b.length) := by
  induction b using List.reverseRecOn with
  | nil =>
    -- "a." -> "a"
    have h1 : rstrip '0' (a ++ ['.']) = a ++ ['.'] := rstrip_digit_end '0' a '.' (by decide)
    obtain ⟨a0, x, rfl⟩ : ∃ a0 x, a = a0 ++ [x] := by
      rcases List.eq_nil_or_concat a with h | ⟨l, x, h⟩
      · exact absurd h hne
      · exact ⟨l, x, by simpa using h⟩
    have hx : x ≠ '.' := isDigit_ne_dot (ha x (by simp))
    have h2 : rstrip '.' ((a0 ++ [x]) ++ ['.']) = a0 ++ [x] := by
      rw [rstrip_snoc]; simp only [beq_self_eq_true, if_true]
      exact rstrip_digit_end '.' a0 x hx
    unfold stripZeros
    rw [h1, h2, bodyValue_int neg _ ha]
    simp
  | append_singleton b0 x ih =>
    have hb0 : ∀ c ∈ b0, isDigit c = true := fun c hc => hb c (by simp [hc])
    have hx : isDigit x = true := hb x (by simp)
    have hassoc : a ++ '.' :: (b0 ++ [x]) = (a ++ '.' :: b0) ++ [x] := by simp
    by_cases h0 : x = '0'
    · subst h0
      have : stripZeros (a ++ '.' :: (b0 ++ ['0'])) = stripZeros (a ++ '.' :: b0) := by
        unfold stripZeros
        rw [hassoc, rstrip_snoc]; simp
      rw [this, ih hb0]
      congr 1
      rw [← List.append_assoc, readNat_append_zero, List.length_append, List.length_singleton, pow_succ]
      push_cast
      field_simp
    · have h1 : rstrip '0' ((a ++ '.' :: b0) ++ [x]) = (a ++ '.' :: b0) ++ [x] := rstrip_digit_end '0' _ x h0
      have h2 : rstrip '.' ((a ++ '.' :: b0) ++ [x]) = (a ++ '.' :: b0) ++ [x] :=
        rstrip_digit_end '.' _ x (isDigit_ne_dot hx)
      unfold stripZeros
      rw [hassoc, h1, h2, ← hassoc]
      exact bodyValue_point neg a (b0 ++ [x]) ha hb

/-! ### the layouts denote the record -/

theorem digitsW_ne_nil (p m : ℕ) (hp : 1 ≤ p) : digitsW p m ≠ [] := by
  intro h
  have := length_digitsW p m
  rw [h] at this
  simp at this
  omega

/-- significand of the exponent layout: `d.ddd` denotes `m / 10^(p-1)` -/
theorem bodyValue_layoutMant (neg : Bool) (p m : ℕ) (hp : 1 ≤ p) (hm : m < 10 ^ p) :
    bodyValue neg (layoutMant p m) = some (sgn neg * (m : ℚ) / (10 : ℚ) ^ (p - 1)) := by
  have hr : readNat (digitsW p m) = m := by rw [readNat_digitsW, Nat.mod_eq_of_lt hm]
  have hl := length_digitsW p m
  have hd := all_isDigit_digitsW p m
  unfold layoutMant
  cases hdig : digitsW p m with
  | nil => exact absurd hdig (digitsW_ne_nil p m hp)
  | cons d rest =>
    rw [hdig] at hr hl hd
    simp only
    have hd1 : ∀ c ∈ [d], isDigit c = true := fun c hc => hd c (by simp at hc; simp [hc])
    have hd2 : ∀ c ∈ rest, isDigit c = true := fun c hc => hd c (by simp [hc])
    have hlen : rest.length = p - 1 := by simp at hl; omega
    split
    · have := bodyValue_stripZeros neg [d] rest (by simp) hd1 hd2
      simp only [List.cons_append, List.nil_append] at this
      rw [this, hr, hlen]
    · have hp1 : p = 1 := by omega
      subst hp1
      have : rest = [] := by cases rest with | nil => rfl | cons _ _ => simp at hlen
      subst this
      rw [bodyValue_int neg [d] hd1, hr]
      simp

/-- the fixed layout denotes `m · 10^(e-p+1)` for `-4 ≤ e < p` (any `e < p` in fact) -/
theorem bodyValue_layoutFixed (neg : Bool) (p m : ℕ) (e : ℤ) (hp : 1 ≤ p) (hm : m < 10 ^ p) (he : e < (p : ℤ)) :
    bodyValue neg (layoutFixed p m e) = some (sgn neg * (m : ℚ) * (10 : ℚ) ^ (e - (p : ℤ) + 1)) := by
  have hr : readNat (digitsW p m) = m := by rw [readNat_digitsW, Nat.mod_eq_of_lt hm]
  have hl := length_digitsW p m
  have hd := all_isDigit_digitsW p m
  unfold layoutFixed
  simp only
  split
  · rename_i h0
    rw [bodyValue_int neg _ hd, hr]
    have : e - (p : ℤ) + 1 = 0 := by omega
    rw [this, zpow_zero, mul_one]
  · rename_i h0
    split
    · rename_i hpos
      obtain ⟨k, hk⟩ : ∃ k : ℕ, e = (k : ℤ) := ⟨e.toNat, by omega⟩
      subst hk
      simp only [Int.toNat_natCast]
      have hk1 : k + 1 < p := by omega
      have hne : (digitsW p m).take (k + 1) ≠ [] := by
        intro h
        have := congrArg List.length h
        simp [List.length_take, hl] at this
        omega
      rw [bodyValue_stripZeros neg _ _ hne (fun c hc => hd c (List.mem_of_mem_take hc))
        (fun c hc => hd c (List.mem_of_mem_drop hc)), List.take_append_drop, hr, List.length_drop, hl]
      congr 1
      have : ((k : ℤ) - (p : ℤ) + 1) = -((p - (k + 1) : ℕ) : ℤ) := by omega
      rw [this, zpow_neg, zpow_natCast, div_eq_mul_inv]
    · rename_i hneg
      obtain ⟨k, hk⟩ : ∃ k : ℕ, e = -((k : ℤ) + 1) := ⟨(-e - 1).toNat, by omega⟩
      subst hk
      have hk' : (-(-((k : ℤ) + 1)) - 1).toNat = k := by omega
      rw [hk']
      have hz : ∀ c ∈ List.replicate k '0' ++ digitsW p m, isDigit c = true := by
        intro c hc
        simp only [List.mem_append, List.mem_replicate] at hc
        rcases hc with h | h
        · rw [h.2]; decide
        · exact hd c h
      have := bodyValue_stripZeros neg ['0'] (List.replicate k '0' ++ digitsW p m) (by simp)
        (fun c hc => by simp at hc; rw [hc]; decide) hz
      simp only [List.singleton_append] at this
      rw [this]
      congr 1
      rw [show '0' :: (List.replicate k '0' ++ digitsW p m) = List.replicate (k + 1) '0' ++ digitsW p m by
        simp [List.replicate_succ], readNat_replicate_zero_append, hr, List.length_append, List.length_replicate, hl]
      have : (-((k : ℤ) + 1) - (p : ℤ) + 1) = -((k + p : ℕ) : ℤ) := by push_cast; ring
      rw [this, zpow_neg, zpow_natCast, div_eq_mul_inv]

/-! ### sign and exponent -/

theorem readFixed_neg (t : List Char) : readFixed ('-' :: t) = readFixedBody true t := rfl

theorem plainValue_neg (t : List Char) : plainValue ('-' :: t) = bodyValue true t := rfl

theorem plainValue_of_no_minus (t : List Char) (h : ∀ c ∈ t, numChar c = true) :
    plainValue t = bodyValue false t := by
  cases t with
  | nil => rfl
  | cons a b =>
    have ha : a ≠ '-' := numChar_ne_minus (h a (by simp))
    unfold plainValue bodyValue readFixed
    split
    · rename_i heq; simp only [List.cons.injEq] at heq; exact absurd heq.1 ha
    · rfl

theorem plainValue_signed (neg : Bool) (body : List Char) (h : ∀ c ∈ body, numChar c = true) :
    plainValue (if neg then '-' :: body else body) = bodyValue neg body := by
  cases neg
  · simp only [Bool.false_eq_true, if_false]; exact plainValue_of_no_minus body h
  · rfl

theorem value_eq (p : ℕ) (r : Dec) :
    r.value p = sgn r.neg * (r.m : ℚ) * (10 : ℚ) ^ (r.e - (p : ℤ) + 1) := by
  unfold Dec.value sgn
  rw [pow10_eq_zpow]

/-- **fmtG_reads_back.** The explicit reader applied to the text of a record returns the record's value. -/
theorem layoutG_reads_back (p : ℕ) (hp : 1 ≤ p) (r : Dec) (hm : r.m < 10 ^ p) :
    readG (layoutG p r) = some (r.value p) := by
  rw [value_eq]
  by_cases hf : useFixed p r.e = true
  · have he : r.e < (p : ℤ) := by
      have := hf; simp [useFixed] at this; exact this.2
    have hno := layoutG_fixed_no_e p r hf
    unfold readG
    rw [splitOn_not_mem _ _ hno]
    simp only
    have : layoutG p r = if r.neg then '-' :: layoutFixed p r.m r.e else layoutFixed p r.m r.e := by
      unfold layoutG; simp only [hf, if_true]
    rw [this, plainValue_signed _ _ (numChar_layoutFixed p r.m r.e), bodyValue_layoutFixed r.neg p r.m r.e hp hm he]
  · have hf' : useFixed p r.e = false := by simpa using hf
    unfold readG
    rw [layoutG_exp p r hf', splitOn_one _ _ _ (sigText_no_e p r) (expField_no_e r.e)]
    simp only [parseInt_expField]
    have : sigText p r = if r.neg then '-' :: layoutMant p r.m else layoutMant p r.m := rfl
    rw [this, plainValue_signed _ _ (numChar_layoutMant p r.m), bodyValue_layoutMant r.neg p r.m hp hm]
    simp only [Option.some.injEq]
    have h10 : (10 : ℚ) ≠ 0 := by norm_num
    obtain ⟨k, rfl⟩ : ∃ k, p = k + 1 := ⟨p - 1, by omega⟩
    have : r.e - ((k + 1 : ℕ) : ℤ) + 1 = r.e - (k : ℤ) := by push_cast; ring
    rw [this, zpow_sub₀ h10, zpow_natCast, Nat.add_sub_cancel]
    field_simp

/-- significand text of the exponent layout denotes `±m / 10^(p-1)`, and times `10^e` it is the record's value -/
theorem sigText_value (p : ℕ) (hp : 1 ≤ p) (r : Dec) (hm : r.m < 10 ^ p) :
    plainValue (sigText p r) = some (sgn r.neg * (r.m : ℚ) / (10 : ℚ) ^ (p - 1)) ∧
    sgn r.neg * (r.m : ℚ) / (10 : ℚ) ^ (p - 1) * (10 : ℚ) ^ r.e = r.value p := by
  have : sigText p r = if r.neg then '-' :: layoutMant p r.m else layoutMant p r.m := rfl
  refine ⟨by rw [this, plainValue_signed _ _ (numChar_layoutMant p r.m), bodyValue_layoutMant r.neg p r.m hp hm], ?_⟩
  rw [value_eq]
  have h10 : (10 : ℚ) ≠ 0 := by norm_num
  obtain ⟨k, rfl⟩ : ∃ k, p = k + 1 := ⟨p - 1, by omega⟩
  have : r.e - ((k + 1 : ℕ) : ℤ) + 1 = r.e - (k : ℤ) := by push_cast; ring
  rw [this, zpow_sub₀ h10, zpow_natCast, Nat.add_sub_cancel]
  field_simp

/-- tight form of `roundSig_spec'`: the error is at most half a unit of the `p`-th digit *of `x`'s own decade*,
    and the record's decade is that of `x`, or the next one exactly when the significand carried to `10^(p-1)` -/
theorem roundSig_tight' (p : ℕ) (hp : 1 ≤ p) (x : ℚ) (hx : x ≠ 0) :
    |((roundSig p x).m : ℚ) * (10 : ℚ) ^ ((roundSig p x).e - (p : ℤ) + 1) - (|x|)|
      ≤ (10 : ℚ) ^ (ilog10 |x| - (p : ℤ) + 1) / 2 ∧
    ((roundSig p x).e = ilog10 |x| ∨ ((roundSig p x).e = ilog10 |x| + 1 ∧ (roundSig p x).m = 10 ^ (p - 1))) := by
  have ha : 0 < |x| := abs_pos.mpr hx
  obtain ⟨b1, b2, b3⟩ := roundSig_core p hp |x| ha
  unfold roundSig
  simp only [absR_eq_abs, pow10_eq_zpow]
  generalize ilog10 |x| = e at *
  generalize hM : roundHalfEven (|x| / (10 : ℚ) ^ (e - (p : ℤ) + 1)) = M at *
  have hMpos : 0 ≤ M := le_trans (by positivity) b1
  have hcast : ((M.toNat : ℕ) : ℤ) = M := Int.toNat_of_nonneg hMpos
  have hcastq : ((M.toNat : ℕ) : ℚ) = (M : ℚ) := by
    calc ((M.toNat : ℕ) : ℚ) = (((M.toNat : ℕ) : ℤ) : ℚ) := (Int.cast_natCast _).symm
      _ = (M : ℚ) := by rw [hcast]
  split
  · rename_i hc
    have hdiv : M.toNat / 10 = 10 ^ (p - 1) := by
      rw [hc]
      obtain ⟨k, rfl⟩ : ∃ k, p = k + 1 := ⟨p - 1, by omega⟩
      simp [Nat.pow_succ]
    refine ⟨?_, Or.inr ⟨rfl, hdiv⟩⟩
    simp only [hdiv]
    have hs : (10 : ℚ) ^ (e + 1 - (p : ℤ) + 1) = 10 * (10 : ℚ) ^ (e - (p : ℤ) + 1) := by
      rw [show e + 1 - (p : ℤ) + 1 = 1 + (e - (p : ℤ) + 1) by ring, zpow_add₀ (by norm_num), zpow_one]
    have hm : ((10 ^ (p - 1) : ℕ) : ℚ) * 10 = (M : ℚ) := by
      rw [← hcastq, hc]
      obtain ⟨k, rfl⟩ : ∃ k, p = k + 1 := ⟨p - 1, by omega⟩
      simp [pow_succ]
    rw [hs, ← mul_assoc, hm]
    exact b3
  · refine ⟨?_, Or.inl rfl⟩
    simp only [hcastq]
    exact b3

/-- the characters of `str(i)` -/
theorem intStr_chars (i : ℤ) : ∀ c ∈ intStr i, c ∈ "0123456789-+".toList := by
  intro c hc
  have hd : ∀ n, ∀ c ∈ natStr n, c ∈ "0123456789-+".toList := by
    intro n c hc
    have := all_isDigit_natDigitsF _ _ c hc
    revert this
    unfold isDigit
    intro h
    have h1 : '0' ≤ c := by simpa using (Bool.and_eq_true_iff.mp h).1
    have h2 : c ≤ '9' := by simpa using (Bool.and_eq_true_iff.mp h).2
    have h1' : 48 ≤ c.toNat := h1
    have h2' : c.toNat ≤ 57 := h2
    have : c = Char.ofNat c.toNat := (Char.ofNat_toNat c).symm
    rw [this]
    generalize c.toNat = k at *
    have : k = 48 ∨ k = 49 ∨ k = 50 ∨ k = 51 ∨ k = 52 ∨ k = 53 ∨ k = 54 ∨ k = 55 ∨ k = 56 ∨ k = 57 := by omega
    rcases this with h | h | h | h | h | h | h | h | h | h <;> subst h <;> decide
  unfold intStr at hc
  split at hc
  · simp only [List.mem_cons] at hc
    rcases hc with h | h
    · subst h; decide
    · exact hd _ _ h
  · exact hd _ _ hc


/-! ### definitional facts (kept out of Props: they restate definitions) -/

/-- `fmt=None` means the default precision extracted from the source -/
theorem numberToX_default (f : Fmt) (x : ℚ) (unit : Option (List Char)) :
    numberToX f none x unit = numberToX f (some Gen.PrintingNumbers.defaultPrecision) x unit := rfl

/-- the renderer behind the `magnitude_fmt` of a printer (`none`: the plain `%.3g` printer) -/
def printerFmt : Printer → Option Fmt
  | .str => none
  | .unicode => some .unicode
  | .latex => some .latex
  | .html => some .html

theorem reactionParamStr_quantity (pr : Printer) (mag : ℚ) (u : List Char) :
    reactionParamStr pr (.quantity mag u) = (magFmt pr mag >>= fun s => pure (s ++ ' ' :: u)) := rfl
theorem reactionParamStr_float (pr : Printer) (x : ℚ) : reactionParamStr pr (.float x) = magFmt pr x := rfl
theorem reactionParamStr_other (pr : Printer) (t : List Char) : reactionParamStr pr (.other t) = .ok t := rfl
theorem magFmt_str (x : ℚ) : magFmt .str x = .ok (fmtG Gen.PrintingNumbers.strMagnitudePrecision x) := rfl
theorem uncertRecord_noExp (x xe : ℚ) (prec : ℤ) : (uncertRecord x xe prec).noExp = ilog10 (absR xe) - prec + 1 := rfl
theorem uncertRecord_xExp (x xe : ℚ) (prec : ℤ) : (uncertRecord x xe prec).xExp = ilog10 (absR x) := rfl

/-! ### the per-substance table -/

theorem indexOf_getElem (keys : List (List Char)) (hnd : keys.Nodup) (i : Nat) (hi : i < keys.length) :
    indexOf keys[i] keys = some i := by
  induction keys generalizing i with
  | nil => simp at hi
  | cons x xs ih =>
    rw [List.nodup_cons] at hnd
    cases i with
    | zero => simp [indexOf]
    | succ j =>
      have hj : j < xs.length := by simpa using hi
      have hne : x ≠ xs[j] := fun h => hnd.1 (h ▸ List.getElem_mem hj)
      simp [indexOf, hne, ih hnd.2 j hj]

/-- `l.mapM f = ok r` for `Except`: same length and element-wise success -/
theorem mapM_ok {α β ε : Type} (f : α → Except ε β) (l : List α) (r : List β) (h : l.mapM f = .ok r) :
    r.length = l.length ∧ ∀ i (hi : i < l.length) (hr : i < r.length), f l[i] = .ok r[i] := by
  induction l generalizing r with
  | nil =>
    simp only [List.mapM_nil, pure, Except.pure] at h
    injection h with h; subst h; simp
  | cons a as ih =>
    rw [List.mapM_cons] at h
    cases hfa : f a with
    | error e => rw [hfa] at h; cases h
    | ok b =>
      rw [hfa] at h
      cases hrest : as.mapM f with
      | error e => rw [hrest] at h; cases h
      | ok bs =>
        rw [hrest] at h
        simp only [bind, Except.bind, pure, Except.pure] at h
        injection h with h; subst h
        obtain ⟨hl, hel⟩ := ih bs hrest
        refine ⟨by simp [hl], ?_⟩
        intro i hi hr
        cases i with
        | zero => simpa using hfa
        | succ j => simpa using hel j (by simpa using hi) (by simpa using hr)

/-! ### splitting at several separators -/

theorem splitOn_ne_nil (c : Char) (s : List Char) : splitOn c s ≠ [] := by
  induction s with
  | nil => simp [splitOn]
  | cons x xs ih =>
    unfold splitOn
    cases h : splitOn c xs with
    | nil => simp
    | cons a b => by_cases hx : (x == c) = true <;> simp [hx]

theorem splitOn_cons (c x : Char) (xs : List Char) :
    splitOn c (x :: xs) = match splitOn c xs with
      | [] => [[]]
      | h :: t => if x == c then [] :: h :: t else (x :: h) :: t := by
  rw [splitOn]
  cases splitOn c xs <;> rfl

/-- the text before the first separator is the first piece -/
theorem splitOn_first (c : Char) (a rest : List Char) (ha : c ∉ a) :
    splitOn c (a ++ c :: rest) = a :: splitOn c rest := by
  induction a with
  | nil =>
    rw [List.nil_append, splitOn_cons]
    cases h : splitOn c rest with
    | nil => exact absurd h (splitOn_ne_nil c rest)
    | cons p q => simp
  | cons x xs ih =>
    simp only [List.mem_cons, not_or] at ha
    have hx : (x == c) = false := by rw [beq_eq_false_iff_ne]; exact fun hh => ha.1 hh.symm
    rw [List.cons_append, splitOn_cons, ih ha.2]
    simp [hx]

theorem mapM_ok_of_forall {α β ε : Type} (f : α → Except ε β) (l : List α) (h : ∀ a ∈ l, ∃ b, f a = .ok b) :
    ∃ r, l.mapM f = .ok r := by
  induction l with
  | nil => exact ⟨[], rfl⟩
  | cons a as ih =>
    obtain ⟨b, hb⟩ := h a (by simp)
    obtain ⟨bs, hbs⟩ := ih (fun x hx => h x (List.mem_cons_of_mem _ hx))
    refine ⟨b :: bs, ?_⟩
    rw [List.mapM_cons, hb, hbs]
    rfl

end ChemModel.NumFmt
