/-
C20, reading the produced text back: an explicit reader of `%g` output returns the value of the
decimal record (digit-string lemmas, zero stripping, point placement, sign, exponent field).
-/
import ChemModel.Proofs.NumFmt

namespace ChemModel.NumFmt

/-! ### the reader (specification side) -/

/-- value of an unsigned fixed-point body `ddd` or `ddd.ddd` with sign flag -/
def bodyValue (neg : Bool) (s : List Char) : Option ℚ :=
  (readFixedBody neg s).map fun nw => (nw.1 : ℚ) / (10 : ℚ) ^ nw.2

/-- value of a plain decimal numeral `[-]ddd[.ddd]` -/
def plainValue (s : List Char) : Option ℚ :=
  (readFixed s).map fun nw => (nw.1 : ℚ) / (10 : ℚ) ^ nw.2

/-- value of a `%g` text: `[-]ddd[.ddd]` optionally followed by `e[+-]dd` -/
def readG (s : List Char) : Option ℚ :=
  match splitOn 'e' s with
  | [a] => plainValue a
  | [a, b] =>
    match plainValue a, parseInt b with
    | some v, some e => some (v * (10 : ℚ) ^ e)
    | _, _ => none
  | _ => none

def sgn (neg : Bool) : ℚ := if neg then -1 else 1

/-! ### values of unstripped bodies -/

theorem bodyValue_int (neg : Bool) (a : List Char) (ha : ∀ c ∈ a, isDigit c = true) :
    bodyValue neg a = some (sgn neg * (readNat a : ℚ)) := by
  have hdot : '.' ∉ a := fun hc => isDigit_ne_dot (ha _ hc) rfl
  unfold bodyValue readFixedBody
  rw [splitOn_not_mem _ _ hdot]
  cases neg <;> simp [sgn]

theorem bodyValue_point (neg : Bool) (a b : List Char) (ha : ∀ c ∈ a, isDigit c = true)
    (hb : ∀ c ∈ b, isDigit c = true) :
    bodyValue neg (a ++ '.' :: b) = some (sgn neg * (readNat (a ++ b) : ℚ) / (10 : ℚ) ^ b.length) := by
  have hda : '.' ∉ a := fun hc => isDigit_ne_dot (ha _ hc) rfl
  have hdb : '.' ∉ b := fun hc => isDigit_ne_dot (hb _ hc) rfl
  unfold bodyValue readFixedBody
  rw [splitOn_one _ _ _ hda hdb]
  cases neg <;> simp [sgn]

/-! ### zero stripping keeps the value -/

theorem rstrip_snoc (c x : Char) (s : List Char) :
    rstrip c (s ++ [x]) = if x == c then rstrip c s else s ++ [x] := by
  unfold rstrip
  rw [List.reverse_append, List.reverse_singleton, List.singleton_append, List.dropWhile_cons]
  split
  · rfl
  · simp

theorem rstrip_digit_end (c : Char) (s : List Char) (x : Char) (hx : x ≠ c) : rstrip c (s ++ [x]) = s ++ [x] := by
  rw [rstrip_snoc]
  have : (x == c) = false := by rw [beq_eq_false_iff_ne]; exact hx
  simp [this]

theorem readNat_append_zero (l : List Char) : readNat (l ++ ['0']) = 10 * readNat l := by
  rw [readNat_append_singleton]; simp [digitVal]

/-- `s.rstrip('0').rstrip('.')` of `a.b` denotes the same number as `a.b` -/
theorem bodyValue_stripZeros (neg : Bool) (a b : List Char) (hne : a ≠ [])
    (ha : ∀ c ∈ a, isDigit c = true) (hb : ∀ c ∈ b, isDigit c = true) :
    bodyValue neg (stripZeros (a ++ '.' :: b)) =
      some (sgn neg * (readNat (a ++ b) : ℚ) / (10 : ℚ) ^ b.length) := by
  induction b using List.reverseRecOn with
  | nil =>
    -- "a." -> "a"
    have h1 : rstrip '0' (a ++ ['.']) = a ++ ['.'] := rstrip_digit_end '0' a '.' (by decide)
    obtain ⟨a0, x, rfl⟩ : ∃ a0 x, a = a0 ++ [x] := by
      rcases List.eq_nil_or_concat a with h | ⟨l, x, h⟩
      · exact absurd h hne
      · exact ⟨l, x, by simpa using h⟩
    have hx : x ≠ '.' := isDigit_ne_dot (ha x (by simp))
    have h2 : rstrip '.' ((a0 ++ [x]) ++ ['.']) = a0 ++ [x] := by
      rw [rstrip_snoc]; simp only [beq_self_eq_true, if_true]
      exact rstrip_digit_end '.' a0 x hx
    unfold stripZeros
    rw [h1, h2, bodyValue_int neg _ ha]
    simp
  | append_singleton b0 x ih =>
    have hb0 : ∀ c ∈ b0, isDigit c = true := fun c hc => hb c (by simp [hc])
    have hx : isDigit x = true := hb x (by simp)
    have hassoc : a ++ '.' :: (b0 ++ [x]) = (a ++ '.' :: b0) ++ [x] := by simp
    by_cases h0 : x = '0'
    · subst h0
      have : stripZeros (a ++ '.' :: (b0 ++ ['0'])) = stripZeros (a ++ '.' :: b0) := by
        unfold stripZeros
        rw [hassoc, rstrip_snoc]; simp
      rw [this, ih hb0]
      congr 1
      rw [← List.append_assoc, readNat_append_zero, List.length_append, List.length_singleton, pow_succ]
      push_cast
      field_simp
    · have h1 : rstrip '0' ((a ++ '.' :: b0) ++ [x]) = (a ++ '.' :: b0) ++ [x] := rstrip_digit_end '0' _ x h0
      have h2 : rstrip '.' ((a ++ '.' :: b0) ++ [x]) = (a ++ '.' :: b0) ++ [x] :=
        rstrip_digit_end '.' _ x (isDigit_ne_dot hx)
      unfold stripZeros
      rw [hassoc, h1, h2, ← hassoc]
      exact bodyValue_point neg a (b0 ++ [x]) ha hb

/-! ### the layouts denote the record -/

theorem digitsW_ne_nil (p m : ℕ) (hp : 1 ≤ p) : digitsW p m ≠ [] := by
  intro h
  have := length_digitsW p m
  rw [h] at this
  simp at this
  omega

/-- significand of the exponent layout: `d.ddd` denotes `m / 10^(p-1)` -/
theorem bodyValue_layoutMant (neg : Bool) (p m : ℕ) (hp : 1 ≤ p) (hm : m < 10 ^ p) :
    bodyValue neg (layoutMant p m) = some (sgn neg * (m : ℚ) / (10 : ℚ) ^ (p - 1)) := by
  have hr : readNat (digitsW p m) = m := by rw [readNat_digitsW, Nat.mod_eq_of_lt hm]
  have hl := length_digitsW p m
  have hd := all_isDigit_digitsW p m
  unfold layoutMant
  cases hdig : digitsW p m with
  | nil => exact absurd hdig (digitsW_ne_nil p m hp)
  | cons d rest =>
    rw [hdig] at hr hl hd
    simp only
    have hd1 : ∀ c ∈ [d], isDigit c = true := fun c hc => hd c (by simp at hc; simp [hc])
    have hd2 : ∀ c ∈ rest, isDigit c = true := fun c hc => hd c (by simp [hc])
    have hlen : rest.length = p - 1 := by simp at hl; omega
    split
    · have := bodyValue_stripZeros neg [d] rest (by simp) hd1 hd2
      simp only [List.cons_append, List.nil_append] at this
      rw [this, hr, hlen]
    · have hp1 : p = 1 := by omega
      subst hp1
      have : rest = [] := by cases rest with | nil => rfl | cons _ _ => simp at hlen
      subst this
      rw [bodyValue_int neg [d] hd1, hr]
      simp

/-- the fixed layout denotes `m · 10^(e-p+1)` for `-4 ≤ e < p` (any `e < p` in fact) -/
theorem bodyValue_layoutFixed (neg : Bool) (p m : ℕ) (e : ℤ) (hp : 1 ≤ p) (hm : m < 10 ^ p) (he : e < (p : ℤ)) :
    bodyValue neg (layoutFixed p m e) = some (sgn neg * (m : ℚ) * (10 : ℚ) ^ (e - (p : ℤ) + 1)) := by
  have hr : readNat (digitsW p m) = m := by rw [readNat_digitsW, Nat.mod_eq_of_lt hm]
  have hl := length_digitsW p m
  have hd := all_isDigit_digitsW p m
  unfold layoutFixed
  simp only
  split
  · rename_i h0
    rw [bodyValue_int neg _ hd, hr]
    have : e - (p : ℤ) + 1 = 0 := by omega
    rw [this, zpow_zero, mul_one]
  · rename_i h0
    split
    · rename_i hpos
      obtain ⟨k, hk⟩ : ∃ k : ℕ, e = (k : ℤ) := ⟨e.toNat, by omega⟩
      subst hk
      simp only [Int.toNat_natCast]
      have hk1 : k + 1 < p := by omega
      have hne : (digitsW p m).take (k + 1) ≠ [] := by
        intro h
        have := congrArg List.length h
        simp [List.length_take, hl] at this
        omega
      rw [bodyValue_stripZeros neg _ _ hne (fun c hc => hd c (List.mem_of_mem_take hc))
        (fun c hc => hd c (List.mem_of_mem_drop hc)), List.take_append_drop, hr, List.length_drop, hl]
      congr 1
      have : ((k : ℤ) - (p : ℤ) + 1) = -((p - (k + 1) : ℕ) : ℤ) := by omega
      rw [this, zpow_neg, zpow_natCast, div_eq_mul_inv]
    · rename_i hneg
      obtain ⟨k, hk⟩ : ∃ k : ℕ, e = -((k : ℤ) + 1) := ⟨(-e - 1).toNat, by omega⟩
      subst hk
      have hk' : (-(-((k : ℤ) + 1)) - 1).toNat = k := by omega
      rw [hk']
      have hz : ∀ c ∈ List.replicate k '0' ++ digitsW p m, isDigit c = true := by
        intro c hc
        simp only [List.mem_append, List.mem_replicate] at hc
        rcases hc with h | h
        · rw [h.2]; decide
        · exact hd c h
      have := bodyValue_stripZeros neg ['0'] (List.replicate k '0' ++ digitsW p m) (by simp)
        (fun c hc => by simp at hc; rw [hc]; decide) hz
      simp only [List.singleton_append] at this
      rw [this]
      congr 1
      rw [show '0' :: (List.replicate k '0' ++ digitsW p m) = List.replicate (k + 1) '0' ++ digitsW p m by
        simp [List.replicate_succ], readNat_replicate_zero_append, hr, List.length_append, List.length_replicate, hl]
      have : (-((k : ℤ) + 1) - (p : ℤ) + 1) = -((k + p : ℕ) : ℤ) := by push_cast; ring
      rw [this, zpow_neg, zpow_natCast, div_eq_mul_inv]

/-! ### sign and exponent -/

theorem readFixed_neg (t : List Char) : readFixed ('-' :: t) = readFixedBody true t := rfl

theorem plainValue_neg (t : List Char) : plainValue ('-' :: t) = bodyValue true t := rfl

theorem plainValue_of_no_minus (t : List Char) (h : ∀ c ∈ t, numChar c = true) :
    plainValue t = bodyValue false t := by
  cases t with
  | nil => rfl
  | cons a b =>
    have ha : a ≠ '-' := numChar_ne_minus (h a (by simp))
    unfold plainValue bodyValue readFixed
    split
    · rename_i heq; simp only [List.cons.injEq] at heq; exact absurd heq.1 ha
    · rfl

theorem plainValue_signed (neg : Bool) (body : List Char) (h : ∀ c ∈ body, numChar c = true) :
    plainValue (if neg then '-' :: body else body) = bodyValue neg body := by
  cases neg
  · simp only [Bool.false_eq_true, if_false]; exact plainValue_of_no_minus body h
  · rfl

theorem value_eq (p : ℕ) (r : Dec) :
    r.value p = sgn r.neg * (r.m : ℚ) * (10 : ℚ) ^ (r.e - (p : ℤ) + 1) := by
  unfold Dec.value sgn
  rw [pow10_eq_zpow]

/-- **fmtG_reads_back.** The explicit reader applied to the text of a record returns the record's value. -/
theorem layoutG_reads_back (p : ℕ) (hp : 1 ≤ p) (r : Dec) (hm : r.m < 10 ^ p) :
    readG (layoutG p r) = some (r.value p) := by
  rw [value_eq]
  by_cases hf : useFixed p r.e = true
  · have he : r.e < (p : ℤ) := by
      have := hf; simp [useFixed] at this; exact this.2
    have hno := layoutG_fixed_no_e p r hf
    unfold readG
    rw [splitOn_not_mem _ _ hno]
    simp only
    have : layoutG p r = if r.neg then '-' :: layoutFixed p r.m r.e else layoutFixed p r.m r.e := by
      unfold layoutG; simp only [hf, if_true]
    rw [this, plainValue_signed _ _ (numChar_layoutFixed p r.m r.e), bodyValue_layoutFixed r.neg p r.m r.e hp hm he]
  · have hf' : useFixed p r.e = false := by simpa using hf
    unfold readG
    rw [layoutG_exp p r hf', splitOn_one _ _ _ (sigText_no_e p r) (expField_no_e r.e)]
    simp only [parseInt_expField]
    have : sigText p r = if r.neg then '-' :: layoutMant p r.m else layoutMant p r.m := rfl
    rw [this, plainValue_signed _ _ (numChar_layoutMant p r.m), bodyValue_layoutMant r.neg p r.m hp hm]
    simp only [Option.some.injEq]
    have h10 : (10 : ℚ) ≠ 0 := by norm_num
    obtain ⟨k, rfl⟩ : ∃ k, p = k + 1 := ⟨p - 1, by omega⟩
    have : r.e - ((k + 1 : ℕ) : ℤ) + 1 = r.e - (k : ℤ) := by push_cast; ring
    rw [this, zpow_sub₀ h10, zpow_natCast, Nat.add_sub_cancel]
    field_simp

/-- significand text of the exponent layout denotes `±m / 10^(p-1)`, and times `10^e` it is the record's value -/
theorem sigText_value (p : ℕ) (hp : 1 ≤ p) (r : Dec) (hm : r.m < 10 ^ p) :
    plainValue (sigText p r) = some (sgn r.neg * (r.m : ℚ) / (10 : ℚ) ^ (p - 1)) ∧
    sgn r.neg * (r.m : ℚ) / (10 : ℚ) ^ (p - 1) * (10 : ℚ) ^ r.e = r.value p := by
  have : sigText p r = if r.neg then '-' :: layoutMant p r.m else layoutMant p r.m := rfl
  refine ⟨by rw [this, plainValue_signed _ _ (numChar_layoutMant p r.m), bodyValue_layoutMant r.neg p r.m hp hm], ?_⟩
  rw [value_eq]
  have h10 : (10 : ℚ) ≠ 0 := by norm_num
  obtain ⟨k, rfl⟩ : ∃ k, p = k + 1 := ⟨p - 1, by omega⟩
  have : r.e - ((k + 1 : ℕ) : ℤ) + 1 = r.e - (k : ℤ) := by push_cast; ring
  rw [this, zpow_sub₀ h10, zpow_natCast, Nat.add_sub_cancel]
  field_simp

/-- tight form of `roundSig_spec'`: the error is at most half a unit of the `p`-th digit *of `x`'s own decade*,
    and the record's decade is that of `x`, or the next one exactly when the significand carried to `10^(p-1)` -/
theorem roundSig_tight' (p : ℕ) (hp : 1 ≤ p) (x : ℚ) (hx : x ≠ 0) :
    |((roundSig p x).m : ℚ) * (10 : ℚ) ^ ((roundSig p x).e - (p : ℤ) + 1) - (|x|)|
      ≤ (10 : ℚ) ^ (ilog10 |x| - (p : ℤ) + 1) / 2 ∧
    ((roundSig p x).e = ilog10 |x| ∨ ((roundSig p x).e = ilog10 |x| + 1 ∧ (roundSig p x).m = 10 ^ (p - 1))) := by
  have ha : 0 < |x| := abs_pos.mpr hx
  obtain ⟨b1, b2, b3⟩ := roundSig_core p hp |x| ha
  unfold roundSig
  simp only [absR_eq_abs, pow10_eq_zpow]
  generalize ilog10 |x| = e at *
  generalize hM : roundHalfEven (|x| / (10 : ℚ) ^ (e - (p : ℤ) + 1)) = M at *
  have hMpos : 0 ≤ M := le_trans (by positivity) b1
  have hcast : ((M.toNat : ℕ) : ℤ) = M := Int.toNat_of_nonneg hMpos
  have hcastq : ((M.toNat : ℕ) : ℚ) = (M : ℚ) := by
    calc ((M.toNat : ℕ) : ℚ) = (((M.toNat : ℕ) : ℤ) : ℚ) := (Int.cast_natCast _).symm
      _ = (M : ℚ) := by rw [hcast]
  split
  · rename_i hc
    have hdiv : M.toNat / 10 = 10 ^ (p - 1) := by
      rw [hc]
      obtain ⟨k, rfl⟩ : ∃ k, p = k + 1 := ⟨p - 1, by omega⟩
      simp [Nat.pow_succ]
    refine ⟨?_, Or.inr ⟨rfl, hdiv⟩⟩
    simp only [hdiv]
    have hs : (10 : ℚ) ^ (e + 1 - (p : ℤ) + 1) = 10 * (10 : ℚ) ^ (e - (p : ℤ) + 1) := by
      rw [show e + 1 - (p : ℤ) + 1 = 1 + (e - (p : ℤ) + 1) by ring, zpow_add₀ (by norm_num), zpow_one]
    have hm : ((10 ^ (p - 1) : ℕ) : ℚ) * 10 = (M : ℚ) := by
      rw [← hcastq, hc]
      obtain ⟨k, rfl⟩ : ∃ k, p = k + 1 := ⟨p - 1, by omega⟩
      simp [pow_succ]
    rw [hs, ← mul_assoc, hm]
    exact b3
  · refine ⟨?_, Or.inl rfl⟩
    simp only [hcastq]
    exact b3

/-- the characters of `str(i)` -/
theorem intStr_chars (i : ℤ) : ∀ c ∈ intStr i, c ∈ "0123456789-+".toList := by
  intro c hc
  have hd : ∀ n, ∀ c ∈ natStr n, c ∈ "0123456789-+".toList := by
    intro n c hc
    have := all_isDigit_natDigitsF _ _ c hc
    revert this
    unfold isDigit
    intro h
    have h1 : '0' ≤ c := by simpa using (Bool.and_eq_true_iff.mp h).1
    have h2 : c ≤ '9' := by simpa using (Bool.and_eq_true_iff.mp h).2
    have h1' : 48 ≤ c.toNat := h1
    have h2' : c.toNat ≤ 57 := h2
    have : c = Char.ofNat c.toNat := (Char.ofNat_toNat c).symm
    rw [this]
    generalize c.toNat = k at *
    have : k = 48 ∨ k = 49 ∨ k = 50 ∨ k = 51 ∨ k = 52 ∨ k = 53 ∨ k = 54 ∨ k = 55 ∨ k = 56 ∨ k = 57 := by omega
    rcases this with h | h | h | h | h | h | h | h | h | h <;> subst h <;> decide
  unfold intStr at hc
  split at hc
  · simp only [List.mem_cons] at hc
    rcases hc with h | h
    · subst h; decide
    · exact hd _ _ h
  · exact hd _ _ hc


/-! ### definitional facts (kept out of Props: they restate definitions) -/

/-- `fmt=None` means the default precision extracted from the source -/
theorem numberToX_default (f : Fmt) (x : ℚ) (unit : Option (List Char)) :
    numberToX f none x unit = numberToX f (some Gen.PrintingNumbers.defaultPrecision) x unit := rfl

/-- the renderer behind the `magnitude_fmt` of a printer (`none`: the plain `%.3g` printer) -/
def printerFmt : Printer → Option Fmt
  | .str => none
  | .unicode => some .unicode
  | .latex => some .latex
  | .html => some .html

theorem reactionParamStr_quantity (pr : Printer) (mag : ℚ) (u : List Char) :
    reactionParamStr pr (.quantity mag u) = (magFmt pr mag >>= fun s => pure (s ++ ' ' :: u)) := rfl
theorem reactionParamStr_float (pr : Printer) (x : ℚ) : reactionParamStr pr (.float x) = magFmt pr x := rfl
theorem reactionParamStr_other (pr : Printer) (t : List Char) : reactionParamStr pr (.other t) = .ok t := rfl
theorem magFmt_str (x : ℚ) : magFmt .str x = .ok (fmtG Gen.PrintingNumbers.strMagnitudePrecision x) := rfl
theorem uncertRecord_noExp (x xe : ℚ) (prec : ℤ) : (uncertRecord x xe prec).noExp = ilog10 (absR xe) - prec + 1 := rfl
theorem uncertRecord_xExp (x xe : ℚ) (prec : ℤ) : (uncertRecord x xe prec).xExp = ilog10 (absR x) := rfl

/-! ### the per-substance table -/

theorem indexOf_getElem (keys : List (List Char)) (hnd : keys.Nodup) (i : Nat) (hi : i < keys.length) :
    indexOf keys[i] keys = some i := by
  induction keys generalizing i with
  | nil => simp at hi
  | cons x xs ih =>
    rw [List.nodup_cons] at hnd
    cases i with
    | zero => simp [indexOf]
    | succ j =>
      have hj : j < xs.length := by simpa using hi
      have hne : x ≠ xs[j] := fun h => hnd.1 (h ▸ List.getElem_mem hj)
      simp [indexOf, hne, ih hnd.2 j hj]

/-- `l.mapM f = ok r` for `Except`: same length and element-wise success -/
theorem mapM_ok {α β ε : Type} (f : α → Except ε β) (l : List α) (r : List β) (h : l.mapM f = .ok r) :
    r.length = l.length ∧ ∀ i (hi : i < l.length) (hr : i < r.length), f l[i] = .ok r[i] := by
  induction l generalizing r with
  | nil =>
    simp only [List.mapM_nil, pure, Except.pure] at h
    injection h with h; subst h; simp
  | cons a as ih =>
    rw [List.mapM_cons] at h
    cases hfa : f a with
    | error e => rw [hfa] at h; cases h
    | ok b =>
      rw [hfa] at h
      cases hrest : as.mapM f with
      | error e => rw [hrest] at h; cases h
      | ok bs =>
        rw [hrest] at h
        simp only [bind, Except.bind, pure, Except.pure] at h
        injection h with h; subst h
        obtain ⟨hl, hel⟩ := ih bs hrest
        refine ⟨by simp [hl], ?_⟩
        intro i hi hr
        cases i with
        | zero => simpa using hfa
        | succ j => simpa using hel j (by simpa using hi) (by simpa using hr)

/-! ### splitting at several separators -/

theorem splitOn_ne_nil (c : Char) (s : List Char) : splitOn c s ≠ [] := by
  induction s with
  | nil => simp [splitOn]
  | cons x xs ih =>
    unfold splitOn
    cases h : splitOn c xs with
    | nil => simp
    | cons a b => by_cases hx : (x == c) = true <;> simp [hx]

theorem splitOn_cons (c x : Char) (xs : List Char) :
    splitOn c (x :: xs) = match splitOn c xs with
      | [] => [[]]
      | h :: t => if x == c then [] :: h :: t else (x :: h) :: t := by
  rw [splitOn]
  cases splitOn c xs <;> rfl

/-- the text before the first separator is the first piece -/
theorem splitOn_first (c : Char) (a rest : List Char) (ha : c ∉ a) :
    splitOn c (a ++ c :: rest) = a :: splitOn c rest := by
  induction a with
  | nil =>
    rw [List.nil_append, splitOn_cons]
    cases h : splitOn c rest with
    | nil => exact absurd h (splitOn_ne_nil c rest)
    | cons p q => simp
  | cons x xs ih =>
    simp only [List.mem_cons, not_or] at ha
    have hx : (x == c) = false := by rw [beq_eq_false_iff_ne]; exact fun hh => ha.1 hh.symm
    rw [List.cons_append, splitOn_cons, ih ha.2]
    simp [hx]

theorem mapM_ok_of_forall {α β ε : Type} (f : α → Except ε β) (l : List α) (h : ∀ a ∈ l, ∃ b, f a = .ok b) :
    ∃ r, l.mapM f = .ok r := by
  induction l with
  | nil => exact ⟨[], rfl⟩
  | cons a as ih =>
    obtain ⟨b, hb⟩ := h a (by simp)
    obtain ⟨bs, hbs⟩ := ih (fun x hx => h x (List.mem_cons_of_mem _ hx))
    refine ⟨b :: bs, ?_⟩
    rw [List.mapM_cons, hb, hbs]
    rfl

/-! ### decimal rescaling (unit prefixes) -/

theorem decade_unique (a : ℚ) (e e' : ℤ) (h1 : (10 : ℚ) ^ e ≤ a) (h2 : a < (10 : ℚ) ^ (e + 1))
    (h1' : (10 : ℚ) ^ e' ≤ a) (h2' : a < (10 : ℚ) ^ (e' + 1)) : e = e' := by
  have mono : ∀ m n : ℤ, m ≤ n → (10 : ℚ) ^ m ≤ (10 : ℚ) ^ n := fun m n h => zpow_le_zpow_right₀ (by norm_num) h
  rcases lt_trichotomy e e' with h | h | h
  · exact absurd (lt_of_lt_of_le h2 (le_trans (mono _ _ (by omega)) h1')) (lt_irrefl _)
  · exact h
  · exact absurd (lt_of_lt_of_le h2' (le_trans (mono _ _ (by omega)) h1)) (lt_irrefl _)

theorem ilog10_mul_zpow (a : ℚ) (ha : 0 < a) (k : ℤ) : ilog10 (a * (10 : ℚ) ^ k) = ilog10 a + k := by
  have hk : (0 : ℚ) < (10 : ℚ) ^ k := zpow_pos (by norm_num) _
  obtain ⟨l, u⟩ := ilog10_spec a ha
  obtain ⟨l', u'⟩ := ilog10_spec (a * (10 : ℚ) ^ k) (mul_pos ha hk)
  refine (decade_unique (a * (10 : ℚ) ^ k) _ _ ?_ ?_ l' u').symm
  · rw [zpow_add₀ (by norm_num)]; exact mul_le_mul_of_nonneg_right l hk.le
  · rw [show ilog10 a + k + 1 = (ilog10 a + 1) + k by ring, zpow_add₀ (by norm_num)]
    exact mul_lt_mul_of_pos_right u hk

theorem absR_mul_zpow (x : ℚ) (k : ℤ) : absR (x * (10 : ℚ) ^ k) = absR x * (10 : ℚ) ^ k := by
  rw [absR_eq_abs, absR_eq_abs, abs_mul, abs_of_pos (zpow_pos (by norm_num : (0 : ℚ) < 10) k)]

theorem scaled_arg_eq (x : ℚ) (q k : ℤ) : x * (10 : ℚ) ^ k * pow10 (-(q + k)) = x * pow10 (-q) := by
  rw [pow10_eq_zpow, pow10_eq_zpow, neg_add, zpow_add₀ (by norm_num), mul_assoc, ← mul_assoc ((10 : ℚ) ^ k),
    mul_comm ((10 : ℚ) ^ k), mul_assoc ((10 : ℚ) ^ (-q)), ← zpow_add₀ (by norm_num), add_neg_cancel, zpow_zero, mul_one]

/-! ### explicit readers of the power-of-ten mark-up (specification side; literal templates, independent of the Gen tables) -/

/-- `s` without the prefix `p`, if it starts with it -/
def dropPrefix : List Char → List Char → Option (List Char)
  | [], s => some s
  | _ :: _, [] => none
  | p :: ps, c :: cs => if p = c then dropPrefix ps cs else none

/-- split before the first occurrence of `stop` -/
def spanNe (stop : Char) : List Char → List Char × List Char
  | [] => ([], [])
  | c :: cs => if c = stop then ([], c :: cs) else ((c :: (spanNe stop cs).1), (spanNe stop cs).2)

/-- read `<int text><close>` : the text up to the first `stop` (= first character of `close`) as a Python int, then `close` -/
def readExp (close : List Char) (stop : Char) (t : List Char) : Option (Int × List Char) :=
  match dropPrefix close (spanNe stop t).2 with
  | some rest => (parseInt (spanNe stop t).1).map fun e => (e, rest)
  | none => none

/-- reader of `[sig sep] one-part exponent close rest`: `one` = bare power up to the exponent (`10^{`), `sep` = separator mark plus the
    power (`\cdot 10^{`), `mark` = first character of `sep`.  Result: (significand text if present, exponent, text after the number) -/
def readPow (one sep close : List Char) (stop mark : Char) (s : List Char) : Option (Option (List Char) × Int × List Char) :=
  match dropPrefix one s with
  | some t => (readExp close stop t).map fun er => (none, er.1, er.2)
  | none =>
    match dropPrefix sep (spanNe mark s).2 with
    | some t => (readExp close stop t).map fun er => (some (spanNe mark s).1, er.1, er.2)
    | none => none

def readLatex : List Char → Option (Option (List Char) × Int × List Char) :=
  readPow "10^{".toList "\\cdot 10^{".toList "}".toList '}' '\\'

def readHtml : List Char → Option (Option (List Char) × Int × List Char) :=
  readPow "10<sup>".toList "&sdot;10<sup>".toList "</sup>".toList '<' '&'

theorem dropPrefix_append (p t : List Char) : dropPrefix p (p ++ t) = some t := by
  induction p with
  | nil => cases t <;> rfl
  | cons a as ih => simp [dropPrefix, ih]

theorem spanNe_append (stop : Char) (a r : List Char) (ha : ∀ c ∈ a, c ≠ stop) :
    spanNe stop (a ++ stop :: r) = (a, stop :: r) := by
  induction a with
  | nil => simp [spanNe]
  | cons x xs ih =>
    have hx : x ≠ stop := ha x (by simp)
    have := ih (fun c hc => ha c (List.mem_cons_of_mem _ hc))
    simp [spanNe, hx, this]

theorem readExp_intStr (stop : Char) (cl rest : List Char) (e : Int) (hs : ∀ c ∈ intStr e, c ≠ stop) :
    readExp (stop :: cl) stop (intStr e ++ (stop :: cl) ++ rest) = some (e, rest) := by
  unfold readExp
  rw [List.append_assoc, List.cons_append, spanNe_append stop _ _ hs]
  simp only
  rw [show stop :: (cl ++ rest) = (stop :: cl) ++ rest by rfl, dropPrefix_append, parseInt_intStr]
  rfl

/-- a text whose third character is not `x` does not start with `p1 p2 x …` -/
theorem dropPrefix_third (p1 p2 x : Char) (ps : List Char) (sig : List Char) (m1 m2 m3 : Char) (tail : List Char)
    (hsig : ∀ c ∈ sig, c ≠ x) (h1 : m1 ≠ x) (h2 : m2 ≠ x) (h3 : m3 ≠ x) :
    dropPrefix (p1 :: p2 :: x :: ps) (sig ++ m1 :: m2 :: m3 :: tail) = none := by
  have key : ∀ a b c t, c ≠ x → dropPrefix (p1 :: p2 :: x :: ps) (a :: b :: c :: t) = none := by
    intro a b c t hc
    have : ¬ x = c := fun h => hc h.symm
    simp [dropPrefix, this]
  match sig, hsig with
  | [], _ => exact key _ _ _ _ h3
  | [a], _ => exact key _ _ _ _ h2
  | [a, b], _ => exact key _ _ _ _ h1
  | a :: b :: c :: t, hs => exact key _ _ _ _ (hs c (by simp))

theorem intStr_ne (e : Int) (stop : Char) (h : ∀ c ∈ "0123456789-+".toList, c ≠ stop) : ∀ c ∈ intStr e, c ≠ stop :=
  fun c hc => h c (intStr_chars e c hc)

theorem readPow_one (one sep cl : List Char) (stop mark : Char) (rest : List Char) (e : Int) (hst : ∀ c ∈ intStr e, c ≠ stop) :
    readPow one sep (stop :: cl) stop mark (one ++ intStr e ++ (stop :: cl) ++ rest) = some (none, e, rest) := by
  unfold readPow
  rw [show one ++ intStr e ++ (stop :: cl) ++ rest = one ++ (intStr e ++ (stop :: cl) ++ rest) by simp [List.append_assoc],
    dropPrefix_append]
  simp only [readExp_intStr stop cl rest e hst, Option.map_some]

theorem readPow_sep (one sp cl : List Char) (stop mark : Char) (sig rest : List Char) (e : Int)
    (hmark : ∀ c ∈ sig, c ≠ mark) (hst : ∀ c ∈ intStr e, c ≠ stop)
    (hno : dropPrefix one (sig ++ (mark :: sp) ++ intStr e ++ (stop :: cl) ++ rest) = none) :
    readPow one (mark :: sp) (stop :: cl) stop mark (sig ++ (mark :: sp) ++ intStr e ++ (stop :: cl) ++ rest)
      = some (some sig, e, rest) := by
  unfold readPow
  rw [hno]
  simp only
  have hshape : sig ++ (mark :: sp) ++ intStr e ++ (stop :: cl) ++ rest
      = sig ++ mark :: (sp ++ (intStr e ++ (stop :: cl) ++ rest)) := by simp [List.append_assoc]
  rw [hshape, spanNe_append mark sig _ hmark]
  simp only
  rw [show mark :: (sp ++ (intStr e ++ (stop :: cl) ++ rest)) = (mark :: sp) ++ (intStr e ++ (stop :: cl) ++ rest) by rfl,
    dropPrefix_append]
  simp only [readExp_intStr stop cl rest e hst, Option.map_some]

/-- value of an optional significand text: an omitted significand counts as 1 -/
def sigValue : Option (List Char) → Option ℚ
  | none => some 1
  | some s => plainValue s

/-! ### string-level reader of the unicode form -/

open ChemModel.Gen.PrintingNumbers

/-- superscript of a character of an integer text, and its inverse (independent table) -/
def unSup : Char → Char
  | '⁰' => '0' | '¹' => '1' | '²' => '2' | '³' => '3' | '⁴' => '4' | '⁵' => '5' | '⁶' => '6' | '⁷' => '7'
  | '⁸' => '8' | '⁹' => '9' | '⁻' => '-' | '⁺' => '+' | c => c

/-- superscript characters of an exponent -/
def isSup (c : Char) : Bool := "⁰¹²³⁴⁵⁶⁷⁸⁹⁻⁺".toList.contains c

/-- `10` directly followed by a superscript: the bare power -/
def omittedForm (s : List Char) : Option (List Char) :=
  match dropPrefix ['1', '0'] s with
  | some (c :: t) => if isSup c then some (c :: t) else none
  | _ => none

/-- the run of superscripts read as a Python int, and what follows it -/
def readSupExp (t : List Char) : Option (Int × List Char) :=
  (parseInt ((t.takeWhile isSup).map unSup)).map fun e => (e, t.dropWhile isSup)

/-- string-level reader of the unicode form `[sig·]10ˢᵘᵖ rest` -/
def readUnicode (s : List Char) : Option (Option (List Char) × Int × List Char) :=
  match omittedForm s with
  | some t => (readSupExp t).map fun er => (none, er.1, er.2)
  | none =>
    match dropPrefix ['·', '1', '0'] (spanNe '·' s).2 with
    | some t => (readSupExp t).map fun er => (some (spanNe '·' s).1, er.1, er.2)
    | none => none

theorem sup_table_isSup : ∀ c ∈ "0123456789-+".toList, ∃ u, unicodeSup.lookup c = some u ∧ unSup u = c ∧ isSup u = true := by
  decide

theorem supMap_spec (s : List Char) (h : ∀ c ∈ s, c ∈ "0123456789-+".toList) :
    ∃ sup, supMap s = .ok sup ∧ sup.map unSup = s ∧ ∀ u ∈ sup, isSup u = true := by
  induction s with
  | nil => exact ⟨[], rfl, rfl, by simp⟩
  | cons c cs ih =>
    obtain ⟨sup, h1, h2, h3⟩ := ih (fun c hc => h c (List.mem_cons_of_mem _ hc))
    obtain ⟨u, hu1, hu2, hu3⟩ := sup_table_isSup c (h c (by simp))
    refine ⟨u :: sup, ?_, by simp [hu2, h2], ?_⟩
    · show (supMap cs >>= fun rest => match unicodeSup.lookup c with
        | some u => pure (u :: rest) | none => throw "TypeError") = _
      rw [h1, hu1]
      rfl
    · intro v hv
      simp only [List.mem_cons] at hv
      rcases hv with h | h
      · rw [h]; exact hu3
      · exact h3 v h

theorem takeWhile_sup (sup rest : List Char) (hs : ∀ u ∈ sup, isSup u = true) (hr : ∀ c, rest.head? = some c → isSup c = false) :
    (sup ++ rest).takeWhile isSup = sup ∧ (sup ++ rest).dropWhile isSup = rest := by
  induction sup with
  | nil =>
    cases rest with
    | nil => simp
    | cons c t => have := hr c rfl; simp [this]
  | cons u us ih =>
    have hu := hs u (by simp)
    have := ih (fun v hv => hs v (List.mem_cons_of_mem _ hv))
    simp [hu, this.1, this.2]

theorem readSupExp_ok (sup rest : List Char) (e : Int) (hs : ∀ u ∈ sup, isSup u = true) (hmap : sup.map unSup = intStr e)
    (hr : ∀ c, rest.head? = some c → isSup c = false) : readSupExp (sup ++ rest) = some (e, rest) := by
  unfold readSupExp
  rw [(takeWhile_sup sup rest hs hr).1, (takeWhile_sup sup rest hs hr).2, hmap, parseInt_intStr]
  rfl

theorem intStr_ne_nil (e : Int) : intStr e ≠ [] := by
  unfold intStr
  split
  · simp
  · exact natStr_ne_nil _

theorem omittedForm_bare (sup rest : List Char) (hne : sup ≠ []) (hs : ∀ u ∈ sup, isSup u = true) :
    omittedForm (['1', '0'] ++ sup ++ rest) = some (sup ++ rest) := by
  cases sup with
  | nil => exact absurd rfl hne
  | cons u us =>
    have hu := hs u (by simp)
    simp [omittedForm, dropPrefix, hu]

theorem omittedForm_sig (sig tail : List Char) (hs : ∀ c ∈ sig, isSup c = false) :
    omittedForm (sig ++ '·' :: tail) = none := by
  have hdot : isSup '·' = false := by decide
  match sig, hs with
  | [], _ => simp [omittedForm, dropPrefix]
  | [a], _ =>
    by_cases h1 : '1' = a <;> simp [omittedForm, dropPrefix, h1]
  | [a, b], _ =>
    by_cases h1 : '1' = a
    · by_cases h2 : '0' = b
      · subst h1; subst h2; simp [omittedForm, dropPrefix, hdot]
      · simp [omittedForm, dropPrefix, h2]
    · simp [omittedForm, dropPrefix, h1]
  | a :: b :: c :: t, hs =>
    have hc := hs c (by simp)
    by_cases h1 : '1' = a
    · by_cases h2 : '0' = b
      · subst h1; subst h2; simp [omittedForm, dropPrefix, hc]
      · simp [omittedForm, dropPrefix, h2]
    · simp [omittedForm, dropPrefix, h1]

theorem sigText_sup_free (p : ℕ) (r : Dec) : ∀ c ∈ sigText p r, c ≠ '·' ∧ isSup c = false := by
  intro c hc
  have key : ∀ c, numChar c = true → c ≠ '·' ∧ isSup c = false := by
    intro c h
    have h' : isDigit c = true ∨ c = '.' := by
      unfold numChar at h
      rcases Bool.or_eq_true_iff.mp h with h | h
      · exact Or.inl h
      · exact Or.inr (by simpa using h)
    rcases h' with h' | h'
    · unfold isDigit at h'
      have h1a : '0' ≤ c := by simpa using (Bool.and_eq_true_iff.mp h').1
      have h2a : c ≤ '9' := by simpa using (Bool.and_eq_true_iff.mp h').2
      have h1 : 48 ≤ c.toNat := h1a
      have h2 : c.toNat ≤ 57 := h2a
      have : c = Char.ofNat c.toNat := (Char.ofNat_toNat c).symm
      rw [this]
      generalize c.toNat = k at *
      have : k = 48 ∨ k = 49 ∨ k = 50 ∨ k = 51 ∨ k = 52 ∨ k = 53 ∨ k = 54 ∨ k = 55 ∨ k = 56 ∨ k = 57 := by omega
      rcases this with h | h | h | h | h | h | h | h | h | h <;> subst h <;> decide
    · subst h'; decide
  unfold sigText at hc
  split at hc
  · simp only [List.mem_cons] at hc
    rcases hc with h | h
    · subst h; decide
    · exact key c (numChar_layoutMant _ _ c h)
  · exact key c (numChar_layoutMant _ _ c hc)

theorem unitSuffix_unicode_head (unit : Option (List Char)) :
    ∀ c, (unitSuffix .unicode unit).head? = some c → isSup c = false := by
  intro c hc
  cases unit with
  | none => simp [unitSuffix] at hc
  | some u =>
    have : defaultSpace = [' '] := by decide
    simp only [unitSuffix, this, List.cons_append, List.nil_append, List.head?_cons, Option.some.injEq] at hc
    subst hc; decide

end ChemModel.NumFmt
