/-
C01 helper lemmas, rejection direction: everything the stoichiometry parser accepts lies in a small token
language `Acc` (whitespace, element symbols, digits, '.', state texts, marks, '@', balanced bracket groups).
Consequences: accepted text contains no '+', '-', '/', its brackets are balanced, and every capitalised token in
it is an element symbol.
-/
import ChemModel.Proofs.FormulaSuffix

set_option linter.constructorNameAsVariable false

namespace ChemModel.Formula
open ChemModel.Gen

/-- over-approximation of the accepted stoichiometry language -/
inductive Acc : List Char → Prop
  | nil : Acc []
  | ws (c : Char) (r : List Char) : isWs c = true → Acc r → Acc (c :: r)
  | sym (z : Nat) (r : List Char) : 1 ≤ z → z ≤ 118 → Acc r → Acc (symChars z ++ r)
  | digit (c : Char) (r : List Char) : c.isDigit = true → Acc r → Acc (c :: r)
  | dot (r : List Char) : Acc r → Acc ('.' :: r)
  | state (st : St) (r : List Char) : Acc r → Acc (st.text ++ r)
  | mark (c : Char) (r : List Char) : isMark c = true → Acc r → Acc (c :: r)
  | cage (r : List Char) : Acc r → Acc ('@' :: r)
  | grp (b : Br) (u r : List Char) : Acc u → Acc r → Acc (b.op :: (u ++ b.cl :: r))

theorem Acc.append {x y : List Char} (ha : Acc x) (hb : Acc y) : Acc (x ++ y) := by
  induction ha with
  | nil => simpa using hb
  | ws c r hc _ ih => exact Acc.ws c _ hc ih
  | sym z r h1 h2 _ ih => rw [List.append_assoc]; exact Acc.sym z _ h1 h2 ih
  | digit c r hc _ ih => exact Acc.digit c _ hc ih
  | dot r _ ih => exact Acc.dot _ ih
  | state st r _ ih => rw [List.append_assoc]; exact Acc.state st _ ih
  | mark c r hc _ ih => exact Acc.mark c _ hc ih
  | cage r _ ih => exact Acc.cage _ ih
  | grp b u r hu _ _ ih2 =>
    have : b.op :: (u ++ b.cl :: r) ++ y = b.op :: (u ++ b.cl :: (r ++ y)) := by simp
    rw [this]; exact Acc.grp b u _ hu ih2

/-- `u` can be put in front of any accepted text -/
def Pre (u : List Char) : Prop := ∀ r, Acc r → Acc (u ++ r)

theorem Pre.nil : Pre [] := fun _ h => h
theorem Pre.append {a b : List Char} (ha : Pre a) (hb : Pre b) : Pre (a ++ b) := by
  intro r hr; rw [List.append_assoc]; exact ha _ (hb r hr)
theorem Pre.acc {u : List Char} (h : Pre u) : Acc u := by simpa using h [] Acc.nil
theorem Pre.of_acc {u : List Char} (h : Acc u) : Pre u := fun _ hr => h.append hr

theorem pre_ws {w : List Char} (h : ∀ c ∈ w, isWs c = true) : Pre w := by
  induction w with
  | nil => exact Pre.nil
  | cons c r ih => intro x hx; exact Acc.ws c _ (h c (by simp)) (ih (fun d hd => h d (by simp [hd])) x hx)

theorem pre_digits {w : List Char} (h : ∀ c ∈ w, c.isDigit = true) : Pre w := by
  induction w with
  | nil => exact Pre.nil
  | cons c r ih => intro x hx; exact Acc.digit c _ (h c (by simp)) (ih (fun d hd => h d (by simp [hd])) x hx)

theorem pre_marks {w : List Char} (h : ∀ c ∈ w, isMark c = true) : Pre w := by
  induction w with
  | nil => exact Pre.nil
  | cons c r ih => intro x hx; exact Acc.mark c _ (h c (by simp)) (ih (fun d hd => h d (by simp [hd])) x hx)

/-! ### what each lexical function consumes -/

theorem skipWs_spec (s : List Char) : ∃ w, s = w ++ skipWs s ∧ ∀ c ∈ w, isWs c = true := by
  induction s with
  | nil => exact ⟨[], rfl, by simp⟩
  | cons c r ih =>
    by_cases hc : isWs c = true
    · obtain ⟨w, hw, hall⟩ := ih
      refine ⟨c :: w, by simp [skipWs, hc, ← hw], ?_⟩
      intro d hd; rcases List.mem_cons.mp hd with e | e
      · subst e; exact hc
      · exact hall d e
    · exact ⟨[], by simp [skipWs, hc], by simp⟩

theorem takeDigits_spec (s : List Char) :
    s = (takeDigits s).1 ++ (takeDigits s).2 ∧ ∀ c ∈ (takeDigits s).1, c.isDigit = true := by
  induction s with
  | nil => simp [takeDigits]
  | cons c r ih =>
    by_cases hc : c.isDigit = true
    · simp only [takeDigits, hc, if_true]
      refine ⟨by simp [← ih.1], ?_⟩
      intro d hd; rcases List.mem_cons.mp hd with e | e
      · subst e; exact hc
      · exact ih.2 d e
    · simp [takeDigits, hc]

theorem parseCount_spec (s : List Char) : ∃ u, s = u ++ (parseCount s).2 ∧ Pre u := by
  obtain ⟨h1, hd1⟩ := takeDigits_spec s
  simp only [parseCount]
  split
  · exact ⟨[], rfl, Pre.nil⟩
  · split
    · rename_i r2 heq
      obtain ⟨h2, hd2⟩ := takeDigits_spec r2
      split
      · exact ⟨(takeDigits s).1, h1, pre_digits hd1⟩
      · refine ⟨(takeDigits s).1 ++ '.' :: (takeDigits r2).1, ?_, ?_⟩
        · rw [List.append_assoc, List.cons_append, ← h2, ← heq]; exact h1
        · exact (pre_digits hd1).append (fun r hr => Acc.dot _ (pre_digits hd2 r hr))
    · exact ⟨(takeDigits s).1, h1, pre_digits hd1⟩

theorem matchState_sound (s r : List Char) (h : matchState s = some r) : ∃ st : St, s = st.text ++ r := by
  unfold matchState at h
  split at h <;> simp at h <;> subst h
  · exact ⟨.s, rfl⟩
  · exact ⟨.l, rfl⟩
  · exact ⟨.g, rfl⟩
  · exact ⟨.aq, rfl⟩
  · exact ⟨.cr, rfl⟩

theorem dropMarks_spec (s : List Char) : ∃ m, s = m ++ dropMarks s ∧ ∀ c ∈ m, isMark c = true := by
  induction s with
  | nil => exact ⟨[], rfl, by simp⟩
  | cons c r ih =>
    by_cases hc : isMark c = true
    · obtain ⟨m, hm, hall⟩ := ih
      refine ⟨c :: m, by simp [dropMarks, hc, ← hm], ?_⟩
      intro d hd; rcases List.mem_cons.mp hd with e | e
      · subst e; exact hc
      · exact hall d e
    · exact ⟨[], by simp [dropMarks, hc], by simp⟩

theorem matchPrimes_sound (s r : List Char) (h : matchPrimes s = some r) : ∃ u, s = u ++ r ∧ Pre u := by
  cases s with
  | nil => simp [matchPrimes] at h
  | cons c t =>
    simp only [matchPrimes] at h
    split at h
    · rename_i hc
      simp at h; subst h
      obtain ⟨m, hm, hall⟩ := dropMarks_spec t
      refine ⟨c :: m, by simp [← hm], ?_⟩
      exact pre_marks (fun d hd => by
        rcases List.mem_cons.mp hd with e | e
        · subst e; exact hc
        · exact hall d e)
    · simp at h

theorem optTok_spec (f : List Char → Option (List Char)) (hf : ∀ s r, f s = some r → ∃ u, s = u ++ r ∧ Pre u)
    (s : List Char) : ∃ u, s = u ++ optTok f s ∧ Pre u := by
  unfold optTok
  obtain ⟨w, hw, hall⟩ := skipWs_spec s
  cases h : f (skipWs s) with
  | none => exact ⟨[], rfl, Pre.nil⟩
  | some r =>
    obtain ⟨u, hu, hp⟩ := hf _ _ h
    exact ⟨w ++ u, by rw [List.append_assoc, ← hu]; exact hw, (pre_ws hall).append hp⟩

theorem parseTail_spec (s : List Char) : ∃ u, s = u ++ (parseTail s).2 ∧ Pre u := by
  obtain ⟨w, hw, hall⟩ := skipWs_spec s
  obtain ⟨u1, h1, p1⟩ := parseCount_spec (skipWs s)
  obtain ⟨u2, h2, p2⟩ := optTok_spec matchState
    (fun s r h => by obtain ⟨st, e⟩ := matchState_sound s r h; exact ⟨st.text, e, fun x hx => Acc.state st x hx⟩)
    (parseCount (skipWs s)).2
  obtain ⟨u3, h3, p3⟩ := optTok_spec matchPrimes matchPrimes_sound (optTok matchState (parseCount (skipWs s)).2)
  refine ⟨w ++ (u1 ++ (u2 ++ u3)), ?_, (pre_ws hall).append (p1.append (p2.append p3))⟩
  simp only [parseTail]
  rw [List.append_assoc, List.append_assoc, List.append_assoc, ← h3, ← h2, ← h1]
  exact hw

/-! ### the parser only accepts text of the language -/

theorem asFormula_some {x : Option (Comp × List Char)} {c : Comp} {r : List Char} (h : asFormula x = some (c, r)) :
    ∃ c', x = some (c', r) := by
  cases x with
  | none => simp [asFormula] at h
  | some p =>
    obtain ⟨c', r'⟩ := p
    simp only [asFormula] at h
    split at h
    · simp at h
    · simp at h; exact ⟨c', by rw [h.2]⟩

theorem closer_sound (c cl : Char) (h : closer c = some cl) : ∃ b : Br, c = b.op ∧ cl = b.cl := by
  unfold closer at h
  split at h <;> simp at h <;> subst h
  · exact ⟨.paren, rfl, rfl⟩
  · exact ⟨.square, rfl, rfl⟩
  · exact ⟨.curly, rfl, rfl⟩

theorem parse_sound : ∀ fuel : Nat,
    (∀ s c r, parseTerm fuel s = some (c, r) → ∃ u, s = u ++ r ∧ Pre u) ∧
    (∀ s c r, parseTerms fuel s = some (c, r) → ∃ u, s = u ++ r ∧ Pre u) := by
  intro fuel
  induction fuel with
  | zero => exact ⟨fun s c r h => by simp [parseTerm] at h, fun s c r h => by simp [parseTerms] at h⟩
  | succ f ih =>
    have hterm : ∀ s c r, parseTerm (f + 1) s = some (c, r) → ∃ u, s = u ++ r ∧ Pre u := by
      intro s0 c r h
      obtain ⟨w, hw, hall⟩ := skipWs_spec s0
      simp only [parseTerm] at h
      cases hm : matchElem (skipWs s0) with
      | some p =>
        obtain ⟨z, rest⟩ := p
        rw [hm] at h
        simp at h
        obtain ⟨h1, h2, he⟩ := matchElem_sound _ _ _ hm
        obtain ⟨u, hu, hp⟩ := parseTail_spec rest
        refine ⟨w ++ (symChars z ++ u), ?_, (pre_ws hall).append (Pre.append (fun x hx => Acc.sym z x h1 h2 hx) hp)⟩
        rw [← h.2, List.append_assoc, List.append_assoc, ← hu, ← he]; exact hw
      | none =>
        rw [hm] at h
        simp only at h
        cases hs : skipWs s0 with
        | nil => rw [hs] at h; simp at h
        | cons ch cs =>
          rw [hs] at h
          simp only at h
          split at h
          · -- cage
            rename_i hat
            cases hb : asFormula (parseTerms f cs) with
            | none => rw [hb] at h; simp at h
            | some p =>
              obtain ⟨body, r1⟩ := p
              rw [hb] at h
              simp at h
              obtain ⟨c', hc'⟩ := asFormula_some hb
              obtain ⟨u1, hu1, hp1⟩ := ih.2 _ _ _ hc'
              obtain ⟨u2, hu2, hp2⟩ := parseTail_spec r1
              refine ⟨w ++ ('@' :: (u1 ++ u2)), ?_, (pre_ws hall).append (fun x hx => Acc.cage _ ((hp1.append hp2) x hx))⟩
              rw [← h.2, List.append_assoc, List.cons_append, List.append_assoc, ← hu2, ← hu1, ← hat, ← hs]; exact hw
          · cases hcl : closer ch with
            | none => rw [hcl] at h; simp at h
            | some cl =>
              rw [hcl] at h
              simp only at h
              obtain ⟨b, hb1, hb2⟩ := closer_sound ch cl hcl
              cases hb : asFormula (parseTerms f cs) with
              | none => rw [hb] at h; simp at h
              | some p =>
                obtain ⟨body, r1⟩ := p
                rw [hb] at h
                simp only at h
                obtain ⟨c', hc'⟩ := asFormula_some hb
                obtain ⟨u1, hu1, hp1⟩ := ih.2 _ _ _ hc'
                obtain ⟨w2, hw2, hall2⟩ := skipWs_spec r1
                cases hs2 : skipWs r1 with
                | nil => rw [hs2] at h; simp at h
                | cons cl' r2 =>
                  rw [hs2] at h
                  simp only at h
                  split at h
                  · rename_i hcl'
                    simp at h
                    obtain ⟨u2, hu2, hp2⟩ := parseTail_spec r2
                    have hgrp : Pre (b.op :: ((u1 ++ w2) ++ b.cl :: u2)) := by
                      intro x hx
                      have := Acc.grp b (u1 ++ w2) (u2 ++ x) ((hp1.append (pre_ws hall2)).acc) (hp2 x hx)
                      simpa [List.append_assoc] using this
                    refine ⟨w ++ (b.op :: ((u1 ++ w2) ++ b.cl :: u2)), ?_, (pre_ws hall).append hgrp⟩
                    have hr2 : r2 = u2 ++ r := by rw [← h.2]; exact hu2
                    have e1 : r1 = w2 ++ cl' :: r2 := by rw [← hs2]; exact hw2
                    have : s0 = w ++ ch :: cs := by rw [← hs]; exact hw
                    rw [this, hu1, e1, hr2, hb1, hcl', hb2]
                    simp [List.append_assoc]
                  · simp at h
    refine ⟨hterm, ?_⟩
    intro s c r h
    simp only [parseTerms] at h
    cases ht : parseTerm f s with
    | none => rw [ht] at h; simp at h; exact ⟨[], by simp [h.2], Pre.nil⟩
    | some p =>
      obtain ⟨c1, r1⟩ := p
      rw [ht] at h
      simp only at h
      obtain ⟨u1, hu1, hp1⟩ := ih.1 _ _ _ ht
      cases hts : parseTerms f r1 with
      | none => rw [hts] at h; simp at h; exact ⟨u1, by rw [← h.2]; exact hu1, hp1⟩
      | some q =>
        obtain ⟨c2, r2⟩ := q
        rw [hts] at h
        simp at h
        obtain ⟨u2, hu2, hp2⟩ := ih.2 _ _ _ hts
        exact ⟨u1 ++ u2, by rw [← h.2, List.append_assoc, ← hu2]; exact hu1, hp1.append hp2⟩

/-- accepted stoichiometry text is the electron `e` or lies in the token language -/
theorem parseStoich_sound (s : List Char) (c : Comp) (h : parseStoich s = .ok c) : s = ['e'] ∨ Acc s := by
  simp only [parseStoich] at h
  split at h
  · left; assumption
  · right
    cases hb : asFormula (parseTerms (3 * s.length + 3) s) with
    | none => rw [hb] at h; simp at h
    | some p =>
      obtain ⟨c1, r⟩ := p
      rw [hb] at h
      simp only at h
      split at h
      · rename_i hr
        obtain ⟨c', hc'⟩ := asFormula_some hb
        obtain ⟨u, hu, hp⟩ := (parse_sound _).2 _ _ _ hc'
        obtain ⟨w, hw, hall⟩ := skipWs_spec r
        rw [hr, List.append_nil] at hw
        rw [hu, hw]
        exact (hp.append (pre_ws hall)).acc
      · simp at h

end ChemModel.Formula
