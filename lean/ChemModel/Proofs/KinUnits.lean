/-
Helper lemmas for the kinetics-units model (C10), on top of the C09 lemmas.
Generic over a field `α` of characteristic zero (ℚ in the driver, ℝ).
-/
import Mathlib.Tactic.Ring
import Mathlib.Tactic.FieldSimp
import Mathlib.Tactic.Linarith
import Mathlib.Tactic.IntervalCases
import Mathlib.Algebra.Field.Basic
import Mathlib.Algebra.CharZero.Defs
import Mathlib.Tactic.NormNum
import Mathlib.Algebra.Order.Field.Basic
import ChemModel.Model.KinUnits
import ChemModel.Proofs.Units
import ChemModel.Proofs.UnitsHelpers
import ChemModel.Proofs.Kinetics
import Mathlib.Data.List.Perm.Subperm
import Mathlib.Data.List.Range

set_option linter.unusedSectionVars false
set_option linter.unusedSimpArgs false
set_option linter.unusedVariables false

namespace ChemModel.KinUnits
open ChemModel ChemModel.Units

variable {α : Type} [Field α] [DecidableEq α]

/-! ### `regProd` is a homomorphism from exponent vectors to the multiplicative group -/

theorem regProd_add (reg : List (PyVal α)) (hreg : ∀ r ∈ reg, r.si ≠ 0) (a b : Dims) (h : a.length = b.length) :
    regProd reg (a.add b) = regProd reg a * regProd reg b := by
  induction reg generalizing a b with
  | nil => simp [regProd]
  | cons r rs ih =>
    cases a with
    | nil => cases b <;> simp_all [regProd, Dims.add]
    | cons x xs =>
      cases b with
      | nil => simp at h
      | cons y ys =>
        have hr : r.si ≠ 0 := hreg r (by simp)
        have := ih (fun q hq => hreg q (by simp [hq])) xs ys (by simpa using h)
        simp only [Dims.add, List.zipWith_cons_cons, regProd] at this ⊢
        rw [this, zpow_add₀ hr]; ring

theorem regProd_smul (reg : List (PyVal α)) (n : ℤ) (a : Dims) :
    regProd reg (Dims.smul n a) = regProd reg a ^ n := by
  induction reg generalizing a with
  | nil => simp [regProd]
  | cons r rs ih =>
    cases a with
    | nil => simp [regProd, Dims.smul]
    | cons x xs =>
      have := ih xs
      simp only [Dims.smul, List.map_cons, regProd] at this ⊢
      rw [this, mul_zpow, ← zpow_mul, mul_comm n x]

theorem regProd_sub (reg : List (PyVal α)) (hreg : ∀ r ∈ reg, r.si ≠ 0) (a b : Dims) (h : a.length = b.length) :
    regProd reg (a.sub b) = regProd reg a / regProd reg b := by
  induction reg generalizing a b with
  | nil => simp [regProd]
  | cons r rs ih =>
    cases a with
    | nil => cases b <;> simp_all [regProd, Dims.sub]
    | cons x xs =>
      cases b with
      | nil => simp at h
      | cons y ys =>
        have hr : r.si ≠ 0 := hreg r (by simp)
        have := ih (fun q hq => hreg q (by simp [hq])) xs ys (by simpa using h)
        simp only [Dims.sub, List.zipWith_cons_cons, regProd] at this ⊢
        rw [this, zpow_sub₀ hr]; ring

theorem regProd_ne_zero (reg : List (PyVal α)) (hreg : ∀ r ∈ reg, r.si ≠ 0) (a : Dims) : regProd reg a ≠ 0 := by
  induction reg generalizing a with
  | nil => simp [regProd]
  | cons r rs ih =>
    cases a with
    | nil => simp [regProd]
    | cons x xs =>
      simp only [regProd]
      exact mul_ne_zero (zpow_ne_zero _ (hreg r (by simp))) (ih (fun q hq => hreg q (by simp [hq])) xs)

/-- a registry is a list of exactly seven entries -/
theorem reg_destruct (reg : Registry α) (h : reg.length = nDims) :
    ∃ r0 r1 r2 r3 r4 r5 r6, reg = [r0, r1, r2, r3, r4, r5, r6] := by
  match reg, h with
  | [r0, r1, r2, r3, r4, r5, r6], _ => exact ⟨r0, r1, r2, r3, r4, r5, r6, rfl⟩

theorem registryWF_si_ne {reg : Registry α} (hreg : RegistryWF reg) : ∀ r ∈ reg, r.si ≠ 0 := by
  intro r hr
  obtain ⟨i, hi, rfl⟩ := List.getElem_of_mem hr
  exact (hreg.entry i hi).2.2

theorem regProd_basis (reg : Registry α) (hreg : RegistryWF reg) (i : ℕ) (hi : i < reg.length) :
    regProd reg (Dims.basis i) = reg[i].si := by
  obtain ⟨r0, r1, r2, r3, r4, r5, r6, rfl⟩ := reg_destruct reg hreg.len
  simp only [List.length_cons, List.length_nil] at hi
  interval_cases i <;> simp [regProd, Dims.basis, nDims, List.range, List.range.loop]

/-! ### division of Python values -/

theorem Dims.zero_sub_eq_smul {d : Dims} (hd : Dims.WF d) : Dims.zero.sub d = Dims.smul (-1) d := by
  apply Dims.ext_getD (Dims.sub_wf Dims.zero_wf hd) (Dims.smul_wf _ hd)
  intro j hj
  unfold Dims.WF at hd
  have hj' : j < d.length := by omega
  simp [Dims.sub, Dims.zero, Dims.smul, List.getD_eq_getElem?_getD, List.getElem?_zipWith, List.getElem?_replicate, hj,
    List.getElem?_eq_getElem hj']

theorem PyVal.div_si (a b : PyVal α) : (a.div b).si = a.si / b.si := by
  cases a <;> cases b <;>
    simp [PyVal.div, PyVal.si, PyVal.asQuantity, Quantity.si, Quantity.div, Unit.div, Unit.one] <;> field_simp

theorem PyVal.div_dims {a b : PyVal α} (ha : a.WF) (hb : b.WF) : (a.div b).dims = a.dims.sub b.dims := by
  have h1 := PyVal.dims_wf ha
  have h2 := PyVal.dims_wf hb
  cases a <;> cases b <;>
    simp_all [PyVal.div, PyVal.dims, PyVal.asQuantity, Quantity.div, Unit.div, Unit.one]
  · rename_i x y
    exact ((Dims.sub_eq_zero_iff Dims.zero_wf Dims.zero_wf).mpr rfl).symm
  · rename_i p y
    apply Dims.ext_getD h1 (Dims.sub_wf h1 Dims.zero_wf)
    intro j hj
    unfold Dims.WF at h1
    have hj' : j < p.unit.dims.length := by omega
    simp [Dims.sub, Dims.zero, List.getD_eq_getElem?_getD, List.getElem?_zipWith, List.getElem?_replicate, hj,
      List.getElem?_eq_getElem hj']

theorem PyVal.div_wf {a b : PyVal α} (ha : a.WF) (hb : b.WF) : (a.div b).WF := by
  cases a with
  | num x =>
    cases b with
    | num y => simp [PyVal.div, PyVal.WF]
    | qty q =>
      exact ⟨by simpa [Unit.div, Unit.one] using hb.factor_ne, by simpa [Unit.div, Unit.one] using Dims.sub_wf Dims.zero_wf hb.dims⟩
  | qty p =>
    cases b with
    | num y => simpa [PyVal.div, PyVal.WF] using ha
    | qty q =>
      exact ⟨by simpa [Quantity.div, Unit.div] using ⟨ha.factor_ne, hb.factor_ne⟩,
        by simpa [Quantity.div, Unit.div] using Dims.sub_wf ha.dims hb.dims⟩

/-! ### registry keys -/

theorem keyIndex?_length : keyIndex? "length" = some 0 := by decide
theorem keyIndex?_mass : keyIndex? "mass" = some 1 := by decide
theorem keyIndex?_time : keyIndex? "time" = some 2 := by decide
theorem keyIndex?_current : keyIndex? "current" = some 3 := by decide
theorem keyIndex?_temperature : keyIndex? "temperature" = some 4 := by decide
theorem keyIndex?_amount : keyIndex? "amount" = some 6 := by decide

theorem keyIndex?_lt {k : String} {i : ℕ} (h : keyIndex? k = some i) : i < nDims := by
  simp only [keyIndex?] at h
  split at h
  · rename_i hlt
    simp at h; subst h
    have : Gen.Units.registryKeys.length = nDims := by decide
    omega
  · simp at h

/-- the exponent vectors the property speaks about -/
def concDims : Dims := [-3, 0, 0, 0, 0, 0, 1]
def timeDims : Dims := [0, 0, 1, 0, 0, 0, 0]
def temperatureDims : Dims := [0, 0, 0, 0, 1, 0, 0]

theorem concDims_wf : Dims.WF concDims := rfl
theorem timeDims_wf : Dims.WF timeDims := rfl
theorem timeDims_eq_basis : timeDims = Dims.basis 2 := by decide

/-! ### items of an `args_dimensionality` dict -/

/-- every key of the items is a key of `SI_base_registry` -/
def KeysKnown (items : List (String × Int)) : Prop := ∀ p ∈ items, (keyIndex? p.1).isSome = true

theorem len_eq_of_wf {a b : Dims} (ha : Dims.WF a) (hb : Dims.WF b) : a.length = b.length := by
  unfold Dims.WF at ha hb; omega

theorem itemsDims_wf (items : List (String × Int)) : Dims.WF (itemsDims items) := by
  induction items with
  | nil => exact Dims.zero_wf
  | cons p r ih =>
    obtain ⟨k, v⟩ := p
    simp only [itemsDims]
    split
    · exact Dims.add_wf (Dims.smul_wf _ (Dims.basis_wf _)) ih
    · exact ih

theorem dictItems_keysKnown (d : List (String × Int × Int)) (order : ℤ)
    (h : ∀ e ∈ d, (keyIndex? e.1).isSome = true) : KeysKnown (dictItems d order) := by
  intro p hp
  simp only [dictItems, List.mem_map] at hp
  obtain ⟨e, he, rfl⟩ := hp
  exact h e he

theorem regPowersByName_spec (reg : Registry α) (hreg : RegistryWF reg) (items : List (String × Int))
    (hk : KeysKnown items) :
    ∃ us, regPowersByName reg items = .ok us ∧ (∀ u ∈ us, u.WF ∧ u.si ≠ 0) ∧
      (us.map PyVal.si).prod = regProd reg (itemsDims items) ∧
      ∀ j, dimSum us j = (itemsDims items).getD j 0 := by
  induction items with
  | nil =>
    exact ⟨[], rfl, by simp, by simp [itemsDims, regProd_zero], fun j => by
      have := Dims.getD_zero j
      rw [List.getD_eq_getElem?_getD] at this
      simp [dimSum, itemsDims, this]⟩
  | cons p r ih =>
    obtain ⟨k, v⟩ := p
    obtain ⟨us, h1, h2, h3, h4⟩ := ih (fun q hq => hk q (by simp [hq]))
    have hsome := hk (k, v) (by simp)
    obtain ⟨i, hi⟩ := Option.isSome_iff_exists.mp hsome
    have hlt : i < reg.length := by rw [hreg.len]; exact keyIndex?_lt hi
    obtain ⟨hw, hdim, hsi⟩ := hreg.entry i hlt
    refine ⟨reg[i].pow v :: us, ?_, ?_, ?_, ?_⟩
    · simp [regPowersByName, hi, List.getElem?_eq_getElem hlt, h1]
    · intro u hu
      rcases List.mem_cons.mp hu with rfl | hu
      · exact ⟨PyVal.pow_wf hw v, by rw [PyVal.pow_si]; exact zpow_ne_zero v hsi⟩
      · exact h2 u hu
    · simp only [List.map_cons, List.prod_cons, itemsDims, hi, h3, PyVal.pow_si]
      rw [regProd_add reg (registryWF_si_ne hreg) _ _ (len_eq_of_wf (Dims.smul_wf _ (Dims.basis_wf _)) (itemsDims_wf _)),
        regProd_smul, regProd_basis reg hreg i hlt]
    · intro j
      simp only [dimSum, List.map_cons, List.sum_cons, itemsDims, hi] at h4 ⊢
      rw [h4 j, Dims.getD_add (len_eq_of_wf (Dims.smul_wf _ (Dims.basis_wf _)) (itemsDims_wf _)), PyVal.pow_dims, hdim]

theorem regUniqueUnit_spec (reg : Registry α) (hreg : RegistryWF reg) (argDim : List (List (String × Int × Int)))
    (idx : ℕ) (order : ℤ) (d : List (String × Int × Int)) (hd : argDim[idx]? = some d)
    (hk : ∀ e ∈ d, (keyIndex? e.1).isSome = true) :
    ∃ U, regUniqueUnit reg argDim idx order = .ok U ∧ U.WF ∧ U.dims = itemsDims (dictItems d order) ∧
      U.si = regProd reg (itemsDims (dictItems d order)) ∧ U.si ≠ 0 := by
  obtain ⟨us, h1, h2, h3, h4⟩ := regPowersByName_spec reg hreg _ (dictItems_keysKnown d order hk)
  have hone : (PyVal.one : PyVal α).WF := by simp [PyVal.one, PyVal.WF]
  obtain ⟨f1, f2, f3⟩ := foldl_mul_spec us PyVal.one hone (fun u hu => (h2 u hu).1)
  have hsi : (us.foldl PyVal.mul PyVal.one).si = regProd reg (itemsDims (dictItems d order)) := by
    rw [f2]; simp [PyVal.one, h3]
  refine ⟨us.foldl PyVal.mul PyVal.one, by simp [regUniqueUnit, hd, h1], f1, ?_, hsi, ?_⟩
  · apply Dims.ext_getD (PyVal.dims_wf f1) (itemsDims_wf _)
    intro j hj
    rw [f3 j, h4 j]
    have := Dims.getD_zero j
    rw [List.getD_eq_getElem?_getD] at this
    simp [PyVal.one, this]
  · rw [hsi]; exact regProd_ne_zero reg (registryWF_si_ne hreg) _

/-! ### the hard-coded units and `check_consistent_units` -/

theorem rateConstDims_eq (order : ℤ) : rateConstDims order = (Dims.smul (1 - order) concDims).sub timeDims := by
  simp [rateConstDims, Gen.Dims.massAction, dictItems, itemsDims, keyIndex?_time, keyIndex?_amount, keyIndex?_length,
    Dims.smul, Dims.basis, Dims.add, Dims.sub, Dims.zero, concDims, timeDims, nDims, List.range, List.range.loop]
  constructor <;> ring

/-- `default_units.molar` in the model -/
def molarVal : PyVal α := .qty ⟨1, ⟨1000, concDims⟩⟩
/-- `default_units.second` in the model -/
def secondVal : PyVal α := .qty ⟨1, ⟨1, timeDims⟩⟩

theorem molar?_eq : (molar? : Option (PyVal α)) = some molarVal := by
  simp [molar?, ownUnit?, Gen.Units.ownUnits, List.find?, fracOf, Num.frac, Num.ofInt, concDims, molarVal]

theorem second?_eq : (second? : Option (PyVal α)) = some secondVal := by
  simp [second?, keyIndex?_time, siRegistry, Gen.Units.siRegistry, fracOf, Num.frac, Num.ofInt, timeDims, secondVal]

theorem molarVal_wf [CharZero α] : (molarVal : PyVal α).WF :=
  ⟨by simp [molarVal], concDims_wf⟩
theorem secondVal_wf : (secondVal : PyVal α).WF := ⟨by simp [secondVal], timeDims_wf⟩
@[simp] theorem molarVal_si : (molarVal : PyVal α).si = 1000 := by simp [molarVal]
@[simp] theorem secondVal_si : (secondVal : PyVal α).si = 1 := by simp [secondVal]
@[simp] theorem molarVal_dims : (molarVal : PyVal α).dims = concDims := rfl
@[simp] theorem secondVal_dims : (secondVal : PyVal α).dims = timeDims := rfl

theorem dimensionless_dims : (PyVal.qty (Quantity.dimensionless : Quantity α)).dims = Dims.zero := rfl
theorem dimensionless_si : (PyVal.qty (Quantity.dimensionless : Quantity α)).si = 1 := by
  simp [Quantity.dimensionless, Unit.one]

@[simp] theorem discard_ok {β : Type} (x : β) : discard (.ok x : Except Err β) = .ok () := rfl
@[simp] theorem discard_error {β : Type} (e : Err) : discard (.error e : Except Err β) = .error e := rfl

/-- the unit `molar ** (1 - order) / s` chempy divides by -/
theorem rateUnit_spec [CharZero α] (order : ℤ) :
    (((molarVal : PyVal α).pow (1 - order)).div secondVal).WF ∧
    (((molarVal : PyVal α).pow (1 - order)).div secondVal).dims = rateConstDims order ∧
    (((molarVal : PyVal α).pow (1 - order)).div secondVal).si = 1000 ^ (1 - order) := by
  have h1 := PyVal.pow_wf (molarVal_wf (α := α)) (1 - order)
  refine ⟨PyVal.div_wf h1 secondVal_wf, ?_, ?_⟩
  · rw [PyVal.div_dims h1 secondVal_wf, PyVal.pow_dims, rateConstDims_eq]; rfl
  · rw [PyVal.div_si, PyVal.pow_si]; simp

theorem reactionCheck_qty [CharZero α] (q : Quantity α) (hq : q.unit.WF) (order : ℤ) :
    reactionCheck (.qty q) order = if q.unit.dims = rateConstDims order then .ok () else .error .valueError := by
  obtain ⟨hw, hd, _⟩ := rateUnit_spec (α := α) order
  have hqw : (PyVal.qty q).WF := hq
  have hv := PyVal.div_wf hqw hw
  simp only [reactionCheck, molar?_eq, second?_eq]
  rw [toUnitlessScalar_eq _ _ hv dimensionless_wf, PyVal.div_dims hqw hw, hd, dimensionless_dims]
  have hiff : (PyVal.qty q).dims.sub (rateConstDims order) = Dims.zero ↔ (PyVal.qty q).dims = rateConstDims order :=
    Dims.sub_eq_zero_iff hq.dims (hd ▸ PyVal.dims_wf hw)
  show _ = if (PyVal.qty q).dims = rateConstDims order then _ else _
  by_cases h : (PyVal.qty q).dims = rateConstDims order
  · rw [if_pos (hiff.mpr h), if_pos h]; rfl
  · rw [if_neg (mt hiff.mp h), if_neg h]; rfl

theorem equilibriumCheck_qty [CharZero α] (q : Quantity α) (nprod nreac : ℤ) :
    equilibriumCheck (.qty q) nprod nreac =
      if q.unit.dims = Dims.smul (nprod - nreac) concDims ∧ q.unit.factor = 1000 ^ (nprod - nreac)
      then .ok () else .error .valueError := by
  simp only [equilibriumCheck, molar?_eq, molarVal, PyVal.pow, Quantity.pow, Unit.pow, unitOfSimplified, unitsSimplified,
    pyEq, zpow_eq]
  by_cases h : q.unit.dims = Dims.smul (nprod - nreac) concDims ∧ q.unit.factor = 1000 ^ (nprod - nreac)
  · simp [h]
  · simp [h]


/-! ### the units `get_odesys` derives from the registry -/

theorem concUnit_spec (reg : Registry α) (hreg : RegistryWF reg) :
    ∃ C, getDerivedUnit (some reg) "concentration" = .ok C ∧ C.WF ∧ C.dims = concDims ∧
      C.si = regProd reg concDims ∧ C.si ≠ 0 :=
  getDerivedUnit_derived reg hreg "concentration" concDims (by decide)

theorem timeUnit_spec (reg : Registry α) (hreg : RegistryWF reg) :
    ∃ T, getDerivedUnit (some reg) "time" = .ok T ∧ T.WF ∧ T.dims = timeDims ∧
      T.si = regProd reg timeDims ∧ T.si ≠ 0 := by
  obtain ⟨hlt, h1, h2⟩ := getDerivedUnit_base reg hreg "time" 2 (by decide) keyIndex?_time
  obtain ⟨hw, _, hsi⟩ := hreg.entry 2 hlt
  exact ⟨reg[2], h1, hw, by rw [h2, timeDims_eq_basis], by rw [timeDims_eq_basis, regProd_basis reg hreg 2 hlt], hsi⟩

/-- the registry's unit for a rate constant of a reaction of order `n` is `conc_unit^(1-n) / time_unit` -/
theorem regProd_rateConst (reg : Registry α) (hreg : RegistryWF reg) (n : ℤ) :
    regProd reg (rateConstDims n) = regProd reg concDims ^ (1 - n) / regProd reg timeDims := by
  rw [rateConstDims_eq, regProd_sub reg (registryWF_si_ne hreg) _ _ (len_eq_of_wf (Dims.smul_wf _ concDims_wf) timeDims_wf),
    regProd_smul]

theorem dedimArg_spec (reg : Registry α) (hreg : RegistryWF reg) (k : PyVal α) (hk : k.WF) :
    ∃ U, dedimArg reg k = .ok (U, k.si / regProd reg k.dims) ∧ U.WF ∧ U.dims = k.dims ∧ U.si = regProd reg k.dims ∧ U.si ≠ 0 := by
  obtain ⟨U, x, h1, h2, h3, h4, h5, _, _, _, _⟩ := registry_consistent_scalar reg hreg k hk
  have hx : toUnitlessScalar k U = .ok (k.si / U.si) := (toUnitlessScalar_ok_iff hk h2 _).mpr ⟨h3.symm, rfl⟩
  exact ⟨U, by simp [dedimArg, h1, hx, h4], h2, h3, h4, h5⟩

theorem dedimArgs_spec (reg : Registry α) (hreg : RegistryWF reg) (ks : List (PyVal α)) (hk : ∀ k ∈ ks, k.WF) :
    ∃ kus, dedimArgs reg ks = .ok kus ∧ kus.map (·.2) = ks.map (fun k => k.si / regProd reg k.dims) ∧
      List.Forall₂ (fun (k : PyVal α) (ku : PyVal α × α) => ku.1.WF ∧ ku.1.dims = k.dims ∧ ku.1.si = regProd reg k.dims) ks kus := by
  induction ks with
  | nil => exact ⟨[], rfl, rfl, List.Forall₂.nil⟩
  | cons k r ih =>
    obtain ⟨kus, h1, h2, h3⟩ := ih (fun q hq => hk q (by simp [hq]))
    obtain ⟨U, hU, hw, hd, hs, _⟩ := dedimArg_spec reg hreg k (hk k (by simp))
    exact ⟨(U, k.si / regProd reg k.dims) :: kus, by simp [dedimArgs, hU, h1], by simp [h2], List.Forall₂.cons ⟨hw, hd, hs⟩ h3⟩

/-! ### generic helpers -/

theorem prod_div_pow (cs : List (α × ℕ)) (c : α) :
    ((cs.map fun p => (p.1 / c, p.2)).map fun p => p.1 ^ p.2).prod = (cs.map fun p => p.1 ^ p.2).prod / c ^ (cs.map (·.2)).sum := by
  induction cs with
  | nil => simp
  | cons a r ih =>
    simp only [List.map_cons, List.prod_cons, List.sum_cons, ih, div_pow, pow_add]
    rw [div_mul_div_comm]

/-- `C^(1-n)/T · C^n = C/T`: the registry's rate-constant unit times `conc_unit^order` is `conc_unit/time_unit` -/
theorem unit_algebra (C T : α) (hC : C ≠ 0) (n : ℕ) :
    (C ^ (1 - (n : ℤ)) / T * C ^ n)⁻¹ = T / C := by
  have : C ^ (1 - (n : ℤ)) * C ^ n = C := by
    rw [← zpow_natCast C n, ← zpow_add₀ hC]; simp
  rw [div_mul_eq_mul_div, this, inv_div]


/-! ### the shared kinetics model is homogeneous -/

/-- multiply every value of a rate dictionary by `c` -/
def scaleV (c : α) (d : List (ℕ × α)) : List (ℕ × α) := d.map fun p => (p.1, p.2 * c)

theorem dset_scaleV (c : α) (d : List (ℕ × α)) (k : ℕ) (v : α) :
    Kinetics.dset (scaleV c d) k (v * c) = scaleV c (Kinetics.dset d k v) := by
  induction d with
  | nil => rfl
  | cons p t ih =>
    obtain ⟨k', v'⟩ := p
    by_cases h : k' = k
    · simp [scaleV, Kinetics.dset, h]
    · simp only [scaleV, List.map_cons, Kinetics.dset, h, if_false] at ih ⊢
      rw [ih]

theorem dacc_scaleV (c : α) (d : List (ℕ × α)) (k : ℕ) (v : α) :
    Kinetics.dacc (scaleV c d) k (v * c) = scaleV c (Kinetics.dacc d k v) := by
  induction d with
  | nil => rfl
  | cons p t ih =>
    obtain ⟨k', v'⟩ := p
    by_cases h : k' = k
    · simp [scaleV, Kinetics.dacc, h, add_mul]
    · simp only [scaleV, List.map_cons, Kinetics.dacc, h, if_false] at ih ⊢
      rw [ih]

theorem dictOf_scaleV (c : α) (pairs : List (ℕ × α)) :
    Kinetics.dictOf (pairs.map fun p => (p.1, p.2 * c)) = scaleV c (Kinetics.dictOf pairs) := by
  have : ∀ d : List (ℕ × α),
      (pairs.map fun p => (p.1, p.2 * c)).foldl (fun d p => Kinetics.dset d p.1 p.2) (scaleV c d) =
        scaleV c (pairs.foldl (fun d p => Kinetics.dset d p.1 p.2) d) := by
    induction pairs with
    | nil => intro d; rfl
    | cons p t ih => intro d; simp only [List.map_cons, List.foldl_cons, dset_scaleV, ih]
  exact this []

theorem accumulate_scaleV (c : α) (res items : List (ℕ × α)) :
    Kinetics.accumulate (scaleV c res) (scaleV c items) = scaleV c (Kinetics.accumulate res items) := by
  unfold Kinetics.accumulate
  induction items generalizing res with
  | nil => rfl
  | cons p t ih =>
    simp only [scaleV, List.map_cons, List.foldl_cons] at ih ⊢
    have := dacc_scaleV c res p.1 p.2
    simp only [scaleV] at this
    rw [this, ih]

theorem dget?_scaleV (c : α) (d : List (ℕ × α)) (s : ℕ) :
    Kinetics.dget? (scaleV c d) s = (Kinetics.dget? d s).map (· * c) := by
  induction d with
  | nil => rfl
  | cons p t ih =>
    obtain ⟨k, v⟩ := p
    by_cases h : k = s
    · simp [scaleV, Kinetics.dget?, h]
    · simp only [scaleV, List.map_cons, Kinetics.dget?, h, if_false] at ih ⊢
      exact ih

theorem readAll_scaleV (c : α) (d : List (ℕ × α)) (names : List ℕ) :
    readAll (scaleV c d) names = (readAll d names).map (List.map (· * c)) := by
  induction names with
  | nil => rfl
  | cons s t ih =>
    simp only [readAll, dget?_scaleV, ih]
    cases Kinetics.dget? d s with
    | none => rfl
    | some e => cases readAll d t <;> rfl

/-- two reactions with the same dictionaries whose mass-action rates differ by the factor `c` -/
theorem rxnRate_scale (vars vars' : ℕ → α) (r r' : Kinetics.Reaction ℕ α) (c : α)
    (h1 : r'.reac = r.reac) (h2 : r'.prod = r.prod) (h3 : r'.inactReac = r.inactReac) (h4 : r'.inactProd = r.inactProd)
    (hm : Kinetics.massAction vars' r' = Kinetics.massAction vars r * c) :
    Kinetics.rxnRate vars' r' (Kinetics.keysFor none r') = scaleV c (Kinetics.rxnRate vars r (Kinetics.keysFor none r)) := by
  have hk : Kinetics.keysFor none r' = Kinetics.keysFor none r := by simp [Kinetics.keysFor, Kinetics.rxnKeys, h1, h2, h3, h4]
  have hn : ∀ k, Kinetics.netStoich r' k = Kinetics.netStoich r k := by intro k; simp [Kinetics.netStoich, h1, h2, h3, h4]
  rw [hk]
  unfold Kinetics.rxnRate
  rw [← dictOf_scaleV, List.map_map]
  congr 1
  apply List.map_congr_left
  intro k _
  simp only [Function.comp, hm, hn]
  congr 1; ring

theorem sysRates_scale (vars vars' : ℕ → α) (rs rs' : List (Kinetics.Reaction ℕ α)) (c : α)
    (h : List.Forall₂ (fun (r' r : Kinetics.Reaction ℕ α) => r'.reac = r.reac ∧ r'.prod = r.prod ∧ r'.inactReac = r.inactReac ∧
      r'.inactProd = r.inactProd ∧ Kinetics.massAction vars' r' = Kinetics.massAction vars r * c) rs' rs) :
    Kinetics.sysRates vars' rs' none none = scaleV c (Kinetics.sysRates vars rs none none) := by
  simp only [Kinetics.sysRates, Kinetics.sysRatesNoFeed]
  have : ∀ d : List (ℕ × α),
      rs'.foldl (fun result r => Kinetics.accumulate result (Kinetics.rxnRate vars' r (Kinetics.keysFor none r))) (scaleV c d) =
      scaleV c (rs.foldl (fun result r => Kinetics.accumulate result (Kinetics.rxnRate vars r (Kinetics.keysFor none r))) d) := by
    induction h with
    | nil => intro d; rfl
    | cons hr _ ih =>
      intro d
      obtain ⟨h1, h2, h3, h4, hm⟩ := hr
      simp only [List.foldl_cons, rxnRate_scale vars vars' _ _ c h1 h2 h3 h4 hm, accumulate_scaleV, ih]
  exact this []

theorem scaleV_length (c : α) (d : List (ℕ × α)) : (scaleV c d).length = d.length := by simp [scaleV]


theorem getD_map_div (y : List α) (C : α) (i : ℕ) : (y.map (· / C)).getD i 0 = y.getD i 0 / C := by
  simp only [List.getD_eq_getElem?_getD, List.getElem?_map]
  cases y[i]? <;> simp

theorem prod_div_pow' (f : ℕ → α) (reac : List (ℕ × ℕ)) (c : α) :
    (reac.map fun p => (f p.1 / c) ^ p.2).prod = (reac.map fun p => f p.1 ^ p.2).prod / c ^ (reac.map (·.2)).sum := by
  induction reac with
  | nil => simp
  | cons a r ih =>
    simp only [List.map_cons, List.prod_cons, List.sum_cons, pow_add]
    rw [ih, div_pow, div_mul_div_comm]

/-- one reaction: the unitless mass-action rate in registry units is the SI rate times `time_unit / conc_unit` -/
theorem massAction_scale (reg : Registry α) (hreg : RegistryWF reg) (k : PyVal α) (r : Rxn)
    (hk : k.dims = rateConstDims r.order) (y : List α) :
    Kinetics.massAction (fun i => (y.map (· / regProd reg concDims)).getD i 0) (r.toKin (k.si / regProd reg k.dims)) =
      Kinetics.massAction (fun i => y.getD i 0) (r.toKin k.si) * (regProd reg timeDims / regProd reg concDims) := by
  have hC := regProd_ne_zero reg (registryWF_si_ne hreg) concDims
  simp only [Kinetics.massAction, Kinetics.activeConcProd_eq, Kinetics.concProd, Rxn.toKin, getD_map_div]
  rw [prod_div_pow' (fun i => y.getD i 0) r.reac, hk, regProd_rateConst reg hreg, Rxn.order, div_mul_div_comm, div_eq_mul_inv, unit_algebra _ _ hC]


theorem toKin_forall₂ (reg : Registry α) (hreg : RegistryWF reg) (ks : List (PyVal α)) (rxns : List Rxn)
    (hkr : List.Forall₂ (fun k r => k.dims = rateConstDims r.order) ks rxns) (y : List α) :
    List.Forall₂ (fun (r' r : Kinetics.Reaction ℕ α) => r'.reac = r.reac ∧ r'.prod = r.prod ∧ r'.inactReac = r.inactReac ∧
      r'.inactProd = r.inactProd ∧
      Kinetics.massAction (fun i => (y.map (· / regProd reg concDims)).getD i 0) r' =
        Kinetics.massAction (fun i => y.getD i 0) r * (regProd reg timeDims / regProd reg concDims))
      (((ks.map fun k => k.si / regProd reg k.dims).zip rxns).map fun kr => kr.2.toKin kr.1)
      (((ks.map PyVal.si).zip rxns).map fun kr => kr.2.toKin kr.1) := by
  induction hkr with
  | nil => exact List.Forall₂.nil
  | @cons k r _ _ hk _ ih =>
    simp only [List.map_cons, List.zip_cons_cons]
    exact List.Forall₂.cons ⟨rfl, rfl, rfl, rfl, massAction_scale reg hreg k r hk y⟩ ih

/-- the plain right-hand side (shared kinetics model + pyodesys' expression count) is homogeneous: registry units in,
    SI result times `time_unit / conc_unit` out; errors (KeyError, the spectator ValueError) coincide -/
theorem plainRhs_scale (reg : Registry α) (hreg : RegistryWF reg) (ks : List (PyVal α)) (rxns : List Rxn)
    (hkr : List.Forall₂ (fun k r => k.dims = rateConstDims r.order) ks rxns) (y : List α) (ns : ℕ) :
    plainRhs (ks.map fun k => k.si / regProd reg k.dims) rxns (y.map (· / regProd reg concDims)) ns =
      (plainRhs (ks.map PyVal.si) rxns y ns).map (List.map (· * (regProd reg timeDims / regProd reg concDims))) := by
  have hs := sysRates_scale (fun i => y.getD i 0) (fun i => (y.map (· / regProd reg concDims)).getD i 0) _ _ _
    (toKin_forall₂ reg hreg ks rxns hkr y)
  have hg : ((ks.map fun k => k.si / regProd reg k.dims).zip rxns).any
        (fun kr => kr.2.reac.any fun p => decide ((y.map (· / regProd reg concDims)).length ≤ p.1)) =
      ((ks.map PyVal.si).zip rxns).any (fun kr => kr.2.reac.any fun p => decide (y.length ≤ p.1)) := by
    simp only [List.zip_map_left, List.any_map, List.length_map]
    congr 1
  simp only [plainRhs, Nat.cast_zero] at hs ⊢
  rw [hg, hs, scaleV_length, readAll_scaleV]
  split_ifs
  · rfl
  · rfl
  · cases readAll _ (List.range ns) <;> rfl

theorem mkOdeUnits_plain (reg : Registry α) (hreg : RegistryWF reg) :
    ∃ C T, mkOdeUnits reg [] true [] = .ok ⟨[], T, C⟩ ∧
      (getDerivedUnit (some reg) "concentration" = .ok C ∧ C.WF ∧ C.dims = concDims ∧ C.si = regProd reg concDims ∧ C.si ≠ 0) ∧
      (getDerivedUnit (some reg) "time" = .ok T ∧ T.WF ∧ T.dims = timeDims ∧ T.si = regProd reg timeDims ∧ T.si ≠ 0) := by
  obtain ⟨C, hC⟩ := concUnit_spec reg hreg
  obtain ⟨T, hT⟩ := timeUnit_spec reg hreg
  exact ⟨C, T, by simp [mkOdeUnits, mapExcept, hC.1, hT.1], hC, hT⟩

/-- the unit-aware right-hand side (constants included in the system) is the plain right-hand side on SI values,
    expressed in `conc_unit / time_unit` of the registry -/
theorem odeRhs_spec (reg : Registry α) (hreg : RegistryWF reg) (ks : List (PyVal α)) (rxns : List Rxn)
    (y : List (PyVal α)) (ns : ℕ)
    (hk : List.Forall₂ (fun k r => k.WF ∧ k.dims = rateConstDims r.order) ks rxns)
    (hy : ∀ c ∈ y, c.WF ∧ c.dims = concDims) :
    odeRhs reg ks rxns y ns =
      (plainRhs (ks.map PyVal.si) rxns (y.map PyVal.si) ns).map
        (List.map (· * (regProd reg timeDims / regProd reg concDims))) := by
  obtain ⟨C, T, hou, ⟨_, hCw, hCd, hCs, _⟩, _⟩ := mkOdeUnits_plain reg hreg
  have hkw : ∀ k ∈ ks, k.WF := fun k hk' => by
    obtain ⟨r, hr⟩ := forall₂_mem_left hk hk'
    exact hr.1
  obtain ⟨kus, hd, hvals, _⟩ := dedimArgs_spec reg hreg ks hkw
  have hys : toUnitlessFlat y C = .ok (y.map fun a => a.si / C.si) :=
    (toUnitlessFlat_spec y C (fun a ha => (hy a ha).1) hCw).1 (fun a ha => by rw [(hy a ha).2, hCd])
  have hmap : (y.map fun a => a.si / C.si) = (y.map PyVal.si).map (· / regProd reg concDims) := by
    simp [List.map_map, hCs]
  simp only [odeRhs, hou, hd, toArraysY, hys, hvals, hmap]
  exact plainRhs_scale reg hreg ks rxns (hk.imp fun _ _ h => h.2) _ ns


/-! ### named parameters: `p_units` from `args_dimensionality` -/

theorem massAction_head : Gen.Dims.massAction[0]? = some (Gen.Dims.massAction.headD []) := by decide
theorem massAction_keys : ∀ e ∈ Gen.Dims.massAction.headD [], (keyIndex? e.1).isSome = true := by decide

theorem massActionUnit_spec (reg : Registry α) (hreg : RegistryWF reg) (order : ℤ) :
    ∃ U, regUniqueUnit reg Gen.Dims.massAction 0 order = .ok U ∧ U.WF ∧ U.dims = rateConstDims order ∧
      U.si = regProd reg (rateConstDims order) ∧ U.si ≠ 0 :=
  regUniqueUnit_spec reg hreg Gen.Dims.massAction 0 order _ massAction_head massAction_keys

theorem uniqueUnits_spec (reg : Registry α) (hreg : RegistryWF reg) (rxns : List Rxn) :
    ∃ us, mapExcept (fun s : UniqueSpec => regUniqueUnit reg s.1 s.2.1 s.2.2)
        (rxns.map fun r => (Gen.Dims.massAction, 0, r.order)) = .ok us ∧
      List.Forall₂ (fun (r : Rxn) (U : PyVal α) => U.WF ∧ U.dims = rateConstDims r.order ∧
        U.si = regProd reg (rateConstDims r.order) ∧ U.si ≠ 0) rxns us := by
  induction rxns with
  | nil => exact ⟨[], rfl, List.Forall₂.nil⟩
  | cons r rest ih =>
    obtain ⟨us, h1, h2⟩ := ih
    obtain ⟨U, hU, hspec⟩ := massActionUnit_spec reg hreg r.order
    exact ⟨U :: us, by simp [mapExcept, hU, h1], List.Forall₂.cons hspec h2⟩

theorem zipToUnitless_spec (p us : List (PyVal α))
    (h : List.Forall₂ (fun k U => k.WF ∧ U.WF ∧ k.dims = U.dims) p us) :
    zipToUnitless p us = .ok (List.zipWith (fun k U => k.si / U.si) p us) := by
  induction h with
  | nil => rfl
  | cons hkU _ ih =>
    obtain ⟨hk, hU, hd⟩ := hkU
    simp [zipToUnitless, (toUnitlessScalar_ok_iff hk hU _).mpr ⟨hd, rfl⟩, ih]

/-- a constant of the wrong dimension is refused by the third `to_arrays` callback -/
theorem zipToUnitless_refuses (p us : List (PyVal α)) (hlen : p.length = us.length)
    (hw : ∀ k ∈ p, k.WF) (hu : ∀ U ∈ us, U.WF)
    (hbad : ∃ i, ∃ (h1 : i < p.length) (h2 : i < us.length), p[i].dims ≠ us[i].dims) :
    zipToUnitless p us = .error .valueError := by
  induction p generalizing us with
  | nil => obtain ⟨i, h1, _⟩ := hbad; simp at h1
  | cons k r ih =>
    cases us with
    | nil => simp at hlen
    | cons U rest =>
      have hk := hw k (by simp)
      have hU := hu U (by simp)
      rw [zipToUnitless, toUnitlessScalar_eq k U hk hU]
      by_cases hd : k.dims = U.dims
      · obtain ⟨i, h1, h2, hne⟩ := hbad
        cases i with
        | zero => exact absurd hd (by simpa using hne)
        | succ j =>
          have := ih rest (by simpa using hlen) (fun q hq => hw q (by simp [hq])) (fun q hq => hu q (by simp [hq]))
            ⟨j, by simpa using h1, by simpa using h2, by simpa using hne⟩
          simp [hd, this]
      · simp [hd]

theorem zipWith_div_eq (reg : Registry α) (p us : List (PyVal α))
    (h : List.Forall₂ (fun (k U : PyVal α) => U.si = regProd reg k.dims) p us) :
    List.zipWith (fun k U => k.si / U.si) p us = p.map fun k => k.si / regProd reg k.dims := by
  induction h with
  | nil => rfl
  | cons h _ ih => simp [h, ih]

theorem odeRhsNamed_spec (reg : Registry α) (hreg : RegistryWF reg) (p : List (PyVal α)) (rxns : List Rxn)
    (y : List (PyVal α)) (ns : ℕ)
    (hk : List.Forall₂ (fun k r => k.WF ∧ k.dims = rateConstDims r.order) p rxns)
    (hy : ∀ c ∈ y, c.WF ∧ c.dims = concDims) :
    odeRhsNamed reg p rxns y ns =
      (plainRhs (p.map PyVal.si) rxns (y.map PyVal.si) ns).map
        (List.map (· * (regProd reg timeDims / regProd reg concDims))) := by
  obtain ⟨C, hC, hCw, hCd, hCs, _⟩ := concUnit_spec reg hreg
  obtain ⟨T, hT, _⟩ := timeUnit_spec reg hreg
  obtain ⟨us, hus, hspec⟩ := uniqueUnits_spec reg hreg rxns
  have hou : mkOdeUnits reg [] false (rxns.map fun r => (Gen.Dims.massAction, 0, r.order)) = .ok ⟨us, T, C⟩ := by
    simp [mkOdeUnits, hus, mapExcept, hC, hT]
  have hys : toUnitlessFlat y C = .ok (y.map fun a => a.si / C.si) :=
    (toUnitlessFlat_spec y C (fun a ha => (hy a ha).1) hCw).1 (fun a ha => by rw [(hy a ha).2, hCd])
  have hmap : (y.map fun a => a.si / C.si) = (y.map PyVal.si).map (· / regProd reg concDims) := by
    simp [List.map_map, hCs]
  -- the conversion of the constants
  have hpu : List.Forall₂ (fun (k U : PyVal α) => (k.WF ∧ U.WF ∧ k.dims = U.dims) ∧ U.si = regProd reg k.dims) p us := by
    clear hou hus
    induction hk generalizing us with
    | nil => cases hspec; exact List.Forall₂.nil
    | cons hkr _ ih =>
      cases hspec with
      | cons hU hrest =>
        exact List.Forall₂.cons ⟨⟨hkr.1, hU.1, by rw [hkr.2, hU.2.1]⟩, by rw [hkr.2]; exact hU.2.2.1⟩ (ih _ hrest)
  have hks : zipToUnitless p us = .ok (p.map fun k => k.si / regProd reg k.dims) := by
    rw [zipToUnitless_spec p us (hpu.imp fun _ _ h => h.1), zipWith_div_eq reg p us (hpu.imp fun _ _ h => h.2)]
  simp only [odeRhsNamed, hou, toArraysY, toArraysP, hys, hks, hmap]
  exact plainRhs_scale reg hreg p rxns (hk.imp fun _ _ h => h.2) _ ns


/-! ### `to_arrays` followed by the post-processor -/

theorem flat_roundtrip (l : List (PyVal α)) (u : PyVal α) (hu : u.WF) (hu0 : u.si ≠ 0)
    (hl : ∀ a ∈ l, a.WF ∧ a.dims = u.dims) :
    ∃ xs, toUnitlessFlat l u = .ok xs ∧ xs = l.map (fun a => a.si / u.si) ∧
      (xs.map (timesUnit · u)).map PyVal.si = l.map PyVal.si ∧
      (∀ e ∈ xs.map (timesUnit · u), e.dims = u.dims ∧ e.WF) := by
  refine ⟨_, (toUnitlessFlat_spec l u (fun a ha => (hl a ha).1) hu).1 (fun a ha => (hl a ha).2), rfl,
    map_timesUnit_si l u hu0, ?_⟩
  intro e he
  simp only [List.mem_map] at he
  obtain ⟨x, _, rfl⟩ := he
  exact ⟨timesUnit_dims x u, timesUnit_wf x hu⟩

theorem zip_roundtrip (p us : List (PyVal α))
    (h : List.Forall₂ (fun k U => k.WF ∧ U.WF ∧ k.dims = U.dims ∧ U.si ≠ 0) p us) :
    ∃ xs, zipToUnitless p us = .ok xs ∧
      List.Forall₂ (fun (k e : PyVal α) => e.si = k.si ∧ e.dims = k.dims) p ((xs.zip us).map fun ep => timesUnit ep.1 ep.2) := by
  induction h with
  | nil => exact ⟨[], rfl, List.Forall₂.nil⟩
  | @cons k U _ _ hkU _ ih =>
    obtain ⟨hk, hU, hd, h0⟩ := hkU
    obtain ⟨xs, h1, h2⟩ := ih
    refine ⟨k.si / U.si :: xs, by simp [zipToUnitless, (toUnitlessScalar_ok_iff hk hU _).mpr ⟨hd, rfl⟩, h1], ?_⟩
    simp only [List.zip_cons_cons, List.map_cons]
    refine List.Forall₂.cons ⟨?_, ?_⟩ h2
    · rw [timesUnit_si]; field_simp
    · rw [timesUnit_dims, hd]

/-- `rescale(v, u)` onto an output unit of the same dimension: same physical value, now carried in unit `u` -/
theorem rescale_spec (q t : Quantity α) (ht1 : t.mag = 1) (ht : t.unit.WF) (hd : q.unit.dims = t.unit.dims) :
    ∃ w, rescale (.qty q) (.qty t) = .ok (.qty w) ∧ w.unit = t.unit ∧ (PyVal.qty w).si = (PyVal.qty q).si := by
  refine ⟨⟨q.mag * (q.unit.factor / t.unit.factor), t.unit⟩, by simp [rescale, quantitiesRescale, ht1, hd, Except.map], rfl, ?_⟩
  have := ht.factor_ne
  simp only [PyVal.si_qty]; field_simp

theorem rescale_refuses (q t : Quantity α) (hd : q.unit.dims ≠ t.unit.dims) :
    rescale (.qty q) (.qty t) = .error .valueError := by
  simp only [rescale, quantitiesRescale]
  split_ifs <;> simp_all [Except.map]

theorem rescaleOpt_spec (t : Quantity α) (ht1 : t.mag = 1) (ht : t.unit.WF) (vs : List (PyVal α))
    (hv : ∀ v ∈ vs, ∃ q, v = .qty q ∧ q.unit.dims = t.unit.dims) :
    ∃ ws, rescaleOpt (some (.qty t)) vs = .ok ws ∧ ws.map PyVal.si = vs.map PyVal.si ∧
      ∀ w ∈ ws, ∃ q, w = .qty q ∧ q.unit = t.unit := by
  induction vs with
  | nil => exact ⟨[], rfl, rfl, by simp⟩
  | cons v r ih =>
    obtain ⟨ws, h1, h2, h3⟩ := ih (fun w hw => hv w (by simp [hw]))
    obtain ⟨q, rfl, hd⟩ := hv v (by simp)
    obtain ⟨w, hw1, hw2, hw3⟩ := rescale_spec q t ht1 ht hd
    simp only [rescaleOpt] at h1 ⊢
    refine ⟨.qty w :: ws, by simp [mapExcept, hw1, h1], by simp [hw3, h2], ?_⟩
    intro x hx
    rcases List.mem_cons.mp hx with rfl | hx
    · exact ⟨w, rfl, hw2⟩
    · exact h3 x hx


/-! ### the unit test of `_validate` -/

theorem Dims.getD_sub {a b : Dims} (h : a.length = b.length) (j : ℕ) :
    (a.sub b).getD j 0 = a.getD j 0 - b.getD j 0 := by
  simp only [Dims.sub, List.getD_eq_getElem?_getD, List.getElem?_zipWith]
  by_cases hj : j < a.length
  · have hj' : j < b.length := by omega
    simp [List.getElem?_eq_getElem hj, List.getElem?_eq_getElem hj']
  · have hj' : ¬ j < b.length := by omega
    simp [List.getElem?_eq_none (Nat.le_of_not_lt hj), List.getElem?_eq_none (Nat.le_of_not_lt hj')]

/-- `k · conc^n` is a concentration per time iff `k` is `conc^(1-n)/time` -/
theorem dims_balance {k : Dims} (hk : Dims.WF k) (n : ℤ) :
    k.add (Dims.smul n concDims) = concDims.sub timeDims ↔ k = rateConstDims n := by
  rw [rateConstDims_eq]
  have l1 := len_eq_of_wf hk (Dims.smul_wf n concDims_wf)
  have l2 := len_eq_of_wf concDims_wf timeDims_wf
  have l3 := len_eq_of_wf (Dims.smul_wf (1 - n) concDims_wf) timeDims_wf
  constructor
  · intro h
    apply Dims.ext_getD hk (Dims.sub_wf (Dims.smul_wf _ concDims_wf) timeDims_wf)
    intro j _
    have := congrArg (fun d => List.getD d j 0) h
    simp only [Dims.getD_add l1, Dims.getD_sub l2, Dims.getD_smul] at this
    rw [Dims.getD_sub l3, Dims.getD_smul]
    linarith
  · intro h
    apply Dims.ext_getD (Dims.add_wf hk (Dims.smul_wf _ concDims_wf)) (Dims.sub_wf concDims_wf timeDims_wf)
    intro j _
    have := congrArg (fun d => List.getD d j 0) h
    simp only [Dims.getD_sub l3, Dims.getD_smul] at this
    rw [Dims.getD_add l1, Dims.getD_sub l2, Dims.getD_smul, this]
    ring

theorem activeConcProdPy_spec (cs : List (PyVal α × ℕ)) (hcs : ∀ c ∈ cs, c.1.WF ∧ c.1.dims = concDims) :
    (activeConcProdPy cs).WF ∧ (activeConcProdPy cs).si = (cs.map fun c => c.1.si ^ c.2).prod ∧
    (activeConcProdPy cs).dims = Dims.smul (((cs.map (·.2)).sum : ℕ) : ℤ) concDims := by
  have hfold : activeConcProdPy cs = (cs.map fun cv => cv.1.pow (cv.2 : ℤ)).foldl PyVal.mul PyVal.one := by
    simp [activeConcProdPy, List.foldl_map]
  have hone : (PyVal.one : PyVal α).WF := by simp [PyVal.one, PyVal.WF]
  obtain ⟨f1, f2, f3⟩ := foldl_mul_spec (cs.map fun cv => cv.1.pow (cv.2 : ℤ)) PyVal.one hone (by
    intro u hu
    obtain ⟨c, hc, rfl⟩ := List.mem_map.mp hu
    exact PyVal.pow_wf (hcs c hc).1 _)
  rw [hfold]
  refine ⟨f1, ?_, ?_⟩
  · rw [f2, List.map_map]
    have : (PyVal.si ∘ fun cv : PyVal α × ℕ => cv.1.pow (cv.2 : ℤ)) = fun c => c.1.si ^ c.2 := by
      funext c; simp [PyVal.pow_si]
    rw [this]; simp [PyVal.one]
  · apply Dims.ext_getD (PyVal.dims_wf f1) (Dims.smul_wf _ concDims_wf)
    intro j _
    rw [f3 j, Dims.getD_smul]
    have h0 := Dims.getD_zero j
    rw [List.getD_eq_getElem?_getD] at h0
    have hsum : dimSum (cs.map fun cv => cv.1.pow (cv.2 : ℤ)) j = (((cs.map (·.2)).sum : ℕ) : ℤ) * concDims.getD j 0 := by
      clear f1 f2 f3 hfold
      induction cs with
      | nil => simp [dimSum]
      | cons c r ih =>
        have := ih (fun q hq => hcs q (by simp [hq]))
        simp only [dimSum, List.map_cons, List.sum_cons] at this ⊢
        rw [this, PyVal.pow_dims, Dims.getD_smul, (hcs c (by simp)).2]
        push_cast; ring
    simp [PyVal.one, h0, hsum]

theorem validateTerm_spec [CharZero α] (k : PyVal α) (hk : k.WF) (cs : List (PyVal α × ℕ))
    (hcs : ∀ c ∈ cs, c.1.WF ∧ c.1.dims = concDims) :
    validateTerm k cs = if k.dims = rateConstDims (((cs.map (·.2)).sum : ℕ) : ℤ) then .ok () else .error .valueError := by
  obtain ⟨pw, _, pd⟩ := activeConcProdPy_spec cs hcs
  have hrw : (massActionRatePy k cs).WF := PyVal.mul_wf hk pw
  have hrd : (massActionRatePy k cs).dims = k.dims.add (Dims.smul (((cs.map (·.2)).sum : ℕ) : ℤ) concDims) := by
    rw [massActionRatePy, PyVal.mul_dims hk pw, pd]
  have huw : ((molarVal : PyVal α).div secondVal).WF := PyVal.div_wf molarVal_wf secondVal_wf
  have hud : ((molarVal : PyVal α).div secondVal).dims = concDims.sub timeDims := by
    rw [PyVal.div_dims molarVal_wf secondVal_wf]; rfl
  simp only [validateTerm, molar?_eq, second?_eq]
  rw [toUnitlessScalar_eq _ _ hrw huw, hrd, hud]
  have hiff := dims_balance (PyVal.dims_wf hk) (((cs.map (·.2)).sum : ℕ) : ℤ)
  by_cases h : k.dims = rateConstDims (((cs.map (·.2)).sum : ℕ) : ℤ)
  · rw [if_pos (hiff.mpr h), if_pos h]; rfl
  · rw [if_neg (mt hiff.mp h), if_neg h]; rfl


/-! ### when does the right-hand side exist: pyodesys' expression count -/

theorem nodup_dkeys_dacc {d : List (ℕ × α)} (h : (Kinetics.dkeys d).Nodup) (k : ℕ) (v : α) :
    (Kinetics.dkeys (Kinetics.dacc d k v)).Nodup := by
  induction d with
  | nil => simp [Kinetics.dacc, Kinetics.dkeys]
  | cons p t ih =>
    obtain ⟨k', v'⟩ := p
    unfold Kinetics.dacc
    by_cases hk : k' = k
    · simpa [hk, Kinetics.dkeys] using h
    · simp only [hk, if_false]
      simp only [Kinetics.dkeys, List.map_cons, List.nodup_cons] at h ⊢
      refine ⟨?_, ih h.2⟩
      intro hm
      have := (Kinetics.mem_dkeys_dacc (d := t) (k := k) (v := v) (s := k')).mp hm
      rcases this with h1 | h1
      · exact h.1 h1
      · exact hk h1

theorem nodup_dkeys_accumulate (res items : List (ℕ × α)) (h : (Kinetics.dkeys res).Nodup) :
    (Kinetics.dkeys (Kinetics.accumulate res items)).Nodup := by
  unfold Kinetics.accumulate
  induction items generalizing res with
  | nil => exact h
  | cons p t ih => exact ih _ (nodup_dkeys_dacc h p.1 p.2)

theorem nodup_dkeys_sysRates (vars : ℕ → α) (rs : List (Kinetics.Reaction ℕ α)) :
    (Kinetics.dkeys (Kinetics.sysRates vars rs none none)).Nodup := by
  simp only [Kinetics.sysRates, Kinetics.sysRatesNoFeed]
  have : ∀ d : List (ℕ × α), (Kinetics.dkeys d).Nodup →
      (Kinetics.dkeys (rs.foldl (fun result r => Kinetics.accumulate result (Kinetics.rxnRate vars r (Kinetics.keysFor none r))) d)).Nodup := by
    induction rs with
    | nil => intro d h; exact h
    | cons r t ih => intro d h; exact ih _ (nodup_dkeys_accumulate _ _ h)
  exact this [] (by simp [Kinetics.dkeys])

/-- substance `s` occurs (as reactant or product) in one of the reactions that reach the rate dictionary -/
def Mentioned (ks : List α) (rxns : List Rxn) (s : ℕ) : Prop :=
  ∃ kr ∈ ks.zip rxns, s ∈ kr.2.reac.map (·.1) ∨ s ∈ kr.2.prod.map (·.1) ∨ s ∈ kr.2.inactReac.map (·.1) ∨ s ∈ kr.2.inactProd.map (·.1)

theorem mem_dkeys_rates (ks : List α) (rxns : List Rxn) (vars : ℕ → α) (s : ℕ) :
    s ∈ Kinetics.dkeys (Kinetics.sysRates vars ((ks.zip rxns).map fun kr => kr.2.toKin kr.1) none none) ↔
      Mentioned ks rxns s := by
  simp only [Kinetics.sysRates, Kinetics.mem_dkeys_sysRatesNoFeed, Kinetics.keysFor, Kinetics.mem_rxnKeys, List.mem_map,
    Mentioned]
  constructor
  · rintro ⟨r, ⟨kr, hkr, rfl⟩, h⟩
    refine ⟨kr, hkr, ?_⟩
    simpa [Rxn.toKin, Kinetics.dkeys] using h
  · rintro ⟨kr, hkr, h⟩
    refine ⟨_, ⟨kr, hkr, rfl⟩, ?_⟩
    simpa [Rxn.toKin, Kinetics.dkeys] using h

theorem readAll_ok (d : List (ℕ × α)) (names : List ℕ) (h : ∀ s ∈ names, s ∈ Kinetics.dkeys d) :
    ∃ l, readAll d names = some l ∧ l.length = names.length := by
  induction names with
  | nil => exact ⟨[], rfl, rfl⟩
  | cons s t ih =>
    obtain ⟨l, hl, hlen⟩ := ih (fun x hx => h x (by simp [hx]))
    have hs : Kinetics.dget? d s ≠ none := fun hn => (Kinetics.dget?_eq_none_iff.mp hn) (h s (by simp))
    obtain ⟨e, he⟩ := Option.ne_none_iff_exists'.mp hs
    exact ⟨e :: l, by simp [readAll, he, hl], by simp [hlen]⟩

/-- **success characterisation**: the state has one entry per substance, every index is a substance, every substance
    takes part in some reaction ⇒ the right-hand side exists and has one entry per substance -/
theorem plainRhs_ok (ks : List α) (rxns : List Rxn) (y : List α) (ns : ℕ) (hy : y.length = ns)
    (hrange : ∀ s, Mentioned ks rxns s → s < ns) (hcov : ∀ s, s < ns → Mentioned ks rxns s) :
    ∃ l, plainRhs ks rxns y ns = .ok l ∧ l.length = ns := by
  have hg : (ks.zip rxns).any (fun kr => kr.2.reac.any fun p => decide (y.length ≤ p.1)) = false := by
    rw [List.any_eq_false]
    intro kr hkr
    simp only [List.any_eq_true, decide_eq_true_eq, not_exists, not_and, not_le]
    intro p hp
    rw [hy]
    exact hrange p.1 ⟨kr, hkr, Or.inl (List.mem_map.mpr ⟨p, hp, rfl⟩)⟩
  set rates := Kinetics.sysRates (fun i => y.getD i ((0 : ℕ) : α)) ((ks.zip rxns).map fun kr => kr.2.toKin kr.1) none none
    with hrates
  have hnd : (Kinetics.dkeys rates).Nodup := nodup_dkeys_sysRates _ _
  have hmem : ∀ s, s ∈ Kinetics.dkeys rates ↔ s < ns := fun s =>
    ⟨fun h => hrange s ((mem_dkeys_rates ks rxns _ s).mp h), fun h => (mem_dkeys_rates ks rxns _ s).mpr (hcov s h)⟩
  have hperm : (Kinetics.dkeys rates).Perm (List.range ns) :=
    (List.perm_ext_iff_of_nodup hnd (List.nodup_range)).mpr (fun s => by rw [hmem, List.mem_range])
  have hlen : rates.length = ns := by
    have := hperm.length_eq
    simpa [Kinetics.dkeys] using this
  obtain ⟨l, hl, hll⟩ := readAll_ok rates (List.range ns) (fun s hs => (hmem s).mpr (List.mem_range.mp hs))
  refine ⟨l, ?_, by simpa using hll⟩
  simp only [plainRhs, hg, ← hrates, hlen, hl]
  simp

/-- **the spectator case mirrors the code**: a substance of the system that takes part in no reaction makes
    `get_odesys` raise ValueError (pyodesys: "Callback returned unexpected number of expressions"); no silent zero -/
theorem plainRhs_spectator (ks : List α) (rxns : List Rxn) (y : List α) (ns : ℕ) (hy : y.length = ns)
    (hrange : ∀ s, Mentioned ks rxns s → s < ns) (s : ℕ) (hs : s < ns) (hspec : ¬ Mentioned ks rxns s) :
    plainRhs ks rxns y ns = .error .valueError := by
  have hg : (ks.zip rxns).any (fun kr => kr.2.reac.any fun p => decide (y.length ≤ p.1)) = false := by
    rw [List.any_eq_false]
    intro kr hkr
    simp only [List.any_eq_true, decide_eq_true_eq, not_exists, not_and, not_le]
    intro p hp
    rw [hy]
    exact hrange p.1 ⟨kr, hkr, Or.inl (List.mem_map.mpr ⟨p, hp, rfl⟩)⟩
  set rates := Kinetics.sysRates (fun i => y.getD i ((0 : ℕ) : α)) ((ks.zip rxns).map fun kr => kr.2.toKin kr.1) none none
    with hrates
  have hnd : (Kinetics.dkeys rates).Nodup := nodup_dkeys_sysRates _ _
  have hsub : Kinetics.dkeys rates ⊆ (List.range ns).erase s := by
    intro x hx
    have hm := (mem_dkeys_rates ks rxns _ x).mp hx
    have hne : x ≠ s := fun e => hspec (e ▸ hm)
    exact (List.mem_erase_of_ne hne).mpr (List.mem_range.mpr (hrange x hm))
  have hlen : rates.length < ns := by
    have h1 := (List.subperm_of_subset hnd hsub).length_le
    have h2 : ((List.range ns).erase s).length = ns - 1 := by
      rw [List.length_erase_of_mem (List.mem_range.mpr hs), List.length_range]
    have : (Kinetics.dkeys rates).length = rates.length := by simp [Kinetics.dkeys]
    omega
  simp only [plainRhs, hg, ← hrates]
  have : rates.length ≠ ns := by omega
  simp [this]


/-! ### `Equilibrium.as_reactions` -/

theorem plain_parameter_accepted (x : α) (order : ℤ) : reactionCheck (.num x) order = .ok () := rfl

theorem reactionCheck_ok_dims [CharZero α] (v : PyVal α) (hv : v.WF) (order : ℤ) (h : reactionCheck v order = .ok ()) :
    ∀ q, v = .qty q → q.unit.dims = rateConstDims order := by
  intro q hq
  subst hq
  rw [reactionCheck_qty q hv] at h
  by_contra hne
  simp [hne] at h

theorem standardConc_wf [CharZero α] (kf kb : Option (PyVal α)) (units : Bool) (c0 : PyVal α)
    (h : standardConc kf kb units = .ok c0) : c0.WF ∧ (units = true → c0 = molarVal) ∧ (units = false → c0 = PyVal.one) := by
  cases units with
  | true =>
    have h' : (Except.ok molarVal : Except Err (PyVal α)) = .ok c0 := by
      simpa [standardConc, molar?_eq] using h
    cases h'
    exact ⟨molarVal_wf, fun _ => rfl, fun h => Bool.noConfusion h⟩
  | false =>
    by_cases hq : (kf.any PyVal.isQty || kb.any PyVal.isQty) = true
    · simp [standardConc, hq] at h
    · have h' : (Except.ok PyVal.one : Except Err (PyVal α)) = .ok c0 := by
        simpa [standardConc, hq] using h
      cases h'
      exact ⟨by simp [PyVal.one, PyVal.WF], fun h => Bool.noConfusion h, fun _ => rfl⟩

theorem ratePair_wf (K : PyVal α) (kf kb : Option (PyVal α)) (nf nb : ℤ) (c0 : PyVal α) (hK : K.WF) (hc0 : c0.WF)
    (hf : ∀ f, kf = some f → f.WF) (hb : ∀ b, kb = some b → b.WF) (p : PyVal α × PyVal α)
    (h : ratePair K kf kb nf nb c0 = .ok p) :
    p.1.WF ∧ p.2.WF ∧
    ((∃ b, kb = some b ∧ kf = none ∧ p.2 = b ∧ p.1.si = b.si * K.si * c0.si ^ (nb - nf)) ∨
     (∃ f, kf = some f ∧ kb = none ∧ p.1 = f ∧ p.2.si = f.si / (K.si * c0.si ^ (nb - nf)))) := by
  cases kf with
  | none =>
    cases kb with
    | none => simp [ratePair] at h
    | some b =>
      simp only [ratePair] at h
      cases h
      have hb' := hb b rfl
      exact ⟨PyVal.mul_wf (PyVal.mul_wf hb' hK) (PyVal.pow_wf hc0 _), hb',
        Or.inl ⟨b, rfl, rfl, rfl, by simp [PyVal.mul_si, PyVal.pow_si]⟩⟩
  | some f =>
    cases kb with
    | none =>
      simp only [ratePair] at h
      cases h
      have hf' := hf f rfl
      exact ⟨hf', PyVal.div_wf hf' (PyVal.mul_wf hK (PyVal.pow_wf hc0 _)),
        Or.inr ⟨f, rfl, rfl, rfl, by simp [PyVal.div_si, PyVal.mul_si, PyVal.pow_si]⟩⟩
    | some b => simp [ratePair] at h

theorem checkPair_ok [CharZero α] (nf nb : ℤ) (f b : PyVal α) (hf : f.WF) (hb : b.WF) (p : PyVal α × PyVal α)
    (h : checkPair nf nb f b = .ok p) :
    p = (f, b) ∧ reactionCheck f nf = .ok () ∧ reactionCheck b nb = .ok () ∧
    (∀ q, f = .qty q → q.unit.dims = rateConstDims nf) ∧ (∀ q, b = .qty q → q.unit.dims = rateConstDims nb) := by
  simp only [checkPair] at h
  cases h1 : reactionCheck f nf with
  | error e => simp [h1] at h
  | ok u =>
    cases h2 : reactionCheck b nb with
    | error e => simp [h1, h2] at h
    | ok u' =>
      simp [h1, h2] at h
      exact ⟨h.symm, rfl, rfl, reactionCheck_ok_dims _ hf nf h1, reactionCheck_ok_dims _ hb nb h2⟩

/-- whatever `as_reactions` returns went through the constructor's unit check: each rate constant is either not a
    Quantity or has the dimension its own reaction requires (forward: order `nf`, backward: order `nb`); and the two
    constants are related by `K · c0^(nb−nf)` -/
theorem asReactions_checked [CharZero α] (K : PyVal α) (kf kb : Option (PyVal α)) (nf nb : ℤ) (units : Bool)
    (hK : K.WF) (hf : ∀ f, kf = some f → f.WF) (hb : ∀ b, kb = some b → b.WF) (f b : PyVal α)
    (h : asReactions K kf kb nf nb units = .ok (f, b)) :
    (∀ q, f = .qty q → q.unit.dims = rateConstDims nf) ∧ (∀ q, b = .qty q → q.unit.dims = rateConstDims nb) ∧
    reactionCheck f nf = .ok () ∧ reactionCheck b nb = .ok () ∧
    ∃ c0 : α, (units = true → c0 = 1000) ∧ (units = false → c0 = 1) ∧
      ((kf = none ∧ f.si = b.si * K.si * c0 ^ (nb - nf)) ∨ (kb = none ∧ b.si = f.si / (K.si * c0 ^ (nb - nf)))) := by
  simp only [asReactions] at h
  cases hc : standardConc kf kb units with
  | error e => simp [hc] at h
  | ok c0 =>
    obtain ⟨hc0, hu1, hu2⟩ := standardConc_wf kf kb units c0 hc
    cases hp : ratePair K kf kb nf nb c0 with
    | error e => simp [hc, hp] at h
    | ok p =>
      simp only [hc, hp] at h
      obtain ⟨hw1, hw2, hrel⟩ := ratePair_wf K kf kb nf nb c0 hK hc0 hf hb p hp
      obtain ⟨he, h1, h2, h3, h4⟩ := checkPair_ok nf nb p.1 p.2 hw1 hw2 (f, b) h
      have e1 : f = p.1 := (Prod.mk.inj he).1
      have e2 : b = p.2 := (Prod.mk.inj he).2
      subst e1; subst e2
      refine ⟨h3, h4, h1, h2, c0.si, ?_, ?_, ?_⟩
      · intro hu; rw [hu1 hu]; simp
      · intro hu; rw [hu2 hu]; simp [PyVal.one]
      · rcases hrel with ⟨b', _, hkf, hb2, hsi⟩ | ⟨f', _, hkb, hf2, hsi⟩
        · exact Or.inl ⟨hkf, by rw [hsi, hb2]⟩
        · exact Or.inr ⟨hkb, by rw [hsi, hf2]⟩


/-- substance `s` occurs as reactant or product of one of the reactions -/
def Occurs (rxns : List Rxn) (s : ℕ) : Prop :=
  ∃ r ∈ rxns, s ∈ r.reac.map (·.1) ∨ s ∈ r.prod.map (·.1) ∨ s ∈ r.inactReac.map (·.1) ∨ s ∈ r.inactProd.map (·.1)

theorem mentioned_iff_occurs {β : Type} {R : β → Rxn → Prop} {ks : List β} {rxns : List Rxn}
    (h : List.Forall₂ R ks rxns) (f : β → α) (s : ℕ) : Mentioned (ks.map f) rxns s ↔ Occurs rxns s := by
  induction h with
  | nil => simp [Mentioned, Occurs]
  | @cons k r _ _ _ _ ih =>
    simp only [Mentioned, Occurs, List.map_cons, List.zip_cons_cons, List.mem_cons, exists_eq_or_imp] at ih ⊢
    rw [ih]

theorem odeRhs_ok (reg : Registry α) (hreg : RegistryWF reg) (ks : List (PyVal α)) (rxns : List Rxn)
    (y : List (PyVal α)) (ns : ℕ)
    (hk : List.Forall₂ (fun k r => k.WF ∧ k.dims = rateConstDims r.order) ks rxns)
    (hy : ∀ c ∈ y, c.WF ∧ c.dims = concDims) (hlen : y.length = ns)
    (hrange : ∀ s, Occurs rxns s → s < ns) (hcov : ∀ s, s < ns → Occurs rxns s) :
    ∃ f, odeRhs reg ks rxns y ns = .ok f ∧ f.length = ns := by
  obtain ⟨l, hl, hll⟩ := plainRhs_ok (ks.map PyVal.si) rxns (y.map PyVal.si) ns (by simpa using hlen)
    (fun s hs => hrange s ((mentioned_iff_occurs hk _ s).mp hs)) (fun s hs => (mentioned_iff_occurs hk _ s).mpr (hcov s hs))
  rw [odeRhs_spec reg hreg ks rxns y ns hk hy, hl]
  exact ⟨_, rfl, by simpa using hll⟩

theorem odeRhs_spectator (reg : Registry α) (hreg : RegistryWF reg) (ks : List (PyVal α)) (rxns : List Rxn)
    (y : List (PyVal α)) (ns : ℕ)
    (hk : List.Forall₂ (fun k r => k.WF ∧ k.dims = rateConstDims r.order) ks rxns)
    (hy : ∀ c ∈ y, c.WF ∧ c.dims = concDims) (hlen : y.length = ns)
    (hrange : ∀ s, Occurs rxns s → s < ns) (s : ℕ) (hs : s < ns) (hspec : ¬ Occurs rxns s) :
    odeRhs reg ks rxns y ns = .error .valueError := by
  have := plainRhs_spectator (ks.map PyVal.si) rxns (y.map PyVal.si) ns (by simpa using hlen)
    (fun s hs => hrange s ((mentioned_iff_occurs hk _ s).mp hs)) s hs
    (fun hm => hspec ((mentioned_iff_occurs hk _ s).mp hm))
  rw [odeRhs_spec reg hreg ks rxns y ns hk hy, this]
  rfl

/-! ### parameter keys -/

theorem getDerivedUnit_unknown (reg : Registry α) (hreg : RegistryWF reg) (key : String)
    (h1 : Gen.Units.derivedTable.lookup key = none) (h2 : keyIndex? key = none) :
    getDerivedUnit (some reg) key = .error .keyError := by
  obtain ⟨ds, hds, hspec⟩ := derivedAll_spec reg hreg Gen.Units.derivedTable derivedTable_wf
  have hnone : ds.lookup key = none := by
    have := (hspec key).1
    rw [h1] at this
    simpa using this
  simp [getDerivedUnit, hds, hnone, h2]

/-- `_get_derived_unit` for a parameter key: a derived key (`doserate`, `density`, …) gives the registry's unit of that
    dimension; a key that is neither derived nor a base key (`doserate_alpha`) is looked up again without its last word -/
theorem getDerivedUnitFallback_spec (reg : Registry α) (hreg : RegistryWF reg) (key : String) :
    (∀ e, Gen.Units.derivedTable.lookup key = some e →
      ∃ U, getDerivedUnitFallback reg key = .ok U ∧ U.WF ∧ U.dims = e ∧ U.si = regProd reg e ∧ U.si ≠ 0) ∧
    (Gen.Units.derivedTable.lookup key = none → keyIndex? key = none →
      getDerivedUnitFallback reg key = getDerivedUnit (some reg) (dropLastWord key)) := by
  constructor
  · intro e he
    obtain ⟨U, h1, h2⟩ := getDerivedUnit_derived reg hreg key e he
    exact ⟨U, by simp [getDerivedUnitFallback, h1], h2⟩
  · intro h1 h2
    simp [getDerivedUnitFallback, getDerivedUnit_unknown reg hreg key h1 h2]


section Arrhenius
variable [HasExp α]

/-! ### Arrhenius rate constants -/

theorem temperatureDims_wf : Dims.WF temperatureDims := rfl
theorem temperatureDims_eq_basis : temperatureDims = Dims.basis 4 := by decide

theorem temperatureUnit_spec (reg : Registry α) (hreg : RegistryWF reg) :
    ∃ U, getDerivedUnitFallback reg "temperature" = .ok U ∧ U.WF ∧ U.dims = temperatureDims ∧
      U.si = regProd reg temperatureDims ∧ U.si ≠ 0 := by
  obtain ⟨hlt, h1, h2⟩ := getDerivedUnit_base reg hreg "temperature" 4 (by decide) keyIndex?_temperature
  obtain ⟨hw, _, hsi⟩ := hreg.entry 4 hlt
  exact ⟨reg[4], by simp [getDerivedUnitFallback, h1], hw, by rw [h2, temperatureDims_eq_basis],
    by rw [temperatureDims_eq_basis, regProd_basis reg hreg 4 hlt], hsi⟩

/-- the three unitless arguments: each is the SI value over the registry's unit of its own dimension -/
theorem arrheniusArgs_spec (reg : Registry α) (hreg : RegistryWF reg) (A EaR T : PyVal α)
    (hA : A.WF) (hE : EaR.WF) (hT : T.WF) (hTd : T.dims = temperatureDims) :
    arrheniusArgs reg A EaR T =
      .ok (A.si / regProd reg A.dims, EaR.si / regProd reg EaR.dims, T.si / regProd reg temperatureDims) := by
  obtain ⟨UA, hUA, _⟩ := dedimArg_spec reg hreg A hA
  obtain ⟨UE, hUE, _⟩ := dedimArg_spec reg hreg EaR hE
  obtain ⟨U, hU, hUw, hUd, hUs, _⟩ := temperatureUnit_spec reg hreg
  have ht : toUnitlessScalar T U = .ok (T.si / U.si) := (toUnitlessScalar_ok_iff hT hUw _).mpr ⟨by rw [hTd, hUd], rfl⟩
  simp only [arrheniusArgs, hUA, hUE, hU, ht, hUs]

/-- a temperature of the wrong dimension is refused -/
theorem arrheniusArgs_refuses (reg : Registry α) (hreg : RegistryWF reg) (A EaR T : PyVal α)
    (hA : A.WF) (hE : EaR.WF) (hT : T.WF) (hTd : T.dims ≠ temperatureDims) :
    arrheniusArgs reg A EaR T = .error .valueError := by
  obtain ⟨UA, hUA, _⟩ := dedimArg_spec reg hreg A hA
  obtain ⟨UE, hUE, _⟩ := dedimArg_spec reg hreg EaR hE
  obtain ⟨U, hU, hUw, hUd, hUs, _⟩ := temperatureUnit_spec reg hreg
  have ht : toUnitlessScalar T U = .error .valueError := (toUnitlessScalar_error_iff hT hUw _).mpr ⟨by rw [hUd]; exact hTd, rfl⟩
  simp only [arrheniusArgs, hUA, hUE, hU, ht]

/-- **the unitless Arrhenius constant is the SI constant over the registry's rate-constant unit**: `Ea/R` and `T` are
    converted with the same temperature unit, which cancels inside the exponential -/
theorem arrheniusDedim_spec (reg : Registry α) (hreg : RegistryWF reg) (A EaR T : PyVal α) (n : ℤ)
    (hA : A.WF) (hAd : A.dims = rateConstDims n) (hE : EaR.WF) (hEd : EaR.dims = temperatureDims)
    (hT : T.WF) (hTd : T.dims = temperatureDims) :
    arrheniusDedim reg A EaR T = .ok (arrheniusEval A.si EaR.si T.si / regProd reg (rateConstDims n)) := by
  have hτ := regProd_ne_zero reg (registryWF_si_ne hreg) temperatureDims
  simp only [arrheniusDedim, arrheniusArgs_spec reg hreg A EaR T hA hE hT hTd, hAd, hEd, arrheniusEval]
  rw [div_div_div_cancel_right₀ hτ]
  congr 1
  ring

theorem mapExcept_arrhenius (reg : Registry α) (hreg : RegistryWF reg) (params : List (PyVal α × PyVal α)) (T : PyVal α)
    (rxns : List Rxn) (hT : T.WF) (hTd : T.dims = temperatureDims)
    (hp : List.Forall₂ (fun (p : PyVal α × PyVal α) (r : Rxn) => p.1.WF ∧ p.1.dims = rateConstDims r.order ∧
      p.2.WF ∧ p.2.dims = temperatureDims) params rxns) :
    mapExcept (fun p : PyVal α × PyVal α => arrheniusDedim reg p.1 p.2 T) params =
      .ok ((params.zip rxns).map fun pr => arrheniusEval pr.1.1.si pr.1.2.si T.si / regProd reg (rateConstDims pr.2.order)) := by
  induction hp with
  | nil => rfl
  | @cons p r _ _ h _ ih =>
    obtain ⟨h1, h2, h3, h4⟩ := h
    simp only [mapExcept, arrheniusDedim_spec reg hreg p.1 p.2 T r.order h1 h2 h3 h4 hT hTd, ih, List.zip_cons_cons, List.map_cons]

/-- the SI rate constants of an Arrhenius system at temperature `T` -/
def arrheniusSI (params : List (PyVal α × PyVal α)) (T : PyVal α) : List α :=
  params.map fun p => arrheniusEval p.1.si p.2.si T.si

/-- fictitious quantities carrying the SI Arrhenius constants with the dimension of their reaction (proof device) -/
def arrheniusQ (params : List (PyVal α × PyVal α)) (rxns : List Rxn) (T : PyVal α) : List (PyVal α) :=
  (params.zip rxns).map fun pr => .qty ⟨arrheniusEval pr.1.1.si pr.1.2.si T.si, ⟨1, rateConstDims pr.2.order⟩⟩

theorem arrheniusQ_si {R : PyVal α × PyVal α → Rxn → Prop} {params : List (PyVal α × PyVal α)} {rxns : List Rxn}
    (h : List.Forall₂ R params rxns) (T : PyVal α) : (arrheniusQ params rxns T).map PyVal.si = arrheniusSI params T := by
  induction h with
  | nil => rfl
  | cons _ _ ih =>
    simp only [arrheniusQ, arrheniusSI, List.zip_cons_cons, List.map_cons] at ih ⊢
    rw [ih]; simp

theorem arrheniusQ_dims {R : PyVal α × PyVal α → Rxn → Prop} {params : List (PyVal α × PyVal α)} {rxns : List Rxn}
    (h : List.Forall₂ R params rxns) (T : PyVal α) :
    List.Forall₂ (fun (k : PyVal α) (r : Rxn) => k.dims = rateConstDims r.order) (arrheniusQ params rxns T) rxns := by
  induction h with
  | nil => exact List.Forall₂.nil
  | cons _ _ ih => exact List.Forall₂.cons rfl ih

theorem arrheniusQ_vals (reg : Registry α) (params : List (PyVal α × PyVal α)) (rxns : List Rxn) (T : PyVal α) :
    (params.zip rxns).map (fun pr => arrheniusEval pr.1.1.si pr.1.2.si T.si / regProd reg (rateConstDims pr.2.order)) =
      (arrheniusQ params rxns T).map fun k => k.si / regProd reg k.dims := by
  simp [arrheniusQ, List.map_map, Function.comp]

theorem odeRhsArrhenius_spec (reg : Registry α) (hreg : RegistryWF reg) (params : List (PyVal α × PyVal α))
    (T : PyVal α) (rxns : List Rxn) (y : List (PyVal α)) (ns : ℕ) (hT : T.WF) (hTd : T.dims = temperatureDims)
    (hp : List.Forall₂ (fun (p : PyVal α × PyVal α) (r : Rxn) => p.1.WF ∧ p.1.dims = rateConstDims r.order ∧
      p.2.WF ∧ p.2.dims = temperatureDims) params rxns)
    (hy : ∀ c ∈ y, c.WF ∧ c.dims = concDims) :
    odeRhsArrhenius reg params T rxns y ns =
      (plainRhs (arrheniusSI params T) rxns (y.map PyVal.si) ns).map
        (List.map (· * (regProd reg timeDims / regProd reg concDims))) := by
  obtain ⟨C, hC, hCw, hCd, hCs, _⟩ := concUnit_spec reg hreg
  obtain ⟨Tu, hTu, _⟩ := timeUnit_spec reg hreg
  obtain ⟨U, hU, _⟩ := temperatureUnit_spec reg hreg
  have hou : mkOdeUnits reg ["temperature"] true [] = .ok ⟨[U], Tu, C⟩ := by
    simp [mkOdeUnits, mapExcept, hU, hC, hTu]
  have hys : toUnitlessFlat y C = .ok (y.map fun a => a.si / C.si) :=
    (toUnitlessFlat_spec y C (fun a ha => (hy a ha).1) hCw).1 (fun a ha => by rw [(hy a ha).2, hCd])
  have hmap : (y.map fun a => a.si / C.si) = (y.map PyVal.si).map (· / regProd reg concDims) := by
    simp [List.map_map, hCs]
  simp only [odeRhsArrhenius, hou, mapExcept_arrhenius reg hreg params T rxns hT hTd hp, toArraysY, hys, hmap,
    arrheniusQ_vals reg params rxns T]
  rw [plainRhs_scale reg hreg _ rxns (arrheniusQ_dims hp T) _ ns, arrheniusQ_si hp T]


end Arrhenius

/-! ### when `as_reactions` succeeds -/

theorem asReactions_ok_iff (K : PyVal α) (kf kb : Option (PyVal α)) (nf nb : ℤ) (units : Bool) (p : PyVal α × PyVal α) :
    asReactions K kf kb nf nb units = .ok p ↔
      ∃ c0, standardConc kf kb units = .ok c0 ∧ ratePair K kf kb nf nb c0 = .ok p ∧
        reactionCheck p.1 nf = .ok () ∧ reactionCheck p.2 nb = .ok () := by
  constructor
  · intro h
    unfold asReactions at h
    cases hc : standardConc kf kb units with
    | error e => simp only [hc] at h; cases h
    | ok c0 =>
      simp only [hc] at h
      cases hp : ratePair K kf kb nf nb c0 with
      | error e => simp only [hp] at h; cases h
      | ok q =>
        simp only [hp, checkPair] at h
        cases h1 : reactionCheck q.1 nf with
        | error e => simp only [h1] at h; cases h
        | ok u =>
          simp only [h1] at h
          cases h2 : reactionCheck q.2 nb with
          | error e => simp only [h2] at h; cases h
          | ok u' =>
            simp only [h2] at h
            cases h
            exact ⟨c0, rfl, hp, h1, h2⟩
  · rintro ⟨c0, hc, hp, h1, h2⟩
    unfold asReactions
    simp only [hc, hp, checkPair, h1, h2]

theorem asReactions_needs_exactly_one (K : PyVal α) (kf kb : Option (PyVal α)) (nf nb : ℤ) (units : Bool)
    (h : kf.isSome = kb.isSome) (p : PyVal α × PyVal α) : asReactions K kf kb nf nb units ≠ .ok p := by
  intro hp
  obtain ⟨c0, _, hr, _⟩ := (asReactions_ok_iff K kf kb nf nb units p).mp hp
  cases kf <;> cases kb <;> simp_all [ratePair]


/-! ### unitless constants in general -/

/-- fictitious quantities carrying given SI constants with the dimension of their reaction (proof device) -/
def fictQ (ksi : List α) (rxns : List Rxn) : List (PyVal α) :=
  (ksi.zip rxns).map fun kr => .qty ⟨kr.1, ⟨1, rateConstDims kr.2.order⟩⟩

theorem fictQ_si {R : α → Rxn → Prop} {ksi : List α} {rxns : List Rxn} (h : List.Forall₂ R ksi rxns) :
    (fictQ ksi rxns).map PyVal.si = ksi := by
  induction h with
  | nil => rfl
  | cons _ _ ih =>
    simp only [fictQ, List.zip_cons_cons, List.map_cons] at ih ⊢
    rw [ih]; simp

theorem fictQ_dims {R : α → Rxn → Prop} {ksi : List α} {rxns : List Rxn} (h : List.Forall₂ R ksi rxns) :
    List.Forall₂ (fun (k : PyVal α) (r : Rxn) => k.dims = rateConstDims r.order) (fictQ ksi rxns) rxns := by
  induction h with
  | nil => exact List.Forall₂.nil
  | cons _ _ ih => exact List.Forall₂.cons rfl ih

theorem fictQ_vals (reg : Registry α) (ksi : List α) (rxns : List Rxn) :
    (ksi.zip rxns).map (fun kr => kr.1 / regProd reg (rateConstDims kr.2.order)) =
      (fictQ ksi rxns).map fun k => k.si / regProd reg k.dims := by
  simp [fictQ, List.map_map, Function.comp]

/-- whatever produced them: unitless constants of the form `k_SI / (registry unit of conc^(1−order)/time)` give the plain
    right-hand side on the SI constants, times `time_unit / conc_unit` -/
theorem odeRhsUnitless_spec (reg : Registry α) (hreg : RegistryWF reg) (ksi : List α) (rxns : List Rxn)
    (y : List (PyVal α)) (ns : ℕ) (hlen : ksi.length = rxns.length) (hy : ∀ c ∈ y, c.WF ∧ c.dims = concDims) :
    odeRhsUnitless reg ((ksi.zip rxns).map fun kr => kr.1 / regProd reg (rateConstDims kr.2.order)) rxns y ns =
      (plainRhs ksi rxns (y.map PyVal.si) ns).map (List.map (· * (regProd reg timeDims / regProd reg concDims))) := by
  obtain ⟨C, T, hou, ⟨_, hCw, hCd, hCs, _⟩, _⟩ := mkOdeUnits_plain reg hreg
  have hys : toUnitlessFlat y C = .ok (y.map fun a => a.si / C.si) :=
    (toUnitlessFlat_spec y C (fun a ha => (hy a ha).1) hCw).1 (fun a ha => by rw [(hy a ha).2, hCd])
  have hmap : (y.map fun a => a.si / C.si) = (y.map PyVal.si).map (· / regProd reg concDims) := by
    simp [List.map_map, hCs]
  have hF : List.Forall₂ (fun (_ : α) (_ : Rxn) => True) ksi rxns :=
    List.forall₂_iff_zip.mpr ⟨hlen, fun _ => trivial⟩
  simp only [odeRhsUnitless, hou, toArraysY, hys, hmap, fictQ_vals reg ksi rxns]
  rw [plainRhs_scale reg hreg _ rxns (fictQ_dims hF) _ ns, fictQ_si hF]

/-! ### Eyring -/
section Eyring
variable [HasExp α]

/-- dimension of Eyring's first argument as `Eyring.__call__` uses it: per time per temperature -/
def eyringPrefDims : Dims := (Dims.smul (-1) timeDims).sub temperatureDims

theorem eyringPrefDims_eq : eyringPrefDims = [0, 0, -1, 0, -1, 0, 0] := by decide

theorem regProd_eyringPref (reg : Registry α) (hreg : RegistryWF reg) :
    regProd reg eyringPrefDims = (regProd reg timeDims)⁻¹ / regProd reg temperatureDims := by
  rw [eyringPrefDims, regProd_sub reg (registryWF_si_ne hreg) _ _ (len_eq_of_wf (Dims.smul_wf _ timeDims_wf) temperatureDims_wf),
    regProd_smul, zpow_neg_one]

theorem eyringArgs_spec (reg : Registry α) (hreg : RegistryWF reg) (c0 c1 conc0 T : PyVal α)
    (h0 : c0.WF) (h1 : c1.WF) (h2 : conc0.WF) (hT : T.WF) (hTd : T.dims = temperatureDims) :
    eyringArgs reg c0 c1 conc0 T = .ok (c0.si / regProd reg c0.dims, c1.si / regProd reg c1.dims,
      conc0.si / regProd reg conc0.dims, T.si / regProd reg temperatureDims) := by
  obtain ⟨_, hU0, _⟩ := dedimArg_spec reg hreg c0 h0
  obtain ⟨_, hU1, _⟩ := dedimArg_spec reg hreg c1 h1
  obtain ⟨_, hU2, _⟩ := dedimArg_spec reg hreg conc0 h2
  obtain ⟨U, hU, hUw, hUd, hUs, _⟩ := temperatureUnit_spec reg hreg
  have ht : toUnitlessScalar T U = .ok (T.si / U.si) := (toUnitlessScalar_ok_iff hT hUw _).mpr ⟨by rw [hTd, hUd], rfl⟩
  simp only [eyringArgs, hU0, hU1, hU2, hU, ht, hUs]

theorem eyringArgs_refuses (reg : Registry α) (hreg : RegistryWF reg) (c0 c1 conc0 T : PyVal α)
    (h0 : c0.WF) (h1 : c1.WF) (h2 : conc0.WF) (hT : T.WF) (hTd : T.dims ≠ temperatureDims) :
    eyringArgs reg c0 c1 conc0 T = .error .valueError := by
  obtain ⟨_, hU0, _⟩ := dedimArg_spec reg hreg c0 h0
  obtain ⟨_, hU1, _⟩ := dedimArg_spec reg hreg c1 h1
  obtain ⟨_, hU2, _⟩ := dedimArg_spec reg hreg conc0 h2
  obtain ⟨U, hU, hUw, hUd, hUs, _⟩ := temperatureUnit_spec reg hreg
  have ht : toUnitlessScalar T U = .error .valueError := (toUnitlessScalar_error_iff hT hUw _).mpr ⟨by rw [hUd]; exact hTd, rfl⟩
  simp only [eyringArgs, hU0, hU1, hU2, hU, ht]

theorem eyringDedim_spec (reg : Registry α) (hreg : RegistryWF reg) (c0 c1 conc0 T : PyVal α) (n : ℤ)
    (h0 : c0.WF) (h0d : c0.dims = eyringPrefDims) (h1 : c1.WF) (h1d : c1.dims = temperatureDims)
    (h2 : conc0.WF) (h2d : conc0.dims = concDims) (hT : T.WF) (hTd : T.dims = temperatureDims) :
    eyringDedim reg c0 c1 conc0 T n =
      .ok (eyringEval c0.si c1.si conc0.si T.si n / regProd reg (rateConstDims n)) := by
  have hτ := regProd_ne_zero reg (registryWF_si_ne hreg) temperatureDims
  have hC := regProd_ne_zero reg (registryWF_si_ne hreg) concDims
  have hS := regProd_ne_zero reg (registryWF_si_ne hreg) timeDims
  simp only [eyringDedim, eyringArgs_spec reg hreg c0 c1 conc0 T h0 h1 h2 hT hTd, h0d, h1d, h2d, eyringEval,
    regProd_eyringPref reg hreg, regProd_rateConst reg hreg, zpow_eq, div_zpow]
  rw [div_div_div_cancel_right₀ hτ]
  congr 1
  have hCz : regProd reg concDims ^ (1 - n) ≠ 0 := zpow_ne_zero _ hC
  field_simp

end Eyring

/-! ### Radiolytic -/

def yieldDims : Dims := [-2, -1, 2, 0, 0, 0, 1]
def densityDims : Dims := [-3, 1, 0, 0, 0, 0, 0]
def doserateDims : Dims := [2, 0, -3, 0, 0, 0, 0]

theorem radiolytic_dims_sum : yieldDims.add (densityDims.add doserateDims) = rateConstDims 0 := by
  rw [rateConstDims_eq]; decide

theorem densityUnit_spec (reg : Registry α) (hreg : RegistryWF reg) :
    ∃ U, getDerivedUnitFallback reg "density" = .ok U ∧ U.WF ∧ U.dims = densityDims ∧ U.si = regProd reg densityDims ∧ U.si ≠ 0 :=
  (getDerivedUnitFallback_spec reg hreg "density").1 densityDims (by decide)

theorem doserateUnit_spec (reg : Registry α) (hreg : RegistryWF reg) :
    ∃ U, getDerivedUnitFallback reg "doserate" = .ok U ∧ U.WF ∧ U.dims = doserateDims ∧ U.si = regProd reg doserateDims ∧ U.si ≠ 0 :=
  (getDerivedUnitFallback_spec reg hreg "doserate").1 doserateDims (by decide)

theorem radiolyticArgs_spec (reg : Registry α) (hreg : RegistryWF reg) (g rho D : PyVal α)
    (hg : g.WF) (hr : rho.WF) (hrd : rho.dims = densityDims) (hD : D.WF) (hDd : D.dims = doserateDims) :
    radiolyticArgs reg g rho D =
      .ok (g.si / regProd reg g.dims, rho.si / regProd reg densityDims, D.si / regProd reg doserateDims) := by
  obtain ⟨_, hUg, _⟩ := dedimArg_spec reg hreg g hg
  obtain ⟨Ur, hUr, hUrw, hUrd, hUrs, _⟩ := densityUnit_spec reg hreg
  obtain ⟨Ud, hUd, hUdw, hUdd, hUds, _⟩ := doserateUnit_spec reg hreg
  have h1 : toUnitlessScalar rho Ur = .ok (rho.si / Ur.si) := (toUnitlessScalar_ok_iff hr hUrw _).mpr ⟨by rw [hrd, hUrd], rfl⟩
  have h2 : toUnitlessScalar D Ud = .ok (D.si / Ud.si) := (toUnitlessScalar_ok_iff hD hUdw _).mpr ⟨by rw [hDd, hUdd], rfl⟩
  simp only [radiolyticArgs, hUg, hUr, hUd, h1, h2, hUrs, hUds]

theorem radiolyticArgs_refuses (reg : Registry α) (hreg : RegistryWF reg) (g rho D : PyVal α)
    (hg : g.WF) (hr : rho.WF) (hD : D.WF) (hbad : rho.dims ≠ densityDims ∨ (rho.dims = densityDims ∧ D.dims ≠ doserateDims)) :
    radiolyticArgs reg g rho D = .error .valueError := by
  obtain ⟨_, hUg, _⟩ := dedimArg_spec reg hreg g hg
  obtain ⟨Ur, hUr, hUrw, hUrd, hUrs, _⟩ := densityUnit_spec reg hreg
  obtain ⟨Ud, hUd, hUdw, hUdd, hUds, _⟩ := doserateUnit_spec reg hreg
  rcases hbad with hb | ⟨hrd, hb⟩
  · have h1 : toUnitlessScalar rho Ur = .error .valueError := (toUnitlessScalar_error_iff hr hUrw _).mpr ⟨by rw [hUrd]; exact hb, rfl⟩
    simp only [radiolyticArgs, hUg, hUr, hUd, h1]
  · have h1 : toUnitlessScalar rho Ur = .ok (rho.si / Ur.si) := (toUnitlessScalar_ok_iff hr hUrw _).mpr ⟨by rw [hrd, hUrd], rfl⟩
    have h2 : toUnitlessScalar D Ud = .error .valueError := (toUnitlessScalar_error_iff hD hUdw _).mpr ⟨by rw [hUdd]; exact hb, rfl⟩
    simp only [radiolyticArgs, hUg, hUr, hUd, h1, h2]

theorem radiolyticDedim_spec (reg : Registry α) (hreg : RegistryWF reg) (g rho D : PyVal α)
    (hg : g.WF) (hgd : g.dims = yieldDims) (hr : rho.WF) (hrd : rho.dims = densityDims) (hD : D.WF) (hDd : D.dims = doserateDims) :
    radiolyticDedim reg g rho D = .ok (radiolyticEval g.si rho.si D.si / regProd reg (rateConstDims 0)) := by
  have hne := registryWF_si_ne hreg
  have hsum : regProd reg (rateConstDims 0) = regProd reg yieldDims * (regProd reg densityDims * regProd reg doserateDims) := by
    rw [← radiolytic_dims_sum, regProd_add reg hne yieldDims (densityDims.add doserateDims) (by decide),
      regProd_add reg hne densityDims doserateDims (by decide)]
  have h1 := regProd_ne_zero reg hne yieldDims
  have h2 := regProd_ne_zero reg hne densityDims
  have h3 := regProd_ne_zero reg hne doserateDims
  simp only [radiolyticDedim, radiolyticArgs_spec reg hreg g rho D hg hr hrd hD hDd, hgd, radiolyticEval, hsum]
  congr 1
  field_simp


end ChemModel.KinUnits
