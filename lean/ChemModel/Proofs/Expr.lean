/-
C16 — lemmas about the expression model (`Model/Expr.lean`) and the generated rate-constant functions
(`Gen/FnRateConst.lean`) over ℝ.
-/
import ChemModel.Model.Expr
import ChemModel.Gen.FnRateConst
import ChemModel.Proofs.NumReal
import Mathlib.Tactic.Linarith
import Mathlib.Tactic.NormNum
set_option autoImplicit false

namespace ChemModel.PyExpr
open ChemModel
open scoped Classical

/-- ℝ as a Python number type: `==`, `<=` decided classically; `x ** y` is the real power where Python returns a real
number (`ZeroDivisionError` for `0 ** negative`, a complex number for a negative base with a non-integer exponent);
`exp`, `sin` total; `log10` with `math.log10`'s `ValueError`. -/
noncomputable instance instPyNumReal : PyNum ℝ where
  beq x y := decide (x = y)
  le x y := decide (x ≤ y)
  isScalar _ := true
  pow x y :=
    if x = 0 ∧ y < 0 then .error .zeroDivision
    else if x < 0 ∧ ¬ ∃ n : ℤ, y = n then .error .complexResult
    else .ok (x ^ y)
  exp x := .ok (Real.exp x)
  log10 x := if x ≤ 0 then .error .valueError else .ok (Real.log x / Real.log 10)
  sin x := .ok (Real.sin x)

@[simp] theorem beq_real (x y : ℝ) : PyNum.beq x y = true ↔ x = y := by
  simp [PyNum.beq]

@[simp] theorem beq_real_false (x y : ℝ) : PyNum.beq x y = false ↔ x ≠ y := by
  simp [PyNum.beq]

@[simp] theorem le_real (x y : ℝ) : PyNum.le x y = true ↔ x ≤ y := by
  simp [PyNum.le]

@[simp] theorem exp_real (x : ℝ) : PyNum.exp x = .ok (Real.exp x) := rfl

theorem pyDiv_real {x y : ℝ} (h : y ≠ 0) : pyDiv x y = .ok (x / y) := by
  unfold pyDiv
  have : PyNum.beq y (((0 : Nat)) : ℝ) = false := by simp [h]
  rw [this]; rfl

theorem pyDiv_real_zero (x : ℝ) : pyDiv x 0 = .error .zeroDivision := by
  unfold pyDiv
  have : PyNum.beq (0 : ℝ) (((0 : Nat)) : ℝ) = true := by simp
  rw [this]; rfl

/-- a positive base to an integer power (the exponents of `active_conc_prod` and of `conc0 ** (1 - order)`) -/
theorem pow_real_int {x : ℝ} (hx : 0 < x) (n : ℤ) : PyNum.pow x (Num.ofInt n : ℝ) = .ok (x ^ n) := by
  have h1 : ¬ (x = 0 ∧ (Num.ofInt n : ℝ) < 0) := fun h => (ne_of_gt hx) h.1
  have h2 : ¬ (x < 0 ∧ ¬ ∃ m : ℤ, (Num.ofInt n : ℝ) = m) := fun h => (not_lt.mpr hx.le) h.1
  show (if x = 0 ∧ (Num.ofInt n : ℝ) < 0 then Except.error Err.zeroDivision
      else if x < 0 ∧ ¬ ∃ m : ℤ, (Num.ofInt n : ℝ) = m then Except.error Err.complexResult
      else Except.ok (x ^ (Num.ofInt n : ℝ))) = _
  rw [if_neg h1, if_neg h2, NumReal.ofInt_eq, Real.rpow_intCast]

/-! ### the `Except` monad -/

@[simp] theorem ok_bind {ε β γ : Type} (a : β) (f : β → Except ε γ) : (Except.ok a >>= f) = f a := rfl
@[simp] theorem error_bind {ε β γ : Type} (e : ε) (f : β → Except ε γ) : (Except.error e >>= f) = Except.error e := rfl
@[simp] theorem pure_eq_ok {ε β : Type} (a : β) : (pure a : Except ε β) = Except.ok a := rfl
@[simp] theorem throw_eq_error {ε β : Type} (e : ε) : (throw e : Except ε β) = Except.error e := rfl

/-! ### variables, arguments -/

theorem get_some {ctx : Ctx ℝ} {k : String} {v : ℝ} (h : ctx.vars k = some v) : ctx.get k = .ok v := by
  simp [Ctx.get, h]

section generic
variable {α : Type} [Add α] [Sub α] [Mul α] [Div α] [Neg α] [NatCast α] [PyNum α]

/-- without a matching variable every unique key falls back to the stored argument -/
theorem argAt_no_override (ctx : Ctx α) (k : Kind) (vals : List (Except Err α)) (uks : Option (List String))
    (h : ∀ u, uks = some u → ∀ key ∈ u, ctx.vars key = none) (i : Nat) (hi : i < vals.length) :
    argAt ctx k false vals.length vals uks i = vals[i] := by
  unfold argAt
  cases uks with
  | none => simp [hi]
  | some u =>
    simp only [Bool.false_eq_true, if_false, List.getElem?_eq_getElem hi, Bool.false_or, decide_eq_true_eq]
    cases hk : u[i]? with
    | none => simp [Nat.not_lt.mpr (Nat.le_of_lt hi)]
    | some key =>
      have hm : key ∈ u := List.mem_of_getElem? hk
      simp [h u rfl key hm]

/-- `mapM` over a list on which the function succeeds -/
theorem mapM_ok {β γ : Type} (f : β → Except Err γ) (g : β → γ) :
    ∀ l : List β, (∀ x ∈ l, f x = .ok (g x)) → l.mapM f = .ok (l.map g)
  | [], _ => rfl
  | a :: l, h => by
      rw [List.mapM_cons, h a (List.mem_cons_self), mapM_ok f g l (fun x hx => h x (List.mem_cons_of_mem _ hx))]
      rfl

theorem mapM_ok_idx {β γ : Type} (f : β → Except Err γ) :
    ∀ (l : List β) (r : List γ) (hl : l.length = r.length),
      (∀ i (h : i < l.length), f l[i] = .ok (r[i]'(hl ▸ h))) → l.mapM f = .ok r
  | [], [], _, _ => rfl
  | [], _ :: _, hl, _ => by simp at hl
  | _ :: _, [], hl, _ => by simp at hl
  | a :: l, b :: r, hl, h => by
      have h0 := h 0 (by simp)
      simp only [List.getElem_cons_zero] at h0
      have ih := mapM_ok_idx f l r (by simpa using hl) (fun i hi => by
        have := h (i + 1) (by simp; omega)
        simpa using this)
      rw [List.mapM_cons, h0, ih]
      rfl

/-- all arguments of an instance whose stored arguments evaluate to `g` and whose unique keys (if any) have no
matching variable -/
theorem allArgs_no_override (ctx : Ctx α) (k : Kind) (g : List α) (uks : Option (List String))
    (hn : k.nargs = some (g.length : Int) ∨ k.nargs = none)
    (h : ∀ u, uks = some u → ∀ key ∈ u, ctx.vars key = none) :
    allArgs ctx k false g.length (g.map Except.ok) uks = .ok g := by
  have hmap : (List.range g.length).mapM (argAt ctx k false g.length (g.map Except.ok) uks) = .ok g := by
    apply mapM_ok_idx _ _ _ (by simp)
    intro i hi
    have hi' : i < (g.map (Except.ok (ε := Err))).length := by simpa using hi
    have := argAt_no_override ctx k (g.map Except.ok) uks h i hi'
    simp only [List.length_map] at this
    simp [this]
  unfold allArgs
  rcases hn with hn | hn
  · rw [hn]
    have : ((g.length : Int) == -1) = false := by
      simp only [beq_eq_false_iff_ne, ne_eq]; omega
    simp only [this, Bool.false_eq_true, if_false, pure_eq_ok, ok_bind, Int.toNat_natCast]
    exact hmap
  · rw [hn]
    simp only [Bool.false_eq_true, if_false, pure_eq_ok, ok_bind]
    exact hmap
/-- `variables` with one more entry `key: v` -/
def Ctx.set (ctx : Ctx α) (key : String) (v : α) : Ctx α :=
  { ctx with vars := fun k => if k = key then some v else ctx.vars k }

/-- a variable named by the i-th unique key replaces the i-th argument and no other -/
theorem allArgs_override (ctx : Ctx α) (k : Kind) (g : List α) (u : List String) (i : Nat) (v : α)
    (hn : k.nargs = some (g.length : Int) ∨ k.nargs = none) (hu : u.Nodup) (hi : i < u.length)
    (hlen : u.length ≤ g.length) (h : ∀ key ∈ u, ctx.vars key = none) :
    allArgs (ctx.set u[i] v) k false g.length (g.map Except.ok) (some u) = .ok (g.set i v) := by
  have hmap : (List.range g.length).mapM (argAt (ctx.set u[i] v) k false g.length (g.map Except.ok) (some u))
      = .ok (g.set i v) := by
    apply mapM_ok_idx _ _ _ (by simp)
    intro j hj
    have hj' : j < g.length := by simpa using hj
    simp only [List.getElem_range]
    unfold argAt
    simp only [Bool.false_eq_true, if_false, List.getElem?_map, List.getElem?_eq_getElem hj', Option.map_some,
      Bool.false_or, decide_eq_true_eq]
    by_cases hju : j < u.length
    · rw [List.getElem?_eq_getElem hju]
      simp only [Ctx.set]
      by_cases hji : j = i
      · subst hji
        simp
      · have hne : u[j] ≠ u[i] := fun he => hji ((List.Nodup.getElem_inj_iff hu).mp he)
        simp [hne, h u[j] (List.getElem_mem hju), List.getElem_set_ne (Ne.symm hji)]
    · rw [List.getElem?_eq_none (Nat.le_of_not_lt hju)]
      have hji : i ≠ j := by omega
      simp [Nat.not_lt.mpr (Nat.le_of_lt hj'), List.getElem_set_ne hji]
  unfold allArgs
  rcases hn with hn | hn
  · rw [hn]
    have : ((g.length : Int) == -1) = false := by
      simp only [beq_eq_false_iff_ne, ne_eq]; omega
    simp only [this, Bool.false_eq_true, if_false, pure_eq_ok, ok_bind, Int.toNat_natCast]
    exact hmap
  · rw [hn]
    simp only [Bool.false_eq_true, if_false, pure_eq_ok, ok_bind]
    exact hmap

theorem allArgs_none_one (ctx : Ctx α) (k : Kind) (hk : k.nargs = none) (r1 : Except Err α) :
    allArgs ctx k false 1 [r1] none = (do let a ← r1; pure [a]) := by
  unfold allArgs
  rw [hk]
  simp only [Bool.false_eq_true, if_false, pure_eq_ok, ok_bind]
  show List.mapM _ [0] = _
  simp only [List.mapM_cons, List.mapM_nil, argAt]
  cases r1 <;> rfl

theorem allArgs_none_two (ctx : Ctx α) (k : Kind) (hk : k.nargs = none) (r1 r2 : Except Err α) :
    allArgs ctx k false 2 [r1, r2] none = (do let a ← r1; let b ← r2; pure [a, b]) := by
  unfold allArgs
  rw [hk]
  simp only [Bool.false_eq_true, if_false, pure_eq_ok, ok_bind]
  show List.mapM _ [0, 1] = _
  simp only [List.mapM_cons, List.mapM_nil, argAt]
  cases r1 <;> cases r2 <;> rfl

end generic

/-- the mass-action product for positive concentrations -/
theorem concProd_pos (ctx : Ctx ℝ) (c : String → ℝ) :
    ∀ (reac : List (String × ℤ)) (acc : ℝ), (∀ p ∈ reac, ctx.vars p.1 = some (c p.1) ∧ 0 < c p.1) →
      concProd ctx reac acc = .ok (acc * (reac.map fun p => c p.1 ^ p.2).prod)
  | [], acc, _ => by simp [concProd]
  | (k, v) :: rest, acc, h => by
      have hk := h (k, v) List.mem_cons_self
      have ih := concProd_pos ctx c rest (acc * c k ^ v) (fun p hp => h p (List.mem_cons_of_mem _ hp))
      simp only [concProd, get_some hk.1, ok_bind, pow_real_int hk.2, List.map_cons, List.prod_cons]
      rw [ih, mul_assoc]

/-! ### evaluation of the rate-expression classes -/

@[simp] theorem noneArg_ok {α : Type} (k : Kind) (x : α) : noneArg k (Except.ok x) = Except.ok x := rfl

theorem eval_arrhenius_node (ctx : Ctx ℝ) (a e T : ℝ) (uks : Option (List String))
    (huk : ∀ u, uks = some u → ∀ key ∈ u, ctx.vars key = none)
    (hT : ctx.vars "temperature" = some T) (hT0 : T ≠ 0) :
    eval ctx (.node .arrhenius false [.num a, .num e] uks) = .ok (a * Real.exp (-e / T)) := by
  have haa := allArgs_no_override ctx .arrhenius [a, e] uks (Or.inl rfl) huk
  simp only [List.length_cons, List.length_nil, List.map_cons, List.map_nil] at haa
  simp only [eval, evalList, call, List.map_cons, List.map_nil, noneArg_ok, List.length_cons, List.length_nil, haa, ok_bind, get_some hT, pyDiv_real hT0,
    exp_real, pure_eq_ok]

theorem childCtx_massAction (ctx : Ctx ℝ) (reac : List (String × ℤ)) (h : ctx.rxn = .some reac) :
    childCtx .massAction ctx = ctx := by
  cases ctx with
  | mk vars rxn =>
    simp only at h
    subst h
    rfl

theorem eval_massAction_node (ctx : Ctx ℝ) (inner : Val ℝ) (kc : ℝ) (reac : List (String × ℤ)) (c : String → ℝ)
    (hr : ctx.rxn = .some reac) (hi : eval ctx inner = .ok kc)
    (hc : ∀ p ∈ reac, ctx.vars p.1 = some (c p.1) ∧ 0 < c p.1) :
    eval ctx (.node .massAction false [inner] none) = .ok (kc * (reac.map fun p => c p.1 ^ p.2).prod) := by
  have haa := allArgs_no_override ctx .massAction [kc] none (Or.inl rfl) (by simp)
  simp only [List.length_cons, List.length_nil, List.map_cons, List.map_nil] at haa
  simp only [eval, evalList, call, childCtx_massAction ctx reac hr, hi, List.map_cons, List.map_nil, noneArg_ok, List.length_cons, List.length_nil, haa, ok_bind,
    rxnOf, hr, concProd_pos ctx c reac _ hc, pure_eq_ok, Nat.cast_one, one_mul]

theorem eval_eyring_node (ctx : Ctx ℝ) (c0 c1 conc0 T : ℝ) (uks : Option (List String)) (reac : List (String × ℤ))
    (huk : ∀ u, uks = some u → ∀ key ∈ u, ctx.vars key = none)
    (hT : ctx.vars "temperature" = some T) (hT0 : T ≠ 0) (hr : ctx.rxn = .some reac) (hc : 0 < conc0) :
    eval ctx (.node .eyring false [.num c0, .num c1, .num conc0] uks)
      = .ok (c0 * T * Real.exp (-c1 / T) * conc0 ^ (1 - order reac)) := by
  have haa := allArgs_no_override ctx .eyring [c0, c1, conc0] uks (Or.inl rfl) huk
  simp only [List.length_cons, List.length_nil, List.map_cons, List.map_nil] at haa
  simp only [eval, evalList, call, List.map_cons, List.map_nil, noneArg_ok, List.length_cons, List.length_nil, haa, ok_bind, get_some hT, pyDiv_real hT0,
    exp_real, pure_eq_ok, rxnOf, hr, pow_real_int hc]

theorem mkNode_arrhenius (a e : ℝ) (uks : Option (List String)) (h : ∀ u, uks = some u → u.length ≤ 2) :
    mkNode .arrhenius (.list [.num a, .num e]) uks = .ok (.node .arrhenius false [.num a, .num e] uks) := by
  cases uks with
  | none => rfl
  | some u =>
    have := h u rfl
    simp [mkNode, Kind.nargs, Kind.argNames, Kind.nargsCls, Kind.defaults]
    omega

theorem mkNode_eyring (a e : ℝ) (uks : Option (List String)) (h : ∀ u, uks = some u → u.length ≤ 3) :
    mkNode .eyring (.list [.num a, .num e]) uks = .ok (.node .eyring false [.num a, .num e, .num 1] uks) := by
  cases uks with
  | none => simp [mkNode, Kind.nargs, Kind.argNames, Kind.nargsCls, Kind.defaults, lastN]
  | some u =>
    have := h u rfl
    simp [mkNode, Kind.nargs, Kind.argNames, Kind.nargsCls, Kind.defaults, lastN]
    omega

theorem mkNode_massAction_scalar (inner : Val ℝ) (h : inner.isNode = true) :
    mkNode .massAction (.scalar inner) none = .ok (.node .massAction false [inner] none) := by
  cases inner with
  | node k na args uks => simp [mkNode, Kind.nargs, Kind.argNames, Kind.nargsCls, Kind.defaults]
  | num x => simp [Val.isNode] at h
  | str s => simp [Val.isNode] at h

/-! ### polynomials -/

/-- the explicit polynomial `Σ_j c_j · y^(m+j)` -/
def polySum (y : ℝ) (cs : List ℝ) (m : Nat) : ℝ := ((cs.zipIdx m).map fun p => p.1 * y ^ p.2).sum

theorem polyLoop_plain (x : ℝ) : ∀ (cs : List ℝ) (r : ℝ) (m : Nat),
    polyLoop false x cs (some r) (x ^ m) = .ok (some (r + polySum x cs m))
  | [], r, m => by simp [polyLoop, polySum]
  | c :: cs, r, m => by
      have ih := polyLoop_plain x cs (r + c * x ^ m) (m + 1)
      simp only [polyLoop, Bool.false_eq_true, if_false, pure_eq_ok, ok_bind, ← pow_succ, ih, polySum,
        List.zipIdx_cons, List.map_cons, List.sum_cons, add_assoc]

theorem polyLoop_recip (x : ℝ) (hx : x ≠ 0) : ∀ (cs : List ℝ) (r : ℝ) (m : Nat),
    polyLoop true x cs (some r) (x⁻¹ ^ m) = .ok (some (r + polySum x⁻¹ cs m))
  | [], r, m => by simp [polyLoop, polySum]
  | c :: cs, r, m => by
      have ih := polyLoop_recip x hx cs (r + c * x⁻¹ ^ m) (m + 1)
      have hd : x⁻¹ ^ m / x = x⁻¹ ^ (m + 1) := by rw [pow_succ, div_eq_mul_inv]
      simp only [polyLoop, if_true, pyDiv_real hx, ok_bind, hd, ih, polySum,
        List.zipIdx_cons, List.map_cons, List.sum_cons, add_assoc]

/-- first step of the loop (`res is None`) -/
theorem polyLoop_start (recip : Bool) (x : ℝ) (hx : recip = true → x ≠ 0) (c : ℝ) (cs : List ℝ) :
    polyLoop recip x (c :: cs) none 1 = .ok (some (polySum (if recip then x⁻¹ else x) (c :: cs) 0)) := by
  cases recip with
  | false =>
    have h := polyLoop_plain x cs c 1
    simp only [pow_one] at h
    simp only [polyLoop, Bool.false_eq_true, if_false, pure_eq_ok, ok_bind, Nat.cast_one, mul_one, one_mul, h]
    simp [polySum, List.zipIdx_cons]
  | true =>
    have hx' := hx rfl
    have h := polyLoop_recip x hx' cs c 1
    simp only [pow_one] at h
    have hd : (1 : ℝ) / x = x⁻¹ := one_div x
    simp only [polyLoop, if_true, Nat.cast_one, mul_one, pyDiv_real hx', hd, ok_bind, h]
    simp [polySum, List.zipIdx_cons]


theorem polyBody_spec (recip : Bool) (x : ℝ) (hx : recip = true → x ≠ 0) (c : ℝ) (cs : List ℝ) :
    polyBody recip false (c :: cs) x = .ok (polySum (if recip then x⁻¹ else x) (c :: cs) 0) := by
  simp only [polyBody, Bool.false_eq_true, if_false, pure_eq_ok, ok_bind, Nat.cast_one, polyLoop_start recip x hx c cs]

theorem polyBody_shift_spec (recip : Bool) (x a0 : ℝ) (hx : recip = true → x - a0 ≠ 0) (c : ℝ) (cs : List ℝ) :
    polyBody recip true (a0 :: c :: cs) x = .ok (polySum (if recip then (x - a0)⁻¹ else (x - a0)) (c :: cs) 0) := by
  simp only [polyBody, if_true, pure_eq_ok, ok_bind, Nat.cast_one, polyLoop_start recip (x - a0) hx c cs]

/-- evaluation of a `create_Poly` instance with numeric stored arguments -/
theorem eval_poly_node (ctx : Ctx ℝ) (p : String) (recip shift : Bool) (g : List ℝ) (uks : Option (List String)) (x : ℝ)
    (huk : ∀ u, uks = some u → ∀ key ∈ u, ctx.vars key = none) (hx : ctx.vars p = some x) :
    eval ctx (.node (.poly p recip shift) false (g.map Val.num) uks) = polyBody recip shift g x := by
  have hn : (Kind.poly p recip shift).nargs = none := by
    cases shift <;> rfl
  have haa := allArgs_no_override ctx (.poly p recip shift) g uks (Or.inr hn) huk
  have hev : ∀ (c : Ctx ℝ) (l : List ℝ), (evalList c (l.map Val.num)).map (noneArg (.poly p recip shift)) = l.map Except.ok := by
    intro c l
    induction l with
    | nil => simp [evalList]
    | cons a l ih => simp [evalList, eval, ih]
  simp only [eval, call, hev, List.length_map, haa, ok_bind, get_some hx]

/-! ### piecewise -/

theorem le_real_false (x y : ℝ) : PyNum.le x y = false ↔ ¬ x ≤ y := by
  simp [PyNum.le]

theorem le_and_real (lo x up : ℝ) : (PyNum.le lo x && PyNum.le x up) = true ↔ (lo ≤ x ∧ x ≤ up) := by
  simp [Bool.and_eq_true]

/-- the i-th interval of `lo₀, ex₀, up₀ = lo₁, ex₁, up₁ = …` contains x -/
def pwHit (x : ℝ) (b : List ℝ) (i : Nat) : Prop :=
  ∃ lo up, b[2 * i]? = some lo ∧ b[2 * i + 2]? = some up ∧ lo ≤ x ∧ x ≤ up

theorem pwHit_succ (x lo ex up : ℝ) (rest : List ℝ) (i : Nat) :
    pwHit x (lo :: ex :: up :: rest) (i + 1) ↔ pwHit x (up :: rest) i := by
  unfold pwHit
  have h1 : 2 * (i + 1) = (2 * i) + 1 + 1 := by ring
  have h2 : 2 * i + 1 + 1 + 2 = (2 * i + 2) + 1 + 1 := by ring
  rw [h1, h2]
  simp only [List.getElem?_cons_succ]

theorem pwSelect_spec (x : ℝ) : ∀ (b : List ℝ) (v : ℝ), pwSelect x b = .ok v →
    ∃ i, pwHit x b i ∧ b[2 * i + 1]? = some v ∧ ∀ j < i, ¬ pwHit x b j
  | [], v, h => by simp [pwSelect] at h
  | [_], v, h => by simp [pwSelect] at h
  | [_, _], v, h => by simp [pwSelect] at h
  | lo :: ex :: up :: rest, v, h => by
      rw [pwSelect] at h
      by_cases hc : lo ≤ x ∧ x ≤ up
      · have : (PyNum.le lo x && PyNum.le x up) = true := (le_and_real lo x up).mpr hc
        rw [this] at h
        simp only [if_true, Except.ok.injEq] at h
        refine ⟨0, ⟨lo, up, by simp, by simp, hc.1, hc.2⟩, by simp [h], by simp⟩
      · have : (PyNum.le lo x && PyNum.le x up) = false := by
          rw [← Bool.not_eq_true, le_and_real]; exact hc
        rw [this] at h
        simp only [Bool.false_eq_true, if_false] at h
        obtain ⟨i, hi, hv, hmin⟩ := pwSelect_spec x (up :: rest) v h
        refine ⟨i + 1, (pwHit_succ x lo ex up rest i).mpr hi, ?_, ?_⟩
        · have h1 : 2 * (i + 1) + 1 = (2 * i + 1) + 1 + 1 := by ring
          rw [h1]; simpa using hv
        · intro j hj
          cases j with
          | zero =>
            rintro ⟨lo', up', h0, h2, hl, hu⟩
            simp at h0 h2
            subst h0 h2
            exact hc ⟨hl, hu⟩
          | succ j => rw [pwHit_succ]; exact hmin j (by omega)
termination_by b => b.length

/-- conversely, an interval containing x makes the selection succeed -/
theorem pwSelect_complete (x : ℝ) : ∀ (b : List ℝ) (i : Nat), pwHit x b i → (∃ ex, b[2 * i + 1]? = some ex) →
    ∃ v, pwSelect x b = .ok v
  | [], i, ⟨lo, up, h0, _⟩, _ => by simp at h0
  | [_], i, ⟨lo, up, _, h2, _⟩, _ => by simp at h2
  | [_, _], i, ⟨lo, up, _, h2, _⟩, _ => by simp at h2
  | lo :: ex :: up :: rest, i, hi, hex => by
      rw [pwSelect]
      by_cases hc : (PyNum.le lo x && PyNum.le x up) = true
      · exact ⟨ex, by rw [hc]; rfl⟩
      · have hcf : (PyNum.le lo x && PyNum.le x up) = false := by rw [← Bool.not_eq_true]; exact hc
        rw [hcf]
        simp only [Bool.false_eq_true, if_false]
        cases i with
        | zero =>
          obtain ⟨lo', up', h0, h2, hl, hu⟩ := hi
          simp at h0 h2
          subst h0 h2
          exact absurd ((le_and_real _ _ _).mpr ⟨hl, hu⟩) hc
        | succ i =>
          apply pwSelect_complete x (up :: rest) i ((pwHit_succ x lo ex up rest i).mp hi)
          obtain ⟨e, he⟩ := hex
          have h1 : 2 * (i + 1) + 1 = (2 * i + 1) + 1 + 1 := by ring
          rw [h1] at he
          exact ⟨e, by simpa using he⟩
termination_by b => b.length

/-! ### operator nodes -/

theorem noneArg_eq_ok {k : Kind} {r : Except Err ℝ} {x : ℝ} : noneArg k r = .ok x ↔ r = .ok x := by
  cases r with
  | ok v => simp [noneArg]
  | error e => cases e <;> simp [noneArg] <;> split <;> simp

/-- a binary operator node evaluates both operands and combines them -/
theorem eval_add_node (ctx : Ctx ℝ) (p q : Val ℝ) (a b : ℝ) (hp : eval ctx p = .ok a) (hq : eval ctx q = .ok b) :
    eval ctx (.node .add false [p, q] none) = .ok (a + b) := by
  simp only [eval, evalList, call, childCtx, hp, hq, List.map_cons, List.map_nil, noneArg_ok, List.length_cons,
    List.length_nil, allArgs_none_two ctx .add rfl, ok_bind, pure_eq_ok]

theorem eval_sub_node (ctx : Ctx ℝ) (p q : Val ℝ) (a b : ℝ) (hp : eval ctx p = .ok a) (hq : eval ctx q = .ok b) :
    eval ctx (.node .sub false [p, q] none) = .ok (a - b) := by
  simp only [eval, evalList, call, childCtx, hp, hq, List.map_cons, List.map_nil, noneArg_ok, List.length_cons,
    List.length_nil, allArgs_none_two ctx .sub rfl, ok_bind, pure_eq_ok]

theorem eval_mul_node (ctx : Ctx ℝ) (p q : Val ℝ) (a b : ℝ) (hp : eval ctx p = .ok a) (hq : eval ctx q = .ok b) :
    eval ctx (.node .mul false [p, q] none) = .ok (a * b) := by
  simp only [eval, evalList, call, childCtx, hp, hq, List.map_cons, List.map_nil, noneArg_ok, List.length_cons,
    List.length_nil, allArgs_none_two ctx .mul rfl, ok_bind, pure_eq_ok]

theorem eval_div_node (ctx : Ctx ℝ) (p q : Val ℝ) (a b : ℝ) (hp : eval ctx p = .ok a) (hq : eval ctx q = .ok b) :
    eval ctx (.node .div false [p, q] none) = pyDiv a b := by
  simp only [eval, evalList, call, childCtx, hp, hq, List.map_cons, List.map_nil, noneArg_ok, List.length_cons,
    List.length_nil, allArgs_none_two ctx .div rfl, ok_bind, pure_eq_ok]

theorem eval_pow_node (ctx : Ctx ℝ) (p q : Val ℝ) (a b : ℝ) (hp : eval ctx p = .ok a) (hq : eval ctx q = .ok b) :
    eval ctx (.node .pow false [p, q] none) = PyNum.pow a b := by
  simp only [eval, evalList, call, childCtx, hp, hq, List.map_cons, List.map_nil, noneArg_ok, List.length_cons,
    List.length_nil, allArgs_none_two ctx .pow rfl, ok_bind, pure_eq_ok]

theorem eval_neg_node (ctx : Ctx ℝ) (p : Val ℝ) (a : ℝ) (hp : eval ctx p = .ok a) :
    eval ctx (.node .neg false [p] none) = .ok (-a) := by
  simp only [eval, evalList, call, childCtx, hp, List.map_cons, List.map_nil, noneArg_ok, List.length_cons,
    List.length_nil, allArgs_none_one ctx .neg rfl, ok_bind, pure_eq_ok]

/-- the value of a product node whose evaluation succeeds is the product of its operands' values -/
theorem eval_mul_node_inv (ctx : Ctx ℝ) (p q : Val ℝ) (c : ℝ) (h : eval ctx (.node .mul false [p, q] none) = .ok c) :
    ∃ a b, eval ctx p = .ok a ∧ eval ctx q = .ok b ∧ c = a * b := by
  simp only [eval, evalList, call, childCtx, List.map_cons, List.map_nil, List.length_cons,
    List.length_nil, allArgs_none_two ctx .mul rfl] at h
  cases hp : eval ctx p with
  | error e =>
    rw [hp] at h
    cases e <;> simp [noneArg] at h
  | ok a =>
    cases hq : eval ctx q with
    | error e =>
      rw [hp, hq] at h
      cases e <;> simp [noneArg] at h
    | ok b =>
      rw [hp, hq] at h
      simp only [noneArg_ok, ok_bind, pure_eq_ok, Except.ok.injEq] at h
      exact ⟨a, b, rfl, rfl, h.symm⟩

theorem eval_neg_node_inv (ctx : Ctx ℝ) (p : Val ℝ) (c : ℝ) (h : eval ctx (.node .neg false [p] none) = .ok c) :
    ∃ a, eval ctx p = .ok a ∧ c = -a := by
  simp only [eval, evalList, call, childCtx, List.map_cons, List.map_nil, List.length_cons,
    List.length_nil, allArgs_none_one ctx .neg rfl] at h
  cases hp : eval ctx p with
  | error e =>
    rw [hp] at h
    cases e <;> simp [noneArg] at h
  | ok a =>
    rw [hp] at h
    simp only [noneArg_ok, ok_bind, pure_eq_ok, Except.ok.injEq] at h
    exact ⟨a, rfl, h.symm⟩

mutual
/-- the shape of what the overloaded operators construct: every operator node (at any depth) has stored arguments,
no unique keys and the arity of its operator -/
def plainOps {α : Type} : Val α → Bool
  | .num _ => true
  | .str _ => true
  | .node k na args uks =>
      (match k with
       | .neg => !na && uks.isNone && args.length == 1
       | .add | .sub | .mul | .div | .pow => !na && uks.isNone && args.length == 2
       | _ => true) && plainOpsList args
def plainOpsList {α : Type} : List (Val α) → Bool
  | [] => true
  | a :: as => plainOps a && plainOpsList as
end

theorem plainOps_mul_inv {α : Type} {na : Bool} {args : List (Val α)} {uks : Option (List String)}
    (h : plainOps (.node .mul na args uks) = true) :
    ∃ p q, na = false ∧ uks = none ∧ args = [p, q] ∧ plainOps p = true ∧ plainOps q = true := by
  simp only [plainOps, Bool.and_eq_true, Bool.not_eq_true', Option.isNone_iff_eq_none, beq_iff_eq] at h
  obtain ⟨⟨⟨hna, huk⟩, hlen⟩, hl⟩ := h
  match args, hlen, hl with
  | [p, q], _, hl =>
    simp only [plainOpsList, Bool.and_eq_true, and_true] at hl
    exact ⟨p, q, hna, huk, rfl, hl.1, hl.2⟩

/-- a trivially-zero operand evaluates to zero (when it evaluates at all) -/
theorem trivZero_value (ctx : Ctx ℝ) : ∀ (v : Val ℝ), plainOps v = true → trivZero v = true →
    ∀ a, eval ctx v = .ok a → a = 0
  | .num _, _, h, _, _ => by simp [trivZero] at h
  | .str _, _, h, _, _ => by simp [trivZero] at h
  | .node k na args uks, hp, h, a, he => by
    cases k with
    | const =>
      match args, h with
      | .num x :: rest, hx0 =>
        simp only [trivZero, beq_real, Nat.cast_zero] at hx0
        cases na with
        | true => simp [eval, call] at he
        | false =>
          simp only [eval, call, Bool.false_eq_true, if_false, Except.ok.injEq] at he
          rw [← he]; exact hx0
    | mul =>
      obtain ⟨p, q, hna, huk, hargs, hpp, hpq⟩ := plainOps_mul_inv hp
      subst hna huk
      rw [hargs] at he h
      obtain ⟨x, y, hx, hy, hxy⟩ := eval_mul_node_inv ctx p q a he
      subst hxy
      cases p with
      | num _ => simp [trivZero] at h
      | str _ => simp [trivZero] at h
      | node kp nap ap up =>
        by_cases htp : trivZero (Val.node kp nap ap up) = true
        · rw [trivZero_value ctx _ hpp htp x hx, zero_mul]
        · cases q with
          | num _ => simp [trivZero, htp] at h
          | str _ => simp [trivZero, htp] at h
          | node kq naq aq uq =>
            have htq : trivZero (Val.node kq naq aq uq) = true := by simpa [trivZero, htp] using h
            rw [trivZero_value ctx _ hpq htq y hy, mul_zero]
    | _ => simp [trivZero] at h
termination_by v => sizeOf v
decreasing_by all_goals (subst hargs; simp_wf; omega)

/-! ### the overloaded operators -/

theorem plainOps_node2 {α : Type} (k : Kind) (p q : Val α) (hk : k = .add ∨ k = .sub ∨ k = .mul ∨ k = .div ∨ k = .pow)
    (hp : plainOps p = true) (hq : plainOps q = true) : plainOps (.node k false [p, q] none) = true := by
  rcases hk with h | h | h | h | h <;> subst h <;> simp [plainOps, plainOpsList, hp, hq]

/-- `_implicit_conversion` does not change the value, the shape or the class of an operand -/
theorem conv_spec (ctx : Ctx ℝ) (v v' : Val ℝ) (h : conv v = .ok v') :
    eval ctx v' = eval ctx v ∧ (plainOps v = true → plainOps v' = true) ∧ v'.isNode = true
      ∧ v'.isMassAction = v.isMassAction := by
  cases v with
  | num x =>
    simp only [conv] at h
    split at h
    · cases h
      refine ⟨?_, fun _ => by simp [constNode, plainOps, plainOpsList], rfl, rfl⟩
      simp [constNode, eval, call]
    · cases h
  | str s =>
    cases h
    refine ⟨?_, fun _ => by simp [symbolNode, plainOps, plainOpsList], rfl, rfl⟩
    simp [symbolNode, eval, call]
  | node k na args uks =>
    cases h
    exact ⟨rfl, id, rfl, rfl⟩

theorem exprAdd_hom (ctx : Ctx ℝ) (self other e : Val ℝ) (a b : ℝ) (h : exprAdd self other = .ok e)
    (hps : plainOps self = true) (hpo : plainOps other = true)
    (ha : eval ctx self = .ok a) (hb : eval ctx other = .ok b) :
    eval ctx e = .ok (a + b) ∧ plainOps e = true := by
  unfold exprAdd at h
  cases hc : conv other with
  | error err => rw [hc] at h; cases h
  | ok o =>
    rw [hc] at h
    obtain ⟨hev, hpl, _, _⟩ := conv_spec ctx other o hc
    simp only [ok_bind] at h
    by_cases htz : trivZero o = true
    · simp only [htz, if_true, pure_eq_ok, Except.ok.injEq] at h
      subst h
      have hb0 : b = 0 := trivZero_value ctx o (hpl hpo) htz b (by rw [hev, hb])
      rw [hb0, add_zero]
      exact ⟨ha, hps⟩
    · simp only [htz, Bool.false_eq_true, if_false, pure_eq_ok, Except.ok.injEq] at h
      subst h
      exact ⟨eval_add_node ctx self o a b ha (by rw [hev, hb]), plainOps_node2 .add _ _ (Or.inl rfl) hps (hpl hpo)⟩

theorem exprNeg_hom (ctx : Ctx ℝ) (self e : Val ℝ) (a : ℝ) (h : exprNeg self = .ok e)
    (hps : plainOps self = true) (ha : eval ctx self = .ok a) :
    eval ctx e = .ok (-a) ∧ plainOps e = true := by
  unfold exprNeg at h
  split at h
  · rename_i na args uks
    simp only [plainOps, Bool.and_eq_true, Bool.not_eq_true', Option.isNone_iff_eq_none, beq_iff_eq] at hps
    obtain ⟨⟨⟨hna, huk⟩, hlen⟩, hl⟩ := hps
    match args, hlen, hl, h with
    | [x], _, hl, h =>
      cases h
      subst hna huk
      obtain ⟨y, hy, hay⟩ := eval_neg_node_inv ctx e a ha
      simp only [plainOpsList, Bool.and_true] at hl
      rw [hay, neg_neg]
      exact ⟨hy, hl⟩
  · cases h
    refine ⟨eval_neg_node ctx self a ha, ?_⟩
    simp [plainOps, plainOpsList, hps]

theorem exprSub_hom (ctx : Ctx ℝ) (self other e : Val ℝ) (a b : ℝ) (h : exprSub self other = .ok e)
    (hne : other ≠ .str "") (hps : plainOps self = true) (hpo : plainOps other = true)
    (ha : eval ctx self = .ok a) (hb : eval ctx other = .ok b) :
    eval ctx e = .ok (a - b) ∧ plainOps e = true := by
  unfold exprSub at h
  -- the short-cut test
  have key : ∀ short : Bool, (short = true → b = 0) →
      (do if short then return self
          return .node .sub false [self, ← conv other] none : Except Err (Val ℝ)) = .ok e →
      eval ctx e = .ok (a - b) ∧ plainOps e = true := by
    intro short hs h
    cases short with
    | true =>
      simp only [if_true, pure_eq_ok, Except.ok.injEq] at h
      subst h
      rw [hs rfl, sub_zero]; exact ⟨ha, hps⟩
    | false =>
      simp only [Bool.false_eq_true, if_false] at h
      cases hc : conv other with
      | error err => rw [hc] at h; cases h
      | ok o =>
        rw [hc] at h
        obtain ⟨hev, hpl, _, _⟩ := conv_spec ctx other o hc
        simp only [ok_bind, pure_eq_ok, Except.ok.injEq] at h
        subst h
        exact ⟨eval_sub_node ctx self o a b ha (by rw [hev, hb]), plainOps_node2 .sub _ _ (Or.inr (Or.inl rfl)) hps (hpl hpo)⟩
  cases other with
  | num x =>
    simp only [pure_eq_ok, ok_bind] at h
    refine key _ ?_ h
    intro hx
    simp only [beq_real, Nat.cast_zero, mul_zero] at hx
    simp only [eval, Except.ok.injEq] at hb
    rw [← hb, hx]
  | str s =>
    simp only [pure_eq_ok, ok_bind] at h
    refine key _ ?_ h
    intro hx
    have : s = "" := by simpa using hx
    exact absurd (by rw [this]) hne
  | node k na args uks =>
    cases k
    case massAction =>
      simp only [pure_eq_ok] at h
      cases hu : uwArg (Val.node Kind.massAction na args uks) with
      | error err => rw [hu] at h; cases h
      | ok w =>
        rw [hu] at h
        simp only [ok_bind] at h
        cases w with
        | num x =>
          simp only at h
          split at h
          · exact key false (by simp) h
          · cases h
        | str _ => exact key false (by simp) h
        | node _ _ _ _ => exact key false (by simp) h
    all_goals (simp only [pure_eq_ok, ok_bind] at h; exact key false (by simp) h)


theorem isOne_value (ctx : Ctx ℝ) (o : Val ℝ) (b : ℝ) (h : isOne o = true) (hb : eval ctx o = .ok b) : b = 1 := by
  cases o with
  | num x =>
    simp only [isOne, beq_real, Nat.cast_one] at h
    simp only [eval, Except.ok.injEq] at hb
    rw [← hb, h]
  | str _ => simp [isOne] at h
  | node _ _ _ _ => simp [isOne] at h

/-- `Expr.__mul__` for operands that are not `MassAction` instances -/
theorem exprMul_hom (ctx : Ctx ℝ) (self other e : Val ℝ) (a b : ℝ) (h : exprMul self other = .ok e)
    (hms : self.isMassAction = false) (hmo : other.isMassAction = false)
    (hps : plainOps self = true) (hpo : plainOps other = true)
    (ha : eval ctx self = .ok a) (hb : eval ctx other = .ok b) :
    eval ctx e = .ok (a * b) ∧ plainOps e = true := by
  unfold exprMul at h
  simp only [hms, hmo, Bool.false_eq_true, if_false] at h
  by_cases h1 : isOne other = true
  · simp only [h1, if_true, pure_eq_ok, Except.ok.injEq] at h
    subst h
    rw [isOne_value ctx other b h1 hb, mul_one]; exact ⟨ha, hps⟩
  · simp only [h1, Bool.false_eq_true, if_false] at h
    cases hc : conv other with
    | error err => rw [hc] at h; cases h
    | ok o =>
      rw [hc] at h
      obtain ⟨hev, hpl, _, _⟩ := conv_spec ctx other o hc
      simp only [ok_bind, pure_eq_ok, Except.ok.injEq] at h
      subst h
      exact ⟨eval_mul_node ctx self o a b ha (by rw [hev, hb]),
        plainOps_node2 .mul _ _ (Or.inr (Or.inr (Or.inl rfl))) hps (hpl hpo)⟩

/-- `Expr.__truediv__` for operands that are not `MassAction` instances: the value is Python's `a / b` -/
theorem exprDiv_hom (ctx : Ctx ℝ) (self other e : Val ℝ) (a b : ℝ) (h : exprDiv self other = .ok e)
    (hms : self.isMassAction = false) (hmo : other.isMassAction = false)
    (hps : plainOps self = true) (hpo : plainOps other = true)
    (ha : eval ctx self = .ok a) (hb : eval ctx other = .ok b) :
    eval ctx e = pyDiv a b ∧ plainOps e = true := by
  unfold exprDiv at h
  by_cases h1 : isOne other = true
  · simp only [h1, if_true, pure_eq_ok, Except.ok.injEq] at h
    subst h
    have hb1 := isOne_value ctx other b h1 hb
    rw [hb1, pyDiv_real one_ne_zero, div_one]; exact ⟨ha, hps⟩
  · simp only [h1, hms, hmo, Bool.false_eq_true, if_false] at h
    cases hc : conv other with
    | error err => rw [hc] at h; cases h
    | ok o =>
      rw [hc] at h
      obtain ⟨hev, hpl, _, _⟩ := conv_spec ctx other o hc
      simp only [ok_bind, pure_eq_ok, Except.ok.injEq] at h
      subst h
      exact ⟨eval_div_node ctx self o a b ha (by rw [hev, hb]),
        plainOps_node2 .div _ _ (Or.inr (Or.inr (Or.inr (Or.inl rfl)))) hps (hpl hpo)⟩

/-- `other / self` through `Expr.__rtruediv__` (self not a `MassAction`) -/
theorem exprRDiv_hom (ctx : Ctx ℝ) (self other e : Val ℝ) (a b : ℝ) (h : exprRDiv self other = .ok e)
    (hms : self.isMassAction = false) (hps : plainOps self = true) (hpo : plainOps other = true)
    (ha : eval ctx self = .ok a) (hb : eval ctx other = .ok b) :
    eval ctx e = pyDiv b a ∧ plainOps e = true := by
  unfold exprRDiv at h
  simp only [hms, Bool.false_eq_true, if_false] at h
  cases hc : conv other with
  | error err => rw [hc] at h; cases h
  | ok o =>
    rw [hc] at h
    obtain ⟨hev, hpl, _, _⟩ := conv_spec ctx other o hc
    simp only [ok_bind, pure_eq_ok, Except.ok.injEq] at h
    subst h
    exact ⟨eval_div_node ctx o self b a (by rw [hev, hb]) ha,
      plainOps_node2 .div _ _ (Or.inr (Or.inr (Or.inr (Or.inl rfl)))) (hpl hpo) hps⟩

/-- `l ** r` -/
theorem pyPow_hom (ctx : Ctx ℝ) (l r e : Val ℝ) (a b : ℝ) (h : pyPow l r = .ok e)
    (hpl : plainOps l = true) (hpr : plainOps r = true)
    (ha : eval ctx l = .ok a) (hb : eval ctx r = .ok b) :
    eval ctx e = PyNum.pow a b ∧ plainOps e = true := by
  unfold pyPow at h
  split at h
  · cases hc : conv r with
    | error err => rw [hc] at h; cases h
    | ok o =>
      rw [hc] at h
      obtain ⟨hev, hpl', _, _⟩ := conv_spec ctx r o hc
      simp only [ok_bind, pure_eq_ok, Except.ok.injEq] at h
      subst h
      exact ⟨eval_pow_node ctx l o a b ha (by rw [hev, hb]),
        plainOps_node2 .pow _ _ (Or.inr (Or.inr (Or.inr (Or.inr rfl)))) hpl (hpl' hpr)⟩
  · split at h
    · cases hc : conv l with
      | error err => rw [hc] at h; cases h
      | ok o =>
        rw [hc] at h
        obtain ⟨hev, hpl', _, _⟩ := conv_spec ctx l o hc
        simp only [ok_bind, pure_eq_ok, Except.ok.injEq] at h
        subst h
        exact ⟨eval_pow_node ctx o r a b (by rw [hev, ha]) hb,
          plainOps_node2 .pow _ _ (Or.inr (Or.inr (Or.inr (Or.inr rfl)))) (hpl' hpl) hpr⟩
    · cases h

/-! ### arithmetic with a `MassAction` (UnaryWrapper): coefficient level -/

theorem uwArg_plain (c : Val ℝ) : uwArg (.node .massAction false [c] none) = .ok c := rfl

theorem isMA_ma (na : Bool) (args : List (Val ℝ)) (uks : Option (List String)) :
    (Val.node Kind.massAction na args uks).isMassAction = true := rfl

theorem isOne_node_false (k : Kind) (na : Bool) (args : List (Val ℝ)) (uks : Option (List String)) :
    isOne (Val.node k na args uks) = false := rfl

/-- `ma * o`, `o * ma`, `ma / o`, `o / ma` for `ma = MassAction([c])`: the result is `MassAction([c ∘ o])` -/
theorem massAction_ops (ctx : Ctx ℝ) (c o e : Val ℝ) (k b : ℝ) (reac : List (String × ℤ)) (conc : String → ℝ)
    (hr : ctx.rxn = .some reac) (hc : ∀ p ∈ reac, ctx.vars p.1 = some (conc p.1) ∧ 0 < conc p.1)
    (hk : eval ctx c = .ok k) (hb : eval ctx o = .ok b) (hmo : o.isMassAction = false) :
    let ma : Val ℝ := .node .massAction false [c] none
    let P := (reac.map fun p => conc p.1 ^ p.2).prod
    (pyMul ma o = .ok e → eval ctx e = .ok (k * b * P))
    ∧ (pyMul o ma = .ok e → eval ctx e = .ok (k * b * P))
    ∧ (pyDivOp ma o = .ok e → b ≠ 0 → eval ctx e = .ok (k / b * P))
    ∧ (pyDivOp o ma = .ok e → k ≠ 0 → eval ctx e = .ok (b / k * P)) := by
  intro ma P
  have hmul : ∀ e, exprMul ma o = .ok e → eval ctx e = .ok (k * b * P) := by
    intro e h
    unfold exprMul at h
    simp only [ma, isMA_ma, if_true, uwArg_plain, ok_bind] at h
    cases hcv : conv o with
    | error err => rw [hcv] at h; cases h
    | ok o' =>
      rw [hcv] at h
      obtain ⟨hev, _, _, _⟩ := conv_spec ctx o o' hcv
      simp only [ok_bind, pure_eq_ok, Except.ok.injEq] at h
      subst h
      exact eval_massAction_node ctx _ (k * b) reac conc hr (eval_mul_node ctx c o' k b hk (by rw [hev, hb])) hc
  have hrdiv : ∀ e, exprRDiv ma o = .ok e → k ≠ 0 → eval ctx e = .ok (b / k * P) := by
    intro e h hk0
    unfold exprRDiv at h
    simp only [ma, isMA_ma, if_true, uwArg_plain, ok_bind] at h
    cases hcv : conv o with
    | error err => rw [hcv] at h; cases h
    | ok o' =>
      rw [hcv] at h
      obtain ⟨hev, _, _, _⟩ := conv_spec ctx o o' hcv
      simp only [ok_bind, pure_eq_ok, Except.ok.injEq] at h
      subst h
      have hd := eval_div_node ctx o' c b k (by rw [hev, hb]) hk
      rw [pyDiv_real hk0] at hd
      exact eval_massAction_node ctx _ (b / k) reac conc hr hd hc
  refine ⟨?_, ?_, ?_, ?_⟩
  · intro h
    unfold pyMul at h
    simp only [ma, Val.isNode, if_true] at h
    exact hmul e h
  · intro h
    unfold pyMul at h
    split at h
    · unfold exprMul at h
      simp only [hmo, Bool.false_eq_true, if_false, ma, isOne_node_false, isMA_ma, if_true, uwArg_plain,
        ok_bind] at h
      cases hcv : conv o with
      | error err => rw [hcv] at h; cases h
      | ok o' =>
        rw [hcv] at h
        obtain ⟨hev, _, _, _⟩ := conv_spec ctx o o' hcv
        simp only [ok_bind, pure_eq_ok, Except.ok.injEq] at h
        subst h
        exact eval_massAction_node ctx _ (k * b) reac conc hr (eval_mul_node ctx c o' k b hk (by rw [hev, hb])) hc
    · simp only [ma, Val.isNode, if_true] at h
      exact hmul e h
  · intro h hb0
    unfold pyDivOp at h
    simp only [ma, Val.isNode, if_true] at h
    unfold exprDiv at h
    by_cases h1 : isOne o = true
    · simp only [h1, if_true, pure_eq_ok, Except.ok.injEq] at h
      subst h
      rw [isOne_value ctx o b h1 hb, div_one]
      have := eval_massAction_node ctx c k reac conc hr hk hc
      exact this
    · simp only [h1, Bool.false_eq_true, if_false, isMA_ma, if_true, uwArg_plain, ok_bind] at h
      cases hcv : conv o with
      | error err => rw [hcv] at h; cases h
      | ok o' =>
        rw [hcv] at h
        obtain ⟨hev, _, _, _⟩ := conv_spec ctx o o' hcv
        simp only [ok_bind, pure_eq_ok, Except.ok.injEq] at h
        subst h
        have hd := eval_div_node ctx c o' k b hk (by rw [hev, hb])
        rw [pyDiv_real hb0] at hd
        exact eval_massAction_node ctx _ (k / b) reac conc hr hd hc
  · intro h hk0
    unfold pyDivOp at h
    split at h
    · unfold exprDiv at h
      simp only [ma, isOne_node_false, Bool.false_eq_true, if_false, hmo, isMA_ma, if_true] at h
      exact hrdiv e h hk0
    · simp only [ma, Val.isNode, if_true] at h
      exact hrdiv e h hk0

/-! ### concrete witnesses (exact rationals) and backend homomorphisms -/

/-- `variables = {'A': 2, 'T': 3}`, `reaction = 2 A -> …` -/
def wctx : Ctx Rat := ⟨fun k => if k = "A" then some 2 else if k = "T" then some 3 else none, .some [("A", 2)]⟩

instance : DecidableEq (Except Err Rat) := fun a b =>
  match a, b with
  | .ok x, .ok y => if h : x = y then isTrue (by rw [h]) else isFalse (by intro h'; cases h'; exact h rfl)
  | .error x, .error y => if h : x = y then isTrue (by rw [h]) else isFalse (by intro h'; cases h'; exact h rfl)
  | .ok _, .error _ => isFalse (by intro h; cases h)
  | .error _, .ok _ => isFalse (by intro h; cases h)

/-- a map between two number structures that commutes with the arithmetic operations, integer literals and `exp`:
floats → magnitudes of quantities in consistent units, numbers → symbolic expressions (with `φ⁻¹` = substitution), … -/
structure BackendHom {α β : Type} [Add α] [Sub α] [Mul α] [Div α] [Neg α] [NatCast α] [HasExp α]
    [Add β] [Sub β] [Mul β] [Div β] [Neg β] [NatCast β] [HasExp β] (φ : α → β) : Prop where
  map_add : ∀ x y, φ (x + y) = φ x + φ y
  map_sub : ∀ x y, φ (x - y) = φ x - φ y
  map_mul : ∀ x y, φ (x * y) = φ x * φ y
  map_div : ∀ x y, φ (x / y) = φ x / φ y
  map_neg : ∀ x, φ (-x) = -φ x
  map_natCast : ∀ n : Nat, φ (n : α) = (n : β)
  map_exp : ∀ x, φ (HasExp.exp x) = HasExp.exp (φ x)

section
variable {α β : Type} [Add α] [Sub α] [Mul α] [Div α] [Neg α] [NatCast α] [HasExp α]
    [Add β] [Sub β] [Mul β] [Div β] [Neg β] [NatCast β] [HasExp β] {φ : α → β}

theorem BackendHom.map_dec (h : BackendHom φ) (m : Int) (k : Nat) : φ (Num.dec m k) = Num.dec m k := by
  unfold Num.dec Num.ofInt
  rw [h.map_div, h.map_natCast]
  split
  · rw [h.map_neg, h.map_natCast]
  · rw [h.map_natCast]

theorem gen_naturality (h : BackendHom φ) (x y z : α) :
    φ (Gen.arrheniusEquation x y z) = Gen.arrheniusEquation (φ x) (φ y) (φ z)
    ∧ φ (Gen.eyringEquation x y z) = Gen.eyringEquation (φ x) (φ y) (φ z)
    ∧ φ (Gen.arrheniusFromRateconstA x y z) = Gen.arrheniusFromRateconstA (φ x) (φ y) (φ z)
    ∧ φ (Gen.arrheniusEaOverR x) = Gen.arrheniusEaOverR (φ x)
    ∧ φ (Gen.eyringKBhExpDSR x) = Gen.eyringKBhExpDSR (φ x)
    ∧ φ (Gen.eyringDHOverR x) = Gen.eyringDHOverR (φ x) := by
  simp only [Gen.arrheniusEquation, Gen.eyringEquation, Gen.arrheniusFromRateconstA, Gen.arrheniusEaOverR,
    Gen.eyringKBhExpDSR, Gen.eyringDHOverR, Gen.getR, Gen.getKBOverH, h.map_mul, h.map_div, h.map_neg, h.map_exp,
    h.map_dec, and_self]
end

end ChemModel.PyExpr
