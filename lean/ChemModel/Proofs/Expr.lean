/-
C16 — lemmas about the expression model (`Model/Expr.lean`) and the generated rate-constant functions
(`Gen/FnRateConst.lean`) over ℝ.
-/
import ChemModel.Model.Expr
import ChemModel.Gen.FnRateConst
import ChemModel.Proofs.NumReal
import Mathlib.Tactic.Linarith
import Mathlib.Tactic.NormNum
set_option autoImplicit false

namespace ChemModel.PyExpr
open ChemModel
open scoped Classical

/-- ℝ as a Python number type: `==`, `<=` decided classically; `x ** y` is the real power where Python returns a real
number (`ZeroDivisionError` for `0 ** negative`, a complex number for a negative base with a non-integer exponent);
`exp`, `sin` total; `log10` with `math.log10`'s `ValueError`. -/
noncomputable instance instPyNumReal : PyNum ℝ where
  beq x y := decide (x = y)
  le x y := decide (x ≤ y)
  isScalar _ := true
  pow x y :=
    if x = 0 ∧ y < 0 then .error .zeroDivision
    else if x < 0 ∧ ¬ ∃ n : ℤ, y = n then .error .complexResult
    else .ok (x ^ y)
  exp x := .ok (Real.exp x)
  log10 x := if x ≤ 0 then .error .valueError else .ok (Real.log x / Real.log 10)
  sin x := .ok (Real.sin x)

@[simp] theorem beq_real (x y : ℝ) : PyNum.beq x y = true ↔ x = y := by
  simp [PyNum.beq]

@[simp] theorem beq_real_false (x y : ℝ) : PyNum.beq x y = false ↔ x ≠ y := by
  simp [PyNum.beq]

@[simp] theorem le_real (x y : ℝ) : PyNum.le x y = true ↔ x ≤ y := by
  simp [PyNum.le]

@[simp] theorem exp_real (x : ℝ) : PyNum.exp x = .ok (Real.exp x) := rfl

theorem pyDiv_real {x y : ℝ} (h : y ≠ 0) : pyDiv x y = .ok (x / y) := by
  unfold pyDiv
  have : PyNum.beq y (((0 : Nat)) : ℝ) = false := by simp [h]
  rw [this]; rfl

theorem pyDiv_real_zero (x : ℝ) : pyDiv x 0 = .error .zeroDivision := by
  unfold pyDiv
  have : PyNum.beq (0 : ℝ) (((0 : Nat)) : ℝ) = true := by simp
  rw [this]; rfl

/-- a positive base to an integer power (the exponents of `active_conc_prod` and of `conc0 ** (1 - order)`) -/
theorem pow_real_int {x : ℝ} (hx : 0 < x) (n : ℤ) : PyNum.pow x (Num.ofInt n : ℝ) = .ok (x ^ n) := by
  have h1 : ¬ (x = 0 ∧ (Num.ofInt n : ℝ) < 0) := fun h => (ne_of_gt hx) h.1
  have h2 : ¬ (x < 0 ∧ ¬ ∃ m : ℤ, (Num.ofInt n : ℝ) = m) := fun h => (not_lt.mpr hx.le) h.1
  show (if x = 0 ∧ (Num.ofInt n : ℝ) < 0 then Except.error Err.zeroDivision
      else if x < 0 ∧ ¬ ∃ m : ℤ, (Num.ofInt n : ℝ) = m then Except.error Err.complexResult
      else Except.ok (x ^ (Num.ofInt n : ℝ))) = _
  rw [if_neg h1, if_neg h2, NumReal.ofInt_eq, Real.rpow_intCast]

/-! ### the `Except` monad -/

@[simp] theorem ok_bind {ε β γ : Type} (a : β) (f : β → Except ε γ) : (Except.ok a >>= f) = f a := rfl
@[simp] theorem error_bind {ε β γ : Type} (e : ε) (f : β → Except ε γ) : (Except.error e >>= f) = Except.error e := rfl
@[simp] theorem pure_eq_ok {ε β : Type} (a : β) : (pure a : Except ε β) = Except.ok a := rfl
@[simp] theorem throw_eq_error {ε β : Type} (e : ε) : (throw e : Except ε β) = Except.error e := rfl

/-! ### variables, arguments -/

theorem get_some {ctx : Ctx ℝ} {k : String} {v : ℝ} (h : ctx.vars k = some v) : ctx.get k = .ok v := by
  simp [Ctx.get, h]

section generic
variable {α : Type} [Add α] [Sub α] [Mul α] [Div α] [Neg α] [NatCast α] [PyNum α]

/-- without a matching variable every unique key falls back to the stored argument -/
theorem argAt_no_override (ctx : Ctx α) (k : Kind) (vals : List (Except Err α)) (uks : Option (List String))
    (h : ∀ u, uks = some u → ∀ key ∈ u, ctx.vars key = none) (i : Nat) (hi : i < vals.length) :
    argAt ctx k false vals.length vals uks i = vals[i] := by
  unfold argAt
  cases uks with
  | none => simp [hi]
  | some u =>
    simp only [Bool.false_eq_true, if_false, List.getElem?_eq_getElem hi, Bool.false_or, decide_eq_true_eq]
    cases hk : u[i]? with
    | none => simp [Nat.not_lt.mpr (Nat.le_of_lt hi)]
    | some key =>
      have hm : key ∈ u := List.mem_of_getElem? hk
      simp [h u rfl key hm]

/-- `mapM` over a list on which the function succeeds -/
theorem mapM_ok {β γ : Type} (f : β → Except Err γ) (g : β → γ) :
    ∀ l : List β, (∀ x ∈ l, f x = .ok (g x)) → l.mapM f = .ok (l.map g)
  | [], _ => rfl
  | a :: l, h => by
      rw [List.mapM_cons, h a (List.mem_cons_self), mapM_ok f g l (fun x hx => h x (List.mem_cons_of_mem _ hx))]
      rfl

theorem mapM_ok_idx {β γ : Type} (f : β → Except Err γ) :
    ∀ (l : List β) (r : List γ) (hl : l.length = r.length),
      (∀ i (h : i < l.length), f l[i] = .ok (r[i]'(hl ▸ h))) → l.mapM f = .ok r
  | [], [], _, _ => rfl
  | [], _ :: _, hl, _ => by simp at hl
  | _ :: _, [], hl, _ => by simp at hl
  | a :: l, b :: r, hl, h => by
      have h0 := h 0 (by simp)
      simp only [List.getElem_cons_zero] at h0
      have ih := mapM_ok_idx f l r (by simpa using hl) (fun i hi => by
        have := h (i + 1) (by simp; omega)
        simpa using this)
      rw [List.mapM_cons, h0, ih]
      rfl

/-- all arguments of an instance whose stored arguments evaluate to `g` and whose unique keys (if any) have no
matching variable -/
theorem allArgs_no_override (ctx : Ctx α) (k : Kind) (g : List α) (uks : Option (List String))
    (hn : k.nargs = some (g.length : Int) ∨ k.nargs = none)
    (h : ∀ u, uks = some u → ∀ key ∈ u, ctx.vars key = none) :
    allArgs ctx k false g.length (g.map Except.ok) uks = .ok g := by
  have hmap : (List.range g.length).mapM (argAt ctx k false g.length (g.map Except.ok) uks) = .ok g := by
    apply mapM_ok_idx _ _ _ (by simp)
    intro i hi
    have hi' : i < (g.map (Except.ok (ε := Err))).length := by simpa using hi
    have := argAt_no_override ctx k (g.map Except.ok) uks h i hi'
    simp only [List.length_map] at this
    simp [this]
  unfold allArgs
  rcases hn with hn | hn
  · rw [hn]
    have : ((g.length : Int) == -1) = false := by
      simp only [beq_eq_false_iff_ne, ne_eq]; omega
    simp only [this, Bool.false_eq_true, if_false, pure_eq_ok, ok_bind, Int.toNat_natCast]
    exact hmap
  · rw [hn]
    simp only [Bool.false_eq_true, if_false, pure_eq_ok, ok_bind]
    exact hmap
/-- `variables` with one more entry `key: v` -/
def Ctx.set (ctx : Ctx α) (key : String) (v : α) : Ctx α :=
  { ctx with vars := fun k => if k = key then some v else ctx.vars k }

/-- a variable named by the i-th unique key replaces the i-th argument and no other -/
theorem allArgs_override (ctx : Ctx α) (k : Kind) (g : List α) (u : List String) (i : Nat) (v : α)
    (hn : k.nargs = some (g.length : Int) ∨ k.nargs = none) (hu : u.Nodup) (hi : i < u.length)
    (hlen : u.length ≤ g.length) (h : ∀ key ∈ u, ctx.vars key = none) :
    allArgs (ctx.set u[i] v) k false g.length (g.map Except.ok) (some u) = .ok (g.set i v) := by
  have hmap : (List.range g.length).mapM (argAt (ctx.set u[i] v) k false g.length (g.map Except.ok) (some u))
      = .ok (g.set i v) := by
    apply mapM_ok_idx _ _ _ (by simp)
    intro j hj
    have hj' : j < g.length := by simpa using hj
    simp only [List.getElem_range]
    unfold argAt
    simp only [Bool.false_eq_true, if_false, List.getElem?_map, List.getElem?_eq_getElem hj', Option.map_some,
      Bool.false_or, decide_eq_true_eq]
    by_cases hju : j < u.length
    · rw [List.getElem?_eq_getElem hju]
      simp only [Ctx.set]
      by_cases hji : j = i
      · subst hji
        simp
      · have hne : u[j] ≠ u[i] := fun he => hji ((List.Nodup.getElem_inj_iff hu).mp he)
        simp [hne, h u[j] (List.getElem_mem hju), List.getElem_set_ne (Ne.symm hji)]
    · rw [List.getElem?_eq_none (Nat.le_of_not_lt hju)]
      have hji : i ≠ j := by omega
      simp [Nat.not_lt.mpr (Nat.le_of_lt hj'), List.getElem_set_ne hji]
  unfold allArgs
  rcases hn with hn | hn
  · rw [hn]
    have : ((g.length : Int) == -1) = false := by
      simp only [beq_eq_false_iff_ne, ne_eq]; omega
    simp only [this, Bool.false_eq_true, if_false, pure_eq_ok, ok_bind, Int.toNat_natCast]
    exact hmap
  · rw [hn]
    simp only [Bool.false_eq_true, if_false, pure_eq_ok, ok_bind]
    exact hmap

end generic

/-- the mass-action product for positive concentrations -/
theorem concProd_pos (ctx : Ctx ℝ) (c : String → ℝ) :
    ∀ (reac : List (String × ℤ)) (acc : ℝ), (∀ p ∈ reac, ctx.vars p.1 = some (c p.1) ∧ 0 < c p.1) →
      concProd ctx reac acc = .ok (acc * (reac.map fun p => c p.1 ^ p.2).prod)
  | [], acc, _ => by simp [concProd]
  | (k, v) :: rest, acc, h => by
      have hk := h (k, v) List.mem_cons_self
      have ih := concProd_pos ctx c rest (acc * c k ^ v) (fun p hp => h p (List.mem_cons_of_mem _ hp))
      simp only [concProd, get_some hk.1, ok_bind, pow_real_int hk.2, List.map_cons, List.prod_cons]
      rw [ih, mul_assoc]

/-! ### evaluation of the rate-expression classes -/

@[simp] theorem noneArg_ok {α : Type} (k : Kind) (x : α) : noneArg k (Except.ok x) = Except.ok x := rfl

theorem eval_arrhenius_node (ctx : Ctx ℝ) (a e T : ℝ) (uks : Option (List String))
    (huk : ∀ u, uks = some u → ∀ key ∈ u, ctx.vars key = none)
    (hT : ctx.vars "temperature" = some T) (hT0 : T ≠ 0) :
    eval ctx (.node .arrhenius false [.num a, .num e] uks) = .ok (a * Real.exp (-e / T)) := by
  have haa := allArgs_no_override ctx .arrhenius [a, e] uks (Or.inl rfl) huk
  simp only [List.length_cons, List.length_nil, List.map_cons, List.map_nil] at haa
  simp only [eval, evalList, call, List.map_cons, List.map_nil, noneArg_ok, List.length_cons, List.length_nil, haa, ok_bind, get_some hT, pyDiv_real hT0,
    exp_real, pure_eq_ok]

theorem childCtx_massAction (ctx : Ctx ℝ) (reac : List (String × ℤ)) (h : ctx.rxn = .some reac) :
    childCtx .massAction ctx = ctx := by
  cases ctx with
  | mk vars rxn =>
    simp only at h
    subst h
    rfl

theorem eval_massAction_node (ctx : Ctx ℝ) (inner : Val ℝ) (kc : ℝ) (reac : List (String × ℤ)) (c : String → ℝ)
    (hr : ctx.rxn = .some reac) (hi : eval ctx inner = .ok kc)
    (hc : ∀ p ∈ reac, ctx.vars p.1 = some (c p.1) ∧ 0 < c p.1) :
    eval ctx (.node .massAction false [inner] none) = .ok (kc * (reac.map fun p => c p.1 ^ p.2).prod) := by
  have haa := allArgs_no_override ctx .massAction [kc] none (Or.inl rfl) (by simp)
  simp only [List.length_cons, List.length_nil, List.map_cons, List.map_nil] at haa
  simp only [eval, evalList, call, childCtx_massAction ctx reac hr, hi, List.map_cons, List.map_nil, noneArg_ok, List.length_cons, List.length_nil, haa, ok_bind,
    rxnOf, hr, concProd_pos ctx c reac _ hc, pure_eq_ok, Nat.cast_one, one_mul]

theorem eval_eyring_node (ctx : Ctx ℝ) (c0 c1 conc0 T : ℝ) (uks : Option (List String)) (reac : List (String × ℤ))
    (huk : ∀ u, uks = some u → ∀ key ∈ u, ctx.vars key = none)
    (hT : ctx.vars "temperature" = some T) (hT0 : T ≠ 0) (hr : ctx.rxn = .some reac) (hc : 0 < conc0) :
    eval ctx (.node .eyring false [.num c0, .num c1, .num conc0] uks)
      = .ok (c0 * T * Real.exp (-c1 / T) * conc0 ^ (1 - order reac)) := by
  have haa := allArgs_no_override ctx .eyring [c0, c1, conc0] uks (Or.inl rfl) huk
  simp only [List.length_cons, List.length_nil, List.map_cons, List.map_nil] at haa
  simp only [eval, evalList, call, List.map_cons, List.map_nil, noneArg_ok, List.length_cons, List.length_nil, haa, ok_bind, get_some hT, pyDiv_real hT0,
    exp_real, pure_eq_ok, rxnOf, hr, pow_real_int hc]

theorem mkNode_arrhenius (a e : ℝ) (uks : Option (List String)) (h : ∀ u, uks = some u → u.length ≤ 2) :
    mkNode .arrhenius (.list [.num a, .num e]) uks = .ok (.node .arrhenius false [.num a, .num e] uks) := by
  cases uks with
  | none => rfl
  | some u =>
    have := h u rfl
    simp [mkNode, Kind.nargs, Kind.argNames, Kind.nargsCls, Kind.defaults]
    omega

theorem mkNode_eyring (a e : ℝ) (uks : Option (List String)) (h : ∀ u, uks = some u → u.length ≤ 3) :
    mkNode .eyring (.list [.num a, .num e]) uks = .ok (.node .eyring false [.num a, .num e, .num 1] uks) := by
  cases uks with
  | none => simp [mkNode, Kind.nargs, Kind.argNames, Kind.nargsCls, Kind.defaults, lastN]
  | some u =>
    have := h u rfl
    simp [mkNode, Kind.nargs, Kind.argNames, Kind.nargsCls, Kind.defaults, lastN]
    omega

theorem mkNode_massAction_scalar (inner : Val ℝ) (h : inner.isNode = true) :
    mkNode .massAction (.scalar inner) none = .ok (.node .massAction false [inner] none) := by
  cases inner with
  | node k na args uks => simp [mkNode, Kind.nargs, Kind.argNames, Kind.nargsCls, Kind.defaults]
  | num x => simp [Val.isNode] at h
  | str s => simp [Val.isNode] at h

/-! ### polynomials -/

/-- the explicit polynomial `Σ_j c_j · y^(m+j)` -/
def polySum (y : ℝ) (cs : List ℝ) (m : Nat) : ℝ := ((cs.zipIdx m).map fun p => p.1 * y ^ p.2).sum

theorem polyLoop_plain (x : ℝ) : ∀ (cs : List ℝ) (r : ℝ) (m : Nat),
    polyLoop false x cs (some r) (x ^ m) = .ok (some (r + polySum x cs m))
  | [], r, m => by simp [polyLoop, polySum]
  | c :: cs, r, m => by
      have ih := polyLoop_plain x cs (r + c * x ^ m) (m + 1)
      simp only [polyLoop, Bool.false_eq_true, if_false, pure_eq_ok, ok_bind, ← pow_succ, ih, polySum,
        List.zipIdx_cons, List.map_cons, List.sum_cons, add_assoc]

theorem polyLoop_recip (x : ℝ) (hx : x ≠ 0) : ∀ (cs : List ℝ) (r : ℝ) (m : Nat),
    polyLoop true x cs (some r) (x⁻¹ ^ m) = .ok (some (r + polySum x⁻¹ cs m))
  | [], r, m => by simp [polyLoop, polySum]
  | c :: cs, r, m => by
      have ih := polyLoop_recip x hx cs (r + c * x⁻¹ ^ m) (m + 1)
      have hd : x⁻¹ ^ m / x = x⁻¹ ^ (m + 1) := by rw [pow_succ, div_eq_mul_inv]
      simp only [polyLoop, if_true, pyDiv_real hx, ok_bind, hd, ih, polySum,
        List.zipIdx_cons, List.map_cons, List.sum_cons, add_assoc]

/-- first step of the loop (`res is None`) -/
theorem polyLoop_start (recip : Bool) (x : ℝ) (hx : recip = true → x ≠ 0) (c : ℝ) (cs : List ℝ) :
    polyLoop recip x (c :: cs) none 1 = .ok (some (polySum (if recip then x⁻¹ else x) (c :: cs) 0)) := by
  cases recip with
  | false =>
    have h := polyLoop_plain x cs c 1
    simp only [pow_one] at h
    simp only [polyLoop, Bool.false_eq_true, if_false, pure_eq_ok, ok_bind, Nat.cast_one, mul_one, one_mul, h]
    simp [polySum, List.zipIdx_cons]
  | true =>
    have hx' := hx rfl
    have h := polyLoop_recip x hx' cs c 1
    simp only [pow_one] at h
    have hd : (1 : ℝ) / x = x⁻¹ := one_div x
    simp only [polyLoop, if_true, Nat.cast_one, mul_one, pyDiv_real hx', hd, ok_bind, h]
    simp [polySum, List.zipIdx_cons]


theorem polyBody_spec (recip : Bool) (x : ℝ) (hx : recip = true → x ≠ 0) (c : ℝ) (cs : List ℝ) :
    polyBody recip false (c :: cs) x = .ok (polySum (if recip then x⁻¹ else x) (c :: cs) 0) := by
  simp only [polyBody, Bool.false_eq_true, if_false, pure_eq_ok, ok_bind, Nat.cast_one, polyLoop_start recip x hx c cs]

theorem polyBody_shift_spec (recip : Bool) (x a0 : ℝ) (hx : recip = true → x - a0 ≠ 0) (c : ℝ) (cs : List ℝ) :
    polyBody recip true (a0 :: c :: cs) x = .ok (polySum (if recip then (x - a0)⁻¹ else (x - a0)) (c :: cs) 0) := by
  simp only [polyBody, if_true, pure_eq_ok, ok_bind, Nat.cast_one, polyLoop_start recip (x - a0) hx c cs]

/-- evaluation of a `create_Poly` instance with numeric stored arguments -/
theorem eval_poly_node (ctx : Ctx ℝ) (p : String) (recip shift : Bool) (g : List ℝ) (uks : Option (List String)) (x : ℝ)
    (huk : ∀ u, uks = some u → ∀ key ∈ u, ctx.vars key = none) (hx : ctx.vars p = some x) :
    eval ctx (.node (.poly p recip shift) false (g.map Val.num) uks) = polyBody recip shift g x := by
  have hn : (Kind.poly p recip shift).nargs = none := by
    cases shift <;> rfl
  have haa := allArgs_no_override ctx (.poly p recip shift) g uks (Or.inr hn) huk
  have hev : ∀ (c : Ctx ℝ) (l : List ℝ), (evalList c (l.map Val.num)).map (noneArg (.poly p recip shift)) = l.map Except.ok := by
    intro c l
    induction l with
    | nil => simp [evalList]
    | cons a l ih => simp [evalList, eval, ih]
  simp only [eval, call, hev, List.length_map, haa, ok_bind, get_some hx]

end ChemModel.PyExpr
