/-
C16 — lemmas about the expression model (`Model/Expr.lean`) and the generated rate-constant functions
(`Gen/FnRateConst.lean`) over ℝ.
-/
import ChemModel.Model.Expr
import ChemModel.Gen.FnRateConst
import ChemModel.Proofs.NumReal
import Mathlib.Tactic.Linarith
import Mathlib.Tactic.NormNum
set_option autoImplicit false

namespace ChemModel.PyExpr
open ChemModel
open scoped Classical

/-- ℝ as a Python number type: `==`, `<=` decided classically; `x ** y` is the real power where Python returns a real
number (`ZeroDivisionError` for `0 ** negative`, a complex number for a negative base with a non-integer exponent);
`exp`, `sin` total; `log10` with `math.log10`'s `ValueError`. -/
noncomputable instance instPyNumReal : PyNum ℝ where
  beq x y := decide (x = y)
  le x y := decide (x ≤ y)
  isScalar _ := true
  pow x y :=
    if x = 0 ∧ y < 0 then .error .zeroDivision
    else if x < 0 ∧ ¬ ∃ n : ℤ, y = n then .error .complexResult
    else .ok (x ^ y)
  exp x := .ok (Real.exp x)
  log10 x := if x ≤ 0 then .error .valueError else .ok (Real.log x / Real.log 10)
  sin x := .ok (Real.sin x)

@[simp] theorem beq_real (x y : ℝ) : PyNum.beq x y = true ↔ x = y := by
  simp [PyNum.beq]

@[simp] theorem beq_real_false (x y : ℝ) : PyNum.beq x y = false ↔ x ≠ y := by
  simp [PyNum.beq]

@[simp] theorem le_real (x y : ℝ) : PyNum.le x y = true ↔ x ≤ y := by
  simp [PyNum.le]

@[simp] theorem exp_real (x : ℝ) : PyNum.exp x = .ok (Real.exp x) := rfl

theorem pyDiv_real {x y : ℝ} (h : y ≠ 0) : pyDiv x y = .ok (x / y) := by
  unfold pyDiv
  have : PyNum.beq y (((0 : Nat)) : ℝ) = false := by simp [h]
  rw [this]; rfl

theorem pyDiv_real_zero (x : ℝ) : pyDiv x 0 = .error .zeroDivision := by
  unfold pyDiv
  have : PyNum.beq (0 : ℝ) (((0 : Nat)) : ℝ) = true := by simp
  rw [this]; rfl

/-- a positive base to an integer power (the exponents of `active_conc_prod` and of `conc0 ** (1 - order)`) -/
theorem pow_real_int {x : ℝ} (hx : 0 < x) (n : ℤ) : PyNum.pow x (Num.ofInt n : ℝ) = .ok (x ^ n) := by
  have h1 : ¬ (x = 0 ∧ (Num.ofInt n : ℝ) < 0) := fun h => (ne_of_gt hx) h.1
  have h2 : ¬ (x < 0 ∧ ¬ ∃ m : ℤ, (Num.ofInt n : ℝ) = m) := fun h => (not_lt.mpr hx.le) h.1
  show (if x = 0 ∧ (Num.ofInt n : ℝ) < 0 then Except.error Err.zeroDivision
      else if x < 0 ∧ ¬ ∃ m : ℤ, (Num.ofInt n : ℝ) = m then Except.error Err.complexResult
      else Except.ok (x ^ (Num.ofInt n : ℝ))) = _
  rw [if_neg h1, if_neg h2, NumReal.ofInt_eq, Real.rpow_intCast]

/-! ### the `Except` monad -/

@[simp] theorem ok_bind {ε β γ : Type} (a : β) (f : β → Except ε γ) : (Except.ok a >>= f) = f a := rfl
@[simp] theorem error_bind {ε β γ : Type} (e : ε) (f : β → Except ε γ) : (Except.error e >>= f) = Except.error e := rfl
@[simp] theorem pure_eq_ok {ε β : Type} (a : β) : (pure a : Except ε β) = Except.ok a := rfl
@[simp] theorem throw_eq_error {ε β : Type} (e : ε) : (throw e : Except ε β) = Except.error e := rfl

/-! ### variables, arguments -/

theorem get_some {ctx : Ctx ℝ} {k : String} {v : ℝ} (h : ctx.vars k = some v) : ctx.get k = .ok v := by
  simp [Ctx.get, h]

section generic
variable {α : Type} [Add α] [Sub α] [Mul α] [Div α] [Neg α] [NatCast α] [PyNum α]

/-- without a matching variable every unique key falls back to the stored argument -/
theorem argAt_no_override (ctx : Ctx α) (k : Kind) (vals : List (Except Err α)) (uks : Option (List String))
    (h : ∀ u, uks = some u → ∀ key ∈ u, ctx.vars key = none) (i : Nat) (hi : i < vals.length) :
    argAt ctx k false vals.length vals uks i = vals[i] := by
  unfold argAt
  cases uks with
  | none => simp [hi]
  | some u =>
    simp only [Bool.false_eq_true, if_false, List.getElem?_eq_getElem hi, Bool.false_or, decide_eq_true_eq]
    cases hk : u[i]? with
    | none => simp [Nat.not_lt.mpr (Nat.le_of_lt hi)]
    | some key =>
      have hm : key ∈ u := List.mem_of_getElem? hk
      simp [h u rfl key hm]

/-- `mapM` over a list on which the function succeeds -/
theorem mapM_ok {β γ : Type} (f : β → Except Err γ) (g : β → γ) :
    ∀ l : List β, (∀ x ∈ l, f x = .ok (g x)) → l.mapM f = .ok (l.map g)
  | [], _ => rfl
  | a :: l, h => by
      rw [List.mapM_cons, h a (List.mem_cons_self), mapM_ok f g l (fun x hx => h x (List.mem_cons_of_mem _ hx))]
      rfl

theorem mapM_ok_idx {β γ : Type} (f : β → Except Err γ) :
    ∀ (l : List β) (r : List γ) (hl : l.length = r.length),
      (∀ i (h : i < l.length), f l[i] = .ok (r[i]'(hl ▸ h))) → l.mapM f = .ok r
  | [], [], _, _ => rfl
  | [], _ :: _, hl, _ => by simp at hl
  | _ :: _, [], hl, _ => by simp at hl
  | a :: l, b :: r, hl, h => by
      have h0 := h 0 (by simp)
      simp only [List.getElem_cons_zero] at h0
      have ih := mapM_ok_idx f l r (by simpa using hl) (fun i hi => by
        have := h (i + 1) (by simp; omega)
        simpa using this)
      rw [List.mapM_cons, h0, ih]
      rfl

/-- all arguments of an instance whose stored arguments evaluate to `g` and whose unique keys (if any) have no
matching variable -/
theorem allArgs_no_override (ctx : Ctx α) (k : Kind) (g : List α) (uks : Option (List String))
    (hn : k.nargs = some (g.length : Int) ∨ k.nargs = none)
    (h : ∀ u, uks = some u → ∀ key ∈ u, ctx.vars key = none) :
    allArgs ctx k false g.length (g.map Except.ok) uks = .ok g := by
  have hmap : (List.range g.length).mapM (argAt ctx k false g.length (g.map Except.ok) uks) = .ok g := by
    apply mapM_ok_idx _ _ _ (by simp)
    intro i hi
    have hi' : i < (g.map (Except.ok (ε := Err))).length := by simpa using hi
    have := argAt_no_override ctx k (g.map Except.ok) uks h i hi'
    simp only [List.length_map] at this
    simp [this]
  unfold allArgs
  rcases hn with hn | hn
  · rw [hn]
    have : ((g.length : Int) == -1) = false := by
      simp only [beq_eq_false_iff_ne, ne_eq]; omega
    simp only [this, Bool.false_eq_true, if_false, pure_eq_ok, ok_bind, Int.toNat_natCast]
    exact hmap
  · rw [hn]
    simp only [Bool.false_eq_true, if_false, pure_eq_ok, ok_bind]
    exact hmap
/-- `variables` with one more entry `key: v` -/
def Ctx.set (ctx : Ctx α) (key : String) (v : α) : Ctx α :=
  { ctx with vars := fun k => if k = key then some v else ctx.vars k }

/-- a variable named by the i-th unique key replaces the i-th argument and no other -/
theorem allArgs_override (ctx : Ctx α) (k : Kind) (g : List α) (u : List String) (i : Nat) (v : α)
    (hn : k.nargs = some (g.length : Int) ∨ k.nargs = none) (hu : u.Nodup) (hi : i < u.length)
    (hlen : u.length ≤ g.length) (h : ∀ key ∈ u, ctx.vars key = none) :
    allArgs (ctx.set u[i] v) k false g.length (g.map Except.ok) (some u) = .ok (g.set i v) := by
  have hmap : (List.range g.length).mapM (argAt (ctx.set u[i] v) k false g.length (g.map Except.ok) (some u))
      = .ok (g.set i v) := by
    apply mapM_ok_idx _ _ _ (by simp)
    intro j hj
    have hj' : j < g.length := by simpa using hj
    simp only [List.getElem_range]
    unfold argAt
    simp only [Bool.false_eq_true, if_false, List.getElem?_map, List.getElem?_eq_getElem hj', Option.map_some,
      Bool.false_or, decide_eq_true_eq]
    by_cases hju : j < u.length
    · rw [List.getElem?_eq_getElem hju]
      simp only [Ctx.set]
      by_cases hji : j = i
      · subst hji
        simp
      · have hne : u[j] ≠ u[i] := fun he => hji ((List.Nodup.getElem_inj_iff hu).mp he)
        simp [hne, h u[j] (List.getElem_mem hju), List.getElem_set_ne (Ne.symm hji)]
    · rw [List.getElem?_eq_none (Nat.le_of_not_lt hju)]
      have hji : i ≠ j := by omega
      simp [Nat.not_lt.mpr (Nat.le_of_lt hj'), List.getElem_set_ne hji]
  unfold allArgs
  rcases hn with hn | hn
  · rw [hn]
    have : ((g.length : Int) == -1) = false := by
      simp only [beq_eq_false_iff_ne, ne_eq]; omega
    simp only [this, Bool.false_eq_true, if_false, pure_eq_ok, ok_bind, Int.toNat_natCast]
    exact hmap
  · rw [hn]
    simp only [Bool.false_eq_true, if_false, pure_eq_ok, ok_bind]
    exact hmap

theorem allArgs_none_one (ctx : Ctx α) (k : Kind) (hk : k.nargs = none) (r1 : Except Err α) :
    allArgs ctx k false 1 [r1] none = (do let a ← r1; pure [a]) := by
  unfold allArgs
  rw [hk]
  simp only [Bool.false_eq_true, if_false, pure_eq_ok, ok_bind]
  show List.mapM _ [0] = _
  simp only [List.mapM_cons, List.mapM_nil, argAt]
  cases r1 <;> rfl

theorem allArgs_none_two (ctx : Ctx α) (k : Kind) (hk : k.nargs = none) (r1 r2 : Except Err α) :
    allArgs ctx k false 2 [r1, r2] none = (do let a ← r1; let b ← r2; pure [a, b]) := by
  unfold allArgs
  rw [hk]
  simp only [Bool.false_eq_true, if_false, pure_eq_ok, ok_bind]
  show List.mapM _ [0, 1] = _
  simp only [List.mapM_cons, List.mapM_nil, argAt]
  cases r1 <;> cases r2 <;> rfl

end generic

/-- the mass-action product for positive concentrations -/
theorem concProd_pos (ctx : Ctx ℝ) (c : String → ℝ) :
    ∀ (reac : List (String × ℤ)) (acc : ℝ), (∀ p ∈ reac, ctx.vars p.1 = some (c p.1) ∧ 0 < c p.1) →
      concProd ctx reac acc = .ok (acc * (reac.map fun p => c p.1 ^ p.2).prod)
  | [], acc, _ => by simp [concProd]
  | (k, v) :: rest, acc, h => by
      have hk := h (k, v) List.mem_cons_self
      have ih := concProd_pos ctx c rest (acc * c k ^ v) (fun p hp => h p (List.mem_cons_of_mem _ hp))
      simp only [concProd, get_some hk.1, ok_bind, pow_real_int hk.2, List.map_cons, List.prod_cons]
      rw [ih, mul_assoc]

/-! ### evaluation of the rate-expression classes -/

@[simp] theorem noneArg_ok {α : Type} (k : Kind) (x : α) : noneArg k (Except.ok x) = Except.ok x := rfl

theorem eval_arrhenius_node (ctx : Ctx ℝ) (a e T : ℝ) (uks : Option (List String))
    (huk : ∀ u, uks = some u → ∀ key ∈ u, ctx.vars key = none)
    (hT : ctx.vars "temperature" = some T) (hT0 : T ≠ 0) :
    eval ctx (.node .arrhenius false [.num a, .num e] uks) = .ok (a * Real.exp (-e / T)) := by
  have haa := allArgs_no_override ctx .arrhenius [a, e] uks (Or.inl rfl) huk
  simp only [List.length_cons, List.length_nil, List.map_cons, List.map_nil] at haa
  simp only [eval, evalList, call, List.map_cons, List.map_nil, noneArg_ok, List.length_cons, List.length_nil, haa, ok_bind, get_some hT, pyDiv_real hT0,
    exp_real, pure_eq_ok]

theorem childCtx_massAction (ctx : Ctx ℝ) (reac : List (String × ℤ)) (h : ctx.rxn = .some reac) :
    childCtx .massAction ctx = ctx := by
  cases ctx with
  | mk vars rxn =>
    simp only at h
    subst h
    rfl

theorem eval_massAction_node (ctx : Ctx ℝ) (inner : Val ℝ) (kc : ℝ) (reac : List (String × ℤ)) (c : String → ℝ)
    (hr : ctx.rxn = .some reac) (hi : eval ctx inner = .ok kc)
    (hc : ∀ p ∈ reac, ctx.vars p.1 = some (c p.1) ∧ 0 < c p.1) :
    eval ctx (.node .massAction false [inner] none) = .ok (kc * (reac.map fun p => c p.1 ^ p.2).prod) := by
  have haa := allArgs_no_override ctx .massAction [kc] none (Or.inl rfl) (by simp)
  simp only [List.length_cons, List.length_nil, List.map_cons, List.map_nil] at haa
  simp only [eval, evalList, call, childCtx_massAction ctx reac hr, hi, List.map_cons, List.map_nil, noneArg_ok, List.length_cons, List.length_nil, haa, ok_bind,
    rxnOf, hr, concProd_pos ctx c reac _ hc, pure_eq_ok, Nat.cast_one, one_mul]

theorem eval_eyring_node (ctx : Ctx ℝ) (c0 c1 conc0 T : ℝ) (uks : Option (List String)) (reac : List (String × ℤ))
    (huk : ∀ u, uks = some u → ∀ key ∈ u, ctx.vars key = none)
    (hT : ctx.vars "temperature" = some T) (hT0 : T ≠ 0) (hr : ctx.rxn = .some reac) (hc : 0 < conc0) :
    eval ctx (.node .eyring false [.num c0, .num c1, .num conc0] uks)
      = .ok (c0 * T * Real.exp (-c1 / T) * conc0 ^ (1 - order reac)) := by
  have haa := allArgs_no_override ctx .eyring [c0, c1, conc0] uks (Or.inl rfl) huk
  simp only [List.length_cons, List.length_nil, List.map_cons, List.map_nil] at haa
  simp only [eval, evalList, call, List.map_cons, List.map_nil, noneArg_ok, List.length_cons, List.length_nil, haa, ok_bind, get_some hT, pyDiv_real hT0,
    exp_real, pure_eq_ok, rxnOf, hr, pow_real_int hc]

theorem mkNode_arrhenius (a e : ℝ) (uks : Option (List String)) (h : ∀ u, uks = some u → u.length ≤ 2) :
    mkNode .arrhenius (.list [.num a, .num e]) uks = .ok (.node .arrhenius false [.num a, .num e] uks) := by
  cases uks with
  | none => rfl
  | some u =>
    have := h u rfl
    simp [mkNode, Kind.nargs, Kind.argNames, Kind.nargsCls, Kind.defaults]
    omega

theorem mkNode_eyring (a e : ℝ) (uks : Option (List String)) (h : ∀ u, uks = some u → u.length ≤ 3) :
    mkNode .eyring (.list [.num a, .num e]) uks = .ok (.node .eyring false [.num a, .num e, .num 1] uks) := by
  cases uks with
  | none => simp [mkNode, Kind.nargs, Kind.argNames, Kind.nargsCls, Kind.defaults, lastN]
  | some u =>
    have := h u rfl
    simp [mkNode, Kind.nargs, Kind.argNames, Kind.nargsCls, Kind.defaults, lastN]
    omega

theorem mkNode_massAction_scalar (inner : Val ℝ) (h : inner.isNode = true) :
    mkNode .massAction (.scalar inner) none = .ok (.node .massAction false [inner] none) := by
  cases inner with
  | node k na args uks => simp [mkNode, Kind.nargs, Kind.argNames, Kind.nargsCls, Kind.defaults]
  | num x => simp [Val.isNode] at h
  | str s => simp [Val.isNode] at h

/-! ### polynomials -/

/-- the explicit polynomial `Σ_j c_j · y^(m+j)` -/
def polySum (y : ℝ) (cs : List ℝ) (m : Nat) : ℝ := ((cs.zipIdx m).map fun p => p.1 * y ^ p.2).sum

theorem polyLoop_plain (x : ℝ) : ∀ (cs : List ℝ) (r : ℝ) (m : Nat),
    polyLoop false x cs (some r) (x ^ m) = .ok (some (r + polySum x cs m))
  | [], r, m => by simp [polyLoop, polySum]
  | c :: cs, r, m => by
      have ih := polyLoop_plain x cs (r + c * x ^ m) (m + 1)
      simp only [polyLoop, Bool.false_eq_true, if_false, pure_eq_ok, ok_bind, ← pow_succ, ih, polySum,
        List.zipIdx_cons, List.map_cons, List.sum_cons, add_assoc]

theorem polyLoop_recip (x : ℝ) (hx : x ≠ 0) : ∀ (cs : List ℝ) (r : ℝ) (m : Nat),
    polyLoop true x cs (some r) (x⁻¹ ^ m) = .ok (some (r + polySum x⁻¹ cs m))
  | [], r, m => by simp [polyLoop, polySum]
  | c :: cs, r, m => by
      have ih := polyLoop_recip x hx cs (r + c * x⁻¹ ^ m) (m + 1)
      have hd : x⁻¹ ^ m / x = x⁻¹ ^ (m + 1) := by rw [pow_succ, div_eq_mul_inv]
      simp only [polyLoop, if_true, pyDiv_real hx, ok_bind, hd, ih, polySum,
        List.zipIdx_cons, List.map_cons, List.sum_cons, add_assoc]

/-- first step of the loop (`res is None`) -/
theorem polyLoop_start (recip : Bool) (x : ℝ) (hx : recip = true → x ≠ 0) (c : ℝ) (cs : List ℝ) :
    polyLoop recip x (c :: cs) none 1 = .ok (some (polySum (if recip then x⁻¹ else x) (c :: cs) 0)) := by
  cases recip with
  | false =>
    have h := polyLoop_plain x cs c 1
    simp only [pow_one] at h
    simp only [polyLoop, Bool.false_eq_true, if_false, pure_eq_ok, ok_bind, Nat.cast_one, mul_one, one_mul, h]
    simp [polySum, List.zipIdx_cons]
  | true =>
    have hx' := hx rfl
    have h := polyLoop_recip x hx' cs c 1
    simp only [pow_one] at h
    have hd : (1 : ℝ) / x = x⁻¹ := one_div x
    simp only [polyLoop, if_true, Nat.cast_one, mul_one, pyDiv_real hx', hd, ok_bind, h]
    simp [polySum, List.zipIdx_cons]


theorem polyBody_spec (recip : Bool) (x : ℝ) (hx : recip = true → x ≠ 0) (c : ℝ) (cs : List ℝ) :
    polyBody recip false (c :: cs) x = .ok (polySum (if recip then x⁻¹ else x) (c :: cs) 0) := by
  simp only [polyBody, Bool.false_eq_true, if_false, pure_eq_ok, ok_bind, Nat.cast_one, polyLoop_start recip x hx c cs]

theorem polyBody_shift_spec (recip : Bool) (x a0 : ℝ) (hx : recip = true → x - a0 ≠ 0) (c : ℝ) (cs : List ℝ) :
    polyBody recip true (a0 :: c :: cs) x = .ok (polySum (if recip then (x - a0)⁻¹ else (x - a0)) (c :: cs) 0) := by
  simp only [polyBody, if_true, pure_eq_ok, ok_bind, Nat.cast_one, polyLoop_start recip (x - a0) hx c cs]

/-- evaluation of a `create_Poly` instance with numeric stored arguments -/
theorem eval_poly_node (ctx : Ctx ℝ) (p : String) (recip shift : Bool) (g : List ℝ) (uks : Option (List String)) (x : ℝ)
    (huk : ∀ u, uks = some u → ∀ key ∈ u, ctx.vars key = none) (hx : ctx.vars p = some x) :
    eval ctx (.node (.poly p recip shift) false (g.map Val.num) uks) = polyBody recip shift g x := by
  have hn : (Kind.poly p recip shift).nargs = none := by
    cases shift <;> rfl
  have haa := allArgs_no_override ctx (.poly p recip shift) g uks (Or.inr hn) huk
  have hev : ∀ (c : Ctx ℝ) (l : List ℝ), (evalList c (l.map Val.num)).map (noneArg (.poly p recip shift)) = l.map Except.ok := by
    intro c l
    induction l with
    | nil => simp [evalList]
    | cons a l ih => simp [evalList, eval, ih]
  simp only [eval, call, hev, List.length_map, haa, ok_bind, get_some hx]

/-! ### piecewise -/

theorem le_real_false (x y : ℝ) : PyNum.le x y = false ↔ ¬ x ≤ y := by
  simp [PyNum.le]

theorem le_and_real (lo x up : ℝ) : (PyNum.le lo x && PyNum.le x up) = true ↔ (lo ≤ x ∧ x ≤ up) := by
  simp [Bool.and_eq_true]

/-- the i-th interval of `lo₀, ex₀, up₀ = lo₁, ex₁, up₁ = …` contains x -/
def pwHit (x : ℝ) (b : List ℝ) (i : Nat) : Prop :=
  ∃ lo up, b[2 * i]? = some lo ∧ b[2 * i + 2]? = some up ∧ lo ≤ x ∧ x ≤ up

theorem pwHit_succ (x lo ex up : ℝ) (rest : List ℝ) (i : Nat) :
    pwHit x (lo :: ex :: up :: rest) (i + 1) ↔ pwHit x (up :: rest) i := by
  unfold pwHit
  have h1 : 2 * (i + 1) = (2 * i) + 1 + 1 := by ring
  have h2 : 2 * i + 1 + 1 + 2 = (2 * i + 2) + 1 + 1 := by ring
  rw [h1, h2]
  simp only [List.getElem?_cons_succ]

theorem pwSelect_spec (x : ℝ) : ∀ (b : List ℝ) (v : ℝ), pwSelect x b = .ok v →
    ∃ i, pwHit x b i ∧ b[2 * i + 1]? = some v ∧ ∀ j < i, ¬ pwHit x b j
  | [], v, h => by simp [pwSelect] at h
  | [_], v, h => by simp [pwSelect] at h
  | [_, _], v, h => by simp [pwSelect] at h
  | lo :: ex :: up :: rest, v, h => by
      rw [pwSelect] at h
      by_cases hc : lo ≤ x ∧ x ≤ up
      · have : (PyNum.le lo x && PyNum.le x up) = true := (le_and_real lo x up).mpr hc
        rw [this] at h
        simp only [if_true, Except.ok.injEq] at h
        refine ⟨0, ⟨lo, up, by simp, by simp, hc.1, hc.2⟩, by simp [h], by simp⟩
      · have : (PyNum.le lo x && PyNum.le x up) = false := by
          rw [← Bool.not_eq_true, le_and_real]; exact hc
        rw [this] at h
        simp only [Bool.false_eq_true, if_false] at h
        obtain ⟨i, hi, hv, hmin⟩ := pwSelect_spec x (up :: rest) v h
        refine ⟨i + 1, (pwHit_succ x lo ex up rest i).mpr hi, ?_, ?_⟩
        · have h1 : 2 * (i + 1) + 1 = (2 * i + 1) + 1 + 1 := by ring
          rw [h1]; simpa using hv
        · intro j hj
          cases j with
          | zero =>
            rintro ⟨lo', up', h0, h2, hl, hu⟩
            simp at h0 h2
            subst h0 h2
            exact hc ⟨hl, hu⟩
          | succ j => rw [pwHit_succ]; exact hmin j (by omega)
termination_by b => b.length

/-- conversely, an interval containing x makes the selection succeed -/
theorem pwSelect_complete (x : ℝ) : ∀ (b : List ℝ) (i : Nat), pwHit x b i → (∃ ex, b[2 * i + 1]? = some ex) →
    ∃ v, pwSelect x b = .ok v
  | [], i, ⟨lo, up, h0, _⟩, _ => by simp at h0
  | [_], i, ⟨lo, up, _, h2, _⟩, _ => by simp at h2
  | [_, _], i, ⟨lo, up, _, h2, _⟩, _ => by simp at h2
  | lo :: ex :: up :: rest, i, hi, hex => by
      rw [pwSelect]
      by_cases hc : (PyNum.le lo x && PyNum.le x up) = true
      · exact ⟨ex, by rw [hc]; rfl⟩
      · have hcf : (PyNum.le lo x && PyNum.le x up) = false := by rw [← Bool.not_eq_true]; exact hc
        rw [hcf]
        simp only [Bool.false_eq_true, if_false]
        cases i with
        | zero =>
          obtain ⟨lo', up', h0, h2, hl, hu⟩ := hi
          simp at h0 h2
          subst h0 h2
          exact absurd ((le_and_real _ _ _).mpr ⟨hl, hu⟩) hc
        | succ i =>
          apply pwSelect_complete x (up :: rest) i ((pwHit_succ x lo ex up rest i).mp hi)
          obtain ⟨e, he⟩ := hex
          have h1 : 2 * (i + 1) + 1 = (2 * i + 1) + 1 + 1 := by ring
          rw [h1] at he
          exact ⟨e, by simpa using he⟩
termination_by b => b.length

/-! ### operator nodes -/

theorem noneArg_eq_ok {k : Kind} {r : Except Err ℝ} {x : ℝ} : noneArg k r = .ok x ↔ r = .ok x := by
  cases r with
  | ok v => simp [noneArg]
  | error e => cases e <;> simp [noneArg] <;> split <;> simp

/-- a binary operator node evaluates both operands and combines them -/
theorem eval_add_node (ctx : Ctx ℝ) (p q : Val ℝ) (a b : ℝ) (hp : eval ctx p = .ok a) (hq : eval ctx q = .ok b) :
    eval ctx (.node .add false [p, q] none) = .ok (a + b) := by
  simp only [eval, evalList, call, childCtx, hp, hq, List.map_cons, List.map_nil, noneArg_ok, List.length_cons,
    List.length_nil, allArgs_none_two ctx .add rfl, ok_bind, pure_eq_ok]

theorem eval_sub_node (ctx : Ctx ℝ) (p q : Val ℝ) (a b : ℝ) (hp : eval ctx p = .ok a) (hq : eval ctx q = .ok b) :
    eval ctx (.node .sub false [p, q] none) = .ok (a - b) := by
  simp only [eval, evalList, call, childCtx, hp, hq, List.map_cons, List.map_nil, noneArg_ok, List.length_cons,
    List.length_nil, allArgs_none_two ctx .sub rfl, ok_bind, pure_eq_ok]

theorem eval_mul_node (ctx : Ctx ℝ) (p q : Val ℝ) (a b : ℝ) (hp : eval ctx p = .ok a) (hq : eval ctx q = .ok b) :
    eval ctx (.node .mul false [p, q] none) = .ok (a * b) := by
  simp only [eval, evalList, call, childCtx, hp, hq, List.map_cons, List.map_nil, noneArg_ok, List.length_cons,
    List.length_nil, allArgs_none_two ctx .mul rfl, ok_bind, pure_eq_ok]

theorem eval_div_node (ctx : Ctx ℝ) (p q : Val ℝ) (a b : ℝ) (hp : eval ctx p = .ok a) (hq : eval ctx q = .ok b) :
    eval ctx (.node .div false [p, q] none) = pyDiv a b := by
  simp only [eval, evalList, call, childCtx, hp, hq, List.map_cons, List.map_nil, noneArg_ok, List.length_cons,
    List.length_nil, allArgs_none_two ctx .div rfl, ok_bind, pure_eq_ok]

theorem eval_pow_node (ctx : Ctx ℝ) (p q : Val ℝ) (a b : ℝ) (hp : eval ctx p = .ok a) (hq : eval ctx q = .ok b) :
    eval ctx (.node .pow false [p, q] none) = PyNum.pow a b := by
  simp only [eval, evalList, call, childCtx, hp, hq, List.map_cons, List.map_nil, noneArg_ok, List.length_cons,
    List.length_nil, allArgs_none_two ctx .pow rfl, ok_bind, pure_eq_ok]

theorem eval_neg_node (ctx : Ctx ℝ) (p : Val ℝ) (a : ℝ) (hp : eval ctx p = .ok a) :
    eval ctx (.node .neg false [p] none) = .ok (-a) := by
  simp only [eval, evalList, call, childCtx, hp, List.map_cons, List.map_nil, noneArg_ok, List.length_cons,
    List.length_nil, allArgs_none_one ctx .neg rfl, ok_bind, pure_eq_ok]

/-- the value of a product node whose evaluation succeeds is the product of its operands' values -/
theorem eval_mul_node_inv (ctx : Ctx ℝ) (p q : Val ℝ) (c : ℝ) (h : eval ctx (.node .mul false [p, q] none) = .ok c) :
    ∃ a b, eval ctx p = .ok a ∧ eval ctx q = .ok b ∧ c = a * b := by
  simp only [eval, evalList, call, childCtx, List.map_cons, List.map_nil, List.length_cons,
    List.length_nil, allArgs_none_two ctx .mul rfl] at h
  cases hp : eval ctx p with
  | error e =>
    rw [hp] at h
    cases e <;> simp [noneArg] at h
  | ok a =>
    cases hq : eval ctx q with
    | error e =>
      rw [hp, hq] at h
      cases e <;> simp [noneArg] at h
    | ok b =>
      rw [hp, hq] at h
      simp only [noneArg_ok, ok_bind, pure_eq_ok, Except.ok.injEq] at h
      exact ⟨a, b, rfl, rfl, h.symm⟩

theorem eval_neg_node_inv (ctx : Ctx ℝ) (p : Val ℝ) (c : ℝ) (h : eval ctx (.node .neg false [p] none) = .ok c) :
    ∃ a, eval ctx p = .ok a ∧ c = -a := by
  simp only [eval, evalList, call, childCtx, List.map_cons, List.map_nil, List.length_cons,
    List.length_nil, allArgs_none_one ctx .neg rfl] at h
  cases hp : eval ctx p with
  | error e =>
    rw [hp] at h
    cases e <;> simp [noneArg] at h
  | ok a =>
    rw [hp] at h
    simp only [noneArg_ok, ok_bind, pure_eq_ok, Except.ok.injEq] at h
    exact ⟨a, rfl, h.symm⟩

mutual
/-- the shape of what the overloaded operators construct: every operator node (at any depth) has stored arguments,
no unique keys and the arity of its operator -/
def plainOps {α : Type} : Val α → Bool
  | .num _ => true
  | .str _ => true
  | .node k na args uks =>
      (match k with
       | .neg => !na && uks.isNone && args.length == 1
       | .add | .sub | .mul | .div | .pow => !na && uks.isNone && args.length == 2
       | _ => true) && plainOpsList args
def plainOpsList {α : Type} : List (Val α) → Bool
  | [] => true
  | a :: as => plainOps a && plainOpsList as
end

theorem plainOps_mul_inv {α : Type} {na : Bool} {args : List (Val α)} {uks : Option (List String)}
    (h : plainOps (.node .mul na args uks) = true) :
    ∃ p q, na = false ∧ uks = none ∧ args = [p, q] ∧ plainOps p = true ∧ plainOps q = true := by
  simp only [plainOps, Bool.and_eq_true, Bool.not_eq_true', Option.isNone_iff_eq_none, beq_iff_eq] at h
  obtain ⟨⟨⟨hna, huk⟩, hlen⟩, hl⟩ := h
  match args, hlen, hl with
  | [p, q], _, hl =>
    simp only [plainOpsList, Bool.and_eq_true, and_true] at hl
    exact ⟨p, q, hna, huk, rfl, hl.1, hl.2⟩

/-- a trivially-zero operand evaluates to zero (when it evaluates at all) -/
theorem trivZero_value (ctx : Ctx ℝ) : ∀ (v : Val ℝ), plainOps v = true → trivZero v = true →
    ∀ a, eval ctx v = .ok a → a = 0
  | .num _, _, h, _, _ => by simp [trivZero] at h
  | .str _, _, h, _, _ => by simp [trivZero] at h
  | .node k na args uks, hp, h, a, he => by
    cases k with
    | const =>
      match args, h with
      | .num x :: rest, hx0 =>
        simp only [trivZero, beq_real, Nat.cast_zero] at hx0
        cases na with
        | true => simp [eval, call] at he
        | false =>
          simp only [eval, call, Bool.false_eq_true, if_false, Except.ok.injEq] at he
          rw [← he]; exact hx0
    | mul =>
      obtain ⟨p, q, hna, huk, hargs, hpp, hpq⟩ := plainOps_mul_inv hp
      subst hna huk
      rw [hargs] at he h
      obtain ⟨x, y, hx, hy, hxy⟩ := eval_mul_node_inv ctx p q a he
      subst hxy
      cases p with
      | num _ => simp [trivZero] at h
      | str _ => simp [trivZero] at h
      | node kp nap ap up =>
        by_cases htp : trivZero (Val.node kp nap ap up) = true
        · rw [trivZero_value ctx _ hpp htp x hx, zero_mul]
        · cases q with
          | num _ => simp [trivZero, htp] at h
          | str _ => simp [trivZero, htp] at h
          | node kq naq aq uq =>
            have htq : trivZero (Val.node kq naq aq uq) = true := by
              have h3 : constErr (Val.node kp nap ap up) = none ∧ constErr (Val.node kq naq aq uq) = none ∧
                  trivZero (Val.node kq naq aq uq) = true := by simpa [trivZero, htp] using h
              exact h3.2.2
            rw [trivZero_value ctx _ hpq htq y hy, mul_zero]
    | _ => simp [trivZero] at h
termination_by v => sizeOf v
decreasing_by all_goals (subst hargs; simp_wf; omega)

/-! ### the overloaded operators -/

theorem plainOps_node2 {α : Type} (k : Kind) (p q : Val α) (hk : k = .add ∨ k = .sub ∨ k = .mul ∨ k = .div ∨ k = .pow)
    (hp : plainOps p = true) (hq : plainOps q = true) : plainOps (.node k false [p, q] none) = true := by
  rcases hk with h | h | h | h | h <;> subst h <;> simp [plainOps, plainOpsList, hp, hq]

/-- `_implicit_conversion` does not change the value, the shape or the class of an operand -/
theorem conv_spec (ctx : Ctx ℝ) (v v' : Val ℝ) (h : conv v = .ok v') :
    eval ctx v' = eval ctx v ∧ (plainOps v = true → plainOps v' = true) ∧ v'.isNode = true
      ∧ v'.isMassAction = v.isMassAction := by
  cases v with
  | num x =>
    simp only [conv] at h
    split at h
    · cases h
      refine ⟨?_, fun _ => by simp [constNode, plainOps, plainOpsList], rfl, rfl⟩
      simp [constNode, eval, call]
    · cases h
  | str s =>
    cases h
    refine ⟨?_, fun _ => by simp [symbolNode, plainOps, plainOpsList], rfl, rfl⟩
    simp [symbolNode, eval, call]
  | node k na args uks =>
    cases h
    exact ⟨rfl, id, rfl, rfl⟩

theorem exprAdd_hom (ctx : Ctx ℝ) (self other e : Val ℝ) (a b : ℝ) (h : exprAdd self other = .ok e)
    (hps : plainOps self = true) (hpo : plainOps other = true)
    (ha : eval ctx self = .ok a) (hb : eval ctx other = .ok b) :
    eval ctx e = .ok (a + b) ∧ plainOps e = true := by
  unfold exprAdd at h
  cases hc : conv other with
  | error err => rw [hc] at h; cases h
  | ok o =>
    rw [hc] at h
    obtain ⟨hev, hpl, _, _⟩ := conv_spec ctx other o hc
    simp only [ok_bind] at h
    cases hce : constErr o with
    | some e' => rw [hce] at h; simp at h
    | none =>
    rw [hce] at h
    simp only [pure_eq_ok, ok_bind] at h
    by_cases htz : trivZero o = true
    · simp only [htz, if_true, pure_eq_ok, Except.ok.injEq] at h
      subst h
      have hb0 : b = 0 := trivZero_value ctx o (hpl hpo) htz b (by rw [hev, hb])
      rw [hb0, add_zero]
      exact ⟨ha, hps⟩
    · simp only [htz, Bool.false_eq_true, if_false, pure_eq_ok, Except.ok.injEq] at h
      subst h
      exact ⟨eval_add_node ctx self o a b ha (by rw [hev, hb]), plainOps_node2 .add _ _ (Or.inl rfl) hps (hpl hpo)⟩

theorem exprNeg_hom (ctx : Ctx ℝ) (self e : Val ℝ) (a : ℝ) (h : exprNeg self = .ok e)
    (hps : plainOps self = true) (ha : eval ctx self = .ok a) :
    eval ctx e = .ok (-a) ∧ plainOps e = true := by
  unfold exprNeg at h
  split at h
  · rename_i na args uks
    simp only [plainOps, Bool.and_eq_true, Bool.not_eq_true', Option.isNone_iff_eq_none, beq_iff_eq] at hps
    obtain ⟨⟨⟨hna, huk⟩, hlen⟩, hl⟩ := hps
    match args, hlen, hl, h with
    | [x], _, hl, h =>
      cases h
      subst hna huk
      obtain ⟨y, hy, hay⟩ := eval_neg_node_inv ctx e a ha
      simp only [plainOpsList, Bool.and_true] at hl
      rw [hay, neg_neg]
      exact ⟨hy, hl⟩
  · cases h
    refine ⟨eval_neg_node ctx self a ha, ?_⟩
    simp [plainOps, plainOpsList, hps]

theorem subShort_node {k : Kind} {na : Bool} {args : List (Val ℝ)} {uks : Option (List String)} {b : Bool}
    (h : subShort (Val.node k na args uks) = .ok b) : b = false := by
  unfold subShort at h
  split at h
  · rename_i heq; cases heq
  · rename_i heq; cases heq
  · simp only [pure_eq_ok] at h
    cases hu : uwArg (Val.node k na args uks) with
    | error err => rw [hu] at h; cases h
    | ok w =>
      rw [hu] at h
      simp only [ok_bind] at h
      cases w with
      | num x =>
        simp only at h
        split at h
        · cases h; rfl
        · cases h
      | str _ => cases h; rfl
      | node _ _ _ _ => cases h; rfl
  · split at h
    · cases h; rfl
    · cases h
  · cases h; rfl

theorem exprSub_hom (ctx : Ctx ℝ) (self other e : Val ℝ) (a b : ℝ) (h : exprSub self other = .ok e)
    (hne : other ≠ .str "") (hps : plainOps self = true) (hpo : plainOps other = true)
    (ha : eval ctx self = .ok a) (hb : eval ctx other = .ok b) :
    eval ctx e = .ok (a - b) ∧ plainOps e = true := by
  unfold exprSub at h
  cases hs : subShort other with
  | error err => rw [hs] at h; cases h
  | ok short =>
    rw [hs] at h
    simp only [ok_bind] at h
    cases short with
    | true =>
      simp only [if_true, pure_eq_ok, Except.ok.injEq] at h
      subst h
      have hb0 : b = 0 := by
        cases other with
        | num x =>
          simp only [subShort, pure_eq_ok, Except.ok.injEq, beq_real, Nat.cast_zero, mul_zero] at hs
          simp only [eval, Except.ok.injEq] at hb
          rw [← hb, hs]
        | str s =>
          simp only [subShort, pure_eq_ok, Except.ok.injEq, beq_iff_eq] at hs
          exact absurd (by rw [hs]) hne
        | node k na args uks => exact absurd (subShort_node hs) (by simp)
      rw [hb0, sub_zero]; exact ⟨ha, hps⟩
    | false =>
      simp only [Bool.false_eq_true, if_false] at h
      cases hc : conv other with
      | error err => rw [hc] at h; cases h
      | ok o =>
        rw [hc] at h
        obtain ⟨hev, hpl, _, _⟩ := conv_spec ctx other o hc
        simp only [ok_bind, pure_eq_ok, Except.ok.injEq] at h
        subst h
        exact ⟨eval_sub_node ctx self o a b ha (by rw [hev, hb]), plainOps_node2 .sub _ _ (Or.inr (Or.inl rfl)) hps (hpl hpo)⟩


theorem isOne_value (ctx : Ctx ℝ) (o : Val ℝ) (b : ℝ) (h : isOne o = true) (hb : eval ctx o = .ok b) : b = 1 := by
  cases o with
  | num x =>
    simp only [isOne, beq_real, Nat.cast_one] at h
    simp only [eval, Except.ok.injEq] at hb
    rw [← hb, h]
  | str _ => simp [isOne] at h
  | node _ _ _ _ => simp [isOne] at h

/-- `Expr.__mul__` for operands that are not `MassAction` instances -/
theorem exprMul_hom (ctx : Ctx ℝ) (self other e : Val ℝ) (a b : ℝ) (h : exprMul self other = .ok e)
    (hms : self.isMassAction = false) (hmo : other.isMassAction = false)
    (hps : plainOps self = true) (hpo : plainOps other = true)
    (ha : eval ctx self = .ok a) (hb : eval ctx other = .ok b) :
    eval ctx e = .ok (a * b) ∧ plainOps e = true := by
  unfold exprMul at h
  simp only [hms, hmo, Bool.false_eq_true, if_false] at h
  by_cases h1 : isOne other = true
  · simp only [h1, if_true, pure_eq_ok, Except.ok.injEq] at h
    subst h
    rw [isOne_value ctx other b h1 hb, mul_one]; exact ⟨ha, hps⟩
  · simp only [h1, Bool.false_eq_true, if_false] at h
    cases hc : conv other with
    | error err => rw [hc] at h; cases h
    | ok o =>
      rw [hc] at h
      obtain ⟨hev, hpl, _, _⟩ := conv_spec ctx other o hc
      simp only [ok_bind, pure_eq_ok, Except.ok.injEq] at h
      subst h
      exact ⟨eval_mul_node ctx self o a b ha (by rw [hev, hb]),
        plainOps_node2 .mul _ _ (Or.inr (Or.inr (Or.inl rfl))) hps (hpl hpo)⟩

/-- `Expr.__truediv__` for operands that are not `MassAction` instances: the value is Python's `a / b` -/
theorem exprDiv_hom (ctx : Ctx ℝ) (self other e : Val ℝ) (a b : ℝ) (h : exprDiv self other = .ok e)
    (hms : self.isMassAction = false) (hmo : other.isMassAction = false)
    (hps : plainOps self = true) (hpo : plainOps other = true)
    (ha : eval ctx self = .ok a) (hb : eval ctx other = .ok b) :
    eval ctx e = pyDiv a b ∧ plainOps e = true := by
  unfold exprDiv at h
  by_cases h1 : isOne other = true
  · simp only [h1, if_true, pure_eq_ok, Except.ok.injEq] at h
    subst h
    have hb1 := isOne_value ctx other b h1 hb
    rw [hb1, pyDiv_real one_ne_zero, div_one]; exact ⟨ha, hps⟩
  · simp only [h1, hms, hmo, Bool.false_eq_true, if_false] at h
    cases hc : conv other with
    | error err => rw [hc] at h; cases h
    | ok o =>
      rw [hc] at h
      obtain ⟨hev, hpl, _, _⟩ := conv_spec ctx other o hc
      simp only [ok_bind, pure_eq_ok, Except.ok.injEq] at h
      subst h
      exact ⟨eval_div_node ctx self o a b ha (by rw [hev, hb]),
        plainOps_node2 .div _ _ (Or.inr (Or.inr (Or.inr (Or.inl rfl)))) hps (hpl hpo)⟩

/-- `other / self` through `Expr.__rtruediv__` (self not a `MassAction`) -/
theorem exprRDiv_hom (ctx : Ctx ℝ) (self other e : Val ℝ) (a b : ℝ) (h : exprRDiv self other = .ok e)
    (hms : self.isMassAction = false) (hps : plainOps self = true) (hpo : plainOps other = true)
    (ha : eval ctx self = .ok a) (hb : eval ctx other = .ok b) :
    eval ctx e = pyDiv b a ∧ plainOps e = true := by
  unfold exprRDiv at h
  simp only [hms, Bool.false_eq_true, if_false] at h
  cases hc : conv other with
  | error err => rw [hc] at h; cases h
  | ok o =>
    rw [hc] at h
    obtain ⟨hev, hpl, _, _⟩ := conv_spec ctx other o hc
    simp only [ok_bind, pure_eq_ok, Except.ok.injEq] at h
    subst h
    exact ⟨eval_div_node ctx o self b a (by rw [hev, hb]) ha,
      plainOps_node2 .div _ _ (Or.inr (Or.inr (Or.inr (Or.inl rfl)))) (hpl hpo) hps⟩

/-- `l ** r` -/
theorem pyPow_hom (ctx : Ctx ℝ) (l r e : Val ℝ) (a b : ℝ) (h : pyPow l r = .ok e)
    (hpl : plainOps l = true) (hpr : plainOps r = true)
    (ha : eval ctx l = .ok a) (hb : eval ctx r = .ok b) :
    eval ctx e = PyNum.pow a b ∧ plainOps e = true := by
  unfold pyPow at h
  split at h
  · cases hc : conv r with
    | error err => rw [hc] at h; cases h
    | ok o =>
      rw [hc] at h
      obtain ⟨hev, hpl', _, _⟩ := conv_spec ctx r o hc
      simp only [ok_bind, pure_eq_ok, Except.ok.injEq] at h
      subst h
      exact ⟨eval_pow_node ctx l o a b ha (by rw [hev, hb]),
        plainOps_node2 .pow _ _ (Or.inr (Or.inr (Or.inr (Or.inr rfl)))) hpl (hpl' hpr)⟩
  · split at h
    · cases hc : conv l with
      | error err => rw [hc] at h; cases h
      | ok o =>
        rw [hc] at h
        obtain ⟨hev, hpl', _, _⟩ := conv_spec ctx l o hc
        simp only [ok_bind, pure_eq_ok, Except.ok.injEq] at h
        subst h
        exact ⟨eval_pow_node ctx o r a b (by rw [hev, ha]) hb,
          plainOps_node2 .pow _ _ (Or.inr (Or.inr (Or.inr (Or.inr rfl)))) (hpl' hpl) hpr⟩
    · cases h

/-! ### arithmetic with a `MassAction` (UnaryWrapper): coefficient level -/

theorem uwArg_plain (c : Val ℝ) : uwArg (.node .massAction false [c] none) = .ok c := rfl

theorem isMA_ma (na : Bool) (args : List (Val ℝ)) (uks : Option (List String)) :
    (Val.node Kind.massAction na args uks).isMassAction = true := rfl

theorem isOne_node_false (k : Kind) (na : Bool) (args : List (Val ℝ)) (uks : Option (List String)) :
    isOne (Val.node k na args uks) = false := rfl

/-- `ma * o`, `o * ma`, `ma / o`, `o / ma` for `ma = MassAction([c])`: the result is `MassAction([c ∘ o])` -/
theorem massAction_ops (ctx : Ctx ℝ) (c o e : Val ℝ) (k b : ℝ) (reac : List (String × ℤ)) (conc : String → ℝ)
    (hr : ctx.rxn = .some reac) (hc : ∀ p ∈ reac, ctx.vars p.1 = some (conc p.1) ∧ 0 < conc p.1)
    (hk : eval ctx c = .ok k) (hb : eval ctx o = .ok b) (hmo : o.isMassAction = false) :
    let ma : Val ℝ := .node .massAction false [c] none
    let P := (reac.map fun p => conc p.1 ^ p.2).prod
    (pyMul ma o = .ok e → eval ctx e = .ok (k * b * P))
    ∧ (pyMul o ma = .ok e → eval ctx e = .ok (k * b * P))
    ∧ (pyDivOp ma o = .ok e → b ≠ 0 → eval ctx e = .ok (k / b * P))
    ∧ (pyDivOp o ma = .ok e → k ≠ 0 → eval ctx e = .ok (b / k * P)) := by
  intro ma P
  have hmul : ∀ e, exprMul ma o = .ok e → eval ctx e = .ok (k * b * P) := by
    intro e h
    unfold exprMul at h
    simp only [ma, isMA_ma, if_true, uwArg_plain, ok_bind] at h
    cases hcv : conv o with
    | error err => rw [hcv] at h; cases h
    | ok o' =>
      rw [hcv] at h
      obtain ⟨hev, _, _, _⟩ := conv_spec ctx o o' hcv
      simp only [ok_bind, pure_eq_ok, Except.ok.injEq] at h
      subst h
      exact eval_massAction_node ctx _ (k * b) reac conc hr (eval_mul_node ctx c o' k b hk (by rw [hev, hb])) hc
  have hrdiv : ∀ e, exprRDiv ma o = .ok e → k ≠ 0 → eval ctx e = .ok (b / k * P) := by
    intro e h hk0
    unfold exprRDiv at h
    simp only [ma, isMA_ma, if_true, uwArg_plain, ok_bind] at h
    cases hcv : conv o with
    | error err => rw [hcv] at h; cases h
    | ok o' =>
      rw [hcv] at h
      obtain ⟨hev, _, _, _⟩ := conv_spec ctx o o' hcv
      simp only [ok_bind, pure_eq_ok, Except.ok.injEq] at h
      subst h
      have hd := eval_div_node ctx o' c b k (by rw [hev, hb]) hk
      rw [pyDiv_real hk0] at hd
      exact eval_massAction_node ctx _ (b / k) reac conc hr hd hc
  refine ⟨?_, ?_, ?_, ?_⟩
  · intro h
    unfold pyMul at h
    simp only [ma, Val.isNode, if_true] at h
    exact hmul e h
  · intro h
    unfold pyMul at h
    split at h
    · unfold exprMul at h
      simp only [hmo, Bool.false_eq_true, if_false, ma, isOne_node_false, isMA_ma, if_true, uwArg_plain,
        ok_bind] at h
      cases hcv : conv o with
      | error err => rw [hcv] at h; cases h
      | ok o' =>
        rw [hcv] at h
        obtain ⟨hev, _, _, _⟩ := conv_spec ctx o o' hcv
        simp only [ok_bind, pure_eq_ok, Except.ok.injEq] at h
        subst h
        exact eval_massAction_node ctx _ (k * b) reac conc hr (eval_mul_node ctx c o' k b hk (by rw [hev, hb])) hc
    · simp only [ma, Val.isNode, if_true] at h
      exact hmul e h
  · intro h hb0
    unfold pyDivOp at h
    simp only [ma, Val.isNode, if_true] at h
    unfold exprDiv at h
    by_cases h1 : isOne o = true
    · simp only [h1, if_true, pure_eq_ok, Except.ok.injEq] at h
      subst h
      rw [isOne_value ctx o b h1 hb, div_one]
      have := eval_massAction_node ctx c k reac conc hr hk hc
      exact this
    · simp only [h1, Bool.false_eq_true, if_false, isMA_ma, if_true, uwArg_plain, ok_bind] at h
      cases hcv : conv o with
      | error err => rw [hcv] at h; cases h
      | ok o' =>
        rw [hcv] at h
        obtain ⟨hev, _, _, _⟩ := conv_spec ctx o o' hcv
        simp only [ok_bind, pure_eq_ok, Except.ok.injEq] at h
        subst h
        have hd := eval_div_node ctx c o' k b hk (by rw [hev, hb])
        rw [pyDiv_real hb0] at hd
        exact eval_massAction_node ctx _ (k / b) reac conc hr hd hc
  · intro h hk0
    unfold pyDivOp at h
    split at h
    · unfold exprDiv at h
      simp only [ma, isOne_node_false, Bool.false_eq_true, if_false, hmo, isMA_ma, if_true] at h
      exact hrdiv e h hk0
    · simp only [ma, Val.isNode, if_true] at h
      exact hrdiv e h hk0

/-! ### concrete witnesses (exact rationals) and backend homomorphisms -/

/-- `variables = {'A': 2, 'T': 3}`, `reaction = 2 A -> …` -/
def wctx : Ctx Rat := ⟨fun k => if k = "A" then some 2 else if k = "T" then some 3 else none, .some [("A", 2)]⟩

instance : DecidableEq (Except Err Rat) := fun a b =>
  match a, b with
  | .ok x, .ok y => if h : x = y then isTrue (by rw [h]) else isFalse (by intro h'; cases h'; exact h rfl)
  | .error x, .error y => if h : x = y then isTrue (by rw [h]) else isFalse (by intro h'; cases h'; exact h rfl)
  | .ok _, .error _ => isFalse (by intro h; cases h)
  | .error _, .ok _ => isFalse (by intro h; cases h)

/-- a map between two number structures that commutes with the arithmetic operations, integer literals and `exp`:
floats → magnitudes of quantities in consistent units, numbers → symbolic expressions (with `φ⁻¹` = substitution), … -/
structure BackendHom {α β : Type} [Add α] [Sub α] [Mul α] [Div α] [Neg α] [NatCast α] [HasExp α]
    [Add β] [Sub β] [Mul β] [Div β] [Neg β] [NatCast β] [HasExp β] (φ : α → β) : Prop where
  map_add : ∀ x y, φ (x + y) = φ x + φ y
  map_sub : ∀ x y, φ (x - y) = φ x - φ y
  map_mul : ∀ x y, φ (x * y) = φ x * φ y
  map_div : ∀ x y, φ (x / y) = φ x / φ y
  map_neg : ∀ x, φ (-x) = -φ x
  map_natCast : ∀ n : Nat, φ (n : α) = (n : β)
  map_exp : ∀ x, φ (HasExp.exp x) = HasExp.exp (φ x)

section
variable {α β : Type} [Add α] [Sub α] [Mul α] [Div α] [Neg α] [NatCast α] [HasExp α]
    [Add β] [Sub β] [Mul β] [Div β] [Neg β] [NatCast β] [HasExp β] {φ : α → β}

theorem BackendHom.map_dec (h : BackendHom φ) (m : Int) (k : Nat) : φ (Num.dec m k) = Num.dec m k := by
  unfold Num.dec Num.ofInt
  rw [h.map_div, h.map_natCast]
  split
  · rw [h.map_neg, h.map_natCast]
  · rw [h.map_natCast]

theorem gen_naturality (h : BackendHom φ) (x y z : α) :
    φ (Gen.arrheniusEquation x y z) = Gen.arrheniusEquation (φ x) (φ y) (φ z)
    ∧ φ (Gen.eyringEquation x y z) = Gen.eyringEquation (φ x) (φ y) (φ z)
    ∧ φ (Gen.arrheniusFromRateconstA x y z) = Gen.arrheniusFromRateconstA (φ x) (φ y) (φ z)
    ∧ φ (Gen.arrheniusEaOverR x) = Gen.arrheniusEaOverR (φ x)
    ∧ φ (Gen.eyringKBhExpDSR x) = Gen.eyringKBhExpDSR (φ x)
    ∧ φ (Gen.eyringDHOverR x) = Gen.eyringDHOverR (φ x) := by
  simp only [Gen.arrheniusEquation, Gen.eyringEquation, Gen.arrheniusFromRateconstA, Gen.arrheniusEaOverR,
    Gen.eyringKBhExpDSR, Gen.eyringDHOverR, Gen.getR, Gen.getKBOverH, h.map_mul, h.map_div, h.map_neg, h.map_exp,
    h.map_dec, and_self]
end

/-! ### MassAction-free trees and whole build programs -/

mutual
/-- no `MassAction` instance anywhere in the tree -/
def noMA {α : Type} : Val α → Bool
  | .num _ => true
  | .str _ => true
  | .node k _ args _ => k != .massAction && noMAList args
def noMAList {α : Type} : List (Val α) → Bool
  | [] => true
  | a :: as => noMA a && noMAList as
end

theorem noMA_isMA {v : Val ℝ} (h : noMA v = true) : v.isMassAction = false := by
  cases v with
  | num _ => rfl
  | str _ => rfl
  | node k na args uks =>
    cases k <;> simp_all [noMA, Val.isMassAction]

theorem conv_noMA {v v' : Val ℝ} (h : conv v = .ok v') (hv : noMA v = true) : noMA v' = true := by
  cases v with
  | num x =>
    simp only [conv] at h
    split at h
    · cases h; simp [constNode, noMA, noMAList]
    · cases h
  | str s => cases h; simp [symbolNode, noMA, noMAList]
  | node k na args uks => cases h; exact hv

theorem node2_noMA (k : Kind) (hk : k ≠ .massAction) (p q : Val ℝ) (hp : noMA p = true) (hq : noMA q = true) :
    noMA (.node k false [p, q] none) = true := by
  simp [noMA, noMAList, hp, hq, hk]

theorem exprAdd_noMA {self other e : Val ℝ} (h : exprAdd self other = .ok e) (hs : noMA self = true)
    (ho : noMA other = true) : noMA e = true := by
  unfold exprAdd at h
  cases hc : conv other with
  | error err => rw [hc] at h; cases h
  | ok o =>
    rw [hc] at h
    simp only [ok_bind] at h
    cases hce : constErr o with
    | some e' => rw [hce] at h; simp at h
    | none =>
    rw [hce] at h
    simp only [pure_eq_ok, ok_bind] at h
    split at h
    · cases h; exact hs
    · cases h; exact node2_noMA .add (by decide) _ _ hs (conv_noMA hc ho)

theorem exprNeg_noMA {self e : Val ℝ} (h : exprNeg self = .ok e) (hs : noMA self = true) : noMA e = true := by
  unfold exprNeg at h
  split at h
  · rename_i na args uks
    cases args with
    | nil => cases h
    | cons a rest =>
      cases h
      simp only [noMA, noMAList, Bool.and_eq_true] at hs
      exact hs.2.1
  · cases h
    simp [noMA, noMAList, hs]

theorem exprSub_noMA {self other e : Val ℝ} (h : exprSub self other = .ok e) (hs : noMA self = true)
    (ho : noMA other = true) : noMA e = true := by
  unfold exprSub at h
  cases hsh : subShort other with
  | error err => rw [hsh] at h; cases h
  | ok short =>
    rw [hsh] at h
    simp only [ok_bind] at h
    cases short with
    | true => simp only [if_true, pure_eq_ok, Except.ok.injEq] at h; subst h; exact hs
    | false =>
      simp only [Bool.false_eq_true, if_false] at h
      cases hc : conv other with
      | error err => rw [hc] at h; cases h
      | ok o =>
        rw [hc] at h
        simp only [ok_bind, pure_eq_ok, Except.ok.injEq] at h
        subst h
        exact node2_noMA .sub (by decide) _ _ hs (conv_noMA hc ho)

theorem exprMul_noMA {self other e : Val ℝ} (h : exprMul self other = .ok e) (hs : noMA self = true)
    (ho : noMA other = true) : noMA e = true := by
  unfold exprMul at h
  simp only [noMA_isMA hs, noMA_isMA ho, Bool.false_eq_true, if_false] at h
  split at h
  · cases h; exact hs
  · cases hc : conv other with
    | error err => rw [hc] at h; cases h
    | ok o =>
      rw [hc] at h
      simp only [ok_bind, pure_eq_ok, Except.ok.injEq] at h
      subst h
      exact node2_noMA .mul (by decide) _ _ hs (conv_noMA hc ho)

theorem exprRDiv_noMA {self other e : Val ℝ} (h : exprRDiv self other = .ok e) (hs : noMA self = true)
    (ho : noMA other = true) : noMA e = true := by
  unfold exprRDiv at h
  simp only [noMA_isMA hs, Bool.false_eq_true, if_false] at h
  cases hc : conv other with
  | error err => rw [hc] at h; cases h
  | ok o =>
    rw [hc] at h
    simp only [ok_bind, pure_eq_ok, Except.ok.injEq] at h
    subst h
    exact node2_noMA .div (by decide) _ _ (conv_noMA hc ho) hs

theorem exprDiv_noMA {self other e : Val ℝ} (h : exprDiv self other = .ok e) (hs : noMA self = true)
    (ho : noMA other = true) : noMA e = true := by
  unfold exprDiv at h
  split at h
  · cases h; exact hs
  · simp only [noMA_isMA hs, noMA_isMA ho, Bool.false_eq_true, if_false] at h
    cases hc : conv other with
    | error err => rw [hc] at h; cases h
    | ok o =>
      rw [hc] at h
      simp only [ok_bind, pure_eq_ok, Except.ok.injEq] at h
      subst h
      exact node2_noMA .div (by decide) _ _ hs (conv_noMA hc ho)

theorem pyPow_noMA {l r e : Val ℝ} (h : pyPow l r = .ok e) (hl : noMA l = true) (hr : noMA r = true) :
    noMA e = true := by
  unfold pyPow at h
  split at h
  · cases hc : conv r with
    | error err => rw [hc] at h; cases h
    | ok o =>
      rw [hc] at h
      simp only [ok_bind, pure_eq_ok, Except.ok.injEq] at h
      subst h
      exact node2_noMA .pow (by decide) _ _ hl (conv_noMA hc hr)
  · split at h
    · cases hc : conv l with
      | error err => rw [hc] at h; cases h
      | ok o =>
        rw [hc] at h
        simp only [ok_bind, pure_eq_ok, Except.ok.injEq] at h
        subst h
        exact node2_noMA .pow (by decide) _ _ (conv_noMA hc hl) hr
    · cases h


/-! ### whole build programs -/

/-- a program over the operator algebra: bare numbers and strings, `Constant`, `Symbol`, and the six operators -/
inductive Prog
  | raw (x : ℝ) | str (s : String) | const (x : ℝ) | sym (s : String)
  /-- any already built expression (an instance of any class: Poly, Arrhenius, Radiolytic, …) used as a leaf -/
  | leaf (v : Val ℝ)
  | neg (p : Prog) | add (p q : Prog) | sub (p q : Prog) | mul (p q : Prog) | div (p q : Prog) | pow (p q : Prog)

/-- the tree the overloaded operators build -/
noncomputable def Prog.build : Prog → Except Err (Val ℝ)
  | .raw x => .ok (.num x)
  | .str s => .ok (.str s)
  | .const x => .ok (constNode x)
  | .sym s => .ok (symbolNode s)
  | .leaf v => .ok v
  | .neg p => do pyNeg (← p.build)
  | .add p q => do pyAdd (← p.build) (← q.build)
  | .sub p q => do pySub (← p.build) (← q.build)
  | .mul p q => do pyMul (← p.build) (← q.build)
  | .div p q => do pyDivOp (← p.build) (← q.build)
  | .pow p q => do pyPow (← p.build) (← q.build)

/-- the arithmetic meaning -/
noncomputable def Prog.meaning (ctx : Ctx ℝ) : Prog → Except Err ℝ
  | .raw x => .ok x
  | .str s => ctx.get s
  | .const x => .ok x
  | .sym s => ctx.get s
  | .leaf v => eval ctx v
  | .neg p => do pure (-(← p.meaning ctx))
  | .add p q => do pure ((← p.meaning ctx) + (← q.meaning ctx))
  | .sub p q => do pure ((← p.meaning ctx) - (← q.meaning ctx))
  | .mul p q => do pure ((← p.meaning ctx) * (← q.meaning ctx))
  | .div p q => do pyDiv (← p.meaning ctx) (← q.meaning ctx)
  | .pow p q => do PyNum.pow (← p.meaning ctx) (← q.meaning ctx)

/-- no subtraction whose subtrahend is the bare empty string (`x - ""` returns `x`); leaves of other classes have the shape
the operators construct (`plainOps`) and contain no `MassAction` (whose `*` `/` act on the coefficient) -/
noncomputable def Prog.okSub : Prog → Prop
  | .neg p => p.okSub
  | .add p q | .mul p q | .div p q | .pow p q => p.okSub ∧ q.okSub
  | .sub p q => p.okSub ∧ q.okSub ∧ q.build ≠ .ok (.str "")
  | .leaf v => plainOps v = true ∧ noMA v = true
  | _ => True

theorem bind_ok_inv {γ δ : Type} {x : Except Err γ} {f : γ → Except Err δ} {d : δ} (h : (x >>= f) = .ok d) :
    ∃ c, x = .ok c ∧ f c = .ok d := by
  cases x with
  | error e => cases h
  | ok c => exact ⟨c, rfl, h⟩

theorem prog_spec (ctx : Ctx ℝ) : ∀ (p : Prog) (e : Val ℝ) (v : ℝ), p.build = .ok e → p.meaning ctx = .ok v → p.okSub →
    eval ctx e = .ok v ∧ plainOps e = true ∧ noMA e = true := by
  intro p
  induction p with
  | raw x =>
    intro e v hb hm _
    cases hb; cases hm
    exact ⟨rfl, rfl, rfl⟩
  | str s =>
    intro e v hb hm _
    cases hb
    exact ⟨hm, rfl, rfl⟩
  | const x =>
    intro e v hb hm _
    cases hb; cases hm
    refine ⟨by simp [constNode, eval, call], by simp [constNode, plainOps, plainOpsList], by simp [constNode, noMA, noMAList]⟩
  | sym s =>
    intro e v hb hm _
    cases hb
    refine ⟨?_, by simp [symbolNode, plainOps, plainOpsList], by simp [symbolNode, noMA, noMAList]⟩
    have hm' : ctx.get s = .ok v := hm
    simpa [symbolNode, eval, call] using hm'
  | leaf w =>
    intro e v hb hm hs
    cases hb
    exact ⟨hm, hs.1, hs.2⟩
  | neg p ih =>
    intro e v hb hm hs
    obtain ⟨e1, hb1, hop⟩ := bind_ok_inv hb
    obtain ⟨v1, hm1, hv⟩ := bind_ok_inv hm
    cases hv
    obtain ⟨he1, hp1, hn1⟩ := ih e1 v1 hb1 hm1 hs
    unfold pyNeg at hop
    split at hop
    · obtain ⟨h1, h2⟩ := exprNeg_hom ctx e1 e v1 hop hp1 he1
      exact ⟨h1, h2, exprNeg_noMA hop hn1⟩
    · cases hop
  | add p q ihp ihq =>
    intro e v hb hm hs
    obtain ⟨e1, hb1, hb'⟩ := bind_ok_inv hb
    obtain ⟨e2, hb2, hop⟩ := bind_ok_inv hb'
    obtain ⟨v1, hm1, hm'⟩ := bind_ok_inv hm
    obtain ⟨v2, hm2, hv⟩ := bind_ok_inv hm'
    cases hv
    obtain ⟨he1, hp1, hn1⟩ := ihp e1 v1 hb1 hm1 hs.1
    obtain ⟨he2, hp2, hn2⟩ := ihq e2 v2 hb2 hm2 hs.2
    unfold pyAdd at hop
    split at hop
    · obtain ⟨h1, h2⟩ := exprAdd_hom ctx e1 e2 e v1 v2 hop hp1 hp2 he1 he2
      exact ⟨h1, h2, exprAdd_noMA hop hn1 hn2⟩
    · split at hop
      · obtain ⟨h1, h2⟩ := exprAdd_hom ctx e2 e1 e v2 v1 hop hp2 hp1 he2 he1
        rw [add_comm] at h1
        exact ⟨h1, h2, exprAdd_noMA hop hn2 hn1⟩
      · cases hop
  | sub p q ihp ihq =>
    intro e v hb hm hs
    obtain ⟨e1, hb1, hb'⟩ := bind_ok_inv hb
    obtain ⟨e2, hb2, hop⟩ := bind_ok_inv hb'
    obtain ⟨v1, hm1, hm'⟩ := bind_ok_inv hm
    obtain ⟨v2, hm2, hv⟩ := bind_ok_inv hm'
    cases hv
    obtain ⟨he1, hp1, hn1⟩ := ihp e1 v1 hb1 hm1 hs.1
    obtain ⟨he2, hp2, hn2⟩ := ihq e2 v2 hb2 hm2 hs.2.1
    have hne : e2 ≠ .str "" := fun h => hs.2.2 (by rw [hb2, h])
    unfold pySub at hop
    split at hop
    · obtain ⟨h1, h2⟩ := exprSub_hom ctx e1 e2 e v1 v2 hop hne hp1 hp2 he1 he2
      exact ⟨h1, h2, exprSub_noMA hop hn1 hn2⟩
    · split at hop
      · obtain ⟨n, hn, hop'⟩ := bind_ok_inv hop
        obtain ⟨hnv, hnp⟩ := exprNeg_hom ctx e2 n v2 hn hp2 he2
        obtain ⟨h1, h2⟩ := exprAdd_hom ctx n e1 e (-v2) v1 hop' hnp hp1 hnv he1
        rw [show -v2 + v1 = v1 - v2 by ring] at h1
        exact ⟨h1, h2, exprAdd_noMA hop' (exprNeg_noMA hn hn2) hn1⟩
      · cases hop
  | mul p q ihp ihq =>
    intro e v hb hm hs
    obtain ⟨e1, hb1, hb'⟩ := bind_ok_inv hb
    obtain ⟨e2, hb2, hop⟩ := bind_ok_inv hb'
    obtain ⟨v1, hm1, hm'⟩ := bind_ok_inv hm
    obtain ⟨v2, hm2, hv⟩ := bind_ok_inv hm'
    cases hv
    obtain ⟨he1, hp1, hn1⟩ := ihp e1 v1 hb1 hm1 hs.1
    obtain ⟨he2, hp2, hn2⟩ := ihq e2 v2 hb2 hm2 hs.2
    unfold pyMul at hop
    split at hop
    · obtain ⟨h1, h2⟩ := exprMul_hom ctx e1 e2 e v1 v2 hop (noMA_isMA hn1) (noMA_isMA hn2) hp1 hp2 he1 he2
      exact ⟨h1, h2, exprMul_noMA hop hn1 hn2⟩
    · split at hop
      · obtain ⟨h1, h2⟩ := exprMul_hom ctx e2 e1 e v2 v1 hop (noMA_isMA hn2) (noMA_isMA hn1) hp2 hp1 he2 he1
        rw [mul_comm] at h1
        exact ⟨h1, h2, exprMul_noMA hop hn2 hn1⟩
      · cases hop
  | div p q ihp ihq =>
    intro e v hb hm hs
    obtain ⟨e1, hb1, hb'⟩ := bind_ok_inv hb
    obtain ⟨e2, hb2, hop⟩ := bind_ok_inv hb'
    obtain ⟨v1, hm1, hm'⟩ := bind_ok_inv hm
    obtain ⟨v2, hm2, hv⟩ := bind_ok_inv hm'
    obtain ⟨he1, hp1, hn1⟩ := ihp e1 v1 hb1 hm1 hs.1
    obtain ⟨he2, hp2, hn2⟩ := ihq e2 v2 hb2 hm2 hs.2
    unfold pyDivOp at hop
    split at hop
    · obtain ⟨h1, h2⟩ := exprDiv_hom ctx e1 e2 e v1 v2 hop (noMA_isMA hn1) (noMA_isMA hn2) hp1 hp2 he1 he2
      exact ⟨h1.trans hv, h2, exprDiv_noMA hop hn1 hn2⟩
    · split at hop
      · obtain ⟨h1, h2⟩ := exprRDiv_hom ctx e2 e1 e v2 v1 hop (noMA_isMA hn2) hp2 hp1 he2 he1
        exact ⟨h1.trans hv, h2, exprRDiv_noMA hop hn2 hn1⟩
      · cases hop
  | pow p q ihp ihq =>
    intro e v hb hm hs
    obtain ⟨e1, hb1, hb'⟩ := bind_ok_inv hb
    obtain ⟨e2, hb2, hop⟩ := bind_ok_inv hb'
    obtain ⟨v1, hm1, hm'⟩ := bind_ok_inv hm
    obtain ⟨v2, hm2, hv⟩ := bind_ok_inv hm'
    obtain ⟨he1, hp1, hn1⟩ := ihp e1 v1 hb1 hm1 hs.1
    obtain ⟨he2, hp2, hn2⟩ := ihq e2 v2 hb2 hm2 hs.2
    obtain ⟨h1, h2⟩ := pyPow_hom ctx e1 e2 e v1 v2 hop hp1 hp2 he1 he2
    exact ⟨h1.trans hv, h2, pyPow_noMA hop hn1 hn2⟩

/-! ### backend naturality of the evaluator -/

set_option linter.unusedSectionVars false

section nat
variable {α β : Type} [Add α] [Sub α] [Mul α] [Div α] [Neg α] [NatCast α] [PyNum α]
  [Add β] [Sub β] [Mul β] [Div β] [Neg β] [NatCast β] [PyNum β]

/-- a map between two number structures ("backends") that commutes with everything an expression can do with a number -/
structure PyHom (φ : α → β) : Prop where
  map_add : ∀ x y, φ (x + y) = φ x + φ y
  map_sub : ∀ x y, φ (x - y) = φ x - φ y
  map_mul : ∀ x y, φ (x * y) = φ x * φ y
  map_div : ∀ x y, φ (x / y) = φ x / φ y
  map_neg : ∀ x, φ (-x) = -φ x
  map_natCast : ∀ n : Nat, φ (n : α) = (n : β)
  map_beq : ∀ x y, PyNum.beq (φ x) (φ y) = PyNum.beq x y
  map_le : ∀ x y, PyNum.le (φ x) (φ y) = PyNum.le x y
  map_pow : ∀ x y, PyNum.pow (φ x) (φ y) = (PyNum.pow x y).map φ
  map_exp : ∀ x, PyNum.exp (φ x) = (PyNum.exp x).map φ
  map_log10 : ∀ x, PyNum.log10 (φ x) = (PyNum.log10 x).map φ
  map_sin : ∀ x, PyNum.sin (φ x) = (PyNum.sin x).map φ

mutual
/-- the same tree over the other number type -/
def Val.map (φ : α → β) : Val α → Val β
  | .num x => .num (φ x)
  | .str s => .str s
  | .node k na args uks => .node k na (Val.mapList φ args) uks
def Val.mapList (φ : α → β) : List (Val α) → List (Val β)
  | [] => []
  | a :: as => Val.map φ a :: Val.mapList φ as
end

/-- the same variables over the other number type -/
def Ctx.map (φ : α → β) (ctx : Ctx α) : Ctx β := ⟨fun k => (ctx.vars k).map φ, ctx.rxn⟩

@[simp] theorem map_ok (φ : α → β) (x : α) : Except.map φ (Except.ok x : Except Err α) = Except.ok (φ x) := rfl
@[simp] theorem map_error (φ : α → β) (e : Err) : Except.map φ (Except.error e : Except Err α) = Except.error e := rfl

variable {φ : α → β}

theorem get_nat (ctx : Ctx α) (k : String) : (ctx.map φ).get k = (ctx.get k).map φ := by
  simp only [Ctx.get, Ctx.map]
  cases hv : ctx.vars k <;> simp

theorem ofInt_nat (h : PyHom φ) (i : Int) : φ (Num.ofInt i) = Num.ofInt i := by
  unfold Num.ofInt
  split
  · rw [h.map_neg, h.map_natCast]
  · rw [h.map_natCast]

theorem pyDiv_nat (h : PyHom φ) (x y : α) : pyDiv (φ x) (φ y) = (pyDiv x y).map φ := by
  unfold pyDiv
  rw [← h.map_natCast 0, h.map_beq]
  split
  · rfl
  · rw [map_ok, h.map_div]

theorem mapM_nat {γ : Type} (f : γ → Except Err α) (f' : γ → Except Err β) (hf : ∀ x, f' x = (f x).map φ) :
    ∀ l : List γ, l.mapM f' = (l.mapM f).map (List.map φ)
  | [] => rfl
  | a :: l => by
      rw [List.mapM_cons, List.mapM_cons, hf a, mapM_nat f f' hf l]
      cases f a with
      | error e => rfl
      | ok x => cases l.mapM f <;> rfl

theorem pyIndex_map {γ δ : Type} (g : γ → δ) (l : List γ) (i : Int) : pyIndex (l.map g) i = (pyIndex l i).map g := by
  unfold pyIndex
  simp only [List.length_map, List.getElem?_map]
  split
  · split <;> rfl
  · rfl

theorem defaults_nat (h : PyHom φ) (k : Kind) :
    (k.defaults : Option (List β)) = (k.defaults : Option (List α)).map (List.map φ) := by
  cases k <;> simp [Kind.defaults, h.map_natCast]

theorem argAt_nat (h : PyHom φ) (ctx : Ctx α) (k : Kind) (na : Bool) (n : Nat) (vals : List (Except Err α))
    (uks : Option (List String)) (i : Nat) :
    argAt (ctx.map φ) k na n (vals.map (Except.map φ)) uks i = (argAt ctx k na n vals uks i).map φ := by
  unfold argAt
  have hstored : (if na then Except.error Err.typeError else
        match (vals.map (Except.map φ))[i]? with | some r => r | none => Except.error Err.indexError)
      = Except.map φ (if na then Except.error Err.typeError else
        match vals[i]? with | some r => r | none => Except.error Err.indexError) := by
    cases na
    · simp only [Bool.false_eq_true, if_false, List.getElem?_map]
      cases vals[i]? <;> rfl
    · rfl
  cases uks with
  | none => exact hstored
  | some uk =>
    simp only
    cases uk[i]? with
    | some key =>
      simp only [Ctx.map]
      cases hv : ctx.vars key with
      | some v => simp
      | none =>
        simp only [Option.map_none]
        cases na
        · exact hstored
        · rfl
    | none =>
      simp only
      split
      · rw [defaults_nat h k]
        cases (k.defaults : Option (List α)) with
        | none => rfl
        | some d =>
          cases k.nargs with
          | none => rfl
          | some m =>
            simp only [Option.map_some, List.length_map, pyIndex_map]
            cases pyIndex d (↑i - m + ↑d.length) <;> rfl
      · exact hstored

theorem allArgs_nat (h : PyHom φ) (ctx : Ctx α) (k : Kind) (na : Bool) (n : Nat) (vals : List (Except Err α))
    (uks : Option (List String)) :
    allArgs (ctx.map φ) k na n (vals.map (Except.map φ)) uks = (allArgs ctx k na n vals uks).map (List.map φ) := by
  unfold allArgs
  have hm := fun m => mapM_nat (φ := φ) (argAt ctx k na n vals uks) (argAt (ctx.map φ) k na n (vals.map (Except.map φ)) uks)
    (argAt_nat h ctx k na n vals uks) (List.range m)
  cases k.nargs with
  | none =>
    cases na
    · simp only [Bool.false_eq_true, if_false, pure_eq_ok, ok_bind]; exact hm n
    · rfl
  | some m =>
    simp only
    split
    · cases na
      · simp only [Bool.false_eq_true, if_false, pure_eq_ok, ok_bind]; exact hm n
      · rfl
    · simp only [pure_eq_ok, ok_bind]; exact hm _


theorem bind_nat {γ δ : Type} (ψ : γ → δ) (x : Except Err α) (f : α → Except Err γ) (f' : β → Except Err δ)
    (hf : ∀ a, f' (φ a) = (f a).map ψ) : (x.map φ >>= f') = (x >>= f).map ψ := by
  cases x with
  | error e => rfl
  | ok a => exact hf a

theorem mapList_length (l : List (Val α)) : (Val.mapList φ l).length = l.length := by
  induction l with
  | nil => rfl
  | cons a l ih => simp [Val.mapList, ih]

theorem polyLoop_nat (h : PyHom φ) (recip : Bool) (x0 : α) : ∀ (cs : List α) (res : Option α) (cur : α),
    polyLoop recip (φ x0) (cs.map φ) (res.map φ) (φ cur) = (polyLoop recip x0 cs res cur).map (Option.map φ)
  | [], res, cur => rfl
  | c :: cs, res, cur => by
      have key : ∀ r0 : α, polyLoop recip (φ x0) (List.map φ (c :: cs)) (Option.map φ res) (φ cur)
          = (if recip = true then do
              let cur' ← pyDiv (φ cur) (φ x0)
              polyLoop recip (φ x0) (cs.map φ) (some (φ r0)) cur'
            else polyLoop recip (φ x0) (cs.map φ) (some (φ r0)) (φ cur * φ x0)) →
          (polyLoop recip x0 (c :: cs) res cur
          = (if recip = true then do
              let cur' ← pyDiv cur x0
              polyLoop recip x0 cs (some r0) cur'
            else polyLoop recip x0 cs (some r0) (cur * x0))) →
          polyLoop recip (φ x0) (List.map φ (c :: cs)) (Option.map φ res) (φ cur)
            = (polyLoop recip x0 (c :: cs) res cur).map (Option.map φ) := by
        intro r0 h1 h2
        rw [h1, h2]
        cases recip
        · simp only [Bool.false_eq_true, if_false, ← h.map_mul]
          exact polyLoop_nat h false x0 cs (some r0) _
        · simp only [if_true, pyDiv_nat h]
          refine bind_nat _ _ _ _ (fun cur' => ?_)
          exact polyLoop_nat h true x0 cs (some r0) _
      cases res with
      | none =>
        refine key (c * cur) ?_ ?_
        · simp only [List.map_cons, Option.map_none, polyLoop, h.map_mul]
          cases recip <;> rfl
        · simp only [polyLoop]
          cases recip <;> rfl
      | some r =>
        refine key (r + c * cur) ?_ ?_
        · simp only [List.map_cons, Option.map_some, polyLoop, h.map_mul, h.map_add]
          cases recip <;> rfl
        · simp only [polyLoop]
          cases recip <;> rfl

theorem polyBody_nat (h : PyHom φ) (recip shift : Bool) (args : List α) (x : α) :
    polyBody recip shift (args.map φ) (φ x) = (polyBody recip shift args x).map φ := by
  unfold polyBody
  cases shift
  · simp only [Bool.false_eq_true, if_false, pure_eq_ok, ok_bind]
    have := polyLoop_nat h recip x args none ((1 : Nat) : α)
    rw [h.map_natCast] at this
    simp only [Option.map_none] at this
    rw [this]
    cases polyLoop recip x args none ((1 : Nat) : α) with
    | error e => rfl
    | ok r => cases r <;> rfl
  · cases args with
    | nil => rfl
    | cons a0 rest =>
      simp only [if_true, List.map_cons, pure_eq_ok, ok_bind, ← h.map_sub]
      have := polyLoop_nat h recip (x - a0) rest none ((1 : Nat) : α)
      rw [h.map_natCast] at this
      simp only [Option.map_none] at this
      rw [this]
      cases polyLoop recip (x - a0) rest none ((1 : Nat) : α) with
      | error e => rfl
      | ok r => cases r <;> rfl

theorem pwSelect_nat (h : PyHom φ) (x : α) : ∀ b : List α, pwSelect (φ x) (b.map φ) = (pwSelect x b).map φ
  | [] => by simp [pwSelect]
  | [_] => by simp [pwSelect]
  | [_, _] => by simp [pwSelect]
  | lo :: ex :: up :: rest => by
      simp only [List.map_cons]
      rw [pwSelect, pwSelect, h.map_le, h.map_le]
      split
      · rfl
      · have := pwSelect_nat h x (up :: rest)
        simpa using this
termination_by b => b.length

theorem pwBody_nat (h : PyHom φ) (b : List α) (x : α) : pwBody (b.map φ) (φ x) = (pwBody b x).map φ := by
  unfold pwBody
  simp only [List.length_map]
  split
  · rfl
  · split
    · rfl
    · exact pwSelect_nat h x b

theorem concProd_nat (h : PyHom φ) (ctx : Ctx α) : ∀ (reac : List (String × Int)) (acc : α),
    concProd (ctx.map φ) reac (φ acc) = (concProd ctx reac acc).map φ
  | [], acc => rfl
  | (k, v) :: rest, acc => by
      simp only [concProd, get_nat]
      refine bind_nat _ _ _ _ (fun c => ?_)
      rw [← ofInt_nat h, h.map_pow]
      refine bind_nat _ _ _ _ (fun p => ?_)
      rw [← h.map_mul]
      exact concProd_nat h ctx rest _

theorem radSum_nat (h : PyHom φ) (ctx : Ctx α) : ∀ (ks : List String) (gs : List α) (acc : Option α),
    radSum (ctx.map φ) ks (gs.map φ) (acc.map φ) = (radSum ctx ks gs acc).map (Option.map φ)
  | [], _, _ => by simp [radSum]
  | _ :: _, [], _ => by simp [radSum]
  | k :: ks, g :: gs, acc => by
      cases acc with
      | none =>
        simp only [List.map_cons, Option.map_none, radSum, get_nat]
        refine bind_nat _ _ _ _ (fun d => ?_)
        rw [← h.map_mul]
        exact radSum_nat h ctx ks gs (some (d * g))
      | some a =>
        simp only [List.map_cons, Option.map_some, radSum, get_nat]
        refine bind_nat _ _ _ _ (fun d => ?_)
        rw [← h.map_mul, ← h.map_add]
        exact radSum_nat h ctx ks gs (some (a + d * g))

theorem rxnOf_nat (ctx : Ctx α) (b : Bool) : rxnOf (ctx.map φ) b = rxnOf ctx b := rfl


/-- list-valued version of `bind_nat` followed by the case analysis on the shape of the argument list -/
theorem bindL_nat {δ : Type} (x : Except Err (List α)) (f : List α → Except Err α) (f' : List β → Except Err β)
    (hf : ∀ l, f' (l.map φ) = (f l).map φ) : (x.map (List.map φ) >>= f') = (x >>= f).map φ := by
  cases x with
  | error e => rfl
  | ok a => exact hf a

syntax "shape " ident : tactic
macro_rules
  | `(tactic| shape $l) =>
    `(tactic| (rcases $l:ident with _ | ⟨a1, _ | ⟨a2, _ | ⟨a3, _ | ⟨a4, _ | ⟨a5, rest⟩⟩⟩⟩⟩ <;>
        simp only [List.map_cons, List.map_nil] <;> try rfl))

theorem call_nat (h : PyHom φ) (ctx : Ctx α) (k : Kind) (na : Bool) (args : List (Val α)) (vals : List (Except Err α))
    (uks : Option (List String)) :
    call (ctx.map φ) k na (Val.mapList φ args) (vals.map (Except.map φ)) uks
      = (call ctx k na args vals uks).map φ := by
  unfold call
  simp only [mapList_length, allArgs_nat h]
  cases k with
  | const =>
    cases na
    · cases args with
      | nil => rfl
      | cons a rest => cases a <;> rfl
    · rfl
  | symbol =>
    cases uks with
    | none => rfl
    | some u =>
      rcases u with _ | ⟨uk, _ | ⟨_, _⟩⟩
      · rfl
      · exact get_nat ctx uk
      · rfl
  | neg =>
    refine bindL_nat (δ := α) _ _ _ (fun l => ?_)
    shape l
    simp only [pure_eq_ok, map_ok, h.map_neg]
  | add =>
    refine bindL_nat (δ := α) _ _ _ (fun l => ?_)
    shape l
    simp only [pure_eq_ok, map_ok, h.map_add]
  | sub =>
    refine bindL_nat (δ := α) _ _ _ (fun l => ?_)
    shape l
    simp only [pure_eq_ok, map_ok, h.map_sub]
  | mul =>
    refine bindL_nat (δ := α) _ _ _ (fun l => ?_)
    shape l
    simp only [pure_eq_ok, map_ok, h.map_mul]
  | div =>
    refine bindL_nat (δ := α) _ _ _ (fun l => ?_)
    shape l
    exact pyDiv_nat h _ _
  | pow =>
    refine bindL_nat (δ := α) _ _ _ (fun l => ?_)
    shape l
    exact h.map_pow _ _
  | log10 =>
    refine bindL_nat (δ := α) _ _ _ (fun l => ?_)
    shape l
    exact h.map_log10 _
  | exp =>
    refine bindL_nat (δ := α) _ _ _ (fun l => ?_)
    shape l
    exact h.map_exp _
  | poly p recip shift =>
    refine bindL_nat (δ := α) _ _ _ (fun l => ?_)
    rw [get_nat]
    refine bind_nat _ _ _ _ (fun x => ?_)
    exact polyBody_nat h recip shift l x
  | piecewise p =>
    refine bindL_nat (δ := α) _ _ _ (fun l => ?_)
    rw [get_nat]
    refine bind_nat _ _ _ _ (fun x => ?_)
    exact pwBody_nat h l x
  | massAction =>
    refine bindL_nat (δ := α) _ _ _ (fun l => ?_)
    shape l
    rw [rxnOf_nat]
    cases rxnOf ctx false with
    | error e => rfl
    | ok r =>
      simp only [ok_bind]
      rw [← h.map_natCast 1, concProd_nat h]
      refine bind_nat _ _ _ _ (fun p => ?_)
      simp only [pure_eq_ok, map_ok, h.map_mul]
  | arrhenius =>
    refine bindL_nat (δ := α) _ _ _ (fun l => ?_)
    shape l
    rw [get_nat]
    refine bind_nat _ _ _ _ (fun t => ?_)
    rw [← h.map_neg, pyDiv_nat h]
    refine bind_nat _ _ _ _ (fun q => ?_)
    rw [h.map_exp]
    refine bind_nat _ _ _ _ (fun x => ?_)
    simp only [pure_eq_ok, map_ok, h.map_mul]
  | eyring =>
    refine bindL_nat (δ := α) _ _ _ (fun l => ?_)
    shape l
    rw [get_nat]
    refine bind_nat _ _ _ _ (fun t => ?_)
    rw [← h.map_neg, pyDiv_nat h]
    refine bind_nat _ _ _ _ (fun q => ?_)
    rw [h.map_exp]
    refine bind_nat _ _ _ _ (fun x => ?_)
    rw [rxnOf_nat]
    cases rxnOf ctx true with
    | error e => rfl
    | ok r =>
      simp only [ok_bind]
      rw [← ofInt_nat h, h.map_pow]
      refine bind_nat _ _ _ _ (fun p => ?_)
      simp only [pure_eq_ok, map_ok, h.map_mul]
  | eyringHS =>
    refine bindL_nat (δ := α) _ _ _ (fun l => ?_)
    shape l
    rw [get_nat]
    refine bind_nat _ _ _ _ (fun t => ?_)
    rw [get_nat]
    refine bind_nat _ _ _ _ (fun r => ?_)
    rw [get_nat]
    refine bind_nat _ _ _ _ (fun kB => ?_)
    rw [get_nat]
    refine bind_nat _ _ _ _ (fun hh => ?_)
    rw [← h.map_mul, ← h.map_mul, ← h.map_sub, ← h.map_neg, pyDiv_nat h]
    refine bind_nat _ _ _ _ (fun q => ?_)
    rw [pyDiv_nat h]
    refine bind_nat _ _ _ _ (fun f => ?_)
    rw [h.map_exp]
    refine bind_nat _ _ _ _ (fun x => ?_)
    rw [rxnOf_nat]
    cases rxnOf ctx false with
    | error e => rfl
    | ok rx =>
      simp only [ok_bind]
      rw [← ofInt_nat h, h.map_pow]
      refine bind_nat _ _ _ _ (fun p => ?_)
      simp only [pure_eq_ok, map_ok, h.map_mul]
  | radiolytic names =>
    dsimp only
    rw [get_nat]
    refine bind_nat _ _ _ _ (fun d => ?_)
    refine bindL_nat (δ := α) _ _ _ (fun l => ?_)
    have := radSum_nat h ctx (names.map (fun n => "doserate" ++ radSuffix n)) l none
    simp only [Option.map_none] at this
    rw [this]
    cases radSum ctx (names.map (fun n => "doserate" ++ radSuffix n)) l none with
    | error e => rfl
    | ok r =>
      cases r with
      | none => rfl
      | some sm => simp only [map_ok, Option.map_some, ok_bind, pure_eq_ok, h.map_mul]
  | rampedTemp =>
    refine bindL_nat (δ := α) _ _ _ (fun l => ?_)
    shape l
    rw [get_nat]
    refine bind_nat _ _ _ _ (fun t => ?_)
    simp only [pure_eq_ok, map_ok, h.map_mul, h.map_add]
  | sinTemp =>
    refine bindL_nat (δ := α) _ _ _ (fun l => ?_)
    shape l
    rw [get_nat]
    refine bind_nat _ _ _ _ (fun t => ?_)
    rw [← h.map_mul, ← h.map_add, h.map_sin]
    refine bind_nat _ _ _ _ (fun x => ?_)
    simp only [pure_eq_ok, map_ok, h.map_mul, h.map_add]
  | massActionEq =>
    refine bindL_nat (δ := α) _ _ _ (fun l => ?_)
    shape l
  | gibbsEqConst =>
    refine bindL_nat (δ := α) _ _ _ (fun l => ?_)
    shape l
    rw [get_nat]
    refine bind_nat _ _ _ _ (fun t => ?_)
    rw [pyDiv_nat h]
    refine bind_nat _ _ _ _ (fun q => ?_)
    rw [← h.map_sub, h.map_exp]


theorem childCtx_map (k : Kind) (ctx : Ctx α) : childCtx k (ctx.map φ) = (childCtx k ctx).map φ := by
  cases k <;> rfl

theorem noneArg_nat (k : Kind) (r : Except Err α) : noneArg k (r.map φ) = (noneArg k r).map φ := by
  cases r with
  | ok x => rfl
  | error e =>
    cases e <;> simp only [map_error, noneArg]
    split <;> rfl

mutual
theorem eval_nat (h : PyHom φ) : ∀ (ctx : Ctx α) (v : Val α),
    eval (ctx.map φ) (Val.map φ v) = (eval ctx v).map φ
  | ctx, .num x => rfl
  | ctx, .str s => get_nat ctx s
  | ctx, .node k na args uks => by
      simp only [Val.map, eval]
      rw [childCtx_map, evalList_nat h (childCtx k ctx) args]
      have : List.map (noneArg k) (List.map (Except.map φ) (evalList (childCtx k ctx) args))
          = List.map (Except.map φ) (List.map (noneArg k) (evalList (childCtx k ctx) args)) := by
        simp only [List.map_map]
        apply List.map_congr_left
        intro r _
        exact noneArg_nat k r
      rw [this]
      exact call_nat h ctx k na args _ uks
theorem evalList_nat (h : PyHom φ) : ∀ (ctx : Ctx α) (l : List (Val α)),
    evalList (ctx.map φ) (Val.mapList φ l) = (evalList ctx l).map (Except.map φ)
  | ctx, [] => rfl
  | ctx, a :: l => by
      simp only [Val.mapList, evalList, List.map_cons]
      rw [eval_nat h ctx a, evalList_nat h ctx l]
end

end nat
end ChemModel.PyExpr
