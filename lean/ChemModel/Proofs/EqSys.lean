/-
Helper lemmas for C07 (and C08): the model of Model/EqSys.lean instantiated with `ℝ`,
rewritten into Mathlib vocabulary (`zpow`, `List.prod`, `List.sum`, `Real.exp`, `Real.log`).

Specification vocabulary (used by Props/C07.lean):
* `quotient c row = ∏ⱼ cⱼ ^ rowⱼ`          — the mass-action quotient of one reaction
* `total brow c   = Σⱼ browⱼ · cⱼ`          — the amount of one composition key (element / charge)
* `addExtent c N ξ = c + Σᵢ ξᵢ · Nᵢ`        — state after reaction extents ξ
-/
import Mathlib.Analysis.SpecialFunctions.Log.Basic
import Mathlib.Analysis.SpecialFunctions.Pow.Real
import Mathlib.Tactic.Ring
import Mathlib.Tactic.Linarith
import Mathlib.Tactic.FieldSimp
import Mathlib.LinearAlgebra.Matrix.NonsingularInverse
import ChemModel.Model.EqSys

namespace ChemModel.EqSys
open ChemModel

noncomputable instance instHasExpReal : HasExp ℝ := ⟨Real.exp⟩
noncomputable instance instHasLogReal : HasLog ℝ := ⟨Real.log⟩
noncomputable instance instHasRPowReal : HasRPow ℝ := ⟨Real.rpow⟩
noncomputable instance instHasSqrtReal : HasSqrt ℝ := ⟨Real.sqrt⟩

/-! ## Specification vocabulary -/

/-- mass-action quotient `∏ⱼ cⱼ ^ νⱼ` of a reaction with (integer) stoichiometry row `ν` -/
noncomputable def quotient (c : List ℝ) (row : List ℤ) : ℝ :=
  (List.zipWith (fun (x : ℝ) (n : ℤ) => x ^ n) c row).prod

/-- amount `Σⱼ bⱼ · cⱼ` of one composition key, `b` the row of the composition matrix -/
noncomputable def total (brow : List ℤ) (c : List ℝ) : ℝ :=
  (List.zipWith (fun (b : ℤ) (x : ℝ) => (b : ℝ) * x) brow c).sum

/-- integer dot product `Σⱼ bⱼ · νⱼ` (zero for every key ⇔ the reaction is balanced) -/
def idot (brow row : List ℤ) : ℤ := (List.zipWith (· * ·) brow row).sum

/-- `c + ξ · row` -/
noncomputable def addScaled (c : List ℝ) (ξ : ℝ) (row : List ℤ) : List ℝ :=
  List.zipWith (fun (x : ℝ) (n : ℤ) => x + ξ * (n : ℝ)) c row

/-- the state reached from `c` by the reaction extents `ξ` (one per row of `N`) -/
noncomputable def addExtent (c : List ℝ) : List (List ℤ) → List ℝ → List ℝ
  | row :: N, x :: ξ => addExtent (addScaled c x row) N ξ
  | _, _ => c

/-! ## Number-class functions on ℝ -/

@[simp] theorem zero_real : (zero : ℝ) = 0 := by simp [zero]
@[simp] theorem one_real : (one : ℝ) = 1 := by simp [one]

theorem ofInt_real (i : ℤ) : (Num.ofInt i : ℝ) = (i : ℝ) := by
  unfold Num.ofInt
  split
  · rename_i h
    have h2 : ((i.natAbs : ℤ) : ℝ) = ((-i : ℤ) : ℝ) := by
      congr 1; omega
    rw [Int.cast_natCast] at h2
    rw [h2]; simp
  · rename_i h
    have h2 : ((i.toNat : ℤ) : ℝ) = (i : ℝ) := by
      congr 1; omega
    rw [Int.cast_natCast] at h2
    exact h2

theorem npow_real (x : ℝ) (n : ℕ) : Num.npow x n = x ^ n := by
  induction n with
  | zero => simp [Num.npow]
  | succ k ih => simp [Num.npow, ih, pow_succ]

theorem powInt_real (x : ℝ) (n : ℤ) : powInt x n = x ^ n := by
  unfold powInt
  split
  · rename_i h
    have hn : n = -((n.natAbs : ℕ) : ℤ) := by omega
    rw [npow_real, one_real]
    conv_rhs => rw [hn]
    rw [zpow_neg, zpow_natCast, one_div]
  · rename_i h
    have hn : n = ((n.toNat : ℕ) : ℤ) := by omega
    rw [npow_real]
    conv_rhs => rw [hn]
    rw [zpow_natCast]

theorem foldl_mul_real (l : List ℝ) (a : ℝ) : l.foldl (· * ·) a = a * l.prod := by
  induction l generalizing a with
  | nil => simp
  | cons x xs ih => simp [List.foldl_cons, ih, mul_assoc]

theorem foldl_add_real (l : List ℝ) (a : ℝ) : l.foldl (· + ·) a = a + l.sum := by
  induction l generalizing a with
  | nil => simp
  | cons x xs ih => simp [List.foldl_cons, ih, add_assoc]

theorem prodPowRow_real (c : List ℝ) (row : List ℤ) : prodPowRow c row = quotient c row := by
  unfold prodPowRow quotient
  rw [foldl_mul_real, one_real, one_mul]
  congr 1
  congr 1
  funext x n
  exact powInt_real x n

theorem ofInt_fun : (fun (c : ℤ) (x : ℝ) => (Num.ofInt c : ℝ) * x) = fun (c : ℤ) (x : ℝ) => (c : ℝ) * x := by
  funext c x
  rw [ofInt_real]

theorem dotRow_real (row : List ℤ) (v : List ℝ) : dotRow row v = total row v := by
  unfold dotRow total
  rw [foldl_add_real, zero_real, zero_add, ofInt_fun]

theorem vecDotVec_real {row : List ℤ} {v : List ℝ} {d : ℝ}
    (h : vecDotVec (intRow row) v = some d) : d = total row v := by
  cases row with
  | nil => simp [intRow, vecDotVec] at h
  | cons a as =>
    cases v with
    | nil => simp [intRow, vecDotVec] at h
    | cons b bs =>
      simp only [intRow, List.map_cons, vecDotVec, Option.some.injEq] at h
      rw [← h, foldl_add_real, total, List.zipWith_cons_cons, List.sum_cons, ofInt_real,
        List.zipWith_map_left, ofInt_fun]

theorem matDotVec_real {B : List (List ℤ)} {v b : List ℝ}
    (h : matDotVec (intMat B) v = some b) : b = B.map (fun row => total row v) := by
  induction B generalizing b with
  | nil => simpa [intMat, matDotVec] using h.symm
  | cons row rest ih =>
    simp only [intMat, List.map_cons, matDotVec] at h
    split at h
    · exact absurd h (by simp)
    · rename_i d hd
      split at h
      · exact absurd h (by simp)
      · rename_i ds hds
        simp only [Option.some.injEq] at h
        rw [← h, List.map_cons, vecDotVec_real hd, ih hds]

theorem linearExprs_real (B : List (List ℤ)) (x b : List ℝ) :
    linearExprs B x b = List.zipWith (fun row v => total row x - v) B b := by
  unfold linearExprs
  congr 1
  funext row v
  rw [← dotRow_real]
  rfl

theorem beq_zero_real (k : ℝ) : (k == (zero : ℝ)) = decide (k = 0) := by
  rw [zero_real]
  by_cases h : k = 0
  · simp [h]
  · simp [h]

/-- the residual `q/k - 1 if k != 0 else q` vanishes exactly when `q = k` — for every `k`, zero included -/
theorem equilResidual_eq_zero_iff (q k : ℝ) : equilResidual q k = 0 ↔ q = k := by
  unfold equilResidual
  rw [beq_zero_real]
  by_cases hk : k = 0
  · simp [hk]
  · simp only [hk, decide_false, Bool.false_eq_true, ↓reduceIte, one_real]
    rw [sub_eq_zero, div_eq_one_iff_eq hk]

/-! ## List plumbing -/

theorem forall_zipWith {α β γ : Type} (f : α → β → γ) (P : γ → Prop) (l₁ : List α) (l₂ : List β) :
    (∀ x ∈ List.zipWith f l₁ l₂, P x) ↔ ∀ ab ∈ l₁.zip l₂, P (f ab.1 ab.2) := by
  induction l₁ generalizing l₂ with
  | nil => simp
  | cons a as ih =>
    cases l₂ with
    | nil => simp
    | cons b bs => simp [ih]

theorem zip_map_right_self {α β : Type} (f : α → β) (l : List α) (P : α → β → Prop) :
    (∀ ab ∈ l.zip (l.map f), P ab.1 ab.2) ↔ ∀ a ∈ l, P a (f a) := by
  induction l with
  | nil => simp
  | cons a as ih => simp only [List.map_cons, List.zip_cons_cons, List.forall_mem_cons, ih]

theorem zip_map_left {α β γ : Type} (f : α → γ) (l₁ : List α) (l₂ : List β) (P : γ → β → Prop) :
    (∀ ab ∈ (l₁.map f).zip l₂, P ab.1 ab.2) ↔ ∀ ab ∈ l₁.zip l₂, P (f ab.1) ab.2 := by
  induction l₁ generalizing l₂ with
  | nil => simp
  | cons a as ih =>
    cases l₂ with
    | nil => simp
    | cons b bs => simp only [List.map_cons, List.zip_cons_cons, List.forall_mem_cons, ih]

/-! ## `NumSysLin.f` over ℝ -/

/-- the constants `ks` that `_get_A_ks` pairs with the rows of `A` -/
noncomputable def ksOf (s : EqSystem) (prec : List Bool) (small : ℝ) (p : List ℝ) : List ℝ :=
  eqConstants (nonPrecipRids s prec) (eqParamsOf s p) small

/-- the composition matrix `B` -/
def compMat (s : EqSystem) : List (List ℤ) := (compositionBalanceVectors s).1

/-- everything `NumSysLin.f` computes on the way, when it does not raise -/
theorem numSysLinF_ok {s : EqSystem} {prec : List Bool} {small : ℝ} {y p r : List ℝ}
    (h : numSysLinF s prec small y p = .ok r) :
    ∃ A, stoichs s (nonPrecipRids s prec) = .ok A ∧ A.any (zeroDiv y) = false ∧ shapeOk s y p = true ∧
      r = List.zipWith equilResidual (A.map (prodPowRow y)) (ksOf s prec small p)
          ++ List.zipWith (fun row v => total row y - v) (compMat s)
              ((compMat s).map fun row => total row (initConcsOf s p)) := by
  unfold numSysLinF at h
  by_cases hshape : shapeOk s y p = true
  · simp only [hshape, Bool.not_true, Bool.false_eq_true, ↓reduceIte] at h
    by_cases hempty : s.rxns.isEmpty = true
    · simp [hempty] at h
    simp only [hempty, Bool.false_eq_true, ↓reduceIte] at h
    cases hA : stoichs s (nonPrecipRids s prec) with
    | error e => simp [hA] at h
    | ok A =>
      simp only [hA] at h
      unfold prodPow at h
      by_cases hz : A.any (zeroDiv y) = true
      · simp [hz] at h
      · simp only [hz, Bool.false_eq_true, ↓reduceIte] at h
        cases hb : matDotVec (intMat (compositionBalanceVectors s).1) (initConcsOf s p) with
        | none => simp [hb] at h
        | some b =>
          simp only [hb, Except.ok.injEq] at h
          refine ⟨A, rfl, by simpa using hz, hshape, ?_⟩
          rw [← h, linearExprs_real, matDotVec_real hb]
          rfl
  · simp [hshape] at h

/-- zero pattern of the residual vector of `NumSysLin.f`, for ANY constants (zero included) -/
theorem lin_zero_iff_core (A B : List (List ℤ)) (ks y c0 : List ℝ) :
    (∀ x ∈ List.zipWith equilResidual (A.map (prodPowRow y)) ks
          ++ List.zipWith (fun row v => total row y - v) B (B.map fun row => total row c0), x = 0) ↔
      (∀ rk ∈ A.zip ks, quotient y rk.1 = rk.2) ∧ (∀ brow ∈ B, total brow y = total brow c0) := by
  rw [List.forall_mem_append, forall_zipWith, forall_zipWith,
    zip_map_left (prodPowRow y) A ks (fun q k => equilResidual q k = 0),
    zip_map_right_self (fun row => total row c0) B (fun row v => total row y - v = 0)]
  constructor
  · rintro ⟨h1, h2⟩
    refine ⟨fun rk hrk => ?_, fun brow hb => ?_⟩
    · have := h1 rk hrk
      rwa [equilResidual_eq_zero_iff, prodPowRow_real] at this
    · exact sub_eq_zero.mp (h2 brow hb)
  · rintro ⟨h1, h2⟩
    refine ⟨fun rk hrk => ?_, fun brow hb => ?_⟩
    · rw [equilResidual_eq_zero_iff, prodPowRow_real]
      exact h1 rk hrk
    · exact sub_eq_zero.mpr (h2 brow hb)

/-! ## Structure: stoichs, constants, homogeneous systems, lengths -/

/-- no species belongs to another phase (`phase_idx = 0` throughout): the quantifier of C07 -/
def Homogeneous (s : EqSystem) : Prop := ∀ kv ∈ s.substances, kv.2.phaseIdx = 0

theorem stoichsAux_nil (s : EqSystem) (i : ℕ) (rs : List Rxn) :
    stoichsAux s [] i rs = .ok (rs.map fun r => nonPrecipitateStoich r s.substances) := by
  induction rs generalizing i with
  | nil => rfl
  | cons r rs ih => simp [stoichsAux, stoichRow, ih]

/-- with no reaction switched to "no precipitate", `stoichs` is the non-precipitate stoichiometry -/
theorem stoichs_nil (s : EqSystem) :
    stoichs s [] = .ok (s.rxns.map fun r => nonPrecipitateStoich r s.substances) :=
  stoichsAux_nil s 0 s.rxns

theorem nonPrecipitateStoich_homog {s : EqSystem} (hs : Homogeneous s) (r : Rxn) :
    nonPrecipitateStoich r s.substances = netStoich r s.substances := by
  unfold nonPrecipitateStoich xprecipitateStoich netStoich
  apply List.map_congr_left
  intro kv hkv
  simp [hs kv hkv]

theorem lookup_mem {β : Type} (l : List (String × β)) (k : String) (b : β) (h : l.lookup k = some b) :
    ∃ k', (k', b) ∈ l := by
  induction l with
  | nil => simp at h
  | cons a as ih =>
    rw [List.lookup_cons] at h
    split at h
    · simp only [Option.some.injEq] at h
      exact ⟨a.1, by rw [← h]; exact List.mem_cons_self⟩
    · obtain ⟨k', hk'⟩ := ih h
      exact ⟨k', List.mem_cons_of_mem _ hk'⟩

theorem hasPrecipitates_homog {s : EqSystem} (hs : Homogeneous s) (r : Rxn) :
    hasPrecipitates r s.substances = false := by
  unfold hasPrecipitates
  rw [List.any_eq_false]
  intro k _
  split
  · rename_i sp hsp
    obtain ⟨k', hk'⟩ := lookup_mem _ _ _ hsp
    have := hs (k', sp) hk'
    simp at this
    simp [this]
  · simp

theorem phaseTransferAux_homog {s : EqSystem} (hs : Homogeneous s) (i : ℕ) (rs : List Rxn) :
    phaseTransferAux s.substances i rs = [] := by
  induction rs generalizing i with
  | nil => rfl
  | cons r rs ih => simp [phaseTransferAux, hasPrecipitates_homog hs, ih]

/-- a homogeneous system has no phase-transfer reaction, whatever `precipitates` is passed -/
theorem nonPrecipRids_homog {s : EqSystem} (hs : Homogeneous s) (prec : List Bool) :
    nonPrecipRids s prec = [] := by
  simp [nonPrecipRids, phaseTransferReactionIdxs, phaseTransferAux_homog hs]

theorem eqConstantsAux_nil (small : ℝ) (i : ℕ) (ks : List ℝ) : eqConstantsAux [] small i ks = ks := by
  induction ks generalizing i with
  | nil => rfl
  | cons k ks ih => simp [eqConstantsAux, ih]

theorem eqConstants_nil (small : ℝ) (ks : List ℝ) : eqConstants [] ks small = ks :=
  eqConstantsAux_nil small 0 ks

theorem stoichs_homog {s : EqSystem} (hs : Homogeneous s) (prec : List Bool) :
    stoichs s (nonPrecipRids s prec) = .ok (netStoichs s) := by
  rw [nonPrecipRids_homog hs, stoichs_nil, netStoichs]
  congr 1
  apply List.map_congr_left
  intro r _
  exact nonPrecipitateStoich_homog hs r

theorem ksOf_homog {s : EqSystem} (hs : Homogeneous s) (prec : List Bool) (small : ℝ) (p : List ℝ) :
    ksOf s prec small p = eqParamsOf s p := by
  rw [ksOf, nonPrecipRids_homog hs, eqConstants_nil]

theorem stoichsAux_length {s : EqSystem} {rids : List ℕ} {i : ℕ} {rs : List Rxn} {A : List (List ℤ)}
    (h : stoichsAux s rids i rs = .ok A) : A.length = rs.length := by
  induction rs generalizing i A with
  | nil => simp [stoichsAux] at h; simp [← h]
  | cons r rs ih =>
    unfold stoichsAux at h
    split at h
    · exact absurd h (by simp)
    · split at h
      · exact absurd h (by simp)
      · rename_i rows hrows
        simp only [Except.ok.injEq] at h
        rw [← h, List.length_cons, List.length_cons, ih hrows]

theorem stoichs_length {s : EqSystem} {rids : List ℕ} {A : List (List ℤ)} (h : stoichs s rids = .ok A) :
    A.length = s.nr := stoichsAux_length h

theorem eqConstantsAux_length (rids : List ℕ) (small : ℝ) (i : ℕ) (ks : List ℝ) :
    (eqConstantsAux rids small i ks).length = ks.length := by
  induction ks generalizing i with
  | nil => rfl
  | cons k ks ih => simp [eqConstantsAux, ih]

theorem ksOf_length {s : EqSystem} {y p : List ℝ} (hshape : shapeOk s y p = true) (prec : List Bool) (small : ℝ) :
    (ksOf s prec small p).length = s.nr := by
  unfold ksOf eqConstants
  rw [eqConstantsAux_length]
  simp only [shapeOk, Bool.and_eq_true, beq_iff_eq] at hshape
  simp [eqParamsOf, hshape.2]

theorem compMat_length (s : EqSystem) : (compMat s).length = (compositionBalanceVectors s).2.length := by
  simp [compMat, compositionBalanceVectors]

/-! ## `NumSysLog.f` over ℝ -/

theorem exp_int_mul (n : ℤ) (x : ℝ) : Real.exp ((n : ℝ) * x) = Real.exp x ^ n := by
  cases n with
  | ofNat m => simp [Real.exp_nat_mul]
  | negSucc m =>
    rw [Int.cast_negSucc, neg_mul, Real.exp_neg, zpow_negSucc, ← Real.exp_nat_mul]

/-- `exp(Σ νⱼ yⱼ) = ∏ exp(yⱼ)^νⱼ` -/
theorem exp_total (row : List ℤ) (y : List ℝ) :
    Real.exp (total row y) = quotient (y.map Real.exp) row := by
  induction row generalizing y with
  | nil => simp [total, quotient]
  | cons a as ih =>
    cases y with
    | nil => simp [total, quotient]
    | cons b bs =>
      have h1 : total (a :: as) (b :: bs) = (a : ℝ) * b + total as bs := by simp [total]
      have h2 : quotient ((b :: bs).map Real.exp) (a :: as) = Real.exp b ^ a * quotient (bs.map Real.exp) as := by
        simp [quotient]
      rw [h1, h2, Real.exp_add, exp_int_mul, ih]

theorem matDotVecTerm_real {A : List (List ℤ)} {y ts fe : List ℝ}
    (h : matDotVecTerm (intMat A) y ts = some fe) :
    fe = List.zipWith (fun row t => total row y + t) A ts := by
  induction A generalizing ts fe with
  | nil => simp [intMat, matDotVecTerm] at h; simp [← h]
  | cons row rest ih =>
    cases ts with
    | nil => simp [intMat, matDotVecTerm] at h; subst h; simp
    | cons t ts =>
      simp only [intMat, List.map_cons, matDotVecTerm] at h
      split at h
      · exact absurd h (by simp)
      · rename_i d hd
        split at h
        · exact absurd h (by simp)
        · rename_i ds hds
          simp only [Option.some.injEq] at h
          rw [← h, List.zipWith_cons_cons, vecDotVec_real hd, ih hds]

theorem numSysLogF_ok {s : EqSystem} {prec : List Bool} {small : ℝ} {y p r : List ℝ}
    (h : numSysLogF s prec small y p = .ok r) :
    ∃ A, stoichs s (nonPrecipRids s prec) = .ok A ∧ shapeOk s y p = true ∧
      r = List.zipWith (fun row t => total row y + t) A ((ksOf s prec small p).map fun k => -Real.log k)
          ++ List.zipWith (fun row v => total row (y.map Real.exp) - v) (compMat s)
              ((compMat s).map fun row => total row (initConcsOf s p)) := by
  unfold numSysLogF at h
  by_cases hshape : shapeOk s y p = true
  · simp only [hshape, Bool.not_true, Bool.false_eq_true, ↓reduceIte] at h
    cases hA : stoichs s (nonPrecipRids s prec) with
    | error e => simp [hA] at h
    | ok A =>
      simp only [hA] at h
      split at h
      · exact absurd h (by simp)
      · rename_i fe hfe
        cases hb : matDotVec (intMat (compositionBalanceVectors s).1) (initConcsOf s p) with
        | none => simp [hb] at h
        | some b =>
          simp only [hb, Except.ok.injEq] at h
          refine ⟨A, rfl, hshape, ?_⟩
          rw [← h, linearExprs_real, matDotVec_real hb, matDotVecTerm_real hfe]
          rfl
  · simp [hshape] at h

theorem zip_map_right {α β γ : Type} (f : β → γ) (l₁ : List α) (l₂ : List β) (P : α → γ → Prop) :
    (∀ ab ∈ l₁.zip (l₂.map f), P ab.1 ab.2) ↔ ∀ ab ∈ l₁.zip l₂, P ab.1 (f ab.2) := by
  induction l₁ generalizing l₂ with
  | nil => simp
  | cons a as ih =>
    cases l₂ with
    | nil => simp
    | cons b bs => simp only [List.map_cons, List.zip_cons_cons, List.forall_mem_cons, ih]

/-- one row of the logarithmic formulation: `Σ νⱼ yⱼ − ln k = 0 ⇔ ∏ exp(yⱼ)^νⱼ = k`, for `k > 0` -/
theorem log_row_zero_iff (row : List ℤ) (y : List ℝ) {k : ℝ} (hk : 0 < k) :
    total row y + -Real.log k = 0 ↔ quotient (y.map Real.exp) row = k := by
  rw [← exp_total]
  constructor
  · intro h
    have : total row y = Real.log k := by linarith
    rw [this, Real.exp_log hk]
  · intro h
    rw [← h, Real.log_exp]
    ring

theorem log_zero_iff_core (A B : List (List ℤ)) (ks y c0 : List ℝ) (hks : ∀ k ∈ ks, 0 < k) :
    (∀ x ∈ List.zipWith (fun row t => total row y + t) A (ks.map fun k => -Real.log k)
          ++ List.zipWith (fun row v => total row (y.map Real.exp) - v) B (B.map fun row => total row c0), x = 0) ↔
      (∀ rk ∈ A.zip ks, quotient (y.map Real.exp) rk.1 = rk.2) ∧
      (∀ brow ∈ B, total brow (y.map Real.exp) = total brow c0) := by
  rw [List.forall_mem_append, forall_zipWith, forall_zipWith,
    zip_map_right (fun k => -Real.log k) A ks (fun row t => total row y + t = 0),
    zip_map_right_self (fun row => total row c0) B (fun row v => total row (y.map Real.exp) - v = 0)]
  constructor
  · rintro ⟨h1, h2⟩
    refine ⟨fun rk hrk => ?_, fun brow hb => sub_eq_zero.mp (h2 brow hb)⟩
    exact (log_row_zero_iff rk.1 y (hks rk.2 (List.of_mem_zip hrk).2)).mp (h1 rk hrk)
  · rintro ⟨h1, h2⟩
    refine ⟨fun rk hrk => ?_, fun brow hb => sub_eq_zero.mpr (h2 brow hb)⟩
    exact (log_row_zero_iff rk.1 y (hks rk.2 (List.of_mem_zip hrk).2)).mpr (h1 rk hrk)

/-! ## Reaction extents and conservation -/

theorem total_addScaled (brow row : List ℤ) (c : List ℝ) (ξ : ℝ) (h : row.length = c.length) :
    total brow (addScaled c ξ row) = total brow c + ξ * ((idot brow row : ℤ) : ℝ) := by
  induction brow generalizing c row with
  | nil => simp [total, idot]
  | cons b bs ih =>
    cases c with
    | nil =>
      have : row = [] := List.eq_nil_of_length_eq_zero (by simpa using h)
      subst this
      simp [total, idot, addScaled]
    | cons x xs =>
      cases row with
      | nil => simp at h
      | cons n ns =>
        have hl : ns.length = xs.length := by simpa using h
        have h1 : total (b :: bs) (addScaled (x :: xs) ξ (n :: ns))
            = (b : ℝ) * (x + ξ * (n : ℝ)) + total bs (addScaled xs ξ ns) := by
          simp [total, addScaled]
        have h2 : total (b :: bs) (x :: xs) = (b : ℝ) * x + total bs xs := by simp [total]
        have h3 : ((idot (b :: bs) (n :: ns) : ℤ) : ℝ) = (b : ℝ) * (n : ℝ) + ((idot bs ns : ℤ) : ℝ) := by
          simp [idot]
        rw [h1, h2, h3, ih ns xs hl]
        ring

theorem addScaled_length (c : List ℝ) (ξ : ℝ) (row : List ℤ) (h : row.length = c.length) :
    (addScaled c ξ row).length = c.length := by
  simp [addScaled, h]

theorem total_addExtent (brow : List ℤ) (N : List (List ℤ)) (ξ c : List ℝ)
    (hlen : ∀ row ∈ N, row.length = c.length) (hbal : ∀ row ∈ N, idot brow row = 0) :
    total brow (addExtent c N ξ) = total brow c := by
  induction N generalizing c ξ with
  | nil => simp [addExtent]
  | cons row N ih =>
    cases ξ with
    | nil => simp [addExtent]
    | cons x ξ =>
      have hr : row.length = c.length := hlen row List.mem_cons_self
      rw [addExtent, ih ξ (addScaled c x row)
        (fun r hr' => by rw [addScaled_length c x row hr]; exact hlen r (List.mem_cons_of_mem _ hr'))
        (fun r hr' => hbal r (List.mem_cons_of_mem _ hr')),
        total_addScaled brow row c x hr, hbal row List.mem_cons_self]
      simp

/-! ## When `NumSysLin.f` is defined (does not raise) -/

theorem vecDotVec_isSome (row v : List ℝ) (hr : row ≠ []) (hv : v ≠ []) : ∃ d, vecDotVec row v = some d := by
  cases row with
  | nil => exact absurd rfl hr
  | cons a as =>
    cases v with
    | nil => exact absurd rfl hv
    | cons b bs => exact ⟨_, rfl⟩

theorem matDotVec_isSome (M : List (List ℝ)) (v : List ℝ) (hM : ∀ row ∈ M, row ≠ []) (hv : M ≠ [] → v ≠ []) :
    ∃ b, matDotVec M v = some b := by
  induction M with
  | nil => exact ⟨[], rfl⟩
  | cons row rest ih =>
    have hv' : v ≠ [] := hv (by simp)
    obtain ⟨d, hd⟩ := vecDotVec_isSome row v (hM row List.mem_cons_self) hv'
    obtain ⟨ds, hds⟩ := ih (fun r hr => hM r (List.mem_cons_of_mem _ hr)) (fun _ => hv')
    exact ⟨d :: ds, by simp [matDotVec, hd, hds]⟩

theorem compMat_rows (s : EqSystem) : ∀ row ∈ compMat s, row.length = s.ns := by
  intro row hrow
  simp only [compMat, compositionBalanceVectors, List.mem_map] at hrow
  obtain ⟨k, _, hk⟩ := hrow
  simp [← hk, EqSystem.ns]

theorem compMat_nil_of_ns_zero (s : EqSystem) (h : s.ns = 0) : compMat s = [] := by
  have : s.substances = [] := List.eq_nil_of_length_eq_zero h
  simp [compMat, compositionBalanceVectors, this, compositionKeys]

theorem matDotVec_compMat_isSome (s : EqSystem) {y p : List ℝ} (hshape : shapeOk s y p = true) :
    ∃ b, matDotVec (intMat (compMat s)) (initConcsOf s p) = some b := by
  simp only [shapeOk, Bool.and_eq_true, beq_iff_eq] at hshape
  apply matDotVec_isSome
  · intro row hrow
    simp only [intMat, List.mem_map] at hrow
    obtain ⟨r0, hr0, rfl⟩ := hrow
    have hl := compMat_rows s r0 hr0
    intro hnil
    have h0 : r0 = [] := by simpa [intRow] using hnil
    rw [h0] at hl
    have := compMat_nil_of_ns_zero s hl.symm
    rw [this] at hr0
    simp at hr0
  · intro hne hnil
    have hlen : (initConcsOf s p).length = s.ns := by simp [initConcsOf, hshape.2]
    rw [hnil] at hlen
    have := compMat_nil_of_ns_zero s hlen.symm
    simp [intMat, this] at hne

theorem zeroDiv_false_of_ne_zero (y : List ℝ) (row : List ℤ) (hy : ∀ x ∈ y, x ≠ 0) : zeroDiv y row = false := by
  unfold zeroDiv
  rw [List.any_eq_false]
  intro be hbe
  have : be.1 ≠ 0 := hy be.1 (List.of_mem_zip hbe).1
  simp [this]

/-- for a homogeneous system, well-shaped arguments and a state without zero entries the residual
    function returns a vector (it does not raise) -/
theorem numSysLinF_defined {s : EqSystem} (hs : Homogeneous s) (prec : List Bool) (small : ℝ) {y p : List ℝ}
    (hshape : shapeOk s y p = true) (hnr : 0 < s.nr) (hy : ∀ x ∈ y, x ≠ 0) :
    ∃ r, numSysLinF s prec small y p = .ok r := by
  obtain ⟨b, hb⟩ := matDotVec_compMat_isSome s hshape
  have hempty : s.rxns.isEmpty = false := by
    cases hr : s.rxns with
    | nil => simp [EqSystem.nr, hr] at hnr
    | cons a as => rfl
  have hz : (netStoichs s).any (zeroDiv y) = false := by
    rw [List.any_eq_false]
    intro row _
    simp [zeroDiv_false_of_ne_zero y row hy]
  unfold compMat at hb
  unfold numSysLinF
  simp only [hshape, Bool.not_true, Bool.false_eq_true, ↓reduceIte, hempty, stoichs_homog hs, prodPow, hz, hb]
  exact ⟨_, rfl⟩

/-! ## Variable transforms -/

theorem numSysSquareF_eq (s : EqSystem) (prec : List Bool) (small : ℝ) (y p : List ℝ) :
    numSysSquareF s prec small y p = numSysLinF s prec small (y.map fun yi => yi * yi) p := rfl

theorem numSysLinRelF_ok {s : EqSystem} {prec : List Bool} {small : ℝ} {y p r : List ℝ}
    (h : numSysLinRelF s prec small y p = .ok r) :
    ∃ m, upperConcBounds s (initConcsOf s p) = .ok m ∧
      numSysLinF s prec small (List.zipWith (· * ·) m y) p = .ok r := by
  unfold numSysLinRelF at h
  split at h
  · exact absurd h (by simp)
  · split at h
    · exact absurd h (by simp)
    · rename_i m hm
      exact ⟨m, hm, h⟩

/-! ## When `NumSysLog.f` is defined -/

theorem matDotVecTerm_isSome (M : List (List ℝ)) (v ts : List ℝ) (hM : ∀ row ∈ M, row ≠ []) (hv : v ≠ []) :
    ∃ fe, matDotVecTerm M v ts = some fe := by
  induction M generalizing ts with
  | nil => exact ⟨[], by simp [matDotVecTerm]⟩
  | cons row rest ih =>
    cases ts with
    | nil => exact ⟨[], by simp [matDotVecTerm]⟩
    | cons t ts =>
      obtain ⟨d, hd⟩ := vecDotVec_isSome row v (hM row List.mem_cons_self) hv
      obtain ⟨ds, hds⟩ := ih ts (fun r hr => hM r (List.mem_cons_of_mem _ hr))
      exact ⟨(d + t) :: ds, by simp [matDotVecTerm, hd, hds]⟩

/-- for a homogeneous system with at least one species and well-shaped arguments `NumSysLog.f` returns a vector -/
theorem numSysLogF_defined {s : EqSystem} (hs : Homogeneous s) (prec : List Bool) (small : ℝ) {y p : List ℝ}
    (hshape : shapeOk s y p = true) (hns : 0 < s.ns) : ∃ r, numSysLogF s prec small y p = .ok r := by
  obtain ⟨b, hb⟩ := matDotVec_compMat_isSome s hshape
  have hsh := hshape
  simp only [shapeOk, Bool.and_eq_true, beq_iff_eq] at hsh
  have hy : y ≠ [] := by
    intro h0
    rw [h0] at hsh
    simp at hsh
    omega
  obtain ⟨fe, hfe⟩ := matDotVecTerm_isSome (intMat (netStoichs s)) y
    ((ksOf s prec small p).map fun k => -Real.log k)
    (by
      intro row hrow
      simp only [intMat, netStoichs, List.mem_map] at hrow
      obtain ⟨r0, ⟨r, _, hr⟩, rfl⟩ := hrow
      intro hnil
      have : r0 = [] := by simpa [intRow] using hnil
      rw [← hr] at this
      have h2 : s.substances = [] := by simpa [netStoich] using this
      simp [EqSystem.ns, h2] at hns) hy
  unfold compMat at hb
  unfold ksOf at hfe
  unfold numSysLogF
  simp only [hshape, Bool.not_true, Bool.false_eq_true, ↓reduceIte, stoichs_homog hs]
  have hfe' : matDotVecTerm (intMat (netStoichs s)) y
      (List.map (fun k => -HasLog.log k) (eqConstants (nonPrecipRids s prec) (eqParamsOf s p) small)) = some fe := hfe
  simp only [hfe', hb]
  exact ⟨_, rfl⟩

/-! ## Row-reduced configurations: linear algebra on lists -/

/-- real dot product `Σⱼ rowⱼ · vⱼ` -/
noncomputable def dotR (row v : List ℝ) : ℝ := (List.zipWith (· * ·) row v).sum

/-- the linear combination `Σᵢ wᵢ • Aᵢ` of rows of width `n` -/
noncomputable def lincomb : List ℝ → List (List ℝ) → ℕ → List ℝ
  | w :: ws, r :: rs, n => List.zipWith (· + ·) (r.map (w * ·)) (lincomb ws rs n)
  | _, _, n => List.replicate n 0

/-- `(row | β)` is a linear combination of the rows of the augmented system `(A | b)` -/
def IsRowCombo (A : List (List ℝ)) (b : List ℝ) (n : ℕ) (row : List ℝ) (β : ℝ) : Prop :=
  ∃ w : List ℝ, row = lincomb w A n ∧ β = dotR w b

/-- **Hypothesis on the external row reducer** (checked per instance by the harness): the augmented systems
    `(A | b)` and `(A' | b')`, of width `n`, have the same row space — `(A'|b') = P·(A|b)` and `(A|b) = L·(A'|b')`.
    This is what an invertible row operation followed by dropping zero rows (a reduced row echelon form) gives. -/
structure RowEquiv (n : ℕ) (A : List (List ℝ)) (b : List ℝ) (A' : List (List ℝ)) (b' : List ℝ) : Prop where
  len : A.length = b.length
  len' : A'.length = b'.length
  width : ∀ r ∈ A, r.length = n
  width' : ∀ r ∈ A', r.length = n
  fwd : ∀ rb ∈ A'.zip b', IsRowCombo A b n rb.1 rb.2
  bwd : ∀ rb ∈ A.zip b, IsRowCombo A' b' n rb.1 rb.2

/-- `y` solves the linear system `A·y = b` (row by row) -/
def Solves (A : List (List ℝ)) (b y : List ℝ) : Prop := ∀ rb ∈ A.zip b, dotR rb.1 y = rb.2

theorem lincomb_length (w : List ℝ) (A : List (List ℝ)) (n : ℕ) (h : ∀ r ∈ A, r.length = n) :
    (lincomb w A n).length = n := by
  induction w generalizing A with
  | nil => simp [lincomb]
  | cons x ws ih =>
    cases A with
    | nil => simp [lincomb]
    | cons r rs =>
      simp only [lincomb, List.length_zipWith, List.length_map]
      rw [ih rs (fun r' hr' => h r' (List.mem_cons_of_mem _ hr')), h r List.mem_cons_self]
      simp

theorem dotR_add (u v y : List ℝ) (h : u.length = v.length) :
    dotR (List.zipWith (· + ·) u v) y = dotR u y + dotR v y := by
  induction u generalizing v y with
  | nil =>
    have : v = [] := List.eq_nil_of_length_eq_zero (by simpa using h.symm)
    simp [dotR, this]
  | cons a as ih =>
    cases v with
    | nil => simp at h
    | cons b bs =>
      cases y with
      | nil => simp [dotR]
      | cons c cs =>
        have := ih bs cs (by simpa using h)
        simp only [dotR] at this ⊢
        simp only [List.zipWith_cons_cons, List.sum_cons, this]
        ring

theorem dotR_smul (w : ℝ) (r y : List ℝ) : dotR (r.map (w * ·)) y = w * dotR r y := by
  induction r generalizing y with
  | nil => simp [dotR]
  | cons a as ih =>
    cases y with
    | nil => simp [dotR]
    | cons c cs =>
      have := ih cs
      simp only [dotR] at this ⊢
      simp only [List.map_cons, List.zipWith_cons_cons, List.sum_cons, this]
      ring

theorem dotR_replicate_zero (n : ℕ) (y : List ℝ) : dotR (List.replicate n 0) y = 0 := by
  induction n generalizing y with
  | zero => simp [dotR]
  | succ k ih =>
    cases y with
    | nil => simp [dotR]
    | cons c cs =>
      have := ih cs
      simp only [dotR] at this ⊢
      simp [List.replicate_succ, this]

theorem dotR_lincomb (w : List ℝ) (A : List (List ℝ)) (n : ℕ) (y : List ℝ) (h : ∀ r ∈ A, r.length = n) :
    dotR (lincomb w A n) y = dotR w (A.map fun r => dotR r y) := by
  induction w generalizing A with
  | nil =>
    have : lincomb [] A n = List.replicate n 0 := by simp [lincomb]
    rw [this, dotR_replicate_zero]; simp [dotR]
  | cons x ws ih =>
    cases A with
    | nil =>
      have : lincomb (x :: ws) [] n = List.replicate n 0 := by simp [lincomb]
      rw [this, dotR_replicate_zero]; simp [dotR]
    | cons r rs =>
      have hrs : ∀ r' ∈ rs, r'.length = n := fun r' hr' => h r' (List.mem_cons_of_mem _ hr')
      rw [lincomb, dotR_add _ _ _ (by rw [List.length_map, lincomb_length ws rs n hrs, h r List.mem_cons_self]),
        dotR_smul, ih rs hrs]
      simp [dotR]

theorem map_dot_of_solves {A : List (List ℝ)} {b y : List ℝ} (hlen : A.length = b.length) (h : Solves A b y) :
    (A.map fun r => dotR r y) = b := by
  induction A generalizing b with
  | nil =>
    have : b = [] := List.eq_nil_of_length_eq_zero (by simpa using hlen.symm)
    simp [this]
  | cons r rs ih =>
    cases b with
    | nil => simp at hlen
    | cons t ts =>
      have h1 : dotR r y = t := h (r, t) (by simp)
      have h2 : Solves rs ts y := fun rb hrb => h rb (by simp [List.zip_cons_cons, hrb])
      rw [List.map_cons, h1, ih (by simpa using hlen) h2]

theorem combo_sound {A : List (List ℝ)} {b y row : List ℝ} {β : ℝ} {n : ℕ} (hlen : A.length = b.length)
    (hw : ∀ r ∈ A, r.length = n) (hc : IsRowCombo A b n row β) (h : Solves A b y) : dotR row y = β := by
  obtain ⟨w, rfl, rfl⟩ := hc
  rw [dotR_lincomb w A n y hw, map_dot_of_solves hlen h]

/-- row-equivalent systems have the same solutions -/
theorem rowEquiv_solves_iff {n : ℕ} {A A' : List (List ℝ)} {b b' : List ℝ} (h : RowEquiv n A b A' b') (y : List ℝ) :
    Solves A' b' y ↔ Solves A b y :=
  ⟨fun hs rb hrb => combo_sound h.len' h.width' (h.bwd rb hrb) hs,
   fun hs rb hrb => combo_sound h.len h.width (h.fwd rb hrb) hs⟩

/-! ## Row-reduced configurations: the model over ℝ -/

theorem dotA_real (row x : List ℝ) : dotA row x = dotR row x := by
  unfold dotA dotR
  rw [foldl_add_real, zero_real, zero_add]

theorem intRow_real (row : List ℤ) : (intRow row : List ℝ) = row.map fun (c : ℤ) => (c : ℝ) := by
  unfold intRow
  apply List.map_congr_left
  intro c _
  exact ofInt_real c

theorem total_eq_dotR (row : List ℤ) (y : List ℝ) : total row y = dotR (intRow row) y := by
  rw [intRow_real, total, dotR, List.zipWith_map_left]

theorem vecDotVec_dotR {row v : List ℝ} {d : ℝ} (h : vecDotVec row v = some d) : d = dotR row v := by
  cases row with
  | nil => simp [vecDotVec] at h
  | cons a as =>
    cases v with
    | nil => simp [vecDotVec] at h
    | cons b bs =>
      simp only [vecDotVec, Option.some.injEq] at h
      rw [← h, foldl_add_real, dotR, List.zipWith_cons_cons, List.sum_cons]

theorem matDotVecTerm_dotR {M : List (List ℝ)} {y ts fe : List ℝ} (h : matDotVecTerm M y ts = some fe) :
    fe = List.zipWith (fun row t => dotR row y + t) M ts := by
  induction M generalizing ts fe with
  | nil => simp [matDotVecTerm] at h; simp [← h]
  | cons row rest ih =>
    cases ts with
    | nil => simp [matDotVecTerm] at h; subst h; simp
    | cons t ts =>
      simp only [matDotVecTerm] at h
      split at h
      · exact absurd h (by simp)
      · rename_i d hd
        split at h
        · exact absurd h (by simp)
        · rename_i ds hds
          simp only [Option.some.injEq] at h
          rw [← h, List.zipWith_cons_cons, vecDotVec_dotR hd, ih hds]

/-- for positive bases, `∏ cⱼ ^ aⱼ = exp(Σ aⱼ ln cⱼ)` (real exponents) -/
theorem prodPowRowR_real (c row : List ℝ) (hc : ∀ x ∈ c, 0 < x) :
    prodPowRowR c row = Real.exp (dotR row (c.map Real.log)) := by
  unfold prodPowRowR
  rw [foldl_mul_real, one_real, one_mul]
  induction c generalizing row with
  | nil => simp [dotR]
  | cons x xs ih =>
    cases row with
    | nil => simp [dotR]
    | cons a as =>
      have hx : 0 < x := hc x List.mem_cons_self
      have := ih as (fun z hz => hc z (List.mem_cons_of_mem _ hz))
      simp only [dotR] at this ⊢
      simp only [List.zipWith_cons_cons, List.prod_cons, List.map_cons, List.sum_cons, this, Real.exp_add]
      congr 1
      show Real.rpow x a = _
      rw [show Real.rpow x a = x ^ a from rfl, Real.rpow_def_of_pos hx, mul_comm]

/-- zero set of a block `[dotR row y + (-(log (exp β)))]` / `[dotR row x - β]` in terms of `Solves` -/
theorem logBlock_zero_iff (A' : List (List ℝ)) (b' y : List ℝ) :
    (∀ x ∈ List.zipWith (fun row t => dotR row y + t) A' ((b'.map Real.exp).map fun k => -Real.log k), x = 0) ↔
      Solves A' b' y := by
  rw [forall_zipWith, List.map_map, zip_map_right _ A' b' (fun row t => dotR row y + t = 0)]
  unfold Solves
  constructor
  · intro h rb hrb
    have := h rb hrb
    simp only [Function.comp, Real.log_exp] at this
    linarith
  · intro h rb hrb
    simp only [Function.comp, Real.log_exp]
    rw [h rb hrb]; ring

theorem subBlock_zero_iff (A' : List (List ℝ)) (b' x : List ℝ) :
    (∀ v ∈ List.zipWith (· - ·) (A'.map (dotA · x)) b', v = 0) ↔ Solves A' b' x := by
  rw [forall_zipWith, zip_map_left (dotA · x) A' b' (fun q t => q - t = 0)]
  unfold Solves
  constructor
  · intro h rb hrb
    have := h rb hrb
    rw [dotA_real] at this
    linarith
  · intro h rb hrb
    rw [dotA_real, h rb hrb]; ring

theorem linBlockR_zero_iff (A' : List (List ℝ)) (b' c : List ℝ) (hc : ∀ x ∈ c, 0 < x) :
    (∀ x ∈ List.zipWith equilResidual (A'.map (prodPowRowR c)) (b'.map Real.exp), x = 0) ↔
      Solves A' b' (c.map Real.log) := by
  rw [forall_zipWith, zip_map_left (prodPowRowR c) A' _ (fun q k => equilResidual q k = 0),
    zip_map_right Real.exp A' b' (fun row k => equilResidual (prodPowRowR c row) k = 0)]
  unfold Solves
  constructor
  · intro h rb hrb
    have := h rb hrb
    rw [equilResidual_eq_zero_iff, prodPowRowR_real c _ hc] at this
    exact Real.exp_injective this
  · intro h rb hrb
    rw [equilResidual_eq_zero_iff, prodPowRowR_real c _ hc, h rb hrb]

/-- the un-reduced log-linear system `A·y = ln K` says that the quotients of `exp y` equal the constants -/
theorem solves_intMat_log_iff (A : List (List ℤ)) (ks y : List ℝ) (hks : ∀ k ∈ ks, 0 < k) :
    Solves (intMat A) (ks.map Real.log) y ↔ ∀ rk ∈ A.zip ks, quotient (y.map Real.exp) rk.1 = rk.2 := by
  unfold Solves intMat
  rw [zip_map_left intRow A _ (fun r t => dotR r y = t), zip_map_right Real.log A ks (fun r t => dotR (intRow r) y = t)]
  constructor
  · intro h rk hrk
    have := h rk hrk
    rw [← total_eq_dotR] at this
    exact (log_row_zero_iff rk.1 y (hks rk.2 (List.of_mem_zip hrk).2)).mp (by rw [this]; ring)
  · intro h rk hrk
    have := (log_row_zero_iff rk.1 y (hks rk.2 (List.of_mem_zip hrk).2)).mpr (h rk hrk)
    rw [← total_eq_dotR]
    linarith

/-- the un-reduced conservation system `B·x = B·c₀` -/
theorem solves_intMat_total_iff (B : List (List ℤ)) (c0 x : List ℝ) :
    Solves (intMat B) (B.map fun row => total row c0) x ↔ ∀ brow ∈ B, total brow x = total brow c0 := by
  unfold Solves intMat
  rw [zip_map_left intRow B _ (fun r t => dotR r x = t),
    zip_map_right_self (fun row => total row c0) B (fun r t => dotR (intRow r) x = t)]
  constructor
  · intro h brow hb
    rw [total_eq_dotR]; exact h brow hb
  · intro h brow hb
    rw [← total_eq_dotR]; exact h brow hb

theorem map_exp_log {c : List ℝ} (hc : ∀ x ∈ c, 0 < x) : (c.map Real.log).map Real.exp = c := by
  rw [List.map_map]
  conv_rhs => rw [← List.map_id c]
  apply List.map_congr_left
  intro x hx
  simp [Real.exp_log (hc x hx)]

/-! ## Row-reduced configurations: unfolding and block theorems -/

/-- the conservation right-hand side `B·c₀` over ℝ -/
noncomputable def totalsOf (s : EqSystem) (p : List ℝ) : List ℝ := (compMat s).map fun row => total row (initConcsOf s p)

theorem preservBlock_ok {s : EqSystem} {rp : Bool} {redP : Reduced ℝ} {x p fp : List ℝ}
    (h : preservBlock s rp redP x p = .ok fp) :
    fp = if rp then List.zipWith (· - ·) (redP.rA.map (dotA · x)) redP.rb
         else List.zipWith (fun row v => total row x - v) (compMat s) (totalsOf s p) := by
  unfold preservBlock at h
  cases hb : matDotVec (intMat (compositionBalanceVectors s).1) (initConcsOf s p) with
  | none => simp [hb] at h
  | some b =>
    simp only [hb, Except.ok.injEq] at h
    rw [← h]
    cases rp with
    | true => rfl
    | false =>
      simp only [Bool.false_eq_true, ↓reduceIte]
      rw [linearExprs_real, matDotVec_real hb]
      rfl

/-- conservation block in either configuration: zero iff the totals agree -/
theorem preserv_zero_iff {s : EqSystem} {rp : Bool} {redP : Reduced ℝ} {x p fp : List ℝ}
    (h : preservBlock s rp redP x p = .ok fp)
    (hred : rp = true → RowEquiv s.ns (intMat (compMat s)) (totalsOf s p) redP.rA redP.rb) :
    (∀ v ∈ fp, v = 0) ↔ ∀ brow ∈ compMat s, total brow x = total brow (initConcsOf s p) := by
  rw [preservBlock_ok h]
  cases rp with
  | true =>
    simp only [↓reduceIte]
    rw [subBlock_zero_iff, rowEquiv_solves_iff (hred rfl), totalsOf, solves_intMat_total_iff]
  | false =>
    simp only [Bool.false_eq_true, ↓reduceIte, totalsOf]
    rw [forall_zipWith, zip_map_right_self (fun row => total row (initConcsOf s p)) (compMat s)
      (fun row v => total row x - v = 0)]
    exact ⟨fun h brow hb => sub_eq_zero.mp (h brow hb), fun h brow hb => sub_eq_zero.mpr (h brow hb)⟩

theorem numSysLogCfgF_ok {s : EqSystem} {prec : List Bool} {small : ℝ} {re rp : Bool} {redE redP : Reduced ℝ}
    {y p r : List ℝ} (h : numSysLogCfgF s prec small re rp redE redP y p = .ok r) :
    ∃ A fp, stoichs s (nonPrecipRids s prec) = .ok A ∧ shapeOk s y p = true ∧
      preservBlock s rp redP (y.map Real.exp) p = .ok fp ∧
      r = (if re then List.zipWith (fun row t => dotR row y + t) redE.rA
                        ((redE.rb.map Real.exp).map fun k => -Real.log k)
           else List.zipWith (fun row t => total row y + t) A ((ksOf s prec small p).map fun k => -Real.log k))
          ++ fp := by
  unfold numSysLogCfgF at h
  by_cases hshape : shapeOk s y p = true
  · simp only [hshape, Bool.not_true, Bool.false_eq_true, ↓reduceIte] at h
    cases hA : stoichs s (nonPrecipRids s prec) with
    | error e => simp [hA] at h
    | ok A =>
      simp only [hA] at h
      split at h
      · exact absurd h (by simp)
      · rename_i fe hfe
        cases hp : preservBlock s rp redP (List.map HasExp.exp y) p with
        | error e => simp [hp] at h
        | ok fp =>
          simp only [hp, Except.ok.injEq] at h
          refine ⟨A, fp, rfl, hshape, rfl, ?_⟩
          rw [← h]
          congr 1
          cases re with
          | true =>
            simp only [↓reduceIte, stoichsConstantsRref] at hfe ⊢
            exact matDotVecTerm_dotR hfe
          | false =>
            simp only [Bool.false_eq_true, ↓reduceIte] at hfe ⊢
            exact matDotVecTerm_real hfe
  · simp [hshape] at h

theorem numSysLinCfgF_ok {s : EqSystem} {prec : List Bool} {small : ℝ} {re rp : Bool} {redE redP : Reduced ℝ}
    {y p r : List ℝ} (h : numSysLinCfgF s prec small re rp redE redP y p = .ok r) :
    ∃ A fp, stoichs s (nonPrecipRids s prec) = .ok A ∧ shapeOk s y p = true ∧
      preservBlock s rp redP y p = .ok fp ∧ (re = false → A.any (zeroDiv y) = false) ∧
      r = (if re then List.zipWith equilResidual (redE.rA.map (prodPowRowR y)) (redE.rb.map Real.exp)
           else List.zipWith equilResidual (A.map (prodPowRow y)) (ksOf s prec small p))
          ++ fp := by
  unfold numSysLinCfgF at h
  by_cases hshape : shapeOk s y p = true
  · simp only [hshape, Bool.not_true, Bool.false_eq_true, ↓reduceIte] at h
    by_cases hempty : s.rxns.isEmpty = true
    · simp [hempty] at h
    simp only [hempty, Bool.false_eq_true, ↓reduceIte] at h
    cases hA : stoichs s (nonPrecipRids s prec) with
    | error e => simp [hA] at h
    | ok A =>
      simp only [hA] at h
      cases re with
      | true =>
        simp only [↓reduceIte] at h
        cases hp : preservBlock s rp redP y p with
        | error e => simp [hp] at h
        | ok fp =>
          simp only [hp, Except.ok.injEq] at h
          exact ⟨A, fp, rfl, hshape, rfl, by simp, by rw [← h]; rfl⟩
      | false =>
        simp only [Bool.false_eq_true, ↓reduceIte] at h
        unfold prodPow at h
        by_cases hz : A.any (zeroDiv y) = true
        · simp [hz] at h
        · simp only [hz, Bool.false_eq_true, ↓reduceIte] at h
          cases hp : preservBlock s rp redP y p with
          | error e => simp [hp] at h
          | ok fp =>
            simp only [hp, Except.ok.injEq] at h
            exact ⟨A, fp, rfl, hshape, rfl, fun _ => by simpa using hz, by rw [← h]; rfl⟩
  · simp [hshape] at h

/-- equilibrium block of the logarithmic formulation, reduced or not -/
theorem equilLog_zero_iff {n : ℕ} (A : List (List ℤ)) (ks y : List ℝ) (re : Bool) (redE : Reduced ℝ)
    (hks : ∀ k ∈ ks, 0 < k)
    (hred : re = true → RowEquiv n (intMat A) (ks.map Real.log) redE.rA redE.rb) :
    (∀ x ∈ (if re then List.zipWith (fun row t => dotR row y + t) redE.rA
                        ((redE.rb.map Real.exp).map fun k => -Real.log k)
            else List.zipWith (fun row t => total row y + t) A (ks.map fun k => -Real.log k)), x = 0) ↔
      ∀ rk ∈ A.zip ks, quotient (y.map Real.exp) rk.1 = rk.2 := by
  cases re with
  | true =>
    simp only [↓reduceIte]
    rw [logBlock_zero_iff, rowEquiv_solves_iff (hred rfl), solves_intMat_log_iff A ks y hks]
  | false =>
    simp only [Bool.false_eq_true, ↓reduceIte]
    rw [forall_zipWith, zip_map_right (fun k => -Real.log k) A ks (fun row t => total row y + t = 0)]
    exact ⟨fun h rk hrk => (log_row_zero_iff rk.1 y (hks rk.2 (List.of_mem_zip hrk).2)).mp (h rk hrk),
           fun h rk hrk => (log_row_zero_iff rk.1 y (hks rk.2 (List.of_mem_zip hrk).2)).mpr (h rk hrk)⟩

/-- equilibrium block of the linear formulation at a positive state, reduced or not -/
theorem equilLin_zero_iff {n : ℕ} (A : List (List ℤ)) (ks c : List ℝ) (re : Bool) (redE : Reduced ℝ)
    (hks : re = true → ∀ k ∈ ks, 0 < k) (hc : re = true → ∀ x ∈ c, 0 < x)
    (hred : re = true → RowEquiv n (intMat A) (ks.map Real.log) redE.rA redE.rb) :
    (∀ x ∈ (if re then List.zipWith equilResidual (redE.rA.map (prodPowRowR c)) (redE.rb.map Real.exp)
            else List.zipWith equilResidual (A.map (prodPowRow c)) ks), x = 0) ↔
      ∀ rk ∈ A.zip ks, quotient c rk.1 = rk.2 := by
  cases re with
  | true =>
    simp only [↓reduceIte]
    rw [linBlockR_zero_iff _ _ c (hc rfl), rowEquiv_solves_iff (hred rfl),
      solves_intMat_log_iff A ks _ (hks rfl), map_exp_log (hc rfl)]
  | false =>
    simp only [Bool.false_eq_true, ↓reduceIte]
    rw [forall_zipWith, zip_map_left (prodPowRow c) A ks (fun q k => equilResidual q k = 0)]
    constructor
    · intro h rk hrk
      have := h rk hrk
      rwa [equilResidual_eq_zero_iff, prodPowRow_real] at this
    · intro h rk hrk
      rw [equilResidual_eq_zero_iff, prodPowRow_real]
      exact h rk hrk

/-! ## `upper_conc_bounds` is defined when every species contains an element -/

/-- the species has a non-charge composition key and no zero count among its non-charge keys
    (otherwise `upper_conc_bounds` yields `inf`, resp. divides by zero) -/
def HasElement (sp : Species) : Prop :=
  (sp.comp.filter fun kv => kv.1 != 0) ≠ [] ∧ ∀ kv ∈ sp.comp.filter (fun kv => kv.1 != 0), kv.2 ≠ 0

theorem mapM_ok_of_forall {β γ : Type} (f : β → Except String γ) (l : List β) (h : ∀ a ∈ l, ∃ b, f a = .ok b) :
    ∃ m, l.mapM f = .ok m ∧ m.length = l.length := by
  induction l with
  | nil => exact ⟨[], rfl, rfl⟩
  | cons a as ih =>
    obtain ⟨b, hb⟩ := h a List.mem_cons_self
    obtain ⟨m, hm, hl⟩ := ih (fun x hx => h x (List.mem_cons_of_mem _ hx))
    refine ⟨b :: m, ?_, by simp [hl]⟩
    rw [List.mapM_cons, hb, hm]
    rfl

theorem mapM_ok_length {β γ : Type} (f : β → Except String γ) (l : List β) (m : List γ) (h : l.mapM f = .ok m) :
    m.length = l.length := by
  induction l generalizing m with
  | nil => simp [List.mapM_nil, pure, Except.pure] at h; simp [← h]
  | cons a as ih =>
    rw [List.mapM_cons] at h
    cases hfa : f a with
    | error e => simp [hfa, bind, Except.bind] at h
    | ok b =>
      cases hrest : as.mapM f with
      | error e => simp [hfa, hrest, bind, Except.bind] at h
      | ok ms =>
        simp [hfa, hrest, bind, Except.bind, pure, Except.pure] at h
        rw [← h, List.length_cons, List.length_cons, ih ms hrest]

theorem upperConcBounds_defined (s : EqSystem) (c0 : List ℝ) (h : ∀ kv ∈ s.substances, HasElement kv.2) :
    ∃ m, upperConcBounds s c0 = .ok m ∧ m.length = s.ns := by
  have key : ∀ (f : Species → Except String ℝ), (∀ a ∈ s.substances.map (·.2), ∃ b, f a = .ok b) →
      ∃ m, (s.substances.map (·.2)).mapM f = .ok m ∧ m.length = s.ns := by
    intro f hf
    obtain ⟨m, hm, hl⟩ := mapM_ok_of_forall f _ hf
    exact ⟨m, hm, by simpa [EqSystem.ns] using hl⟩
  unfold upperConcBounds
  dsimp only
  apply key
  intro sp hsp
  simp only [List.mem_map] at hsp
  obtain ⟨kv, hkv, rfl⟩ := hsp
  obtain ⟨hne, hnz⟩ := h kv hkv
  have hany : (kv.2.comp.filter fun kv => kv.1 != 0).any (fun kv => kv.2 == 0) = false := by
    rw [List.any_eq_false]
    intro x hx
    simpa using hnz x hx
  simp only [hany, Bool.false_eq_true, ↓reduceIte]
  cases hk : kv.2.comp.filter fun kv => kv.1 != 0 with
  | nil => exact absurd hk hne
  | cons a as => exact ⟨_, rfl⟩

theorem numSysLinRelF_defined {s : EqSystem} (hs : Homogeneous s) (hel : ∀ kv ∈ s.substances, HasElement kv.2)
    (prec : List Bool) (small : ℝ) {y p : List ℝ} (hshape : shapeOk s y p = true) (hnr : 0 < s.nr) :
    ∃ m, upperConcBounds s (initConcsOf s p) = .ok m ∧
      ((∀ x ∈ List.zipWith (· * ·) m y, x ≠ 0) → ∃ r, numSysLinRelF s prec small y p = .ok r) := by
  obtain ⟨m, hm, hl⟩ := upperConcBounds_defined s (initConcsOf s p) hel
  refine ⟨m, hm, fun hy => ?_⟩
  have hsh := hshape
  simp only [shapeOk, Bool.and_eq_true, beq_iff_eq] at hsh
  have hshape' : shapeOk s (List.zipWith (· * ·) m y) p = true := by
    simp [shapeOk, hl, hsh.1, hsh.2]
  obtain ⟨r, hr⟩ := numSysLinF_defined hs prec small hshape' hnr hy
  refine ⟨r, ?_⟩
  unfold numSysLinRelF
  simp only [hshape, Bool.not_true, Bool.false_eq_true, ↓reduceIte, hm, hr]

/-! ## The solver's parameter vector carries the reactions' own constants -/

theorem solverParams_split (s : EqSystem) (c0 Ks : List ℝ) (h : c0.length = s.ns) :
    initConcsOf s (solverParams c0 Ks) = c0 ∧ eqParamsOf s (solverParams c0 Ks) = Ks := by
  unfold solverParams eqConstantsDefault initConcsOf eqParamsOf
  rw [eqConstants_nil]
  constructor
  · rw [← h]; simp
  · rw [← h]; simp

/-- a reaction whose (row | constant) is a combination of the other rows adds no independent equation -/
theorem dependent_row_redundant {A : List (List ℝ)} {b : List ℝ} {n : ℕ} {row : List ℝ} {β : ℝ}
    (hlen : A.length = b.length) (hw : ∀ r ∈ A, r.length = n) (hc : IsRowCombo A b n row β) (y : List ℝ) :
    Solves (row :: A) (β :: b) y ↔ Solves A b y := by
  constructor
  · intro h rb hrb
    exact h rb (by simp [List.zip_cons_cons, hrb])
  · intro h rb hrb
    simp only [List.zip_cons_cons, List.mem_cons] at hrb
    rcases hrb with rfl | hrb
    · exact combo_sound hlen hw hc h
    · exact h rb hrb

/-! ## Consistency of the configurable model with the plain one; definedness -/

/-- with both flags off the configurable model is the plain one (so `lin_zero_iff` etc. are the `(False, False)` case) -/
theorem cfg_false_false_eq (s : EqSystem) (prec : List Bool) (small : ℝ) (redE redP : Reduced ℝ) (y p : List ℝ) :
    numSysLinCfgF s prec small false false redE redP y p = numSysLinF s prec small y p := by
  unfold numSysLinCfgF numSysLinF preservBlock
  by_cases hshape : shapeOk s y p = true <;> by_cases hempty : s.rxns.isEmpty = true <;>
    simp only [hshape, hempty, Bool.not_true, Bool.not_false, Bool.false_eq_true, ↓reduceIte]
  all_goals
    cases stoichs s (nonPrecipRids s prec) with
    | error e => rfl
    | ok A =>
      dsimp only
      cases prodPow y A with
      | error e => rfl
      | ok qs =>
        dsimp only
        cases matDotVec (intMat (compositionBalanceVectors s).1) (initConcsOf s p) <;> rfl


theorem preservBlock_defined (s : EqSystem) (rp : Bool) (redP : Reduced ℝ) (x : List ℝ) {y p : List ℝ}
    (hshape : shapeOk s y p = true) : ∃ fp, preservBlock s rp redP x p = .ok fp := by
  obtain ⟨b, hb⟩ := matDotVec_compMat_isSome s hshape
  unfold compMat at hb
  unfold preservBlock
  simp only [hb]
  exact ⟨_, rfl⟩

theorem numSysLinCfgF_defined {s : EqSystem} (hs : Homogeneous s) (prec : List Bool) (small : ℝ) (re rp : Bool)
    (redE redP : Reduced ℝ) {y p : List ℝ} (hshape : shapeOk s y p = true) (hnr : 0 < s.nr)
    (hy : re = false → ∀ x ∈ y, x ≠ 0) : ∃ r, numSysLinCfgF s prec small re rp redE redP y p = .ok r := by
  obtain ⟨fp, hfp⟩ := preservBlock_defined s rp redP y hshape
  have hempty : s.rxns.isEmpty = false := by
    cases hr : s.rxns with
    | nil => simp [EqSystem.nr, hr] at hnr
    | cons a as => rfl
  unfold numSysLinCfgF
  simp only [hshape, Bool.not_true, Bool.false_eq_true, ↓reduceIte, hempty, stoichs_homog hs]
  cases re with
  | true =>
    simp only [↓reduceIte, hfp]
    exact ⟨_, rfl⟩
  | false =>
    have hz : (netStoichs s).any (zeroDiv y) = false := by
      rw [List.any_eq_false]
      intro row _
      simp [zeroDiv_false_of_ne_zero y row (hy rfl)]
    simp only [Bool.false_eq_true, ↓reduceIte, prodPow, hz, hfp]
    exact ⟨_, rfl⟩

/-! ## `new_eq_params = False` -/

theorem ownParams_ok {s : EqSystem} {Ks c0 p : List ℝ} (h : ownParams s Ks c0 = .ok p) :
    c0.length = s.ns ∧ p = c0 ++ Ks := by
  unfold ownParams at h
  split at h
  · exact absurd h (by simp)
  · split at h
    · exact absurd h (by simp)
    · simp only [Except.ok.injEq] at h
      exact ⟨by omega, h.symm⟩

theorem own_split (s : EqSystem) (c0 Ks : List ℝ) (h : c0.length = s.ns) :
    initConcsOf s (c0 ++ Ks) = c0 ∧ eqParamsOf s (c0 ++ Ks) = Ks := by
  unfold initConcsOf eqParamsOf
  constructor <;> (rw [← h]; simp)

theorem numSysLinOwnF_ok {s : EqSystem} {prec : List Bool} {small : ℝ} {Ks y c0 r : List ℝ}
    (h : numSysLinOwnF s prec small Ks y c0 = .ok r) :
    c0.length = s.ns ∧ numSysLinF s prec small y (c0 ++ Ks) = .ok r := by
  unfold numSysLinOwnF at h
  split at h
  · exact absurd h (by simp)
  · rename_i p hp
    obtain ⟨hl, rfl⟩ := ownParams_ok hp
    exact ⟨hl, h⟩

theorem numSysLogOwnF_ok {s : EqSystem} {prec : List Bool} {small : ℝ} {Ks y c0 r : List ℝ}
    (h : numSysLogOwnF s prec small Ks y c0 = .ok r) :
    c0.length = s.ns ∧ numSysLogF s prec small y (c0 ++ Ks) = .ok r := by
  unfold numSysLogOwnF at h
  split at h
  · exact absurd h (by simp)
  · rename_i p hp
    obtain ⟨hl, rfl⟩ := ownParams_ok hp
    exact ⟨hl, h⟩

theorem numSysLinOwnF_defined {s : EqSystem} (hs : Homogeneous s) (prec : List Bool) (small : ℝ) {Ks y c0 : List ℝ}
    (hy : y.length = s.ns) (hc : c0.length = s.ns) (hK : Ks.length = s.nr) (hnr : 0 < s.nr) (hy0 : ∀ x ∈ y, x ≠ 0) :
    ∃ r, numSysLinOwnF s prec small Ks y c0 = .ok r := by
  have hshape : shapeOk s y (c0 ++ Ks) = true := by simp [shapeOk, hy, hc, hK]
  obtain ⟨r, hr⟩ := numSysLinF_defined hs prec small hshape hnr hy0
  refine ⟨r, ?_⟩
  unfold numSysLinOwnF ownParams
  simp [hc, hr]

/-! ## The change of variables of each formulation -/

theorem absV_real (x : ℝ) : absV x = |x| := by
  unfold absV
  rw [zero_real]
  split
  · rename_i h; rw [abs_of_neg h]
  · rename_i h; rw [abs_of_nonneg (not_lt.mp h)]

theorem squarePost_squarePre (c : List ℝ) (hc : ∀ x ∈ c, 0 ≤ x) : squarePost (squarePre c) = c := by
  unfold squarePost squarePre
  rw [List.map_map]
  conv_rhs => rw [← List.map_id c]
  apply List.map_congr_left
  intro x hx
  simp only [Function.comp, id]
  show Real.sqrt (absV x) * Real.sqrt (absV x) = x
  rw [absV_real, abs_of_nonneg (hc x hx), Real.mul_self_sqrt (hc x hx)]

theorem logPost_logPre (small : ℝ) (c : List ℝ) (hc : ∀ x ∈ c, 0 < x + small) :
    logPost (logPre small c) = c.map (· + small) := by
  unfold logPost logPre
  rw [List.map_map]
  apply List.map_congr_left
  intro x hx
  simp only [Function.comp]
  show Real.exp (Real.log (x + small)) = x + small
  exact Real.exp_log (hc x hx)

theorem linRelPost_linRelPre (m c : List ℝ) (hm : ∀ x ∈ m, x ≠ 0) (hl : c.length ≤ m.length) :
    linRelPost m (linRelPre m c) = c := by
  unfold linRelPost linRelPre
  induction c generalizing m with
  | nil => simp
  | cons x xs ih =>
    cases m with
    | nil => simp at hl
    | cons a as =>
      simp only [List.zipWith_cons_cons]
      rw [ih as (fun z hz => hm z (List.mem_cons_of_mem _ hz)) (by simpa using hl),
        div_mul_cancel₀ x (hm a List.mem_cons_self)]

/-- `NumSysLinRel.f` scales with `m * yi`, `post_processor` with `x * m`: the same state -/
theorem linRel_scaled_eq_post (m y : List ℝ) : List.zipWith (· * ·) m y = linRelPost m y := by
  unfold linRelPost
  induction m generalizing y with
  | nil => simp
  | cons a as ih =>
    cases y with
    | nil => simp
    | cons b bs => simp [ih, mul_comm]

/-! ## 2-D quotients -/

theorem mapM_ok_eq_map {β γ : Type} (f : β → Except String γ) (g : β → γ) (l : List β) (m : List γ)
    (hfg : ∀ a b, f a = .ok b → b = g a) (h : l.mapM f = .ok m) : m = l.map g := by
  induction l generalizing m with
  | nil => simp [List.mapM_nil, pure, Except.pure] at h; simp [← h]
  | cons a as ih =>
    rw [List.mapM_cons] at h
    cases hfa : f a with
    | error e => simp [hfa, bind, Except.bind] at h
    | ok b =>
      cases hrest : as.mapM f with
      | error e => simp [hfa, hrest, bind, Except.bind] at h
      | ok ms =>
        simp [hfa, hrest, bind, Except.bind, pure, Except.pure] at h
        rw [← h, List.map_cons, hfg a b hfa, ih ms hrest]

theorem equilibriumQuotient_ok {c : List ℝ} {st : List ℤ} {q : ℝ} (h : equilibriumQuotient c st = .ok q) :
    q = quotient c st := by
  unfold equilibriumQuotient at h
  split at h
  · exact absurd h (by simp)
  · simp only [Except.ok.injEq] at h
    rw [← h, prodPowRow_real]

/-! ## Bookkeeping lemmas (moved out of Props after the second review: they restate what the reducer returned / generic list algebra) -/

/-- **Equation count in every configuration**: one equation per row the reducer returned for a reduced block,
    `nr` resp. the number of composition keys for an unreduced one. -/
theorem equation_count_cfg (s : EqSystem) (prec : List Bool) (small : ℝ) (re rp : Bool) (redE redP : Reduced ℝ)
    (y p r : List ℝ) (h : numSysLinCfgF s prec small re rp redE redP y p = .ok r)
    (hE : redE.rA.length = redE.rb.length) (hP : redP.rA.length = redP.rb.length) :
    r.length = (if re then redE.rA.length else s.nr) + (if rp then redP.rA.length else (compositionBalanceVectors s).2.length) := by
  obtain ⟨A, fp, hA, hshape, hfp, _, hr⟩ := numSysLinCfgF_ok h
  rw [hr, List.length_append, preservBlock_ok hfp]
  cases re <;> cases rp <;>
    simp [List.length_zipWith, stoichs_length hA, ksOf_length hshape, compMat_length, totalsOf, hE, hP]

/-- **Reading of the count clause under `rref_equil`.**  A reaction whose row `(ν | ln K)` is a combination of the
    others (linearly dependent, consistent constants) contributes no independent equation: dropping it does not change
    the solution set of the log-linear system.  Hence the row-reduced equilibrium block consists of
    `rank (A | ln K)` equations — fewer than `nr` for dependent reactions — and still characterises
    `Q_i = K_i` for ALL reactions (`rref_zero_iff_*`).  That the reducer returns exactly `rank` independent rows is
    checked per instance by the harness (exact). -/
theorem dependent_reaction_adds_no_equation (A : List (List ℝ)) (b : List ℝ) (n : ℕ) (row : List ℝ) (β : ℝ)
    (hlen : A.length = b.length) (hw : ∀ r ∈ A, r.length = n) (hc : IsRowCombo A b n row β) (y : List ℝ) :
    Solves (row :: A) (β :: b) y ↔ Solves A b y :=
  dependent_row_redundant hlen hw hc y

/-- `equilibrium_quotient` on a 2-D array of states (one per row) returns the quotient of every row -/
theorem quotients2d_spec (rows : List (List ℝ)) (st : List ℤ) (qs : List ℝ)
    (h : equilibriumQuotient2d rows st = .ok qs) : qs = rows.map fun c => quotient c st :=
  mapM_ok_eq_map _ _ rows qs (fun _ _ hq => equilibriumQuotient_ok hq) h


/-- the exact (rational) model of the `rref_equil = False` configurations is the configurable model with `re = false` -/
theorem numSysLinCfgF_false_eq_rp (s : EqSystem) (prec : List Bool) (small : ℝ) (rp : Bool) (redE redP : Reduced ℝ)
    (y p : List ℝ) :
    numSysLinCfgF s prec small false rp redE redP y p = numSysLinRpF s prec small rp redP y p := by
  unfold numSysLinCfgF numSysLinRpF
  by_cases hshape : shapeOk s y p = true <;> by_cases hempty : s.rxns.isEmpty = true <;>
    simp only [hshape, hempty, Bool.not_true, Bool.not_false, Bool.false_eq_true, ↓reduceIte]
  all_goals
    cases stoichs s (nonPrecipRids s prec) with
    | error e => rfl
    | ok A =>
      dsimp only
      cases prodPow y A with
      | error e => rfl
      | ok qs => rfl

/-! ## The decidable reducer certificate (rational systems) is sound -/

def castL (l : List Rat) : List ℝ := l.map fun (q : Rat) => (q : ℝ)
def castM (m : List (List Rat)) : List (List ℝ) := m.map castL

theorem castL_dotQ (r v : List Rat) : ((dotQ r v : Rat) : ℝ) = dotR (castL r) (castL v) := by
  induction r generalizing v with
  | nil => simp [dotQ, dotR, castL]
  | cons a as ih =>
    cases v with
    | nil => simp [dotQ, dotR, castL]
    | cons b bs =>
      have := ih bs
      simp only [dotQ, dotR, castL] at this ⊢
      simp only [List.zipWith_cons_cons, List.sum_cons, List.map_cons]
      push_cast
      rw [← this]
      push_cast
      rfl

theorem castL_add (u v : List Rat) :
    castL (List.zipWith (· + ·) u v) = List.zipWith (· + ·) (castL u) (castL v) := by
  induction u generalizing v with
  | nil => simp [castL]
  | cons a as ih =>
    cases v with
    | nil => simp [castL]
    | cons b bs =>
      have := ih bs
      simp only [castL] at this ⊢
      simp only [List.zipWith_cons_cons, List.map_cons, this]
      push_cast
      rfl

theorem castL_smul (w : Rat) (r : List Rat) : castL (r.map (w * ·)) = (castL r).map ((w : ℝ) * ·) := by
  simp only [castL, List.map_map]
  apply List.map_congr_left
  intro x _
  simp

theorem castL_lincombQ (w : List Rat) (A : List (List Rat)) (n : Nat) :
    castL (lincombQ w A n) = lincomb (castL w) (castM A) n := by
  induction w generalizing A with
  | nil => simp [lincombQ, lincomb, castL, castM]
  | cons x ws ih =>
    cases A with
    | nil => simp [lincombQ, lincomb, castL, castM]
    | cons r rs =>
      have h := ih rs
      have e1 : lincombQ (x :: ws) (r :: rs) n = List.zipWith (· + ·) (r.map (x * ·)) (lincombQ ws rs n) := rfl
      have e2 : lincomb (castL (x :: ws)) (castM (r :: rs)) n
          = List.zipWith (· + ·) ((castL r).map ((x : ℝ) * ·)) (lincomb (castL ws) (castM rs) n) := rfl
      rw [e1, e2, castL_add, castL_smul, h]

theorem combosOk_sound (P A : List (List Rat)) (b : List Rat) (n : Nat) (A' : List (List Rat)) (b' : List Rat)
    (h : combosOk P A b n A' b' = true) :
    ∀ rb ∈ (castM A').zip (castL b'), IsRowCombo (castM A) (castL b) n rb.1 rb.2 := by
  induction A' generalizing b' P with
  | nil => simp [castM]
  | cons row rows ih =>
    cases b' with
    | nil => simp [castL]
    | cons β βs =>
      cases P with
      | nil => simp [combosOk] at h
      | cons w ws =>
        simp only [combosOk, Bool.and_eq_true, beq_iff_eq] at h
        obtain ⟨⟨hrow, hβ⟩, hrest⟩ := h
        intro rb hrb
        simp only [castM, castL, List.map_cons, List.zip_cons_cons, List.mem_cons] at hrb
        rcases hrb with rfl | hrb
        · refine ⟨castL w, ?_, ?_⟩
          · show castL row = _
            rw [hrow, castL_lincombQ]
          · show ((β : Rat) : ℝ) = _
            rw [hβ, castL_dotQ]
        · exact ih ws βs hrest rb hrb

/-- a certificate that checks establishes the hypothesis `RowEquiv` of the rref theorems (for the rational system) -/
theorem rowEquivCert_sound (n : Nat) (P L A : List (List Rat)) (b : List Rat) (A' : List (List Rat)) (b' : List Rat)
    (h : rowEquivCert n P L A b A' b' = true) : RowEquiv n (castM A) (castL b) (castM A') (castL b') := by
  simp only [rowEquivCert, Bool.and_eq_true, beq_iff_eq, List.all_eq_true] at h
  obtain ⟨⟨⟨⟨⟨h1, h2⟩, h3⟩, h4⟩, h5⟩, h6⟩ := h
  exact {
    len := by simp [castM, castL, h1]
    len' := by simp [castM, castL, h2]
    width := by
      intro r hr
      simp only [castM, List.mem_map] at hr
      obtain ⟨r0, hr0, rfl⟩ := hr
      simp [castL, h3 r0 hr0]
    width' := by
      intro r hr
      simp only [castM, List.mem_map] at hr
      obtain ⟨r0, hr0, rfl⟩ := hr
      simp [castL, h4 r0 hr0]
    fwd := combosOk_sound P A b n A' b' h5
    bwd := combosOk_sound L A' b' n A b h6 }


theorem ofInt_rat_cast (i : ℤ) : (((Num.ofInt i : Rat)) : ℝ) = (i : ℝ) := by
  unfold Num.ofInt
  split
  · rename_i h
    have h2 : ((i.natAbs : ℤ) : ℝ) = ((-i : ℤ) : ℝ) := by
      congr 1; omega
    rw [Int.cast_natCast] at h2
    push_cast
    rw [h2]; simp
  · rename_i h
    have h2 : ((i.toNat : ℤ) : ℝ) = (i : ℝ) := by
      congr 1; omega
    rw [Int.cast_natCast] at h2
    push_cast
    exact h2

theorem castL_intRow (row : List ℤ) : castL (intRow row : List Rat) = (intRow row : List ℝ) := by
  unfold castL intRow
  rw [List.map_map]
  apply List.map_congr_left
  intro i _
  simp only [Function.comp, ofInt_rat_cast, ofInt_real]

theorem castM_intMat (B : List (List ℤ)) : castM (intMat B : List (List Rat)) = (intMat B : List (List ℝ)) := by
  unfold castM intMat
  rw [List.map_map]
  apply List.map_congr_left
  intro row _
  exact castL_intRow row

theorem castL_totalsQ (B : List (List ℤ)) (c0 : List Rat) :
    castL (B.map fun row => dotQ (intRow row) c0) = B.map fun row => total row (castL c0) := by
  unfold castL
  rw [List.map_map]
  apply List.map_congr_left
  intro row _
  simp only [Function.comp]
  rw [castL_dotQ, castL_intRow, total_eq_dotR]
  rfl

/-- a checked certificate for the conservation block of `s` yields exactly the hypothesis `hP` of the rref theorems -/
theorem preservCert_sound (s : EqSystem) (c0 : List Rat) (P L : List (List Rat)) (red : Reduced Rat)
    (h : preservCert s c0 P L red = true) (p : List ℝ) (hp : initConcsOf s p = castL c0) :
    RowEquiv s.ns (intMat (compMat s)) (totalsOf s p) (castM red.rA) (castL red.rb) := by
  have := rowEquivCert_sound s.ns P L _ _ _ _ h
  simp only [preservSystemQ] at this
  rw [castM_intMat, castL_totalsQ] at this
  rw [totalsOf, hp]
  exact this

/-! ## Certificate for the equilibrium block (log coordinates) -/

/-- the column `E·λ` -/
noncomputable def colOf (E : List (List Rat)) (lam : List ℝ) : List ℝ := (castM E).map fun r => dotR r lam

theorem combosOkE_sound (P A E : List (List Rat)) (n m : Nat) (A' E' : List (List Rat)) (lam : List ℝ)
    (hE : ∀ r ∈ E, r.length = m) (h : combosOkE P A E n m A' E' = true) :
    ∀ rb ∈ (castM A').zip (colOf E' lam), IsRowCombo (castM A) (colOf E lam) n rb.1 rb.2 := by
  induction A' generalizing E' P with
  | nil => simp [castM]
  | cons row rows ih =>
    cases E' with
    | nil => simp [colOf, castM]
    | cons e es =>
      cases P with
      | nil => simp [combosOkE] at h
      | cons w ws =>
        simp only [combosOkE, Bool.and_eq_true, beq_iff_eq] at h
        obtain ⟨⟨hrow, he⟩, hrest⟩ := h
        intro rb hrb
        simp only [castM, colOf, List.map_cons, List.zip_cons_cons, List.mem_cons] at hrb
        rcases hrb with rfl | hrb
        · refine ⟨castL w, ?_, ?_⟩
          · show castL row = _
            rw [hrow, castL_lincombQ]
          · show dotR (castL e) lam = _
            rw [he, castL_lincombQ, dotR_lincomb (castL w) (castM E) m lam (by
              intro r hr
              simp only [castM, List.mem_map] at hr
              obtain ⟨r0, hr0, rfl⟩ := hr
              simp [castL, hE r0 hr0])]
            rfl
        · exact ih ws es hrest rb hrb

theorem equilCert_sound (n m : Nat) (P L A E A' E' : List (List Rat)) (lam : List ℝ)
    (h : equilCert n m P L A E A' E' = true) :
    RowEquiv n (castM A) (colOf E lam) (castM A') (colOf E' lam) := by
  simp only [equilCert, Bool.and_eq_true, beq_iff_eq, List.all_eq_true] at h
  obtain ⟨⟨⟨⟨⟨⟨⟨h1, h2⟩, h3⟩, h4⟩, h5⟩, h6⟩, h7⟩, h8⟩ := h
  exact {
    len := by simp [castM, colOf, h1]
    len' := by simp [castM, colOf, h2]
    width := by
      intro r hr
      simp only [castM, List.mem_map] at hr
      obtain ⟨r0, hr0, rfl⟩ := hr
      simp [castL, h3 r0 hr0]
    width' := by
      intro r hr
      simp only [castM, List.mem_map] at hr
      obtain ⟨r0, hr0, rfl⟩ := hr
      simp [castL, h4 r0 hr0]
    fwd := combosOkE_sound P A E n m A' E' lam h5 h7
    bwd := combosOkE_sound L A' E' n m A E lam h6 h8 }

/-! ## The constants certificate: `ln K = E·(ln p)` and positivity -/

theorem zero_rat : (zero : Rat) = 0 := by simp [zero]
theorem one_rat : (one : Rat) = 1 := by simp [one]

theorem npow_rat (x : Rat) (n : ℕ) : Num.npow x n = x ^ n := by
  induction n with
  | zero => simp [Num.npow]
  | succ k ih => simp [Num.npow, ih, pow_succ]

theorem powInt_rat (x : Rat) (n : ℤ) : powInt x n = x ^ n := by
  unfold powInt
  split
  · rename_i h
    have hn : n = -((n.natAbs : ℕ) : ℤ) := by omega
    rw [npow_rat, one_rat]
    conv_rhs => rw [hn]
    rw [zpow_neg, zpow_natCast, one_div]
  · rename_i h
    have hn : n = ((n.toNat : ℕ) : ℤ) := by omega
    rw [npow_rat]
    conv_rhs => rw [hn]
    rw [zpow_natCast]

theorem foldl_mul_rat (l : List Rat) (a : Rat) : l.foldl (· * ·) a = a * l.prod := by
  induction l generalizing a with
  | nil => simp
  | cons x xs ih => simp [List.foldl_cons, ih, mul_assoc]

theorem cast_prod_zpow (c : List Rat) (row : List ℤ) :
    (((List.zipWith (fun (x : Rat) (n : ℤ) => x ^ n) c row).prod : Rat) : ℝ) = quotient (castL c) row := by
  induction c generalizing row with
  | nil => simp [quotient, castL]
  | cons x xs ih =>
    cases row with
    | nil => simp [quotient, castL]
    | cons n ns =>
      have := ih ns
      simp only [quotient, castL] at this ⊢
      simp only [List.zipWith_cons_cons, List.prod_cons, List.map_cons]
      rw [← this]
      push_cast
      rfl

theorem cast_prodPowRow (c : List Rat) (row : List ℤ) :
    ((prodPowRow c row : Rat) : ℝ) = quotient (castL c) row := by
  unfold prodPowRow
  rw [foldl_mul_rat, one_rat, one_mul]
  have : List.zipWith powInt c row = List.zipWith (fun (x : Rat) (n : ℤ) => x ^ n) c row := by
    congr 1
    funext x n
    exact powInt_rat x n
  rw [this, cast_prod_zpow]

/-- for positive bases `ln ∏ cⱼ^νⱼ = Σ νⱼ ln cⱼ` -/
theorem log_quotient (c : List ℝ) (row : List ℤ) (hc : ∀ x ∈ c, 0 < x) :
    Real.log (quotient c row) = total row (c.map Real.log) := by
  have := exp_total row (c.map Real.log)
  rw [map_exp_log hc] at this
  rw [← this, Real.log_exp]

theorem ksCert_sound (ps : List Nat) (E : List (List Int)) (ks : List Rat) (h : ksCert ps E ks = true) :
    (castL ks).map Real.log = colOf (intMat E) (ps.map fun (p : Nat) => Real.log (p : ℝ)) := by
  simp only [ksCert, Bool.and_eq_true, List.all_eq_true, decide_eq_true_eq, beq_iff_eq] at h
  obtain ⟨hpos, hks⟩ := h
  have hb : castL (basesQ ps) = ps.map fun (p : Nat) => (p : ℝ) := by
    simp [castL, basesQ, List.map_map]
  have hbpos : ∀ x ∈ ps.map (fun (p : Nat) => (p : ℝ)), 0 < x := by
    intro x hx
    simp only [List.mem_map] at hx
    obtain ⟨p, hp, rfl⟩ := hx
    exact_mod_cast hpos p hp
  rw [hks, colOf, castM_intMat]
  unfold castL intMat
  rw [List.map_map, List.map_map, List.map_map]
  apply List.map_congr_left
  intro row _
  simp only [Function.comp]
  rw [cast_prodPowRow, hb, log_quotient _ _ hbpos, total_eq_dotR, List.map_map]
  rfl
theorem quotient_pos (c : List ℝ) (row : List ℤ) (hc : ∀ x ∈ c, 0 < x) : 0 < quotient c row := by
  induction c generalizing row with
  | nil => simp [quotient]
  | cons x xs ih =>
    cases row with
    | nil => simp [quotient]
    | cons n ns =>
      have := ih ns (fun z hz => hc z (List.mem_cons_of_mem _ hz))
      simp only [quotient] at this ⊢
      simp only [List.zipWith_cons_cons, List.prod_cons]
      exact mul_pos (zpow_pos (hc x List.mem_cons_self) n) this

theorem ksCert_pos (ps : List Nat) (E : List (List Int)) (ks : List Rat) (h : ksCert ps E ks = true) :
    ∀ k ∈ castL ks, 0 < k := by
  simp only [ksCert, Bool.and_eq_true, List.all_eq_true, decide_eq_true_eq, beq_iff_eq] at h
  obtain ⟨hpos, hks⟩ := h
  intro k hk
  rw [hks] at hk
  simp only [castL, List.map_map, List.mem_map, Function.comp] at hk
  obtain ⟨row, _, rfl⟩ := hk
  rw [cast_prodPowRow]
  apply quotient_pos
  intro x hx
  simp only [castL, basesQ, List.map_map, List.mem_map, Function.comp] at hx
  obtain ⟨p, hp, rfl⟩ := hx
  exact_mod_cast hpos p hp


theorem four_rpow_neg_half : Real.rpow 4 (-1 / 2) = 1 / 2 := by
  show (4 : ℝ) ^ ((-1 / 2 : ℝ)) = 1 / 2
  have h4 : (4 : ℝ) = 2 ^ (2 : ℝ) := by norm_num
  rw [h4, ← Real.rpow_mul (by norm_num : (0 : ℝ) ≤ 2)]
  norm_num


/-! ## Row operations -/

theorem mulVec_eq_zero_iff_of_isUnit_det {m : ℕ} (M : Matrix (Fin m) (Fin m) ℝ) (hM : IsUnit M.det)
    (v : Fin m → ℝ) : M.mulVec v = 0 ↔ v = 0 := by
  constructor
  · intro h
    have h2 : M⁻¹.mulVec (M.mulVec v) = 0 := by rw [h, Matrix.mulVec_zero]
    rwa [Matrix.mulVec_mulVec, Matrix.nonsing_inv_mul M hM, Matrix.one_mulVec] at h2
  · intro h
    rw [h, Matrix.mulVec_zero]

end ChemModel.EqSys
