/-
Helper lemmas for C07 (and C08): the model of Model/EqSys.lean instantiated with `ℝ`,
rewritten into Mathlib vocabulary (`zpow`, `List.prod`, `List.sum`, `Real.exp`, `Real.log`).

Specification vocabulary (used by Props/C07.lean):
* `quotient c row = ∏ⱼ cⱼ ^ rowⱼ`          — the mass-action quotient of one reaction
* `total brow c   = Σⱼ browⱼ · cⱼ`          — the amount of one composition key (element / charge)
* `addExtent c N ξ = c + Σᵢ ξᵢ · Nᵢ`        — state after reaction extents ξ
-/
import Mathlib.Analysis.SpecialFunctions.Log.Basic
import Mathlib.Tactic.Ring
import Mathlib.Tactic.Linarith
import Mathlib.Tactic.FieldSimp
import Mathlib.LinearAlgebra.Matrix.NonsingularInverse
import ChemModel.Model.EqSys

namespace ChemModel.EqSys
open ChemModel

noncomputable instance instHasExpReal : HasExp ℝ := ⟨Real.exp⟩
noncomputable instance instHasLogReal : HasLog ℝ := ⟨Real.log⟩

/-! ## Specification vocabulary -/

/-- mass-action quotient `∏ⱼ cⱼ ^ νⱼ` of a reaction with (integer) stoichiometry row `ν` -/
noncomputable def quotient (c : List ℝ) (row : List ℤ) : ℝ :=
  (List.zipWith (fun (x : ℝ) (n : ℤ) => x ^ n) c row).prod

/-- amount `Σⱼ bⱼ · cⱼ` of one composition key, `b` the row of the composition matrix -/
noncomputable def total (brow : List ℤ) (c : List ℝ) : ℝ :=
  (List.zipWith (fun (b : ℤ) (x : ℝ) => (b : ℝ) * x) brow c).sum

/-- integer dot product `Σⱼ bⱼ · νⱼ` (zero for every key ⇔ the reaction is balanced) -/
def idot (brow row : List ℤ) : ℤ := (List.zipWith (· * ·) brow row).sum

/-- `c + ξ · row` -/
noncomputable def addScaled (c : List ℝ) (ξ : ℝ) (row : List ℤ) : List ℝ :=
  List.zipWith (fun (x : ℝ) (n : ℤ) => x + ξ * (n : ℝ)) c row

/-- the state reached from `c` by the reaction extents `ξ` (one per row of `N`) -/
noncomputable def addExtent (c : List ℝ) : List (List ℤ) → List ℝ → List ℝ
  | row :: N, x :: ξ => addExtent (addScaled c x row) N ξ
  | _, _ => c

/-! ## Number-class functions on ℝ -/

@[simp] theorem zero_real : (zero : ℝ) = 0 := by simp [zero]
@[simp] theorem one_real : (one : ℝ) = 1 := by simp [one]

theorem ofInt_real (i : ℤ) : (Num.ofInt i : ℝ) = (i : ℝ) := by
  unfold Num.ofInt
  split
  · rename_i h
    have h2 : ((i.natAbs : ℤ) : ℝ) = ((-i : ℤ) : ℝ) := by
      congr 1; omega
    rw [Int.cast_natCast] at h2
    rw [h2]; simp
  · rename_i h
    have h2 : ((i.toNat : ℤ) : ℝ) = (i : ℝ) := by
      congr 1; omega
    rw [Int.cast_natCast] at h2
    exact h2

theorem npow_real (x : ℝ) (n : ℕ) : Num.npow x n = x ^ n := by
  induction n with
  | zero => simp [Num.npow]
  | succ k ih => simp [Num.npow, ih, pow_succ]

theorem powInt_real (x : ℝ) (n : ℤ) : powInt x n = x ^ n := by
  unfold powInt
  split
  · rename_i h
    have hn : n = -((n.natAbs : ℕ) : ℤ) := by omega
    rw [npow_real, one_real]
    conv_rhs => rw [hn]
    rw [zpow_neg, zpow_natCast, one_div]
  · rename_i h
    have hn : n = ((n.toNat : ℕ) : ℤ) := by omega
    rw [npow_real]
    conv_rhs => rw [hn]
    rw [zpow_natCast]

theorem foldl_mul_real (l : List ℝ) (a : ℝ) : l.foldl (· * ·) a = a * l.prod := by
  induction l generalizing a with
  | nil => simp
  | cons x xs ih => simp [List.foldl_cons, ih, mul_assoc]

theorem foldl_add_real (l : List ℝ) (a : ℝ) : l.foldl (· + ·) a = a + l.sum := by
  induction l generalizing a with
  | nil => simp
  | cons x xs ih => simp [List.foldl_cons, ih, add_assoc]

theorem prodPowRow_real (c : List ℝ) (row : List ℤ) : prodPowRow c row = quotient c row := by
  unfold prodPowRow quotient
  rw [foldl_mul_real, one_real, one_mul]
  congr 1
  congr 1
  funext x n
  exact powInt_real x n

theorem ofInt_fun : (fun (c : ℤ) (x : ℝ) => (Num.ofInt c : ℝ) * x) = fun (c : ℤ) (x : ℝ) => (c : ℝ) * x := by
  funext c x
  rw [ofInt_real]

theorem dotRow_real (row : List ℤ) (v : List ℝ) : dotRow row v = total row v := by
  unfold dotRow total
  rw [foldl_add_real, zero_real, zero_add, ofInt_fun]

theorem vecDotVec_real {row : List ℤ} {v : List ℝ} {d : ℝ}
    (h : vecDotVec (intRow row) v = some d) : d = total row v := by
  cases row with
  | nil => simp [intRow, vecDotVec] at h
  | cons a as =>
    cases v with
    | nil => simp [intRow, vecDotVec] at h
    | cons b bs =>
      simp only [intRow, List.map_cons, vecDotVec, Option.some.injEq] at h
      rw [← h, foldl_add_real, total, List.zipWith_cons_cons, List.sum_cons, ofInt_real,
        List.zipWith_map_left, ofInt_fun]

theorem matDotVec_real {B : List (List ℤ)} {v b : List ℝ}
    (h : matDotVec (intMat B) v = some b) : b = B.map (fun row => total row v) := by
  induction B generalizing b with
  | nil => simpa [intMat, matDotVec] using h.symm
  | cons row rest ih =>
    simp only [intMat, List.map_cons, matDotVec] at h
    split at h
    · exact absurd h (by simp)
    · rename_i d hd
      split at h
      · exact absurd h (by simp)
      · rename_i ds hds
        simp only [Option.some.injEq] at h
        rw [← h, List.map_cons, vecDotVec_real hd, ih hds]

theorem linearExprs_real (B : List (List ℤ)) (x b : List ℝ) :
    linearExprs B x b = List.zipWith (fun row v => total row x - v) B b := by
  unfold linearExprs
  congr 1
  funext row v
  rw [← dotRow_real]
  rfl

theorem beq_zero_real (k : ℝ) : (k == (zero : ℝ)) = decide (k = 0) := by
  rw [zero_real]
  by_cases h : k = 0
  · simp [h]
  · simp [h]

/-- the residual `q/k - 1 if k != 0 else q` vanishes exactly when `q = k` — for every `k`, zero included -/
theorem equilResidual_eq_zero_iff (q k : ℝ) : equilResidual q k = 0 ↔ q = k := by
  unfold equilResidual
  rw [beq_zero_real]
  by_cases hk : k = 0
  · simp [hk]
  · simp only [hk, decide_false, Bool.false_eq_true, ↓reduceIte, one_real]
    rw [sub_eq_zero, div_eq_one_iff_eq hk]

/-! ## List plumbing -/

theorem forall_zipWith {α β γ : Type} (f : α → β → γ) (P : γ → Prop) (l₁ : List α) (l₂ : List β) :
    (∀ x ∈ List.zipWith f l₁ l₂, P x) ↔ ∀ ab ∈ l₁.zip l₂, P (f ab.1 ab.2) := by
  induction l₁ generalizing l₂ with
  | nil => simp
  | cons a as ih =>
    cases l₂ with
    | nil => simp
    | cons b bs => simp [ih]

theorem zip_map_right_self {α β : Type} (f : α → β) (l : List α) (P : α → β → Prop) :
    (∀ ab ∈ l.zip (l.map f), P ab.1 ab.2) ↔ ∀ a ∈ l, P a (f a) := by
  induction l with
  | nil => simp
  | cons a as ih => simp only [List.map_cons, List.zip_cons_cons, List.forall_mem_cons, ih]

theorem zip_map_left {α β γ : Type} (f : α → γ) (l₁ : List α) (l₂ : List β) (P : γ → β → Prop) :
    (∀ ab ∈ (l₁.map f).zip l₂, P ab.1 ab.2) ↔ ∀ ab ∈ l₁.zip l₂, P (f ab.1) ab.2 := by
  induction l₁ generalizing l₂ with
  | nil => simp
  | cons a as ih =>
    cases l₂ with
    | nil => simp
    | cons b bs => simp only [List.map_cons, List.zip_cons_cons, List.forall_mem_cons, ih]

/-! ## `NumSysLin.f` over ℝ -/

/-- the constants `ks` that `_get_A_ks` pairs with the rows of `A` -/
noncomputable def ksOf (s : EqSystem) (prec : List Bool) (small : ℝ) (p : List ℝ) : List ℝ :=
  eqConstants (nonPrecipRids s prec) (eqParamsOf s p) small

/-- the composition matrix `B` -/
def compMat (s : EqSystem) : List (List ℤ) := (compositionBalanceVectors s).1

/-- everything `NumSysLin.f` computes on the way, when it does not raise -/
theorem numSysLinF_ok {s : EqSystem} {prec : List Bool} {small : ℝ} {y p r : List ℝ}
    (h : numSysLinF s prec small y p = .ok r) :
    ∃ A, stoichs s (nonPrecipRids s prec) = .ok A ∧ A.any (zeroDiv y) = false ∧ shapeOk s y p = true ∧
      r = List.zipWith equilResidual (A.map (prodPowRow y)) (ksOf s prec small p)
          ++ List.zipWith (fun row v => total row y - v) (compMat s)
              ((compMat s).map fun row => total row (initConcsOf s p)) := by
  unfold numSysLinF at h
  by_cases hshape : shapeOk s y p = true
  · simp only [hshape, Bool.not_true, Bool.false_eq_true, ↓reduceIte] at h
    by_cases hempty : s.rxns.isEmpty = true
    · simp [hempty] at h
    simp only [hempty, Bool.false_eq_true, ↓reduceIte] at h
    cases hA : stoichs s (nonPrecipRids s prec) with
    | error e => simp [hA] at h
    | ok A =>
      simp only [hA] at h
      unfold prodPow at h
      by_cases hz : A.any (zeroDiv y) = true
      · simp [hz] at h
      · simp only [hz, Bool.false_eq_true, ↓reduceIte] at h
        cases hb : matDotVec (intMat (compositionBalanceVectors s).1) (initConcsOf s p) with
        | none => simp [hb] at h
        | some b =>
          simp only [hb, Except.ok.injEq] at h
          refine ⟨A, rfl, by simpa using hz, hshape, ?_⟩
          rw [← h, linearExprs_real, matDotVec_real hb]
          rfl
  · simp [hshape] at h

/-- zero pattern of the residual vector of `NumSysLin.f`, for ANY constants (zero included) -/
theorem lin_zero_iff_core (A B : List (List ℤ)) (ks y c0 : List ℝ) :
    (∀ x ∈ List.zipWith equilResidual (A.map (prodPowRow y)) ks
          ++ List.zipWith (fun row v => total row y - v) B (B.map fun row => total row c0), x = 0) ↔
      (∀ rk ∈ A.zip ks, quotient y rk.1 = rk.2) ∧ (∀ brow ∈ B, total brow y = total brow c0) := by
  rw [List.forall_mem_append, forall_zipWith, forall_zipWith,
    zip_map_left (prodPowRow y) A ks (fun q k => equilResidual q k = 0),
    zip_map_right_self (fun row => total row c0) B (fun row v => total row y - v = 0)]
  constructor
  · rintro ⟨h1, h2⟩
    refine ⟨fun rk hrk => ?_, fun brow hb => ?_⟩
    · have := h1 rk hrk
      rwa [equilResidual_eq_zero_iff, prodPowRow_real] at this
    · exact sub_eq_zero.mp (h2 brow hb)
  · rintro ⟨h1, h2⟩
    refine ⟨fun rk hrk => ?_, fun brow hb => ?_⟩
    · rw [equilResidual_eq_zero_iff, prodPowRow_real]
      exact h1 rk hrk
    · exact sub_eq_zero.mpr (h2 brow hb)

/-! ## Structure: stoichs, constants, homogeneous systems, lengths -/

/-- no species belongs to another phase (`phase_idx = 0` throughout): the quantifier of C07 -/
def Homogeneous (s : EqSystem) : Prop := ∀ kv ∈ s.substances, kv.2.phaseIdx = 0

theorem stoichsAux_nil (s : EqSystem) (i : ℕ) (rs : List Rxn) :
    stoichsAux s [] i rs = .ok (rs.map fun r => nonPrecipitateStoich r s.substances) := by
  induction rs generalizing i with
  | nil => rfl
  | cons r rs ih => simp [stoichsAux, stoichRow, ih]

/-- with no reaction switched to "no precipitate", `stoichs` is the non-precipitate stoichiometry -/
theorem stoichs_nil (s : EqSystem) :
    stoichs s [] = .ok (s.rxns.map fun r => nonPrecipitateStoich r s.substances) :=
  stoichsAux_nil s 0 s.rxns

theorem nonPrecipitateStoich_homog {s : EqSystem} (hs : Homogeneous s) (r : Rxn) :
    nonPrecipitateStoich r s.substances = netStoich r s.substances := by
  unfold nonPrecipitateStoich xprecipitateStoich netStoich
  apply List.map_congr_left
  intro kv hkv
  simp [hs kv hkv]

theorem lookup_mem {β : Type} (l : List (String × β)) (k : String) (b : β) (h : l.lookup k = some b) :
    ∃ k', (k', b) ∈ l := by
  induction l with
  | nil => simp at h
  | cons a as ih =>
    rw [List.lookup_cons] at h
    split at h
    · simp only [Option.some.injEq] at h
      exact ⟨a.1, by rw [← h]; exact List.mem_cons_self⟩
    · obtain ⟨k', hk'⟩ := ih h
      exact ⟨k', List.mem_cons_of_mem _ hk'⟩

theorem hasPrecipitates_homog {s : EqSystem} (hs : Homogeneous s) (r : Rxn) :
    hasPrecipitates r s.substances = false := by
  unfold hasPrecipitates
  rw [List.any_eq_false]
  intro k _
  split
  · rename_i sp hsp
    obtain ⟨k', hk'⟩ := lookup_mem _ _ _ hsp
    have := hs (k', sp) hk'
    simp at this
    simp [this]
  · simp

theorem phaseTransferAux_homog {s : EqSystem} (hs : Homogeneous s) (i : ℕ) (rs : List Rxn) :
    phaseTransferAux s.substances i rs = [] := by
  induction rs generalizing i with
  | nil => rfl
  | cons r rs ih => simp [phaseTransferAux, hasPrecipitates_homog hs, ih]

/-- a homogeneous system has no phase-transfer reaction, whatever `precipitates` is passed -/
theorem nonPrecipRids_homog {s : EqSystem} (hs : Homogeneous s) (prec : List Bool) :
    nonPrecipRids s prec = [] := by
  simp [nonPrecipRids, phaseTransferReactionIdxs, phaseTransferAux_homog hs]

theorem eqConstantsAux_nil (small : ℝ) (i : ℕ) (ks : List ℝ) : eqConstantsAux [] small i ks = ks := by
  induction ks generalizing i with
  | nil => rfl
  | cons k ks ih => simp [eqConstantsAux, ih]

theorem eqConstants_nil (small : ℝ) (ks : List ℝ) : eqConstants [] ks small = ks :=
  eqConstantsAux_nil small 0 ks

theorem stoichs_homog {s : EqSystem} (hs : Homogeneous s) (prec : List Bool) :
    stoichs s (nonPrecipRids s prec) = .ok (netStoichs s) := by
  rw [nonPrecipRids_homog hs, stoichs_nil, netStoichs]
  congr 1
  apply List.map_congr_left
  intro r _
  exact nonPrecipitateStoich_homog hs r

theorem ksOf_homog {s : EqSystem} (hs : Homogeneous s) (prec : List Bool) (small : ℝ) (p : List ℝ) :
    ksOf s prec small p = eqParamsOf s p := by
  rw [ksOf, nonPrecipRids_homog hs, eqConstants_nil]

theorem stoichsAux_length {s : EqSystem} {rids : List ℕ} {i : ℕ} {rs : List Rxn} {A : List (List ℤ)}
    (h : stoichsAux s rids i rs = .ok A) : A.length = rs.length := by
  induction rs generalizing i A with
  | nil => simp [stoichsAux] at h; simp [← h]
  | cons r rs ih =>
    unfold stoichsAux at h
    split at h
    · exact absurd h (by simp)
    · split at h
      · exact absurd h (by simp)
      · rename_i rows hrows
        simp only [Except.ok.injEq] at h
        rw [← h, List.length_cons, List.length_cons, ih hrows]

theorem stoichs_length {s : EqSystem} {rids : List ℕ} {A : List (List ℤ)} (h : stoichs s rids = .ok A) :
    A.length = s.nr := stoichsAux_length h

theorem eqConstantsAux_length (rids : List ℕ) (small : ℝ) (i : ℕ) (ks : List ℝ) :
    (eqConstantsAux rids small i ks).length = ks.length := by
  induction ks generalizing i with
  | nil => rfl
  | cons k ks ih => simp [eqConstantsAux, ih]

theorem ksOf_length {s : EqSystem} {y p : List ℝ} (hshape : shapeOk s y p = true) (prec : List Bool) (small : ℝ) :
    (ksOf s prec small p).length = s.nr := by
  unfold ksOf eqConstants
  rw [eqConstantsAux_length]
  simp only [shapeOk, Bool.and_eq_true, beq_iff_eq] at hshape
  simp [eqParamsOf, hshape.2]

theorem compMat_length (s : EqSystem) : (compMat s).length = (compositionBalanceVectors s).2.length := by
  simp [compMat, compositionBalanceVectors]

/-! ## `NumSysLog.f` over ℝ -/

theorem exp_int_mul (n : ℤ) (x : ℝ) : Real.exp ((n : ℝ) * x) = Real.exp x ^ n := by
  cases n with
  | ofNat m => simp [Real.exp_nat_mul]
  | negSucc m =>
    rw [Int.cast_negSucc, neg_mul, Real.exp_neg, zpow_negSucc, ← Real.exp_nat_mul]

/-- `exp(Σ νⱼ yⱼ) = ∏ exp(yⱼ)^νⱼ` -/
theorem exp_total (row : List ℤ) (y : List ℝ) :
    Real.exp (total row y) = quotient (y.map Real.exp) row := by
  induction row generalizing y with
  | nil => simp [total, quotient]
  | cons a as ih =>
    cases y with
    | nil => simp [total, quotient]
    | cons b bs =>
      have h1 : total (a :: as) (b :: bs) = (a : ℝ) * b + total as bs := by simp [total]
      have h2 : quotient ((b :: bs).map Real.exp) (a :: as) = Real.exp b ^ a * quotient (bs.map Real.exp) as := by
        simp [quotient]
      rw [h1, h2, Real.exp_add, exp_int_mul, ih]

theorem matDotVecTerm_real {A : List (List ℤ)} {y ts fe : List ℝ}
    (h : matDotVecTerm (intMat A) y ts = some fe) :
    fe = List.zipWith (fun row t => total row y + t) A ts := by
  induction A generalizing ts fe with
  | nil => simp [intMat, matDotVecTerm] at h; simp [← h]
  | cons row rest ih =>
    cases ts with
    | nil => simp [intMat, matDotVecTerm] at h; subst h; simp
    | cons t ts =>
      simp only [intMat, List.map_cons, matDotVecTerm] at h
      split at h
      · exact absurd h (by simp)
      · rename_i d hd
        split at h
        · exact absurd h (by simp)
        · rename_i ds hds
          simp only [Option.some.injEq] at h
          rw [← h, List.zipWith_cons_cons, vecDotVec_real hd, ih hds]

theorem numSysLogF_ok {s : EqSystem} {prec : List Bool} {small : ℝ} {y p r : List ℝ}
    (h : numSysLogF s prec small y p = .ok r) :
    ∃ A, stoichs s (nonPrecipRids s prec) = .ok A ∧ shapeOk s y p = true ∧
      r = List.zipWith (fun row t => total row y + t) A ((ksOf s prec small p).map fun k => -Real.log k)
          ++ List.zipWith (fun row v => total row (y.map Real.exp) - v) (compMat s)
              ((compMat s).map fun row => total row (initConcsOf s p)) := by
  unfold numSysLogF at h
  by_cases hshape : shapeOk s y p = true
  · simp only [hshape, Bool.not_true, Bool.false_eq_true, ↓reduceIte] at h
    cases hA : stoichs s (nonPrecipRids s prec) with
    | error e => simp [hA] at h
    | ok A =>
      simp only [hA] at h
      split at h
      · exact absurd h (by simp)
      · rename_i fe hfe
        cases hb : matDotVec (intMat (compositionBalanceVectors s).1) (initConcsOf s p) with
        | none => simp [hb] at h
        | some b =>
          simp only [hb, Except.ok.injEq] at h
          refine ⟨A, rfl, hshape, ?_⟩
          rw [← h, linearExprs_real, matDotVec_real hb, matDotVecTerm_real hfe]
          rfl
  · simp [hshape] at h

theorem zip_map_right {α β γ : Type} (f : β → γ) (l₁ : List α) (l₂ : List β) (P : α → γ → Prop) :
    (∀ ab ∈ l₁.zip (l₂.map f), P ab.1 ab.2) ↔ ∀ ab ∈ l₁.zip l₂, P ab.1 (f ab.2) := by
  induction l₁ generalizing l₂ with
  | nil => simp
  | cons a as ih =>
    cases l₂ with
    | nil => simp
    | cons b bs => simp only [List.map_cons, List.zip_cons_cons, List.forall_mem_cons, ih]

/-- one row of the logarithmic formulation: `Σ νⱼ yⱼ − ln k = 0 ⇔ ∏ exp(yⱼ)^νⱼ = k`, for `k > 0` -/
theorem log_row_zero_iff (row : List ℤ) (y : List ℝ) {k : ℝ} (hk : 0 < k) :
    total row y + -Real.log k = 0 ↔ quotient (y.map Real.exp) row = k := by
  rw [← exp_total]
  constructor
  · intro h
    have : total row y = Real.log k := by linarith
    rw [this, Real.exp_log hk]
  · intro h
    rw [← h, Real.log_exp]
    ring

theorem log_zero_iff_core (A B : List (List ℤ)) (ks y c0 : List ℝ) (hks : ∀ k ∈ ks, 0 < k) :
    (∀ x ∈ List.zipWith (fun row t => total row y + t) A (ks.map fun k => -Real.log k)
          ++ List.zipWith (fun row v => total row (y.map Real.exp) - v) B (B.map fun row => total row c0), x = 0) ↔
      (∀ rk ∈ A.zip ks, quotient (y.map Real.exp) rk.1 = rk.2) ∧
      (∀ brow ∈ B, total brow (y.map Real.exp) = total brow c0) := by
  rw [List.forall_mem_append, forall_zipWith, forall_zipWith,
    zip_map_right (fun k => -Real.log k) A ks (fun row t => total row y + t = 0),
    zip_map_right_self (fun row => total row c0) B (fun row v => total row (y.map Real.exp) - v = 0)]
  constructor
  · rintro ⟨h1, h2⟩
    refine ⟨fun rk hrk => ?_, fun brow hb => sub_eq_zero.mp (h2 brow hb)⟩
    exact (log_row_zero_iff rk.1 y (hks rk.2 (List.of_mem_zip hrk).2)).mp (h1 rk hrk)
  · rintro ⟨h1, h2⟩
    refine ⟨fun rk hrk => ?_, fun brow hb => sub_eq_zero.mpr (h2 brow hb)⟩
    exact (log_row_zero_iff rk.1 y (hks rk.2 (List.of_mem_zip hrk).2)).mpr (h1 rk hrk)

/-! ## Reaction extents and conservation -/

theorem total_addScaled (brow row : List ℤ) (c : List ℝ) (ξ : ℝ) (h : row.length = c.length) :
    total brow (addScaled c ξ row) = total brow c + ξ * ((idot brow row : ℤ) : ℝ) := by
  induction brow generalizing c row with
  | nil => simp [total, idot]
  | cons b bs ih =>
    cases c with
    | nil =>
      have : row = [] := List.eq_nil_of_length_eq_zero (by simpa using h)
      subst this
      simp [total, idot, addScaled]
    | cons x xs =>
      cases row with
      | nil => simp at h
      | cons n ns =>
        have hl : ns.length = xs.length := by simpa using h
        have h1 : total (b :: bs) (addScaled (x :: xs) ξ (n :: ns))
            = (b : ℝ) * (x + ξ * (n : ℝ)) + total bs (addScaled xs ξ ns) := by
          simp [total, addScaled]
        have h2 : total (b :: bs) (x :: xs) = (b : ℝ) * x + total bs xs := by simp [total]
        have h3 : ((idot (b :: bs) (n :: ns) : ℤ) : ℝ) = (b : ℝ) * (n : ℝ) + ((idot bs ns : ℤ) : ℝ) := by
          simp [idot]
        rw [h1, h2, h3, ih ns xs hl]
        ring

theorem addScaled_length (c : List ℝ) (ξ : ℝ) (row : List ℤ) (h : row.length = c.length) :
    (addScaled c ξ row).length = c.length := by
  simp [addScaled, h]

theorem total_addExtent (brow : List ℤ) (N : List (List ℤ)) (ξ c : List ℝ)
    (hlen : ∀ row ∈ N, row.length = c.length) (hbal : ∀ row ∈ N, idot brow row = 0) :
    total brow (addExtent c N ξ) = total brow c := by
  induction N generalizing c ξ with
  | nil => simp [addExtent]
  | cons row N ih =>
    cases ξ with
    | nil => simp [addExtent]
    | cons x ξ =>
      have hr : row.length = c.length := hlen row List.mem_cons_self
      rw [addExtent, ih ξ (addScaled c x row)
        (fun r hr' => by rw [addScaled_length c x row hr]; exact hlen r (List.mem_cons_of_mem _ hr'))
        (fun r hr' => hbal r (List.mem_cons_of_mem _ hr')),
        total_addScaled brow row c x hr, hbal row List.mem_cons_self]
      simp

/-! ## When `NumSysLin.f` is defined (does not raise) -/

theorem vecDotVec_isSome (row v : List ℝ) (hr : row ≠ []) (hv : v ≠ []) : ∃ d, vecDotVec row v = some d := by
  cases row with
  | nil => exact absurd rfl hr
  | cons a as =>
    cases v with
    | nil => exact absurd rfl hv
    | cons b bs => exact ⟨_, rfl⟩

theorem matDotVec_isSome (M : List (List ℝ)) (v : List ℝ) (hM : ∀ row ∈ M, row ≠ []) (hv : M ≠ [] → v ≠ []) :
    ∃ b, matDotVec M v = some b := by
  induction M with
  | nil => exact ⟨[], rfl⟩
  | cons row rest ih =>
    have hv' : v ≠ [] := hv (by simp)
    obtain ⟨d, hd⟩ := vecDotVec_isSome row v (hM row List.mem_cons_self) hv'
    obtain ⟨ds, hds⟩ := ih (fun r hr => hM r (List.mem_cons_of_mem _ hr)) (fun _ => hv')
    exact ⟨d :: ds, by simp [matDotVec, hd, hds]⟩

theorem compMat_rows (s : EqSystem) : ∀ row ∈ compMat s, row.length = s.ns := by
  intro row hrow
  simp only [compMat, compositionBalanceVectors, List.mem_map] at hrow
  obtain ⟨k, _, hk⟩ := hrow
  simp [← hk, EqSystem.ns]

theorem compMat_nil_of_ns_zero (s : EqSystem) (h : s.ns = 0) : compMat s = [] := by
  have : s.substances = [] := List.eq_nil_of_length_eq_zero h
  simp [compMat, compositionBalanceVectors, this, compositionKeys]

theorem matDotVec_compMat_isSome (s : EqSystem) {y p : List ℝ} (hshape : shapeOk s y p = true) :
    ∃ b, matDotVec (intMat (compMat s)) (initConcsOf s p) = some b := by
  simp only [shapeOk, Bool.and_eq_true, beq_iff_eq] at hshape
  apply matDotVec_isSome
  · intro row hrow
    simp only [intMat, List.mem_map] at hrow
    obtain ⟨r0, hr0, rfl⟩ := hrow
    have hl := compMat_rows s r0 hr0
    intro hnil
    have h0 : r0 = [] := by simpa [intRow] using hnil
    rw [h0] at hl
    have := compMat_nil_of_ns_zero s hl.symm
    rw [this] at hr0
    simp at hr0
  · intro hne hnil
    have hlen : (initConcsOf s p).length = s.ns := by simp [initConcsOf, hshape.2]
    rw [hnil] at hlen
    have := compMat_nil_of_ns_zero s hlen.symm
    simp [intMat, this] at hne

theorem zeroDiv_false_of_ne_zero (y : List ℝ) (row : List ℤ) (hy : ∀ x ∈ y, x ≠ 0) : zeroDiv y row = false := by
  unfold zeroDiv
  rw [List.any_eq_false]
  intro be hbe
  have : be.1 ≠ 0 := hy be.1 (List.of_mem_zip hbe).1
  simp [this]

/-- for a homogeneous system, well-shaped arguments and a state without zero entries the residual
    function returns a vector (it does not raise) -/
theorem numSysLinF_defined {s : EqSystem} (hs : Homogeneous s) (prec : List Bool) (small : ℝ) {y p : List ℝ}
    (hshape : shapeOk s y p = true) (hnr : 0 < s.nr) (hy : ∀ x ∈ y, x ≠ 0) :
    ∃ r, numSysLinF s prec small y p = .ok r := by
  obtain ⟨b, hb⟩ := matDotVec_compMat_isSome s hshape
  have hempty : s.rxns.isEmpty = false := by
    cases hr : s.rxns with
    | nil => simp [EqSystem.nr, hr] at hnr
    | cons a as => rfl
  have hz : (netStoichs s).any (zeroDiv y) = false := by
    rw [List.any_eq_false]
    intro row _
    simp [zeroDiv_false_of_ne_zero y row hy]
  unfold compMat at hb
  unfold numSysLinF
  simp only [hshape, Bool.not_true, Bool.false_eq_true, ↓reduceIte, hempty, stoichs_homog hs, prodPow, hz, hb]
  exact ⟨_, rfl⟩

/-! ## Variable transforms -/

theorem numSysSquareF_eq (s : EqSystem) (prec : List Bool) (small : ℝ) (y p : List ℝ) :
    numSysSquareF s prec small y p = numSysLinF s prec small (y.map fun yi => yi * yi) p := rfl

theorem numSysLinRelF_ok {s : EqSystem} {prec : List Bool} {small : ℝ} {y p r : List ℝ}
    (h : numSysLinRelF s prec small y p = .ok r) :
    ∃ m, upperConcBounds s (initConcsOf s p) = .ok m ∧
      numSysLinF s prec small (List.zipWith (· * ·) m y) p = .ok r := by
  unfold numSysLinRelF at h
  split at h
  · exact absurd h (by simp)
  · split at h
    · exact absurd h (by simp)
    · rename_i m hm
      exact ⟨m, hm, h⟩

/-! ## When `NumSysLog.f` is defined -/

theorem matDotVecTerm_isSome (M : List (List ℝ)) (v ts : List ℝ) (hM : ∀ row ∈ M, row ≠ []) (hv : v ≠ []) :
    ∃ fe, matDotVecTerm M v ts = some fe := by
  induction M generalizing ts with
  | nil => exact ⟨[], by simp [matDotVecTerm]⟩
  | cons row rest ih =>
    cases ts with
    | nil => exact ⟨[], by simp [matDotVecTerm]⟩
    | cons t ts =>
      obtain ⟨d, hd⟩ := vecDotVec_isSome row v (hM row List.mem_cons_self) hv
      obtain ⟨ds, hds⟩ := ih ts (fun r hr => hM r (List.mem_cons_of_mem _ hr))
      exact ⟨(d + t) :: ds, by simp [matDotVecTerm, hd, hds]⟩

/-- for a homogeneous system with at least one species and well-shaped arguments `NumSysLog.f` returns a vector -/
theorem numSysLogF_defined {s : EqSystem} (hs : Homogeneous s) (prec : List Bool) (small : ℝ) {y p : List ℝ}
    (hshape : shapeOk s y p = true) (hns : 0 < s.ns) : ∃ r, numSysLogF s prec small y p = .ok r := by
  obtain ⟨b, hb⟩ := matDotVec_compMat_isSome s hshape
  have hsh := hshape
  simp only [shapeOk, Bool.and_eq_true, beq_iff_eq] at hsh
  have hy : y ≠ [] := by
    intro h0
    rw [h0] at hsh
    simp at hsh
    omega
  obtain ⟨fe, hfe⟩ := matDotVecTerm_isSome (intMat (netStoichs s)) y
    ((ksOf s prec small p).map fun k => -Real.log k)
    (by
      intro row hrow
      simp only [intMat, netStoichs, List.mem_map] at hrow
      obtain ⟨r0, ⟨r, _, hr⟩, rfl⟩ := hrow
      intro hnil
      have : r0 = [] := by simpa [intRow] using hnil
      rw [← hr] at this
      have h2 : s.substances = [] := by simpa [netStoich] using this
      simp [EqSystem.ns, h2] at hns) hy
  unfold compMat at hb
  unfold ksOf at hfe
  unfold numSysLogF
  simp only [hshape, Bool.not_true, Bool.false_eq_true, ↓reduceIte, stoichs_homog hs]
  have hfe' : matDotVecTerm (intMat (netStoichs s)) y
      (List.map (fun k => -HasLog.log k) (eqConstants (nonPrecipRids s prec) (eqParamsOf s p) small)) = some fe := hfe
  simp only [hfe', hb]
  exact ⟨_, rfl⟩

/-! ## Row operations -/

theorem mulVec_eq_zero_iff_of_isUnit_det {m : ℕ} (M : Matrix (Fin m) (Fin m) ℝ) (hM : IsUnit M.det)
    (v : Fin m → ℝ) : M.mulVec v = 0 ↔ v = 0 := by
  constructor
  · intro h
    have h2 : M⁻¹.mulVec (M.mulVec v) = 0 := by rw [h, Matrix.mulVec_zero]
    rwa [Matrix.mulVec_mulVec, Matrix.nonsing_inv_mul M hM, Matrix.one_mulVec] at h2
  · intro h
    rw [h, Matrix.mulVec_zero]

end ChemModel.EqSys
