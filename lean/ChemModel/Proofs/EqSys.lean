/-
Helper lemmas for C07 (and C08): the model of Model/EqSys.lean instantiated with `ℝ`,
rewritten into Mathlib vocabulary (`zpow`, `List.prod`, `List.sum`, `Real.exp`, `Real.log`).

Specification vocabulary (used by Props/C07.lean):
* `quotient c row = ∏ⱼ cⱼ ^ rowⱼ`          — the mass-action quotient of one reaction
* `total brow c   = Σⱼ browⱼ · cⱼ`          — the amount of one composition key (element / charge)
* `addExtent c N ξ = c + Σᵢ ξᵢ · Nᵢ`        — state after reaction extents ξ
-/
import Mathlib.Analysis.SpecialFunctions.Log.Basic
import Mathlib.Tactic.Ring
import Mathlib.Tactic.Linarith
import Mathlib.Tactic.FieldSimp
import ChemModel.Model.EqSys

namespace ChemModel.EqSys
open ChemModel

noncomputable instance instHasExpReal : HasExp ℝ := ⟨Real.exp⟩
noncomputable instance instHasLogReal : HasLog ℝ := ⟨Real.log⟩

/-! ## Specification vocabulary -/

/-- mass-action quotient `∏ⱼ cⱼ ^ νⱼ` of a reaction with (integer) stoichiometry row `ν` -/
noncomputable def quotient (c : List ℝ) (row : List ℤ) : ℝ :=
  (List.zipWith (fun (x : ℝ) (n : ℤ) => x ^ n) c row).prod

/-- amount `Σⱼ bⱼ · cⱼ` of one composition key, `b` the row of the composition matrix -/
noncomputable def total (brow : List ℤ) (c : List ℝ) : ℝ :=
  (List.zipWith (fun (b : ℤ) (x : ℝ) => (b : ℝ) * x) brow c).sum

/-- integer dot product `Σⱼ bⱼ · νⱼ` (zero for every key ⇔ the reaction is balanced) -/
def idot (brow row : List ℤ) : ℤ := (List.zipWith (· * ·) brow row).sum

/-- `c + ξ · row` -/
noncomputable def addScaled (c : List ℝ) (ξ : ℝ) (row : List ℤ) : List ℝ :=
  List.zipWith (fun (x : ℝ) (n : ℤ) => x + ξ * (n : ℝ)) c row

/-- the state reached from `c` by the reaction extents `ξ` (one per row of `N`) -/
noncomputable def addExtent (c : List ℝ) : List (List ℤ) → List ℝ → List ℝ
  | row :: N, x :: ξ => addExtent (addScaled c x row) N ξ
  | _, _ => c

/-! ## Number-class functions on ℝ -/

@[simp] theorem zero_real : (zero : ℝ) = 0 := by simp [zero]
@[simp] theorem one_real : (one : ℝ) = 1 := by simp [one]

theorem ofInt_real (i : ℤ) : (Num.ofInt i : ℝ) = (i : ℝ) := by
  unfold Num.ofInt
  split
  · rename_i h
    have h2 : ((i.natAbs : ℤ) : ℝ) = ((-i : ℤ) : ℝ) := by
      congr 1; omega
    rw [Int.cast_natCast] at h2
    rw [h2]; simp
  · rename_i h
    have h2 : ((i.toNat : ℤ) : ℝ) = (i : ℝ) := by
      congr 1; omega
    rw [Int.cast_natCast] at h2
    exact h2

theorem npow_real (x : ℝ) (n : ℕ) : Num.npow x n = x ^ n := by
  induction n with
  | zero => simp [Num.npow]
  | succ k ih => simp [Num.npow, ih, pow_succ]

theorem powInt_real (x : ℝ) (n : ℤ) : powInt x n = x ^ n := by
  unfold powInt
  split
  · rename_i h
    have hn : n = -((n.natAbs : ℕ) : ℤ) := by omega
    rw [npow_real, one_real]
    conv_rhs => rw [hn]
    rw [zpow_neg, zpow_natCast, one_div]
  · rename_i h
    have hn : n = ((n.toNat : ℕ) : ℤ) := by omega
    rw [npow_real]
    conv_rhs => rw [hn]
    rw [zpow_natCast]

theorem foldl_mul_real (l : List ℝ) (a : ℝ) : l.foldl (· * ·) a = a * l.prod := by
  induction l generalizing a with
  | nil => simp
  | cons x xs ih => simp [List.foldl_cons, ih, mul_assoc]

theorem foldl_add_real (l : List ℝ) (a : ℝ) : l.foldl (· + ·) a = a + l.sum := by
  induction l generalizing a with
  | nil => simp
  | cons x xs ih => simp [List.foldl_cons, ih, add_assoc]

theorem prodPowRow_real (c : List ℝ) (row : List ℤ) : prodPowRow c row = quotient c row := by
  unfold prodPowRow quotient
  rw [foldl_mul_real, one_real, one_mul]
  congr 1
  congr 1
  funext x n
  exact powInt_real x n

theorem ofInt_fun : (fun (c : ℤ) (x : ℝ) => (Num.ofInt c : ℝ) * x) = fun (c : ℤ) (x : ℝ) => (c : ℝ) * x := by
  funext c x
  rw [ofInt_real]

theorem dotRow_real (row : List ℤ) (v : List ℝ) : dotRow row v = total row v := by
  unfold dotRow total
  rw [foldl_add_real, zero_real, zero_add, ofInt_fun]

theorem vecDotVec_real {row : List ℤ} {v : List ℝ} {d : ℝ}
    (h : vecDotVec (intRow row) v = some d) : d = total row v := by
  cases row with
  | nil => simp [intRow, vecDotVec] at h
  | cons a as =>
    cases v with
    | nil => simp [intRow, vecDotVec] at h
    | cons b bs =>
      simp only [intRow, List.map_cons, vecDotVec, Option.some.injEq] at h
      rw [← h, foldl_add_real, total, List.zipWith_cons_cons, List.sum_cons, ofInt_real,
        List.zipWith_map_left, ofInt_fun]

theorem matDotVec_real {B : List (List ℤ)} {v b : List ℝ}
    (h : matDotVec (intMat B) v = some b) : b = B.map (fun row => total row v) := by
  induction B generalizing b with
  | nil => simpa [intMat, matDotVec] using h.symm
  | cons row rest ih =>
    simp only [intMat, List.map_cons, matDotVec] at h
    split at h
    · exact absurd h (by simp)
    · rename_i d hd
      split at h
      · exact absurd h (by simp)
      · rename_i ds hds
        simp only [Option.some.injEq] at h
        rw [← h, List.map_cons, vecDotVec_real hd, ih hds]

theorem linearExprs_real (B : List (List ℤ)) (x b : List ℝ) :
    linearExprs B x b = List.zipWith (fun row v => total row x - v) B b := by
  unfold linearExprs
  congr 1
  funext row v
  rw [← dotRow_real]
  rfl

theorem beq_zero_real (k : ℝ) : (k == (zero : ℝ)) = decide (k = 0) := by
  rw [zero_real]
  by_cases h : k = 0
  · simp [h]
  · simp [h]

/-- the residual `q/k - 1 if k != 0 else q` vanishes exactly when `q = k` — for every `k`, zero included -/
theorem equilResidual_eq_zero_iff (q k : ℝ) : equilResidual q k = 0 ↔ q = k := by
  unfold equilResidual
  rw [beq_zero_real]
  by_cases hk : k = 0
  · simp [hk]
  · simp only [hk, decide_false, Bool.false_eq_true, ↓reduceIte, one_real]
    rw [sub_eq_zero, div_eq_one_iff_eq hk]

/-! ## List plumbing -/

theorem forall_zipWith {α β γ : Type} (f : α → β → γ) (P : γ → Prop) (l₁ : List α) (l₂ : List β) :
    (∀ x ∈ List.zipWith f l₁ l₂, P x) ↔ ∀ ab ∈ l₁.zip l₂, P (f ab.1 ab.2) := by
  induction l₁ generalizing l₂ with
  | nil => simp
  | cons a as ih =>
    cases l₂ with
    | nil => simp
    | cons b bs => simp [ih]

theorem zip_map_right_self {α β : Type} (f : α → β) (l : List α) (P : α → β → Prop) :
    (∀ ab ∈ l.zip (l.map f), P ab.1 ab.2) ↔ ∀ a ∈ l, P a (f a) := by
  induction l with
  | nil => simp
  | cons a as ih => simp only [List.map_cons, List.zip_cons_cons, List.forall_mem_cons, ih]

theorem zip_map_left {α β γ : Type} (f : α → γ) (l₁ : List α) (l₂ : List β) (P : γ → β → Prop) :
    (∀ ab ∈ (l₁.map f).zip l₂, P ab.1 ab.2) ↔ ∀ ab ∈ l₁.zip l₂, P (f ab.1) ab.2 := by
  induction l₁ generalizing l₂ with
  | nil => simp
  | cons a as ih =>
    cases l₂ with
    | nil => simp
    | cons b bs => simp only [List.map_cons, List.zip_cons_cons, List.forall_mem_cons, ih]

/-! ## `NumSysLin.f` over ℝ -/

/-- the constants `ks` that `_get_A_ks` pairs with the rows of `A` -/
noncomputable def ksOf (s : EqSystem) (prec : List Bool) (small : ℝ) (p : List ℝ) : List ℝ :=
  eqConstants (nonPrecipRids s prec) (eqParamsOf s p) small

/-- the composition matrix `B` -/
def compMat (s : EqSystem) : List (List ℤ) := (compositionBalanceVectors s).1

/-- everything `NumSysLin.f` computes on the way, when it does not raise -/
theorem numSysLinF_ok {s : EqSystem} {prec : List Bool} {small : ℝ} {y p r : List ℝ}
    (h : numSysLinF s prec small y p = .ok r) :
    ∃ A, stoichs s (nonPrecipRids s prec) = .ok A ∧ A.any (zeroDiv y) = false ∧ shapeOk s y p = true ∧
      r = List.zipWith equilResidual (A.map (prodPowRow y)) (ksOf s prec small p)
          ++ List.zipWith (fun row v => total row y - v) (compMat s)
              ((compMat s).map fun row => total row (initConcsOf s p)) := by
  unfold numSysLinF at h
  by_cases hshape : shapeOk s y p = true
  · simp only [hshape, Bool.not_true, Bool.false_eq_true, ↓reduceIte] at h
    cases hA : stoichs s (nonPrecipRids s prec) with
    | error e => simp [hA] at h
    | ok A =>
      simp only [hA] at h
      unfold prodPow at h
      by_cases hz : A.any (zeroDiv y) = true
      · simp [hz] at h
      · simp only [hz, Bool.false_eq_true, ↓reduceIte] at h
        cases hb : matDotVec (intMat (compositionBalanceVectors s).1) (initConcsOf s p) with
        | none => simp [hb] at h
        | some b =>
          simp only [hb, Except.ok.injEq] at h
          refine ⟨A, rfl, by simpa using hz, hshape, ?_⟩
          rw [← h, linearExprs_real, matDotVec_real hb]
          rfl
  · simp [hshape] at h

/-- zero pattern of the residual vector of `NumSysLin.f`, for ANY constants (zero included) -/
theorem lin_zero_iff_core (A B : List (List ℤ)) (ks y c0 : List ℝ) :
    (∀ x ∈ List.zipWith equilResidual (A.map (prodPowRow y)) ks
          ++ List.zipWith (fun row v => total row y - v) B (B.map fun row => total row c0), x = 0) ↔
      (∀ rk ∈ A.zip ks, quotient y rk.1 = rk.2) ∧ (∀ brow ∈ B, total brow y = total brow c0) := by
  rw [List.forall_mem_append, forall_zipWith, forall_zipWith,
    zip_map_left (prodPowRow y) A ks (fun q k => equilResidual q k = 0),
    zip_map_right_self (fun row => total row c0) B (fun row v => total row y - v = 0)]
  constructor
  · rintro ⟨h1, h2⟩
    refine ⟨fun rk hrk => ?_, fun brow hb => ?_⟩
    · have := h1 rk hrk
      rwa [equilResidual_eq_zero_iff, prodPowRow_real] at this
    · exact sub_eq_zero.mp (h2 brow hb)
  · rintro ⟨h1, h2⟩
    refine ⟨fun rk hrk => ?_, fun brow hb => ?_⟩
    · rw [equilResidual_eq_zero_iff, prodPowRow_real]
      exact h1 rk hrk
    · exact sub_eq_zero.mpr (h2 brow hb)

/-! ## Structure: stoichs, constants, homogeneous systems, lengths -/

/-- no species belongs to another phase (`phase_idx = 0` throughout): the quantifier of C07 -/
def Homogeneous (s : EqSystem) : Prop := ∀ kv ∈ s.substances, kv.2.phaseIdx = 0

theorem stoichsAux_nil (s : EqSystem) (i : ℕ) (rs : List Rxn) :
    stoichsAux s [] i rs = .ok (rs.map fun r => nonPrecipitateStoich r s.substances) := by
  induction rs generalizing i with
  | nil => rfl
  | cons r rs ih => simp [stoichsAux, stoichRow, ih]

/-- with no reaction switched to "no precipitate", `stoichs` is the non-precipitate stoichiometry -/
theorem stoichs_nil (s : EqSystem) :
    stoichs s [] = .ok (s.rxns.map fun r => nonPrecipitateStoich r s.substances) :=
  stoichsAux_nil s 0 s.rxns

theorem nonPrecipitateStoich_homog {s : EqSystem} (hs : Homogeneous s) (r : Rxn) :
    nonPrecipitateStoich r s.substances = netStoich r s.substances := by
  unfold nonPrecipitateStoich xprecipitateStoich netStoich
  apply List.map_congr_left
  intro kv hkv
  simp [hs kv hkv]

theorem lookup_mem {β : Type} (l : List (String × β)) (k : String) (b : β) (h : l.lookup k = some b) :
    ∃ k', (k', b) ∈ l := by
  induction l with
  | nil => simp at h
  | cons a as ih =>
    rw [List.lookup_cons] at h
    split at h
    · simp only [Option.some.injEq] at h
      exact ⟨a.1, by rw [← h]; exact List.mem_cons_self⟩
    · obtain ⟨k', hk'⟩ := ih h
      exact ⟨k', List.mem_cons_of_mem _ hk'⟩

theorem hasPrecipitates_homog {s : EqSystem} (hs : Homogeneous s) (r : Rxn) :
    hasPrecipitates r s.substances = false := by
  unfold hasPrecipitates
  rw [List.any_eq_false]
  intro k _
  split
  · rename_i sp hsp
    obtain ⟨k', hk'⟩ := lookup_mem _ _ _ hsp
    have := hs (k', sp) hk'
    simp at this
    simp [this]
  · simp

theorem phaseTransferAux_homog {s : EqSystem} (hs : Homogeneous s) (i : ℕ) (rs : List Rxn) :
    phaseTransferAux s.substances i rs = [] := by
  induction rs generalizing i with
  | nil => rfl
  | cons r rs ih => simp [phaseTransferAux, hasPrecipitates_homog hs, ih]

/-- a homogeneous system has no phase-transfer reaction, whatever `precipitates` is passed -/
theorem nonPrecipRids_homog {s : EqSystem} (hs : Homogeneous s) (prec : List Bool) :
    nonPrecipRids s prec = [] := by
  simp [nonPrecipRids, phaseTransferReactionIdxs, phaseTransferAux_homog hs]

theorem eqConstantsAux_nil (small : ℝ) (i : ℕ) (ks : List ℝ) : eqConstantsAux [] small i ks = ks := by
  induction ks generalizing i with
  | nil => rfl
  | cons k ks ih => simp [eqConstantsAux, ih]

theorem eqConstants_nil (small : ℝ) (ks : List ℝ) : eqConstants [] ks small = ks :=
  eqConstantsAux_nil small 0 ks

theorem stoichs_homog {s : EqSystem} (hs : Homogeneous s) (prec : List Bool) :
    stoichs s (nonPrecipRids s prec) = .ok (netStoichs s) := by
  rw [nonPrecipRids_homog hs, stoichs_nil, netStoichs]
  congr 1
  apply List.map_congr_left
  intro r _
  exact nonPrecipitateStoich_homog hs r

theorem ksOf_homog {s : EqSystem} (hs : Homogeneous s) (prec : List Bool) (small : ℝ) (p : List ℝ) :
    ksOf s prec small p = eqParamsOf s p := by
  rw [ksOf, nonPrecipRids_homog hs, eqConstants_nil]

theorem stoichsAux_length {s : EqSystem} {rids : List ℕ} {i : ℕ} {rs : List Rxn} {A : List (List ℤ)}
    (h : stoichsAux s rids i rs = .ok A) : A.length = rs.length := by
  induction rs generalizing i A with
  | nil => simp [stoichsAux] at h; simp [← h]
  | cons r rs ih =>
    unfold stoichsAux at h
    split at h
    · exact absurd h (by simp)
    · split at h
      · exact absurd h (by simp)
      · rename_i rows hrows
        simp only [Except.ok.injEq] at h
        rw [← h, List.length_cons, List.length_cons, ih hrows]

theorem stoichs_length {s : EqSystem} {rids : List ℕ} {A : List (List ℤ)} (h : stoichs s rids = .ok A) :
    A.length = s.nr := stoichsAux_length h

theorem eqConstantsAux_length (rids : List ℕ) (small : ℝ) (i : ℕ) (ks : List ℝ) :
    (eqConstantsAux rids small i ks).length = ks.length := by
  induction ks generalizing i with
  | nil => rfl
  | cons k ks ih => simp [eqConstantsAux, ih]

theorem ksOf_length {s : EqSystem} {y p : List ℝ} (hshape : shapeOk s y p = true) (prec : List Bool) (small : ℝ) :
    (ksOf s prec small p).length = s.nr := by
  unfold ksOf eqConstants
  rw [eqConstantsAux_length]
  simp only [shapeOk, Bool.and_eq_true, beq_iff_eq] at hshape
  simp [eqParamsOf, hshape.2]

theorem compMat_length (s : EqSystem) : (compMat s).length = (compositionBalanceVectors s).2.length := by
  simp [compMat, compositionBalanceVectors]

/-! ## `NumSysLog.f` over ℝ -/

theorem exp_int_mul (n : ℤ) (x : ℝ) : Real.exp ((n : ℝ) * x) = Real.exp x ^ n := by
  cases n with
  | ofNat m => simp [Real.exp_nat_mul]
  | negSucc m =>
    rw [Int.cast_negSucc, neg_mul, Real.exp_neg, zpow_negSucc, ← Real.exp_nat_mul]

/-- `exp(Σ νⱼ yⱼ) = ∏ exp(yⱼ)^νⱼ` -/
theorem exp_total (row : List ℤ) (y : List ℝ) :
    Real.exp (total row y) = quotient (y.map Real.exp) row := by
  induction row generalizing y with
  | nil => simp [total, quotient]
  | cons a as ih =>
    cases y with
    | nil => simp [total, quotient]
    | cons b bs =>
      have h1 : total (a :: as) (b :: bs) = (a : ℝ) * b + total as bs := by simp [total]
      have h2 : quotient ((b :: bs).map Real.exp) (a :: as) = Real.exp b ^ a * quotient (bs.map Real.exp) as := by
        simp [quotient]
      rw [h1, h2, Real.exp_add, exp_int_mul, ih]

theorem matDotVecTerm_real {A : List (List ℤ)} {y ts fe : List ℝ}
    (h : matDotVecTerm (intMat A) y ts = some fe) :
    fe = List.zipWith (fun row t => total row y + t) A ts := by
  induction A generalizing ts fe with
  | nil => simp [intMat, matDotVecTerm] at h; simp [← h]
  | cons row rest ih =>
    cases ts with
    | nil => simp [intMat, matDotVecTerm] at h; simp [← h]
    | cons t ts =>
      simp only [intMat, List.map_cons, matDotVecTerm] at h
      split at h
      · exact absurd h (by simp)
      · rename_i d hd
        split at h
        · exact absurd h (by simp)
        · rename_i ds hds
          simp only [Option.some.injEq] at h
          rw [← h, List.zipWith_cons_cons, vecDotVec_real hd, ih hds]

theorem numSysLogF_ok {s : EqSystem} {prec : List Bool} {small : ℝ} {y p r : List ℝ}
    (h : numSysLogF s prec small y p = .ok r) :
    ∃ A, stoichs s (nonPrecipRids s prec) = .ok A ∧ shapeOk s y p = true ∧
      r = List.zipWith (fun row t => total row y + t) A ((ksOf s prec small p).map fun k => -Real.log k)
          ++ List.zipWith (fun row v => total row (y.map Real.exp) - v) (compMat s)
              ((compMat s).map fun row => total row (initConcsOf s p)) := by
  unfold numSysLogF at h
  by_cases hshape : shapeOk s y p = true
  · simp only [hshape, Bool.not_true, Bool.false_eq_true, ↓reduceIte] at h
    cases hA : stoichs s (nonPrecipRids s prec) with
    | error e => simp [hA] at h
    | ok A =>
      simp only [hA] at h
      split at h
      · exact absurd h (by simp)
      · rename_i fe hfe
        cases hb : matDotVec (intMat (compositionBalanceVectors s).1) (initConcsOf s p) with
        | none => simp [hb] at h
        | some b =>
          simp only [hb, Except.ok.injEq] at h
          refine ⟨A, rfl, hshape, ?_⟩
          rw [← h, linearExprs_real, matDotVec_real hb, matDotVecTerm_real hfe]
          rfl
  · simp [hshape] at h

theorem zip_map_right {α β γ : Type} (f : β → γ) (l₁ : List α) (l₂ : List β) (P : α → γ → Prop) :
    (∀ ab ∈ l₁.zip (l₂.map f), P ab.1 ab.2) ↔ ∀ ab ∈ l₁.zip l₂, P ab.1 (f ab.2) := by
  induction l₁ generalizing l₂ with
  | nil => simp
  | cons a as ih =>
    cases l₂ with
    | nil => simp
    | cons b bs => simp only [List.map_cons, List.zip_cons_cons, List.forall_mem_cons, ih]

/-- one row of the logarithmic formulation: `Σ νⱼ yⱼ − ln k = 0 ⇔ ∏ exp(yⱼ)^νⱼ = k`, for `k > 0` -/
theorem log_row_zero_iff (row : List ℤ) (y : List ℝ) {k : ℝ} (hk : 0 < k) :
    total row y + -Real.log k = 0 ↔ quotient (y.map Real.exp) row = k := by
  rw [← exp_total]
  constructor
  · intro h
    have : total row y = Real.log k := by linarith
    rw [this, Real.exp_log hk]
  · intro h
    rw [← h, Real.log_exp]
    ring

theorem log_zero_iff_core (A B : List (List ℤ)) (ks y c0 : List ℝ) (hks : ∀ k ∈ ks, 0 < k) :
    (∀ x ∈ List.zipWith (fun row t => total row y + t) A (ks.map fun k => -Real.log k)
          ++ List.zipWith (fun row v => total row (y.map Real.exp) - v) B (B.map fun row => total row c0), x = 0) ↔
      (∀ rk ∈ A.zip ks, quotient (y.map Real.exp) rk.1 = rk.2) ∧
      (∀ brow ∈ B, total brow (y.map Real.exp) = total brow c0) := by
  rw [List.forall_mem_append, forall_zipWith, forall_zipWith,
    zip_map_right (fun k => -Real.log k) A ks (fun row t => total row y + t = 0),
    zip_map_right_self (fun row => total row c0) B (fun row v => total row (y.map Real.exp) - v = 0)]
  constructor
  · rintro ⟨h1, h2⟩
    refine ⟨fun rk hrk => ?_, fun brow hb => sub_eq_zero.mp (h2 brow hb)⟩
    exact (log_row_zero_iff rk.1 y (hks rk.2 (List.of_mem_zip hrk).2)).mp (h1 rk hrk)
  · rintro ⟨h1, h2⟩
    refine ⟨fun rk hrk => ?_, fun brow hb => sub_eq_zero.mpr (h2 brow hb)⟩
    exact (log_row_zero_iff rk.1 y (hks rk.2 (List.of_mem_zip hrk).2)).mpr (h1 rk hrk)

end ChemModel.EqSys
