/-
C01 helper lemmas, dictionary layer: per-key totals and key sets of `addKey` / `mergeComp` / `scale` /
`addScaled` / `setKey`, and the link between what the parser returns (`flat`, summed per level) and the
specification's occurrences (`occ`, never summed).
-/
import ChemModel.Proofs.FormulaParse

set_option linter.constructorNameAsVariable false

namespace ChemModel.Formula

/-! ### totals -/

theorem total_nil (k : Nat) : total [] k = 0 := rfl

theorem total_cons (p : Nat × Rat) (c : Comp) (k : Nat) :
    total (p :: c) k = (if p.1 = k then p.2 else 0) + total c k := by
  cases p; rfl

theorem total_append (a b : Comp) (k : Nat) : total (a ++ b) k = total a k + total b k := by
  induction a with
  | nil => simp only [List.nil_append, total]; grind
  | cons p ps ih => simp only [List.cons_append, total_cons, ih]; grind

theorem total_addKey (k' : Nat) (v : Rat) (c : Comp) (k : Nat) :
    total (addKey k' v c) k = total c k + (if k' = k then v else 0) := by
  induction c with
  | nil => simp only [addKey, total]; grind
  | cons p ps ih =>
    obtain ⟨a, b⟩ := p
    simp only [addKey]
    split
    · rename_i h; subst h
      simp only [total_cons]
      split <;> grind
    · simp only [total_cons, ih]; grind

theorem total_mergeInto (acc c : Comp) (k : Nat) :
    total (mergeInto acc c) k = total acc k + total c k := by
  induction c generalizing acc with
  | nil => simp only [mergeInto, List.foldl_nil, total]; grind
  | cons p ps ih =>
    have := ih (addKey p.1 p.2 acc)
    simp only [mergeInto, List.foldl_cons] at this ⊢
    rw [this, total_addKey, total_cons]; grind

theorem total_mergeComp (c : Comp) (k : Nat) : total (mergeComp c) k = total c k := by
  rw [mergeComp, total_mergeInto]; simp only [total]; grind

theorem total_scale (m : Rat) (c : Comp) (k : Nat) : total (scale m c) k = total c k * m := by
  induction c with
  | nil => simp [scale, total]
  | cons p ps ih =>
    simp only [scale, List.map_cons, total_cons] at ih ⊢
    rw [ih]; split <;> grind

theorem total_addScaled (m : Rat) (tot c : Comp) (k : Nat) :
    total (addScaled m tot c) k = total tot k + m * total c k := by
  induction c generalizing tot with
  | nil => simp only [addScaled, List.foldl_nil, total]; grind
  | cons p ps ih =>
    have := ih (addKey p.1 (m * p.2) tot)
    simp only [addScaled, List.foldl_cons] at this ⊢
    rw [this, total_addKey, total_cons]; split <;> grind

/-! ### key sets -/

theorem keys_cons (p : Nat × Rat) (c : Comp) : Comp.keys (p :: c) = p.1 :: Comp.keys c := rfl

theorem mem_keys_addKey (k' : Nat) (v : Rat) (c : Comp) (k : Nat) :
    k ∈ Comp.keys (addKey k' v c) ↔ k = k' ∨ k ∈ Comp.keys c := by
  induction c with
  | nil => simp [addKey, Comp.keys]
  | cons p ps ih =>
    simp only [addKey]
    split
    · rename_i h; simp only [keys_cons, List.mem_cons]; grind
    · simp only [keys_cons, List.mem_cons, ih]; grind

theorem nodup_addKey (k' : Nat) (v : Rat) (c : Comp) (h : (Comp.keys c).Nodup) :
    (Comp.keys (addKey k' v c)).Nodup := by
  induction c with
  | nil => simp [addKey, Comp.keys]
  | cons p ps ih =>
    simp only [keys_cons, List.nodup_cons] at h
    simp only [addKey]
    split
    · simp only [keys_cons, List.nodup_cons]; exact h
    · rename_i hne
      simp only [keys_cons, List.nodup_cons, mem_keys_addKey]
      exact ⟨by intro hc; rcases hc with hc | hc; exact hne hc; exact h.1 hc, ih h.2⟩

theorem mem_keys_mergeInto (acc c : Comp) (k : Nat) :
    k ∈ Comp.keys (mergeInto acc c) ↔ k ∈ Comp.keys acc ∨ k ∈ Comp.keys c := by
  induction c generalizing acc with
  | nil => simp [mergeInto, Comp.keys]
  | cons p ps ih =>
    have := ih (addKey p.1 p.2 acc)
    simp only [mergeInto, List.foldl_cons] at this ⊢
    rw [this, mem_keys_addKey, keys_cons, List.mem_cons]; grind

theorem nodup_mergeInto (acc c : Comp) (h : (Comp.keys acc).Nodup) : (Comp.keys (mergeInto acc c)).Nodup := by
  induction c generalizing acc with
  | nil => simpa [mergeInto] using h
  | cons p ps ih =>
    simp only [mergeInto, List.foldl_cons]
    exact ih _ (nodup_addKey _ _ _ h)

theorem mem_keys_mergeComp (c : Comp) (k : Nat) : k ∈ Comp.keys (mergeComp c) ↔ k ∈ Comp.keys c := by
  rw [mergeComp, mem_keys_mergeInto]; simp [Comp.keys]

theorem nodup_mergeComp (c : Comp) : (Comp.keys (mergeComp c)).Nodup :=
  nodup_mergeInto [] c (by simp [Comp.keys])

theorem keys_scale (m : Rat) (c : Comp) : Comp.keys (scale m c) = Comp.keys c := by
  simp [Comp.keys, scale, List.map_map, Function.comp_def]

theorem keys_append (a b : Comp) : Comp.keys (a ++ b) = Comp.keys a ++ Comp.keys b := by
  simp [Comp.keys]

theorem mem_keys_addScaled (m : Rat) (tot c : Comp) (k : Nat) :
    k ∈ Comp.keys (addScaled m tot c) ↔ k ∈ Comp.keys tot ∨ k ∈ Comp.keys c := by
  induction c generalizing tot with
  | nil => simp [addScaled, Comp.keys]
  | cons p ps ih =>
    have := ih (addKey p.1 (m * p.2) tot)
    simp only [addScaled, List.foldl_cons] at this ⊢
    rw [this, mem_keys_addKey, keys_cons, List.mem_cons]; grind

theorem nodup_addScaled (m : Rat) (tot c : Comp) (h : (Comp.keys tot).Nodup) :
    (Comp.keys (addScaled m tot c)).Nodup := by
  induction c generalizing tot with
  | nil => simpa [addScaled] using h
  | cons p ps ih =>
    simp only [addScaled, List.foldl_cons]
    exact ih _ (nodup_addKey _ _ _ h)

theorem setKey_not_mem (k0 : Nat) (v : Rat) (c : Comp) (h : k0 ∉ Comp.keys c) :
    setKey k0 v c = c ++ [(k0, v)] := by
  induction c with
  | nil => rfl
  | cons p ps ih =>
    simp only [keys_cons, List.mem_cons, not_or] at h
    simp only [setKey]
    rw [if_neg (fun e => h.1 e.symm), ih h.2]; rfl

/-! ### lookup -/

theorem get?_none (c : Comp) (k : Nat) (h : k ∉ Comp.keys c) : Comp.get? c k = none := by
  induction c with
  | nil => rfl
  | cons p ps ih =>
    obtain ⟨a, b⟩ := p
    simp only [keys_cons, List.mem_cons, not_or] at h
    simp only [Comp.get?]
    rw [if_neg (fun e => h.1 e.symm), ih h.2]

theorem total_not_mem (c : Comp) (k : Nat) (h : k ∉ Comp.keys c) : total c k = 0 := by
  induction c with
  | nil => rfl
  | cons p ps ih =>
    simp only [keys_cons, List.mem_cons, not_or] at h
    rw [total_cons, if_neg (fun e => h.1 e.symm), ih h.2]; grind

/-- in a dict (no duplicate keys) the entry of a present key is the total of that key -/
theorem get?_some (c : Comp) (k : Nat) (hn : (Comp.keys c).Nodup) (h : k ∈ Comp.keys c) :
    Comp.get? c k = some (total c k) := by
  induction c with
  | nil => simp [Comp.keys] at h
  | cons p ps ih =>
    obtain ⟨a, b⟩ := p
    simp only [keys_cons, List.nodup_cons] at hn
    simp only [Comp.get?, total_cons]
    by_cases e : a = k
    · subst e
      rw [if_pos rfl, if_pos rfl, total_not_mem ps a hn.1]; grind
    · simp only [keys_cons, List.mem_cons] at h
      rw [if_neg e, if_neg e, ih hn.2 (by rcases h with h | h; exact absurd h.symm e; exact h)]; grind

/-! ### parser values vs. specification occurrences -/

mutual
theorem Term.keys_occ : ∀ (t : Term) (m : Rat), Comp.keys (t.occ m) = Comp.keys (t.occ 1)
  | .elem z n st marks, m => by simp [Term.occ, Comp.keys]
  | .group b body n st marks, m => by
    simp only [Term.occ]
    rw [Terms.keys_occ body (m * n.val), Terms.keys_occ body (1 * n.val)]
  | .cage body, m => by simp only [Term.occ]; exact Terms.keys_occ body m
theorem Terms.keys_occ : ∀ (ts : Terms) (m : Rat), Comp.keys (ts.occ m) = Comp.keys (ts.occ 1)
  | .nil, m => rfl
  | .cons t ts, m => by
    simp only [Terms.occ, keys_append]
    rw [Term.keys_occ t m, Terms.keys_occ ts m]
end

mutual
theorem Term.total_occ : ∀ (t : Term) (m : Rat) (k : Nat), total (t.occ m) k = m * total (t.occ 1) k
  | .elem z n st marks, m, k => by
    simp only [Term.occ, total_cons, total_nil]; split <;> grind
  | .group b body n st marks, m, k => by
    simp only [Term.occ]
    rw [Terms.total_occ body (m * n.val), Terms.total_occ body (1 * n.val)]; grind
  | .cage body, m, k => by simp only [Term.occ]; exact Terms.total_occ body m k
theorem Terms.total_occ : ∀ (ts : Terms) (m : Rat) (k : Nat), total (ts.occ m) k = m * total (ts.occ 1) k
  | .nil, m, k => by simp [Terms.occ, total]
  | .cons t ts, m, k => by
    simp only [Terms.occ, total_append]
    rw [Term.total_occ t m, Terms.total_occ ts m]; grind
end

mutual
theorem Term.total_flat : ∀ (t : Term) (k : Nat), total t.flat k = total (t.occ 1) k
  | .elem z n st marks, k => by simp only [Term.flat, Term.occ, total_cons]; grind
  | .group b body n st marks, k => by
    simp only [Term.flat, Term.occ, total_scale, total_mergeComp]
    rw [Terms.total_flat body k, Terms.total_occ body (1 * n.val)]; grind
  | .cage body, k => by
    simp only [Term.flat, Term.occ, total_scale, total_mergeComp]
    rw [Terms.total_flat body k]; grind
theorem Terms.total_flat : ∀ (ts : Terms) (k : Nat), total ts.flat k = total (ts.occ 1) k
  | .nil, k => rfl
  | .cons t ts, k => by
    simp only [Terms.flat, Terms.occ, total_append]
    rw [Term.total_flat t k, Terms.total_flat ts k]
end

mutual
theorem Term.mem_keys_flat : ∀ (t : Term) (k : Nat), k ∈ Comp.keys t.flat ↔ k ∈ Comp.keys (t.occ 1)
  | .elem z n st marks, k => by simp [Term.flat, Term.occ, Comp.keys]
  | .group b body n st marks, k => by
    simp only [Term.flat, Term.occ, keys_scale, mem_keys_mergeComp]
    rw [Terms.keys_occ body (1 * n.val)]
    exact Terms.mem_keys_flat body k
  | .cage body, k => by
    simp only [Term.flat, Term.occ, keys_scale, mem_keys_mergeComp]
    exact Terms.mem_keys_flat body k
theorem Terms.mem_keys_flat : ∀ (ts : Terms) (k : Nat), k ∈ Comp.keys ts.flat ↔ k ∈ Comp.keys (ts.occ 1)
  | .nil, k => by simp [Terms.flat, Terms.occ]
  | .cons t ts, k => by
    simp only [Terms.flat, Terms.occ, keys_append, List.mem_append]
    rw [Term.mem_keys_flat t k, Terms.mem_keys_flat ts k]
end

mutual
/-- element keys of a well-formed term are atomic numbers 1..118 (never the charge key 0) -/
theorem Term.keys_pos : ∀ (t : Term), t.wf = true → ∀ k ∈ Comp.keys (t.occ 1), 1 ≤ k ∧ k ≤ 118
  | .elem z n st marks, h, k, hk => by
    obtain ⟨h1, h2, _, _⟩ := Term.wf_elem h
    simp [Term.occ, Comp.keys] at hk; subst hk; exact ⟨h1, h2⟩
  | .group b body n st marks, h, k, hk => by
    simp only [Term.occ] at hk
    rw [Terms.keys_occ body (1 * n.val)] at hk
    exact Terms.keys_pos body (Term.wf_group h).1 k hk
  | .cage body, h, k, hk => by
    simp only [Term.occ] at hk
    exact Terms.keys_pos body (Term.wf_cage h).1 k hk
theorem Terms.keys_pos : ∀ (ts : Terms), ts.wf = true → ∀ k ∈ Comp.keys (ts.occ 1), 1 ≤ k ∧ k ≤ 118
  | .nil, _, k, hk => by simp [Terms.occ, Comp.keys] at hk
  | .cons t ts, h, k, hk => by
    simp only [Terms.occ, keys_append, List.mem_append] at hk
    rcases hk with hk | hk
    · exact Term.keys_pos t (Terms.wf_cons h).1 k hk
    · exact Terms.keys_pos ts (Terms.wf_cons h).2.1 k hk
end

end ChemModel.Formula
