/-
Helper lemmas and specification-level definitions for C15 (structural queries of a reaction system).
-/
import Mathlib.Tactic.Linarith
import Mathlib.Tactic.Tauto
import Mathlib.Algebra.Order.Field.Basic
import Mathlib.Algebra.Order.Field.Rat
import ChemModel.Model.RSysGraph

namespace ChemModel.RSysGraph

/-! ### net stoichiometry -/

theorem Rxn.net_eq (r : Rxn) (k : String) : r.net k = (r.allProd k : Int) - (r.allReac k : Int) := by
  simp only [Rxn.net, Rxn.allProd, Rxn.allReac]; omega

/-! ### constructor on an OrderedDict -/

theorem make_odict_ok {rxns : List Rxn} {od : ODict} {checks : List Check} {s : RSys}
    (h : RSys.make rxns (.odict od) checks = .ok s) :
    s = ⟨rxns, od⟩ ∧ firstFailing ⟨rxns, od⟩ checks = none := by
  simp only [RSys.make, substancesOf] at h
  split at h
  · simp at h
  · rename_i hff
    simp only [Bool.false_eq_true, ↓reduceIte, Except.ok.injEq] at h
    exact ⟨h.symm, hff⟩

theorem make_odict_nochecks (rxns : List Rxn) (od : ODict) :
    RSys.make rxns (.odict od) [] = .ok ⟨rxns, od⟩ := by
  simp [RSys.make, substancesOf, firstFailing]

theorem firstFailing_none {s : RSys} {checks : List Check} (h : firstFailing s checks = none) :
    ∀ c ∈ checks, runCheck s c = true := by
  induction checks with
  | nil => simp
  | cons c t ih =>
    simp only [firstFailing] at h
    split at h
    · rename_i hc
      intro c' hc'
      rcases List.mem_cons.mp hc' with rfl | h'
      · exact hc
      · exact ih h c' h'
    · simp at h

/-! ### categorize -/

def anyR (rxns : List Rxn) (k : String) : Bool :=
  rxns.any fun r => decide ((r.allProd k : Int) - (r.allReac k : Int) < 0)
def anyP (rxns : List Rxn) (k : String) : Bool :=
  rxns.any fun r => decide ((r.allProd k : Int) - (r.allReac k : Int) > 0)
def anyU (rxns : List Rxn) (k : String) : Bool :=
  rxns.any fun r => decide (r.allProd k > 0)

theorem categoryOf_bool (rxns : List Rxn) (k : String) :
    categoryOf rxns k =
      if anyR rxns k && anyP rxns k then .both
      else if anyR rxns k then .depleted
      else if anyP rxns k then .accumulated
      else if anyU rxns k then .unaffected
      else .nonparticipating := rfl

theorem anyR_iff (rxns : List Rxn) (k : String) : anyR rxns k = true ↔ ∃ r ∈ rxns, r.net k < 0 := by
  simp only [anyR, List.any_eq_true, decide_eq_true_eq, Rxn.net_eq]

theorem anyP_iff (rxns : List Rxn) (k : String) : anyP rxns k = true ↔ ∃ r ∈ rxns, 0 < r.net k := by
  simp only [anyP, List.any_eq_true, decide_eq_true_eq, Rxn.net_eq, gt_iff_lt]

theorem anyU_iff (rxns : List Rxn) (k : String) : anyU rxns k = true ↔ ∃ r ∈ rxns, 0 < r.allProd k := by
  simp only [anyU, List.any_eq_true, decide_eq_true_eq, gt_iff_lt]

theorem anyR_false_iff (rxns : List Rxn) (k : String) : anyR rxns k = false ↔ ∀ r ∈ rxns, 0 ≤ r.net k := by
  rw [← Bool.not_eq_true, anyR_iff]
  constructor
  · intro h r hr; by_contra hn; exact h ⟨r, hr, by omega⟩
  · rintro h ⟨r, hr, hlt⟩; have := h r hr; omega

theorem anyP_false_iff (rxns : List Rxn) (k : String) : anyP rxns k = false ↔ ∀ r ∈ rxns, r.net k ≤ 0 := by
  rw [← Bool.not_eq_true, anyP_iff]
  constructor
  · intro h r hr; by_contra hn; exact h ⟨r, hr, by omega⟩
  · rintro h ⟨r, hr, hlt⟩; have := h r hr; omega

theorem anyU_false_iff (rxns : List Rxn) (k : String) : anyU rxns k = false ↔ ∀ r ∈ rxns, r.allProd k = 0 := by
  rw [← Bool.not_eq_true, anyU_iff]
  constructor
  · intro h r hr; by_contra hn; exact h ⟨r, hr, by omega⟩
  · rintro h ⟨r, hr, hlt⟩; have := h r hr; omega

theorem categoryOf_accumulated (rxns : List Rxn) (k : String) :
    categoryOf rxns k = .accumulated ↔ (∃ r ∈ rxns, 0 < r.net k) ∧ ∀ r ∈ rxns, 0 ≤ r.net k := by
  rw [categoryOf_bool, ← anyP_iff, ← anyR_false_iff]
  cases anyR rxns k <;> cases anyP rxns k <;> cases anyU rxns k <;> simp

theorem categoryOf_depleted (rxns : List Rxn) (k : String) :
    categoryOf rxns k = .depleted ↔ (∃ r ∈ rxns, r.net k < 0) ∧ ∀ r ∈ rxns, r.net k ≤ 0 := by
  rw [categoryOf_bool, ← anyR_iff, ← anyP_false_iff]
  cases anyR rxns k <;> cases anyP rxns k <;> cases anyU rxns k <;> simp

theorem categoryOf_both (rxns : List Rxn) (k : String) :
    categoryOf rxns k = .both ↔ (∃ r ∈ rxns, r.net k < 0) ∧ ∃ r ∈ rxns, 0 < r.net k := by
  rw [categoryOf_bool, ← anyR_iff, ← anyP_iff]
  cases anyR rxns k <;> cases anyP rxns k <;> cases anyU rxns k <;> simp

theorem net_zero_iff (rxns : List Rxn) (k : String) :
    (∀ r ∈ rxns, r.net k = 0) ↔ anyR rxns k = false ∧ anyP rxns k = false := by
  rw [anyR_false_iff, anyP_false_iff]
  constructor
  · intro h; exact ⟨fun r hr => by have := h r hr; omega, fun r hr => by have := h r hr; omega⟩
  · rintro ⟨h1, h2⟩ r hr; have := h1 r hr; have := h2 r hr; omega

theorem categoryOf_unaffected (rxns : List Rxn) (k : String) :
    categoryOf rxns k = .unaffected ↔ (∀ r ∈ rxns, r.net k = 0) ∧ ∃ r ∈ rxns, 0 < r.allProd k := by
  rw [categoryOf_bool, net_zero_iff, ← anyU_iff]
  cases anyR rxns k <;> cases anyP rxns k <;> cases anyU rxns k <;> simp

theorem absent_iff (rxns : List Rxn) (k : String) :
    (∀ r ∈ rxns, r.allReac k = 0 ∧ r.allProd k = 0) ↔ anyR rxns k = false ∧ anyP rxns k = false ∧ anyU rxns k = false := by
  rw [← and_assoc, ← net_zero_iff, anyU_false_iff]
  constructor
  · intro h
    exact ⟨fun r hr => by have := h r hr; rw [Rxn.net_eq]; omega, fun r hr => (h r hr).2⟩
  · rintro ⟨h1, h2⟩ r hr
    have a := h1 r hr; have b := h2 r hr; rw [Rxn.net_eq] at a
    omega

theorem categoryOf_nonparticipating (rxns : List Rxn) (k : String) :
    categoryOf rxns k = .nonparticipating ↔ ∀ r ∈ rxns, r.allReac k = 0 ∧ r.allProd k = 0 := by
  rw [categoryOf_bool, absent_iff]
  cases anyR rxns k <;> cases anyP rxns k <;> cases anyU rxns k <;> simp

theorem categorize_ok {s : RSys} {checks : List Check} {c : Categories} (h : categorize s checks = .ok c) :
    c.accumulated = s.keys.filter (fun k => categoryOf s.rxns k = .accumulated) ∧
    c.depleted = s.keys.filter (fun k => categoryOf s.rxns k = .depleted) ∧
    c.unaffected = s.keys.filter (fun k => categoryOf s.rxns k = .unaffected) ∧
    c.nonparticipating = s.keys.filter (fun k => categoryOf s.rxns k = .nonparticipating) ∧
    (s.rxns ≠ [] ∨ s.keys = []) ∧ ∀ ch ∈ checks, runCheck s ch = true := by
  simp only [categorize] at h
  split at h
  · simp at h
  · rename_i irr hmk
    obtain ⟨rfl, hff⟩ := make_odict_ok hmk
    split at h
    · simp at h
    · rename_i hne
      simp only [Except.ok.injEq] at h
      subst h
      refine ⟨rfl, rfl, rfl, rfl, ?_, firstFailing_none hff⟩
      simp only [Bool.and_eq_true, List.isEmpty_iff, Bool.not_eq_eq_eq_not, Bool.not_true, not_and,
        Bool.not_eq_false] at hne
      by_cases hr : s.rxns = []
      · right; simpa [RSys.keys] using hne hr
      · left; exact hr

/-! ### Stoich.get and keys -/

theorem lookup_isSome_of_mem {l : Stoich} {k : String} (h : k ∈ l.map (·.1)) : (l.lookup k).isSome := by
  induction l with
  | nil => simp at h
  | cons a t ih =>
    obtain ⟨a1, a2⟩ := a
    simp only [List.map_cons, List.mem_cons] at h
    simp only [List.lookup_cons]
    by_cases hk : k == a1
    · simp [hk]
    · simp only [hk]
      rcases h with rfl | h
      · simp at hk
      · exact ih h

theorem Stoich.get_eq_zero_of_not_mem {l : Stoich} {k : String} (h : k ∉ l.map (·.1)) : l.get k = 0 := by
  induction l with
  | nil => rfl
  | cons a t ih =>
    obtain ⟨a1, a2⟩ := a
    simp only [List.map_cons, List.mem_cons, not_or] at h
    have hk : (k == a1) = false := by simpa using h.1
    simp only [Stoich.get, List.lookup_cons, hk]
    exact ih h.2

/-- a positive coefficient somewhere implies being a key -/
theorem Stoich.mem_of_get_pos {l : Stoich} {k : String} (h : 0 < l.get k) : k ∈ l.map (·.1) := by
  by_contra hn
  rw [Stoich.get_eq_zero_of_not_mem hn] at h
  omega

/-- when every listed coefficient is positive, being a key means a positive coefficient -/
theorem Stoich.get_pos_of_mem {l : Stoich} {k : String} (hpos : ∀ kv ∈ l, 0 < kv.2)
    (h : k ∈ l.map (·.1)) : 0 < l.get k := by
  induction l with
  | nil => simp at h
  | cons a t ih =>
    obtain ⟨a1, a2⟩ := a
    simp only [Stoich.get, List.lookup_cons]
    by_cases hk : k == a1
    · simp only [hk]
      exact hpos (a1, a2) (by simp)
    · simp only [hk]
      simp only [List.map_cons, List.mem_cons] at h
      rcases h with rfl | h
      · simp at hk
      · exact ih (fun kv hkv => hpos kv (by simp [hkv])) h

/-- every coefficient written in the reaction is positive (no `{'A': 0}` entries) -/
def Rxn.positive (r : Rxn) : Prop :=
  (∀ kv ∈ r.reac, 0 < kv.2) ∧ (∀ kv ∈ r.prod, 0 < kv.2) ∧ (∀ kv ∈ r.inactReac, 0 < kv.2) ∧ (∀ kv ∈ r.inactProd, 0 < kv.2)

theorem Rxn.mem_keys_iff (r : Rxn) (k : String) :
    k ∈ r.keys ↔ k ∈ r.reac.map (·.1) ∨ k ∈ r.prod.map (·.1) ∨ k ∈ r.inactReac.map (·.1) ∨ k ∈ r.inactProd.map (·.1) := by
  simp only [Rxn.keys, List.mem_append]; tauto

theorem Rxn.mem_keys_of_pos {r : Rxn} {k : String} (h : 0 < r.allReac k ∨ 0 < r.allProd k) : k ∈ r.keys := by
  rw [Rxn.mem_keys_iff]
  simp only [Rxn.allReac, Rxn.allProd] at h
  rcases h with h | h
  · by_cases h1 : 0 < r.reac.get k
    · exact Or.inl (Stoich.mem_of_get_pos h1)
    · exact Or.inr (Or.inr (Or.inl (Stoich.mem_of_get_pos (by omega))))
  · by_cases h1 : 0 < r.prod.get k
    · exact Or.inr (Or.inl (Stoich.mem_of_get_pos h1))
    · exact Or.inr (Or.inr (Or.inr (Stoich.mem_of_get_pos (by omega))))

theorem Rxn.pos_of_mem_keys {r : Rxn} {k : String} (hp : r.positive) (h : k ∈ r.keys) :
    0 < r.allReac k ∨ 0 < r.allProd k := by
  rw [Rxn.mem_keys_iff] at h
  obtain ⟨h1, h2, h3, h4⟩ := hp
  simp only [Rxn.allReac, Rxn.allProd]
  rcases h with h | h | h | h
  · left; have := Stoich.get_pos_of_mem h1 h; omega
  · right; have := Stoich.get_pos_of_mem h2 h; omega
  · left; have := Stoich.get_pos_of_mem h3 h; omega
  · right; have := Stoich.get_pos_of_mem h4 h; omega

/-! ### identify_equilibria -/

theorem firstReverse_spec (keys : List String) (r1 : Rxn) (i : Nat) (l : List Rxn) (j : Nat) :
    firstReverse keys r1 i l = some j ↔
      ∃ d r2, j = i + d ∧ l[d]? = some r2 ∧ isReverse keys r1 r2 = true ∧
        ∀ d' r', d' < d → l[d']? = some r' → isReverse keys r1 r' = false := by
  induction l generalizing i with
  | nil => simp [firstReverse]
  | cons a t ih =>
    simp only [firstReverse]
    split
    · rename_i ha
      constructor
      · intro h
        simp only [Option.some.injEq] at h
        exact ⟨0, a, by omega, by simp, ha, by intro d' r' hd; omega⟩
      · rintro ⟨d, r2, hj, hd, hrev, hmin⟩
        cases d with
        | zero => simp only [Option.some.injEq]; omega
        | succ d =>
          have := hmin 0 a (by omega) (by simp)
          rw [ha] at this; simp at this
    · rename_i ha
      rw [ih]
      constructor
      · rintro ⟨d, r2, hj, hd, hrev, hmin⟩
        refine ⟨d + 1, r2, by omega, by simpa using hd, hrev, ?_⟩
        intro d' r' hd' hl
        cases d' with
        | zero => simp only [List.getElem?_cons_zero, Option.some.injEq] at hl; subst hl; simpa using ha
        | succ d' => exact hmin d' r' (by omega) (by simpa using hl)
      · rintro ⟨d, r2, hj, hd, hrev, hmin⟩
        cases d with
        | zero =>
          simp only [List.getElem?_cons_zero, Option.some.injEq] at hd; subst hd
          rw [hrev] at ha; simp at ha
        | succ d =>
          refine ⟨d, r2, by omega, by simpa using hd, hrev, ?_⟩
          intro d' r' hd' hl
          exact hmin (d' + 1) r' (by omega) (by simpa using hl)

theorem identEqFrom_spec (keys : List String) (i : Nat) (l : List Rxn) (a b : Nat) :
    (a, b) ∈ identEqFrom keys i l ↔
      ∃ r1, i ≤ a ∧ l[a - i]? = some r1 ∧ firstReverse keys r1 (a + 1) (l.drop (a - i + 1)) = some b := by
  induction l generalizing i with
  | nil => simp [identEqFrom]
  | cons x t ih =>
    have key : ∀ (rest : List (Nat × Nat)), ((a, b) ∈ rest ↔
        ∃ r1, i + 1 ≤ a ∧ t[a - (i + 1)]? = some r1 ∧ firstReverse keys r1 (a + 1) (t.drop (a - (i + 1) + 1)) = some b) →
        (((a, b) ∈ rest ∨ (a = i ∧ firstReverse keys x (i + 1) t = some b)) ↔
        ∃ r1, i ≤ a ∧ (x :: t)[a - i]? = some r1 ∧ firstReverse keys r1 (a + 1) ((x :: t).drop (a - i + 1)) = some b) := by
      intro rest hrest
      constructor
      · rintro (h | ⟨rfl, h⟩)
        · obtain ⟨r1, hia, hget, hfr⟩ := hrest.mp h
          have e : a - i = (a - (i + 1)) + 1 := by omega
          refine ⟨r1, by omega, ?_, ?_⟩
          · rw [e]; simpa using hget
          · rw [e]; simpa using hfr
        · exact ⟨x, by omega, by simp, by simpa using h⟩
      · rintro ⟨r1, hia, hget, hfr⟩
        by_cases hai : a = i
        · subst hai
          right
          simp only [Nat.sub_self, List.getElem?_cons_zero, Option.some.injEq] at hget
          subst hget
          exact ⟨rfl, by simpa using hfr⟩
        · left
          have e : a - i = (a - (i + 1)) + 1 := by omega
          rw [e] at hget hfr
          exact hrest.mpr ⟨r1, by omega, by simpa using hget, by simpa using hfr⟩
    simp only [identEqFrom]
    split
    · rename_i j hj
      rw [List.mem_cons, ← key _ (ih (i + 1))]
      constructor
      · rintro (h | h)
        · simp only [Prod.mk.injEq] at h; right; exact ⟨h.1, by rw [hj, h.2]⟩
        · left; exact h
      · rintro (h | ⟨h1, h2⟩)
        · right; exact h
        · left; rw [hj] at h2; simp only [Option.some.injEq] at h2; simp [h1, h2]
    · rename_i hj
      rw [← key _ (ih (i + 1))]
      constructor
      · intro h; left; exact h
      · rintro (h | ⟨_, h2⟩)
        · exact h
        · rw [hj] at h2; simp at h2

/-! ### participation / effect -/

theorem participationFrom_spec (k : String) (i : Nat) (l : List Rxn) (a : Nat) :
    a ∈ participationFrom k i l ↔ ∃ r, i ≤ a ∧ l[a - i]? = some r ∧ k ∈ r.keys := by
  induction l generalizing i with
  | nil => simp [participationFrom]
  | cons x t ih =>
    have shift : (∃ r, i + 1 ≤ a ∧ t[a - (i + 1)]? = some r ∧ k ∈ r.keys) ∨ (a = i ∧ k ∈ x.keys) ↔
        ∃ r, i ≤ a ∧ (x :: t)[a - i]? = some r ∧ k ∈ r.keys := by
      constructor
      · rintro (⟨r, h1, h2, h3⟩ | ⟨rfl, h⟩)
        · have e : a - i = (a - (i + 1)) + 1 := by omega
          exact ⟨r, by omega, by rw [e]; simpa using h2, h3⟩
        · exact ⟨x, by omega, by simp, h⟩
      · rintro ⟨r, h1, h2, h3⟩
        by_cases hai : a = i
        · subst hai; right
          simp only [Nat.sub_self, List.getElem?_cons_zero, Option.some.injEq] at h2
          subst h2; exact ⟨rfl, h3⟩
        · left
          have e : a - i = (a - (i + 1)) + 1 := by omega
          rw [e] at h2
          exact ⟨r, by omega, by simpa using h2, h3⟩
    simp only [participationFrom]
    split
    · rename_i hx
      rw [List.mem_cons, ih, ← shift]
      have hx' : k ∈ x.keys := by simpa using hx
      constructor
      · rintro (h | h)
        · right; exact ⟨h, hx'⟩
        · left; exact h
      · rintro (h | ⟨h, _⟩)
        · right; exact h
        · left; exact h
    · rename_i hx
      rw [ih, ← shift]
      have hx' : k ∉ x.keys := by simpa using hx
      constructor
      · intro h; left; exact h
      · rintro (h | ⟨_, h⟩)
        · exact h
        · exact absurd h hx'

theorem participationFrom_sorted (k : String) (i : Nat) (l : List Rxn) :
    (participationFrom k i l).Pairwise (· < ·) ∧ ∀ a ∈ participationFrom k i l, i ≤ a := by
  induction l generalizing i with
  | nil => simp [participationFrom]
  | cons x t ih =>
    obtain ⟨h1, h2⟩ := ih (i + 1)
    simp only [participationFrom]
    split
    · refine ⟨List.pairwise_cons.mpr ⟨fun a ha => by have := h2 a ha; omega, h1⟩, ?_⟩
      intro a ha
      rcases List.mem_cons.mp ha with rfl | ha
      · omega
      · have := h2 a ha; omega
    · exact ⟨h1, fun a ha => by have := h2 a ha; omega⟩

theorem effectFrom_spec (k : String) (i : Nat) (l : List Rxn) (a : Nat) (n : Int) :
    (a, n) ∈ effectFrom k i l ↔ ∃ r, i ≤ a ∧ l[a - i]? = some r ∧ n = r.net k ∧ n ≠ 0 := by
  induction l generalizing i with
  | nil => simp [effectFrom]
  | cons x t ih =>
    have shift : (∃ r, i + 1 ≤ a ∧ t[a - (i + 1)]? = some r ∧ n = r.net k ∧ n ≠ 0) ∨ (a = i ∧ n = x.net k ∧ n ≠ 0) ↔
        ∃ r, i ≤ a ∧ (x :: t)[a - i]? = some r ∧ n = r.net k ∧ n ≠ 0 := by
      constructor
      · rintro (⟨r, h1, h2, h3⟩ | ⟨rfl, h⟩)
        · have e : a - i = (a - (i + 1)) + 1 := by omega
          exact ⟨r, by omega, by rw [e]; simpa using h2, h3⟩
        · exact ⟨x, by omega, by simp, h⟩
      · rintro ⟨r, h1, h2, h3⟩
        by_cases hai : a = i
        · subst hai; right
          simp only [Nat.sub_self, List.getElem?_cons_zero, Option.some.injEq] at h2
          subst h2; exact ⟨rfl, h3⟩
        · left
          have e : a - i = (a - (i + 1)) + 1 := by omega
          rw [e] at h2
          exact ⟨r, by omega, by simpa using h2, h3⟩
    simp only [effectFrom]
    split
    · rename_i hx
      rw [List.mem_cons, ih, ← shift]
      constructor
      · rintro (h | h)
        · simp only [Prod.mk.injEq] at h; right; exact ⟨h.1, h.2, by rw [h.2]; exact hx⟩
        · left; exact h
      · rintro (h | ⟨h1, h2, _⟩)
        · right; exact h
        · left; simp [h1, h2]
    · rename_i hx
      rw [ih, ← shift]
      constructor
      · intro h; left; exact h
      · rintro (h | ⟨_, h2, h3⟩)
        · exact h
        · rw [h2] at h3; exact absurd h3 hx

theorem effectFrom_sorted (k : String) (i : Nat) (l : List Rxn) :
    ((effectFrom k i l).map (·.1)).Pairwise (· < ·) ∧ ∀ a ∈ (effectFrom k i l).map (·.1), i ≤ a := by
  induction l generalizing i with
  | nil => simp [effectFrom]
  | cons x t ih =>
    obtain ⟨h1, h2⟩ := ih (i + 1)
    simp only [effectFrom]
    split
    · simp only [List.map_cons]
      refine ⟨List.pairwise_cons.mpr ⟨fun a ha => by have := h2 a ha; omega, h1⟩, ?_⟩
      intro a ha
      rcases List.mem_cons.mp ha with rfl | ha
      · omega
      · have := h2 a ha; omega
    · exact ⟨h1, fun a ha => by have := h2 a ha; omega⟩

end ChemModel.RSysGraph
