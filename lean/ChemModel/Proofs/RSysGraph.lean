/-
Helper lemmas and specification-level definitions for C15 (structural queries of a reaction system).
-/
import Mathlib.Tactic.Linarith
import Mathlib.Tactic.Tauto
import Mathlib.Tactic.Ring
import Mathlib.Algebra.Order.Field.Basic
import Mathlib.Algebra.Order.Field.Rat
import ChemModel.Model.RSysGraph

namespace ChemModel.RSysGraph

/-! ### net stoichiometry -/

theorem Rxn.net_eq (r : Rxn) (k : String) : r.net k = (r.allProd k : Int) - (r.allReac k : Int) := by
  simp only [Rxn.net, Rxn.allProd, Rxn.allReac]; omega

/-! ### constructor on an OrderedDict -/

theorem make_odict_ok {rxns : List Rxn} {od : ODict} {checks : List Check} {s : RSys}
    (h : RSys.make rxns (.odict od) checks = .ok s) :
    s = ⟨rxns, od⟩ ∧ firstFailing ⟨rxns, od⟩ checks = none := by
  simp only [RSys.make, substancesOf] at h
  split at h
  · simp at h
  · rename_i hff
    simp only [Bool.false_eq_true, ↓reduceIte, Except.ok.injEq] at h
    exact ⟨h.symm, hff⟩

theorem make_odict_nochecks (rxns : List Rxn) (od : ODict) :
    RSys.make rxns (.odict od) [] = .ok ⟨rxns, od⟩ := by
  simp [RSys.make, substancesOf, firstFailing]

theorem firstFailing_none {s : RSys} {checks : List Check} (h : firstFailing s checks = none) :
    ∀ c ∈ checks, runCheck s c = true := by
  induction checks with
  | nil => simp
  | cons c t ih =>
    simp only [firstFailing] at h
    split at h
    · rename_i hc
      intro c' hc'
      rcases List.mem_cons.mp hc' with rfl | h'
      · exact hc
      · exact ih h c' h'
    · simp at h

/-! ### categorize -/

def anyR (rxns : List Rxn) (k : String) : Bool :=
  rxns.any fun r => decide ((r.allProd k : Int) - (r.allReac k : Int) < 0)
def anyP (rxns : List Rxn) (k : String) : Bool :=
  rxns.any fun r => decide ((r.allProd k : Int) - (r.allReac k : Int) > 0)
def anyU (rxns : List Rxn) (k : String) : Bool :=
  rxns.any fun r => decide (r.allProd k > 0)

theorem categoryOf_bool (rxns : List Rxn) (k : String) :
    categoryOf rxns k =
      if anyR rxns k && anyP rxns k then .both
      else if anyR rxns k then .depleted
      else if anyP rxns k then .accumulated
      else if anyU rxns k then .unaffected
      else .nonparticipating := rfl

theorem anyR_iff (rxns : List Rxn) (k : String) : anyR rxns k = true ↔ ∃ r ∈ rxns, r.net k < 0 := by
  simp only [anyR, List.any_eq_true, decide_eq_true_eq, Rxn.net_eq]

theorem anyP_iff (rxns : List Rxn) (k : String) : anyP rxns k = true ↔ ∃ r ∈ rxns, 0 < r.net k := by
  simp only [anyP, List.any_eq_true, decide_eq_true_eq, Rxn.net_eq, gt_iff_lt]

theorem anyU_iff (rxns : List Rxn) (k : String) : anyU rxns k = true ↔ ∃ r ∈ rxns, 0 < r.allProd k := by
  simp only [anyU, List.any_eq_true, decide_eq_true_eq, gt_iff_lt]

theorem anyR_false_iff (rxns : List Rxn) (k : String) : anyR rxns k = false ↔ ∀ r ∈ rxns, 0 ≤ r.net k := by
  rw [← Bool.not_eq_true, anyR_iff]
  constructor
  · intro h r hr; by_contra hn; exact h ⟨r, hr, by omega⟩
  · rintro h ⟨r, hr, hlt⟩; have := h r hr; omega

theorem anyP_false_iff (rxns : List Rxn) (k : String) : anyP rxns k = false ↔ ∀ r ∈ rxns, r.net k ≤ 0 := by
  rw [← Bool.not_eq_true, anyP_iff]
  constructor
  · intro h r hr; by_contra hn; exact h ⟨r, hr, by omega⟩
  · rintro h ⟨r, hr, hlt⟩; have := h r hr; omega

theorem anyU_false_iff (rxns : List Rxn) (k : String) : anyU rxns k = false ↔ ∀ r ∈ rxns, r.allProd k = 0 := by
  rw [← Bool.not_eq_true, anyU_iff]
  constructor
  · intro h r hr; by_contra hn; exact h ⟨r, hr, by omega⟩
  · rintro h ⟨r, hr, hlt⟩; have := h r hr; omega

theorem categoryOf_accumulated (rxns : List Rxn) (k : String) :
    categoryOf rxns k = .accumulated ↔ (∃ r ∈ rxns, 0 < r.net k) ∧ ∀ r ∈ rxns, 0 ≤ r.net k := by
  rw [categoryOf_bool, ← anyP_iff, ← anyR_false_iff]
  cases anyR rxns k <;> cases anyP rxns k <;> cases anyU rxns k <;> simp

theorem categoryOf_depleted (rxns : List Rxn) (k : String) :
    categoryOf rxns k = .depleted ↔ (∃ r ∈ rxns, r.net k < 0) ∧ ∀ r ∈ rxns, r.net k ≤ 0 := by
  rw [categoryOf_bool, ← anyR_iff, ← anyP_false_iff]
  cases anyR rxns k <;> cases anyP rxns k <;> cases anyU rxns k <;> simp

theorem categoryOf_both (rxns : List Rxn) (k : String) :
    categoryOf rxns k = .both ↔ (∃ r ∈ rxns, r.net k < 0) ∧ ∃ r ∈ rxns, 0 < r.net k := by
  rw [categoryOf_bool, ← anyR_iff, ← anyP_iff]
  cases anyR rxns k <;> cases anyP rxns k <;> cases anyU rxns k <;> simp

theorem net_zero_iff (rxns : List Rxn) (k : String) :
    (∀ r ∈ rxns, r.net k = 0) ↔ anyR rxns k = false ∧ anyP rxns k = false := by
  rw [anyR_false_iff, anyP_false_iff]
  constructor
  · intro h; exact ⟨fun r hr => by have := h r hr; omega, fun r hr => by have := h r hr; omega⟩
  · rintro ⟨h1, h2⟩ r hr; have := h1 r hr; have := h2 r hr; omega

theorem categoryOf_unaffected (rxns : List Rxn) (k : String) :
    categoryOf rxns k = .unaffected ↔ (∀ r ∈ rxns, r.net k = 0) ∧ ∃ r ∈ rxns, 0 < r.allProd k := by
  rw [categoryOf_bool, net_zero_iff, ← anyU_iff]
  cases anyR rxns k <;> cases anyP rxns k <;> cases anyU rxns k <;> simp

theorem absent_iff (rxns : List Rxn) (k : String) :
    (∀ r ∈ rxns, r.allReac k = 0 ∧ r.allProd k = 0) ↔ anyR rxns k = false ∧ anyP rxns k = false ∧ anyU rxns k = false := by
  rw [← and_assoc, ← net_zero_iff, anyU_false_iff]
  constructor
  · intro h
    exact ⟨fun r hr => by have := h r hr; rw [Rxn.net_eq]; omega, fun r hr => (h r hr).2⟩
  · rintro ⟨h1, h2⟩ r hr
    have a := h1 r hr; have b := h2 r hr; rw [Rxn.net_eq] at a
    omega

theorem categoryOf_nonparticipating (rxns : List Rxn) (k : String) :
    categoryOf rxns k = .nonparticipating ↔ ∀ r ∈ rxns, r.allReac k = 0 ∧ r.allProd k = 0 := by
  rw [categoryOf_bool, absent_iff]
  cases anyR rxns k <;> cases anyP rxns k <;> cases anyU rxns k <;> simp

/-! ### equilibria: `as_reactions` and the expansion inside `categorize_substances` -/

theorem asReactions_ok_iff (r : Rxn) :
    (∃ p, r.asReactions = .ok p) ↔ r.param.isSome ∧ r.paramB.isSome ∧ r.anyEffect = true := by
  simp only [Rxn.asReactions]
  cases hp : r.param <;> cases hb : r.paramB <;> simp
  split <;> simp_all

theorem asReactions_spec {r f b : Rxn} (h : r.asReactions = .ok (f, b)) :
    f.reac = r.reac ∧ f.prod = r.prod ∧ f.inactReac = r.inactReac ∧ f.inactProd = r.inactProd ∧
    b.reac = r.prod ∧ b.prod = r.reac ∧ b.inactReac = r.inactProd ∧ b.inactProd = r.inactReac ∧
    f.param = r.param ∧ b.param = r.paramB ∧ f.name = r.name ∧ b.name = none ∧
    f.isEq = false ∧ b.isEq = false ∧ f.paramB = none ∧ b.paramB = none := by
  simp only [Rxn.asReactions] at h
  split at h
  · rename_i kf kb hp hb
    split at h
    · simp only [Except.ok.injEq, Prod.mk.injEq] at h
      obtain ⟨rfl, rfl⟩ := h
      simp [hp, hb]
    · simp at h
  · simp at h

theorem expand_plain {l : List Rxn} (h : ∀ r ∈ l, r.isEq = false) : expand l = .ok l := by
  induction l with
  | nil => rfl
  | cons r t ih =>
    have hr : r.isEq = false := h r (by simp)
    simp only [expand, hr, Bool.false_eq_true, ↓reduceIte, ih (fun x hx => h x (by simp [hx]))]

theorem expand_ok_iff (l : List Rxn) :
    (∃ ex, expand l = .ok ex) ↔ ∀ r ∈ l, r.isEq = true → ∃ p, r.asReactions = .ok p := by
  induction l with
  | nil => simp [expand]
  | cons r t ih =>
    simp only [expand, List.mem_cons, forall_eq_or_imp]
    by_cases hr : r.isEq = true
    · simp only [hr, ↓reduceIte, true_implies]
      cases har : r.asReactions with
      | error e => simp
      | ok p =>
        obtain ⟨f, b⟩ := p
        simp only [Except.ok.injEq, exists_eq', true_and]
        rw [← ih]
        cases expand t <;> simp
    · simp only [hr, Bool.false_eq_true, ↓reduceIte, false_implies, true_and]
      rw [← ih]
      cases expand t <;> simp

theorem mem_expand {l ex : List Rxn} (h : expand l = .ok ex) (x : Rxn) :
    x ∈ ex ↔ (x ∈ l ∧ x.isEq = false) ∨
      ∃ r ∈ l, r.isEq = true ∧ ∃ f b, r.asReactions = .ok (f, b) ∧ (x = f ∨ x = b) := by
  induction l generalizing ex with
  | nil => simp only [expand, Except.ok.injEq] at h; subst h; simp
  | cons r t ih =>
    simp only [expand] at h
    split at h
    · rename_i hr
      split at h
      · simp at h
      · rename_i f b har
        split at h
        · simp at h
        · rename_i l' hl'
          simp only [Except.ok.injEq] at h
          subst h
          simp only [List.mem_cons, ih hl']
          constructor
          · rintro (rfl | rfl | h | h)
            · exact Or.inr ⟨r, Or.inl rfl, hr, x, b, har, Or.inl rfl⟩
            · exact Or.inr ⟨r, Or.inl rfl, hr, f, x, har, Or.inr rfl⟩
            · exact Or.inl ⟨Or.inr h.1, h.2⟩
            · obtain ⟨r', hr', h'⟩ := h; exact Or.inr ⟨r', Or.inr hr', h'⟩
          · rintro (⟨rfl | h1, h2⟩ | ⟨r', rfl | hr', he, f', b', har', hx⟩)
            · rw [hr] at h2; simp at h2
            · exact Or.inr (Or.inr (Or.inl ⟨h1, h2⟩))
            · rw [har] at har'
              simp only [Except.ok.injEq, Prod.mk.injEq] at har'
              obtain ⟨rfl, rfl⟩ := har'
              rcases hx with hx | hx
              · exact Or.inl hx
              · exact Or.inr (Or.inl hx)
            · exact Or.inr (Or.inr (Or.inr ⟨r', hr', he, f', b', har', hx⟩))
    · rename_i hr
      split at h
      · simp at h
      · rename_i l' hl'
        simp only [Except.ok.injEq] at h
        subst h
        simp only [List.mem_cons, ih hl']
        constructor
        · rintro (rfl | h | h)
          · exact Or.inl ⟨Or.inl rfl, by simpa using hr⟩
          · exact Or.inl ⟨Or.inr h.1, h.2⟩
          · obtain ⟨r', hr', h'⟩ := h; exact Or.inr ⟨r', Or.inr hr', h'⟩
        · rintro (⟨rfl | h1, h2⟩ | ⟨r', rfl | hr', he, h'⟩)
          · exact Or.inl rfl
          · exact Or.inr (Or.inl ⟨h1, h2⟩)
          · exact absurd he hr
          · exact Or.inr (Or.inr ⟨r', hr', he, h'⟩)

theorem categorize_ok {s : RSys} {checks : List Check} {c : Categories} (h : categorize s checks = .ok c) :
    ∃ ex, expand s.rxns = .ok ex ∧
    c.accumulated = s.keys.filter (fun k => categoryOf ex k = .accumulated) ∧
    c.depleted = s.keys.filter (fun k => categoryOf ex k = .depleted) ∧
    c.unaffected = s.keys.filter (fun k => categoryOf ex k = .unaffected) ∧
    c.nonparticipating = s.keys.filter (fun k => categoryOf ex k = .nonparticipating) ∧
    ∀ ch ∈ checks, runCheck ⟨ex, s.substs⟩ ch = true := by
  simp only [categorize] at h
  split at h
  · simp at h
  · rename_i ex hex
    split at h
    · simp at h
    · rename_i irr hmk
      obtain ⟨rfl, hff⟩ := make_odict_ok hmk
      simp only [Except.ok.injEq] at h
      subst h
      exact ⟨ex, hex, rfl, rfl, rfl, rfl, firstFailing_none hff⟩

theorem categorize_nochecks_iff (s : RSys) :
    (∃ c, categorize s [] = .ok c) ↔ ∃ ex, expand s.rxns = .ok ex := by
  simp only [categorize]
  cases expand s.rxns <;> simp [make_odict_nochecks]

/-! ### Stoich.get and keys -/

theorem lookup_isSome_of_mem {l : Stoich} {k : String} (h : k ∈ l.map (·.1)) : (l.lookup k).isSome := by
  induction l with
  | nil => simp at h
  | cons a t ih =>
    obtain ⟨a1, a2⟩ := a
    simp only [List.map_cons, List.mem_cons] at h
    simp only [List.lookup_cons]
    by_cases hk : k == a1
    · simp [hk]
    · simp only [hk]
      rcases h with rfl | h
      · simp at hk
      · exact ih h

theorem Stoich.get_eq_zero_of_not_mem {l : Stoich} {k : String} (h : k ∉ l.map (·.1)) : l.get k = 0 := by
  induction l with
  | nil => rfl
  | cons a t ih =>
    obtain ⟨a1, a2⟩ := a
    simp only [List.map_cons, List.mem_cons, not_or] at h
    have hk : (k == a1) = false := by simpa using h.1
    simp only [Stoich.get, List.lookup_cons, hk]
    exact ih h.2

/-- a positive coefficient somewhere implies being a key -/
theorem Stoich.mem_of_get_pos {l : Stoich} {k : String} (h : 0 < l.get k) : k ∈ l.map (·.1) := by
  by_contra hn
  rw [Stoich.get_eq_zero_of_not_mem hn] at h
  omega

/-- when every listed coefficient is positive, being a key means a positive coefficient -/
theorem Stoich.get_pos_of_mem {l : Stoich} {k : String} (hpos : ∀ kv ∈ l, 0 < kv.2)
    (h : k ∈ l.map (·.1)) : 0 < l.get k := by
  induction l with
  | nil => simp at h
  | cons a t ih =>
    obtain ⟨a1, a2⟩ := a
    simp only [Stoich.get, List.lookup_cons]
    by_cases hk : k == a1
    · simp only [hk]
      exact hpos (a1, a2) (by simp)
    · simp only [hk]
      simp only [List.map_cons, List.mem_cons] at h
      rcases h with rfl | h
      · simp at hk
      · exact ih (fun kv hkv => hpos kv (by simp [hkv])) h

/-- every coefficient written in the reaction is positive (no `{'A': 0}` entries) -/
def Rxn.positive (r : Rxn) : Prop :=
  (∀ kv ∈ r.reac, 0 < kv.2) ∧ (∀ kv ∈ r.prod, 0 < kv.2) ∧ (∀ kv ∈ r.inactReac, 0 < kv.2) ∧ (∀ kv ∈ r.inactProd, 0 < kv.2)

theorem Rxn.mem_keys_iff (r : Rxn) (k : String) :
    k ∈ r.keys ↔ k ∈ r.reac.map (·.1) ∨ k ∈ r.prod.map (·.1) ∨ k ∈ r.inactReac.map (·.1) ∨ k ∈ r.inactProd.map (·.1) := by
  simp only [Rxn.keys, List.mem_append]; tauto

theorem Rxn.mem_keys_of_pos {r : Rxn} {k : String} (h : 0 < r.allReac k ∨ 0 < r.allProd k) : k ∈ r.keys := by
  rw [Rxn.mem_keys_iff]
  simp only [Rxn.allReac, Rxn.allProd] at h
  rcases h with h | h
  · by_cases h1 : 0 < r.reac.get k
    · exact Or.inl (Stoich.mem_of_get_pos h1)
    · exact Or.inr (Or.inr (Or.inl (Stoich.mem_of_get_pos (by omega))))
  · by_cases h1 : 0 < r.prod.get k
    · exact Or.inr (Or.inl (Stoich.mem_of_get_pos h1))
    · exact Or.inr (Or.inr (Or.inr (Stoich.mem_of_get_pos (by omega))))

theorem Rxn.pos_of_mem_keys {r : Rxn} {k : String} (hp : r.positive) (h : k ∈ r.keys) :
    0 < r.allReac k ∨ 0 < r.allProd k := by
  rw [Rxn.mem_keys_iff] at h
  obtain ⟨h1, h2, h3, h4⟩ := hp
  simp only [Rxn.allReac, Rxn.allProd]
  rcases h with h | h | h | h
  · left; have := Stoich.get_pos_of_mem h1 h; omega
  · right; have := Stoich.get_pos_of_mem h2 h; omega
  · left; have := Stoich.get_pos_of_mem h3 h; omega
  · right; have := Stoich.get_pos_of_mem h4 h; omega

/-! ### identify_equilibria -/

theorem firstReverse_spec (keys : List String) (r1 : Rxn) (i : Nat) (l : List Rxn) (j : Nat) :
    firstReverse keys r1 i l = some j ↔
      ∃ d r2, j = i + d ∧ l[d]? = some r2 ∧ isReverse keys r1 r2 = true ∧
        ∀ d' r', d' < d → l[d']? = some r' → isReverse keys r1 r' = false := by
  induction l generalizing i with
  | nil => simp [firstReverse]
  | cons a t ih =>
    simp only [firstReverse]
    split
    · rename_i ha
      constructor
      · intro h
        simp only [Option.some.injEq] at h
        exact ⟨0, a, by omega, by simp, ha, by intro d' r' hd; omega⟩
      · rintro ⟨d, r2, hj, hd, hrev, hmin⟩
        cases d with
        | zero => simp only [Option.some.injEq]; omega
        | succ d =>
          have := hmin 0 a (by omega) (by simp)
          rw [ha] at this; simp at this
    · rename_i ha
      rw [ih]
      constructor
      · rintro ⟨d, r2, hj, hd, hrev, hmin⟩
        refine ⟨d + 1, r2, by omega, by simpa using hd, hrev, ?_⟩
        intro d' r' hd' hl
        cases d' with
        | zero => simp only [List.getElem?_cons_zero, Option.some.injEq] at hl; subst hl; simpa using ha
        | succ d' => exact hmin d' r' (by omega) (by simpa using hl)
      · rintro ⟨d, r2, hj, hd, hrev, hmin⟩
        cases d with
        | zero =>
          simp only [List.getElem?_cons_zero, Option.some.injEq] at hd; subst hd
          rw [hrev] at ha; simp at ha
        | succ d =>
          refine ⟨d, r2, by omega, by simpa using hd, hrev, ?_⟩
          intro d' r' hd' hl
          exact hmin (d' + 1) r' (by omega) (by simpa using hl)

theorem identEqFrom_spec (keys : List String) (i : Nat) (l : List Rxn) (a b : Nat) :
    (a, b) ∈ identEqFrom keys i l ↔
      ∃ r1, i ≤ a ∧ l[a - i]? = some r1 ∧ firstReverse keys r1 (a + 1) (l.drop (a - i + 1)) = some b := by
  induction l generalizing i with
  | nil => simp [identEqFrom]
  | cons x t ih =>
    have key : ∀ (rest : List (Nat × Nat)), ((a, b) ∈ rest ↔
        ∃ r1, i + 1 ≤ a ∧ t[a - (i + 1)]? = some r1 ∧ firstReverse keys r1 (a + 1) (t.drop (a - (i + 1) + 1)) = some b) →
        (((a, b) ∈ rest ∨ (a = i ∧ firstReverse keys x (i + 1) t = some b)) ↔
        ∃ r1, i ≤ a ∧ (x :: t)[a - i]? = some r1 ∧ firstReverse keys r1 (a + 1) ((x :: t).drop (a - i + 1)) = some b) := by
      intro rest hrest
      constructor
      · rintro (h | ⟨rfl, h⟩)
        · obtain ⟨r1, hia, hget, hfr⟩ := hrest.mp h
          have e : a - i = (a - (i + 1)) + 1 := by omega
          refine ⟨r1, by omega, ?_, ?_⟩
          · rw [e]; simpa using hget
          · rw [e]; simpa using hfr
        · exact ⟨x, by omega, by simp, by simpa using h⟩
      · rintro ⟨r1, hia, hget, hfr⟩
        by_cases hai : a = i
        · subst hai
          right
          simp only [Nat.sub_self, List.getElem?_cons_zero, Option.some.injEq] at hget
          subst hget
          exact ⟨rfl, by simpa using hfr⟩
        · left
          have e : a - i = (a - (i + 1)) + 1 := by omega
          rw [e] at hget hfr
          exact hrest.mpr ⟨r1, by omega, by simpa using hget, by simpa using hfr⟩
    simp only [identEqFrom]
    split
    · rename_i j hj
      rw [List.mem_cons, ← key _ (ih (i + 1))]
      constructor
      · rintro (h | h)
        · simp only [Prod.mk.injEq] at h; right; exact ⟨h.1, by rw [hj, h.2]⟩
        · left; exact h
      · rintro (h | ⟨h1, h2⟩)
        · right; exact h
        · left; rw [hj] at h2; simp only [Option.some.injEq] at h2; simp [h1, h2]
    · rename_i hj
      rw [← key _ (ih (i + 1))]
      constructor
      · intro h; left; exact h
      · rintro (h | ⟨_, h2⟩)
        · exact h
        · rw [hj] at h2; simp at h2

/-! ### participation / effect -/

theorem participationFrom_spec (k : String) (i : Nat) (l : List Rxn) (a : Nat) :
    a ∈ participationFrom k i l ↔ ∃ r, i ≤ a ∧ l[a - i]? = some r ∧ k ∈ r.keys := by
  induction l generalizing i with
  | nil => simp [participationFrom]
  | cons x t ih =>
    have shift : (∃ r, i + 1 ≤ a ∧ t[a - (i + 1)]? = some r ∧ k ∈ r.keys) ∨ (a = i ∧ k ∈ x.keys) ↔
        ∃ r, i ≤ a ∧ (x :: t)[a - i]? = some r ∧ k ∈ r.keys := by
      constructor
      · rintro (⟨r, h1, h2, h3⟩ | ⟨rfl, h⟩)
        · have e : a - i = (a - (i + 1)) + 1 := by omega
          exact ⟨r, by omega, by rw [e]; simpa using h2, h3⟩
        · exact ⟨x, by omega, by simp, h⟩
      · rintro ⟨r, h1, h2, h3⟩
        by_cases hai : a = i
        · subst hai; right
          simp only [Nat.sub_self, List.getElem?_cons_zero, Option.some.injEq] at h2
          subst h2; exact ⟨rfl, h3⟩
        · left
          have e : a - i = (a - (i + 1)) + 1 := by omega
          rw [e] at h2
          exact ⟨r, by omega, by simpa using h2, h3⟩
    simp only [participationFrom]
    split
    · rename_i hx
      rw [List.mem_cons, ih, ← shift]
      have hx' : k ∈ x.keys := by simpa using hx
      constructor
      · rintro (h | h)
        · right; exact ⟨h, hx'⟩
        · left; exact h
      · rintro (h | ⟨h, _⟩)
        · right; exact h
        · left; exact h
    · rename_i hx
      rw [ih, ← shift]
      have hx' : k ∉ x.keys := by simpa using hx
      constructor
      · intro h; left; exact h
      · rintro (h | ⟨_, h⟩)
        · exact h
        · exact absurd h hx'

theorem participationFrom_sorted (k : String) (i : Nat) (l : List Rxn) :
    (participationFrom k i l).Pairwise (· < ·) ∧ ∀ a ∈ participationFrom k i l, i ≤ a := by
  induction l generalizing i with
  | nil => simp [participationFrom]
  | cons x t ih =>
    obtain ⟨h1, h2⟩ := ih (i + 1)
    simp only [participationFrom]
    split
    · refine ⟨List.pairwise_cons.mpr ⟨fun a ha => by have := h2 a ha; omega, h1⟩, ?_⟩
      intro a ha
      rcases List.mem_cons.mp ha with rfl | ha
      · omega
      · have := h2 a ha; omega
    · exact ⟨h1, fun a ha => by have := h2 a ha; omega⟩

theorem effectFrom_spec (k : String) (i : Nat) (l : List Rxn) (a : Nat) (n : Int) :
    (a, n) ∈ effectFrom k i l ↔ ∃ r, i ≤ a ∧ l[a - i]? = some r ∧ n = r.net k ∧ n ≠ 0 := by
  induction l generalizing i with
  | nil => simp [effectFrom]
  | cons x t ih =>
    have shift : (∃ r, i + 1 ≤ a ∧ t[a - (i + 1)]? = some r ∧ n = r.net k ∧ n ≠ 0) ∨ (a = i ∧ n = x.net k ∧ n ≠ 0) ↔
        ∃ r, i ≤ a ∧ (x :: t)[a - i]? = some r ∧ n = r.net k ∧ n ≠ 0 := by
      constructor
      · rintro (⟨r, h1, h2, h3⟩ | ⟨rfl, h⟩)
        · have e : a - i = (a - (i + 1)) + 1 := by omega
          exact ⟨r, by omega, by rw [e]; simpa using h2, h3⟩
        · exact ⟨x, by omega, by simp, h⟩
      · rintro ⟨r, h1, h2, h3⟩
        by_cases hai : a = i
        · subst hai; right
          simp only [Nat.sub_self, List.getElem?_cons_zero, Option.some.injEq] at h2
          subst h2; exact ⟨rfl, h3⟩
        · left
          have e : a - i = (a - (i + 1)) + 1 := by omega
          rw [e] at h2
          exact ⟨r, by omega, by simpa using h2, h3⟩
    simp only [effectFrom]
    split
    · rename_i hx
      rw [List.mem_cons, ih, ← shift]
      constructor
      · rintro (h | h)
        · simp only [Prod.mk.injEq] at h; right; exact ⟨h.1, h.2, by rw [h.2]; exact hx⟩
        · left; exact h
      · rintro (h | ⟨h1, h2, _⟩)
        · right; exact h
        · left; simp [h1, h2]
    · rename_i hx
      rw [ih, ← shift]
      constructor
      · intro h; left; exact h
      · rintro (h | ⟨_, h2, h3⟩)
        · exact h
        · rw [h2] at h3; exact absurd h3 hx

theorem effectFrom_sorted (k : String) (i : Nat) (l : List Rxn) :
    ((effectFrom k i l).map (·.1)).Pairwise (· < ·) ∧ ∀ a ∈ (effectFrom k i l).map (·.1), i ≤ a := by
  induction l generalizing i with
  | nil => simp [effectFrom]
  | cons x t ih =>
    obtain ⟨h1, h2⟩ := ih (i + 1)
    simp only [effectFrom]
    split
    · simp only [List.map_cons]
      refine ⟨List.pairwise_cons.mpr ⟨fun a ha => by have := h2 a ha; omega, h1⟩, ?_⟩
      intro a ha
      rcases List.mem_cons.mp ha with rfl | ha
      · omega
      · have := h2 a ha; omega
    · exact ⟨h1, fun a ha => by have := h2 a ha; omega⟩

/-! ### subset -/

theorem mem_newSubstances (s : RSys) (coll : List Rxn) (kv : String × Subst) :
    kv ∈ newSubstances s coll ↔ kv ∈ s.substs ∧ ∃ r ∈ coll, kv.1 ∈ r.keys := by
  simp [newSubstances, List.mem_filter]

theorem subset_ok {s : RSys} {pred : Rxn → Bool} {checks : List Check} {y n : RSys}
    (h : subset s pred checks = .ok (y, n)) :
    y = ⟨s.rxns.filter pred, newSubstances s (s.rxns.filter pred)⟩ ∧
    n = ⟨s.rxns.filter (fun r => !pred r), newSubstances s (s.rxns.filter fun r => !pred r)⟩ ∧
    (∀ c ∈ checks, runCheck y c = true) ∧ (∀ c ∈ checks, runCheck n c = true) := by
  simp only [subset] at h
  split at h
  · simp at h
  · rename_i y' hy
    split at h
    · simp at h
    · rename_i n' hn
      simp only [Except.ok.injEq, Prod.mk.injEq] at h
      obtain ⟨rfl, rfl⟩ := h
      obtain ⟨e1, f1⟩ := make_odict_ok hy
      obtain ⟨e2, f2⟩ := make_odict_ok hn
      refine ⟨e1, e2, ?_, ?_⟩
      · rw [e1]; exact firstFailing_none f1
      · rw [e2]; exact firstFailing_none f2

theorem subset_nochecks (s : RSys) (pred : Rxn → Bool) :
    subset s pred [] = .ok (⟨s.rxns.filter pred, newSubstances s (s.rxns.filter pred)⟩,
      ⟨s.rxns.filter (fun r => !pred r), newSubstances s (s.rxns.filter fun r => !pred r)⟩) := by
  simp [subset, make_odict_nochecks]

/-! ### OrderedDict update -/

def okeys (od : ODict) : List String := od.map (·.1)

theorem okeys_odictSet (k : String) (v : Subst) (od : ODict) :
    okeys (odictSet k v od) = if k ∈ okeys od then okeys od else okeys od ++ [k] := by
  induction od with
  | nil => simp [odictSet, okeys]
  | cons a t ih =>
    obtain ⟨a1, a2⟩ := a
    simp only [odictSet]
    by_cases h : a1 = k
    · subst h; simp [okeys]
    · simp only [h, ↓reduceIte]
      simp only [okeys, List.map_cons, List.mem_cons] at ih ⊢
      rw [ih]
      have h' : ¬ k = a1 := fun e => h e.symm
      by_cases hk : k ∈ List.map (fun x => x.1) t
      · simp [hk]
      · simp [hk, h']

theorem lookup_odictSet (k : String) (v : Subst) (od : ODict) (k' : String) :
    (odictSet k v od).lookup k' = if k' = k then some v else od.lookup k' := by
  induction od with
  | nil =>
    by_cases h : k' = k
    · subst h; simp [odictSet, List.lookup]
    · have : (k' == k) = false := by simpa using h
      simp [odictSet, List.lookup, this, h]
  | cons a t ih =>
    obtain ⟨a1, a2⟩ := a
    simp only [odictSet]
    by_cases h : a1 = k
    · subst h
      by_cases h2 : k' = a1
      · subst h2; simp [List.lookup]
      · have : (k' == a1) = false := by simpa using h2
        simp [List.lookup, this, h2]
    · simp only [h, ↓reduceIte, List.lookup_cons]
      by_cases h2 : k' = a1
      · subst h2
        have : ¬ k' = k := h
        simp [this]
      · have : (k' == a1) = false := by simpa using h2
        simp only [this]
        exact ih

theorem lookup_none_of_not_mem {od : ODict} {k : String} (h : k ∉ okeys od) : od.lookup k = none := by
  induction od with
  | nil => rfl
  | cons a t ih =>
    obtain ⟨a1, a2⟩ := a
    simp only [okeys, List.map_cons, List.mem_cons, not_or] at h
    have : (k == a1) = false := by simpa using h.1
    simp only [List.lookup_cons, this]
    exact ih h.2

theorem odictUpdate_cons (od : ODict) (x : String × Subst) (t : ODict) :
    odictUpdate od (x :: t) = odictUpdate (odictSet x.1 x.2 od) t := rfl

theorem okeys_cons (x : String × Subst) (t : ODict) : okeys (x :: t) = x.1 :: okeys t := rfl

theorem okeys_odictUpdate (od items : ODict) (hn : (okeys items).Nodup) :
    okeys (odictUpdate od items) = okeys od ++ (okeys items).filter (fun k => !(okeys od).contains k) := by
  induction items generalizing od with
  | nil => simp [odictUpdate, okeys]
  | cons x t ih =>
    rw [okeys_cons, List.nodup_cons] at hn
    rw [odictUpdate_cons, ih _ hn.2, okeys_odictSet, okeys_cons]
    by_cases hx : x.1 ∈ okeys od
    · have hx' : (okeys od).contains x.1 = true := by simpa using hx
      simp only [hx, ↓reduceIte, List.filter_cons, hx', Bool.not_true, Bool.false_eq_true]
    · have hx' : (okeys od).contains x.1 = false := by simpa using hx
      simp only [hx, ↓reduceIte, List.append_assoc, List.filter_cons, hx', Bool.not_false, List.singleton_append]
      congr 2
      apply List.filter_congr
      intro k hk
      have : k ≠ x.1 := fun e => hn.1 (e ▸ hk)
      simp [this]

theorem lookup_odictUpdate (od items : ODict) (hn : (okeys items).Nodup) (k : String) :
    (odictUpdate od items).lookup k = (items.lookup k).or (od.lookup k) := by
  induction items generalizing od with
  | nil => simp [odictUpdate]
  | cons x t ih =>
    obtain ⟨x1, x2⟩ := x
    simp only [okeys, List.map_cons, List.nodup_cons] at hn
    rw [odictUpdate_cons, ih _ hn.2, lookup_odictSet]
    by_cases hk : k = x1
    · subst hk
      have : t.lookup k = none := lookup_none_of_not_mem hn.1
      simp [this, List.lookup]
    · have : (k == x1) = false := by simpa using hk
      simp [hk, List.lookup_cons, this]

theorem odictUpdate_nodup (od items : ODict) (h : (okeys od).Nodup) : (okeys (odictUpdate od items)).Nodup := by
  induction items generalizing od with
  | nil => simpa [odictUpdate] using h
  | cons x t ih =>
    rw [odictUpdate_cons]
    apply ih
    rw [okeys_odictSet]
    by_cases hx : x.1 ∈ okeys od
    · simpa [hx] using h
    · simp only [hx, ↓reduceIte]
      rw [List.nodup_append]
      refine ⟨h, by simp, ?_⟩
      intro a ha b hb
      simp only [List.mem_singleton] at hb
      subst hb
      exact fun e => hx (e ▸ ha)

theorem odictUpdate_disjoint (od items : ODict) (hn : (okeys items).Nodup)
    (hd : ∀ k ∈ okeys items, k ∉ okeys od) : odictUpdate od items = od ++ items := by
  induction items generalizing od with
  | nil => simp [odictUpdate]
  | cons x t ih =>
    obtain ⟨x1, x2⟩ := x
    simp only [okeys, List.map_cons, List.nodup_cons] at hn
    have hx : x1 ∉ okeys od := hd x1 (by simp [okeys])
    have hset : odictSet x1 x2 od = od ++ [(x1, x2)] := by
      clear ih hd
      induction od with
      | nil => rfl
      | cons a u ihu =>
        simp only [okeys, List.map_cons, List.mem_cons, not_or] at hx
        have : ¬ a.1 = x1 := fun e => hx.1 e.symm
        simp only [odictSet, this, ↓reduceIte, List.cons_append]
        rw [ihu hx.2]
    rw [odictUpdate_cons, hset, ih _ hn.2]
    · simp
    · intro k hk
      simp only [okeys, List.map_append, List.map_cons, List.map_nil, List.mem_append, List.mem_singleton, not_or]
      refine ⟨hd k (by simp [okeys] at hk ⊢; right; exact hk), ?_⟩
      intro e; subst e; exact hn.1 (by simpa [okeys] using hk)

theorem odictOf_of_nodup (od : ODict) (h : (okeys od).Nodup) : odictOf od = od := by
  have := odictUpdate_disjoint [] od h (by simp [okeys])
  simpa [odictOf] using this

theorem odictUpdate_append (od a b : ODict) : odictUpdate od (a ++ b) = odictUpdate (odictUpdate od a) b := by
  simp [odictUpdate, List.foldl_append]

theorem add_eq_iadd (a b : RSys) (ha : a.keys.Nodup) : add a b = iadd a b := by
  simp only [add, iadd, odictOf, odictUpdate_append]
  have := odictOf_of_nodup a.substs (by simpa [okeys, RSys.keys] using ha)
  simp only [odictOf] at this
  rw [this]

/-! ### per-substance containers -/

theorem lookupAll_eq_some {α : Type} (cont : List (String × α)) (ks : List String) (l : List α) :
    lookupAll cont ks = some l ↔ ks.map (fun k => cont.lookup k) = l.map some := by
  induction ks generalizing l with
  | nil => cases l <;> simp [lookupAll]
  | cons k t ih =>
    simp only [lookupAll, List.map_cons]
    cases hk : cont.lookup k with
    | none =>
      cases l <;> simp
    | some v =>
      cases ht : lookupAll cont t with
      | none =>
        simp only [reduceCtorEq, false_iff]
        cases l with
        | nil => simp
        | cons a u =>
          simp only [List.map_cons, List.cons.injEq, Option.some.injEq, not_and]
          intro _ h
          have := (ih u).mpr h
          rw [ht] at this; simp at this
      | some l' =>
        have := (ih l').mp ht
        cases l with
        | nil => simp
        | cons a u =>
          simp only [Option.some.injEq, List.cons.injEq, List.map_cons]
          constructor
          · rintro ⟨rfl, rfl⟩; exact ⟨rfl, this⟩
          · rintro ⟨rfl, h⟩
            refine ⟨rfl, ?_⟩
            have h2 := (ih u).mpr h
            rw [ht] at h2
            simpa using h2

theorem map_lookup_zip {α : Type} (ks : List String) (arr : List α) (hn : ks.Nodup) (hl : arr.length = ks.length) :
    ks.map (fun k => (ks.zip arr).lookup k) = arr.map some := by
  induction ks generalizing arr with
  | nil => cases arr <;> simp_all
  | cons k t ih =>
    cases arr with
    | nil => simp at hl
    | cons a u =>
      simp only [List.nodup_cons] at hn
      simp only [List.zip_cons_cons, List.map_cons, List.lookup_cons, beq_self_eq_true, List.cons.injEq, true_and]
      rw [← ih u hn.2 (by simpa using hl)]
      apply List.map_congr_left
      intro k' hk'
      have : (k' == k) = false := by
        simp only [beq_eq_false_iff_ne, ne_eq]; intro e; exact hn.1 (e ▸ hk')
      simp [this]

theorem zip_keys_all_known {α : Type} (ks : List String) (arr : List α) :
    ((ks.zip arr).any fun kv => !ks.contains kv.1) = false := by
  rw [List.any_eq_false]
  intro kv hkv
  have := (List.of_mem_zip hkv).1
  simp [this]

/-! ### upper_conc_bounds -/

theorem sum_nonneg' {l : List Rat} (hpos : ∀ x ∈ l, 0 ≤ x) : 0 ≤ l.sum := by
  induction l with
  | nil => simp
  | cons a t ih =>
    have := ih (fun x hx => hpos x (by simp [hx]))
    have := hpos a (by simp)
    simp only [List.sum_cons]; linarith

theorem mem_le_sum {l : List Rat} (hpos : ∀ x ∈ l, 0 ≤ x) {x : Rat} (hx : x ∈ l) : x ≤ l.sum := by
  induction l with
  | nil => simp at hx
  | cons a t ih =>
    have ha : 0 ≤ a := hpos a (by simp)
    have ht : 0 ≤ t.sum := sum_nonneg' (fun x hx => hpos x (by simp [hx]))
    simp only [List.sum_cons]
    rcases List.mem_cons.mp hx with rfl | h
    · linarith
    · have := ih (fun x hx => hpos x (by simp [hx])) h
      linarith

/-- every composition entry that counts (key not skipped) has a non-negative coefficient -/
def compNonneg (skip : List Nat) (comp : Comp) : Prop := ∀ kv ∈ comp, ¬ skip.contains kv.1 → 0 ≤ kv.2

theorem compContribution_terms_nonneg {skip : List Nat} {k : Nat} {conc : Rat} {comp : Comp}
    (hc : 0 ≤ conc) (hn : compNonneg skip comp) :
    ∀ x ∈ comp.map (fun kv => if kv.1 = k ∧ ¬ skip.contains kv.1 then (kv.2 : Rat) * conc else 0), 0 ≤ x := by
  intro x hx
  simp only [List.mem_map] at hx
  obtain ⟨kv, hkv, rfl⟩ := hx
  split
  · rename_i h
    have : (0 : Int) ≤ kv.2 := hn kv hkv h.2
    have : (0 : Rat) ≤ (kv.2 : Rat) := by exact_mod_cast this
    exact mul_nonneg this hc
  · exact le_refl _

theorem compContribution_nonneg {skip : List Nat} {k : Nat} {conc : Rat} {comp : Comp}
    (hc : 0 ≤ conc) (hn : compNonneg skip comp) : 0 ≤ compContribution skip k conc comp :=
  sum_nonneg' (compContribution_terms_nonneg hc hn)

theorem le_compContribution {skip : List Nat} {k : Nat} {v : Int} {conc : Rat} {comp : Comp}
    (hc : 0 ≤ conc) (hn : compNonneg skip comp) (hmem : (k, v) ∈ comp) (hk : ¬ skip.contains k) :
    (v : Rat) * conc ≤ compContribution skip k conc comp := by
  apply mem_le_sum (compContribution_terms_nonneg hc hn)
  simp only [List.mem_map]
  exact ⟨(k, v), hmem, if_pos ⟨rfl, hk⟩⟩

theorem le_elementTotal {skip : List Nat} {k : Nat} {v : Int} {cs : List (Rat × Comp)} {i : Nat} {conc : Rat} {comp : Comp}
    (hc : ∀ p ∈ cs, 0 ≤ p.1) (hn : ∀ p ∈ cs, compNonneg skip p.2)
    (hi : cs[i]? = some (conc, comp)) (hmem : (k, v) ∈ comp) (hk : ¬ skip.contains k) :
    (v : Rat) * conc ≤ elementTotal skip cs k := by
  have hp : (conc, comp) ∈ cs := List.mem_of_getElem? hi
  have h1 := le_compContribution (k := k) (hc _ hp) (hn _ hp) hmem hk
  refine le_trans h1 ?_
  apply mem_le_sum
  · intro x hx
    simp only [List.mem_map] at hx
    obtain ⟨p, hp', rfl⟩ := hx
    exact compContribution_nonneg (hc p hp') (hn p hp')
  · simp only [List.mem_map]
    exact ⟨(conc, comp), hp, rfl⟩

theorem chooseFrom_spec {total : Nat → Rat} {comp : Comp} {l : List Rat} (h : chooseFrom total comp = .ok l) :
    (∀ x, x ∈ l ↔ ∃ k v, (k, v) ∈ comp ∧ k ≠ 0 ∧ x = total k / (v : Rat)) ∧
    ∀ k v, (k, v) ∈ comp → k ≠ 0 → v ≠ 0 := by
  induction comp generalizing l with
  | nil =>
    simp only [chooseFrom, Except.ok.injEq] at h
    subst h; simp
  | cons a t ih =>
    obtain ⟨k0, v0⟩ := a
    simp only [chooseFrom] at h
    split at h
    · rename_i hk
      obtain ⟨h1, h2⟩ := ih h
      constructor
      · intro x
        rw [h1]
        constructor
        · rintro ⟨k, v, hm, hk', hx⟩; exact ⟨k, v, by simp [hm], hk', hx⟩
        · rintro ⟨k, v, hm, hk', hx⟩
          rcases List.mem_cons.mp hm with e | hm
          · simp only [Prod.mk.injEq] at e; exact absurd (e.1.trans hk) hk'
          · exact ⟨k, v, hm, hk', hx⟩
      · intro k v hm hk'
        rcases List.mem_cons.mp hm with e | hm
        · simp only [Prod.mk.injEq] at e; exact absurd (e.1.trans hk) hk'
        · exact h2 k v hm hk'
    · rename_i hk
      split at h
      · simp at h
      · rename_i hv
        split at h
        · simp at h
        · rename_i l' hl'
          simp only [Except.ok.injEq] at h
          subst h
          obtain ⟨h1, h2⟩ := ih hl'
          constructor
          · intro x
            rw [List.mem_cons, h1]
            constructor
            · rintro (rfl | ⟨k, v, hm, hk', hx⟩)
              · exact ⟨k0, v0, by simp, hk, rfl⟩
              · exact ⟨k, v, by simp [hm], hk', hx⟩
            · rintro ⟨k, v, hm, hk', hx⟩
              rcases List.mem_cons.mp hm with e | hm
              · simp only [Prod.mk.injEq] at e; left; rw [hx, e.1, e.2]
              · right; exact ⟨k, v, hm, hk', hx⟩
          · intro k v hm hk'
            rcases List.mem_cons.mp hm with e | hm
            · simp only [Prod.mk.injEq] at e; rw [e.2]; exact hv
            · exact h2 k v hm hk'

theorem minOf_spec (x : Rat) (t : List Rat) : minOf x t ∈ x :: t ∧ ∀ y ∈ x :: t, minOf x t ≤ y := by
  induction t generalizing x with
  | nil => simp [minOf]
  | cons a u ih =>
    simp only [minOf]
    obtain ⟨h1, h2⟩ := ih (if a < x then a else x)
    constructor
    · rcases List.mem_cons.mp h1 with h | h
      · rw [h]; split <;> simp
      · simp [h]
    · intro y hy
      have hm := h2 (if a < x then a else x) (by simp)
      rcases List.mem_cons.mp hy with rfl | hy
      · refine le_trans hm ?_; split <;> [exact le_of_lt ‹_›; exact le_refl _]
      · rcases List.mem_cons.mp hy with rfl | hy
        · refine le_trans hm ?_
          split
          · exact le_refl _
          · exact not_lt.mp ‹_›
        · exact h2 y (by simp [hy])

theorem boundOf_some {l : List Rat} {b : Rat} (h : boundOf l = some b) : b ∈ l ∧ ∀ y ∈ l, b ≤ y := by
  cases l with
  | nil => simp [boundOf] at h
  | cons x t =>
    simp only [boundOf, Option.some.injEq] at h
    subst h
    exact minOf_spec x t

theorem boundOf_none {l : List Rat} : boundOf l = none ↔ l = [] := by
  cases l <;> simp [boundOf]

theorem boundsLoop_spec {total : Nat → Rat} {comps : List Comp} {bs : List (Option Rat)}
    (h : boundsLoop total comps = .ok bs) :
    bs.length = comps.length ∧
    ∀ (i : Nat) (c : Comp), comps[i]? = some c → ∃ l, chooseFrom total c = .ok l ∧ bs[i]? = some (boundOf l) := by
  induction comps generalizing bs with
  | nil =>
    simp only [boundsLoop, Except.ok.injEq] at h
    subst h; simp
  | cons c t ih =>
    simp only [boundsLoop] at h
    split at h
    · simp at h
    · rename_i l hl
      split at h
      · simp at h
      · rename_i bs' hbs
        simp only [Except.ok.injEq] at h
        subst h
        obtain ⟨h1, h2⟩ := ih hbs
        refine ⟨by simp [h1], ?_⟩
        intro i c' hi
        cases i with
        | zero =>
          simp only [List.getElem?_cons_zero, Option.some.injEq] at hi
          subst hi
          exact ⟨l, hl, by simp⟩
        | succ i =>
          simp only [List.getElem?_cons_succ] at hi ⊢
          exact h2 i c' hi

theorem allComps_spec {subs : List Subst} {comps : List Comp} (h : allComps subs = some comps) :
    subs.map (·.comp) = comps.map some := by
  induction subs generalizing comps with
  | nil =>
    simp only [allComps, Option.some.injEq] at h
    subst h; rfl
  | cons s t ih =>
    simp only [allComps] at h
    split at h
    · rename_i c l hc hl
      simp only [Option.some.injEq] at h
      subst h
      simp [hc, ih hl]
    · simp at h

/-- the compositions of the substances, in substance order (all of them when every substance has one) -/
def compsOf (s : RSys) : List Comp := s.substs.filterMap (·.2.comp)

/-- total amount of composition key `k` (an element; 0 = charge is skipped like in the code) in the state `c` -/
def elemTotal (s : RSys) (c : List Rat) (k : Nat) : Rat := elementTotal [0] (c.zip (compsOf s)) k

theorem allComps_filterMap {subs : List Subst} {comps : List Comp} (h : allComps subs = some comps) :
    subs.filterMap (·.comp) = comps ∧ comps.length = subs.length := by
  induction subs generalizing comps with
  | nil =>
    simp only [allComps, Option.some.injEq] at h
    subst h; simp
  | cons s t ih =>
    simp only [allComps] at h
    split at h
    · rename_i c l hc hl
      simp only [Option.some.injEq] at h
      subst h
      obtain ⟨h1, h2⟩ := ih hl
      simp [List.filterMap_cons, hc, h1, h2]
    · simp at h

theorem upperConcBounds_ok {s : RSys} {init : List Rat} {skip : List Nat} {bs : List (Option Rat)}
    (h : upperConcBounds s init skip = .ok bs) :
    init.length = s.ns ∧ (compsOf s).length = s.ns ∧
      boundsLoop (elementTotal skip (init.zip (compsOf s))) (compsOf s) = .ok bs := by
  simp only [upperConcBounds, asPerSubstanceArrayList] at h
  split at h
  · simp at h
  · rename_i concs hc
    split at hc
    · rename_i hlen
      simp only [Except.ok.injEq] at hc
      subst hc
      split at h
      · simp at h
      · rename_i comps hcomps
        obtain ⟨h1, h2⟩ := allComps_filterMap hcomps
        have e : compsOf s = comps := by
          simp only [compsOf]; rw [← h1, List.filterMap_map]; rfl
        rw [e]
        exact ⟨hlen, by simpa [RSys.ns] using h2, h⟩
    · simp at hc

theorem isReverse_iff (keys : List String) (r1 r2 : Rxn) :
    isReverse keys r1 r2 = true ↔ ∀ k ∈ keys, r1.allReac k = r2.allProd k ∧ r1.allProd k = r2.allReac k := by
  simp only [isReverse, Bool.and_eq_true, beq_iff_eq, List.map_inj_left]
  constructor
  · rintro ⟨h1, h2⟩ k hk; exact ⟨h1 k hk, h2 k hk⟩
  · intro h; exact ⟨fun k hk => (h k hk).1, fun k hk => (h k hk).2⟩

/-! ### split: the reaction graph -/

/-- key set of reaction `a` (none out of range) -/
def keysAt (ks : List (List String)) (a : Nat) : List String :=
  match ks[a]? with
  | some l => l
  | none => []

/-- reactions `a` and `b` share a species -/
def Adj (ks : List (List String)) (a b : Nat) : Prop := ∃ k, k ∈ keysAt ks a ∧ k ∈ keysAt ks b

/-- `b` is reachable from `a` by a chain of reactions taken from `S`, consecutive ones sharing a species -/
inductive Reach (ks : List (List String)) (S : List Nat) : Nat → Nat → Prop
  | refl (a : Nat) : Reach ks S a a
  | tail {a b c : Nat} : Reach ks S a b → c ∈ S → Adj ks b c → Reach ks S a c

theorem Adj.symm {ks : List (List String)} {a b : Nat} (h : Adj ks a b) : Adj ks b a := by
  obtain ⟨k, h1, h2⟩ := h; exact ⟨k, h2, h1⟩

theorem Reach.mono {ks : List (List String)} {S S' : List Nat} (hS : ∀ x ∈ S, x ∈ S') {a b : Nat}
    (h : Reach ks S a b) : Reach ks S' a b := by
  induction h with
  | refl => exact .refl _
  | tail _ hc hadj ih => exact .tail ih (hS _ hc) hadj

theorem Reach.trans {ks : List (List String)} {S : List Nat} {a b c : Nat}
    (h1 : Reach ks S a b) (h2 : Reach ks S b c) : Reach ks S a c := by
  induction h2 with
  | refl => exact h1
  | tail _ hc hadj ih => exact .tail ih hc hadj

theorem Reach.mem {ks : List (List String)} {S : List Nat} {a b : Nat} (h : Reach ks S a b) (ha : a ∈ S) : b ∈ S := by
  induction h with
  | refl => exact ha
  | tail _ hc _ _ => exact hc

theorem Reach.symm {ks : List (List String)} {S : List Nat} {a b : Nat} (h : Reach ks S a b) (ha : a ∈ S) :
    Reach ks S b a := by
  induction h with
  | refl => exact .refl _
  | tail hab hc hadj ih =>
    have hb := hab.mem ha
    exact Reach.trans (.tail (.refl _) hb hadj.symm) ih

/-- reachability is a property of the graph: it is transported by any relabelling of the reactions that keeps
their key sets -/
theorem Reach.relabel {ks ks' : List (List String)} {n : Nat} (σ : Nat → Nat)
    (hσ : ∀ a, a < n → σ a < n ∧ keysAt ks' (σ a) = keysAt ks a)
    {a b : Nat} (ha : a < n) (h : Reach ks (List.range n) a b) : Reach ks' (List.range n) (σ a) (σ b) := by
  induction h with
  | refl => exact .refl _
  | tail hab hc hadj ih =>
    rename_i b c
    have hb : b < n := by simpa using hab.mem (by simpa using ha)
    have hc' : c < n := by simpa using hc
    refine .tail ih (by simpa using (hσ c hc').1) ?_
    obtain ⟨k, h1, h2⟩ := hadj
    exact ⟨k, by rw [(hσ b hb).2]; exact h1, by rw [(hσ c hc').2]; exact h2⟩

theorem shares_iff (a b : List String) : shares a b = true ↔ ∃ k, k ∈ a ∧ k ∈ b := by
  simp [shares]

theorem shares_false_iff (a b : List String) : shares a b = false ↔ ∀ k, k ∈ a → k ∉ b := by
  rw [← Bool.not_eq_true, shares_iff]
  constructor
  · intro h k ha hb; exact h ⟨k, ha, hb⟩
  · rintro h ⟨k, ha, hb⟩; exact h k ha hb

/-- what `split` maintains for every group: the substance set is the union of the key sets of the group's
reactions, and the group is connected -/
structure GroupOK (ks : List (List String)) (g : Group) : Prop where
  keys : ∀ k, k ∈ g.2 ↔ ∃ a ∈ g.1, k ∈ keysAt ks a
  conn : ∀ a ∈ g.1, ∀ b ∈ g.1, Reach ks g.1 a b
  nonempty : g.1 ≠ []

theorem GroupOK.single (ks : List (List String)) (i : Nat) : GroupOK ks ([i], keysAt ks i) where
  keys := by intro k; simp
  conn := by
    intro a ha b hb
    simp only [List.mem_singleton] at ha hb
    subst ha; subst hb; exact .refl _
  nonempty := by simp

theorem GroupOK.fuse {ks : List (List String)} {g h : Group} (hg : GroupOK ks g) (hh : GroupOK ks h)
    (hs : shares g.2 h.2 = true) : GroupOK ks (g.1 ++ h.1, g.2 ++ h.2) where
  nonempty := by
    have := hg.nonempty
    intro h0
    exact this (List.append_eq_nil_iff.mp h0).1
  keys := by
    intro k
    simp only [List.mem_append, hg.keys, hh.keys]
    constructor
    · rintro (⟨a, ha, hk⟩ | ⟨a, ha, hk⟩)
      · exact ⟨a, Or.inl ha, hk⟩
      · exact ⟨a, Or.inr ha, hk⟩
    · rintro ⟨a, ha | ha, hk⟩
      · exact Or.inl ⟨a, ha, hk⟩
      · exact Or.inr ⟨a, ha, hk⟩
  conn := by
    obtain ⟨k, hk1, hk2⟩ := (shares_iff _ _).mp hs
    obtain ⟨x, hx, hkx⟩ := (hg.keys k).mp hk1
    obtain ⟨y, hy, hky⟩ := (hh.keys k).mp hk2
    have hadj : Adj ks x y := ⟨k, hkx, hky⟩
    have sub1 : ∀ z ∈ g.1, z ∈ g.1 ++ h.1 := fun z hz => List.mem_append_left _ hz
    have sub2 : ∀ z ∈ h.1, z ∈ g.1 ++ h.1 := fun z hz => List.mem_append_right _ hz
    have hxy : Reach ks (g.1 ++ h.1) x y := .tail (.refl _) (sub2 y hy) hadj
    have hyx : Reach ks (g.1 ++ h.1) y x := .tail (.refl _) (sub1 x hx) hadj.symm
    intro a ha b hb
    simp only [List.mem_append] at ha hb
    rcases ha with ha | ha <;> rcases hb with hb | hb
    · exact (hg.conn a ha b hb).mono sub1
    · exact (((hg.conn a ha x hx).mono sub1).trans hxy).trans ((hh.conn y hy b hb).mono sub2)
    · exact (((hh.conn a ha y hy).mono sub2).trans hyx).trans ((hg.conn x hx b hb).mono sub1)
    · exact (hh.conn a ha b hb).mono sub2

def flatIdx (gs : List Group) : List Nat := gs.flatMap (·.1)

theorem flatIdx_cons (g : Group) (t : List Group) : flatIdx (g :: t) = g.1 ++ flatIdx t := by
  simp [flatIdx]

theorem flatIdx_append (a b : List Group) : flatIdx (a ++ b) = flatIdx a ++ flatIdx b := by
  simp [flatIdx]

theorem place_some {ks : List (List String)} {i : Nat} {groups gs' : List Group}
    (hok : ∀ g ∈ groups, GroupOK ks g) (h : place i (keysAt ks i) groups = some gs') :
    (∀ g ∈ gs', GroupOK ks g) ∧ (flatIdx gs').Perm (i :: flatIdx groups) := by
  induction groups generalizing gs' with
  | nil => simp [place] at h
  | cons g t ih =>
    simp only [place] at h
    split at h
    · rename_i hs
      simp only [Option.some.injEq] at h
      subst h
      constructor
      · intro g' hg'
        rcases List.mem_cons.mp hg' with rfl | hg'
        · have hs' : shares g.2 (keysAt ks i) = true := by
            obtain ⟨k, h1, h2⟩ := (shares_iff _ _).mp hs
            exact (shares_iff _ _).mpr ⟨k, h2, h1⟩
          exact GroupOK.fuse (hok g (by simp)) (GroupOK.single ks i) hs'
        · exact hok g' (by simp [hg'])
      · rw [flatIdx_cons, flatIdx_cons]
        simp only [List.append_assoc, List.singleton_append]
        exact List.perm_middle
    · split at h
      · rename_i t' ht'
        simp only [Option.some.injEq] at h
        subst h
        obtain ⟨h1, h2⟩ := ih (fun g' hg' => hok g' (by simp [hg'])) ht'
        constructor
        · intro g' hg'
          rcases List.mem_cons.mp hg' with rfl | hg'
          · exact hok _ (by simp)
          · exact h1 g' hg'
        · rw [flatIdx_cons, flatIdx_cons]
          exact (List.Perm.append_left g.1 h2).trans List.perm_middle
      · simp at h

theorem greedyStep_inv {ks : List (List String)} {i : Nat} {groups : List Group}
    (hok : ∀ g ∈ groups, GroupOK ks g) :
    (∀ g ∈ greedyStep groups i (keysAt ks i), GroupOK ks g) ∧
    (flatIdx (greedyStep groups i (keysAt ks i))).Perm (flatIdx groups ++ [i]) := by
  simp only [greedyStep]
  split
  · rename_i gs' h
    obtain ⟨h1, h2⟩ := place_some hok h
    refine ⟨h1, h2.trans ?_⟩
    have := List.perm_append_comm (l₁ := [i]) (l₂ := flatIdx groups)
    simpa using this
  · constructor
    · intro g hg
      rcases List.mem_append.mp hg with hg | hg
      · exact hok g hg
      · simp only [List.mem_singleton] at hg; subst hg; exact GroupOK.single ks i
    · rw [flatIdx_append]; simp [flatIdx]

theorem greedyFrom_inv (ks : List (List String)) (i : Nat) (groups : List Group) (rest : List (List String))
    (hrest : rest = ks.drop i) (hi : i ≤ ks.length)
    (hok : ∀ g ∈ groups, GroupOK ks g) (hperm : (flatIdx groups).Perm (List.range i)) :
    (∀ g ∈ greedyFrom i groups rest, GroupOK ks g) ∧
    (flatIdx (greedyFrom i groups rest)).Perm (List.range ks.length) := by
  induction rest generalizing i groups with
  | nil =>
    simp only [greedyFrom]
    have : ks.length ≤ i := by
      have := congrArg List.length hrest; simp at this; omega
    have e : i = ks.length := by omega
    subst e; exact ⟨hok, hperm⟩
  | cons rks rest' ih =>
    have hlt : i < ks.length := by
      by_contra hn
      have : ks.drop i = [] := List.drop_eq_nil_of_le (by omega)
      rw [this] at hrest; simp at hrest
    rw [List.drop_eq_getElem_cons hlt] at hrest
    simp only [List.cons.injEq] at hrest
    obtain ⟨hr1, hr2⟩ := hrest
    have hk : keysAt ks i = rks := by simp [keysAt, hlt, hr1]
    simp only [greedyFrom]
    rw [← hk]
    obtain ⟨h1, h2⟩ := greedyStep_inv (i := i) hok
    apply ih (i + 1) _ hr2 (by omega) h1
    rw [List.range_succ]
    exact h2.trans (List.Perm.append_right [i] hperm)

/-- disjoint substance sets -/
def Disj (g h : Group) : Prop := ∀ k, k ∈ g.2 → k ∉ h.2

theorem Disj.symm {g h : Group} (d : Disj g h) : Disj h g := fun k hk hk' => d k hk' hk

theorem fuseFirst_some {g : Group} {rest : List Group} {g' : Group} {rest' : List Group}
    (h : fuseFirst g rest = some (g', rest')) :
    ∃ x, x ∈ rest ∧ shares g.2 x.2 = true ∧ g' = (g.1 ++ x.1, g.2 ++ x.2) ∧ (x :: rest').Perm rest := by
  induction rest generalizing g' rest' with
  | nil => simp [fuseFirst] at h
  | cons y t ih =>
    simp only [fuseFirst] at h
    split at h
    · rename_i hs
      simp only [Option.some.injEq, Prod.mk.injEq] at h
      obtain ⟨rfl, rfl⟩ := h
      exact ⟨y, by simp, hs, rfl, List.Perm.refl _⟩
    · split at h
      · rename_i g'' t'' heq
        simp only [Option.some.injEq, Prod.mk.injEq] at h
        obtain ⟨rfl, rfl⟩ := h
        obtain ⟨x, hx, hs, hg, hp⟩ := ih heq
        exact ⟨x, by simp [hx], hs, hg, (List.Perm.swap y x t'').trans (List.Perm.cons y hp)⟩
      · simp at h

theorem fuseFirst_none {g : Group} {rest : List Group} (h : fuseFirst g rest = none) :
    ∀ x ∈ rest, shares g.2 x.2 = false := by
  induction rest with
  | nil => simp
  | cons y t ih =>
    simp only [fuseFirst] at h
    split at h
    · simp at h
    · rename_i hs
      split at h
      · simp at h
      · rename_i hn
        intro x hx
        rcases List.mem_cons.mp hx with rfl | hx
        · simpa using hs
        · exact ih hn x hx

/-- invariant of the `while True` loop of `split` and its conclusion at exit -/
theorem fuseLoop_inv (ks : List (List String)) (n : Nat) (done : List Group) (g : Group) (rest : List Group)
    (hn : rest.length = n)
    (hok : ∀ x ∈ done ++ g :: rest, GroupOK ks x)
    (hdd : done.Pairwise Disj) (hdr : ∀ d ∈ done, ∀ x ∈ g :: rest, Disj d x) :
    (∀ x ∈ fuseLoop done g rest, GroupOK ks x) ∧
    (flatIdx (fuseLoop done g rest)).Perm (flatIdx (done ++ g :: rest)) ∧
    (fuseLoop done g rest).Pairwise Disj := by
  induction n using Nat.strong_induction_on generalizing done g rest with
  | _ n ih =>
    rw [fuseLoop]
    split
    · rename_i g' rest' hff
      obtain ⟨x, hx, hs, hg', hp⟩ := fuseFirst_some hff
      have hlen := fuseFirst_length hff
      have hxok : GroupOK ks x := hok x (by simp [hx])
      have hgok : GroupOK ks g := hok g (by simp)
      have hsub : ∀ y ∈ rest', y ∈ rest := fun y hy => hp.subset (by simp [hy])
      obtain ⟨r1, r2, r3⟩ := ih rest'.length (by omega) done g' rest' rfl
        (by
          intro y hy
          rcases List.mem_append.mp hy with hy | hy
          · exact hok y (by simp [hy])
          · rcases List.mem_cons.mp hy with rfl | hy
            · rw [hg']; exact GroupOK.fuse hgok hxok hs
            · exact hok y (by simp [hsub y hy]))
        hdd
        (by
          intro d hd y hy
          rcases List.mem_cons.mp hy with rfl | hy
          · rw [hg']
            intro k hk
            have h1 := hdr d hd g (by simp) k hk
            have h2 := hdr d hd x (by simp [hx]) k hk
            simp only [List.mem_append, not_or]
            exact ⟨h1, h2⟩
          · exact hdr d hd y (by simp [hsub y hy]))
      refine ⟨r1, r2.trans ?_, r3⟩
      rw [flatIdx_append, flatIdx_append, flatIdx_cons, flatIdx_cons, hg']
      apply List.Perm.append_left
      simp only [List.append_assoc]
      apply List.Perm.append_left
      have := List.Perm.flatMap_right (fun (y : Group) => y.1) hp
      simpa [flatIdx] using this
    · rename_i hff
      have hnone := fuseFirst_none hff
      have hgd : ∀ x ∈ rest, Disj g x := fun x hx => (shares_false_iff _ _).mp (hnone x hx)
      split
      · refine ⟨by simpa using hok, List.Perm.refl _, ?_⟩
        rw [List.pairwise_append]
        exact ⟨hdd, by simp, fun d hd y hy => by
          simp only [List.mem_singleton] at hy; subst hy; exact hdr d hd _ (by simp)⟩
      · rename_i g2 rest2 _heq
        obtain ⟨r1, r2, r3⟩ := ih rest2.length (by simp at hn; omega) (done ++ [g]) g2 rest2 rfl
          (by simpa using hok)
          (by
            rw [List.pairwise_append]
            exact ⟨hdd, by simp, fun d hd y hy => by
              simp only [List.mem_singleton] at hy; subst hy; exact hdr d hd _ (by simp)⟩)
          (by
            intro d hd y hy
            rcases List.mem_append.mp hd with hd | hd
            · exact hdr d hd y (by simp [List.mem_cons.mp hy])
            · simp only [List.mem_singleton] at hd; subst hd
              exact hgd y hy)
        refine ⟨r1, r2.trans ?_, r3⟩
        simp

theorem splitGroups_inv (ks : List (List String)) :
    (∀ g ∈ splitGroups ks, GroupOK ks g) ∧
    (flatIdx (splitGroups ks)).Perm (List.range ks.length) ∧
    (splitGroups ks).Pairwise Disj := by
  obtain ⟨h1, h2⟩ := greedyFrom_inv ks 0 [] ks (by simp) (by omega) (by simp) (by simp [flatIdx])
  simp only [splitGroups]
  cases hg : greedyFrom 0 [] ks with
  | nil =>
    rw [hg] at h2
    simp only [fuse]
    exact ⟨by simp, h2, List.Pairwise.nil⟩
  | cons g rest =>
    rw [hg] at h1 h2
    simp only [fuse]
    obtain ⟨r1, r2, r3⟩ := fuseLoop_inv ks rest.length [] g rest rfl (by simpa using h1) List.Pairwise.nil (by simp)
    exact ⟨r1, r2.trans (by simpa using h2), r3⟩

theorem pairwise_disj_forall {l : List Group} (h : l.Pairwise Disj) {a b : Group} (ha : a ∈ l) (hb : b ∈ l)
    (hne : a ≠ b) : Disj a b := by
  induction l with
  | nil => simp at ha
  | cons x t ih =>
    rw [List.pairwise_cons] at h
    rcases List.mem_cons.mp ha with e1 | ha <;> rcases List.mem_cons.mp hb with e2 | hb
    · exact absurd (e1.trans e2.symm) hne
    · rw [e1]; exact h.1 b hb
    · rw [e2]; exact (h.1 a ha).symm
    · exact ih h.2 ha hb

/-! ### split: the sub-systems -/

theorem pick_isSome {rxns : List Rxn} {idx : List Nat} (h : ∀ a ∈ idx, a < rxns.length) :
    ∃ l, pick rxns idx = some l := by
  induction idx with
  | nil => exact ⟨[], rfl⟩
  | cons a t ih =>
    obtain ⟨l, hl⟩ := ih (fun x hx => h x (by simp [hx]))
    have ha : a < rxns.length := h a (by simp)
    exact ⟨rxns[a] :: l, by simp [pick, hl, ha]⟩

theorem pick_spec {rxns : List Rxn} {idx : List Nat} {l : List Rxn} (h : pick rxns idx = some l) :
    idx.map (fun a => rxns[a]?) = l.map some := by
  induction idx generalizing l with
  | nil => simp only [pick, Option.some.injEq] at h; subst h; rfl
  | cons a t ih =>
    simp only [pick] at h
    split at h
    · rename_i r l' hr hl'
      simp only [Option.some.injEq] at h
      subst h
      simp [hr, ih hl']
    · simp at h

/-- relation between a group computed by `split` and the sub-system built from it -/
def PartOf (s : RSys) (g : Group) (p : List Nat × RSys) : Prop :=
  p.1 = g.1 ∧ g.1.map (fun a => s.rxns[a]?) = p.2.rxns.map some ∧
  p.2.substs = s.substs.filter (fun kv => g.2.contains kv.1)

theorem buildGroups_ok {s : RSys} {checks : List Check} {groups : List Group} {l : List (List Nat × RSys)}
    (h : buildGroups s checks groups = .ok l) :
    List.Forall₂ (PartOf s) groups l ∧ ∀ p ∈ l, ∀ c ∈ checks, runCheck p.2 c = true := by
  induction groups generalizing l with
  | nil =>
    simp only [buildGroups, Except.ok.injEq] at h
    subst h; exact ⟨List.Forall₂.nil, by simp⟩
  | cons g t ih =>
    simp only [buildGroups] at h
    split at h
    · simp at h
    · rename_i rx hrx
      split at h
      · simp at h
      · rename_i sub hsub
        split at h
        · simp at h
        · rename_i l' hl'
          simp only [Except.ok.injEq] at h
          subst h
          obtain ⟨e, hff⟩ := make_odict_ok hsub
          obtain ⟨h1, h2⟩ := ih hl'
          refine ⟨List.Forall₂.cons ⟨rfl, ?_, ?_⟩ h1, ?_⟩
          · rw [e]; exact pick_spec hrx
          · rw [e]
          · intro p hp c hc
            rcases List.mem_cons.mp hp with rfl | hp
            · simp only; rw [e]; exact firstFailing_none hff c hc
            · exact h2 p hp c hc

theorem buildGroups_nochecks {s : RSys} {groups : List Group}
    (hidx : ∀ g ∈ groups, ∀ a ∈ g.1, a < s.rxns.length) : ∃ l, buildGroups s [] groups = .ok l := by
  induction groups with
  | nil => exact ⟨[], rfl⟩
  | cons g t ih =>
    obtain ⟨l, hl⟩ := ih (fun g' hg' => hidx g' (by simp [hg']))
    obtain ⟨rx, hrx⟩ := pick_isSome (hidx g (by simp))
    exact ⟨(g.1, ⟨rx, s.substs.filter (fun kv => g.2.contains kv.1)⟩) :: l, by
      simp only [buildGroups, hrx, make_odict_nochecks, hl]⟩

theorem mem_flatIdx {gs : List Group} {a : Nat} : a ∈ flatIdx gs ↔ ∃ g ∈ gs, a ∈ g.1 := by
  simp [flatIdx, List.mem_flatMap]

/-! ### constructor: ordering and checks -/

theorem sortSubstances_sorted (od : ODict) : (sortSubstances od).Pairwise (fun a b => a.1 ≤ b.1) := by
  have := List.pairwise_mergeSort (le := fun (a b : String × Subst) => decide (a.1 ≤ b.1))
    (by intro a b c h1 h2; simp only [decide_eq_true_eq] at h1 h2 ⊢; exact String.le_trans h1 h2)
    (by intro a b; simp only [Bool.or_eq_true, decide_eq_true_eq]; exact String.le_total a.1 b.1) od
  simpa [sortSubstances] using this

theorem sortSubstances_perm (od : ODict) : (sortSubstances od).Perm od := List.mergeSort_perm od _

theorem mem_okeys_odictUpdate (od items : ODict) (k : String) :
    k ∈ okeys (odictUpdate od items) ↔ k ∈ okeys od ∨ k ∈ okeys items := by
  induction items generalizing od with
  | nil => simp [odictUpdate, okeys]
  | cons x t ih =>
    rw [odictUpdate_cons, ih, okeys_odictSet, okeys_cons]
    by_cases hx : x.1 ∈ okeys od
    · simp only [hx, ↓reduceIte, List.mem_cons]
      constructor
      · rintro (h | h)
        · exact Or.inl h
        · exact Or.inr (Or.inr h)
      · rintro (h | h | h)
        · exact Or.inl h
        · exact Or.inl (h ▸ hx)
        · exact Or.inr h
    · simp only [hx, ↓reduceIte, List.mem_append, List.mem_singleton, List.mem_cons]
      tauto

theorem checkSubstanceKeys_iff (s : RSys) :
    checkSubstanceKeys s = true ↔ ∀ r ∈ s.rxns, ∀ k ∈ r.keys, k ∈ s.keys := by
  simp [checkSubstanceKeys, List.all_eq_true]

theorem hasDuplicate_false_iff (l : List Rxn) :
    hasDuplicate l = false ↔ l.Pairwise (fun a b => a.pyEq b = false) := by
  induction l with
  | nil => simp [hasDuplicate]
  | cons r t ih =>
    simp only [hasDuplicate, Bool.or_eq_false_iff, List.any_eq_false, List.pairwise_cons, ih]
    constructor
    · rintro ⟨h1, h2⟩; exact ⟨fun b hb => by simpa using h1 b hb, h2⟩
    · rintro ⟨h1, h2⟩; exact ⟨fun b hb => by simpa using h1 b hb, h2⟩

theorem dupNamesLoop_iff (seen : List String) (l : List Rxn) :
    dupNamesLoop seen l = true ↔ (l.filterMap (·.name)).Nodup ∧ ∀ n ∈ l.filterMap (·.name), n ∉ seen := by
  induction l generalizing seen with
  | nil => simp [dupNamesLoop]
  | cons r t ih =>
    simp only [dupNamesLoop]
    cases hn : r.name with
    | none => simp [List.filterMap_cons, hn, ih]
    | some n =>
      simp only [List.filterMap_cons, hn, List.nodup_cons, List.mem_cons, forall_eq_or_imp]
      by_cases hs : seen.contains n = true
      · simp only [hs, ↓reduceIte, Bool.false_eq_true, false_iff]
        rintro ⟨_, h, _⟩
        exact h (by simpa using hs)
      · simp only [hs, Bool.false_eq_true, ↓reduceIte, ih, List.mem_cons, not_or]
        have hs' : n ∉ seen := by simpa using hs
        constructor
        · rintro ⟨h1, h2⟩
          refine ⟨⟨fun hm => (h2 n hm).1 rfl, h1⟩, hs', fun m hm => (h2 m hm).2⟩
        · rintro ⟨⟨h1, h2⟩, h3, h4⟩
          refine ⟨h2, fun m hm => ⟨?_, h4 m hm⟩⟩
          intro e; subst e; exact h1 hm

/-- does `sort_substances_inplace` run: the explicit argument, else the default by type of `substances` -/
def sortApplies (rxns : List Rxn) (arg : SubstArg) (sort : Option Bool) : Bool :=
  match sort with
  | some b => b
  | none => (substancesOf rxns arg).2

theorem make_ok {rxns : List Rxn} {arg : SubstArg} {checks : List Check} {sort : Option Bool} {s : RSys}
    (h : RSys.make rxns arg checks sort = .ok s) :
    firstFailing ⟨rxns, (substancesOf rxns arg).1⟩ checks = none ∧
    s = (if sortApplies rxns arg sort then ⟨rxns, sortSubstances (substancesOf rxns arg).1⟩
         else ⟨rxns, (substancesOf rxns arg).1⟩) := by
  simp only [RSys.make] at h
  split at h
  · simp at h
  · rename_i hff
    simp only [Except.ok.injEq] at h
    exact ⟨hff, h.symm⟩

/-! ### concatenate and histories -/

/-- what the definition of `concatenate` says about the reactions: a system's reactions whose four stoichiometry dicts
equal those of no reaction accumulated so far are appended to the sum, the others go to the duplicates -/
def concatRxns (st : List Rxn × List Rxn) (rs : RSys) : List Rxn × List Rxn :=
  (st.1 ++ rs.rxns.filter (fun r => !(st.1.any fun rr => r.sameStoich rr)),
   st.2 ++ rs.rxns.filter (fun r => st.1.any fun rr => r.sameStoich rr))

theorem concatStep_rxns (st : RSys × RSys) (rs : RSys) :
    ((concatStep st rs).1.rxns, (concatStep st rs).2.rxns) = concatRxns (st.1.rxns, st.2.rxns) rs := by
  have e1 : concatPred st.1 = fun r => !(st.1.rxns.any fun rr => r.sameStoich rr) := rfl
  have e2 : (fun r => !concatPred st.1 r) = fun r => st.1.rxns.any fun rr => r.sameStoich rr := by
    funext r; simp [concatPred]
  simp only [concatStep, subset_nochecks, add, iadd, concatRxns, e2]
  rw [e1]

theorem foldl_concatRxns_of_steps (rest : List RSys) (st : RSys × RSys) :
    ((rest.foldl concatStep st).1.rxns, (rest.foldl concatStep st).2.rxns) =
      rest.foldl concatRxns (st.1.rxns, st.2.rxns) := by
  induction rest generalizing st with
  | nil => rfl
  | cons rs t ih => rw [List.foldl_cons, ih, concatStep_rxns, List.foldl_cons]

theorem runOp_prefix (store store' : List RSys) (op : HOp) (hop : ∀ i j, op ≠ .iadd i j)
    (h : runOp store op = .ok store') : store <+: store' := by
  cases op with
  | add i j =>
    simp only [runOp] at h
    split at h <;> simp only [Except.ok.injEq, reduceCtorEq] at h
    exact ⟨_, h⟩
  | iadd i j => exact absurd rfl (hop i j)
  | query i =>
    simp only [runOp] at h
    split at h <;> simp only [Except.ok.injEq, reduceCtorEq] at h
    exact ⟨[], by simpa using h⟩
  | subset i p =>
    simp only [runOp] at h
    split at h
    · split at h <;> simp only [Except.ok.injEq, reduceCtorEq] at h
      exact ⟨_, h⟩
    · simp at h
  | split i =>
    simp only [runOp] at h
    split at h
    · split at h <;> simp only [Except.ok.injEq, reduceCtorEq] at h
      exact ⟨_, h⟩
    · simp at h
  | concat is =>
    simp only [runOp] at h
    split at h
    · split at h
      · simp only [Except.ok.injEq] at h
        split at h <;> exact ⟨_, h⟩
      · simp at h
    · simp at h

theorem runHistory_prefix (ops : List HOp) (hops : ∀ op ∈ ops, ∀ i j, op ≠ .iadd i j) (store store' : List RSys)
    (h : runHistory store ops = .ok store') : store <+: store' := by
  induction ops generalizing store with
  | nil => simp only [runHistory, Except.ok.injEq] at h; subst h; exact List.prefix_refl _
  | cons op t ih =>
    simp only [runHistory] at h
    split at h
    · simp at h
    · rename_i st hst
      exact (runOp_prefix store st op (hops op (by simp)) hst).trans
        (ih (fun o ho => hops o (by simp [ho])) st h)

/-! ### concatenate: reactions AND substances -/

/-- one step of `concatenate` written out by its definition: the reactions of `rs` that are no stoichiometric duplicate of
a reaction accumulated so far are appended to the sum together with (an OrderedDict update by) the substances of `rs`
occurring in them; the others, with their substances, go to the duplicates system -/
def concatSpecStep (st : RSys × RSys) (rs : RSys) : RSys × RSys :=
  (⟨st.1.rxns ++ rs.rxns.filter (fun r => !(st.1.rxns.any fun rr => r.sameStoich rr)),
    odictUpdate st.1.substs (newSubstances rs (rs.rxns.filter fun r => !(st.1.rxns.any fun rr => r.sameStoich rr)))⟩,
   ⟨st.2.rxns ++ rs.rxns.filter (fun r => st.1.rxns.any fun rr => r.sameStoich rr),
    odictUpdate st.2.substs (newSubstances rs (rs.rxns.filter fun r => st.1.rxns.any fun rr => r.sameStoich rr))⟩)

theorem okeys_prefix_odictUpdate (od items : ODict) : okeys od <+: okeys (odictUpdate od items) := by
  induction items generalizing od with
  | nil => exact List.prefix_refl _
  | cons x t ih =>
    rw [odictUpdate_cons]
    refine List.IsPrefix.trans ?_ (ih _)
    rw [okeys_odictSet]
    split
    · exact List.prefix_refl _
    · exact List.prefix_append _ _

theorem concatStep_eq (st : RSys × RSys) (rs : RSys) (h : st.1.keys.Nodup) :
    concatStep st rs = concatSpecStep st rs := by
  have e1 : concatPred st.1 = fun r => !(st.1.rxns.any fun rr => r.sameStoich rr) := rfl
  have e2 : (fun r => !concatPred st.1 r) = fun r => st.1.rxns.any fun rr => r.sameStoich rr := by
    funext r; simp [concatPred]
  simp only [concatStep, subset_nochecks, add_eq_iadd _ _ h, iadd, concatSpecStep, e2]
  rw [e1]

theorem foldl_concatStep_eq (rest : List RSys) (st : RSys × RSys) (h : st.1.keys.Nodup) :
    rest.foldl concatStep st = rest.foldl concatSpecStep st ∧
    (rest.foldl concatStep st).1.keys.Nodup ∧ st.1.keys <+: (rest.foldl concatStep st).1.keys := by
  induction rest generalizing st with
  | nil => exact ⟨rfl, h, List.prefix_refl _⟩
  | cons rs t ih =>
    simp only [List.foldl_cons]
    have e := concatStep_eq st rs h
    have hn : (concatStep st rs).1.keys.Nodup := by
      rw [e]; exact odictUpdate_nodup _ _ (by simpa [okeys, RSys.keys] using h)
    have hp : st.1.keys <+: (concatStep st rs).1.keys := by
      rw [e]; exact okeys_prefix_odictUpdate _ _
    obtain ⟨h1, h2, h3⟩ := ih (concatStep st rs) hn
    refine ⟨?_, h2, hp.trans h3⟩
    rw [h1, e]

/-! ### as_substance_index, __eq__ -/

theorem asSubstanceIndex_some {s : RSys} {k : String} {i : Nat} (h : asSubstanceIndex s k = some i) :
    s.keys[i]? = some k ∧ ∀ j, j < i → s.keys[j]? ≠ some k := by
  simp only [asSubstanceIndex] at h
  split at h
  · rename_i hlt
    simp only [Option.some.injEq] at h
    subst h
    constructor
    · have := List.findIdx_getElem (w := hlt)
      rw [List.getElem?_eq_getElem hlt]
      simpa using this
    · intro j hj hjk
      have hjl : j < s.keys.length := by omega
      have := List.not_of_lt_findIdx hj
      rw [List.getElem?_eq_getElem hjl] at hjk
      simp only [Option.some.injEq] at hjk
      simp [hjk] at this
  · simp at h

theorem asSubstanceIndex_none (s : RSys) (k : String) : asSubstanceIndex s k = none ↔ k ∉ s.keys := by
  simp only [asSubstanceIndex]
  split
  · rename_i hlt
    simp only [reduceCtorEq, false_iff, not_not]
    obtain ⟨x, hx, hp⟩ := List.findIdx_lt_length.mp hlt
    simp only [beq_iff_eq] at hp
    exact hp ▸ hx
  · rename_i hge
    simp only [true_iff]
    intro hk
    exact hge (List.findIdx_lt_length.mpr ⟨k, hk, by simp⟩)

theorem listPyEq_iff (a b : List Rxn) :
    listPyEq a b = true ↔ List.Forall₂ (fun x y => x.pyEq y = true) a b := by
  induction a generalizing b with
  | nil =>
    cases b with
    | nil => simp [listPyEq]
    | cons y t => simp only [listPyEq, Bool.false_eq_true, false_iff]; intro h; cases h
  | cons x s ih =>
    cases b with
    | nil => simp only [listPyEq, Bool.false_eq_true, false_iff]; intro h; cases h
    | cons y t => simp [listPyEq, ih]

theorem Rxn.pyEq_iff (a b : Rxn) :
    a.pyEq b = true ↔ a.reac = b.reac ∧ a.prod = b.prod ∧ a.param = b.param ∧ a.paramB = b.paramB ∧
      a.inactReac = b.inactReac ∧ a.inactProd = b.inactProd := by
  simp only [Rxn.pyEq, Bool.and_eq_true, beq_iff_eq]
  tauto

/-! ### the whole constructor (`makeFull`), reflexivity of `==`, refusal of negative totals -/

theorem makeFull_explicit (rxns : List Rxn) (arg : SubstArg) (cs : List Check) (sort : Option Bool) :
    RSys.makeFull rxns arg (some cs) none sort false =
      match RSys.make rxns arg cs sort with
      | .ok s => .ok s
      | .error c => .error (.check c) := by
  simp only [RSys.makeFull, RSys.make, Bool.false_and, Bool.false_eq_true, ↓reduceIte]
  cases firstFailing ⟨rxns, (substancesOf rxns arg).1⟩ cs <;> rfl

theorem makeFull_missing_ok {rxns : List Rxn} {arg : SubstArg} {checks dont : Option (List Check)} {sort : Option Bool}
    {s : RSys} (h : RSys.makeFull rxns arg checks dont sort true = .ok s) :
    rxns ≠ [] ∧ s.rxns = rxns ∧ s.substs.Perm (addMissing (substancesOf rxns arg).1 rxns) ∧
    (sortApplies rxns arg sort = true → s.substs.Pairwise (fun a b => a.1 ≤ b.1)) ∧
    (sortApplies rxns arg sort = false → s.substs = addMissing (substancesOf rxns arg).1 rxns) := by
  have hne : rxns.isEmpty = false := by
    cases hr : rxns.isEmpty
    · rfl
    · simp [RSys.makeFull, hr] at h
  have hs : s = (if sortApplies rxns arg sort = true then
        (⟨rxns, sortSubstances (addMissing (substancesOf rxns arg).1 rxns)⟩ : RSys)
      else ⟨rxns, addMissing (substancesOf rxns arg).1 rxns⟩) := by
    unfold sortApplies
    cases checks with
    | none =>
      simp only [RSys.makeFull, Bool.true_and, hne, Bool.false_eq_true, ↓reduceIte] at h
      have aux : ∀ (c : Prop) [Decidable c] (x : RSys),
          (if c then Except.ok x else (Except.error MakeErr.anyCheck : Except MakeErr RSys)) = .ok s → s = x := by
        intro c _ x hx
        split at hx
        · injection hx with hx; exact hx.symm
        · simp at hx
      cases dont <;> exact aux _ _ h
    | some cs =>
      cases dont with
      | some d => simp [RSys.makeFull, hne] at h
      | none =>
        simp only [RSys.makeFull, Bool.true_and, hne, Bool.false_eq_true, ↓reduceIte] at h
        split at h
        · simp at h
        · injection h with h; exact h.symm
  refine ⟨by simpa using hne, ?_⟩
  cases hd : sortApplies rxns arg sort
  · simp only [hd, Bool.false_eq_true, ↓reduceIte] at hs; subst hs
    exact ⟨rfl, List.Perm.refl _, by simp, fun _ => rfl⟩
  · simp only [hd, ↓reduceIte] at hs; subst hs
    exact ⟨rfl, sortSubstances_perm _, fun _ => sortSubstances_sorted _, by simp⟩

theorem mem_okeys_addMissing (od : ODict) (rxns : List Rxn) (k : String) :
    k ∈ okeys (addMissing od rxns) ↔ k ∈ okeys od ∨ ∃ r ∈ rxns, k ∈ r.keys := by
  have e : ∀ L : List String, okeys (L.map fun k => (k, ({ name := k } : Subst))) = L := by
    intro L
    induction L with
    | nil => rfl
    | cons a t ih => simp only [okeys, List.map_cons, List.cons.injEq, true_and] at ih ⊢; exact ih
  rw [addMissing, mem_okeys_odictUpdate, e]
  simp only [List.mem_filter, allKeys, List.mem_flatMap]
  constructor
  · rintro (h | ⟨⟨r, hr, hk⟩, _⟩)
    · exact Or.inl h
    · exact Or.inr ⟨r, hr, hk⟩
  · rintro (h | ⟨r, hr, hk⟩)
    · exact Or.inl h
    · by_cases hin : k ∈ okeys od
      · exact Or.inl hin
      · right
        exact ⟨⟨r, hr, hk⟩, by simpa [okeys] using hin⟩

theorem Rxn.pyEq_refl (r : Rxn) : r.pyEq r = true := by simp [Rxn.pyEq]

theorem listPyEq_refl (l : List Rxn) : listPyEq l l = true := by
  induction l with
  | nil => rfl
  | cons a t ih => simp [listPyEq, Rxn.pyEq_refl, ih]

theorem SStoich.toStoich?_nonneg {s : SStoich} {t : Stoich} (h : s.toStoich? = some t) (k : String) : 0 ≤ s.get k := by
  induction s generalizing t with
  | nil => simp [SStoich.get]
  | cons a u ih =>
    obtain ⟨a1, a2⟩ := a
    simp only [SStoich.toStoich?, List.mapM_cons] at h
    by_cases ha : 0 ≤ a2
    · simp only [ha, ↓reduceIte, Option.pure_def, Option.bind_eq_bind, Option.bind_some] at h
      cases hu : List.mapM (fun kv : String × Int => if 0 ≤ kv.2 then some (kv.1, kv.2.toNat) else none) u with
      | none => simp [hu] at h
      | some t' =>
        have := ih (t := t') (by simpa [SStoich.toStoich?] using hu)
        simp only [SStoich.get, List.lookup_cons]
        by_cases hk : k == a1
        · simp [hk, ha]
        · simp only [hk]; exact this
    · simp [ha] at h

theorem mapM_option_mem {α β : Type} {f : α → Option β} {l : List α} {l' : List β} (h : l.mapM f = some l')
    (x : α) (hx : x ∈ l) : ∃ y, f x = some y := by
  induction l generalizing l' with
  | nil => simp at hx
  | cons a t ih =>
    simp only [List.mapM_cons, Option.pure_def, Option.bind_eq_bind] at h
    cases ha : f a with
    | none => simp [ha] at h
    | some b =>
      cases ht : t.mapM f with
      | none => simp [ha, ht] at h
      | some t' =>
        rcases List.mem_cons.mp hx with rfl | hx
        · exact ⟨b, ha⟩
        · exact ih ht hx

/-! ### when does `upper_conc_bounds` answer -/

theorem allComps_isSome_iff (subs : List Subst) :
    (∃ comps, allComps subs = some comps) ↔ ∀ s ∈ subs, s.comp.isSome = true := by
  induction subs with
  | nil => simp [allComps]
  | cons a t ih =>
    simp only [allComps, List.mem_cons, forall_eq_or_imp]
    cases ha : a.comp with
    | none => simp
    | some c =>
      simp only [Option.isSome_some, true_and]
      rw [← ih]
      cases allComps t <;> simp

theorem chooseFrom_ok_iff (total : Nat → Rat) (comp : Comp) :
    (∃ l, chooseFrom total comp = .ok l) ↔ ∀ kv ∈ comp, kv.1 ≠ 0 → kv.2 ≠ 0 := by
  induction comp with
  | nil => simp [chooseFrom]
  | cons a t ih =>
    obtain ⟨k, v⟩ := a
    simp only [chooseFrom, List.mem_cons, forall_eq_or_imp]
    by_cases hk : k = 0
    · simp only [hk, ↓reduceIte, ne_eq, not_true_eq_false, false_implies, true_and]
      exact ih
    · by_cases hv : v = 0
      · simp [hk, hv]
      · simp only [hk, ↓reduceIte, hv, ne_eq, not_false_eq_true, forall_const, true_and]
        rw [← ih]
        cases chooseFrom total t <;> simp

theorem boundsLoop_ok_iff (total : Nat → Rat) (comps : List Comp) :
    (∃ bs, boundsLoop total comps = .ok bs) ↔ ∀ c ∈ comps, ∀ kv ∈ c, kv.1 ≠ 0 → kv.2 ≠ 0 := by
  induction comps with
  | nil => simp [boundsLoop]
  | cons c t ih =>
    simp only [boundsLoop, List.mem_cons, forall_eq_or_imp]
    rw [← chooseFrom_ok_iff total c, ← ih]
    cases chooseFrom total c with
    | error e => simp
    | ok l => cases boundsLoop total t <;> simp

theorem upperConcBounds_ok_iff (s : RSys) (init : List Rat) (skip : List Nat) :
    (∃ bs, upperConcBounds s init skip = .ok bs) ↔
      init.length = s.ns ∧ (∀ kv ∈ s.substs, kv.2.comp.isSome = true) ∧
      ∀ c ∈ compsOf s, ∀ kv ∈ c, kv.1 ≠ 0 → kv.2 ≠ 0 := by
  constructor
  · rintro ⟨bs, h⟩
    obtain ⟨h1, _, h3⟩ := upperConcBounds_ok h
    refine ⟨h1, ?_, (boundsLoop_ok_iff _ _).mp ⟨bs, h3⟩⟩
    have : ∃ comps, allComps (s.substs.map (·.2)) = some comps := by
      simp only [upperConcBounds, asPerSubstanceArrayList] at h
      split at h
      · simp at h
      · split at h
        · simp at h
        · rename_i comps hc; exact ⟨comps, hc⟩
    intro kv hkv
    exact (allComps_isSome_iff _).mp this kv.2 (List.mem_map_of_mem hkv)
  · rintro ⟨h1, h2, h3⟩
    obtain ⟨comps, hc⟩ := (allComps_isSome_iff (s.substs.map (·.2))).mpr (by
      intro x hx
      obtain ⟨kv, hkv, rfl⟩ := List.mem_map.mp hx
      exact h2 kv hkv)
    have e : compsOf s = comps := by
      obtain ⟨e1, _⟩ := allComps_filterMap hc
      simp only [compsOf]; rw [← e1, List.filterMap_map]; rfl
    obtain ⟨bs, hbs⟩ := (boundsLoop_ok_iff (elementTotal skip (init.zip comps)) comps).mpr (e ▸ h3)
    exact ⟨bs, by simp [upperConcBounds, asPerSubstanceArrayList, h1, hc, hbs]⟩

/-! ### what a user needs to know about `concatenate` -/

theorem foldl_concatRxns_spec (rest : List RSys) (st : List Rxn × List Rxn) :
    st.1 <+: (rest.foldl concatRxns st).1 ∧
    ((rest.foldl concatRxns st).1 ++ (rest.foldl concatRxns st).2).Perm (st.1 ++ st.2 ++ rest.flatMap (·.rxns)) ∧
    ∀ x ∈ (rest.foldl concatRxns st).2, x ∈ st.2 ∨ ∃ r ∈ (rest.foldl concatRxns st).1, x.sameStoich r = true := by
  induction rest generalizing st with
  | nil => exact ⟨List.prefix_refl _, by simp, fun x hx => Or.inl hx⟩
  | cons rs t ih =>
    simp only [List.foldl_cons, List.flatMap_cons]
    obtain ⟨h1, h2, h3⟩ := ih (concatRxns st rs)
    refine ⟨(List.prefix_append _ _).trans h1, h2.trans ?_, ?_⟩
    · simp only [concatRxns]
      have hf := List.filter_append_perm (fun r : Rxn => !(st.1.any fun rr => r.sameStoich rr)) rs.rxns
      have hf' : (rs.rxns.filter (fun r => !(st.1.any fun rr => r.sameStoich rr)) ++
          rs.rxns.filter (fun r => st.1.any fun rr => r.sameStoich rr)).Perm rs.rxns := by
        simpa using hf
      rw [← List.append_assoc (st.1 ++ st.2) rs.rxns]
      refine List.Perm.append_right _ ?_
      -- (a ++ Y) ++ (d ++ N) ~ a ++ d ++ (Y ++ N)
      have : (st.1 ++ rs.rxns.filter (fun r => !(st.1.any fun rr => r.sameStoich rr)) ++
          (st.2 ++ rs.rxns.filter (fun r => st.1.any fun rr => r.sameStoich rr))).Perm
          (st.1 ++ st.2 ++ (rs.rxns.filter (fun r => !(st.1.any fun rr => r.sameStoich rr)) ++
            rs.rxns.filter (fun r => st.1.any fun rr => r.sameStoich rr))) := by
        simp only [List.append_assoc]
        refine List.Perm.append_left _ ?_
        rw [← List.append_assoc, ← List.append_assoc]
        exact List.Perm.append_right _ List.perm_append_comm
      exact this.trans (List.Perm.append_left _ hf')
    · intro x hx
      rcases h3 x hx with h | h
      · simp only [concatRxns, List.mem_append, List.mem_filter] at h
        rcases h with h | ⟨_, hany⟩
        · exact Or.inl h
        · right
          obtain ⟨r, hr, hs⟩ := List.any_eq_true.mp hany
          exact ⟨r, h1.subset (List.mem_append_left _ hr), hs⟩
      · exact Or.inr h

/-! ### balanced reactions preserve the element totals; reachable states -/

/-- the net stoichiometry of reaction `r` as a per-substance vector (substance order of `s`) -/
def netVec (s : RSys) (r : Rxn) : List Rat := s.keys.map fun k => ((r.net k : Int) : Rat)

/-- one reaction step of extent `ξ` (any sign): `c + ξ · ν` -/
def stepState (c : List Rat) (ξ : Rat) (ν : List Rat) : List Rat := List.zipWith (fun x n => x + ξ * n) c ν

/-- every reaction of the system conserves every element (composition key ≠ 0; charge is skipped like in the code):
`Σ_i ν_i · atoms_i(k) = 0` -/
def Balanced (s : RSys) : Prop := ∀ r ∈ s.rxns, ∀ k, k ≠ 0 → elemTotal s (netVec s r) k = 0

/-- the element keys occurring in the compositions of the system -/
def elementsOf (s : RSys) : List Nat := (compsOf s).flatMap fun comp => comp.map (·.1)

/-- states reachable from `c0` by finitely many reaction steps (forward or backward, any extent) -/
inductive Reachable (s : RSys) (c0 : List Rat) : List Rat → Prop
  | start : Reachable s c0 c0
  | step {c : List Rat} (r : Rxn) (ξ : Rat) : Reachable s c0 c → r ∈ s.rxns → Reachable s c0 (stepState c ξ (netVec s r))

theorem compContribution_lin (skip : List Nat) (k : Nat) (x ξ n : Rat) (comp : Comp) :
    compContribution skip k (x + ξ * n) comp = compContribution skip k x comp + ξ * compContribution skip k n comp := by
  induction comp with
  | nil => simp [compContribution]
  | cons a t ih =>
    simp only [compContribution, List.map_cons, List.sum_cons] at ih ⊢
    rw [ih]
    split <;> ring

theorem elementTotal_step (skip : List Nat) (k : Nat) (ξ : Rat) (comps : List Comp) (c ν : List Rat)
    (h1 : c.length = comps.length) (h2 : ν.length = comps.length) :
    elementTotal skip ((stepState c ξ ν).zip comps) k =
      elementTotal skip (c.zip comps) k + ξ * elementTotal skip (ν.zip comps) k := by
  induction comps generalizing c ν with
  | nil => simp [elementTotal]
  | cons comp t ih =>
    cases c with
    | nil => simp at h1
    | cons x c' =>
      cases ν with
      | nil => simp at h2
      | cons n ν' =>
        have := ih c' ν' (by simpa using h1) (by simpa using h2)
        simp only [elementTotal, stepState, List.zipWith_cons_cons, List.zip_cons_cons, List.map_cons, List.sum_cons] at this ⊢
        rw [this, compContribution_lin]
        ring

theorem stepState_length (c ν : List Rat) (ξ : Rat) (h : ν.length = c.length) : (stepState c ξ ν).length = c.length := by
  simp [stepState, h]

theorem netVec_length (s : RSys) (r : Rxn) : (netVec s r).length = s.ns := by
  simp [netVec, RSys.keys, RSys.ns]

theorem elemTotal_step (s : RSys) (c : List Rat) (r : Rxn) (ξ : Rat) (k : Nat)
    (hc : c.length = s.ns) (hcomp : (compsOf s).length = s.ns) :
    elemTotal s (stepState c ξ (netVec s r)) k = elemTotal s c k + ξ * elemTotal s (netVec s r) k := by
  simp only [elemTotal]
  exact elementTotal_step [0] k ξ (compsOf s) c (netVec s r) (by omega) (by rw [netVec_length]; omega)

theorem compContribution_absent (skip : List Nat) (k : Nat) (x : Rat) (comp : Comp) (h : ∀ kv ∈ comp, kv.1 ≠ k) :
    compContribution skip k x comp = 0 := by
  induction comp with
  | nil => simp [compContribution]
  | cons a t ih =>
    simp only [compContribution, List.map_cons, List.sum_cons] at ih ⊢
    rw [ih (fun kv hkv => h kv (by simp [hkv]))]
    have : a.1 ≠ k := h a (by simp)
    simp [this]

theorem elementTotal_absent (skip : List Nat) (k : Nat) (cs : List (Rat × Comp)) (h : ∀ p ∈ cs, ∀ kv ∈ p.2, kv.1 ≠ k) :
    elementTotal skip cs k = 0 := by
  induction cs with
  | nil => simp [elementTotal]
  | cons p t ih =>
    simp only [elementTotal, List.map_cons, List.sum_cons] at ih ⊢
    rw [ih (fun q hq => h q (by simp [hq])), compContribution_absent skip k p.1 p.2 (h p (by simp))]
    simp

theorem elemTotal_absent (s : RSys) (c : List Rat) (k : Nat) (h : k ∉ elementsOf s) : elemTotal s c k = 0 := by
  apply elementTotal_absent
  intro p hp kv hkv e
  apply h
  simp only [elementsOf, List.mem_flatMap, List.mem_map]
  exact ⟨p.2, (List.of_mem_zip hp).2, kv, hkv, e⟩

/-- decidable form of `Balanced`: it suffices to look at the elements that occur -/
theorem balanced_of_elements (s : RSys)
    (h : ∀ r ∈ s.rxns, ∀ k ∈ elementsOf s, k ≠ 0 → elemTotal s (netVec s r) k = 0) : Balanced s := by
  intro r hr k hk
  by_cases hin : k ∈ elementsOf s
  · exact h r hr k hin hk
  · exact elemTotal_absent s _ k hin

theorem reachable_totals (s : RSys) (init c : List Rat) (hb : Balanced s) (hi : init.length = s.ns)
    (hcomp : (compsOf s).length = s.ns) (h : Reachable s init c) :
    c.length = s.ns ∧ ∀ k, k ≠ 0 → elemTotal s c k = elemTotal s init k := by
  induction h with
  | start => exact ⟨hi, fun _ _ => rfl⟩
  | step r ξ _ hr ih =>
    obtain ⟨hl, ht⟩ := ih
    refine ⟨by rw [stepState_length _ _ _ (by rw [netVec_length]; omega)]; exact hl, ?_⟩
    intro k hk
    rw [elemTotal_step s _ r ξ k hl hcomp, hb r hr k hk, ht k hk]
    ring

/-! ### definitional facts kept out of Props -/

theorem firstFailing_none_iff (s : RSys) (checks : List Check) :
    firstFailing s checks = none ↔ ∀ c ∈ checks, runCheck s c = true := by
  induction checks with
  | nil => simp [firstFailing]
  | cons c t ih =>
    simp only [firstFailing, List.mem_cons, forall_eq_or_imp]
    by_cases hc : runCheck s c = true
    · simp [hc, ih]
    · simp [hc]

theorem makeFull_missing_ok_iff (rxns : List Rxn) (arg : SubstArg) (cs : List Check) (sort : Option Bool) :
    (∃ s, RSys.makeFull rxns arg (some cs) none sort true = .ok s) ↔
      rxns ≠ [] ∧ ∀ c ∈ cs, runCheck ⟨rxns, addMissing (substancesOf rxns arg).1 rxns⟩ c = true := by
  rw [← firstFailing_none_iff]
  cases hr : rxns.isEmpty
  · have hne : rxns ≠ [] := by simpa using hr
    simp only [RSys.makeFull, Bool.true_and, hr, Bool.false_eq_true, ↓reduceIte, ne_eq, hne, not_false_eq_true, true_and]
    cases firstFailing ⟨rxns, addMissing (substancesOf rxns arg).1 rxns⟩ cs <;> simp
  · have he : rxns = [] := by simpa using hr
    simp [RSys.makeFull, hr, he]

theorem makeFull_refusals (rxns : List Rxn) (arg : SubstArg) (sort : Option Bool) :
    (∀ cs dc, rxns ≠ [] → RSys.makeFull rxns arg (some cs) (some dc) sort true = .error .bothGiven) ∧
    (∀ cs dc, RSys.makeFull rxns arg (some cs) (some dc) sort false = .error .bothGiven) ∧
    (∀ checks dont, RSys.makeFull [] arg checks dont sort true = .error .typeError) := by
  refine ⟨?_, ?_, ?_⟩
  · intro cs dc hne
    have : rxns.isEmpty = false := by simpa using hne
    simp [RSys.makeFull, this]
  · intro cs dc; simp [RSys.makeFull]
  · intro checks dont; simp [RSys.makeFull]

theorem categorizeSigned_nonneg (rxns : List SRxn) (substs : ODict) (l : List Rxn) (hl : rxns.mapM SRxn.toRxn? = some l)
    (checks : List Check) :
    categorizeSigned rxns substs checks = match categorize ⟨l, substs⟩ checks with
      | .ok c => .ok c
      | .error e => .error (.cat e) := by
  simp only [categorizeSigned, hl]
  cases categorize ⟨l, substs⟩ checks <;> rfl

/-- `rs1 == rs2`: same substances (same keys in the same order with equal Substance objects) and pairwise equal
reactions, where reactions are compared on the four ordered stoichiometry dicts and the parameter — NOT on the name and not
on the class (`Equilibrium` vs `Reaction`) -/
theorem RSys.pyEq_spec (a b : RSys) :
    (a.pyEq b = true ↔ a.substs = b.substs ∧
      List.Forall₂ (fun x y : Rxn => x.reac = y.reac ∧ x.prod = y.prod ∧ x.param = y.param ∧ x.paramB = y.paramB ∧
        x.inactReac = y.inactReac ∧ x.inactProd = y.inactProd) a.rxns b.rxns) ∧
    a.pyEq a = true := by
  refine ⟨?_, by simp [RSys.pyEq, listPyEq_refl]⟩
  simp only [RSys.pyEq, Bool.and_eq_true, beq_iff_eq, listPyEq_iff, Rxn.pyEq_iff]
  exact and_comm

/-! ### counting the groups of `split` -/

/-- the index lists of the groups are pairwise disjoint -/
def IdxDisj (g h : Group) : Prop := ∀ x ∈ g.1, x ∉ h.1

theorem idx_pairwise (gs : List Group) (h : (flatIdx gs).Nodup) : gs.Pairwise IdxDisj := by
  induction gs with
  | nil => exact List.Pairwise.nil
  | cons g t ih =>
    rw [flatIdx_cons, List.nodup_append] at h
    obtain ⟨_, h2, h3⟩ := h
    refine List.pairwise_cons.mpr ⟨?_, ih h2⟩
    intro g' hg' x hx hx'
    exact h3 x hx x (mem_flatIdx.mpr ⟨g', hg', hx'⟩) rfl

theorem idx_pairwise_forall {l : List Group} (h : l.Pairwise IdxDisj) {a b : Group} (ha : a ∈ l) (hb : b ∈ l)
    (hne : a ≠ b) : IdxDisj a b := by
  induction l with
  | nil => simp at ha
  | cons x t ih =>
    rw [List.pairwise_cons] at h
    rcases List.mem_cons.mp ha with e1 | ha <;> rcases List.mem_cons.mp hb with e2 | hb
    · exact absurd (e1.trans e2.symm) hne
    · rw [e1]; exact h.1 b hb
    · rw [e2]; intro y hy hy'; exact h.1 a ha y hy' hy
    · exact ih h.2 ha hb

theorem reach_same_group (ks : List (List String)) (a b : Nat) (ha : a < ks.length)
    (h : Reach ks (List.range ks.length) a b) : ∃ g ∈ splitGroups ks, a ∈ g.1 ∧ b ∈ g.1 := by
  obtain ⟨hok, hperm, hdisj⟩ := splitGroups_inv ks
  induction h with
  | refl =>
    obtain ⟨g, hg, hx⟩ := mem_flatIdx.mp (hperm.symm.subset (by simpa using ha))
    exact ⟨g, hg, hx, hx⟩
  | tail hab hc hadj ih =>
    rename_i b c
    obtain ⟨g2, hg2, h1, h2⟩ := ih
    obtain ⟨g3, hg3, hc3⟩ := mem_flatIdx.mp (hperm.symm.subset hc)
    obtain ⟨k, hkb, hkc⟩ := hadj
    have hk2 : k ∈ g2.2 := ((hok g2 hg2).keys k).mpr ⟨b, h2, hkb⟩
    have hk3 : k ∈ g3.2 := ((hok g3 hg3).keys k).mpr ⟨c, hc3, hkc⟩
    by_cases e : g2 = g3
    · subst e; exact ⟨g2, hg2, h1, hc3⟩
    · exact absurd hk3 (pairwise_disj_forall hdisj hg2 hg3 e k hk2)

/-- one representative (the first reaction) per group: a complete system of representatives of the connectivity classes of the
reaction graph — which is what "the number of groups is the number of connected components" means -/
theorem splitGroups_reps (ks : List (List String)) :
    ∃ reps : List Nat, reps.length = (splitGroups ks).length ∧ (∀ r ∈ reps, r < ks.length) ∧
      (∀ a, a < ks.length → ∃ r ∈ reps, Reach ks (List.range ks.length) r a) ∧
      reps.Pairwise (fun r r' => ¬ Reach ks (List.range ks.length) r r') := by
  obtain ⟨hok, hperm, hdisj⟩ := splitGroups_inv ks
  have hnodup : (flatIdx (splitGroups ks)).Nodup := hperm.nodup_iff.mpr List.nodup_range
  have hidx := idx_pairwise _ hnodup
  have hsub : ∀ g ∈ splitGroups ks, ∀ x ∈ g.1, x ∈ List.range ks.length := fun g hg x hx =>
    hperm.subset (mem_flatIdx.mpr ⟨g, hg, hx⟩)
  have hhead : ∀ g ∈ splitGroups ks, g.1.headD 0 ∈ g.1 := by
    intro g hg
    have := (hok g hg).nonempty
    cases hl : g.1 with
    | nil => exact absurd hl this
    | cons a t => simp
  refine ⟨(splitGroups ks).map (fun g => g.1.headD 0), by simp, ?_, ?_, ?_⟩
  · intro r hr
    obtain ⟨g, hg, rfl⟩ := List.mem_map.mp hr
    simpa using hsub g hg _ (hhead g hg)
  · intro a ha
    obtain ⟨g, hg, hag⟩ := mem_flatIdx.mp (hperm.symm.subset (by simpa using ha))
    exact ⟨g.1.headD 0, List.mem_map_of_mem hg, ((hok g hg).conn _ (hhead g hg) a hag).mono (hsub g hg)⟩
  · rw [List.pairwise_map]
    refine hidx.imp_of_mem ?_
    intro g g' hg hg' hP hreach
    obtain ⟨g2, hg2, h1, h2⟩ := reach_same_group ks _ _ (by simpa using hsub g hg _ (hhead g hg)) hreach
    by_cases e : g2 = g
    · subst e; exact hP _ h2 (hhead g' hg')
    · exact idx_pairwise_forall hidx hg2 hg e _ h1 (hhead g hg)

/-! ### per_substance_varied; categorize with requested checks -/

theorem variedRows_length {α : Type} (base : List (String × α)) (ord : List (String × List α)) :
    (variedRows base ord).length = (ord.map (·.2.length)).prod := by
  induction ord with
  | nil => simp [variedRows]
  | cons kv t ih =>
    obtain ⟨k, vals⟩ := kv
    simp only [variedRows, List.map_cons, List.prod_cons]
    induction vals with
    | nil => simp
    | cons v vs ihv =>
      simp only [List.flatMap_cons, List.length_append, List.length_map, ih, List.length_cons] at ihv ⊢
      rw [ihv]; ring

theorem variedRows_keys {α : Type} (base : List (String × α)) (ord : List (String × List α)) :
    ∀ row ∈ variedRows base ord, row.map (·.1) = base.map (·.1) := by
  induction ord with
  | nil => simp [variedRows]
  | cons kv t ih =>
    obtain ⟨k, vals⟩ := kv
    intro row hrow
    simp only [variedRows, List.mem_flatMap, List.mem_map] at hrow
    obtain ⟨v, _, row', hrow', rfl⟩ := hrow
    rw [← ih row' hrow', List.map_map]
    apply List.map_congr_left
    intro kv _
    simp only [Function.comp]
    split
    · rename_i h; exact h.symm
    · rfl

theorem variedRows_entries {α : Type} (base : List (String × α)) (ord : List (String × List α)) :
    ∀ row ∈ variedRows base ord, ∀ kv ∈ row,
      (kv ∈ base ∧ ∀ p ∈ ord, p.1 ≠ kv.1) ∨ ∃ vals, (kv.1, vals) ∈ ord ∧ kv.2 ∈ vals := by
  induction ord with
  | nil => intro row hrow kv hkv; simp only [variedRows, List.mem_singleton] at hrow; subst hrow; exact Or.inl ⟨hkv, by simp⟩
  | cons p t ih =>
    obtain ⟨k, vals⟩ := p
    intro row hrow kv hkv
    simp only [variedRows, List.mem_flatMap, List.mem_map] at hrow
    obtain ⟨v, hv, row', hrow', rfl⟩ := hrow
    obtain ⟨kv', hkv', rfl⟩ := List.mem_map.mp hkv
    by_cases hk : kv'.1 = k
    · simp only [hk, ↓reduceIte]
      exact Or.inr ⟨vals, by simp, hv⟩
    · simp only [hk, ↓reduceIte]
      rcases ih row' hrow' kv' hkv' with ⟨h1, h2⟩ | ⟨vals', h1, h2⟩
      · left
        refine ⟨h1, ?_⟩
        intro p hp
        rcases List.mem_cons.mp hp with rfl | hp
        · exact fun e => hk e.symm
        · exact h2 p hp
      · exact Or.inr ⟨vals', by simp [h1], h2⟩


theorem zip_nodup_get {α : Type} (ks : List String) (base : List α) (hn : ks.Nodup) (j : Nat) (k : String) (x : α)
    (hj : ks[j]? = some k) (hx : (k, x) ∈ ks.zip base) : base[j]? = some x := by
  induction ks generalizing base j with
  | nil => simp at hj
  | cons a t ih =>
    cases base with
    | nil => simp at hx
    | cons b u =>
      simp only [List.nodup_cons] at hn
      simp only [List.zip_cons_cons, List.mem_cons, Prod.mk.injEq] at hx
      cases j with
      | zero =>
        simp only [List.getElem?_cons_zero, Option.some.injEq] at hj ⊢
        rcases hx with ⟨_, rfl⟩ | hx
        · rfl
        · exact absurd (hj ▸ (List.of_mem_zip hx).1) hn.1
      | succ j =>
        simp only [List.getElem?_cons_succ] at hj ⊢
        rcases hx with ⟨rfl, _⟩ | hx
        · exact absurd (List.mem_of_getElem? hj) hn.1
        · exact ih u hn.2 j hj hx

theorem lookup_some_mem {β : Type} (l : List (String × β)) (k : String) (v : β) (h : l.lookup k = some v) : (k, v) ∈ l := by
  induction l with
  | nil => simp at h
  | cons p t ih =>
    obtain ⟨p1, p2⟩ := p
    simp only [List.lookup_cons] at h
    by_cases e : k == p1
    · simp only [e, Option.some.injEq] at h; simp only [beq_iff_eq] at e; subst e; subst h; simp
    · simp only [e] at h; exact List.mem_cons_of_mem _ (ih h)

theorem lookup_exists_of_mem_keys {β : Type} (l : List (String × β)) (k : String) (h : k ∈ l.map (·.1)) :
    ∃ v, l.lookup k = some v := by
  induction l with
  | nil => simp at h
  | cons p t ih =>
    obtain ⟨p1, p2⟩ := p
    simp only [List.lookup_cons]
    by_cases e : k == p1
    · simp [e]
    · simp only [e]
      simp only [List.map_cons, List.mem_cons] at h
      rcases h with rfl | h'
      · simp at e
      · exact ih h'

theorem ordered_lengths {β : Type} (varied : List (String × List β)) (L : List String)
    (h : ∀ k ∈ L, ∃ vals, varied.lookup k = some vals) :
    (L.filterMap fun k => (varied.lookup k).map fun v => (k, v)).map (·.2.length) =
      L.map fun k => match varied.lookup k with | some vals => vals.length | none => 1 := by
  induction L with
  | nil => rfl
  | cons a t ih =>
    obtain ⟨vals, hvals⟩ := h a (by simp)
    simp only [List.filterMap_cons, hvals, Option.map_some, List.map_cons, List.cons.injEq, true_and]
    exact ih (fun k hk' => h k (by simp [hk']))

theorem perSubstanceVaried_ok_iff {α : Type} (s : RSys) (base : List α) (varied : List (String × List α)) :
    (∃ r, perSubstanceVaried s base varied = .ok r) ↔ base.length = s.ns ∧ ∀ kv ∈ varied, kv.1 ∈ s.keys := by
  simp only [perSubstanceVaried]
  by_cases hl : base.length = s.ns
  · simp only [hl, ne_eq, not_true_eq_false, ↓reduceIte, true_and]
    cases hu : (varied.any fun kv => !s.keys.contains kv.1) with
    | true =>
      simp only [↓reduceIte, reduceCtorEq, exists_false, false_iff]
      obtain ⟨kv, hkv, h⟩ := List.any_eq_true.mp hu
      intro hall
      have := hall kv hkv
      simp [this] at h
    | false =>
      simp only [Bool.false_eq_true, ↓reduceIte, Except.ok.injEq, exists_eq', true_iff]
      intro kv hkv
      have := (List.any_eq_false.mp hu) kv hkv
      simpa using this
  · simp [hl]

theorem perSubstanceVaried_spec {α : Type} (s : RSys) (base : List α) (varied : List (String × List α))
    (rows : List (List α)) (vkeys : List String) (hk : s.keys.Nodup)
    (h : perSubstanceVaried s base varied = .ok (rows, vkeys)) :
    vkeys = s.keys.filter (fun k => varied.any fun kv => kv.1 == k) ∧
    rows.length = (vkeys.map fun k => match varied.lookup k with | some vals => vals.length | none => 1).prod ∧
    ∀ row ∈ rows, row.length = s.ns ∧
      ∀ (j : Nat) (k : String) (x : α), s.keys[j]? = some k → row[j]? = some x →
        ((∀ kv ∈ varied, kv.1 ≠ k) → base[j]? = some x) ∧
        (∀ vals, varied.lookup k = some vals → x ∈ vals) := by
  simp only [perSubstanceVaried] at h
  split at h
  · simp at h
  · rename_i hl
    split at h
    · simp at h
    · simp only [Except.ok.injEq, Prod.mk.injEq] at h
      obtain ⟨hrows, hv⟩ := h
      have hl' : base.length = s.keys.length := by
        have : base.length = s.ns := by simpa using hl
        simpa [RSys.keys, RSys.ns] using this
      subst hv
      have hlook : ∀ k ∈ s.keys.filter (fun k => varied.any fun kv => kv.1 == k), ∃ vals, varied.lookup k = some vals := by
        intro k hkv
        obtain ⟨_, hany⟩ := List.mem_filter.mp hkv
        obtain ⟨kv, hkv', he⟩ := List.any_eq_true.mp hany
        simp only [beq_iff_eq] at he
        exact lookup_exists_of_mem_keys varied k (he ▸ List.mem_map_of_mem hkv')
      have hord : ∀ k vals, (k, vals) ∈ ((s.keys.filter fun k => varied.any fun kv => kv.1 == k).filterMap
            fun k => (varied.lookup k).map fun v => (k, v)) ↔
          k ∈ s.keys.filter (fun k => varied.any fun kv => kv.1 == k) ∧ varied.lookup k = some vals := by
        intro k vals
        simp only [List.mem_filterMap, Option.map_eq_some_iff, Prod.mk.injEq]
        constructor
        · rintro ⟨k', hk', v, hlk, rfl, rfl⟩; exact ⟨hk', hlk⟩
        · rintro ⟨h1, h2⟩; exact ⟨k, h1, vals, h2, rfl, rfl⟩
      refine ⟨rfl, ?_, ?_⟩
      · rw [← hrows, List.length_map, variedRows_length, ordered_lengths varied _ hlook]
      · intro row hrow
        rw [← hrows] at hrow
        obtain ⟨row', hrow', rfl⟩ := List.mem_map.mp hrow
        have hkeys := variedRows_keys _ _ row' hrow'
        have hlen : row'.length = s.keys.length := by
          have := congrArg List.length hkeys
          simp only [List.length_map, List.length_zip] at this
          omega
        refine ⟨by simpa [RSys.keys, RSys.ns] using hlen, ?_⟩
        intro j k x hj hx
        -- the pair at position j
        have hjl : j < row'.length := by
          have := (List.getElem?_eq_some_iff.mp hj).1; omega
        have hpair : row'[j] = (k, x) := by
          have h1 : (row'.map (·.1))[j]? = some k := by
            rw [hkeys]; simp only [List.map_fst_zip (by omega : s.keys.length ≤ base.length)]; exact hj
          have h2 : (row'.map (·.2))[j]? = some x := hx
          simp only [List.getElem?_map, List.getElem?_eq_getElem hjl, Option.map_some, Option.some.injEq] at h1 h2
          exact Prod.ext h1 h2
        have hmem : (k, x) ∈ row' := hpair ▸ List.getElem_mem hjl
        rcases variedRows_entries _ _ row' hrow' (k, x) hmem with ⟨hb, hno⟩ | ⟨vals', hin, hxin⟩
        · refine ⟨fun _ => zip_nodup_get s.keys base hk j k x hj hb, ?_⟩
          intro vals hlk
          exfalso
          have hkv : k ∈ s.keys.filter (fun k => varied.any fun kv => kv.1 == k) := by
            refine List.mem_filter.mpr ⟨List.mem_of_getElem? hj, ?_⟩
            rw [List.any_eq_true]
            exact ⟨(k, vals), lookup_some_mem varied k vals hlk, by simp⟩
          exact hno (k, vals) ((hord k vals).mpr ⟨hkv, hlk⟩) rfl
        · obtain ⟨hkv, hlk'⟩ := (hord k vals').mp hin
          refine ⟨fun hnone => ?_, fun vals hlk => ?_⟩
          · exact absurd rfl (hnone (k, vals') (lookup_some_mem varied k vals' hlk'))
          · rw [hlk'] at hlk; simp only [Option.some.injEq] at hlk; exact hlk ▸ hxin


theorem categorize_checks_ok_iff (s : RSys) (checks : List Check) :
    (∃ c, categorize s checks = .ok c) ↔
      ∃ ex, expand s.rxns = .ok ex ∧ ∀ ch ∈ checks, runCheck ⟨ex, s.substs⟩ ch = true := by
  simp only [categorize]
  cases hex : expand s.rxns with
  | error e => simp
  | ok ex =>
    simp only [Except.ok.injEq, exists_eq_left']
    rw [← firstFailing_none_iff]
    simp only [RSys.make, substancesOf]
    cases firstFailing ⟨ex, s.substs⟩ checks <;> simp

end ChemModel.RSysGraph
