/-
Helper lemmas for C08's composition with C07: the ε-versions of the residual patterns of `NumSysLin.f` / `NumSysLog.f`
(C07 proves the exact-zero patterns `lin_zero_iff_core` / `log_zero_iff_core`; a real run ends with `|f| ≤ tol`, not `f = 0`).
-/
import ChemModel.Proofs.EqSolve
import ChemModel.Proofs.EqSys

namespace ChemModel.EqSys

/-- `|q/k − 1 if k != 0 else q| ≤ ε`, spelled out -/
theorem abs_equilResidual_le_iff (q k ε : ℝ) :
    |equilResidual q k| ≤ ε ↔ (k ≠ 0 → |q / k - 1| ≤ ε) ∧ (k = 0 → |q| ≤ ε) := by
  unfold equilResidual
  rw [beq_zero_real]
  by_cases hk : k = 0
  · simp [hk]
  · simp [hk, one_real]

/-- ε-pattern of the residual vector of `NumSysLin.f`: every entry is within `ε` of zero iff every row's residual
    (`Q/k − 1`, or `Q` itself for `k = 0`) and every conservation defect is within `ε` -/
theorem lin_abs_le_iff_core (A B : List (List ℤ)) (ks y c0 : List ℝ) (ε : ℝ) :
    (∀ x ∈ List.zipWith equilResidual (A.map (prodPowRow y)) ks
          ++ List.zipWith (fun row v => total row y - v) B (B.map fun row => total row c0), |x| ≤ ε) ↔
      (∀ rk ∈ A.zip ks, (rk.2 ≠ 0 → |quotient y rk.1 / rk.2 - 1| ≤ ε) ∧ (rk.2 = 0 → |quotient y rk.1| ≤ ε)) ∧
      (∀ brow ∈ B, |total brow y - total brow c0| ≤ ε) := by
  rw [List.forall_mem_append, forall_zipWith, forall_zipWith,
    zip_map_left (prodPowRow y) A ks (fun q k => |equilResidual q k| ≤ ε),
    zip_map_right_self (fun row => total row c0) B (fun row v => |total row y - v| ≤ ε)]
  constructor
  · rintro ⟨h1, h2⟩
    refine ⟨fun rk hrk => ?_, h2⟩
    have := h1 rk hrk
    rwa [abs_equilResidual_le_iff, prodPowRow_real] at this
  · rintro ⟨h1, h2⟩
    refine ⟨fun rk hrk => ?_, h2⟩
    rw [abs_equilResidual_le_iff, prodPowRow_real]
    exact h1 rk hrk

/-- one row of the logarithmic formulation is the log-ratio of the quotient and the constant (`k > 0`) -/
theorem log_row_eq (row : List ℤ) (y : List ℝ) (k : ℝ) :
    total row y + -Real.log k = Real.log (quotient (y.map Real.exp) row) - Real.log k := by
  rw [← exp_total, Real.log_exp]; ring

/-- ε-pattern of the residual vector of `NumSysLog.f` -/
theorem log_abs_le_iff_core (A B : List (List ℤ)) (ks y c0 : List ℝ) (ε : ℝ) :
    (∀ x ∈ List.zipWith (fun row t => total row y + t) A (ks.map fun k => -Real.log k)
          ++ List.zipWith (fun row v => total row (y.map Real.exp) - v) B (B.map fun row => total row c0), |x| ≤ ε) ↔
      (∀ rk ∈ A.zip ks, |Real.log (quotient (y.map Real.exp) rk.1) - Real.log rk.2| ≤ ε) ∧
      (∀ brow ∈ B, |total brow (y.map Real.exp) - total brow c0| ≤ ε) := by
  rw [List.forall_mem_append, forall_zipWith, forall_zipWith,
    zip_map_right (fun k => -Real.log k) A ks (fun row t => |total row y + t| ≤ ε),
    zip_map_right_self (fun row => total row c0) B (fun row v => |total row (y.map Real.exp) - v| ≤ ε)]
  constructor
  · rintro ⟨h1, h2⟩
    refine ⟨fun rk hrk => ?_, h2⟩
    have := h1 rk hrk
    rwa [log_row_eq] at this
  · rintro ⟨h1, h2⟩
    refine ⟨fun rk hrk => ?_, h2⟩
    rw [log_row_eq]
    exact h1 rk hrk

/-- `|ln Q − ln K| ≤ ε` is a two-sided multiplicative bound on `Q/K` -/
theorem log_ratio_bound {q k ε : ℝ} (hq : 0 < q) (hk : 0 < k) (h : |Real.log q - Real.log k| ≤ ε) :
    Real.exp (-ε) ≤ q / k ∧ q / k ≤ Real.exp ε := by
  rw [← Real.log_div hq.ne' hk.ne'] at h
  have hpos : 0 < q / k := div_pos hq hk
  obtain ⟨h1, h2⟩ := abs_le.mp h
  constructor
  · calc Real.exp (-ε) ≤ Real.exp (Real.log (q / k)) := Real.exp_le_exp.mpr h1
      _ = q / k := Real.exp_log hpos
  · calc q / k = Real.exp (Real.log (q / k)) := (Real.exp_log hpos).symm
      _ ≤ Real.exp ε := Real.exp_le_exp.mpr h2

end ChemModel.EqSys
