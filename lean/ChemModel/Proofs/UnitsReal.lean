/-
`logspace_from_lin` over ℝ: homogeneity of degree 1 in positive arguments, hence unit independence of the physical values.
(The only part of the units model that needs analysis.)
-/
import Mathlib.Analysis.SpecialFunctions.Log.Basic
import ChemModel.Proofs.UnitsHelpers

set_option linter.unusedSectionVars false
set_option linter.unusedSimpArgs false

namespace ChemModel.Units
open ChemModel

/-- ℝ instances of the number classes used by `logspaceCore` (kept as plain defs and passed explicitly, so that they
    cannot clash with instances declared by other proof files) -/
@[reducible] noncomputable def realLog : HasLog ℝ := ⟨Real.log⟩
@[reducible] noncomputable def realExp : HasExp ℝ := ⟨Real.exp⟩

attribute [local instance] realLog realExp

theorem log2_real (x : ℝ) : log2 x = Real.log x / Real.log 2 := by
  simp only [log2, HasLog.log, Nat.cast_ofNat]

theorem exp2_real (y : ℝ) : exp2 y = Real.exp (y * Real.log 2) := by
  simp only [exp2, HasLog.log, HasExp.exp, Nat.cast_ofNat]

theorem log2_ne : Real.log 2 ≠ 0 := (Real.log_pos one_lt_two).ne'

theorem log2_mul {c x : ℝ} (hc : 0 < c) (hx : 0 < x) : log2 (c * x) = log2 c + log2 x := by
  rw [log2_real, log2_real, log2_real, Real.log_mul hc.ne' hx.ne']; ring

theorem exp2_add (k y : ℝ) : exp2 (k + y) = exp2 k * exp2 y := by
  rw [exp2_real, exp2_real, exp2_real, ← Real.exp_add]; congr 1; ring

theorem exp2_log2 {c : ℝ} (hc : 0 < c) : exp2 (log2 c) = c := by
  rw [exp2_real, log2_real, div_mul_cancel₀ _ log2_ne, Real.exp_log hc]

theorem plainLinspace_add {α : Type} [Field α] (k a b : α) (n : ℕ) :
    plainLinspace (k + a) (k + b) n = (plainLinspace a b n).map (k + ·) := by
  match n with
  | 0 => simp [plainLinspace]
  | 1 => simp [plainLinspace]
  | n + 2 =>
    simp only [plainLinspace, List.map_map]
    apply List.map_congr_left
    intro i _
    simp only [Function.comp, div_eq_mul_inv]
    ring

/-- `np.exp2(np.linspace(np.log2(s), np.log2(e), n))` is homogeneous of degree 1 in positive `(s, e)` -/
theorem logspaceCore_smul {c s e : ℝ} (hc : 0 < c) (hs : 0 < s) (he : 0 < e) (n : ℕ) :
    logspaceCore (c * s) (c * e) n = (logspaceCore s e n).map (c * ·) := by
  simp only [logspaceCore, log2_mul hc hs, log2_mul hc he, plainLinspace_add, List.map_map]
  apply List.map_congr_left
  intro y _
  simp only [Function.comp, exp2_add, exp2_log2 hc]

variable [DecidableEq ℝ]

/-- `logspace_from_lin(start, stop, n)` for positive quantities of one dimension (unit of `start` with positive factor): the
    result is the plain routine on the magnitudes in the unit of `start`, times that unit, and its physical values are the
    plain routine applied to the physical end points — independent of the units the end points were given in;
    end points of different dimension raise ValueError. -/
theorem logspaceFromLin_spec (start stop : PyVal ℝ) (hs : start.WF) (he : stop.WF) (n : ℕ) :
    (start.dims = stop.dims → 0 < (unitOfScalar start).si → 0 < start.si → 0 < stop.si →
      ∃ r, logspaceFromLin start stop n = .ok r ∧
        r = (logspaceCore (start.si / (unitOfScalar start).si) (stop.si / (unitOfScalar start).si) n).map
              (timesUnit · (unitOfScalar start)) ∧
        r.map PyVal.si = logspaceCore start.si stop.si n ∧ ∀ v ∈ r, v.dims = start.dims) ∧
    (start.dims ≠ stop.dims → logspaceFromLin start stop n = .error .valueError) := by
  have hu := unitOfScalar_wf hs
  have hud := unitOfScalar_dims start
  have h1 : toUnitlessScalar start (unitOfScalar start) = .ok (start.si / (unitOfScalar start).si) :=
    (toUnitlessScalar_ok_iff hs hu _).mpr ⟨hud.symm, rfl⟩
  constructor
  · intro hd hupos hspos hepos
    have h2 : toUnitlessScalar stop (unitOfScalar start) = .ok (stop.si / (unitOfScalar start).si) :=
      (toUnitlessScalar_ok_iff he hu _).mpr ⟨by rw [hud, hd], rfl⟩
    refine ⟨_, by simp only [logspaceFromLin, h1, h2], rfl, ?_, ?_⟩
    · rw [List.map_map]
      have hfun : (PyVal.si ∘ fun x => timesUnit x (unitOfScalar start)) = fun x => (unitOfScalar start).si * x := by
        funext x; simp [timesUnit_si, mul_comm]
      rw [hfun, ← logspaceCore_smul hupos (div_pos hspos hupos) (div_pos hepos hupos)]
      congr 1 <;> field_simp
    · intro v hv
      obtain ⟨x, _, rfl⟩ := List.mem_map.mp hv
      rw [timesUnit_dims, hud]
  · intro hd
    have h2 : toUnitlessScalar stop (unitOfScalar start) = .error .valueError :=
      (toUnitlessScalar_error_iff he hu _).mpr ⟨by rw [hud]; exact fun h => hd h.symm, rfl⟩
    simp only [logspaceFromLin, h1, h2]

end ChemModel.Units
