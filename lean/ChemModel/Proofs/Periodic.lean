/-
Helper lemmas for Props/C14.lean: facts about the executable model in Model/Periodic.lean.
No `sorry`, no extra axioms; table facts are discharged by `decide +kernel`.
-/
import ChemModel.Model.Periodic
import ChemModel.Proofs.FormulaAssemble
import Batteries.Data.Char.AsciiCasing
import Mathlib.Algebra.Order.Field.Rat
import Mathlib.Algebra.Order.Field.Basic
import Mathlib.Data.List.Nodup
import Mathlib.Tactic.Ring
import Mathlib.Tactic.Linarith

namespace ChemModel.Periodic
open ChemModel.Gen

/-! ### table facts (kernel-evaluated) -/

theorem symbols_length : symbols.length = 118 := by decide +kernel
theorem names_length : names.length = 118 := by decide +kernel
theorem massTab_length : massTab.length = 118 := by decide +kernel

theorem lowerNames_length : lowerNames.length = 118 := by
  unfold lowerNames; rw [List.length_map]; exact names_length

/-! ### masses -/

/-- mass contribution of one unit of key `k` -/
def unitMass (k : Nat) : Option Rat := if k = 0 then some (-electronMass) else weight? k

theorem massTerm_eq (k : Nat) (v : Rat) : massTerm k v = (unitMass k).map fun u => v * u := by
  unfold massTerm unitMass
  split
  · simp only [Option.map_some, mul_neg]
  · rfl

theorem unitMass_isSome (k : Nat) : (unitMass k).isSome ↔ k ≤ 118 := by
  unfold unitMass
  split
  · next h => subst h; simp
  · next h =>
    have key : ∀ o : Option Nat, (o >>= fun a => (pure (a : Rat) : Option Rat)).isSome = o.isSome := by
      intro o; cases o <;> rfl
    unfold weight?
    rw [if_neg h, Option.isSome_map, key, isSome_getElem?, massTab_length]
    omega

theorem massTerm_isSome (k : Nat) (v : Rat) : (massTerm k v).isSome ↔ k ≤ 118 := by
  rw [massTerm_eq, Option.isSome_map, unitMass_isSome]

theorem massSum_cons (k : Nat) (v : Rat) (r : Comp) :
    massSum ((k, v) :: r) =
      (massTerm k v).bind fun t => (massSum r).map fun m => t + m := by
  rw [massSum]
  cases massTerm k v <;> cases massSum r <;> rfl

theorem massLoop_eq (acc : Rat) (c : Comp) :
    massLoop acc c = (massSum c).map fun m => acc + m := by
  induction c generalizing acc with
  | nil => simp [massLoop, massSum]
  | cons p r ih =>
    obtain ⟨k, v⟩ := p
    rw [massSum_cons, massLoop]
    cases massTerm k v with
    | none => rfl
    | some t =>
      simp only [Option.bind_some]
      rw [ih]
      cases massSum r with
      | none => rfl
      | some m => simp only [Option.map_some, add_assoc]

theorem massFromComposition_eq_sum (c : Comp) : massFromComposition c = massSum c := by
  unfold massFromComposition
  rw [massLoop_eq]
  cases massSum c with
  | none => rfl
  | some m => simp only [Option.map_some, zero_add]

theorem massSum_isSome (c : Comp) : (massSum c).isSome ↔ ∀ p ∈ c, p.1 ≤ 118 := by
  induction c with
  | nil => simp [massSum]
  | cons p r ih =>
    obtain ⟨k, v⟩ := p
    rw [massSum_cons, List.forall_mem_cons, ← ih, ← massTerm_isSome k v]
    cases massTerm k v <;> cases massSum r <;> simp

theorem mass_isSome_iff (c : Comp) :
    (massFromComposition c).isSome ↔ ∀ p ∈ c, p.1 ≤ 118 := by
  rw [massFromComposition_eq_sum, massSum_isSome]

theorem massSum_cons_some {k : Nat} {v : Rat} {r : Comp} {m : Rat}
    (h : massSum ((k, v) :: r) = some m) :
    ∃ u mr, unitMass k = some u ∧ massSum r = some mr ∧ m = v * u + mr := by
  rw [massSum_cons, massTerm_eq] at h
  cases hu : unitMass k with
  | none => rw [hu] at h; simp at h
  | some u =>
    cases hr : massSum r with
    | none => rw [hu, hr] at h; simp at h
    | some mr =>
      rw [hu, hr] at h
      simp only [Option.map_some, Option.bind_some, Option.some.injEq] at h
      exact ⟨u, mr, rfl, rfl, h.symm⟩

theorem massSum_cons_of {k : Nat} {v : Rat} {r : Comp} {u mr : Rat}
    (hu : unitMass k = some u) (hr : massSum r = some mr) :
    massSum ((k, v) :: r) = some (v * u + mr) := by
  rw [massSum_cons, massTerm_eq, hu, hr]; rfl

theorem massSum_addKey (k : Nat) (v u : Rat) (hu : unitMass k = some u) (a : Comp) (ma : Rat)
    (ha : massSum a = some ma) : massSum (addKey k v a) = some (ma + v * u) := by
  induction a generalizing ma with
  | nil =>
    simp only [massSum, Option.some.injEq] at ha
    subst ha
    rw [addKey, massSum_cons_of hu (by rw [massSum])]
    congr 1; ring
  | cons p r ih =>
    obtain ⟨k', v'⟩ := p
    obtain ⟨u', mr, hu', hr, hm⟩ := massSum_cons_some ha
    rw [addKey]
    split
    · next hk =>
      subst hk
      rw [hu] at hu'
      cases hu'
      rw [massSum_cons_of hu hr, hm]
      congr 1; ring
    · rw [massSum_cons_of hu' (ih mr hr), hm]
      congr 1; ring

theorem massSum_addComp (a b : Comp) (ma mb : Rat)
    (ha : massSum a = some ma) (hb : massSum b = some mb) :
    massSum (addComp a b) = some (ma + mb) := by
  unfold addComp
  induction b generalizing a ma mb with
  | nil =>
    simp only [massSum, Option.some.injEq] at hb
    subst hb
    simpa using ha
  | cons p r ih =>
    obtain ⟨k, v⟩ := p
    obtain ⟨u, mr, hu, hr, hm⟩ := massSum_cons_some hb
    rw [List.foldl_cons, ih _ _ _ (massSum_addKey k v u hu a ma ha) hr, hm]
    congr 1; ring

theorem mass_addComp (a b : Comp) (ma mb : Rat)
    (ha : massFromComposition a = some ma) (hb : massFromComposition b = some mb) :
    massFromComposition (addComp a b) = some (ma + mb) := by
  rw [massFromComposition_eq_sum] at ha hb ⊢
  exact massSum_addComp a b ma mb ha hb

theorem massSum_scaleComp (n : Rat) (a : Comp) (ma : Rat) (ha : massSum a = some ma) :
    massSum (scaleComp n a) = some (n * ma) := by
  unfold scaleComp
  induction a generalizing ma with
  | nil =>
    simp only [massSum, Option.some.injEq] at ha
    subst ha
    simp [massSum]
  | cons p r ih =>
    obtain ⟨k, v⟩ := p
    obtain ⟨u, mr, hu, hr, hm⟩ := massSum_cons_some ha
    rw [List.map_cons, massSum_cons_of hu (ih mr hr), hm]
    congr 1; ring

theorem mass_scaleComp (n : Rat) (a : Comp) (ma : Rat) (ha : massFromComposition a = some ma) :
    massFromComposition (scaleComp n a) = some (n * ma) := by
  rw [massFromComposition_eq_sum] at ha ⊢
  exact massSum_scaleComp n a ma ha

theorem mass_ion (a : Comp) (q ma : Rat) (_hn : ∀ p ∈ a, p.1 ≠ 0)
    (ha : massFromComposition a = some ma) :
    massFromComposition ((0, q) :: a) = some (ma - q * electronMass) := by
  rw [massFromComposition_eq_sum] at ha ⊢
  have hu : unitMass 0 = some (-electronMass) := by simp [unitMass]
  rw [massSum_cons_of hu ha]
  congr 1; ring

/-! ### ASCII case folding -/

theorem lowerStr_toList (s : String) : (lowerStr s).toList = s.toList.map Char.toLower := by
  unfold lowerStr; rw [String.toList_ofList]

theorem lowerStr_lowerStr (s : String) : lowerStr (lowerStr s) = lowerStr s := by
  show String.ofList ((lowerStr s).toList.map Char.toLower) = String.ofList (s.toList.map Char.toLower)
  rw [lowerStr_toList, List.map_map]
  congr 1
  apply List.map_congr_left
  intro c _
  simp only [Function.comp_apply, Char.toLower_toLower_eq_toLower]

theorem capitalizeStr_lowerStr (s : String) : capitalizeStr (lowerStr s) = capitalizeStr s := by
  unfold capitalizeStr
  rw [lowerStr_toList]
  cases s.toList with
  | nil => rfl
  | cons c r =>
    simp only [List.map_cons, List.map_map, Char.toUpper_toLower_eq_toUpper]
    congr 2
    apply List.map_congr_left
    intro c _
    simp only [Function.comp_apply, Char.toLower_toLower_eq_toLower]

theorem lowerStr_capitalizeStr (s : String) : lowerStr (capitalizeStr s) = lowerStr s := by
  unfold capitalizeStr
  cases h : s.toList with
  | nil =>
    simp only
    have : s = "" := String.toList_eq_nil_iff.mp h
    rw [this]
  | cons c r =>
    simp only
    unfold lowerStr
    rw [String.toList_ofList, h]
    simp only [List.map_cons, List.map_map, Char.toLower_toUpper_eq_toLower]
    congr 2
    apply List.map_congr_left
    intro c _
    simp only [Function.comp_apply, Char.toLower_toLower_eq_toLower]

theorem atomicNumber_lowerStr (s : String) : atomicNumber (lowerStr s) = atomicNumber s := by
  unfold atomicNumber
  rw [capitalizeStr_lowerStr, lowerStr_lowerStr]

/-! ### `atomic_number` -/

/-!
String operations are slow inside the kernel, so the table checks are arranged to touch every
string only a few times: each string is turned into a numeric fingerprint exactly once (forced
by a `match` on the number), and all pairwise comparisons are then done on `Nat` literals.
-/

/-- an ad-hoc numeric fingerprint of a character list -/
def encL (l : List Char) : Nat := l.foldl (fun a c => a * 256 + c.toNat) 0

/-- force evaluation of `n` (by a `match`) before continuing -/
def withNat (n : Nat) (k : Nat → Bool) : Bool :=
  match n with
  | 0 => k 0
  | m + 1 => k (m + 1)

theorem withNat_eq (n : Nat) (k : Nat → Bool) : withNat n k = k n := by
  cases n <;> rfl

/-- `k (l.map f)`, evaluating each `f x` once -/
def evalNats {α : Type} (f : α → Nat) : List α → (List Nat → Bool) → Bool
  | [], k => k []
  | x :: r, k => withNat (f x) fun n => evalNats f r fun l => k (n :: l)

theorem evalNats_eq {α : Type} (f : α → Nat) (l : List α) (k : List Nat → Bool) :
    evalNats f l k = k (l.map f) := by
  induction l generalizing k with
  | nil => rfl
  | cons x r ih => rw [evalNats, withNat_eq, ih, List.map_cons]

def distinct : List Nat → Bool
  | [] => true
  | x :: r => !(r.contains x) && distinct r

theorem nodup_of_distinct (l : List Nat) (h : distinct l = true) : l.Nodup := by
  induction l with
  | nil => exact List.nodup_nil
  | cons x r ih =>
    rw [distinct, Bool.and_eq_true, Bool.not_eq_true', List.contains_eq_mem,
      decide_eq_false_iff_not] at h
    exact List.nodup_cons.mpr ⟨h.1, ih h.2⟩

theorem symbols_enc_check :
    evalNats (fun s : String => encL s.toList) symbols distinct = true := by decide +kernel
theorem lowerNames_enc_check :
    evalNats (fun s : String => encL (s.toList.map Char.toLower)) names distinct = true := by
  decide +kernel
theorem symbols_capitalized : symbols.map capitalizeStr = symbols := by decide +kernel
theorem symbols_short : symbols.all (fun s => s.length ≤ 2) = true := by decide +kernel
theorem names_long : names.all (fun s => 3 ≤ s.length) = true := by decide +kernel

theorem symbols_nodup : symbols.Nodup := by
  have h := symbols_enc_check
  rw [evalNats_eq] at h
  exact List.Nodup.of_map _ (nodup_of_distinct _ h)

theorem lowerNames_nodup : lowerNames.Nodup := by
  have h := lowerNames_enc_check
  rw [evalNats_eq] at h
  have h2 := nodup_of_distinct _ h
  have : names.map (fun s : String => encL (s.toList.map Char.toLower))
      = lowerNames.map (fun s : String => encL s.toList) := by
    unfold lowerNames
    rw [List.map_map]
    apply List.map_congr_left
    intro s _
    simp only [Function.comp_apply, lowerStr_toList]
  rw [this] at h2
  exact List.Nodup.of_map _ h2

theorem capitalizeStr_length (s : String) : (capitalizeStr s).length = s.length := by
  unfold capitalizeStr
  rw [← String.length_toList (s := s)]
  cases s.toList with
  | nil => rfl
  | cons c r => simp only [String.length_ofList, List.length_cons, List.length_map]

theorem capitalizeStr_name_not_symbol (n : String) (hn : n ∈ names) :
    capitalizeStr n ∉ symbols := by
  intro hmem
  have h1 := List.all_eq_true.mp names_long n hn
  have h2 := List.all_eq_true.mp symbols_short _ hmem
  rw [decide_eq_true_iff] at h1 h2
  rw [capitalizeStr_length] at h2
  omega

theorem capitalizeStr_symbol (i : Nat) (h : i < symbols.length) :
    capitalizeStr symbols[i] = symbols[i] := by
  have h1 : (symbols.map capitalizeStr)[i]? = symbols[i]? := by rw [symbols_capitalized]
  rw [List.getElem?_map, List.getElem?_eq_getElem h, Option.map_some] at h1
  exact Option.some.inj h1

theorem indexOf?_getElem {l : List String} (hl : l.Nodup) (i : Nat) (h : i < l.length) :
    indexOf? l l[i] = some i := by
  have hidx : l.findIdx (· == l[i]) = i := by
    rw [List.findIdx_eq h]
    refine ⟨by simp, ?_⟩
    intro j hji
    have hjl : j < l.length := Nat.lt_trans hji h
    have hne : l[j] ≠ l[i] := by
      intro heq
      have := (List.Nodup.getElem_inj_iff hl).mp heq
      omega
    simpa using hne
  unfold indexOf?
  simp only [hidx, h, if_true]

theorem indexOf?_not_mem {l : List String} {s : String} (h : s ∉ l) : indexOf? l s = none := by
  have hidx : l.findIdx (· == s) = l.length := by
    rw [List.findIdx_eq_length]
    intro x hx
    have : x ≠ s := fun e => h (e ▸ hx)
    simpa using this
  unfold indexOf?
  simp only [hidx, Nat.lt_irrefl, if_false]

theorem atomicNumber_symbol (i : Nat) (hi : i < 118) (s : String)
    (hs : lowerStr s = lowerStr (symbols[i]'(by rw [symbols_length]; exact hi))) :
    atomicNumber s = some (i + 1) := by
  have hl : i < symbols.length := by rw [symbols_length]; exact hi
  rw [← atomicNumber_lowerStr, hs, atomicNumber_lowerStr]
  unfold atomicNumber
  rw [capitalizeStr_symbol i hl, indexOf?_getElem symbols_nodup i hl]

theorem atomicNumber_name (i : Nat) (hi : i < 118) (s : String)
    (hs : lowerStr s = lowerStr (names[i]'(by rw [names_length]; exact hi))) :
    atomicNumber s = some (i + 1) := by
  have hl : i < names.length := by rw [names_length]; exact hi
  rw [← atomicNumber_lowerStr, hs, atomicNumber_lowerStr]
  unfold atomicNumber
  rw [indexOf?_not_mem (capitalizeStr_name_not_symbol _ (List.getElem_mem hl))]
  have hl' : i < lowerNames.length := by rw [lowerNames_length]; exact hi
  have hmap : lowerStr (names[i]'hl) = lowerNames[i]'hl' :=
    (List.getElem_map (f := lowerStr) (l := names) (h := hl')).symm
  simp only
  rw [hmap, indexOf?_getElem lowerNames_nodup i hl']

theorem indexOf?_some {l : List String} {s : String} {i : Nat} (h : indexOf? l s = some i) :
    i < l.length ∧ l[i]? = some s := by
  unfold indexOf? at h
  simp only at h
  split at h
  · next hlt =>
    cases h
    refine ⟨hlt, ?_⟩
    rw [List.getElem?_eq_getElem hlt]
    have := List.findIdx_getElem (w := hlt)
    exact congrArg some (eq_of_beq this)
  · cases h

theorem atomicNumber_sound (s : String) (z : Nat) (h : atomicNumber s = some z) :
    1 ≤ z ∧ z ≤ 118 ∧
      (lowerStr <$> symbols[z - 1]? = some (lowerStr s) ∨
        lowerStr <$> names[z - 1]? = some (lowerStr s)) := by
  unfold atomicNumber at h
  cases h1 : indexOf? symbols (capitalizeStr s) with
  | some i =>
    rw [h1] at h
    simp only [Option.some.injEq] at h
    subst h
    obtain ⟨hlt, hget⟩ := indexOf?_some h1
    rw [symbols_length] at hlt
    refine ⟨by omega, by omega, Or.inl ?_⟩
    rw [Nat.add_sub_cancel, hget, Option.map_eq_map, Option.map_some, lowerStr_capitalizeStr]
  | none =>
    rw [h1] at h
    simp only at h
    cases h2 : indexOf? lowerNames (lowerStr s) with
    | none => rw [h2] at h; cases h
    | some i =>
      rw [h2] at h
      simp only [Option.some.injEq] at h
      subst h
      obtain ⟨hlt, hget⟩ := indexOf?_some h2
      rw [lowerNames_length] at hlt
      refine ⟨by omega, by omega, Or.inr ?_⟩
      rw [Nat.add_sub_cancel, Option.map_eq_map, ← List.getElem?_map]
      exact hget

/-! ### mass fractions -/

theorem foldl_add_eq_sum (l : List Rat) (a : Rat) : l.foldl (· + ·) a = a + l.sum := by
  induction l generalizing a with
  | nil => simp
  | cons x r ih => rw [List.foldl_cons, ih, List.sum_cons, add_assoc]

theorem sum_map_div (mv : List (Rat × Rat)) (t : Rat) :
    (mv.map fun p => p.1 * p.2 / t).sum = (mv.map fun p => p.1 * p.2).sum / t := by
  induction mv with
  | nil => simp
  | cons p r ih => rw [List.map_cons, List.sum_cons, ih, List.map_cons, List.sum_cons, add_div]

theorem sum_nonneg_of_pos (mv : List (Rat × Rat)) (h : ∀ p ∈ mv, 0 < p.1 * p.2) :
    0 ≤ (mv.map fun p => p.1 * p.2).sum := by
  induction mv with
  | nil => simp
  | cons p r ih =>
    rw [List.map_cons, List.sum_cons]
    have h1 := h p (List.mem_cons_self)
    have h2 := ih fun q hq => h q (List.mem_cons_of_mem _ hq)
    linarith

theorem mapM_guard {α β : Type} (t : Prop) [Decidable t] (g : α → β) (l : List α) :
    l.mapM (fun p => if t then (none : Option β) else some (g p))
      = if t ∧ l ≠ [] then none else some (l.map g) := by
  induction l with
  | nil => simp
  | cons x r ih =>
    rw [List.mapM_cons, ih]
    by_cases ht : t <;> simp [ht]

/-- `massFractions` in closed form: the empty mixture gives the empty result, a non-empty mixture with
    total 0 fails, otherwise every product is divided by the total (a plain `List.sum`). -/
theorem massFractions_eq (mv : List (Rat × Rat)) :
    massFractions mv =
      if (mv.map fun p => p.1 * p.2).sum = 0 ∧ mv ≠ [] then none
      else some (mv.map fun p => p.1 * p.2 / (mv.map fun p => p.1 * p.2).sum) := by
  unfold massFractions
  simp only [foldl_add_eq_sum, zero_add]
  exact mapM_guard _ _ mv

theorem massFractions_nil : massFractions [] = some [] := by
  rw [massFractions_eq]; simp

theorem massFractions_isSome_iff (mv : List (Rat × Rat)) :
    (massFractions mv).isSome ↔ (mv = [] ∨ (mv.map fun p => p.1 * p.2).sum ≠ 0) := by
  rw [massFractions_eq]
  by_cases h1 : mv = []
  · simp [h1]
  · by_cases h2 : (mv.map fun p => p.1 * p.2).sum = 0 <;> simp [h1, h2]

theorem massFractions_spec (mv : List (Rat × Rat)) (fr : List Rat)
    (h : massFractions mv = some fr) :
    fr.length = mv.length ∧ (mv ≠ [] → fr.sum = 1) ∧
    (∀ i (hi : i < mv.length) (hj : i < fr.length),
      fr[i] * (mv.map fun p => p.1 * p.2).sum = mv[i].1 * mv[i].2) ∧
    ((∀ p ∈ mv, 0 < p.1 * p.2) → ∀ x ∈ fr, 0 < x) := by
  rw [massFractions_eq] at h
  split at h
  · cases h
  · next hcond =>
    simp only [Option.some.injEq] at h
    subst h
    have hne : mv ≠ [] → (mv.map fun p => p.1 * p.2).sum ≠ 0 := fun hm hz => hcond ⟨hz, hm⟩
    refine ⟨List.length_map _, ?_, ?_, ?_⟩
    · intro hm
      rw [sum_map_div, div_self (hne hm)]
    · intro i hi hj
      have hm : mv ≠ [] := fun e => by rw [e] at hi; exact Nat.not_lt_zero _ hi
      rw [List.getElem_map, div_mul_cancel₀ _ (hne hm)]
    · intro hpos x hx
      obtain ⟨p, hp, rfl⟩ := List.mem_map.mp hx
      have hm : mv ≠ [] := List.ne_nil_of_mem hp
      have hnn := sum_nonneg_of_pos mv hpos
      have htot : 0 < (mv.map fun p => p.1 * p.2).sum := lt_of_le_of_ne hnn (Ne.symm (hne hm))
      exact div_pos (hpos p hp) htot

/-! ### positivity of weights and of formula masses -/

theorem stdWeight_ge_one (z : Nat) (h1 : 1 ≤ z) (h2 : z ≤ 118) : 1 ≤ stdWeight z := by
  have hall : (List.range 118).all (fun i => decide (1 ≤ stdWeight (i + 1))) = true := by decide +kernel
  have h := List.all_eq_true.mp hall (z - 1) (List.mem_range.mpr (by omega))
  have hz : z - 1 + 1 = z := by omega
  rw [hz] at h
  exact of_decide_eq_true h

theorem stdWeight_pos (z : Nat) (h1 : 1 ≤ z) (h2 : z ≤ 118) : 0 < stdWeight z :=
  lt_of_lt_of_le one_pos (stdWeight_ge_one z h1 h2)

theorem electronMass_pos : 0 < electronMass := by decide +kernel
theorem thousand_electronMass_lt_one : 1000 * electronMass < 1 := by decide +kernel

open ChemModel.Formula (Formula Terms Term Part) in
mutual
theorem Term.occ_ne_nil : ∀ (t : Term) (m : Rat), t.wf = true → t.occ m ≠ []
  | .elem z n st marks, m, _ => by simp [Formula.Term.occ]
  | .group b body n st marks, m, h => by
    simp only [Formula.Term.wf, Bool.and_eq_true, Bool.not_eq_true'] at h
    simp only [Formula.Term.occ]
    exact Terms.occ_ne_nil body _ h.1.1.1 h.1.1.2
  | .cage body, m, h => by
    simp only [Formula.Term.wf, Bool.and_eq_true, Bool.not_eq_true'] at h
    simp only [Formula.Term.occ]
    exact Terms.occ_ne_nil body _ h.1 h.2
theorem Terms.occ_ne_nil : ∀ (ts : Terms) (m : Rat), ts.wf = true → ts.isNil = false → ts.occ m ≠ []
  | .nil, _, _, hn => by simp [Formula.Terms.isNil] at hn
  | .cons t ts, m, h, _ => by
    simp only [Formula.Terms.wf, Bool.and_eq_true] at h
    simp only [Formula.Terms.occ]
    intro he
    exact Term.occ_ne_nil t m h.1.1 (List.append_eq_nil_iff.mp he).1
end

/-- a well-formed formula has at least one element occurrence -/
theorem occurrences_ne_nil (f : Formula.Formula) (h : f.WF) : f.occurrences ≠ [] := by
  have hd := Formula.Formula.wfd f h
  obtain ⟨p, ps, hp, _⟩ := hd.first
  have hpw := Formula.Part.wf_iff p (hd.parts p (by rw [hp]; exact List.mem_cons_self))
  unfold Formula.Formula.occurrences
  rw [hp, List.flatMap_cons]
  intro he
  exact Terms.occ_ne_nil p.terms p.mult hpw.2.1 hpw.2.2 (List.append_eq_nil_iff.mp he).1

theorem sum_counts_pos (c : List (Nat × Rat)) (hne : c ≠ []) (h : ∀ p ∈ c, 0 < p.2) :
    0 < (c.map fun p => p.2).sum := by
  induction c with
  | nil => exact absurd rfl hne
  | cons p r ih =>
    rw [List.map_cons, List.sum_cons]
    have hp := h p List.mem_cons_self
    by_cases hr : r = []
    · subst hr; simpa using hp
    · have := ih hr fun q hq => h q (List.mem_cons_of_mem _ hq)
      linarith

theorem sum_counts_le_weighted (c : List (Nat × Rat)) (h : ∀ p ∈ c, 0 < p.2 ∧ 1 ≤ stdWeight p.1) :
    (c.map fun p => p.2).sum ≤ (c.map fun p => p.2 * stdWeight p.1).sum := by
  induction c with
  | nil => simp
  | cons p r ih =>
    rw [List.map_cons, List.sum_cons, List.map_cons, List.sum_cons]
    have hp := h p List.mem_cons_self
    have hr := ih fun q hq => h q (List.mem_cons_of_mem _ hq)
    have : p.2 ≤ p.2 * stdWeight p.1 := le_mul_of_one_le_right (le_of_lt hp.1) hp.2
    linarith

/-- the occurrence mass of a well-formed formula is positive when every occurrence has a positive effective count
    and the charge does not exceed 1000 × (number of atoms): every weight is ≥ 1 u and 1000·mₑ < 1 u -/
theorem occurrenceMass_pos (f : Formula.Formula) (h : f.WF) (hcnt : ∀ p ∈ f.occurrences, 0 < p.2)
    (hq : f.denote 0 ≤ 1000 * (f.occurrences.map fun p => p.2).sum) : 0 < occurrenceMass f := by
  have hkeys : ∀ p ∈ f.occurrences, 0 < p.2 ∧ 1 ≤ stdWeight p.1 := by
    intro p hp
    have hk := Formula.occ_keys_pos f.parts (Formula.Formula.wfd f h).parts p.1
      (List.mem_map_of_mem (f := Prod.fst) hp)
    exact ⟨hcnt p hp, stdWeight_ge_one p.1 hk.1 hk.2⟩
  have hS := sum_counts_pos f.occurrences (occurrences_ne_nil f h) hcnt
  have hW := sum_counts_le_weighted f.occurrences hkeys
  have hme := electronMass_pos
  have h1000 := thousand_electronMass_lt_one
  unfold occurrenceMass
  have h1 : f.denote 0 * electronMass ≤ 1000 * (f.occurrences.map fun p => p.2).sum * electronMass :=
    mul_le_mul_of_nonneg_right hq (le_of_lt hme)
  have h2 : 1000 * (f.occurrences.map fun p => p.2).sum * electronMass
      = (f.occurrences.map fun p => p.2).sum * (1000 * electronMass) := by ring
  have h3 : (f.occurrences.map fun p => p.2).sum * (1000 * electronMass) < (f.occurrences.map fun p => p.2).sum :=
    mul_lt_of_lt_one_right hS h1000
  linarith

/-! ### mixtures of formulas -/

theorem mapM_except_ok {α β ε : Type} (f : α → Except ε β) (g : α → β) (l : List α)
    (h : ∀ x ∈ l, f x = .ok (g x)) : l.mapM f = .ok (l.map g) := by
  induction l with
  | nil => rfl
  | cons x r ih =>
    rw [List.mapM_cons, h x List.mem_cons_self, ih fun y hy => h y (List.mem_cons_of_mem _ hy)]
    rfl

theorem mapM_map_except_ok {α β γ ε : Type} (φ : α → γ) (f : γ → Except ε β) (g : α → β) (l : List α)
    (h : ∀ x ∈ l, f (φ x) = .ok (g x)) : (l.map φ).mapM f = .ok (l.map g) := by
  induction l with
  | nil => rfl
  | cons x r ih =>
    rw [List.map_cons, List.mapM_cons, h x List.mem_cons_self, ih fun y hy => h y (List.mem_cons_of_mem _ hy)]
    rfl

/-- `massFractions` on pairs whose products are all positive: defined, positive, proportional, sum to one -/
theorem massFractions_of_pos (mv : List (Rat × Rat)) (hpos : ∀ p ∈ mv, 0 < p.1 * p.2) :
    ∃ fr, massFractions mv = some fr ∧ fr.length = mv.length ∧ (∀ x ∈ fr, 0 < x) ∧ (mv ≠ [] → fr.sum = 1) ∧
      ∀ i (hi : i < mv.length) (hj : i < fr.length),
        fr[i] = mv[i].1 * mv[i].2 / (mv.map fun p => p.1 * p.2).sum := by
  have hdef : (massFractions mv).isSome := by
    rw [massFractions_isSome_iff]
    by_cases hm : mv = []
    · exact Or.inl hm
    · right
      obtain ⟨p, r, rfl⟩ := List.exists_cons_of_ne_nil hm
      have h0 := sum_nonneg_of_pos r fun q hq => hpos q (List.mem_cons_of_mem _ hq)
      have hp := hpos p List.mem_cons_self
      rw [List.map_cons, List.sum_cons]
      linarith
  obtain ⟨fr, hfr⟩ := Option.isSome_iff_exists.mp hdef
  obtain ⟨hlen, hsum, hprop, hp⟩ := massFractions_spec mv fr hfr
  refine ⟨fr, hfr, hlen, hp hpos, hsum, ?_⟩
  intro i hi hj
  have hne : (mv.map fun p => p.1 * p.2).sum ≠ 0 := by
    have hm : mv ≠ [] := fun e => by rw [e] at hi; exact Nat.not_lt_zero _ hi
    obtain ⟨p, r, rfl⟩ := List.exists_cons_of_ne_nil hm
    have h0 := sum_nonneg_of_pos r fun q hq => hpos q (List.mem_cons_of_mem _ hq)
    have hp' := hpos p List.mem_cons_self
    rw [List.map_cons, List.sum_cons]
    linarith
  rw [eq_div_iff hne]
  exact hprop i hi hj

/-! ### group / period tables -/

theorem groupMembers_reference :
    groupMembers 1 = [1, 3, 11, 19, 37, 55, 87] ∧ groupMembers 2 = [4, 12, 20, 38, 56, 88] ∧
    groupMembers 13 = [5, 13, 31, 49, 81, 113] ∧ groupMembers 14 = [6, 14, 32, 50, 82, 114] ∧
    groupMembers 15 = [7, 15, 33, 51, 83, 115] ∧ groupMembers 16 = [8, 16, 34, 52, 84, 116] ∧
    groupMembers 17 = [9, 17, 35, 53, 85, 117] ∧ groupMembers 18 = [2, 10, 18, 36, 54, 86, 118] := by
  decide +kernel

end ChemModel.Periodic
