/-
Helper lemmas for the units model (C09; reused by C10/C19).
Generic over a field `α` (ℚ in the driver, ℝ where analysis is needed).
-/
import Mathlib.Tactic.Ring
import Mathlib.Tactic.FieldSimp
import Mathlib.Tactic.Linarith
import Mathlib.Algebra.Field.Basic
import Mathlib.Algebra.Order.Field.Basic
import ChemModel.Model.Units

namespace ChemModel.Units
open ChemModel

variable {α : Type} [Field α] [DecidableEq α]

/-! ### powers -/

theorem npow_eq (x : α) (n : ℕ) : Num.npow x n = x ^ n := by
  induction n with
  | zero => simp [Num.npow]
  | succ n ih => simp [Num.npow, ih, pow_succ]

theorem zpow_eq (x : α) (n : ℤ) : zpow x n = x ^ n := by
  cases n with
  | ofNat k => simp [zpow, npow_eq]
  | negSucc k => simp [zpow, npow_eq, zpow_negSucc]

/-! ### exponent vectors -/

/-- well-formed exponent vector: one entry per registry key -/
def Dims.WF (d : Dims) : Prop := d.length = nDims

theorem Dims.zero_wf : Dims.WF Dims.zero := by simp [Dims.WF, Dims.zero]

theorem Dims.add_wf {a b : Dims} (ha : Dims.WF a) (hb : Dims.WF b) : Dims.WF (a.add b) := by
  simp_all [Dims.WF, Dims.add]

theorem Dims.sub_wf {a b : Dims} (ha : Dims.WF a) (hb : Dims.WF b) : Dims.WF (a.sub b) := by
  simp_all [Dims.WF, Dims.sub]

theorem Dims.smul_wf {a : Dims} (n : ℤ) (ha : Dims.WF a) : Dims.WF (Dims.smul n a) := by
  simp_all [Dims.WF, Dims.smul]

theorem Dims.basis_wf (i : ℕ) : Dims.WF (Dims.basis i) := by simp [Dims.WF, Dims.basis]

theorem zipWith_sub_eq_replicate {a b : List Int} (h : a.length = b.length) :
    List.zipWith (· - ·) a b = List.replicate a.length 0 ↔ a = b := by
  induction a generalizing b with
  | nil => cases b <;> simp_all
  | cons x xs ih =>
    cases b with
    | nil => simp at h
    | cons y ys =>
      simp only [List.length_cons, Nat.add_right_cancel_iff] at h
      simp only [List.zipWith_cons_cons, List.length_cons, List.replicate_succ, List.cons.injEq, ih h]
      constructor
      · rintro ⟨h1, h2⟩; exact ⟨by omega, h2⟩
      · rintro ⟨h1, h2⟩; exact ⟨by omega, h2⟩

/-- the compatibility test of `rescale` onto `dimensionless`: the difference vanishes iff the vectors agree -/
theorem Dims.sub_eq_zero_iff {a b : Dims} (ha : Dims.WF a) (hb : Dims.WF b) :
    a.sub b = Dims.zero ↔ a = b := by
  unfold Dims.WF at ha hb
  have := zipWith_sub_eq_replicate (a := a) (b := b) (by omega)
  rw [ha] at this
  exact this

theorem Dims.zero_sub_eq_zero_iff {b : Dims} (hb : Dims.WF b) : Dims.zero.sub b = Dims.zero ↔ b = Dims.zero := by
  rw [Dims.sub_eq_zero_iff Dims.zero_wf hb]; exact eq_comm

/-! ### well-formedness -/

/-- a modelled unit: non-zero scale factor (positive in practice) and a full exponent vector -/
structure Unit.WF (u : Unit α) : Prop where
  factor_ne : u.factor ≠ 0
  dims : Dims.WF u.dims

/-- a Python scalar whose unit (if any) is well formed -/
def PyVal.WF : PyVal α → Prop
  | .num _ => True
  | .qty q => Unit.WF q.unit

/-- the physical value of a Python scalar in SI (a plain number is its own value) -/
def PyVal.si (v : PyVal α) : α := v.asQuantity.si

/-- the exponent vector of a Python scalar (zero for a plain number) -/
def PyVal.dims (v : PyVal α) : Dims := v.asQuantity.unit.dims

theorem PyVal.dims_wf {v : PyVal α} (h : v.WF) : Dims.WF v.dims := by
  cases v with
  | num x => exact Dims.zero_wf
  | qty q => exact h.dims

@[simp] theorem PyVal.si_num (x : α) : (PyVal.num x).si = x := by
  simp [PyVal.si, PyVal.asQuantity, Quantity.si, Unit.one]
@[simp] theorem PyVal.si_qty (q : Quantity α) : (PyVal.qty q).si = q.mag * q.unit.factor := rfl
@[simp] theorem PyVal.dims_num (x : α) : (PyVal.num x).dims = Dims.zero := rfl
@[simp] theorem PyVal.dims_qty (q : Quantity α) : (PyVal.qty q).dims = q.unit.dims := rfl

/-! ### `to_unitless` on scalars -/

/-- closed form of `to_unitless` for scalars: magnitude times the exact ratio of the two units when the
    exponent vectors agree, ValueError otherwise -/
theorem toUnitlessScalar_eq (v nu : PyVal α) (hv : v.WF) (hn : nu.WF) :
    toUnitlessScalar v nu =
      if v.dims = nu.dims then .ok (v.si / nu.si) else .error .valueError := by
  have hvd := PyVal.dims_wf hv
  have hnd := PyVal.dims_wf hn
  cases v with
  | num x =>
    cases nu with
    | num y =>
      by_cases hy : (PyVal.num y : PyVal α) = PyVal.one
      · have : y = 1 := by simpa [PyVal.one] using hy
        subst this
        simp [toUnitlessScalar, PyVal.isQty, PyVal.one, PyVal.magnitude]
      · have hy' : y ≠ 1 := fun h => hy (by simp [PyVal.one, h])
        simp [toUnitlessScalar, PyVal.isQty, hy', unitOfScalar, PyVal.one, PyVal.div, rescale, PyVal.eqOne,
          Quantity.dimensionless, PyVal.magnitude, div_eq_mul_inv]
    | qty q =>
      have h0 := Dims.zero_sub_eq_zero_iff (b := q.unit.dims) hnd
      by_cases hq : q.unit.dims = Dims.zero
      · have hs := h0.mpr hq
        rw [hq] at hs
        simp [toUnitlessScalar, PyVal.isQty, PyVal.one, unitOfScalar, PyVal.div, rescale, quantitiesRescale,
          Quantity.dimensionless, PyVal.magnitude, Unit.div, Unit.one, hq, hs, Except.map]
        field_simp
      · have hq' : ¬ Dims.zero = q.unit.dims := fun h => hq h.symm
        have h1 : ¬ Dims.zero.sub q.unit.dims = Dims.zero := fun h => hq (h0.mp h)
        simp [toUnitlessScalar, PyVal.isQty, PyVal.one, unitOfScalar, PyVal.div, rescale, quantitiesRescale,
          Quantity.dimensionless, PyVal.magnitude, Unit.div, Unit.one, h1, hq', Except.map]
  | qty p =>
    cases nu with
    | num y =>
      by_cases hp : p.unit.dims = Dims.zero
      · simp [toUnitlessScalar, PyVal.isQty, unitOfScalar, PyVal.div, rescale, quantitiesRescale, Quantity.units,
          Quantity.dimensionless, PyVal.magnitude, Unit.one, hp, Except.map]
        field_simp
      · simp [toUnitlessScalar, PyVal.isQty, unitOfScalar, PyVal.div, rescale, quantitiesRescale, Quantity.units,
          Quantity.dimensionless, PyVal.magnitude, Unit.one, hp, Except.map]
    | qty q =>
      have h0 := Dims.sub_eq_zero_iff (a := p.unit.dims) (b := q.unit.dims) hvd hnd
      by_cases hpq : p.unit.dims = q.unit.dims
      · have hs := h0.mpr hpq
        rw [hpq] at hs
        simp [toUnitlessScalar, PyVal.isQty, unitOfScalar, PyVal.div, rescale, quantitiesRescale, Quantity.units,
          Quantity.dimensionless, PyVal.magnitude, Unit.one, Quantity.div, Unit.div, hs, hpq, Except.map]
        field_simp
      · have h1 : ¬ p.unit.dims.sub q.unit.dims = Dims.zero := fun h => hpq (h0.mp h)
        simp [toUnitlessScalar, PyVal.isQty, unitOfScalar, PyVal.div, rescale, quantitiesRescale, Quantity.units,
          Quantity.dimensionless, PyVal.magnitude, Unit.one, Quantity.div, Unit.div, h1, hpq, Except.map]

end ChemModel.Units
