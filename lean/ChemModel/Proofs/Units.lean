/-
Helper lemmas for the units model (C09; reused by C10/C19).
Generic over a field `α` (ℚ in the driver, ℝ where analysis is needed).
-/
import Mathlib.Tactic.Ring
import Mathlib.Tactic.FieldSimp
import Mathlib.Tactic.Linarith
import Mathlib.Algebra.Field.Basic
import Mathlib.Algebra.Order.Field.Basic
import ChemModel.Model.Units

set_option linter.unusedSectionVars false
set_option linter.unusedSimpArgs false

namespace ChemModel.Units
open ChemModel

variable {α : Type} [Field α] [DecidableEq α]

/-! ### powers -/

theorem npow_eq (x : α) (n : ℕ) : Num.npow x n = x ^ n := by
  induction n with
  | zero => simp [Num.npow]
  | succ n ih => simp [Num.npow, ih, pow_succ]

theorem zpow_eq (x : α) (n : ℤ) : zpow x n = x ^ n := by
  cases n with
  | ofNat k => simp [zpow, npow_eq]
  | negSucc k => simp [zpow, npow_eq, zpow_negSucc]

/-! ### exponent vectors -/

/-- well-formed exponent vector: one entry per registry key -/
def Dims.WF (d : Dims) : Prop := d.length = nDims

theorem Dims.zero_wf : Dims.WF Dims.zero := by simp [Dims.WF, Dims.zero]

theorem Dims.add_wf {a b : Dims} (ha : Dims.WF a) (hb : Dims.WF b) : Dims.WF (a.add b) := by
  simp_all [Dims.WF, Dims.add]

theorem Dims.sub_wf {a b : Dims} (ha : Dims.WF a) (hb : Dims.WF b) : Dims.WF (a.sub b) := by
  simp_all [Dims.WF, Dims.sub]

theorem Dims.smul_wf {a : Dims} (n : ℤ) (ha : Dims.WF a) : Dims.WF (Dims.smul n a) := by
  simp_all [Dims.WF, Dims.smul]

theorem Dims.basis_wf (i : ℕ) : Dims.WF (Dims.basis i) := by simp [Dims.WF, Dims.basis]

theorem zipWith_sub_eq_replicate {a b : List Int} (h : a.length = b.length) :
    List.zipWith (· - ·) a b = List.replicate a.length 0 ↔ a = b := by
  induction a generalizing b with
  | nil => cases b <;> simp_all
  | cons x xs ih =>
    cases b with
    | nil => simp at h
    | cons y ys =>
      simp only [List.length_cons, Nat.add_right_cancel_iff] at h
      simp only [List.zipWith_cons_cons, List.length_cons, List.replicate_succ, List.cons.injEq, ih h]
      constructor
      · rintro ⟨h1, h2⟩; exact ⟨by omega, h2⟩
      · rintro ⟨h1, h2⟩; exact ⟨by omega, h2⟩

/-- the compatibility test of `rescale` onto `dimensionless`: the difference vanishes iff the vectors agree -/
theorem Dims.sub_eq_zero_iff {a b : Dims} (ha : Dims.WF a) (hb : Dims.WF b) :
    a.sub b = Dims.zero ↔ a = b := by
  unfold Dims.WF at ha hb
  have := zipWith_sub_eq_replicate (a := a) (b := b) (by omega)
  rw [ha] at this
  exact this

theorem Dims.zero_sub_eq_zero_iff {b : Dims} (hb : Dims.WF b) : Dims.zero.sub b = Dims.zero ↔ b = Dims.zero := by
  rw [Dims.sub_eq_zero_iff Dims.zero_wf hb]; exact eq_comm

/-! ### well-formedness -/

/-- a modelled unit: non-zero scale factor (positive in practice) and a full exponent vector -/
structure Unit.WF (u : Unit α) : Prop where
  factor_ne : u.factor ≠ 0
  dims : Dims.WF u.dims

/-- a Python scalar whose unit (if any) is well formed -/
def PyVal.WF : PyVal α → Prop
  | .num _ => True
  | .qty q => Unit.WF q.unit

/-- the physical value of a Python scalar in SI (a plain number is its own value) -/
def PyVal.si (v : PyVal α) : α := v.asQuantity.si

/-- the exponent vector of a Python scalar (zero for a plain number) -/
def PyVal.dims (v : PyVal α) : Dims := v.asQuantity.unit.dims

theorem PyVal.dims_wf {v : PyVal α} (h : v.WF) : Dims.WF v.dims := by
  cases v with
  | num x => exact Dims.zero_wf
  | qty q => exact h.dims

@[simp] theorem PyVal.si_num (x : α) : (PyVal.num x).si = x := by
  simp [PyVal.si, PyVal.asQuantity, Quantity.si, Unit.one]
@[simp] theorem PyVal.si_qty (q : Quantity α) : (PyVal.qty q).si = q.mag * q.unit.factor := rfl
@[simp] theorem PyVal.dims_num (x : α) : (PyVal.num x).dims = Dims.zero := rfl
@[simp] theorem PyVal.dims_qty (q : Quantity α) : (PyVal.qty q).dims = q.unit.dims := rfl

/-! ### `to_unitless` on scalars -/

/-- closed form of `to_unitless` for scalars: magnitude times the exact ratio of the two units when the
    exponent vectors agree, ValueError otherwise -/
theorem toUnitlessScalar_eq (v nu : PyVal α) (hv : v.WF) (hn : nu.WF) :
    toUnitlessScalar v nu =
      if v.dims = nu.dims then .ok (v.si / nu.si) else .error .valueError := by
  have hvd := PyVal.dims_wf hv
  have hnd := PyVal.dims_wf hn
  cases v with
  | num x =>
    cases nu with
    | num y =>
      by_cases hy : (PyVal.num y : PyVal α) = PyVal.one
      · have : y = 1 := by simpa [PyVal.one] using hy
        subst this
        simp [toUnitlessScalar, PyVal.isQty, PyVal.one, PyVal.magnitude]
      · have hy' : y ≠ 1 := fun h => hy (by simp [PyVal.one, h])
        simp [toUnitlessScalar, PyVal.isQty, hy', unitOfScalar, PyVal.one, PyVal.div, rescale, PyVal.eqOne,
          Quantity.dimensionless, PyVal.magnitude, div_eq_mul_inv]
    | qty q =>
      have h0 := Dims.zero_sub_eq_zero_iff (b := q.unit.dims) hnd
      by_cases hq : q.unit.dims = Dims.zero
      · have hs := h0.mpr hq
        rw [hq] at hs
        simp [toUnitlessScalar, PyVal.isQty, PyVal.one, unitOfScalar, PyVal.div, rescale, quantitiesRescale,
          Quantity.dimensionless, PyVal.magnitude, Unit.div, Unit.one, hq, hs, Except.map]
        field_simp
      · have hq' : ¬ Dims.zero = q.unit.dims := fun h => hq h.symm
        have h1 : ¬ Dims.zero.sub q.unit.dims = Dims.zero := fun h => hq (h0.mp h)
        simp [toUnitlessScalar, PyVal.isQty, PyVal.one, unitOfScalar, PyVal.div, rescale, quantitiesRescale,
          Quantity.dimensionless, PyVal.magnitude, Unit.div, Unit.one, h1, hq', Except.map]
  | qty p =>
    cases nu with
    | num y =>
      by_cases hp : p.unit.dims = Dims.zero
      · simp [toUnitlessScalar, PyVal.isQty, unitOfScalar, PyVal.div, rescale, quantitiesRescale, Quantity.units,
          Quantity.dimensionless, PyVal.magnitude, Unit.one, hp, Except.map]
        field_simp
      · simp [toUnitlessScalar, PyVal.isQty, unitOfScalar, PyVal.div, rescale, quantitiesRescale, Quantity.units,
          Quantity.dimensionless, PyVal.magnitude, Unit.one, hp, Except.map]
    | qty q =>
      have h0 := Dims.sub_eq_zero_iff (a := p.unit.dims) (b := q.unit.dims) hvd hnd
      by_cases hpq : p.unit.dims = q.unit.dims
      · have hs := h0.mpr hpq
        rw [hpq] at hs
        simp [toUnitlessScalar, PyVal.isQty, unitOfScalar, PyVal.div, rescale, quantitiesRescale, Quantity.units,
          Quantity.dimensionless, PyVal.magnitude, Unit.one, Quantity.div, Unit.div, hs, hpq, Except.map]
        field_simp
      · have h1 : ¬ p.unit.dims.sub q.unit.dims = Dims.zero := fun h => hpq (h0.mp h)
        simp [toUnitlessScalar, PyVal.isQty, unitOfScalar, PyVal.div, rescale, quantitiesRescale, Quantity.units,
          Quantity.dimensionless, PyVal.magnitude, Unit.one, Quantity.div, Unit.div, h1, hpq, Except.map]

theorem toUnitlessScalar_ok_iff {v nu : PyVal α} (hv : v.WF) (hn : nu.WF) (x : α) :
    toUnitlessScalar v nu = .ok x ↔ v.dims = nu.dims ∧ x = v.si / nu.si := by
  rw [toUnitlessScalar_eq v nu hv hn]
  by_cases h : v.dims = nu.dims <;> simp [h, eq_comm]

theorem toUnitlessScalar_error_iff {v nu : PyVal α} (hv : v.WF) (hn : nu.WF) (e : Err) :
    toUnitlessScalar v nu = .error e ↔ v.dims ≠ nu.dims ∧ e = .valueError := by
  rw [toUnitlessScalar_eq v nu hv hn]
  by_cases h : v.dims = nu.dims <;> simp [h, eq_comm]

/-! ### multiplying back, scaling, adding -/

theorem timesUnit_si (x : α) (u : PyVal α) : (timesUnit x u).si = x * u.si := by
  cases u <;> simp [timesUnit, PyVal.mul, PyVal.si, PyVal.asQuantity, Quantity.si, Unit.one, mul_assoc]

theorem timesUnit_dims (x : α) (u : PyVal α) : (timesUnit x u).dims = u.dims := by
  cases u <;> simp [timesUnit, PyVal.mul, PyVal.dims, PyVal.asQuantity, Unit.one]

theorem timesUnit_wf (x : α) {u : PyVal α} (hu : u.WF) : (timesUnit x u).WF := by
  cases u <;> simp_all [timesUnit, PyVal.mul, PyVal.WF]

theorem scale_si (c : α) (v : PyVal α) : ((PyVal.num c).mul v).si = c * v.si := timesUnit_si c v
theorem scale_dims (c : α) (v : PyVal α) : ((PyVal.num c).mul v).dims = v.dims := timesUnit_dims c v
theorem scale_wf (c : α) {v : PyVal α} (hv : v.WF) : ((PyVal.num c).mul v).WF := timesUnit_wf c hv

theorem PyVal.asQuantity_factor_ne {v : PyVal α} (hv : v.WF) : v.asQuantity.unit.factor ≠ 0 := by
  cases v with
  | num x => simp [PyVal.asQuantity, Unit.one]
  | qty q => exact hv.factor_ne

/-- `a + b` / `a - b` of quantities: the physical values are added / subtracted, in the unit of the left operand -/
theorem addLike_ok {op : α → α → α} {a b s : PyVal α} (ha : a.WF) (hb : b.WF) (h : addLike op a b = .ok s)
    (hop : ∀ x y c : α, op x y * c = op (x * c) (y * c)) :
    a.dims = b.dims ∧ s.dims = a.dims ∧ s.si = op a.si b.si ∧ s.WF := by
  have hfa := PyVal.asQuantity_factor_ne ha
  cases a with
  | num x =>
    cases b with
    | num y =>
      simp [addLike] at h; subst h
      simp [PyVal.WF]
    | qty q =>
      simp only [addLike] at h
      split at h
      · rename_i hd
        simp at h; subst h
        refine ⟨hd, rfl, ?_, ?_⟩
        · simp [PyVal.si, PyVal.asQuantity, Quantity.si, Unit.one, hop]
        · simp [PyVal.WF, PyVal.asQuantity]; exact ⟨by simp [Unit.one], Dims.zero_wf⟩
      · simp at h
  | qty p =>
    simp only [addLike] at h
    split at h
    · rename_i hd
      simp at h; subst h
      refine ⟨hd, rfl, ?_, ha⟩
      simp only [PyVal.si, PyVal.asQuantity, Quantity.si, hop]
      congr 1
      have : p.unit.factor ≠ 0 := hfa
      field_simp
    · simp at h

theorem addLike_error {op : α → α → α} {a b : PyVal α} {e : Err} (h : addLike op a b = .error e) :
    a.dims ≠ b.dims ∧ e = .valueError := by
  cases a <;> cases b <;> simp only [addLike] at h <;> (try split at h) <;> simp_all [PyVal.dims, eq_comm]

/-! ### containers: element-wise -/

theorem toUnitlessFlat_ok_iff (l : List (PyVal α)) (u : PyVal α) (xs : List α) :
    toUnitlessFlat l u = .ok xs ↔ List.Forall₂ (fun v x => toUnitlessScalar v u = .ok x) l xs := by
  induction l generalizing xs with
  | nil => cases xs <;> simp [toUnitlessFlat]
  | cons v r ih =>
    simp only [toUnitlessFlat]
    split
    · rename_i e he; simp [he]
      intro h; cases h with | cons h1 _ => simp [he] at h1
    · rename_i x hx
      split
      · rename_i e he
        simp only [reduceCtorEq, false_iff]
        intro h; cases h with
        | cons h1 h2 => rw [← ih] at h2; simp [he] at h2
      · rename_i ys hys
        constructor
        · intro h; simp at h; subst h
          exact List.Forall₂.cons hx ((ih ys).mp hys)
        · intro h; cases h with
          | cons h1 h2 =>
            rw [hx] at h1; simp at h1; subst h1
            rw [← ih, hys] at h2; simp at h2; subst h2; rfl

theorem toUnitlessFlat_error {l : List (PyVal α)} {u : PyVal α} {e : Err} (h : toUnitlessFlat l u = .error e) :
    ∃ v ∈ l, toUnitlessScalar v u = .error e := by
  induction l with
  | nil => simp [toUnitlessFlat] at h
  | cons v r ih =>
    simp only [toUnitlessFlat] at h
    split at h
    · rename_i e' he; simp at h; subst h; exact ⟨v, by simp, he⟩
    · split at h
      · rename_i e' he; simp at h; subst h
        obtain ⟨w, hw, hw'⟩ := ih he
        exact ⟨w, by simp [hw], hw'⟩
      · simp at h

theorem toUnitlessFlat_length {l : List (PyVal α)} {u : PyVal α} {xs : List α} (h : toUnitlessFlat l u = .ok xs) :
    xs.length = l.length := ((toUnitlessFlat_ok_iff l u xs).mp h).length_eq.symm

/-! ### the unit algebra is a homomorphism onto (SI value, exponent vector) -/

theorem Dims.getD_add {a b : Dims} (h : a.length = b.length) (j : ℕ) :
    (a.add b).getD j 0 = a.getD j 0 + b.getD j 0 := by
  simp only [Dims.add, List.getD_eq_getElem?_getD, List.getElem?_zipWith]
  by_cases hj : j < a.length
  · have hj' : j < b.length := by omega
    simp [List.getElem?_eq_getElem hj, List.getElem?_eq_getElem hj']
  · have hj' : ¬ j < b.length := by omega
    simp [List.getElem?_eq_none (Nat.le_of_not_lt hj), List.getElem?_eq_none (Nat.le_of_not_lt hj')]

theorem Dims.getD_smul (n : ℤ) (a : Dims) (j : ℕ) : (Dims.smul n a).getD j 0 = n * a.getD j 0 := by
  simp only [Dims.smul, List.getD_eq_getElem?_getD, List.getElem?_map]
  cases a[j]? <;> simp

theorem Dims.getD_zero (j : ℕ) : Dims.zero.getD j 0 = 0 := by
  simp only [Dims.zero, List.getD_eq_getElem?_getD, List.getElem?_replicate]
  split <;> simp

theorem Dims.getD_basis (i j : ℕ) : (Dims.basis i).getD j 0 = if j = i ∧ j < nDims then 1 else 0 := by
  simp only [Dims.basis, List.getD_eq_getElem?_getD, List.getElem?_map, List.getElem?_range]
  by_cases hj : j < nDims
  · by_cases hji : j = i
    · subst hji; simp [List.getElem?_range, hj]
    · simp [List.getElem?_range, hj, hji]
  · simp [List.getElem?_range, hj]

theorem Dims.ext_getD {a b : Dims} (ha : Dims.WF a) (hb : Dims.WF b) (h : ∀ j, j < nDims → a.getD j 0 = b.getD j 0) :
    a = b := by
  unfold Dims.WF at ha hb
  apply List.ext_getElem (by omega)
  intro j h1 h2
  have := h j (by omega)
  simpa [List.getD_eq_getElem?_getD, List.getElem?_eq_getElem h1, List.getElem?_eq_getElem h2] using this

theorem Dims.zero_add {d : Dims} (hd : Dims.WF d) : Dims.zero.add d = d :=
  Dims.ext_getD (Dims.add_wf Dims.zero_wf hd) hd fun j _ => by
    rw [Dims.getD_add (by rw [hd]; simp [Dims.zero]), Dims.getD_zero]; simp

theorem Dims.add_zero {d : Dims} (hd : Dims.WF d) : d.add Dims.zero = d :=
  Dims.ext_getD (Dims.add_wf hd Dims.zero_wf) hd fun j _ => by
    rw [Dims.getD_add (by rw [hd]; simp [Dims.zero]), Dims.getD_zero]; simp

theorem Dims.smul_zero (n : ℤ) : Dims.smul n Dims.zero = Dims.zero := by
  simp [Dims.smul, Dims.zero]

theorem PyVal.mul_si (a b : PyVal α) : (a.mul b).si = a.si * b.si := by
  cases a <;> cases b <;>
    simp [PyVal.mul, PyVal.si, PyVal.asQuantity, Quantity.si, Quantity.mul, Unit.mul, Unit.one] <;> ring

theorem PyVal.mul_dims {a b : PyVal α} (ha : a.WF) (hb : b.WF) : (a.mul b).dims = a.dims.add b.dims := by
  have h1 := PyVal.dims_wf ha
  have h2 := PyVal.dims_wf hb
  cases a <;> cases b <;>
    simp_all [PyVal.mul, PyVal.dims, PyVal.asQuantity, Quantity.mul, Unit.mul, Unit.one, Dims.zero_add, Dims.add_zero,
      Dims.zero_wf]

theorem PyVal.mul_wf {a b : PyVal α} (ha : a.WF) (hb : b.WF) : (a.mul b).WF := by
  cases a with
  | num x => cases b <;> simp_all [PyVal.mul, PyVal.WF]
  | qty p =>
    cases b with
    | num y => simpa [PyVal.mul, PyVal.WF] using ha
    | qty q =>
      exact ⟨by simpa [Quantity.mul, Unit.mul] using ⟨ha.factor_ne, hb.factor_ne⟩,
        by simpa [Quantity.mul, Unit.mul] using Dims.add_wf ha.dims hb.dims⟩

theorem PyVal.pow_si (v : PyVal α) (n : ℤ) : (v.pow n).si = v.si ^ n := by
  cases v <;> simp [PyVal.pow, PyVal.si, PyVal.asQuantity, Quantity.si, Quantity.pow, Unit.pow, Unit.one, zpow_eq, mul_zpow]

theorem PyVal.pow_dims (v : PyVal α) (n : ℤ) : (v.pow n).dims = Dims.smul n v.dims := by
  cases v <;> simp [PyVal.pow, PyVal.dims, PyVal.asQuantity, Quantity.pow, Unit.pow, Unit.one, Dims.smul_zero]

theorem PyVal.pow_wf {v : PyVal α} (hv : v.WF) (n : ℤ) : (v.pow n).WF := by
  cases v with
  | num x => simp [PyVal.pow, PyVal.WF]
  | qty q =>
    exact ⟨by simpa [Quantity.pow, Unit.pow, zpow_eq] using zpow_ne_zero n hv.factor_ne,
      by simpa [Quantity.pow, Unit.pow] using Dims.smul_wf n hv.dims⟩

/-! ### registries -/

/-- a base-unit registry: one entry per key, each a non-zero (positive in practice) multiple of a unit of the
    dimension its key names -/
structure RegistryWF (reg : Registry α) : Prop where
  len : reg.length = nDims
  entry : ∀ i (h : i < reg.length), reg[i].WF ∧ reg[i].dims = Dims.basis i ∧ reg[i].si ≠ 0

/-- `∏ registry[key_j].si ^ d_j`: the SI value of the registry's unit for the exponent vector `d` -/
def regProd : List (PyVal α) → Dims → α
  | r :: rs, e :: es => r.si ^ e * regProd rs es
  | _, _ => 1

/-- sum over a list of values of exponent `j` -/
def dimSum (us : List (PyVal α)) (j : ℕ) : ℤ := (us.map fun u => u.dims.getD j 0).sum

theorem foldl_mul_spec (us : List (PyVal α)) (t : PyVal α) (ht : t.WF) (hus : ∀ u ∈ us, u.WF) :
    (us.foldl PyVal.mul t).WF ∧ (us.foldl PyVal.mul t).si = t.si * (us.map PyVal.si).prod ∧
    ∀ j, (us.foldl PyVal.mul t).dims.getD j 0 = t.dims.getD j 0 + dimSum us j := by
  induction us generalizing t with
  | nil => simp [ht, dimSum]
  | cons u r ih =>
    have hu : u.WF := hus u (by simp)
    have hr : ∀ w ∈ r, w.WF := fun w hw => hus w (by simp [hw])
    obtain ⟨h1, h2, h3⟩ := ih (t.mul u) (PyVal.mul_wf ht hu) hr
    refine ⟨h1, ?_, ?_⟩
    · simp [List.foldl_cons, h2, PyVal.mul_si, mul_assoc]
    · intro j
      simp only [List.foldl_cons, h3 j, PyVal.mul_dims ht hu]
      rw [Dims.getD_add (by rw [PyVal.dims_wf ht, PyVal.dims_wf hu])]
      simp [dimSum]; ring

theorem registryPowers_dimItems (reg : Registry α) (hreg : RegistryWF reg) (d : Dims) (i : ℕ)
    (hlen : i + d.length = nDims) :
    ∃ us, registryPowers reg (dimItems i d) = .ok us ∧ (∀ u ∈ us, u.WF ∧ u.si ≠ 0) ∧
      (us.map PyVal.si).prod = regProd (reg.drop i) d ∧
      (us = [] ↔ dimItems i d = []) ∧
      ∀ j, j < nDims → dimSum us j = if i ≤ j then d.getD (j - i) 0 else 0 := by
  induction d generalizing i with
  | nil =>
    refine ⟨[], by simp [dimItems, registryPowers], by simp, ?_, by simp [dimItems], ?_⟩
    · cases reg.drop i <;> simp [regProd]
    · intro j _; simp [dimSum]
  | cons e r ih =>
    have hi : i < reg.length := by rw [hreg.len]; simp at hlen; omega
    obtain ⟨us, h1, h2, h3, h3', h4⟩ := ih (i + 1) (by simp at hlen; omega)
    have hdrop : reg.drop i = reg[i] :: reg.drop (i + 1) := List.drop_eq_getElem_cons hi
    obtain ⟨hw, hdim, hsi⟩ := hreg.entry i hi
    by_cases he : e = 0
    · subst he
      refine ⟨us, by simpa [dimItems] using h1, h2, ?_, by simpa [dimItems] using h3', ?_⟩
      · rw [hdrop]; simp [regProd, h3]
      · intro j hj
        rw [h4 j hj]
        by_cases hij : i + 1 ≤ j
        · have : i ≤ j := by omega
          have hji : j - i = (j - (i + 1)) + 1 := by omega
          simp [hij, this, hji]
        · by_cases hij' : i ≤ j
          · have : j - i = 0 := by omega
            simp [hij, hij', this]
          · simp [hij, hij']
    · refine ⟨reg[i].pow e :: us, ?_, ?_, ?_, by simp [dimItems, he], ?_⟩
      · simp [dimItems, he, registryPowers, List.getElem?_eq_getElem hi, h1]
      · intro u hu
        rcases List.mem_cons.mp hu with rfl | hu
        · exact ⟨PyVal.pow_wf hw e, by rw [PyVal.pow_si]; exact zpow_ne_zero e hsi⟩
        · exact h2 u hu
      · rw [hdrop]; simp [regProd, h3, PyVal.pow_si]
      · intro j hj
        simp only [dimSum, List.map_cons, List.sum_cons] at h4 ⊢
        rw [h4 j hj, PyVal.pow_dims, Dims.getD_smul, hdim, Dims.getD_basis]
        by_cases hij : i + 1 ≤ j
        · have h5 : i ≤ j := by omega
          have h6 : j ≠ i := by omega
          have hji : j - i = (j - (i + 1)) + 1 := by omega
          simp [hij, h5, h6, hji]
        · by_cases hij' : i ≤ j
          · have h6 : j = i := by omega
            subst h6
            simp [hj]
          · have h6 : j ≠ i := by omega
            simp [hij, hij', h6]

theorem list_prod_ne_zero {l : List α} (h : ∀ x ∈ l, x ≠ 0) : l.prod ≠ 0 := by
  induction l with
  | nil => simp
  | cons a r ih =>
    simp only [List.prod_cons]
    exact mul_ne_zero (h a (by simp)) (ih fun x hx => h x (by simp [hx]))

/-- `_get_unit_from_registry` on the non-zero exponents of `d`: a well-formed unit of exponent vector `d` whose SI
    value is the product of the registry's base units raised to the exponents -/
theorem getUnitFromRegistry_spec (reg : Registry α) (hreg : RegistryWF reg) (d : Dims) (hd : Dims.WF d)
    (hne : dimItems 0 d ≠ []) :
    ∃ U, getUnitFromRegistry (dimItems 0 d) reg = .ok U ∧ U.WF ∧ U.dims = d ∧ U.si = regProd reg d ∧ U.si ≠ 0 := by
  obtain ⟨us, h1, h2, h3, h3', h4⟩ := registryPowers_dimItems reg hreg d 0 (by simpa [Dims.WF] using hd)
  cases us with
  | nil => exact absurd (h3'.mp rfl) hne
  | cons t r =>
    have ht := h2 t (by simp)
    have hr : ∀ u ∈ r, u.WF := fun u hu => (h2 u (by simp [hu])).1
    obtain ⟨f1, f2, f3⟩ := foldl_mul_spec r t ht.1 hr
    have hsi : (r.foldl PyVal.mul t).si = regProd reg d := by
      rw [f2]; simpa using h3
    refine ⟨r.foldl PyVal.mul t, by simp [getUnitFromRegistry, h1], f1, ?_, hsi, ?_⟩
    · apply Dims.ext_getD (PyVal.dims_wf f1) hd
      intro j hj
      have := h4 j hj
      simp only [dimSum, List.map_cons, List.sum_cons] at this
      rw [f3 j]; simpa [dimSum] using this
    · rw [f2]
      refine mul_ne_zero ht.2 (list_prod_ne_zero ?_)
      intro x hx
      obtain ⟨u, hu, rfl⟩ := List.mem_map.mp hx
      exact (h2 u (by simp [hu])).2

theorem dimItems_eq_nil_iff (d : Dims) (i : ℕ) : dimItems i d = [] ↔ ∀ e ∈ d, e = 0 := by
  induction d generalizing i with
  | nil => simp [dimItems]
  | cons e r ih =>
    by_cases he : e = 0
    · simp [dimItems, he, ih]
    · simp [dimItems, he]

theorem Dims.eq_zero_iff {d : Dims} (hd : Dims.WF d) : d = Dims.zero ↔ ∀ e ∈ d, e = 0 := by
  constructor
  · rintro rfl e he; simpa [Dims.zero] using (List.mem_replicate.mp he).2
  · intro h
    unfold Dims.WF at hd
    rw [Dims.zero, ← hd]
    exact List.eq_replicate_iff.mpr ⟨rfl, h⟩

theorem regProd_replicate_zero (reg : List (PyVal α)) (n : ℕ) : regProd reg (List.replicate n 0) = 1 := by
  induction reg generalizing n with
  | nil => cases n <;> simp [regProd, List.replicate_succ]
  | cons r rs ih => cases n <;> simp [regProd, List.replicate_succ, ih]

theorem regProd_zero (reg : List (PyVal α)) : regProd reg Dims.zero = 1 := regProd_replicate_zero reg nDims

/-- one expression of the `derived` dict: a well-formed unit with the tabulated exponents -/
theorem monomial_spec (reg : Registry α) (hreg : RegistryWF reg) (e : Dims) (he : Dims.WF e) :
    ∃ U, monomial reg e = .ok U ∧ U.WF ∧ U.dims = e ∧ U.si = regProd reg e ∧ U.si ≠ 0 := by
  obtain ⟨us, h1, h2, h3, _, h4⟩ := registryPowers_dimItems reg hreg e 0 (by simpa [Dims.WF] using he)
  have hone : (PyVal.one : PyVal α).WF := by simp [PyVal.one, PyVal.WF]
  obtain ⟨f1, f2, f3⟩ := foldl_mul_spec us PyVal.one hone (fun u hu => (h2 u hu).1)
  have hsi : (us.foldl PyVal.mul PyVal.one).si = regProd reg e := by
    rw [f2]; simp [PyVal.one, h3]
  refine ⟨us.foldl PyVal.mul PyVal.one, by simp [monomial, h1], f1, ?_, hsi, ?_⟩
  · apply Dims.ext_getD (PyVal.dims_wf f1) he
    intro j hj
    rw [f3 j, h4 j hj]
    have := Dims.getD_zero j
    rw [List.getD_eq_getElem?_getD] at this
    simp [PyVal.one, this]
  · rw [f2]
    refine mul_ne_zero (by simp [PyVal.one]) (list_prod_ne_zero ?_)
    intro x hx
    obtain ⟨u, hu, rfl⟩ := List.mem_map.mp hx
    exact (h2 u hu).2

theorem derivedAll_spec (reg : Registry α) (hreg : RegistryWF reg) (tab : List (String × Dims))
    (htab : ∀ p ∈ tab, Dims.WF p.2) :
    ∃ ds, derivedAll reg tab = .ok ds ∧
      ∀ key, (ds.lookup key).isSome = (tab.lookup key).isSome ∧
        ∀ U, ds.lookup key = some U → ∃ e, tab.lookup key = some e ∧ U.WF ∧ U.dims = e ∧ U.si = regProd reg e ∧ U.si ≠ 0 := by
  induction tab with
  | nil => exact ⟨[], by simp [derivedAll], by simp⟩
  | cons p r ih =>
    obtain ⟨k, e⟩ := p
    obtain ⟨ds, hds, hspec⟩ := ih (fun q hq => htab q (by simp [hq]))
    obtain ⟨U, hU, hw, hd, hs, hn⟩ := monomial_spec reg hreg e (htab (k, e) (by simp))
    refine ⟨(k, U) :: ds, by simp [derivedAll, hU, hds], ?_⟩
    intro key
    by_cases hk : key = k
    · subst hk
      simp only [List.lookup, beq_self_eq_true, Option.isSome_some, Option.some.injEq, true_and]
      rintro U' rfl
      exact ⟨e, rfl, hw, hd, hs, hn⟩
    · have hk' : (key == k) = false := by simpa using hk
      simp only [List.lookup, hk']
      exact hspec key

end ChemModel.Units
