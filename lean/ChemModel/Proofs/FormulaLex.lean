/-
C01 helper lemmas, lexical layer: digits / counts, the generated element table, whitespace,
state and prime tokens, and `parseTail` on rendered text.
-/
import ChemModel.Model.Formula

namespace ChemModel.Formula
open ChemModel.Gen

/-! ### character facts -/

theorem isDigit_notLower (c : Char) (h : c.isDigit = true) : c.isLower = false := by
  simp only [Char.isDigit, Char.isLower, Bool.and_eq_true, decide_eq_true_eq] at *
  have h2 : c.val ≤ 57 := h.2
  simp only [Bool.and_eq_false_iff, decide_eq_false_iff_not]
  left
  intro h3
  have h3' : (97 : UInt32) ≤ c.val := h3
  have := UInt32.le_trans h3' h2
  exact absurd this (by decide)

theorem isDigit_bounds (c : Char) (h : c.isDigit = true) : 48 ≤ c.val ∧ c.val ≤ 57 := by
  simp only [Char.isDigit, Bool.and_eq_true, decide_eq_true_eq] at h
  exact h

theorem isDigit_ne {c d : Char} (h : c.isDigit = true) (hd : d.isDigit = false) : c ≠ d := by
  intro e; subst e; rw [h] at hd; exact absurd hd (by decide)

theorem isDigit_notWs (c : Char) (h : c.isDigit = true) : isWs c = false := by
  have h1 : c ≠ ' ' := isDigit_ne h (by decide)
  have h2 : c ≠ '\t' := isDigit_ne h (by decide)
  have h3 : c ≠ '\n' := isDigit_ne h (by decide)
  have h4 : c ≠ '\r' := isDigit_ne h (by decide)
  simp [isWs, h1, h2, h3, h4]

theorem isDigit_notMark (c : Char) (h : c.isDigit = true) : isMark c = false := by
  have h1 : c ≠ '*' := isDigit_ne h (by decide)
  have h2 : c ≠ '\'' := isDigit_ne h (by decide)
  simp [isMark, h1, h2]

theorem isMark_cases {c : Char} (h : isMark c = true) : c = '*' ∨ c = '\'' := by
  simpa [isMark] using h

theorem isDigits_iff (l : List Char) : isDigits l = true ↔ l ≠ [] ∧ ∀ c ∈ l, c.isDigit = true := by
  cases l <;> simp [isDigits]

/-! ### whitespace -/

def NoWs (s : List Char) : Prop := ∀ c ∈ s, isWs c = false

theorem skipWs_head {s : List Char} (h : ∀ c, s.head? = some c → isWs c = false) : skipWs s = s := by
  cases s with
  | nil => rfl
  | cons c r => simp [skipWs, h c (by simp)]

theorem skipWs_noWs {s : List Char} (h : NoWs s) : skipWs s = s :=
  skipWs_head (fun c hc => h c (by cases s <;> simp_all))

theorem NoWs.append {a b : List Char} (ha : NoWs a) (hb : NoWs b) : NoWs (a ++ b) := by
  intro c hc
  rcases List.mem_append.mp hc with h | h
  · exact ha c h
  · exact hb c h

theorem NoWs.cons {c : Char} {r : List Char} (hc : isWs c = false) (hr : NoWs r) : NoWs (c :: r) := by
  intro d hd
  rcases List.mem_cons.mp hd with h | h
  · subst h; exact hc
  · exact hr d h

theorem NoWs.of_append_right {a b : List Char} (h : NoWs (a ++ b)) : NoWs b :=
  fun c hc => h c (List.mem_append.mpr (Or.inr hc))

theorem NoWs.of_cons {c : Char} {r : List Char} (h : NoWs (c :: r)) : NoWs r :=
  fun d hd => h d (List.mem_cons.mpr (Or.inr hd))

/-! ### digits and counts -/

theorem takeDigits_append (ds r : List Char) (h : ∀ c ∈ ds, c.isDigit = true)
    (hr : ∀ c, r.head? = some c → c.isDigit = false) :
    takeDigits (ds ++ r) = (ds, r) := by
  induction ds with
  | nil =>
    cases r with
    | nil => simp [takeDigits]
    | cons c cs => simp [takeDigits, hr c (by simp)]
  | cons d ds ih =>
    have hd : d.isDigit = true := h d (by simp)
    have := ih (fun c hc => h c (by simp [hc]))
    simp [takeDigits, hd, this]

/-- what may follow a count: neither a digit nor '.' -/
def CountStop (r : List Char) : Prop := ∀ c, r.head? = some c → c.isDigit = false ∧ c ≠ '.'

theorem parseCount_render (n : Cnt) (hn : n.wf = true) (r : List Char) (hr : CountStop r) :
    parseCount (n.render ++ r) = (n.val, r) := by
  have hr' : ∀ c, r.head? = some c → c.isDigit = false := fun c hc => (hr c hc).1
  cases n with
  | omitted =>
    have h0 : takeDigits r = ([], r) := by simpa using takeDigits_append [] r (by simp) hr'
    simp [Cnt.render, Cnt.val, parseCount, h0]
  | int ip =>
    obtain ⟨hne, hd⟩ := (isDigits_iff ip).mp hn
    have h1 : takeDigits (ip ++ r) = (ip, r) := takeDigits_append ip r hd hr'
    simp only [Cnt.render, Cnt.val, parseCount, h1, if_neg hne]
    cases r with
    | nil => rfl
    | cons c cs =>
      have hc : c ≠ '.' := (hr c (by simp)).2
      split
      · rename_i r2 heq
        simp at heq; exact absurd heq.1 hc
      · rfl
  | dec ip fp =>
    simp only [Cnt.wf, Bool.and_eq_true] at hn
    obtain ⟨hne, hd⟩ := (isDigits_iff ip).mp hn.1
    obtain ⟨hne2, hd2⟩ := (isDigits_iff fp).mp hn.2
    have h1 : takeDigits (ip ++ '.' :: (fp ++ r)) = (ip, '.' :: (fp ++ r)) :=
      takeDigits_append ip _ hd (by intro c hc; simp at hc; subst hc; decide)
    have h2 : takeDigits (fp ++ r) = (fp, r) := takeDigits_append fp r hd2 hr'
    simp only [Cnt.render, Cnt.val, parseCount, List.append_assoc, List.cons_append, h1, h2,
      if_neg hne, if_neg hne2]

/-! ### element table lemmas (finite facts by `decide +kernel`, lifted) -/

def NotLower (r : List Char) : Prop := ∀ c, r.head? = some c → c.isLower = false

theorem matchBranch_two (b : Char × List Char × Bool) (a c : Char) (r : List Char) :
    matchBranch b (a :: c :: r) = (matchBranch b [a, c]).map (fun p => (p.1, p.2 ++ r)) := by
  simp only [matchBranch]
  split <;> (try split) <;> (try split) <;> simp

theorem matchElemAux_two (bs : List (Char × List Char × Bool)) (a c : Char) (r : List Char) :
    matchElemAux bs (a :: c :: r) = (matchElemAux bs [a, c]).map (fun p => (p.1, p.2 ++ r)) := by
  induction bs with
  | nil => simp [matchElemAux]
  | cons b bs ih =>
    simp only [matchElemAux, matchBranch_two b a c r]
    cases h : matchBranch b [a, c] <;> simp [ih]

theorem matchBranch_one (b : Char × List Char × Bool) (a c : Char) (r : List Char)
    (hc : b.2.1.contains c = false) :
    matchBranch b (a :: c :: r) = (matchBranch b [a]).map (fun p => (p.1, p.2 ++ c :: r)) := by
  simp only [matchBranch, hc]
  by_cases h1 : a = b.1 <;> by_cases h2 : b.2.2 = true <;> simp [h1, h2]

theorem matchElemAux_one (bs : List (Char × List Char × Bool)) (a c : Char) (r : List Char)
    (hc : ∀ b ∈ bs, b.2.1.contains c = false) :
    matchElemAux bs (a :: c :: r) = (matchElemAux bs [a]).map (fun p => (p.1, p.2 ++ c :: r)) := by
  induction bs with
  | nil => simp [matchElemAux]
  | cons b bs ih =>
    have hb := hc b (by simp)
    have ih' := ih (fun b' hb' => hc b' (by simp [hb']))
    simp only [matchElemAux, matchBranch_one b a c r hb]
    cases h : matchBranch b [a] <;> simp [ih']

theorem matchElemAux_head_ne (bs : List (Char × List Char × Bool)) (c : Char) (r : List Char)
    (hc : ∀ b ∈ bs, b.1 ≠ c) : matchElemAux bs (c :: r) = none := by
  induction bs with
  | nil => simp [matchElemAux]
  | cons b bs ih =>
    have hb : ¬ c = b.1 := fun h => hc b (by simp) h.symm
    have ih' := ih (fun b' hb' => hc b' (by simp [hb']))
    have : matchBranch b (c :: r) = none := by
      cases r with
      | nil => simp [matchBranch, hb]
      | cons d ds => simp [matchBranch, hb]
    simp [matchElemAux, this, ih']

theorem matchElemAux_nil (bs : List (Char × List Char × Bool)) : matchElemAux bs [] = none := by
  induction bs with
  | nil => rfl
  | cons b bs ih => simp [matchElemAux, matchBranch, ih]

/-- the finite facts about the generated tables, for the symbol of atomic number `i+1` -/
def symFacts (i : Nat) : Bool :=
  let s := symChars (i + 1)
  (s.length == 1 || s.length == 2) &&
  matchElemAux elemBranches s == some (s, []) &&
  symIndex s == some (i + 1) &&
  s.all (fun c => c.isAlpha) && (s.head?.map (fun c => c.isUpper)) == some true

theorem table_syms : ∀ i < 118, symFacts i = true := by decide +kernel
theorem table_sets_lower : elemBranches.all (fun b => b.2.1.all Char.isLower) = true := by decide +kernel
theorem table_first_upper : elemBranches.all (fun b => b.1.isUpper) = true := by decide +kernel

structure SymOK (s : List Char) (z : Nat) : Prop where
  len : s.length = 1 ∨ s.length = 2
  mtch : matchElemAux elemBranches s = some (s, [])
  idx : symIndex s = some z
  alpha : ∀ c ∈ s, c.isAlpha = true
  upper : ∀ c, s.head? = some c → c.isUpper = true

theorem symOK {z : Nat} (h1 : 1 ≤ z) (h2 : z ≤ 118) : SymOK (symChars z) z := by
  obtain ⟨i, rfl⟩ : ∃ i, z = i + 1 := ⟨z - 1, by omega⟩
  have hf := table_syms i (by omega)
  simp only [symFacts, Bool.and_eq_true, Bool.or_eq_true, beq_iff_eq] at hf
  obtain ⟨⟨⟨⟨hlen, hm⟩, hidx⟩, hall⟩, hhead⟩ := hf
  refine ⟨hlen, hm, hidx, ?_, ?_⟩
  · simpa using hall
  · intro c hc
    rw [hc] at hhead
    simpa using hhead

theorem isUpper_alpha_facts (c : Char) (h : c.isAlpha = true) :
    c.isDigit = false ∧ c ≠ '.' ∧ isWs c = false ∧ isMark c = false ∧ c ≠ '(' ∧ c ≠ '/' ∧ c ≠ '+' ∧ c ≠ '-' ∧ c ≠ '·' ∧ c ≠ '@' := by
  have key : ∀ d : Char, d.isAlpha = false → c ≠ d := by
    intro d hd e; subst e; rw [h] at hd; exact absurd hd (by decide)
  have hdig : c.isDigit = false := by
    cases hcd : c.isDigit with
    | false => rfl
    | true =>
      exfalso
      have hb := isDigit_bounds c hcd
      simp only [Char.isAlpha, Char.isUpper, Char.isLower, Bool.or_eq_true, Bool.and_eq_true, decide_eq_true_eq] at h
      rcases h with h | h
      · have h1 : (65 : UInt32) ≤ c.val := h.1
        exact absurd (UInt32.le_trans h1 hb.2) (by decide)
      · have h1 : (97 : UInt32) ≤ c.val := h.1
        exact absurd (UInt32.le_trans h1 hb.2) (by decide)
  refine ⟨hdig, key _ (by decide), ?_, ?_, key _ (by decide), key _ (by decide), key _ (by decide), key _ (by decide),
    key _ (by decide), key _ (by decide)⟩
  · have h1 := key ' ' (by decide); have h2 := key '\t' (by decide)
    have h3 := key '\n' (by decide); have h4 := key '\r' (by decide)
    simp [isWs, h1, h2, h3, h4]
  · have h1 := key '*' (by decide); have h2 := key '\'' (by decide)
    simp [isMark, h1, h2]

theorem isUpper_notLower (c : Char) (h : c.isUpper = true) : c.isLower = false := by
  simp only [Char.isUpper, Char.isLower, Bool.and_eq_true, decide_eq_true_eq] at *
  simp only [Bool.and_eq_false_iff, decide_eq_false_iff_not]
  left
  intro h3
  have h3' : (97 : UInt32) ≤ c.val := h3
  have := UInt32.le_trans h3' h.2
  exact absurd this (by decide)

theorem contains_false_of_notLower (c : Char) (hc : c.isLower = false) :
    ∀ b ∈ elemBranches, b.2.1.contains c = false := by
  intro b hb
  have h := List.all_eq_true.mp table_sets_lower b hb
  rw [List.all_eq_true] at h
  cases hcon : b.2.1.contains c with
  | false => rfl
  | true =>
    have hmem : c ∈ b.2.1 := by simpa using hcon
    have := h c hmem
    rw [hc] at this; exact absurd this (by decide)

/-- every symbol is tokenised greedily and completely whenever no lowercase letter follows -/
theorem matchElem_sym (z : Nat) (h1 : 1 ≤ z) (h2 : z ≤ 118) (r : List Char) (hr : NotLower r) :
    matchElem (symChars z ++ r) = some (z, r) := by
  obtain ⟨hlen, hm, hidx, _, _⟩ := symOK h1 h2
  generalize symChars z = s at *
  cases s with
  | nil => simp at hlen
  | cons a s1 =>
    cases s1 with
    | nil =>
      cases r with
      | nil => simp [matchElem, hm, hidx]
      | cons c cs =>
        have hc : c.isLower = false := hr c (by simp)
        have := matchElemAux_one elemBranches a c cs (contains_false_of_notLower c hc)
        simp [matchElem, this, hm, hidx]
    | cons b s2 =>
      cases s2 with
      | nil =>
        have := matchElemAux_two elemBranches a b r
        simp [matchElem, this, hm, hidx]
      | cons _ _ => simp at hlen

theorem matchElem_none_of_not_upper (c : Char) (r : List Char) (hc : c.isUpper = false) :
    matchElem (c :: r) = none := by
  have : matchElemAux elemBranches (c :: r) = none := by
    apply matchElemAux_head_ne
    intro b hb hbc
    have h := List.all_eq_true.mp table_first_upper b hb
    rw [hbc, hc] at h; exact absurd h (by decide)
  simp [matchElem, this]

theorem matchElem_nil : matchElem [] = none := by
  simp [matchElem, matchElemAux_nil]

/-! ### state and primes -/

theorem matchState_head_ne (c : Char) (r : List Char) (h : c ≠ '(') : matchState (c :: r) = none := by
  unfold matchState
  split <;> simp_all

theorem matchState_nil : matchState [] = none := rfl

theorem matchState_paren_notLower (c : Char) (r : List Char) (h : c.isLower = false) :
    matchState ('(' :: c :: r) = none := by
  have key : ∀ d : Char, d.isLower = true → c ≠ d := by
    intro d hd e; subst e; rw [h] at hd; exact absurd hd (by decide)
  have h1 := key 's' (by decide); have h2 := key 'l' (by decide); have h3 := key 'g' (by decide)
  have h4 := key 'a' (by decide); have h5 := key 'c' (by decide)
  unfold matchState
  split <;> simp_all

theorem matchState_text (s : St) (r : List Char) : matchState (s.text ++ r) = some r := by
  cases s <;> rfl

theorem dropMarks_append (ms r : List Char) (hm : ∀ c ∈ ms, isMark c = true)
    (hr : ∀ c, r.head? = some c → isMark c = false) : dropMarks (ms ++ r) = r := by
  induction ms with
  | nil =>
    cases r with
    | nil => rfl
    | cons c cs => simp [dropMarks, hr c (by simp)]
  | cons m ms ih =>
    simp [dropMarks, hm m (by simp), ih (fun c hc => hm c (by simp [hc]))]

theorem matchPrimes_none (r : List Char) (hr : ∀ c, r.head? = some c → isMark c = false) :
    matchPrimes r = none := by
  cases r with
  | nil => rfl
  | cons c cs => simp [matchPrimes, hr c (by simp)]

/-! ### what may follow a complete term -/

/-- head-character conditions on what follows a term (or its count / state / marks) -/
structure FollowC (c : Char) : Prop where
  notDigit : c.isDigit = false
  notDot : c ≠ '.'
  notLower : c.isLower = false
  notMark : isMark c = false

/-- `r` may follow a complete term: it does not continue its count, symbol, state or marks -/
structure Follow (r : List Char) : Prop where
  head : ∀ c, r.head? = some c → FollowC c
  noState : matchState r = none

def isCloser (c : Char) : Prop := c = ')' ∨ c = ']' ∨ c = '}'
/-- `r` ends a term list: end of input or a closing bracket -/
def Stop (r : List Char) : Prop := ∀ c, r.head? = some c → isCloser c

theorem stop_follow {r : List Char} (h : Stop r) : Follow r := by
  constructor
  · intro c hc
    rcases h c hc with h | h | h <;> subst h <;> exact ⟨by decide, by decide, by decide, by decide⟩
  · cases r with
    | nil => rfl
    | cons c cs =>
      apply matchState_head_ne
      rcases h c (by simp) with h | h | h <;> subst h <;> decide

theorem stop_nil : Stop [] := by intro c hc; simp at hc

/-- head of `state ++ marks ++ r` -/
theorem rest_head (P : Char → Prop) (st : Option St) (marks r : List Char)
    (hm : ∀ c ∈ marks, isMark c = true) (hp : P '(') (hmk : ∀ c, isMark c = true → P c)
    (hr : ∀ c, r.head? = some c → P c) :
    ∀ c, (stText st ++ (marks ++ r)).head? = some c → P c := by
  intro c hc
  cases st with
  | some s => cases s <;> (simp [stText, St.text] at hc; subst hc; exact hp)
  | none =>
    simp only [stText, List.nil_append] at hc
    cases marks with
    | nil => exact hr c (by simpa using hc)
    | cons m ms => simp at hc; subst hc; exact hmk _ (hm _ (by simp))

/-- head of `count ++ state ++ marks ++ r` -/
theorem tail_head (P : Char → Prop) (n : Cnt) (hn : n.wf = true) (st : Option St) (marks r : List Char)
    (hm : ∀ c ∈ marks, isMark c = true)
    (hd : ∀ c, c.isDigit = true → P c) (hp : P '(') (hmk : ∀ c, isMark c = true → P c)
    (hr : ∀ c, r.head? = some c → P c) :
    ∀ c, (n.render ++ (stText st ++ (marks ++ r))).head? = some c → P c := by
  intro c hc
  have rest := rest_head P st marks r hm hp hmk hr
  cases n with
  | omitted => exact rest c (by simpa [Cnt.render] using hc)
  | int ip =>
    obtain ⟨hne, hdg⟩ := (isDigits_iff ip).mp hn
    cases ip with
    | nil => exact absurd rfl hne
    | cons a as => simp [Cnt.render] at hc; subst hc; exact hd _ (hdg _ (by simp))
  | dec ip fp =>
    simp only [Cnt.wf, Bool.and_eq_true] at hn
    obtain ⟨hne, hdg⟩ := (isDigits_iff ip).mp hn.1
    cases ip with
    | nil => exact absurd rfl hne
    | cons a as => simp [Cnt.render] at hc; subst hc; exact hd _ (hdg _ (by simp))

theorem noWs_stText (st : Option St) : NoWs (stText st) := by
  intro c hc
  cases st with
  | none => simp [stText] at hc
  | some x =>
    have key : ∀ s : St, ∀ c ∈ s.text, isWs c = false := by intro s; cases s <;> decide
    exact key x c hc

theorem noWs_digits {l : List Char} (h : ∀ c ∈ l, c.isDigit = true) : NoWs l :=
  fun c hc => isDigit_notWs c (h c hc)

theorem noWs_cnt (n : Cnt) (hn : n.wf = true) : NoWs n.render := by
  cases n with
  | omitted => intro c hc; simp [Cnt.render] at hc
  | int ip => exact noWs_digits ((isDigits_iff ip).mp hn).2
  | dec ip fp =>
    simp only [Cnt.wf, Bool.and_eq_true] at hn
    exact NoWs.append (noWs_digits ((isDigits_iff ip).mp hn.1).2)
      (NoWs.cons (by decide) (noWs_digits ((isDigits_iff fp).mp hn.2).2))

theorem noWs_marks {l : List Char} (h : ∀ c ∈ l, isMark c = true) : NoWs l := by
  intro c hc
  rcases isMark_cases (h c hc) with e | e <;> subst e <;> decide

theorem optTok_state (st : Option St) (marks r : List Char) (hm : ∀ c ∈ marks, isMark c = true)
    (hr : Follow r) (hws : NoWs r) :
    optTok matchState (stText st ++ (marks ++ r)) = marks ++ r := by
  have hws2 : NoWs (stText st ++ (marks ++ r)) := NoWs.append (noWs_stText st) (NoWs.append (noWs_marks hm) hws)
  unfold optTok
  rw [skipWs_noWs hws2]
  cases st with
  | some x => simp [stText, matchState_text]
  | none =>
    simp only [stText, List.nil_append]
    cases marks with
    | nil => simp [hr.noState]
    | cons m ms =>
      have : m ≠ '(' := by rcases isMark_cases (hm m (by simp)) with e | e <;> subst e <;> decide
      simp [matchState_head_ne m _ this]

theorem optTok_primes (marks r : List Char) (hm : ∀ c ∈ marks, isMark c = true)
    (hr : Follow r) (hws : NoWs r) :
    optTok matchPrimes (marks ++ r) = r := by
  have hmarksr : ∀ c, r.head? = some c → isMark c = false := fun c h => (hr.head c h).notMark
  unfold optTok
  rw [skipWs_noWs (NoWs.append (noWs_marks hm) hws)]
  cases marks with
  | nil => simp [matchPrimes_none r hmarksr]
  | cons m ms =>
    simp [matchPrimes, hm m (by simp), dropMarks_append ms r (fun c hc => hm c (by simp [hc])) hmarksr]

/-- count, state and marks of a term are read back exactly, and nothing else is consumed -/
theorem parseTail_render (n : Cnt) (hn : n.wf = true) (st : Option St) (marks r : List Char)
    (hm : ∀ c ∈ marks, isMark c = true) (hr : Follow r) (hws : NoWs r) :
    parseTail (n.render ++ (stText st ++ (marks ++ r))) = (n.val, r) := by
  have hws3 : NoWs (marks ++ r) := NoWs.append (noWs_marks hm) hws
  have hws2 : NoWs (stText st ++ (marks ++ r)) := NoWs.append (noWs_stText st) hws3
  have hws1 : NoWs (n.render ++ (stText st ++ (marks ++ r))) := NoWs.append (noWs_cnt n hn) hws2
  have hcs : CountStop (stText st ++ (marks ++ r)) :=
    rest_head (fun c => c.isDigit = false ∧ c ≠ '.') st marks r hm (by decide)
      (fun c h => by rcases isMark_cases h with e | e <;> subst e <;> decide)
      (fun c h => ⟨(hr.head c h).notDigit, (hr.head c h).notDot⟩)
  have h1 := parseCount_render n hn _ hcs
  simp only [parseTail, skipWs_noWs hws1, h1, optTok_state st marks r hm hr hws, optTok_primes marks r hm hr hws]

/-- after a closing bracket or at the end nothing is read as count / state / marks -/
theorem parseTail_stop (r : List Char) (hr : Stop r) (hws : NoWs r) : parseTail r = (1, r) := by
  have := parseTail_render .omitted rfl none [] r (by simp) (stop_follow hr) hws
  simpa [Cnt.render, stText, Cnt.val] using this

end ChemModel.Formula
