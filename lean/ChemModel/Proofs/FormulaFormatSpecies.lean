/-
C13: substances, species and printed reactions built from written formulas.
* `Substance.from_formula` / `Species.from_formula` on the rendering of a well-formed formula, for every suffix list drawn from the default
  vocabulary (so for arbitrary `phases` over `(s) (l) (g) (aq)`, sequence or dict, any default index);
* the phase index is the one the written suffix selects (`selectIdx`);
* the printers show, for a species whose substance was made from its formula, the presentation of that formula.
-/
import ChemModel.Proofs.FormulaFormatLatex

set_option linter.constructorNameAsVariable false

namespace ChemModel.FormulaFormat
open ChemModel.Formula ChemModel.Gen

/-! ### composition (C01) for any admissible suffix list -/

theorem parse_render' (f : Formula) (h : f.WF) : ∃ c, formulaToCompositionL f.render = .ok c ∧ Agrees f c := by
  obtain ⟨c, hc, ha⟩ := roundtrip_core f h (noSuffixEnd_of_wf f (Formula.wfd f h))
  exact ⟨c, by simpa [formulaToComposition, Formula.renderStr] using hc, ha⟩

theorem compositionWith_sfx (f : Formula) (hd : f.WFd) (sfxs : List Str) (hok : SfxOK sfxs f) :
    formulaToCompositionWith prefixesL sfxs f.render = formulaToCompositionL f.render := by
  unfold formulaToCompositionL formulaToCompositionWith
  rw [formulaToParts_render' f hd sfxs hok, formulaToParts_render' f hd suffixesL (sfxOK_default f hd)]

theorem mkSubstance_render (f : Formula) (h : f.WF) (sfxs : List Str) (hok : SfxOK sfxs f) (idx : Option Int) (c : Comp)
    (hc : formulaToCompositionL f.render = .ok c) :
    mkSubstance sfxs idx f.render
      = .ok ⟨f.render, present latexPres f, present unicodePres f, present htmlPres f, c, idx⟩ := by
  have hd := Formula.wfd f h
  have hu : toUnicode sfxs f.render = .ok (present unicodePres f) :=
    formulaToFormat_render unicodeFmtSpec f h (fun q _ => termsBrAll_true q.terms) sfxs hok
  have hh : toHtml sfxs f.render = .ok (present htmlPres f) :=
    formulaToFormat_render htmlFmtSpec f h (fun q _ => termsBrAll_true q.terms) sfxs hok
  simp [mkSubstance, toLatex_render f h sfxs hok, hu, hh, compositionWith_sfx f hd sfxs hok, hc]

theorem formatSuffixes_eq : Render.formatSuffixesL = suffixesL := by decide

theorem substanceFromFormula_render (f : Formula) (h : f.WF) (c : Comp) (hc : formulaToCompositionL f.render = .ok c) :
    substanceFromFormula f.render
      = .ok ⟨f.render, present latexPres f, present unicodePres f, present htmlPres f, c, none⟩ := by
  have hd := Formula.wfd f h
  have hok := sfxOK_default f hd
  have hl : formulaToLatex f.render = .ok (present latexPres f) := by
    unfold formulaToLatex; rw [formatSuffixes_eq]; exact toLatex_render f h _ hok
  have hu : formulaToUnicode f.render = .ok (present unicodePres f) := by
    unfold formulaToUnicode toUnicode; rw [formatSuffixes_eq]
    exact formulaToFormat_render unicodeFmtSpec f h (fun q _ => termsBrAll_true q.terms) _ hok
  have hh : formulaToHtml f.render = .ok (present htmlPres f) := by
    unfold formulaToHtml toHtml; rw [formatSuffixes_eq]
    exact formulaToFormat_render htmlFmtSpec f h (fun q _ => termsBrAll_true q.terms) _ hok
  simp [substanceFromFormula, hl, hu, hh, hc]

/-! ### the phase index -/

theorem isSuffixOf_render (f : Formula) (hd : f.WFd) (p : Str) (hp : p ∈ suffixesL) :
    p.isSuffixOf f.render = decide (f.suffix = some p) := by
  have := suffix_of_render_iff f hd p hp
  by_cases e : f.suffix = some p
  · simp [e, List.isSuffixOf_iff_suffix.mpr (this.mpr e)]
  · have : ¬ p <:+ f.render := fun h' => e (this.mp h')
    simp [e, isSuffixOf_false this]

theorem findPhaseSeq_spec (f : Formula) (hd : f.WFd) (l : List Str) (hl : ∀ s ∈ l, s ∈ suffixesL) (i : Nat) :
    findPhaseSeq l i f.render = selSeq l i f.suffix := by
  induction l generalizing i with
  | nil => rfl
  | cons p ps ih =>
    simp only [findPhaseSeq, selSeq, isSuffixOf_render f hd p (hl p (by simp)), decide_eq_true_eq]
    rw [ih (fun s hs => hl s (by simp [hs]))]

theorem findPhaseDict_spec (f : Formula) (hd : f.WFd) (l : List (Str × Int)) (hl : ∀ s ∈ l.map Prod.fst, s ∈ suffixesL) :
    findPhaseDict l f.render = selDict l f.suffix := by
  induction l with
  | nil => rfl
  | cons kv ps ih =>
    obtain ⟨k, v⟩ := kv
    simp only [findPhaseDict, selDict, isSuffixOf_render f hd k (hl k (by simp)), decide_eq_true_eq]
    rw [ih (fun s hs => hl s (by simp at hs ⊢; exact Or.inr hs))]

theorem phaseIdx_render (f : Formula) (hd : f.WFd) (phases : Phases) (hsub : ∀ s ∈ phases.keys, s ∈ suffixesL) (dflt : Option Int) :
    phaseIdx phases dflt f.render = (match selectIdx phases f.suffix with | some i => some i | none => dflt) := by
  cases phases with
  | seq l => simp only [phaseIdx, selectIdx, findPhaseSeq_spec f hd l hsub 0]; rfl
  | dict l => simp only [phaseIdx, selectIdx, findPhaseDict_spec f hd l hsub]; rfl

theorem speciesExtra_sub : ∀ s ∈ speciesExtraSuffixes, s ∈ suffixesL := by decide

theorem speciesFromFormula_render (f : Formula) (h : f.WF) (phases : Phases) (dflt : Option Int)
    (hsub : ∀ s ∈ phases.keys, s ∈ suffixesL)
    (hmem : ∀ s, f.suffix = some s → s ∈ phases.keys ++ speciesExtraSuffixes)
    (c : Comp) (hc : formulaToCompositionL f.render = .ok c) :
    speciesFromFormula phases dflt f.render =
      (match (match selectIdx phases f.suffix with | some i => some i | none => dflt) with
       | none => .error "ValueError"
       | some i => .ok ⟨f.render, present latexPres f, present unicodePres f, present htmlPres f, c, some i⟩) := by
  have hd := Formula.wfd f h
  have hok : SfxOK (phases.keys ++ speciesExtraSuffixes) f :=
    ⟨fun s hs => by
      rcases List.mem_append.mp hs with h1 | h1
      · exact hsub s h1
      · exact speciesExtra_sub s h1, hmem⟩
  unfold speciesFromFormula
  rw [phaseIdx_render f hd phases hsub dflt]
  cases (match selectIdx phases f.suffix with | some i => some i | none => dflt) with
  | none => rfl
  | some i => exact mkSubstance_render f h _ hok (some i) c hc

theorem speciesFromFormulaIdx_render (f : Formula) (h : f.WF) (phases : Phases) (idx : Int)
    (hsub : ∀ s ∈ phases.keys, s ∈ suffixesL)
    (hmem : ∀ s, f.suffix = some s → s ∈ phases.keys ++ speciesExtraSuffixes)
    (c : Comp) (hc : formulaToCompositionL f.render = .ok c) :
    speciesFromFormulaIdx phases idx f.render
      = .ok ⟨f.render, present latexPres f, present unicodePres f, present htmlPres f, c, some idx⟩ := by
  have hok : SfxOK (phases.keys ++ speciesExtraSuffixes) f :=
    ⟨fun s hs => by
      rcases List.mem_append.mp hs with h1 | h1
      · exact hsub s h1
      · exact speciesExtra_sub s h1, hmem⟩
  exact mkSubstance_render f h _ hok (some idx) c hc

/-! ### what a printer shows for a formula -/

theorem presTerm_ne_nil (P : Pres) (hop : ∀ b, P.op b ≠ []) (t : Term) (ht : t.wf = true) : presTerm P t ≠ [] := by
  cases t with
  | elem z n st marks =>
    obtain ⟨h1, h2, _, _⟩ := Term.wf_elem ht
    have hs := symOK h1 h2
    intro e
    simp only [presTerm, List.append_eq_nil_iff] at e
    have := hs.len; rw [e.1] at this; simp at this
  | group b body n st marks =>
    intro e
    simp only [presTerm, List.append_eq_nil_iff] at e
    exact hop b e.1
  | cage body => simp [presTerm]

theorem present_ne_nil (P : Pres) (hop : ∀ b, P.op b ≠ []) (f : Formula) (hd : f.WFd) : present P f ≠ [] := by
  obtain ⟨p, ps, hp, _⟩ := hd.first
  obtain ⟨_, ht, hne⟩ := Part.wf_iff p (hd.parts p (by simp [hp]))
  obtain ⟨t, ts, hts⟩ := Terms.isNil_eq_false hne
  intro e
  simp only [present, hp, presParts, hts, presTerms, List.append_eq_nil_iff] at e
  rw [hts] at ht
  exact presTerm_ne_nil P hop t (Terms.wf_cons ht).1 e.2.1.1.1.1

theorem latex_op_ne (b : Br) : latexPres.op b ≠ [] := by cases b <;> simp [latexPres]
theorem unicode_op_ne (b : Br) : unicodePres.op b ≠ [] := by simp [unicodePres]
theorem html_op_ne (b : Br) : htmlPres.op b ≠ [] := by simp [htmlPres]

/-- the name a printer shows for the formula `f`: the plain printer its text, the others the presentation -/
def printerName : Printer → Formula → Str
  | .str, f => f.render
  | .latex, f => present latexPres f
  | .unicode, f => present unicodePres f
  | .html, f => present htmlPres f

/-- a coefficient as printed: `str(v)` and one blank, nothing when it equals 1 -/
def coefText (q : Rat) : Str := if q = 1 then [] else coefStr q ++ [' ']

/-- the substance table holds, for this formula, the substance `Substance.from_formula` makes of it -/
def Listed (S : List (Str × Substance)) (f : Formula) : Prop :=
  f.WF ∧ ∃ s, S.lookup f.render = some s ∧ substanceFromFormula f.render = .ok s

/-- a species of a printed reaction: either listed (see `Listed`) or absent from the table (`substances.get(k, k)` is then the key itself) -/
def Known (S : List (Str × Substance)) (f : Formula) : Prop := S.lookup f.render = none ∨ Listed S f

/-- what is shown for the species written `f`: its key as it is when the table has no entry, else the printer's name of the formula -/
def shownName (p : Printer) (S : List (Str × Substance)) (f : Formula) : Str :=
  match S.lookup f.render with
  | none => f.render
  | some _ => printerName p f

/-- the terms of one side: stored order, zero coefficients not shown -/
def sideTexts (p : Printer) (S : List (Str × Substance)) (d : List (Formula × Rat)) : List Str :=
  (d.filter (fun fq => fq.2 ≠ 0)).map (fun fq => coefText fq.2 ++ shownName p S fq.1)

/-- the side as the reaction stores it: keys are the written formulas -/
def keyed (d : List (Formula × Rat)) : List (Str × Rat) := d.map (fun fq => (fq.1.render, fq.2))

theorem printKey_formula (p : Printer) (S : List (Str × Substance)) (f : Formula) (h : Listed S f) :
    printKey p S f.render = printerName p f := by
  obtain ⟨hw, s, hl, hs⟩ := h
  obtain ⟨c, hc, _⟩ := parse_render' f hw
  rw [substanceFromFormula_render f hw c hc] at hs
  have es : s = ⟨f.render, present latexPres f, present unicodePres f, present htmlPres f, c, none⟩ := (Except.ok.inj hs).symm
  have hd := Formula.wfd f hw
  simp only [printKey, hl]
  subst es
  cases p
  · rfl
  · simp [Printer.nameOf, attrName, Render.texNameAttr, printerName, present_ne_nil latexPres latex_op_ne f hd]
  · simp [Printer.nameOf, attrName, Render.prettyNameAttr, printerName, present_ne_nil unicodePres unicode_op_ne f hd]
  · simp [Printer.nameOf, attrName, Render.webNameAttr, printerName, present_ne_nil htmlPres html_op_ne f hd]

theorem printKey_known (p : Printer) (S : List (Str × Substance)) (f : Formula) (h : Known S f) :
    printKey p S f.render = shownName p S f := by
  rcases h with h | h
  · simp [printKey, shownName, h]
  · rw [printKey_formula p S f h]
    obtain ⟨_, s, hl, _⟩ := h
    simp [shownName, hl]

theorem coeffSpace_eq (p : Printer) : p.coeffSpace = [' '] := by cases p <;> rfl

theorem printSide_formulas (p : Printer) (S : List (Str × Substance)) (d : List (Formula × Rat))
    (hS : ∀ fq ∈ d, Known S fq.1) : printSide p S (keyed d) = sideTexts p S d := by
  induction d with
  | nil => rfl
  | cons fq d ih =>
    have ih' := ih (fun x hx => hS x (by simp [hx]))
    have hk := printKey_known p S fq.1 (hS fq (by simp))
    simp only [printSide, keyed, sideTexts, List.map_cons] at ih' ⊢
    by_cases h0 : fq.2 = 0
    · simp only [List.filter_cons, h0, ne_eq, not_true_eq_false, decide_false, Bool.false_eq_true, if_false]
      exact ih'
    · simp only [List.filter_cons, ne_eq, h0, not_false_eq_true, decide_true, if_true, List.map_cons, ih']
      congr 1
      simp only [printTerm, hk, coefText, coeffSpace_eq, ite_not]

end ChemModel.FormulaFormat
