/-
C01 helper lemmas: hydrate split, leading integers, the accumulation loop, the charge token, and the
assembly of `formulaToCompositionL (render f)` for a well-formed formula.
-/
import ChemModel.Proofs.FormulaTop

set_option linter.constructorNameAsVariable false

namespace ChemModel.Formula
open ChemModel.Gen

/-! ### splitting -/

theorem splitAtChar_append (c : Char) (a b : List Char) (h : c ∉ a) : splitAtChar c (a ++ c :: b) = (a, b) := by
  induction a with
  | nil => simp [splitAtChar]
  | cons x r ih =>
    simp only [List.mem_cons, not_or] at h
    have hx : ¬ x = c := fun e => h.1 e.symm
    simp [splitAtChar, hx, ih h.2]

theorem splitChar_none (c : Char) (s : List Char) (h : c ∉ s) : splitChar c s = (s, []) := by
  induction s with
  | nil => rfl
  | cons x r ih =>
    simp only [List.mem_cons, not_or] at h
    have hx : ¬ x = c := fun e => h.1 e.symm
    simp [splitChar, ih h.2, hx]

theorem splitChar_append (c : Char) (s r : List Char) (h : c ∉ s) :
    splitChar c (s ++ c :: r) = (s, (splitChar c r).1 :: (splitChar c r).2) := by
  induction s with
  | nil => simp [splitChar]
  | cons x s' ih =>
    simp only [List.mem_cons, not_or] at h
    have hx : ¬ x = c := fun e => h.1 e.symm
    simp [splitChar, ih h.2, hx]

theorem splitDD_cons_ne (c : Char) (r : List Char) (h : c ≠ '.') :
    splitDD (c :: r) = (c :: (splitDD r).1, (splitDD r).2) := by
  rw [splitDD.eq_3 c r (fun _ e _ => h e)]

theorem splitDD_dot_digit (d : Char) (r : List Char) (h : d ≠ '.') :
    splitDD ('.' :: d :: r) = ('.' :: (splitDD (d :: r)).1, (splitDD (d :: r)).2) := by
  rw [splitDD.eq_3 '.' (d :: r) (fun r1 _ e => by simp at e; exact h e.1)]

theorem splitDD_dd (r : List Char) : splitDD ('.' :: '.' :: r) = ([], (splitDD r).1 :: (splitDD r).2) := by
  rw [splitDD.eq_2]

theorem splitDD_step (c : Char) (s : List Char) (hc : (c != '.' || (match s with | d :: _ => d.isDigit | [] => false)) = true)
    (r : List Char) :
    splitDD (c :: (s ++ r)) = (c :: (splitDD (s ++ r)).1, (splitDD (s ++ r)).2) := by
  by_cases h : c = '.'
  · subst h
    cases s with
    | nil => simp at hc
    | cons d s' =>
      have hd : d ≠ '.' := by
        simp at hc; exact isDigit_ne hc (by decide)
      simpa using splitDD_dot_digit d (s' ++ r) hd
  · exact splitDD_cons_ne c _ h

theorem splitDD_none (s : List Char) (h : dotsOK s = true) : splitDD s = (s, []) := by
  induction s with
  | nil => rfl
  | cons c r ih =>
    simp only [dotsOK, Bool.and_eq_true] at h
    have := splitDD_step c r h.1 []
    simp only [List.append_nil] at this
    rw [this, ih h.2]

theorem splitDD_append (s r : List Char) (h : dotsOK s = true) :
    splitDD (s ++ '.' :: '.' :: r) = (s, (splitDD r).1 :: (splitDD r).2) := by
  induction s with
  | nil => simpa using splitDD_dd r
  | cons c s' ih =>
    simp only [dotsOK, Bool.and_eq_true] at h
    have := splitDD_step c s' h.1 ('.' :: '.' :: r)
    simp only [List.cons_append]
    rw [this, ih h.2]

/-! ### parts -/

theorem Part.wf_iff (p : Part) (h : p.wf = true) :
    (∀ ds, p.n = some ds → ds ≠ [] ∧ ∀ c ∈ ds, c.isDigit = true) ∧ p.terms.wf = true ∧ p.terms.isNil = false := by
  simp only [Part.wf, Bool.and_eq_true, Bool.not_eq_true'] at h
  refine ⟨?_, h.1.2, h.2⟩
  intro ds e
  rw [e] at h
  exact (isDigits_iff ds).mp h.1.1

theorem Part.render_chars (p : Part) (h : p.wf = true) : AllC StoichC p.render ∧ dotsOK p.render = true := by
  obtain ⟨hn, ht, _⟩ := Part.wf_iff p h
  have h2 := Terms.render_chars p.terms ht
  unfold Part.render
  cases hp : p.n with
  | none => simpa using h2
  | some ds =>
    have hd := (hn ds hp).2
    exact ⟨AllC.append (fun c hc => stoichC_digit (hd c hc)) h2.1, dotsOK_append (dotsOK_digits hd) h2.2⟩

theorem cdot_not_mem {s : List Char} (h : AllC StoichC s) : '·' ∉ s := fun hc => (h _ hc).cdot rfl

theorem renderParts_cons2 (sep : Sep) (p q : Part) (ps : List Part) :
    renderParts sep (p :: q :: ps) = p.render ++ (sep.text ++ renderParts sep (q :: ps)) := rfl

theorem split_cdot (p : Part) (ps : List Part) (h : ∀ q ∈ p :: ps, q.wf = true) :
    splitChar '·' (renderParts .cdot (p :: ps)) = (p.render, ps.map Part.render) := by
  induction ps generalizing p with
  | nil => simpa [renderParts] using splitChar_none '·' p.render (cdot_not_mem (Part.render_chars p (h p (by simp))).1)
  | cons q qs ih =>
    have := ih q (fun x hx => h x (by simp [hx]))
    rw [renderParts_cons2]
    simp only [Sep.text, List.cons_append, List.nil_append]
    rw [splitChar_append _ _ _ (cdot_not_mem (Part.render_chars p (h p (by simp))).1), this]
    simp

theorem split_dots (p : Part) (ps : List Part) (h : ∀ q ∈ p :: ps, q.wf = true) :
    splitDD (renderParts .dots (p :: ps)) = (p.render, ps.map Part.render) := by
  induction ps generalizing p with
  | nil => simpa [renderParts] using splitDD_none p.render (Part.render_chars p (h p (by simp))).2
  | cons q qs ih =>
    have := ih q (fun x hx => h x (by simp [hx]))
    rw [renderParts_cons2]
    simp only [Sep.text, List.cons_append, List.nil_append]
    rw [splitDD_append _ _ (Part.render_chars p (h p (by simp))).2, this]
    simp

theorem renderParts_chars_dots (ps : List Part) (h : ∀ q ∈ ps, q.wf = true) :
    AllC StoichC (renderParts .dots ps) := by
  induction ps with
  | nil => exact AllC.nil
  | cons p qs ih =>
    cases qs with
    | nil => simpa [renderParts] using (Part.render_chars p (h p (by simp))).1
    | cons q qs' =>
      rw [renderParts_cons2]
      exact (Part.render_chars p (h p (by simp))).1.append
        (AllC.append (by intro c hc; simp [Sep.text] at hc; subst hc; exact ⟨by decide, by decide, by decide, by decide⟩)
          (ih (fun x hx => h x (by simp [hx]))))

/-- the characters the charge search looks for do not occur in the stoichiometry text -/
structure ChargeFree (s : List Char) : Prop where
  slash : '/' ∉ s
  plus : '+' ∉ s
  minus : '-' ∉ s

theorem chargeFree_of_allC {s : List Char} (h : AllC StoichC s) : ChargeFree s :=
  ⟨fun hc => (h _ hc).slash rfl, fun hc => (h _ hc).plus rfl, fun hc => (h _ hc).minus rfl⟩

theorem renderParts_chargeFree (sep : Sep) (ps : List Part) (h : ∀ q ∈ ps, q.wf = true) :
    ChargeFree (renderParts sep ps) := by
  induction ps with
  | nil => exact ⟨by simp [renderParts], by simp [renderParts], by simp [renderParts]⟩
  | cons p qs ih =>
    have hp := chargeFree_of_allC (Part.render_chars p (h p (by simp))).1
    cases qs with
    | nil => simpa [renderParts] using hp
    | cons q qs' =>
      have ih' := ih (fun x hx => h x (by simp [hx]))
      rw [renderParts_cons2]
      have hsep : ChargeFree sep.text := by cases sep <;> exact ⟨by decide, by decide, by decide⟩
      exact ⟨by simp [hp.slash, hsep.slash, ih'.slash], by simp [hp.plus, hsep.plus, ih'.plus],
        by simp [hp.minus, hsep.minus, ih'.minus]⟩

/-- the hydrate split of the rendered stoichiometry gives back the rendered parts -/
theorem split_stoich (sep : Sep) (p : Part) (ps : List Part) (h : ∀ q ∈ p :: ps, q.wf = true) :
    (if (renderParts sep (p :: ps)).contains '·' then splitChar '·' (renderParts sep (p :: ps))
      else splitDD (renderParts sep (p :: ps))) = (p.render, ps.map Part.render) := by
  cases sep with
  | dots =>
    have : '·' ∉ renderParts .dots (p :: ps) := cdot_not_mem (renderParts_chars_dots _ h)
    simp only [List.contains_eq_mem, this, decide_false, Bool.false_eq_true, if_false]
    exact split_dots p ps h
  | cdot =>
    cases ps with
    | nil =>
      have hp := Part.render_chars p (h p (by simp))
      have : '·' ∉ renderParts .cdot [p] := by simpa [renderParts] using cdot_not_mem hp.1
      simp only [List.contains_eq_mem, this, decide_false, Bool.false_eq_true, if_false]
      simpa [renderParts] using splitDD_none p.render hp.2
    | cons q qs =>
      have : '·' ∈ renderParts .cdot (p :: q :: qs) := by
        rw [renderParts_cons2]; simp [Sep.text]
      simp only [List.contains_eq_mem, this, decide_true, if_true]
      exact split_cdot p (q :: qs) h

/-! ### leading integer, one part -/

theorem Terms.render_head (ts : Terms) (h : ts.wf = true) (hne : ts.isNil = false) (r : List Char) :
    ∃ c rest, ts.render ++ r = c :: rest ∧ StartC c := by
  obtain ⟨t', ts', rfl⟩ := Terms.isNil_eq_false hne
  obtain ⟨c, rest, he, hc⟩ := Term.render_head t' (Terms.wf_cons h).1 (ts'.render ++ r)
  exact ⟨c, rest, by simpa [Terms.render, List.append_assoc] using he, hc⟩

theorem natCast_one_rat : ((1 : Nat) : Rat) = 1 := by decide +kernel

theorem getLeadingInteger_part (p : Part) (h : p.wf = true) :
    ∃ m : Nat, getLeadingInteger p.render = (m, p.terms.render) ∧ ((m : Nat) : Rat) = p.mult := by
  obtain ⟨hn, ht, hne⟩ := Part.wf_iff p h
  obtain ⟨c, rest, he, hc⟩ := Terms.render_head p.terms ht hne []
  simp only [List.append_nil] at he
  have hstop : ∀ x, p.terms.render.head? = some x → x.isDigit = false := by
    intro x hx; rw [he] at hx; simp at hx; subst hx; exact (startC_followC hc).notDigit
  unfold Part.render Part.mult
  cases hp : p.n with
  | none =>
    have h0 : takeDigits p.terms.render = ([], p.terms.render) := by
      simpa using takeDigits_append [] p.terms.render (by simp) hstop
    exact ⟨1, by simp [getLeadingInteger, h0], natCast_one_rat⟩
  | some ds =>
    obtain ⟨hne', hd⟩ := hn ds hp
    have h0 := takeDigits_append ds p.terms.render hd hstop
    exact ⟨digitsVal ds, by simp [getLeadingInteger, h0, hne'], rfl⟩

/-- expected accumulated dict after the given parts -/
def partsTot (tot : Comp) (ps : List Part) : Comp :=
  ps.foldl (fun a p => addScaled p.mult a (mergeComp p.terms.flat)) tot

theorem restLoop_render (ps : List Part) (h : ∀ q ∈ ps, q.wf = true) (tot : Comp) :
    restLoop tot (ps.map Part.render) = .ok (partsTot tot ps) := by
  induction ps generalizing tot with
  | nil => rfl
  | cons p qs ih =>
    obtain ⟨m, hm, hmv⟩ := getLeadingInteger_part p (h p (by simp))
    obtain ⟨_, ht, hne⟩ := Part.wf_iff p (h p (by simp))
    simp only [List.map_cons, restLoop, hm, parseStoich_render p.terms ht hne, hmv]
    rw [ih (fun x hx => h x (by simp [hx]))]
    rfl

/-! ### totals and keys of the accumulated dict -/

theorem total_partsTot (ps : List Part) (tot : Comp) (k : Nat) :
    total (partsTot tot ps) k = total tot k + total (ps.flatMap (fun p => p.terms.occ p.mult)) k := by
  induction ps generalizing tot with
  | nil => simp only [partsTot, List.foldl_nil, List.flatMap_nil, total]; grind
  | cons p qs ih =>
    have := ih (addScaled p.mult tot (mergeComp p.terms.flat))
    simp only [partsTot, List.foldl_cons, List.flatMap_cons, total_append] at this ⊢
    rw [this, total_addScaled, total_mergeComp, Terms.total_flat, Terms.total_occ p.terms p.mult]; grind

theorem mem_keys_partsTot (ps : List Part) (tot : Comp) (k : Nat) :
    k ∈ Comp.keys (partsTot tot ps) ↔ k ∈ Comp.keys tot ∨ k ∈ Comp.keys (ps.flatMap (fun p => p.terms.occ p.mult)) := by
  induction ps generalizing tot with
  | nil => simp [partsTot, Comp.keys]
  | cons p qs ih =>
    have := ih (addScaled p.mult tot (mergeComp p.terms.flat))
    simp only [partsTot, List.foldl_cons, List.flatMap_cons, keys_append, List.mem_append] at this ⊢
    rw [this, mem_keys_addScaled, mem_keys_mergeComp, Terms.mem_keys_flat, Terms.keys_occ p.terms p.mult]; grind

theorem nodup_partsTot (ps : List Part) (tot : Comp) (h : (Comp.keys tot).Nodup) :
    (Comp.keys (partsTot tot ps)).Nodup := by
  induction ps generalizing tot with
  | nil => simpa [partsTot] using h
  | cons p qs ih =>
    simp only [partsTot, List.foldl_cons]
    exact ih _ (nodup_addScaled _ _ _ h)

theorem occ_keys_pos (ps : List Part) (h : ∀ q ∈ ps, q.wf = true) :
    ∀ k ∈ Comp.keys (ps.flatMap (fun p => p.terms.occ p.mult)), 1 ≤ k ∧ k ≤ 118 := by
  induction ps with
  | nil => intro k hk; simp [Comp.keys] at hk
  | cons p qs ih =>
    intro k hk
    simp only [List.flatMap_cons, keys_append, List.mem_append] at hk
    rcases hk with hk | hk
    · rw [Terms.keys_occ] at hk
      exact Terms.keys_pos p.terms (Part.wf_iff p (h p (by simp))).2.1 k hk
    · exact ih (fun x hx => h x (by simp [hx])) k hk

/-! ### the charge token -/

theorem count_digits_zero {ds : List Char} (hd : ∀ c ∈ ds, c.isDigit = true) (x : Char) (hx : x.isDigit = false) :
    x ∉ ds := fun hc => by have := hd x hc; rw [hx] at this; exact absurd this (by decide)

theorem isDigit_notPySpace (c : Char) (h : c.isDigit = true) : isPySpace c = false := by
  have h1 : c ≠ ' ' := isDigit_ne h (by decide)
  have h2 : c ≠ '\t' := isDigit_ne h (by decide)
  have h3 : c ≠ '\n' := isDigit_ne h (by decide)
  have h4 : c ≠ '\r' := isDigit_ne h (by decide)
  have h5 : c ≠ '\x0b' := isDigit_ne h (by decide)
  have h6 : c ≠ '\x0c' := isDigit_ne h (by decide)
  simp [isPySpace, h1, h2, h3, h4, h5, h6]

theorem dropSpaces_head {s : List Char} (h : ∀ c, s.head? = some c → isPySpace c = false) : dropSpaces s = s := by
  cases s with
  | nil => rfl
  | cons c r => simp [dropSpaces, h c (by simp)]

theorem mem_of_head? {s : List Char} {c : Char} (h : s.head? = some c) : c ∈ s := by
  cases s with
  | nil => simp at h
  | cons x r => simp at h; subst h; simp

theorem stripPy_digits {ds : List Char} (hd : ∀ c ∈ ds, c.isDigit = true) : stripPy ds = ds := by
  have h1 : dropSpaces ds = ds := dropSpaces_head (fun c hc => isDigit_notPySpace c (hd c (mem_of_head? hc)))
  have h2 : dropSpaces ds.reverse = ds.reverse :=
    dropSpaces_head (fun c hc => isDigit_notPySpace c (hd c (by simpa using mem_of_head? hc)))
  rw [stripPy, h1, h2, List.reverse_reverse]

/-- on a plain ASCII digit string the model of `int()` is the decimal value -/
theorem pyInt_digits (ds : List Char) (h : isDigits ds = true) : pyInt ds = some (digitsVal ds) := by
  obtain ⟨hne, hd⟩ := (isDigits_iff ds).mp h
  have ht : takeDigits ds = (ds, []) := by
    have := takeDigits_append ds [] hd (by intro c hc; simp at hc)
    simpa using this
  simp [pyInt, stripPy_digits hd, intDigits, ht, hne]

theorem getCharge_render (c : Charge) (h : c.wf = true) : getCharge c.render = .ok c.val := by
  obtain ⟨neg, mag⟩ := c
  cases mag with
  | none => cases neg <;> simp [Charge.render, getCharge, Charge.val]
  | some ds =>
    obtain ⟨hne, hd⟩ := (isDigits_iff ds).mp (by simpa [Charge.wf] using h)
    have hp : '+' ∉ ds := count_digits_zero hd _ (by decide)
    have hm : '-' ∉ ds := count_digits_zero hd _ (by decide)
    have hlen : 0 < ds.length := List.length_pos_iff.mpr hne
    have hint : pyInt ds = some (digitsVal ds) := pyInt_digits ds ((isDigits_iff ds).mpr ⟨hne, hd⟩)
    cases neg with
    | false =>
      have hs : splitAtChar '+' ('+' :: ds) = ([], ds) := by simpa using splitAtChar_append '+' [] ds (by simp)
      have hcount : List.count '+' ('+' :: ds) = 1 := by
        simp [List.count_cons, List.count_eq_zero.mpr hp]
      simp [Charge.render, getCharge, hne, chargeStep, hp, hm, hs, hcount, hint, hlen, Charge.val]
    | true =>
      have hs : splitAtChar '-' ('-' :: ds) = ([], ds) := by simpa using splitAtChar_append '-' [] ds (by simp)
      have hcount : List.count '-' ('-' :: ds) = 1 := by
        simp [List.count_cons, List.count_eq_zero.mpr hm]
      simp [Charge.render, getCharge, hne, chargeStep, hp, hm, hs, hcount, hint, hlen, Charge.val]

end ChemModel.Formula

namespace ChemModel.Formula
open ChemModel.Gen

/-! ### facts about the generated prefix / suffix tables -/

instance (a b : List Char) : Decidable (PrefIncomp a b) := inferInstanceAs (Decidable (_ ∧ _))
instance (a b : List Char) : Decidable (SuffIncomp a b) := inferInstanceAs (Decidable (_ ∧ _))

/-- no default prefix is an initial segment of another one (so the strip loop cannot take a wrong one) -/
theorem prefixes_incomparable : prefixesL.Pairwise PrefIncomp := by decide +kernel

/-- no default suffix is a final segment of another one -/
theorem suffixes_incomparable : suffixesL.Pairwise SuffIncomp := by decide +kernel

def startCb (c : Char) : Bool := c.isUpper || c == '(' || c == '[' || c == '{' || c == '@'

theorem startCb_iff (c : Char) : startCb c = true ↔ StartC c := by
  simp [startCb, StartC, or_assoc]

/-- every default prefix is non-empty and begins with a character that cannot begin a formula -/
theorem prefixes_start : prefixesL.all (fun p => match p with | [] => false | c :: _ => !startCb c) = true := by
  decide +kernel

theorem prefix_not_start (p : List Char) (hp : p ∈ prefixesL) (c : Char) (rest : List Char) (hc : StartC c) :
    ¬ p <+: c :: rest := by
  have := List.all_eq_true.mp prefixes_start p hp
  cases p with
  | nil => simp at this
  | cons d p' =>
    intro hpre
    have hd : d = c := (List.cons_prefix_cons.mp hpre).1
    subst hd
    simp only [Bool.not_eq_true'] at this
    rw [(startCb_iff d).mpr hc] at this
    exact absurd this (by decide)

/-! ### unpacking `Formula.wf` -/

structure Formula.WFd (f : Formula) : Prop where
  prefixes : f.prefixes.Sublist prefixesL
  first : ∃ p ps, f.parts = p :: ps ∧ p.n = none
  parts : ∀ q ∈ f.parts, q.wf = true
  charge : ∀ c, f.charge = some c → c.wf = true
  suffix : ∀ s, f.suffix = some s → s ∈ suffixesL
  final : f.charge.isSome = true ∨ lastFinalOK f.parts = true

theorem Formula.wfd (f : Formula) (h : f.wf = true) : f.WFd := by
  simp only [Formula.wf, Bool.and_eq_true, Bool.or_eq_true, List.isSublist_iff_sublist, Bool.not_eq_true',
    List.all_eq_true] at h
  obtain ⟨⟨⟨⟨⟨⟨h1, h2⟩, h3⟩, h4⟩, h5⟩, h6⟩, h7⟩ := h
  refine ⟨h1, ?_, h4, ?_, ?_, h7⟩
  · cases hp : f.parts with
    | nil => simp [hp] at h2
    | cons p ps =>
      rw [hp] at h3
      exact ⟨p, ps, rfl, by simpa using h3⟩
  · intro c hc; rw [hc] at h5; exact h5
  · intro s hs; rw [hs] at h6; simpa using h6

/-! ### `_formula_to_parts` on rendered text -/

def chargeDigits (c : Charge) : List Char := match c.mag with | none => [] | some ds => ds

theorem chargeDigits_digits (c : Charge) (h : c.wf = true) : ∀ x ∈ chargeDigits c, x.isDigit = true := by
  unfold chargeDigits
  cases hm : c.mag with
  | none => intro x hx; simp at hx
  | some ds =>
    simp only [Charge.wf, hm] at h
    exact ((isDigits_iff ds).mp h).2

theorem Charge.render_eq (c : Charge) : c.render = (if c.neg then '-' else '+') :: chargeDigits c := rfl

/-- the `/`, `+`, `-` cascade of `_formula_to_parts` on `stoich ++ charge` -/
theorem charge_cascade (stoich : List Char) (hcf : ChargeFree stoich) (ch : Option Charge)
    (hch : ∀ c, ch = some c → c.wf = true) (dp ds : List (List Char)) :
    (let s2 := stoich ++ renderCharge ch
     if s2.contains '/' then (.error .slash : Except ErrKind Parts)
      else if s2.contains '+' then
        if s2.count '+' > 1 then .error .multiToken
        else let (a, b) := splitAtChar '+' s2; .ok ⟨a, some ('+' :: b), dp, ds⟩
      else if s2.contains '-' then
        if s2.count '-' > 1 then .error .multiToken
        else let (a, b) := splitAtChar '-' s2; .ok ⟨a, some ('-' :: b), dp, ds⟩
      else .ok ⟨s2, none, dp, ds⟩) = .ok ⟨stoich, ch.map Charge.render, dp, ds⟩ := by
  cases ch with
  | none =>
    simp [renderCharge, hcf.slash, hcf.plus, hcf.minus]
  | some c =>
    have hd := chargeDigits_digits c (hch c rfl)
    have h1 : '/' ∉ chargeDigits c := count_digits_zero hd _ (by decide)
    have h2 : '+' ∉ chargeDigits c := count_digits_zero hd _ (by decide)
    have h3 : '-' ∉ chargeDigits c := count_digits_zero hd _ (by decide)
    cases hn : c.neg with
    | false =>
      have hs := splitAtChar_append '+' stoich (chargeDigits c) hcf.plus
      simp [renderCharge, Charge.render_eq, hn, hcf.slash, hcf.plus, h1, h2,
        List.count_eq_zero.mpr hcf.plus, List.count_eq_zero.mpr h2, List.count_cons, hs]
    | true =>
      have hs := splitAtChar_append '-' stoich (chargeDigits c) hcf.minus
      simp [renderCharge, Charge.render_eq, hn, hcf.slash, hcf.plus, hcf.minus, h1, h2, h3,
        List.count_eq_zero.mpr hcf.minus, List.count_eq_zero.mpr h3, List.count_cons, hs]

/-- the text before the suffix does not itself end in one of the default suffixes -/
def NoSuffixEnd (f : Formula) : Prop := ∀ s ∈ suffixesL, ¬ s <:+ (f.renderStoich ++ renderCharge f.charge)

theorem renderStoich_head (f : Formula) (h : f.WFd) (r : List Char) :
    ∃ c rest, f.renderStoich ++ r = c :: rest ∧ StartC c := by
  obtain ⟨p, ps, hp, hn⟩ := h.first
  obtain ⟨_, ht, hne⟩ := Part.wf_iff p (h.parts p (by simp [hp]))
  have hpr : p.render = p.terms.render := by simp [Part.render, hn]
  unfold Formula.renderStoich
  rw [hp]
  cases ps with
  | nil =>
    obtain ⟨c, rest, he, hc⟩ := Terms.render_head p.terms ht hne r
    exact ⟨c, rest, by simpa [renderParts, hpr] using he, hc⟩
  | cons q qs =>
    obtain ⟨c, rest, he, hc⟩ := Terms.render_head p.terms ht hne (f.sep.text ++ renderParts f.sep (q :: qs) ++ r)
    exact ⟨c, rest, by rw [renderParts_cons2, hpr]; simpa [List.append_assoc] using he, hc⟩

theorem formulaToParts_render (f : Formula) (h : f.WFd) (hsfx : NoSuffixEnd f) :
    ∃ dp ds, formulaToParts prefixesL suffixesL f.render
      = .ok ⟨f.renderStoich, f.charge.map Charge.render, dp, ds⟩ := by
  let body := f.renderStoich ++ renderCharge f.charge
  let sfx : List Char := renderSuffix f.suffix
  have hrender : f.render = f.prefixes.flatten ++ (body ++ sfx) := by
    simp [Formula.render, body, sfx, List.append_assoc]
  obtain ⟨c, rest, he, hc⟩ := renderStoich_head f h (renderCharge f.charge ++ sfx)
  have he' : body ++ sfx = c :: rest := by simpa [body, List.append_assoc] using he
  have hstrip := stripPrefixes_sublist prefixesL prefixes_incomparable f.prefixes h.prefixes (body ++ sfx)
    (fun p hp => by rw [he']; exact prefix_not_start p hp c rest hc)
  have hsuff : (stripSuffixes suffixesL (body ++ sfx)).2 = body := by
    cases hs : f.suffix with
    | none =>
      have : sfx = [] := by simp [sfx, hs, renderSuffix]
      rw [this, List.append_nil]
      exact stripSuffixes_none suffixesL body hsfx
    | some s =>
      have : sfx = s := by simp [sfx, hs, renderSuffix]
      rw [this]
      exact stripSuffixes_one suffixesL suffixes_incomparable body s (h.suffix s hs) hsfx
  obtain ⟨p, ps, hp, _⟩ := h.first
  have hcf : ChargeFree f.renderStoich := renderParts_chargeFree f.sep f.parts h.parts
  cases hss : stripSuffixes suffixesL (body ++ sfx) with
  | mk ds s2 =>
    rw [hss] at hsuff
    simp only at hsuff
    subst hsuff
    refine ⟨f.prefixes, ds.reverse, ?_⟩
    have := charge_cascade f.renderStoich hcf f.charge h.charge f.prefixes ds.reverse
    simp only [formulaToParts, hrender, hstrip, hss]
    exact this

/-! ### `formula_to_composition` on rendered text -/

def finish (ch : Option Charge) (tot : Comp) : Comp :=
  match ch with
  | none => tot
  | some c => setKey 0 (c.val : Rat) tot

theorem formulaToCompositionL_render (f : Formula) (h : f.WFd) (hsfx : NoSuffixEnd f) :
    formulaToCompositionL f.render = .ok (finish f.charge (partsTot [] f.parts)) := by
  obtain ⟨dp, ds, hparts⟩ := formulaToParts_render f h hsfx
  obtain ⟨p, ps, hp, hn⟩ := h.first
  have hwf : ∀ q ∈ p :: ps, q.wf = true := by rw [← hp]; exact h.parts
  obtain ⟨_, ht, hne⟩ := Part.wf_iff p (hwf p (by simp))
  have hpr : p.render = p.terms.render := by simp [Part.render, hn]
  have hsplit := split_stoich f.sep p ps hwf
  have hrest := restLoop_render ps (fun q hq => hwf q (by simp [hq])) (addScaled 1 [] (mergeComp p.terms.flat))
  have hmult : p.mult = 1 := by simp [Part.mult, hn]
  have htot : partsTot [] f.parts = partsTot (addScaled 1 [] (mergeComp p.terms.flat)) ps := by
    rw [hp]; simp [partsTot, hmult]
  simp only [formulaToCompositionL, formulaToCompositionWith, stoichToComp, hparts, Formula.renderStoich, hp, hsplit, hpr,
    parseStoich_render p.terms ht hne, hrest]
  rw [hp] at htot
  rw [htot]
  cases hc : f.charge with
  | none => simp [finish]
  | some c => simp [finish, getCharge_render c (h.charge c hc)]

end ChemModel.Formula
