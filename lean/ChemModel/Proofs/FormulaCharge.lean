/-
C01: `_get_charge` and `_get_leading_integer` as functions of ARBITRARY strings (they are also reachable directly, not only
through `formula_to_composition`): exact characterisation of when `_get_charge` returns and what, hence of every refusal
branch ("Values both before and after charge token", "+ or - missing", both signs, repeated sign, not an integer).
-/
import ChemModel.Proofs.FormulaValue2

set_option linter.constructorNameAsVariable false

namespace ChemModel.Formula
open ChemModel.Gen

/-- decidable equality of `_get_charge` results (for the concrete `example`s) -/
instance instDecEqChargeResult : DecidableEq (Except ErrKind Int) := fun a b =>
  match a, b with
  | .ok x, .ok y => if h : x = y then isTrue (by rw [h]) else isFalse (by intro e; cases e; exact h rfl)
  | .error x, .error y => if h : x = y then isTrue (by rw [h]) else isFalse (by intro e; cases e; exact h rfl)
  | .ok _, .error _ => isFalse (by intro e; cases e)
  | .error _, .ok _ => isFalse (by intro e; cases e)

theorem chargeStep_ok_val (t a : Char) (sg : Int) (s : List Char) (q : Int) (h : chargeStep t a sg s = some (.ok q)) :
    ∃ ds n, s = t :: ds ∧ ds ≠ [] ∧ pyInt ds = some n ∧ q = sg * (n : Int) := by
  simp only [chargeStep] at h
  split at h
  · rename_i hc
    split at h
    · simp at h
    · split at h
      · simp at h
      · have hmem : t ∈ s := by simpa using hc
        have hspec := splitAtChar_spec t s hmem
        cases hsa : splitAtChar t s with
        | mk before after =>
          rw [hsa] at h hspec
          simp only at h hspec
          split at h
          · simp at h
          · rename_i hnb
            split at h
            · rename_i hal
              cases hpi : pyInt after with
              | none => rw [hpi] at h; simp at h
              | some n =>
                rw [hpi] at h
                simp at h
                have hb : before = [] := by
                  cases before with
                  | nil => rfl
                  | cons x xs => exact absurd ⟨by simp, hal⟩ hnb
                subst hb
                refine ⟨after, n, by simpa using hspec, ?_, hpi, by first | exact h.symm | exact h⟩
                intro e; subst e; simp at hal
            · simp at h
  · simp at h

theorem intC_not_sign {c : Char} (h : IntC c) : c ≠ '+' ∧ c ≠ '-' := by
  rcases h with h | h | h
  · exact ⟨isDigit_ne h (by decide), isDigit_ne h (by decide)⟩
  · subst h; exact ⟨by decide, by decide⟩
  · constructor <;> (intro e; subst e; revert h; decide)

theorem chargeStep_of_int (t a : Char) (hta : t ≠ a) (sg : Int) (rest : List Char) (n : Nat) (hne : rest ≠ [])
    (hp : pyInt rest = some n) (ht : t ∉ rest) (ha : a ∉ rest) :
    chargeStep t a sg (t :: rest) = some (.ok (sg * (n : Int))) := by
  have hs : splitAtChar t (t :: rest) = ([], rest) := by simpa using splitAtChar_append t [] rest (by simp)
  have hcount : List.count t (t :: rest) = 1 := by simp [List.count_cons, List.count_eq_zero.mpr ht]
  have hlen : 0 < rest.length := List.length_pos_iff.mpr hne
  have hat : ¬ a = t := fun e => hta e.symm
  simp [chargeStep, ht, ha, hat, hs, hcount, hp, hlen]

theorem chargeStep_none_of_absent (t a : Char) (sg : Int) (s : List Char) (h : t ∉ s) : chargeStep t a sg s = none := by
  simp [chargeStep, h]

/-- **`_get_charge` returns exactly on well-formed charge tokens.** For EVERY string `s`: `_get_charge(s)` returns `q` iff
    `s` is `+` (q = 1), `-` (q = −1), or a sign followed by a non-empty text that `int()` reads as `n` (q = ±n).
    In every other case it raises: text on both sides of the sign (`3+2`), sign at the end or missing (`3+`, `3`, empty),
    both signs (`+-3`), a repeated sign (`++3`), a number `int()` refuses (`+x`, `+1__0`). -/
theorem getCharge_ok_iff (s : List Char) (q : Int) :
    getCharge s = .ok q ↔
      (s = ['+'] ∧ q = 1) ∨ (s = ['-'] ∧ q = -1) ∨
      (∃ rest n, rest ≠ [] ∧ pyInt rest = some n ∧ ((s = '+' :: rest ∧ q = (n : Int)) ∨ (s = '-' :: rest ∧ q = -(n : Int)))) := by
  constructor
  · intro h
    simp only [getCharge] at h
    split at h
    · rename_i e; simp at h; exact Or.inl ⟨e, h.symm⟩
    · split at h
      · rename_i e; simp at h; exact Or.inr (Or.inl ⟨e, h.symm⟩)
      · right; right
        cases h1 : chargeStep '+' '-' 1 s with
        | some r =>
          rw [h1] at h
          simp only at h
          subst h
          obtain ⟨ds, n, e, hne, hp, hq⟩ := chargeStep_ok_val _ _ _ _ _ h1
          exact ⟨ds, n, hne, hp, Or.inl ⟨e, by simpa using hq⟩⟩
        | none =>
          rw [h1] at h
          simp only at h
          cases h2 : chargeStep '-' '+' (-1) s with
          | some r =>
            rw [h2] at h
            simp only at h
            subst h
            obtain ⟨ds, n, e, hne, hp, hq⟩ := chargeStep_ok_val _ _ _ _ _ h2
            exact ⟨ds, n, hne, hp, Or.inr ⟨e, by simpa using hq⟩⟩
          | none => rw [h2] at h; simp at h
  · intro h
    rcases h with ⟨e, hq⟩ | ⟨e, hq⟩ | ⟨rest, n, hne, hp, h⟩
    · subst e; subst hq; simp [getCharge]
    · subst e; subst hq; simp [getCharge]
    · have hsigns : '+' ∉ rest ∧ '-' ∉ rest :=
        ⟨fun hc => (intC_not_sign (pyInt_chars rest n hp _ hc)).1 rfl, fun hc => (intC_not_sign (pyInt_chars rest n hp _ hc)).2 rfl⟩
      rcases h with ⟨e, hq⟩ | ⟨e, hq⟩
      · subst e; subst hq
        have h1 : ('+' :: rest) ≠ ['+'] := by simpa using hne
        have h2 : ('+' :: rest) ≠ ['-'] := by simp
        have := chargeStep_of_int '+' '-' (by decide) 1 rest n hne hp hsigns.1 hsigns.2
        simp [getCharge, h1, h2, this]
      · subst e; subst hq
        have h1 : ('-' :: rest) ≠ ['+'] := by simp
        have h2 : ('-' :: rest) ≠ ['-'] := by simpa using hne
        have hnone := chargeStep_none_of_absent '+' '-' 1 ('-' :: rest) (by simp [hsigns.1])
        have := chargeStep_of_int '-' '+' (by decide) (-1) rest n hne hp hsigns.2 hsigns.1
        simp [getCharge, h1, h2, hnone, this]

/-- the only other outcome is ValueError -/
theorem getCharge_error_kind (s : List Char) (e : ErrKind) (h : getCharge s = .error e) : e = .charge := by
  simp only [getCharge] at h
  split at h
  · simp at h
  · split at h
    · simp at h
    · have key : ∀ t a sg r, chargeStep t a sg s = some (.error r) → r = .charge := by
        intro t a sg r hr
        simp only [chargeStep] at hr
        repeat' split at hr
        all_goals first | (simp at hr; exact hr.symm) | (simp at hr)
      cases h1 : chargeStep '+' '-' 1 s with
      | some r =>
        rw [h1] at h; simp only at h; subst h; exact key _ _ _ _ h1
      | none =>
        rw [h1] at h; simp only at h
        cases h2 : chargeStep '-' '+' (-1) s with
        | some r => rw [h2] at h; simp only at h; subst h; exact key _ _ _ _ h2
        | none => rw [h2] at h; simp at h; exact h.symm

/-! ### leading integer -/

theorem takeDigits_rest_head (s : List Char) : ∀ c, (takeDigits s).2.head? = some c → c.isDigit = false := by
  induction s with
  | nil => intro c hc; simp [takeDigits] at hc
  | cons x r ih =>
    intro c hc
    by_cases hx : x.isDigit = true
    · simp only [takeDigits, hx, if_true] at hc; exact ih c hc
    · simp only [takeDigits, hx] at hc; simp at hc; subst hc; simpa using hx

/-- **`_get_leading_integer` never refuses** and splits off exactly the maximal ASCII digit prefix: `p = ds ++ rest`, `ds` all
    digits, `rest` does not start with a digit, the multiplier is `int(ds)` or 1 when there is no digit. (The `raise` branch of
    the Python function needs two matches of `^\d+`, which is impossible without `re.MULTILINE`: dead code.) -/
theorem getLeadingInteger_total (p : List Char) :
    ∃ ds, p = ds ++ (getLeadingInteger p).2 ∧ (∀ c ∈ ds, c.isDigit = true) ∧
      (∀ c, (getLeadingInteger p).2.head? = some c → c.isDigit = false) ∧
      (getLeadingInteger p).1 = (if ds = [] then 1 else digitsVal ds) := by
  obtain ⟨h1, h2⟩ := takeDigits_spec p
  have h3 := takeDigits_rest_head p
  simp only [getLeadingInteger]
  split
  · rename_i he
    refine ⟨[], rfl, by simp, ?_, by simp⟩
    intro c hc
    rw [h1, he] at hc
    exact h3 c (by simpa using hc)
  · rename_i hne
    exact ⟨(takeDigits p).1, h1, h2, h3, by simp [hne]⟩

end ChemModel.Formula
