/-
C13: "phase suffixes are kept verbatim" for ANY suffix tuple, directly on the model of `_formula_to_format` (no AST needed):
if the text is `s ++ t` with `t` one of the suffixes handed over, no prefix key straddles the boundary, and what is left of `s` after
the prefixes does not itself end in one of the suffixes, then formatting `s ++ t` is formatting `s` and appending `t` — same result,
same exception.
-/
import ChemModel.Proofs.FormulaFormatSpecies

set_option linter.constructorNameAsVariable false

namespace ChemModel.FormulaFormat
open ChemModel.Formula ChemModel.Gen

/-! ### prefix stripping and an appended text -/

theorem drop_mem_tailsOf (n : Nat) (s : Str) : s.drop n ∈ tailsOf s := mem_tailsOf (List.drop_suffix n s)

theorem tailsOf_trans {a b s : Str} (ha : a ∈ tailsOf b) (hb : b <:+ s) : a ∈ tailsOf s := by
  have : a <:+ b := by
    clear hb
    induction b with
    | nil => simp [tailsOf] at ha; subst ha; exact List.suffix_refl _
    | cons c b ih =>
      simp only [tailsOf, List.mem_cons] at ha
      rcases ha with e | e
      · subst e; exact List.suffix_refl _
      · exact (ih e).trans (List.suffix_cons c b)
  exact mem_tailsOf (this.trans hb)

/-- prefix stripping does not look into an appended text as long as no prefix key straddles the boundary -/
theorem stripPrefixes_append (P : List Str) (s t : Str)
    (hpre : ∀ p ∈ P, ∀ a ∈ tailsOf s, p <+: a ++ t → p <+: a) :
    stripPrefixes P (s ++ t) = ((stripPrefixes P s).1, (stripPrefixes P s).2 ++ t) := by
  induction P generalizing s with
  | nil => rfl
  | cons p ps ih =>
    by_cases hp : p.isPrefixOf s = true
    · have hp' := List.isPrefixOf_iff_prefix.mp hp
      have hp2 : p.isPrefixOf (s ++ t) = true := List.isPrefixOf_iff_prefix.mpr (hp'.trans (List.prefix_append s t))
      have hlen : p.length ≤ s.length := hp'.length_le
      have hdrop : (s ++ t).drop p.length = s.drop p.length ++ t := by
        rw [List.drop_append_of_le_length hlen]
      simp only [stripPrefixes, hp, hp2, if_true, hdrop]
      rw [ih (s.drop p.length) (fun q hq a ha => hpre q (by simp [hq]) a (tailsOf_trans ha (List.drop_suffix _ _)))]
    · have hp2 : ¬ p.isPrefixOf (s ++ t) = true := by
        intro h
        exact hp (List.isPrefixOf_iff_prefix.mpr
          (hpre p (by simp) s (mem_tailsOf (List.suffix_refl s)) (List.isPrefixOf_iff_prefix.mp h)))
      simp only [stripPrefixes, hp, hp2, if_false]
      exact ih s (fun q hq a ha => hpre q (by simp [hq]) a ha)

/-! ### `_formula_to_parts` / `_formula_to_format` factored through the stripped pieces -/

/-- the `/`, `+`, `-` cascade of `_formula_to_parts` on the text left after prefixes and suffixes -/
def cascade (dp ds : List Str) (s2 : Str) : Except ErrKind Parts :=
  if s2.contains '/' then .error .slash
  else if s2.contains '+' then
    if s2.count '+' > 1 then .error .multiToken
    else .ok ⟨(splitAtChar '+' s2).1, some ('+' :: (splitAtChar '+' s2).2), dp, ds⟩
  else if s2.contains '-' then
    if s2.count '-' > 1 then .error .multiToken
    else .ok ⟨(splitAtChar '-' s2).1, some ('-' :: (splitAtChar '-' s2).2), dp, ds⟩
  else .ok ⟨s2, none, dp, ds⟩

theorem formulaToParts_eq (P sfx : List Str) (x : Str) :
    formulaToParts P sfx x
      = cascade (stripPrefixes P x).1 (stripSuffixes sfx (stripPrefixes P x).2).1.reverse (stripSuffixes sfx (stripPrefixes P x).2).2 := rfl

/-- everything `_formula_to_format` does after `_formula_to_parts` -/
def fmtOfParts (F : Fmt) (pts : Parts) : Except FErr Str :=
  match andThen (subRuns F.sub (if pts.stoich.contains '·' then splitChar '·' pts.stoich else splitDD pts.stoich).1)
      (fmtRest F (if pts.stoich.contains '·' then splitChar '·' pts.stoich else splitDD pts.stoich).2) with
  | none => .error .key
  | some string =>
    match fmtCharge F string pts.chg with
    | .error e => .error e
    | .ok s =>
      match mapPrefixes F.prefixes pts.droppedPrefixes with
      | none => .error .key
      | some pre => .ok (pre ++ (s ++ pts.droppedSuffixes.flatten))

theorem formulaToFormat_eq (F : Fmt) (sfx : List Str) (x : Str) :
    formulaToFormat F sfx x = (match formulaToParts (F.prefixes.map Prod.fst) sfx x with
      | .error e => .error (.parts e)
      | .ok pts => fmtOfParts F pts) := rfl

/-- the dropped suffixes are only appended at the very end -/
theorem fmtOfParts_suffix (F : Fmt) (a : Str) (chg : Option Str) (dp : List Str) (t : Str) :
    fmtOfParts F ⟨a, chg, dp, [t]⟩ = (fmtOfParts F ⟨a, chg, dp, []⟩).map (· ++ t) := by
  simp only [fmtOfParts]
  cases andThen (subRuns F.sub (if a.contains '·' then splitChar '·' a else splitDD a).1)
      (fmtRest F (if a.contains '·' then splitChar '·' a else splitDD a).2) with
  | none => rfl
  | some string =>
    simp only
    cases fmtCharge F string chg with
    | error e => rfl
    | ok s =>
      simp only
      cases mapPrefixes F.prefixes dp with
      | none => rfl
      | some pre => simp [Except.map, List.append_assoc]

theorem cascade_suffix (dp : List Str) (t : Str) (s2 : Str) (F : Fmt) :
    (match cascade dp [t] s2 with | .error e => (.error (.parts e) : Except FErr Str) | .ok pts => fmtOfParts F pts)
      = (match cascade dp [] s2 with | .error e => (.error (.parts e) : Except FErr Str) | .ok pts => fmtOfParts F pts).map (· ++ t) := by
  unfold cascade
  by_cases h1 : s2.contains '/' = true
  · simp only [h1, if_true]; rfl
  · by_cases h2 : s2.contains '+' = true
    · by_cases h3 : s2.count '+' > 1
      · simp only [h1, h2, h3, if_true, if_false, Bool.false_eq_true]; rfl
      · simp only [h1, h2, h3, if_true, if_false, Bool.false_eq_true]
        exact fmtOfParts_suffix F _ _ dp t
    · by_cases h4 : s2.contains '-' = true
      · by_cases h5 : s2.count '-' > 1
        · simp only [h1, h2, h4, h5, if_true, if_false, Bool.false_eq_true]; rfl
        · simp only [h1, h2, h4, h5, if_true, if_false, Bool.false_eq_true]
          exact fmtOfParts_suffix F _ _ dp t
      · simp only [h1, h2, h4, if_false, Bool.false_eq_true]
        exact fmtOfParts_suffix F _ _ dp t

/-- **suffix kept verbatim, for any suffix tuple** -/
theorem formulaToFormat_suffix (F : Fmt) (sfx : List Str) (s t : Str)
    (ht : t ∈ sfx)
    (hinc : ∀ a ∈ sfx, ∀ b ∈ sfx, a ≠ b → ¬ a <:+ b)
    (hpre : ∀ p ∈ F.prefixes.map Prod.fst, ∀ a ∈ tailsOf s, p <+: a ++ t → p <+: a)
    (hends : ∀ u ∈ sfx, ¬ u <:+ (stripPrefixes (F.prefixes.map Prod.fst) s).2) :
    formulaToFormat F sfx (s ++ t) = (formulaToFormat F sfx s).map (· ++ t) := by
  rw [formulaToFormat_eq, formulaToFormat_eq, formulaToParts_eq, formulaToParts_eq,
    stripPrefixes_append _ s t hpre]
  simp only
  rw [stripSuffixes_one'' sfx hinc _ t ht hends, stripSuffixes_none' sfx _ hends]
  exact cascade_suffix _ t _ F

/-! ### `_get_charge`: exactly which texts are accepted -/

theorem splitAtChar_spec (c : Char) (s : Str) (h : c ∈ s) :
    s = (splitAtChar c s).1 ++ c :: (splitAtChar c s).2 := by
  induction s with
  | nil => simp at h
  | cons x r ih =>
    by_cases e : x = c
    · simp [splitAtChar, e]
    · have hr : c ∈ r := by
        rcases List.mem_cons.mp h with h1 | h1
        · exact absurd h1.symm e
        · exact h1
      have := ih hr
      simp only [splitAtChar, e, if_false, List.cons_append]
      rw [← this]

/-- one iteration of the token loop returns a value only for `token ++ rest` where `rest` is non-empty, holds neither sign, and is
    accepted by `int()` -/
theorem chargeStep_ok (tok anti : Char) (sign : Int) (s : Str) (q : Int) (h : chargeStep tok anti sign s = some (.ok q)) :
    ∃ rest, s = tok :: rest ∧ rest ≠ [] ∧ tok ∉ rest ∧ anti ∉ rest ∧ (pyInt rest).isSome = true := by
  unfold chargeStep at h
  by_cases h1 : s.contains tok = true
  · rw [if_pos h1] at h
    by_cases h2 : s.contains anti = true
    · rw [if_pos h2] at h; simp at h
    · rw [if_neg h2] at h
      by_cases h3 : s.count tok > 1
      · rw [if_pos h3] at h; simp at h
      · rw [if_neg h3] at h
        have hs := splitAtChar_spec tok s (by simpa using h1)
        by_cases h4 : (splitAtChar tok s).1.length > 0 ∧ (splitAtChar tok s).2.length > 0
        · simp only [h4, and_self, if_true] at h; simp at h
        · simp only [h4, if_false] at h
          by_cases h5 : (splitAtChar tok s).2.length > 0
          · rw [if_pos h5] at h
            have hb : (splitAtChar tok s).1 = [] := by
              have : ¬ (splitAtChar tok s).1.length > 0 := fun hh => h4 ⟨hh, h5⟩
              exact List.length_eq_zero_iff.mp (by omega)
            rw [hb, List.nil_append] at hs
            have hne : (splitAtChar tok s).2 ≠ [] := by intro e; rw [e] at h5; simp at h5
            have hanti : anti ∉ (splitAtChar tok s).2 := by
              intro hm; apply h2; rw [hs]; simp [hm]
            have htok : tok ∉ (splitAtChar tok s).2 := by
              intro hm
              apply h3
              rw [hs, List.count_cons_self]
              have := List.count_pos_iff.mpr hm
              omega
            cases hp : pyInt (splitAtChar tok s).2 with
            | none => rw [hp] at h; simp at h
            | some n => exact ⟨_, hs, hne, htok, hanti, by simp [hp]⟩
          · rw [if_neg h5] at h; simp at h
  · rw [if_neg h1] at h; simp at h

/-- **`_get_charge` accepts exactly a sign followed by nothing (magnitude 1) or by a text without signs that `int()` accepts**
    (ASCII digits, possibly with surrounding blanks / single underscores, as modelled by C01's `pyInt`) -/
theorem getCharge_ok_iff (t : Str) :
    (∃ q, getCharge t = .ok q) ↔
      ∃ sg rest, t = sg :: rest ∧ (sg = '+' ∨ sg = '-') ∧
        (rest = [] ∨ ('+' ∉ rest ∧ '-' ∉ rest ∧ (pyInt rest).isSome = true)) := by
  constructor
  · rintro ⟨q, hq⟩
    unfold getCharge at hq
    by_cases e1 : t = ['+']
    · exact ⟨'+', [], e1, Or.inl rfl, Or.inl rfl⟩
    · by_cases e2 : t = ['-']
      · exact ⟨'-', [], e2, Or.inr rfl, Or.inl rfl⟩
      · rw [if_neg e1, if_neg e2] at hq
        cases hp : chargeStep '+' '-' 1 t with
        | some r =>
          rw [hp] at hq
          simp only at hq
          rw [hq] at hp
          obtain ⟨rest, hds, _, h1, h2, h3⟩ := chargeStep_ok '+' '-' 1 t q hp
          exact ⟨'+', rest, hds, Or.inl rfl, Or.inr ⟨h1, h2, h3⟩⟩
        | none =>
          rw [hp] at hq
          simp only at hq
          cases hm : chargeStep '-' '+' (-1) t with
          | some r =>
            rw [hm] at hq
            simp only at hq
            rw [hq] at hm
            obtain ⟨rest, hds, _, h1, h2, h3⟩ := chargeStep_ok '-' '+' (-1) t q hm
            exact ⟨'-', rest, hds, Or.inr rfl, Or.inr ⟨h2, h1, h3⟩⟩
          | none => rw [hm] at hq; simp at hq
  · rintro ⟨sg, rest, rfl, hsg, hrest⟩
    rcases hrest with e | ⟨hp, hm, hi⟩
    · subst e
      rcases hsg with e | e <;> subst e
      · exact ⟨1, by simp [getCharge]⟩
      · exact ⟨-1, by simp [getCharge]⟩
    · obtain ⟨n, hn⟩ := Option.isSome_iff_exists.mp hi
      have hne : rest ≠ [] := by
        intro e; subst e
        have h0 : pyInt [] = none := by decide
        rw [h0] at hn; simp at hn
      have hlen : rest.length > 0 := List.length_pos_iff.mpr hne
      rcases hsg with e | e <;> subst e
      · refine ⟨1 * (n : Int), ?_⟩
        have e1 : ('+' :: rest) ≠ ['+'] := by simpa using hne
        have e2 : ('+' :: rest) ≠ ['-'] := by simp
        simp [getCharge, e1, chargeStep, splitAtChar, hp, hm, hn, hlen, List.count_cons, List.count_eq_zero.mpr hp]
      · refine ⟨-1 * (n : Int), ?_⟩
        have e1 : ('-' :: rest) ≠ ['+'] := by simp
        have e2 : ('-' :: rest) ≠ ['-'] := by simpa using hne
        simp [getCharge, e2, chargeStep, splitAtChar, hp, hm, hn, hlen, List.count_cons, List.count_eq_zero.mpr hm]

end ChemModel.FormulaFormat
