/-
Helper lemmas for C08 (model: `ChemModel/Model/EqSolve.lean`), over an arbitrary linearly ordered field.
-/
import Mathlib.Tactic.Ring
import Mathlib.Tactic.Linarith
import Mathlib.Tactic.FieldSimp
import Mathlib.Algebra.Order.Field.Basic
import Mathlib.Algebra.Order.BigOperators.Group.List
import ChemModel.Model.EqSolve

namespace ChemModel.EqSolve

variable {α : Type} [Field α] [LinearOrder α] [IsStrictOrderedRing α]

/-! ### the sanity check -/

theorem tooMuch_eq_false_iff (rtol : α) : ∀ (x : List α) (ub : List (Option α)), x.length = ub.length →
    (tooMuch rtol x ub = false ↔
      ∀ i (hi : i < x.length) (b : α), ub[i]? = some (some b) → x[i] ≤ b * (1 + rtol))
  | [], [], _ => by simp [tooMuch]
  | [], _ :: _, h => by simp at h
  | _ :: _, [], h => by simp at h
  | x :: xs, b :: bs, h => by
    have ih := tooMuch_eq_false_iff rtol xs bs (by simpa using h)
    simp only [tooMuch, Bool.or_eq_false_iff, ih]
    constructor
    · rintro ⟨h0, hr⟩ i hi c hc
      cases i with
      | zero =>
        simp only [List.getElem?_cons_zero, Option.some.injEq] at hc
        subst hc
        simpa [Nat.cast_one] using h0
      | succ j =>
        simp only [List.getElem?_cons_succ] at hc
        simpa using hr j (by simpa using hi) c hc
    · intro hall
      refine ⟨?_, fun i hi c hc => ?_⟩
      · cases b with
        | none => rfl
        | some c =>
          have := hall 0 (by simp) c (by simp)
          simpa [Nat.cast_one] using this
      · have := hall (i + 1) (by simpa using hi) c (by simpa using hc)
        simpa using this

theorem any_neg_eq_false_iff (x : List α) :
    (x.any fun xi => decide (xi < ((0 : Nat) : α))) = false ↔ ∀ i (hi : i < x.length), 0 ≤ x[i] := by
  rw [Bool.eq_false_iff]
  simp only [ne_eq, List.any_eq_true, decide_eq_true_eq, Nat.cast_zero, not_exists, not_and, not_lt]
  constructor
  · intro h i hi
    exact h _ (List.getElem_mem hi)
  · intro h a ha
    obtain ⟨i, hi, rfl⟩ := List.getElem_of_mem ha
    exact h i hi

theorem resultIsSane_eq_ok_true_iff (rtol : α) (comps : List (Comp α)) (init x : List α) :
    resultIsSane rtol comps init x = .ok true ↔
      ∃ ub, upperConcBounds comps init = .ok ub ∧ x.length = ub.length ∧
        (∀ i (hi : i < x.length), 0 ≤ x[i]) ∧
        (∀ i (hi : i < x.length) (b : α), ub[i]? = some (some b) → x[i] ≤ b * (1 + rtol)) := by
  unfold resultIsSane
  cases hub : upperConcBounds comps init with
  | error e => simp [bind, Except.bind]
  | ok ub =>
    simp only [bind, Except.bind, Except.ok.injEq, exists_eq_left']
    by_cases hl : x.length = ub.length
    · simp only [hl, ne_eq, not_true_eq_false, ↓reduceIte, pure, Except.pure, Except.ok.injEq,
        Bool.not_eq_true', Bool.or_eq_false_iff, true_and]
      rw [any_neg_eq_false_iff, tooMuch_eq_false_iff rtol x ub hl]
      simp [hl]
    · simp [hl, throw, throwThe, MonadExceptOf.throw]

end ChemModel.EqSolve
