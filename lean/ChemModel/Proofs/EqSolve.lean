/-
Helper lemmas for C08 (model: `ChemModel/Model/EqSolve.lean`), over an arbitrary linearly ordered field.
-/
import Mathlib.Tactic.Ring
import Mathlib.Tactic.Linarith
import Mathlib.Tactic.FieldSimp
import Mathlib.Algebra.Order.Field.Basic
import Mathlib.Algebra.Order.BigOperators.Group.List
import ChemModel.Model.EqSolve

namespace ChemModel.EqSolve

set_option linter.unusedSectionVars false

variable {α : Type} [Field α] [LinearOrder α] [IsStrictOrderedRing α]

/-! ### the sanity check -/

theorem tooMuch_eq_false_iff (rtol : α) : ∀ (x : List α) (ub : List (Option α)), x.length = ub.length →
    (tooMuch rtol x ub = false ↔
      ∀ i (hi : i < x.length) (b : α), ub[i]? = some (some b) → x[i] ≤ b * (1 + rtol))
  | [], [], _ => by simp [tooMuch]
  | [], _ :: _, h => by simp at h
  | _ :: _, [], h => by simp at h
  | x :: xs, b :: bs, h => by
    have ih := tooMuch_eq_false_iff rtol xs bs (by simpa using h)
    simp only [tooMuch, Bool.or_eq_false_iff, ih]
    constructor
    · rintro ⟨h0, hr⟩ i hi c hc
      cases i with
      | zero =>
        simp only [List.getElem?_cons_zero, Option.some.injEq] at hc
        subst hc
        simpa [Nat.cast_one] using h0
      | succ j =>
        simp only [List.getElem?_cons_succ] at hc
        simpa using hr j (by simpa using hi) c hc
    · intro hall
      refine ⟨?_, fun i hi c hc => ?_⟩
      · cases b with
        | none => rfl
        | some c =>
          have := hall 0 (by simp) c (by simp)
          simpa [Nat.cast_one] using this
      · have := hall (i + 1) (by simpa using hi) c (by simpa using hc)
        simpa using this

theorem any_neg_eq_false_iff (x : List α) :
    (x.any fun xi => decide (xi < ((0 : Nat) : α))) = false ↔ ∀ i (hi : i < x.length), 0 ≤ x[i] := by
  rw [Bool.eq_false_iff]
  simp only [ne_eq, List.any_eq_true, decide_eq_true_eq, Nat.cast_zero, not_exists, not_and, not_lt]
  constructor
  · intro h i hi
    exact h _ (List.getElem_mem hi)
  · intro h a ha
    obtain ⟨i, hi, rfl⟩ := List.getElem_of_mem ha
    exact h i hi

theorem resultIsSane_eq_ok_true_iff (rtol : α) (comps : List (Comp α)) (init x : List α) :
    resultIsSane rtol comps init x = .ok true ↔
      ∃ ub, upperConcBounds comps init = .ok ub ∧ x.length = ub.length ∧
        (∀ i (hi : i < x.length), 0 ≤ x[i]) ∧
        (∀ i (hi : i < x.length) (b : α), ub[i]? = some (some b) → x[i] ≤ b * (1 + rtol)) := by
  unfold resultIsSane
  cases hub : upperConcBounds comps init with
  | error e => simp [bind, Except.bind]
  | ok ub =>
    simp only [bind, Except.bind, Except.ok.injEq, exists_eq_left']
    by_cases hl : x.length = ub.length
    · simp only [hl, ne_eq, not_true_eq_false, ↓reduceIte, pure, Except.pure, Except.ok.injEq,
        Bool.not_eq_true', Bool.or_eq_false_iff, true_and]
      rw [any_neg_eq_false_iff, tooMuch_eq_false_iff rtol x ub hl]
      simp [hl]
    · simp [hl, throw, throwThe, MonadExceptOf.throw]

/-! ### elemental upper bounds -/

theorem listSum_eq_sum (l : List α) : listSum l = l.sum := by
  induction l with
  | nil => simp [listSum]
  | cons a l ih => simpa [listSum] using ih

theorem mapM_ok {β γ : Type} {f : β → Except Err γ} : ∀ (l : List β) (r : List γ), l.mapM f = .ok r →
    List.Forall₂ (fun a b => f a = .ok b) l r
  | [], r, h => by
    simp only [List.mapM_nil, pure, Except.pure, Except.ok.injEq] at h
    subst h; exact List.Forall₂.nil
  | a :: l, r, h => by
    rw [List.mapM_cons] at h
    cases hfa : f a with
    | error e => simp [hfa, bind, Except.bind] at h
    | ok b =>
      cases hl : l.mapM f with
      | error e => simp [hfa, hl, bind, Except.bind] at h
      | ok bs =>
        simp only [hfa, hl, bind, Except.bind, pure, Except.pure, Except.ok.injEq] at h
        subst h
        exact List.Forall₂.cons hfa (mapM_ok l bs hl)

theorem ite_throw_ok {γ : Type} {c : Prop} [Decidable c] {e : Err} {v w : γ} :
    (if c then (throw e : Except Err γ) else pure v) = .ok w ↔ ¬c ∧ v = w := by
  by_cases h : c <;> simp [h, throw, throwThe, MonadExceptOf.throw, pure, Except.pure]

theorem listMin_le (a : α) (l : List α) : listMin a l ≤ a ∧ ∀ b ∈ l, listMin a l ≤ b := by
  induction l generalizing a with
  | nil => simp [listMin]
  | cons b l ih =>
    simp only [listMin, List.mem_cons, forall_eq_or_imp]
    obtain ⟨h1, h2⟩ := ih (if b < a then b else a)
    refine ⟨?_, ?_, h2⟩
    · by_cases hba : b < a
      · simp only [hba, ↓reduceIte] at h1 ⊢
        exact le_trans h1 hba.le
      · simp only [hba, ↓reduceIte] at h1 ⊢
        exact h1
    · by_cases hba : b < a
      · simp only [hba, ↓reduceIte] at h1 ⊢
        exact h1
      · simp only [hba, ↓reduceIte] at h1 ⊢
        exact le_trans h1 (not_lt.mp hba)

theorem listMin_mem (a : α) (l : List α) : listMin a l = a ∨ listMin a l ∈ l := by
  induction l generalizing a with
  | nil => simp [listMin]
  | cons b l ih =>
    simp only [listMin, List.mem_cons]
    rcases ih (if b < a then b else a) with h | h
    · by_cases hba : b < a
      · simp only [hba, ↓reduceIte] at h ⊢
        exact Or.inr (Or.inl h)
      · simp only [hba, ↓reduceIte] at h ⊢
        exact Or.inl h
    · exact Or.inr (Or.inr h)

/-- what `boundOf` returns: an attained minimum of `tot key / coeff` over the non-charge items -/
theorem boundOf_some (tot : Nat → α) (comp : Comp α) (b : α) (h : boundOf tot comp = .ok (some b)) :
    (∀ p ∈ comp, p.1 ≠ 0 → p.2 ≠ 0 ∧ b ≤ tot p.1 / p.2) ∧ ∃ p ∈ comp, p.1 ≠ 0 ∧ p.2 ≠ 0 ∧ b = tot p.1 / p.2 := by
  unfold boundOf at h
  simp only [bind, Except.bind] at h
  split at h
  · cases h
  · rename_i ch hm
    have hf := mapM_ok _ _ hm
    have hlen := hf.length_eq
    cases ch with
    | nil => simp [pure, Except.pure] at h
    | cons a l =>
      simp only [pure, Except.pure, Except.ok.injEq, Option.some.injEq] at h
      subst h
      have key : ∀ p ∈ comp, p.1 ≠ 0 → p.2 ≠ 0 ∧ tot p.1 / p.2 ∈ a :: l := by
        intro p hp hk
        have hpm : p ∈ comp.filter fun p => p.1 ≠ 0 := by simp [List.mem_filter, hp, hk]
        obtain ⟨i, hi, hpi⟩ := List.getElem_of_mem hpm
        have := (List.forall₂_iff_get.mp hf).2 i (by simpa using hi) (by simp at hlen hi ⊢; omega)
        simp only [List.get_eq_getElem] at this
        rw [ite_throw_ok] at this
        rw [hpi] at this
        exact ⟨by simpa using this.1, this.2 ▸ List.getElem_mem _⟩
      have conv : ∀ v ∈ a :: l, ∃ p ∈ comp, p.1 ≠ 0 ∧ p.2 ≠ 0 ∧ v = tot p.1 / p.2 := by
        intro v hv
        obtain ⟨i, hi, rfl⟩ := List.getElem_of_mem hv
        have hi' : i < (List.filter (fun p => decide (p.1 ≠ 0)) comp).length := by
          omega
        have := (List.forall₂_iff_get.mp hf).2 i (by simpa using hi') (by simpa using hi)
        simp only [List.get_eq_getElem] at this
        rw [ite_throw_ok] at this
        have hmem' := List.mem_filter.mp (List.getElem_mem hi')
        exact ⟨_, hmem'.1, by simpa using hmem'.2, by simpa using this.1, this.2.symm⟩
      refine ⟨fun p hp hk => ?_, ?_⟩
      · obtain ⟨h0, hm'⟩ := key p hp hk
        refine ⟨h0, ?_⟩
        rcases List.mem_cons.mp hm' with h | h
        · rw [h]; exact (listMin_le a l).1
        · exact (listMin_le a l).2 _ h
      · rcases listMin_mem a l with h | h
        · rw [h]; exact conv a (by simp)
        · exact conv _ (List.mem_cons_of_mem _ h)

theorem compositionConc_ge (comps : List (Comp α)) (y : List α) (hy : ∀ v ∈ y, 0 ≤ v)
    (hc : ∀ comp ∈ comps, ∀ p ∈ comp, p.1 ≠ 0 → 0 ≤ p.2)
    (i : Nat) (hi : i < comps.length) (hiy : i < y.length) (p : Nat × α) (hp : p ∈ comps[i]) (hk : p.1 ≠ 0) :
    p.2 * y[i] ≤ compositionConc comps y p.1 := by
  unfold compositionConc
  simp only [listSum_eq_sum, Nat.cast_zero]
  have inner_nonneg : ∀ (conc : α) (comp : Comp α), 0 ≤ conc → comp ∈ comps →
      ∀ v ∈ comp.map (fun (q : Nat × α) => if q.1 = p.1 ∧ q.1 ≠ 0 then q.2 * conc else 0), 0 ≤ v := by
    intro conc comp hconc hcomp v hv
    obtain ⟨q, hq, rfl⟩ := List.mem_map.mp hv
    by_cases hqk : q.1 = p.1 ∧ q.1 ≠ 0
    · rw [if_pos hqk]
      exact mul_nonneg (hc comp hcomp q hq hqk.2) hconc
    · rw [if_neg hqk]
  -- step 2: the item's own term is bounded by the inner sum of its substance
  have h2 : p.2 * y[i] ≤ ((comps[i]).map (fun (q : Nat × α) => if q.1 = p.1 ∧ q.1 ≠ 0 then q.2 * y[i] else 0)).sum := by
    apply List.single_le_sum (inner_nonneg y[i] comps[i] (hy _ (List.getElem_mem _)) (List.getElem_mem _))
    refine List.mem_map.mpr ⟨p, hp, ?_⟩
    simp [hk]
  -- step 1: that inner sum is one of the non-negative terms of the outer sum
  refine le_trans h2 ?_
  apply List.single_le_sum
  · intro v hv
    obtain ⟨⟨conc, comp⟩, hz, rfl⟩ := List.mem_map.mp hv
    have hz' := List.of_mem_zip hz
    exact List.sum_nonneg (inner_nonneg conc comp (hy _ hz'.1) hz'.2)
  · refine List.mem_map.mpr ⟨(y[i], comps[i]), ?_, rfl⟩
    rw [List.mem_iff_getElem]
    exact ⟨i, by simp [hi, hiy], by simp⟩

/-- `upper_bound_valid`: no non-negative state with the same element totals exceeds the bound -/
theorem upperConcBounds_valid (comps : List (Comp α)) (init y : List α) (ub : List (Option α))
    (hub : upperConcBounds comps init = .ok ub) (hylen : y.length = comps.length)
    (hy : ∀ v ∈ y, 0 ≤ v) (hc : ∀ comp ∈ comps, ∀ p ∈ comp, p.1 ≠ 0 → 0 ≤ p.2)
    (htot : ∀ k, k ≠ 0 → compositionConc comps y k = compositionConc comps init k)
    (i : Nat) (hi : i < comps.length) (b : α) (hb : ub[i]? = some (some b))
    (hpos : ∀ p ∈ comps[i], p.1 ≠ 0 → 0 < p.2) :
    y[i]'(hylen ▸ hi) ≤ b := by
  unfold upperConcBounds at hub
  split_ifs at hub with hl
  · have hf := mapM_ok _ _ hub
    have hlen := hf.length_eq
    have hiu : i < ub.length := by omega
    have hbi := (List.forall₂_iff_get.mp hf).2 i hi hiu
    simp only [List.get_eq_getElem] at hbi
    have hbe : ub[i] = some b := by
      rw [List.getElem?_eq_getElem hiu] at hb
      exact Option.some.inj hb
    rw [hbe] at hbi
    obtain ⟨_, p, hp, hk, _, hbp⟩ := boundOf_some _ _ _ hbi
    have hge := compositionConc_ge comps y hy hc i hi (hylen ▸ hi) p hp hk
    rw [htot p.1 hk] at hge
    rw [hbp, le_div_iff₀ (hpos p hp hk)]
    linarith [mul_comm p.2 (y[i]'(hylen ▸ hi))]

/-! ### stoichiometry helpers, `dissolved` -/

theorem Rxn.net_eq_netX (r : Rxn) (k : Nat) : r.net k = r.netX k := by
  unfold Rxn.net Rxn.netX; omega

theorem netStoich_length (ns : Nat) (r : Rxn) : (netStoich ns r).length = ns := by simp [netStoich]

theorem netStoich_getElem (ns : Nat) (r : Rxn) (k : Nat) (hk : k < (netStoich ns r).length) :
    (netStoich ns r)[k] = r.net k := by simp [netStoich]

theorem xprec_length (phases : List Nat) (r : Rxn) (x : Bool) :
    (xprecipitateStoich phases r x).length = phases.length := by simp [xprecipitateStoich]

theorem xprec_true_getElem (phases : List Nat) (r : Rxn) (k : Nat) (hk : k < phases.length) :
    (xprecipitateStoich phases r true)[k]'(by rw [xprec_length]; exact hk) =
      if phases[k] > 0 then r.netX k else 0 := by
  simp only [xprecipitateStoich, List.getElem_map, List.getElem_range, List.getElem?_eq_getElem hk]
  by_cases hp : phases[k] > 0 <;> simp [hp]

/-- `findNonzero` started with `found = -1`: either nothing non-zero (`-1`) or the unique non-zero position;
    started with a position already found it only succeeds when everything else is zero -/
theorem findNonzero_spec : ∀ (net : List Int) (i : Nat) (found f : Int), findNonzero net i found = .ok f →
    (found ≠ -1 → f = found ∧ ∀ n ∈ net, n = 0) ∧
    (found = -1 → (f = -1 ∧ ∀ n ∈ net, n = 0) ∨
      ∃ j, ∃ hj : j < net.length, f = ((i + j : Nat) : Int) ∧ net[j] ≠ 0 ∧ ∀ j' (hj' : j' < net.length), j' ≠ j → net[j'] = 0)
  | [], i, found, f, h => by
    simp only [findNonzero, pure, Except.pure, Except.ok.injEq] at h
    subst h
    simp
  | n :: rest, i, found, f, h => by
    unfold findNonzero at h
    by_cases hn : n ≠ 0
    · rw [if_pos hn] at h
      by_cases hf : found = -1
      · rw [if_pos hf] at h
        have ih := (findNonzero_spec rest (i + 1) (i : Int) f h).1 (by omega)
        refine ⟨fun hne => absurd hf hne, fun _ => Or.inr ⟨0, by simp, by simpa using ih.1, by simpa using hn, ?_⟩⟩
        intro j' hj' hne
        cases j' with
        | zero => exact absurd rfl hne
        | succ j'' => simpa using ih.2 _ (List.getElem_mem (by simpa using hj'))
      · rw [if_neg hf] at h
        simp [throw, throwThe, MonadExceptOf.throw] at h
    · rw [if_neg hn] at h
      have hn0 : n = 0 := by simpa using hn
      have ih := findNonzero_spec rest (i + 1) found f h
      refine ⟨fun hne => ?_, fun hf => ?_⟩
      · obtain ⟨h1, h2⟩ := ih.1 hne
        exact ⟨h1, by simpa [hn0] using h2⟩
      · rcases ih.2 hf with ⟨h1, h2⟩ | ⟨j, hj, h1, h2, h3⟩
        · exact Or.inl ⟨h1, by simpa [hn0] using h2⟩
        · refine Or.inr ⟨j + 1, by simpa using hj, by rw [h1]; push_cast; ring, by simpa using h2, ?_⟩
          intro j' hj' hne
          cases j' with
          | zero => simpa using hn0
          | succ j'' => simpa using h3 j'' (by simpa using hj') (by omega)

theorem pyIndex_nonneg {β : Type} (l : List β) (i : Int) (h : 0 ≤ i) : pyIndex l i = l[i.toNat]? := by
  simp [pyIndex, h]

theorem pyIndex_neg_one {β : Type} (l : List β) : pyIndex l (-1) = l[l.length - 1]? ∨ pyIndex l (-1) = none := by
  unfold pyIndex
  by_cases h : 1 ≤ l.length <;> simp [h]

/-- the result of `precipitate_stoich`: `net` is the precipitate-only stoichiometry; a non-zero coefficient `s` sits at the
    unique position `idx ≥ 0` of a substance with `phase_idx > 0` whose net coefficient is `s`; otherwise `s = 0`. -/
theorem precipitateStoich_spec (phases : List Nat) (r : Rxn) (net : List Int) (s idx : Int)
    (h : precipitateStoich phases r = .ok (net, s, idx)) :
    net = xprecipitateStoich phases r true ∧
    (s ≠ 0 → 0 ≤ idx ∧ ∃ hk : idx.toNat < phases.length, phases[idx.toNat] > 0 ∧ r.net idx.toNat = s ∧
      ∀ j (hj : j < phases.length), j ≠ idx.toNat → phases[j] > 0 → r.net j = 0) := by
  unfold precipitateStoich at h
  simp only [bind, Except.bind] at h
  split at h
  · cases h
  · rename_i f hf
    split at h
    · simp [throw, throwThe, MonadExceptOf.throw] at h
    · rename_i s' hs'
      simp only [pure, Except.pure, Except.ok.injEq, Prod.mk.injEq] at h
      obtain ⟨rfl, rfl, rfl⟩ := h
      refine ⟨rfl, fun hs => ?_⟩
      have spec := (findNonzero_spec _ 0 (-1) f hf).2 rfl
      rcases spec with ⟨h1, h2⟩ | ⟨j, hj, h1, h2, h3⟩
      · -- nothing non-zero: the entry read is 0
        exfalso
        subst h1
        rcases pyIndex_neg_one (xprecipitateStoich phases r true) with h | h
        · rw [h] at hs'
          exact hs (h2 _ (List.mem_of_getElem? hs'))
        · rw [h] at hs'; cases hs'
      · have hjl : j < phases.length := by simpa [xprec_length] using hj
        have hf0 : f = (j : Int) := by simpa using h1
        subst hf0
        simp only [Int.toNat_natCast]
        refine ⟨by omega, hjl, ?_⟩
        rw [xprec_true_getElem phases r j hjl] at h2
        have hpos : phases[j] > 0 := by
          by_contra hp
          simp [hp] at h2
        refine ⟨hpos, ?_, ?_⟩
        · rw [pyIndex_nonneg _ _ (by omega)] at hs'
          simp only [Int.toNat_natCast] at hs'
          rw [List.getElem?_eq_getElem hj] at hs'
          have := Option.some.inj hs'
          rw [xprec_true_getElem phases r j hjl, if_pos hpos] at this
          rw [Rxn.net_eq_netX]; exact this
        · intro j' hj' hne hp
          have := h3 j' (by simpa [xprec_length] using hj') hne
          rw [xprec_true_getElem phases r j' hj', if_pos hp] at this
          rw [Rxn.net_eq_netX]; exact this

/-- scalar product of a balance row with a concentration vector -/
def dot (b c : List α) : α := (List.zipWith (· * ·) b c).sum

theorem dot_sub (f : α) : ∀ (b c : List α) (net : List Int), c.length = net.length →
    dot b (List.zipWith (fun ci ni => ci - f * ((ni : Int) : α)) c net) =
      dot b c - f * dot b (net.map fun n => ((n : Int) : α))
  | [], _, _, _ => by simp [dot]
  | _ :: _, [], [], _ => by simp [dot]
  | _ :: _, [], _ :: _, h => by simp at h
  | _ :: _, _ :: _, [], h => by simp at h
  | b :: bs, c :: cs, n :: ns, h => by
    have ih := dot_sub f bs cs ns (by simpa using h)
    simp only [dot, List.zipWith_cons_cons, List.sum_cons, List.map_cons] at ih ⊢
    rw [ih]; ring

/-- one `dissolved` iteration, unfolded -/
theorem dissolveStep_spec (phases : List Nat) (c c' : List α) (r : Rxn) (h : dissolveStep phases c r = .ok c') :
    (hasPrecipitates phases r = .ok false ∧ c' = c) ∨
    (hasPrecipitates phases r = .ok true ∧ ∃ net s idx cs, precipitateStoich phases r = .ok (net, s, idx) ∧ s ≠ 0 ∧
      pyIndex c idx = some cs ∧ c.length = phases.length ∧
      c' = List.zipWith (fun ci ni => ci - cs / ((s : Int) : α) * ((ni : Int) : α)) c (netStoich phases.length r)) := by
  unfold dissolveStep at h
  simp only [bind, Except.bind] at h
  split at h
  · cases h
  · rename_i hp hhp
    cases hp with
    | false =>
      simp only [Bool.false_eq_true, ↓reduceIte, pure, Except.pure, Except.ok.injEq] at h
      exact Or.inl ⟨hhp, h.symm⟩
    | true =>
      simp only [↓reduceIte] at h
      split at h
      · cases h
      · rename_i v hv
        obtain ⟨net, s, idx⟩ := v
        simp only at h
        split at h
        · simp [throw, throwThe, MonadExceptOf.throw] at h
        · rename_i cs hcs
          split_ifs at h with hs hl
          · simp only [pure, Except.pure, Except.ok.injEq] at h
            refine Or.inr ⟨hhp, net, s, idx, cs, hv, hs, hcs, ?_, h.symm⟩
            rw [netStoich_length] at hl
            exact not_not.mp hl

theorem dissolveStep_length (phases : List Nat) (c c' : List α) (r : Rxn) (h : dissolveStep phases c r = .ok c') :
    c'.length = c.length := by
  rcases dissolveStep_spec phases c c' r h with ⟨_, rfl⟩ | ⟨_, net, s, idx, cs, _, _, _, hl, rfl⟩
  · rfl
  · simp [netStoich_length, hl]

theorem dissolveStep_dot (phases : List Nat) (c c' : List α) (r : Rxn) (h : dissolveStep phases c r = .ok c')
    (b : List α) (hb : hasPrecipitates phases r = .ok true →
      dot b ((netStoich phases.length r).map fun n => ((n : Int) : α)) = 0) :
    dot b c' = dot b c := by
  rcases dissolveStep_spec phases c c' r h with ⟨_, rfl⟩ | ⟨hp, net, s, idx, cs, _, _, _, hl, rfl⟩
  · rfl
  · rw [dot_sub _ b c _ (by rw [netStoich_length]; exact hl), hb hp]; ring

/-- a step zeroes its own solid and keeps every other substance of a non-zero phase that was already zero -/
theorem dissolveStep_zero (phases : List Nat) (c c' : List α) (r : Rxn) (h : dissolveStep phases c r = .ok c')
    (j : Nat) (hj : j < phases.length) (hph : phases[j] > 0) :
    (c[j]? = some 0 → c'[j]? = some 0) ∧
    (hasPrecipitates phases r = .ok true → ∀ net s idx, precipitateStoich phases r = .ok (net, s, idx) →
      j = idx.toNat → c'[j]? = some 0) := by
  rcases dissolveStep_spec phases c c' r h with ⟨hp, rfl⟩ | ⟨hp, net, s, idx, cs, hps, hs, hcs, hl, rfl⟩
  · exact ⟨id, fun hp' => by rw [hp] at hp'; cases hp'⟩
  · obtain ⟨_, hspec⟩ := precipitateStoich_spec phases r net s idx hps
    obtain ⟨hidx, hk, hphk, hnet, hoth⟩ := hspec hs
    have hjc : j < c.length := by omega
    have hjn : j < (netStoich phases.length r).length := by rw [netStoich_length]; exact hj
    have hget : (List.zipWith (fun ci ni => ci - cs / ((s : Int) : α) * ((ni : Int) : α)) c (netStoich phases.length r))[j]? =
        some (c[j] - cs / ((s : Int) : α) * ((r.net j : Int) : α)) := by
      rw [List.getElem?_zipWith, List.getElem?_eq_getElem hjc, List.getElem?_eq_getElem hjn, netStoich_getElem]
    have hsα : ((s : Int) : α) ≠ 0 := by exact_mod_cast hs
    have own : j = idx.toNat → (List.zipWith (fun ci ni => ci - cs / ((s : Int) : α) * ((ni : Int) : α)) c
        (netStoich phases.length r))[j]? = some 0 := by
      intro hji
      rw [hget]
      rw [pyIndex_nonneg _ _ hidx, ← hji, List.getElem?_eq_getElem hjc] at hcs
      have hcs' : c[j] = cs := Option.some.inj hcs
      subst hji
      rw [hnet, hcs']
      congr 1
      field_simp
      ring
    refine ⟨fun hc0 => ?_, fun _ net' s' idx' hps' hji => ?_⟩
    · by_cases hji : j = idx.toNat
      · exact own hji
      · rw [hget, hoth j hj hji hph]
        rw [List.getElem?_eq_getElem hjc] at hc0
        simp [Option.some.inj hc0]
    · rw [hps] at hps'
      simp only [Except.ok.injEq, Prod.mk.injEq] at hps'
      obtain ⟨_, _, rfl⟩ := hps'
      exact own hji

theorem dissolved_length (phases : List Nat) : ∀ (rxns : List Rxn) (c c' : List α),
    dissolved phases rxns c = .ok c' → c'.length = c.length
  | [], c, c', h => by
    simp only [dissolved, pure, Except.pure, Except.ok.injEq] at h
    rw [h]
  | r :: rs, c, c', h => by
    simp only [dissolved, bind, Except.bind] at h
    split at h
    · cases h
    · rename_i c1 h1
      rw [dissolved_length phases rs c1 c' h, dissolveStep_length phases c c1 r h1]

theorem dissolved_dot (phases : List Nat) (b : List α) : ∀ (rxns : List Rxn) (c c' : List α),
    dissolved phases rxns c = .ok c' →
    (∀ r ∈ rxns, hasPrecipitates phases r = .ok true →
      dot b ((netStoich phases.length r).map fun n => ((n : Int) : α)) = 0) →
    dot b c' = dot b c
  | [], c, c', h, _ => by
    simp only [dissolved, pure, Except.pure, Except.ok.injEq] at h
    rw [h]
  | r :: rs, c, c', h, hb => by
    simp only [dissolved, bind, Except.bind] at h
    split at h
    · cases h
    · rename_i c1 h1
      rw [dissolved_dot phases b rs c1 c' h (fun r' hr' => hb r' (List.mem_cons_of_mem _ hr')),
        dissolveStep_dot phases c c1 r h1 b (hb r (by simp))]

theorem dissolved_keeps_zero (phases : List Nat) (j : Nat) (hj : j < phases.length) (hph : phases[j] > 0) :
    ∀ (rxns : List Rxn) (c c' : List α), dissolved phases rxns c = .ok c' → c[j]? = some 0 → c'[j]? = some 0
  | [], c, c', h, h0 => by
    simp only [dissolved, pure, Except.pure, Except.ok.injEq] at h
    rw [← h]; exact h0
  | r :: rs, c, c', h, h0 => by
    simp only [dissolved, bind, Except.bind] at h
    split at h
    · cases h
    · rename_i c1 h1
      exact dissolved_keeps_zero phases j hj hph rs c1 c' h ((dissolveStep_zero phases c c1 r h1 j hj hph).1 h0)

theorem dissolved_zeroes (phases : List Nat) : ∀ (rxns : List Rxn) (c c' : List α),
    dissolved phases rxns c = .ok c' →
    ∀ r ∈ rxns, hasPrecipitates phases r = .ok true → ∀ net s idx, precipitateStoich phases r = .ok (net, s, idx) →
      c'[idx.toNat]? = some 0
  | [], _, _, _, r, hr => by simp at hr
  | r0 :: rs, c, c', h, r, hr => by
    intro hp net s idx hps
    simp only [dissolved, bind, Except.bind] at h
    split at h
    · cases h
    · rename_i c1 h1
      rcases List.mem_cons.mp hr with rfl | hr'
      · -- the step for `r` itself zeroes its solid; later steps keep it
        rcases dissolveStep_spec phases c c1 r h1 with ⟨hp', _⟩ | ⟨_, net', s', idx', cs, hps', hs', _, _, _⟩
        · rw [hp] at hp'; cases hp'
        · rw [hps] at hps'
          simp only [Except.ok.injEq, Prod.mk.injEq] at hps'
          obtain ⟨rfl, rfl, rfl⟩ := hps'
          obtain ⟨_, hspec⟩ := precipitateStoich_spec phases r net s idx hps
          obtain ⟨_, hk, hphk, _, _⟩ := hspec hs'
          have hz := (dissolveStep_zero phases c c1 r h1 idx.toNat hk hphk).2 hp net s idx hps rfl
          exact dissolved_keeps_zero phases idx.toNat hk hphk rs c1 c' h hz
      · exact dissolved_zeroes phases rs c1 c' h r hr' hp net s idx hps

/-! ### equilibrium quotient, switch conditions -/

theorem npow_eq_pow (x : α) (n : Nat) : Num.npow x n = x ^ n := by
  induction n with
  | zero => simp [Num.npow]
  | succ n ih => simp [Num.npow, ih, pow_succ]

theorem pyPow_ok (x : α) (n : Int) (v : α) (h : pyPow x n = .ok v) : v = x ^ n ∧ (x = 0 → 0 ≤ n) := by
  unfold pyPow at h
  by_cases hn : 0 ≤ n
  · simp only [hn, ↓reduceIte, pure, Except.pure, Except.ok.injEq] at h
    refine ⟨?_, fun _ => hn⟩
    rw [← h, npow_eq_pow]
    conv_rhs => rw [← Int.toNat_of_nonneg hn]
    exact (zpow_natCast x n.toNat).symm
  · simp only [hn, ↓reduceIte, Nat.cast_zero, Nat.cast_one] at h
    by_cases hx : x = 0
    · simp [hx, throw, throwThe, MonadExceptOf.throw] at h
    · simp only [hx, ↓reduceIte, pure, Except.pure, Except.ok.injEq] at h
      refine ⟨?_, fun h0 => absurd h0 hx⟩
      rw [← h, npow_eq_pow]
      have : n = -((n.natAbs : Nat) : Int) := by omega
      conv_rhs => rw [this]
      rw [zpow_neg, zpow_natCast, one_div]

/-- the mathematical reading of `equilibrium_quotient`: `∏ cᵢ ^ νᵢ` -/
def quotient (concs : List α) (stoich : List Int) : α := (List.zipWith (fun c (n : Int) => c ^ n) concs stoich).prod

theorem eqQuotientGo_ok : ∀ (stoich : List Int) (concs : List α) (tot v : α),
    eqQuotientGo tot stoich concs = .ok v → v = tot * quotient concs stoich
  | [], _, tot, v, h => by
    simp only [eqQuotientGo, pure, Except.pure, Except.ok.injEq] at h
    simp [quotient, h]
  | _ :: _, [], tot, v, h => by
    simp only [eqQuotientGo, pure, Except.pure, Except.ok.injEq] at h
    simp [quotient, h]
  | n :: ss, c :: cs, tot, v, h => by
    simp only [eqQuotientGo, bind, Except.bind] at h
    split at h
    · cases h
    · rename_i p hp
      have := eqQuotientGo_ok ss cs (tot * p) v h
      rw [this, (pyPow_ok c n p hp).1]
      simp only [quotient, List.zipWith_cons_cons, List.prod_cons]
      ring

theorem eqQuotient_ok (concs : List α) (stoich : List Int) (v : α) (h : eqQuotient concs stoich = .ok v) :
    v = quotient concs stoich := by
  have := eqQuotientGo_ok stoich concs _ v h
  simpa using this

theorem fwCond_spec (rtol : α) (phases : List Nat) (rxns : List Rxn) (r : Rxn) (k : α) (x : List α) (b : Bool)
    (h : fwCond rtol phases rxns r k x = .ok b) :
    ∃ net s idx d q, precipitateStoich phases r = .ok (net, s, idx) ∧ dissolved phases rxns x = .ok d ∧
      rxnQ phases r d = .ok q ∧
      ((0 < s ∧ (b = true ↔ q * (1 + rtol) < k)) ∨ (s < 0 ∧ (b = true ↔ k * (1 + rtol) < q))) := by
  unfold fwCond at h
  simp only [bind, Except.bind] at h
  split at h
  · cases h
  · rename_i v hv
    obtain ⟨net, s, idx⟩ := v
    simp only at h
    split at h
    · cases h
    · rename_i d hd
      split at h
      · cases h
      · rename_i q hq
        refine ⟨net, s, idx, d, q, hv, hd, hq, ?_⟩
        by_cases hs : s > 0
        · simp only [hs, ↓reduceIte, pure, Except.pure, Except.ok.injEq, Nat.cast_one] at h
          exact Or.inl ⟨hs, by rw [← h]; simp⟩
        · by_cases hs' : s < 0
          · simp only [hs, hs', ↓reduceIte, pure, Except.pure, Except.ok.injEq, Nat.cast_one] at h
            exact Or.inr ⟨hs', by rw [← h]; simp⟩
          · simp [hs, hs', throw, throwThe, MonadExceptOf.throw] at h

theorem bwCond_spec (small : α) (phases : List Nat) (r : Rxn) (x : List α) (b : Bool)
    (h : bwCond small phases r x = .ok b) :
    ∃ net s idx xi, precipitateStoich phases r = .ok (net, s, idx) ∧ pyIndex x idx = some xi ∧
      (b = true ↔ small ≤ xi) := by
  unfold bwCond at h
  simp only [bind, Except.bind] at h
  split at h
  · cases h
  · rename_i v hv
    obtain ⟨net, s, idx⟩ := v
    simp only at h
    split at h
    · simp [throw, throwThe, MonadExceptOf.throw] at h
    · rename_i xi hxi
      simp only [pure, Except.pure, Except.ok.injEq] at h
      refine ⟨net, s, idx, xi, hv, hxi, ?_⟩
      by_cases hlt : xi < small
      · simp only [hlt, ↓reduceIte] at h
        simp [← h, hlt]
      · simp only [hlt, ↓reduceIte] at h
        simp [← h, not_lt.mp hlt]

theorem mem_zipNotPrecip : ∀ (is : List Nat) (ps : List Bool) (i : Nat),
    i ∈ zipNotPrecip is ps ↔ ∃ j : Nat, is[j]? = some i ∧ ps[j]? = some false
  | [], _, i => by simp [zipNotPrecip]
  | _ :: _, [], i => by simp [zipNotPrecip]
  | a :: is, p :: ps, i => by
    have ih := mem_zipNotPrecip is ps i
    cases p with
    | true =>
      simp only [zipNotPrecip, ↓reduceIte, ih]
      constructor
      · rintro ⟨j, h1, h2⟩; exact ⟨j + 1, by simpa using h1, by simpa using h2⟩
      · rintro ⟨j, h1, h2⟩
        cases j with
        | zero => simp at h2
        | succ j => exact ⟨j, by simpa using h1, by simpa using h2⟩
    | false =>
      simp only [zipNotPrecip, Bool.false_eq_true, ↓reduceIte, List.mem_cons, ih]
      constructor
      · rintro (rfl | ⟨j, h1, h2⟩)
        · exact ⟨0, by simp, by simp⟩
        · exact ⟨j + 1, by simpa using h1, by simpa using h2⟩
      · rintro ⟨j, h1, h2⟩
        cases j with
        | zero => left; simpa using h1.symm
        | succ j => right; exact ⟨j, by simpa using h1, by simpa using h2⟩

theorem dot_extent (rc : α) : ∀ (b c0 : List α) (stoich : List Int), c0.length = stoich.length →
    dot b (extentState c0 stoich rc) = dot b c0 + rc * dot b (stoich.map fun n => ((n : Int) : α))
  | [], _, _, _ => by simp [dot]
  | _ :: _, [], [], _ => by simp [dot, extentState]
  | _ :: _, [], _ :: _, h => by simp at h
  | _ :: _, _ :: _, [], h => by simp at h
  | b :: bs, c :: cs, n :: ns, h => by
    have ih := dot_extent rc bs cs ns (by simpa using h)
    simp only [dot, extentState, List.zipWith_cons_cons, List.sum_cons, List.map_cons] at ih ⊢
    rw [ih]; ring

/-! ### the bracket of the scalar solver -/

theorem listMax_ge (a : α) (l : List α) : a ≤ listMax a l ∧ ∀ b ∈ l, b ≤ listMax a l := by
  induction l generalizing a with
  | nil => simp [listMax]
  | cons b l ih =>
    simp only [listMax, List.mem_cons, forall_eq_or_imp]
    obtain ⟨h1, h2⟩ := ih (if a < b then b else a)
    refine ⟨?_, ?_, h2⟩
    · by_cases hab : a < b
      · simp only [hab, ↓reduceIte] at h1 ⊢
        exact le_trans hab.le h1
      · simp only [hab, ↓reduceIte] at h1 ⊢
        exact h1
    · by_cases hab : a < b
      · simp only [hab, ↓reduceIte] at h1 ⊢
        exact h1
      · simp only [hab, ↓reduceIte] at h1 ⊢
        exact le_trans (not_lt.mp hab) h1

theorem listMax_mem (a : α) (l : List α) : listMax a l = a ∨ listMax a l ∈ l := by
  induction l generalizing a with
  | nil => simp [listMax]
  | cons b l ih =>
    simp only [listMax, List.mem_cons]
    rcases ih (if a < b then b else a) with h | h
    · by_cases hab : a < b
      · simp only [hab, ↓reduceIte] at h ⊢
        exact Or.inr (Or.inl h)
      · simp only [hab, ↓reduceIte] at h ⊢
        exact Or.inl h
    · exact Or.inr (Or.inr h)

theorem rcLimitsGo_spec : ∀ (stoich : List Int) (c0 limits : List α), stoich.length = c0.length →
    rcLimitsGo stoich c0 = .ok limits →
    limits.length = stoich.length ∧
    ∀ j (hs : j < stoich.length) (hc : j < c0.length) (hl : j < limits.length),
      stoich[j] ≠ 0 ∧ limits[j] = c0[j] / ((stoich[j] : Int) : α)
  | [], [], limits, _, h => by
    simp only [rcLimitsGo, pure, Except.pure, Except.ok.injEq] at h
    subst h; simp
  | [], _ :: _, _, hl, _ => by simp at hl
  | _ :: _, [], _, hl, _ => by simp at hl
  | s :: ss, c :: cs, limits, hl, h => by
    unfold rcLimitsGo at h
    by_cases hs0 : s = 0
    · simp [hs0, throw, throwThe, MonadExceptOf.throw] at h
    · simp only [hs0, ↓reduceIte, bind, Except.bind] at h
      split at h
      · cases h
      · rename_i rest hrest
        simp only [pure, Except.pure, Except.ok.injEq] at h
        subst h
        obtain ⟨ih1, ih2⟩ := rcLimitsGo_spec ss cs rest (by simpa using hl) hrest
        refine ⟨by simp [ih1], ?_⟩
        intro j hs hc hl'
        cases j with
        | zero => exact ⟨by simpa using hs0, by simp⟩
        | succ j =>
          simpa using ih2 j (by simpa using hs) (by simpa using hc) (by simpa using hl')

/-- everything the Props theorems need about `_get_rc_interval` -/
theorem getRcInterval_spec (stoich : List Int) (c0 : List α) (lo up : α)
    (h : getRcInterval stoich c0 = .ok (lo, up)) :
    ∃ hlen : stoich.length = c0.length, (∀ j (hj : j < stoich.length), stoich[j] ≠ 0) ∧
      lo ≤ 0 ∧ 0 ≤ up ∧ (lo ≠ 0 ∨ up ≠ 0) ∧
      (∀ j (hj : j < stoich.length), c0[j]'(hlen ▸ hj) / ((stoich[j] : Int) : α) < 0 →
        up ≤ -(c0[j]'(hlen ▸ hj) / ((stoich[j] : Int) : α))) ∧
      (∀ j (hj : j < stoich.length), 0 < c0[j]'(hlen ▸ hj) / ((stoich[j] : Int) : α) →
        -(c0[j]'(hlen ▸ hj) / ((stoich[j] : Int) : α)) ≤ lo) ∧
      ((∃ j, ∃ hj : j < stoich.length, c0[j]'(hlen ▸ hj) / ((stoich[j] : Int) : α) < 0) →
        ∃ j, ∃ hj : j < stoich.length, c0[j]'(hlen ▸ hj) / ((stoich[j] : Int) : α) < 0 ∧
          up = -(c0[j]'(hlen ▸ hj) / ((stoich[j] : Int) : α))) ∧
      ((∃ j, ∃ hj : j < stoich.length, 0 < c0[j]'(hlen ▸ hj) / ((stoich[j] : Int) : α)) →
        ∃ j, ∃ hj : j < stoich.length, 0 < c0[j]'(hlen ▸ hj) / ((stoich[j] : Int) : α) ∧
          lo = -(c0[j]'(hlen ▸ hj) / ((stoich[j] : Int) : α))) := by
  unfold getRcInterval at h
  simp only [bind, Except.bind] at h
  split at h
  · cases h
  · rename_i limits hlim
    unfold rcLimits at hlim
    by_cases hlen : stoich.length = c0.length
    swap
    · simp [hlen, throw, throwThe, MonadExceptOf.throw] at hlim
    simp only [hlen, ne_eq, not_true_eq_false, ↓reduceIte] at hlim
    obtain ⟨hll, hlj⟩ := rcLimitsGo_spec stoich c0 limits hlen hlim
    -- membership in `limits` <-> an index
    have mem_limits : ∀ v, v ∈ limits ↔ ∃ j, ∃ hj : j < stoich.length, v = c0[j]'(hlen ▸ hj) / ((stoich[j] : Int) : α) := by
      intro v
      constructor
      · intro hv
        obtain ⟨j, hj, rfl⟩ := List.getElem_of_mem hv
        exact ⟨j, by omega, (hlj j (by omega) (by omega) hj).2⟩
      · rintro ⟨j, hj, rfl⟩
        rw [← (hlj j hj (by omega) (by omega)).2]
        exact List.getElem_mem _
    simp only [Nat.cast_zero] at h
    -- the two ends
    generalize hneg : limits.filter (fun l => decide (l < 0)) = neg at h
    generalize hpos : limits.filter (fun l => decide (0 < l)) = pos at h
    have hnegmem : ∀ v, v ∈ neg ↔ v ∈ limits ∧ v < 0 := by intro v; rw [← hneg]; simp [List.mem_filter]
    have hposmem : ∀ v, v ∈ pos ↔ v ∈ limits ∧ 0 < v := by intro v; rw [← hpos]; simp [List.mem_filter]
    split_ifs at h with hzero
    simp only [pure, Except.pure, Except.ok.injEq, Prod.mk.injEq] at h
    obtain ⟨hlo, hup⟩ := h
    refine ⟨hlen, fun j hj => (hlj j hj (by omega) (by omega)).1, ?_, ?_, ?_, ?_, ?_, ?_, ?_⟩
    · -- lo ≤ 0
      rw [← hlo]
      cases pos with
      | nil => simp
      | cons a l =>
        simp only [neg_nonpos]
        rcases listMin_mem a l with hm | hm
        · rw [hm]; exact ((hposmem a).mp (by simp)).2.le
        · exact ((hposmem _).mp (List.mem_cons_of_mem _ hm)).2.le
    · -- 0 ≤ up
      rw [← hup]
      cases neg with
      | nil => simp
      | cons a l =>
        simp only [neg_nonneg]
        rcases listMax_mem a l with hm | hm
        · rw [hm]; exact ((hnegmem a).mp (by simp)).2.le
        · exact ((hnegmem _).mp (List.mem_cons_of_mem _ hm)).2.le
    · by_contra hcon
      push_neg at hcon
      exact hzero ⟨by rw [hlo]; exact hcon.1, by rw [hup]; exact hcon.2⟩
    · -- up is below every -limit of a negative limit
      intro j hj hlt
      have hv : c0[j]'(hlen ▸ hj) / ((stoich[j] : Int) : α) ∈ neg := (hnegmem _).mpr ⟨(mem_limits _).mpr ⟨j, hj, rfl⟩, hlt⟩
      rw [← hup]
      cases neg with
      | nil => simp at hv
      | cons a l =>
        simp only [neg_le_neg_iff]
        rcases List.mem_cons.mp hv with hv | hv
        · rw [hv]; exact (listMax_ge a l).1
        · exact (listMax_ge a l).2 _ hv
    · intro j hj hgt
      have hv : c0[j]'(hlen ▸ hj) / ((stoich[j] : Int) : α) ∈ pos := (hposmem _).mpr ⟨(mem_limits _).mpr ⟨j, hj, rfl⟩, hgt⟩
      rw [← hlo]
      cases pos with
      | nil => simp at hv
      | cons a l =>
        simp only [neg_le_neg_iff]
        rcases List.mem_cons.mp hv with hv | hv
        · rw [hv]; exact (listMin_le a l).1
        · exact (listMin_le a l).2 _ hv
    · rintro ⟨j, hj, hlt⟩
      have hv : c0[j]'(hlen ▸ hj) / ((stoich[j] : Int) : α) ∈ neg := (hnegmem _).mpr ⟨(mem_limits _).mpr ⟨j, hj, rfl⟩, hlt⟩
      rw [← hup]
      cases neg with
      | nil => simp at hv
      | cons a l =>
        have hm : listMax a l ∈ a :: l := by
          rcases listMax_mem a l with hm | hm
          · rw [hm]; simp
          · exact List.mem_cons_of_mem _ hm
        obtain ⟨hml, hm0⟩ := (hnegmem _).mp hm
        obtain ⟨j', hj', he⟩ := (mem_limits _).mp hml
        exact ⟨j', hj', he ▸ hm0, by simp only; rw [he]⟩
    · rintro ⟨j, hj, hgt⟩
      have hv : c0[j]'(hlen ▸ hj) / ((stoich[j] : Int) : α) ∈ pos := (hposmem _).mpr ⟨(mem_limits _).mpr ⟨j, hj, rfl⟩, hgt⟩
      rw [← hlo]
      cases pos with
      | nil => simp at hv
      | cons a l =>
        have hm : listMin a l ∈ a :: l := by
          rcases listMin_mem a l with hm | hm
          · rw [hm]; simp
          · exact List.mem_cons_of_mem _ hm
        obtain ⟨hml, hm0⟩ := (hposmem _).mp hm
        obtain ⟨j', hj', he⟩ := (mem_limits _).mp hml
        exact ⟨j', hj', he ▸ hm0, by simp only; rw [he]⟩

/-! ### round 3: interior of the bracket, strict monotonicity of the quotient, solid-free states -/

/-- strictly inside the bracket every concentration is strictly positive (strictly positive `c0`) -/
theorem rc_interval_interior_pos (stoich : List Int) (c0 : List α) (lo up : α)
    (h : getRcInterval stoich c0 = .ok (lo, up)) (hpos : ∀ v ∈ c0, 0 < v)
    (rc : α) (hlo : lo < rc) (hup : rc < up) (j : Nat) (hj : j < stoich.length) (hjc : j < c0.length) :
    0 < c0[j] + ((stoich[j] : Int) : α) * rc := by
  obtain ⟨hlen, hnz, _, _, _, hU, hL, _, _⟩ := getRcInterval_spec stoich c0 lo up h
  have hc : 0 < c0[j] := hpos _ (List.getElem_mem _)
  have hs : ((stoich[j] : Int) : α) ≠ 0 := by exact_mod_cast hnz j hj
  rcases lt_or_gt_of_ne hs with hneg | hposs
  · have hlim : c0[j] / ((stoich[j] : Int) : α) < 0 := div_neg_of_pos_of_neg hc hneg
    have h2 : rc < -(c0[j] / ((stoich[j] : Int) : α)) := lt_of_lt_of_le hup (hU j hj hlim)
    have h3 := mul_lt_mul_of_neg_left h2 hneg
    have h4 : ((stoich[j] : Int) : α) * -(c0[j] / ((stoich[j] : Int) : α)) = -c0[j] := by field_simp
    linarith
  · have hlim : 0 < c0[j] / ((stoich[j] : Int) : α) := div_pos hc hposs
    have h2 : -(c0[j] / ((stoich[j] : Int) : α)) < rc := lt_of_le_of_lt (hL j hj hlim) hlo
    have h3 := mul_lt_mul_of_pos_left h2 hposs
    have h4 : ((stoich[j] : Int) : α) * -(c0[j] / ((stoich[j] : Int) : α)) = -c0[j] := by field_simp
    linarith

theorem extentState_pos_of_interior (stoich : List Int) (c0 : List α) (lo up : α)
    (h : getRcInterval stoich c0 = .ok (lo, up)) (hpos : ∀ v ∈ c0, 0 < v)
    (rc : α) (hlo : lo < rc) (hup : rc < up) : ∀ v ∈ extentState c0 stoich rc, 0 < v := by
  intro v hv
  obtain ⟨j, hj, rfl⟩ := List.getElem_of_mem hv
  simp only [extentState, List.length_zipWith] at hj
  simp only [extentState, List.getElem_zipWith]
  exact rc_interval_interior_pos stoich c0 lo up h hpos rc hlo hup j (by omega) (by omega)

/-- one factor `(c + ν·rc)^ν` is strictly increasing in `rc` while the concentration stays positive (`ν ≠ 0`) -/
theorem factor_strictMono (c : α) (n : Int) (hn : n ≠ 0) (r1 r2 : α) (h12 : r1 < r2)
    (h1 : 0 < c + ((n : Int) : α) * r1) (h2 : 0 < c + ((n : Int) : α) * r2) :
    (c + ((n : Int) : α) * r1) ^ n < (c + ((n : Int) : α) * r2) ^ n := by
  rcases lt_or_gt_of_ne hn with hneg | hpos
  · have hnα : ((n : Int) : α) < 0 := by exact_mod_cast hneg
    have hlt : c + ((n : Int) : α) * r2 < c + ((n : Int) : α) * r1 := by
      have := mul_lt_mul_of_neg_left h12 hnα
      linarith
    have hm : (0 : Int) < -n := by omega
    have hp := zpow_lt_zpow_left₀ hm h2.le hlt
    have e : ∀ a : α, a ^ n = (a ^ (-n))⁻¹ := by intro a; rw [zpow_neg, inv_inv]
    rw [e, e, inv_lt_inv₀ (zpow_pos h1 _) (zpow_pos h2 _)]
    exact hp
  · have hnα : (0 : α) < ((n : Int) : α) := by exact_mod_cast hpos
    have hlt : c + ((n : Int) : α) * r1 < c + ((n : Int) : α) * r2 := by
      have := mul_lt_mul_of_pos_left h12 hnα
      linarith
    exact zpow_lt_zpow_left₀ hpos h1.le hlt

theorem quotient_cons (x : α) (xs : List α) (n : Int) (ns : List Int) :
    quotient (x :: xs) (n :: ns) = x ^ n * quotient xs ns := by
  simp [quotient]

/-- `Q(rc) = ∏ (c0ᵢ + νᵢ rc)^νᵢ` is positive and monotone — strictly for a non-empty reaction — along the reaction
    coordinate, between two coordinates at which all concentrations are positive (all `νᵢ ≠ 0`) -/
theorem quotient_extent_mono (r1 r2 : α) (h12 : r1 < r2) : ∀ (c0 : List α) (stoich : List Int),
    c0.length = stoich.length → (∀ n ∈ stoich, n ≠ 0) →
    (∀ v ∈ extentState c0 stoich r1, 0 < v) → (∀ v ∈ extentState c0 stoich r2, 0 < v) →
    0 < quotient (extentState c0 stoich r1) stoich ∧
    quotient (extentState c0 stoich r1) stoich ≤ quotient (extentState c0 stoich r2) stoich ∧
    (stoich ≠ [] → quotient (extentState c0 stoich r1) stoich < quotient (extentState c0 stoich r2) stoich)
  | [], [], _, _, _, _ => by simp [quotient, extentState]
  | [], _ :: _, h, _, _, _ => by simp at h
  | _ :: _, [], h, _, _, _ => by simp at h
  | c :: cs, n :: ns, hl, hnz, hp1, hp2 => by
    have hn : n ≠ 0 := hnz n (by simp)
    have e1 : extentState (c :: cs) (n :: ns) r1 = (c + ((n : Int) : α) * r1) :: extentState cs ns r1 := by simp [extentState]
    have e2 : extentState (c :: cs) (n :: ns) r2 = (c + ((n : Int) : α) * r2) :: extentState cs ns r2 := by simp [extentState]
    rw [e1] at hp1 ⊢
    rw [e2] at hp2 ⊢
    have h1 : 0 < c + ((n : Int) : α) * r1 := hp1 _ (by simp)
    have h2 : 0 < c + ((n : Int) : α) * r2 := hp2 _ (by simp)
    obtain ⟨ipos, ile, _⟩ := quotient_extent_mono r1 r2 h12 cs ns (by simpa using hl)
      (fun m hm => hnz m (List.mem_cons_of_mem _ hm)) (fun v hv => hp1 v (List.mem_cons_of_mem _ hv))
      (fun v hv => hp2 v (List.mem_cons_of_mem _ hv))
    have hf := factor_strictMono c n hn r1 r2 h12 h1 h2
    rw [quotient_cons, quotient_cons]
    have hlt : (c + ((n : Int) : α) * r1) ^ n * quotient (extentState cs ns r1) ns <
        (c + ((n : Int) : α) * r2) ^ n * quotient (extentState cs ns r2) ns :=
      mul_lt_mul hf ile ipos (zpow_pos h2 n).le
    exact ⟨mul_pos (zpow_pos h1 n) ipos, hlt.le, fun _ => hlt⟩

theorem equilibriumResidual_ok (rc : α) (c0 : List α) (stoich : List Int) (K v : α)
    (h : equilibriumResidual rc c0 stoich K = .ok v) :
    c0.length = stoich.length ∧ v = K - quotient (extentState c0 stoich rc) stoich := by
  unfold equilibriumResidual at h
  split_ifs at h with hl
  simp only [bind, Except.bind] at h
  split at h
  · cases h
  · rename_i q hq
    simp only [pure, Except.pure, Except.ok.injEq] at h
    exact ⟨not_not.mp hl, by rw [← h, eqQuotient_ok _ _ _ hq]⟩

/-- the residual is defined (no ZeroDivisionError) wherever all concentrations along the coordinate are non-zero -/
theorem eqQuotientGo_defined : ∀ (stoich : List Int) (concs : List α) (tot : α),
    (∀ v ∈ concs, v ≠ 0) → ∃ q, eqQuotientGo tot stoich concs = .ok q
  | [], _, tot, _ => ⟨tot, by simp [eqQuotientGo, pure, Except.pure]⟩
  | _ :: _, [], tot, _ => ⟨tot, by simp [eqQuotientGo, pure, Except.pure]⟩
  | n :: ss, c :: cs, tot, h => by
    have hc : c ≠ 0 := h c (by simp)
    have hp : ∃ p, pyPow c n = .ok p := by
      unfold pyPow
      by_cases hn : 0 ≤ n
      · exact ⟨Num.npow c n.toNat, by simp [hn, pure, Except.pure]⟩
      · exact ⟨((1 : Nat) : α) / Num.npow c n.natAbs, by simp [hn, hc, pure, Except.pure]⟩
    obtain ⟨p, hp⟩ := hp
    obtain ⟨q, hq⟩ := eqQuotientGo_defined ss cs (tot * p) (fun v hv => h v (List.mem_cons_of_mem _ hv))
    exact ⟨q, by simp [eqQuotientGo, bind, Except.bind, hp, hq]⟩

theorem equilibriumResidual_defined (rc : α) (c0 : List α) (stoich : List Int) (K : α)
    (hl : c0.length = stoich.length) (hnz : ∀ v ∈ extentState c0 stoich rc, v ≠ 0) :
    ∃ v, equilibriumResidual rc c0 stoich K = .ok v := by
  obtain ⟨q, hq⟩ := eqQuotientGo_defined stoich (extentState c0 stoich rc) ((1 : Nat) : α) hnz
  refine ⟨K - q, ?_⟩
  unfold equilibriumResidual eqQuotient
  rw [if_neg (by simpa using hl)]
  simp only [bind, Except.bind, hq, pure, Except.pure]

theorem zipWith_left_id {β γ : Type} : ∀ (c : List β) (n : List γ), c.length = n.length →
    List.zipWith (fun a _ => a) c n = c
  | [], [], _ => rfl
  | [], _ :: _, h => by simp at h
  | _ :: _, [], h => by simp at h
  | a :: c, _ :: n, h => by simp [zipWith_left_id c n (by simpa using h)]

/-- `dissolved` changes nothing when every solid of a phase-transfer reaction is already absent -/
theorem dissolved_of_solids_zero (phases : List Nat) (x : List α) : ∀ (rxns : List Rxn) (d : List α),
    dissolved phases rxns x = .ok d →
    (∀ r ∈ rxns, hasPrecipitates phases r = .ok true → ∀ net s idx, precipitateStoich phases r = .ok (net, s, idx) →
      pyIndex x idx = some 0) → d = x
  | [], d, h, _ => by
    simp only [dissolved, pure, Except.pure, Except.ok.injEq] at h
    exact h.symm
  | r :: rs, d, h, hz => by
    simp only [dissolved, bind, Except.bind] at h
    split at h
    · cases h
    · rename_i c1 h1
      have hc1 : c1 = x := by
        rcases dissolveStep_spec phases x c1 r h1 with ⟨_, rfl⟩ | ⟨hp, net, s, idx, cs, hps, hs, hcs, hl, rfl⟩
        · rfl
        · have h0 := hz r (by simp) hp net s idx hps
          rw [hcs] at h0
          have hcs0 : cs = 0 := Option.some.inj h0
          subst hcs0
          simp only [zero_div, zero_mul, sub_zero]
          exact zipWith_left_id x _ (by rw [netStoich_length]; exact hl)
      subst hc1
      exact dissolved_of_solids_zero phases c1 rs d h (fun r' hr' => hz r' (List.mem_cons_of_mem _ hr'))

/-- defaults in the source (`_result_is_sane(..., rtol=1e-9)`, `_fw_cond_factory(ri, rtol=1e-14)`): the model constants; the tie to
    the source is the correspondence (`sane:default-*`, `fw:default-*` buckets) -/
theorem default_rtols : (saneRtolDefault : ℚ) = 1 / 10 ^ 9 ∧ (fwRtolDefault : ℚ) = 1 / 10 ^ 14 := by
  constructor <;> decide +kernel

/-- `getRcInterval` returns (does not raise "0-interval") for strictly positive concentrations of a non-empty reaction -/
theorem rcLimitsGo_defined : ∀ (stoich : List Int) (c0 : List α), stoich.length = c0.length → (∀ n ∈ stoich, n ≠ 0) →
    ∃ l, rcLimitsGo stoich c0 = .ok l
  | [], [], _, _ => ⟨[], by simp [rcLimitsGo, pure, Except.pure]⟩
  | [], _ :: _, h, _ => by simp at h
  | _ :: _, [], h, _ => by simp at h
  | s :: ss, c :: cs, h, hnz => by
    obtain ⟨l, hl⟩ := rcLimitsGo_defined ss cs (by simpa using h) (fun n hn => hnz n (List.mem_cons_of_mem _ hn))
    exact ⟨c / ((s : Int) : α) :: l, by simp [rcLimitsGo, hnz s (by simp), hl, bind, Except.bind, pure, Except.pure]⟩

theorem getRcInterval_defined (stoich : List Int) (c0 : List α) (hlen : stoich.length = c0.length)
    (hne : stoich ≠ []) (hnz : ∀ n ∈ stoich, n ≠ 0) (hpos : ∀ v ∈ c0, 0 < v) :
    ∃ lo up, getRcInterval stoich c0 = .ok (lo, up) := by
  obtain ⟨limits, hlim⟩ := rcLimitsGo_defined stoich c0 hlen hnz
  obtain ⟨hll, hlj⟩ := rcLimitsGo_spec stoich c0 limits hlen hlim
  have h0s : 0 < stoich.length := List.length_pos_iff.mpr hne
  have hl0 := (hlj 0 h0s (by omega) (by omega)).2
  have hc0 : (0 : α) < c0[0]'(by omega) := hpos _ (List.getElem_mem _)
  have hs0 : ((stoich[0] : Int) : α) ≠ 0 := by exact_mod_cast hnz _ (List.getElem_mem h0s)
  have hmem : limits[0]'(by omega) ∈ limits := List.getElem_mem _
  have hne0 : limits[0]'(by omega) ≠ 0 := by rw [hl0]; exact div_ne_zero hc0.ne' hs0
  unfold getRcInterval rcLimits
  simp only [hlen, ne_eq, not_true_eq_false, ↓reduceIte, hlim, bind, Except.bind, Nat.cast_zero]
  generalize hneg : limits.filter (fun l => decide (l < 0)) = neg
  generalize hposl : limits.filter (fun l => decide (0 < l)) = pos
  have hnegmem : ∀ v, v ∈ neg ↔ v ∈ limits ∧ v < 0 := by intro v; rw [← hneg]; simp [List.mem_filter]
  have hposmem : ∀ v, v ∈ pos ↔ v ∈ limits ∧ 0 < v := by intro v; rw [← hposl]; simp [List.mem_filter]
  split_ifs with hz
  · exfalso
    rcases lt_or_gt_of_ne hne0 with hlt | hgt
    · have hv := (hnegmem _).mpr ⟨hmem, hlt⟩
      cases neg with
      | nil => simp at hv
      | cons a l =>
        have hm : listMax a l ∈ a :: l := by
          rcases listMax_mem a l with hm | hm
          · rw [hm]; simp
          · exact List.mem_cons_of_mem _ hm
        have := ((hnegmem _).mp hm).2
        have h2 := hz.2
        simp only [neg_eq_zero] at h2
        exact absurd h2 this.ne
    · have hv := (hposmem _).mpr ⟨hmem, hgt⟩
      cases pos with
      | nil => simp at hv
      | cons a l =>
        have hm : listMin a l ∈ a :: l := by
          rcases listMin_mem a l with hm | hm
          · rw [hm]; simp
          · exact List.mem_cons_of_mem _ hm
        have := ((hposmem _).mp hm).2
        have h1 := hz.1
        simp only [neg_eq_zero] at h1
        exact absurd h1 this.ne'
  · exact ⟨_, _, rfl⟩

/-! ### round 4: `per_substance_varied` -/

theorem pyListIndex_of_getElem? : ∀ (l : List Nat) (a j : Nat), l.Nodup → l[a]? = some j → pyListIndex l j = some a
  | [], a, j, _, h => by simp at h
  | b :: l, 0, j, _, h => by
    simp only [List.getElem?_cons_zero, Option.some.injEq] at h
    simp [pyListIndex, h]
  | b :: l, a + 1, j, hnd, h => by
    simp only [List.getElem?_cons_succ] at h
    have hnd' := List.nodup_cons.mp hnd
    have hjl : j ∈ l := List.mem_of_getElem? h
    have hbj : b ≠ j := fun e => hnd'.1 (e ▸ hjl)
    simp [pyListIndex, hbj, pyListIndex_of_getElem? l a j hnd'.2 h]

/-- the fold over the user's dict: entries of untouched substances keep the running row; every varied substance (distinct keys)
    ends up with the level selected by the index on ITS axis -/
theorem gridPoint_spec {β : Type} (keys idx : List Nat) (hnd : keys.Nodup) : ∀ (varied : List (Nat × List β)) (row : List β),
    varied.Pairwise (fun p q => p.1 ≠ q.1) →
    (∀ kv ∈ varied, ∃ (a i : Nat) (v : β), keys[a]? = some kv.1 ∧ idx[a]? = some i ∧ kv.2[i]? = some v) →
    ∃ out, gridPoint keys idx row varied = .ok out ∧ out.length = row.length ∧
      (∀ j, (∀ kv ∈ varied, kv.1 ≠ j) → out[j]? = row[j]?) ∧
      (∀ kv ∈ varied, ∀ (a i : Nat) (v : β), keys[a]? = some kv.1 → idx[a]? = some i → kv.2[i]? = some v → kv.1 < row.length →
        out[kv.1]? = some v)
  | [], row, _, _ => ⟨row, by simp [gridPoint, pure, Except.pure]⟩
  | kv :: rest, row, hpw, hk => by
    obtain ⟨a, i, v, ha, hi, hv⟩ := hk kv (by simp)
    have hstep : gridStep keys idx row kv = .ok (row.set kv.1 v) := by
      simp [gridStep, pyListIndex_of_getElem? keys a kv.1 hnd ha, hi, hv, pure, Except.pure]
    have hpw' := List.pairwise_cons.mp hpw
    obtain ⟨out, hout, hlen, hun, hva⟩ := gridPoint_spec keys idx hnd rest (row.set kv.1 v) hpw'.2
      (fun kv' hkv' => hk kv' (List.mem_cons_of_mem _ hkv'))
    refine ⟨out, by simp [gridPoint, hstep, bind, Except.bind, hout], by simpa using hlen, ?_, ?_⟩
    · intro j hj
      have hne : kv.1 ≠ j := hj kv (by simp)
      rw [hun j (fun kv' hkv' => hj kv' (List.mem_cons_of_mem _ hkv')), List.getElem?_set_ne hne]
    · intro kv' hkv' a' i' v' ha' hi' hv' hlt
      rcases List.mem_cons.mp hkv' with rfl | hin
      · -- the head: written now, untouched by the rest (distinct keys)
        rw [hun kv'.1 (fun q hq => (hpw'.1 q hq).symm)]
        have ea : a' = a := by
          have h1 := pyListIndex_of_getElem? keys a kv'.1 hnd ha
          have h2 := pyListIndex_of_getElem? keys a' kv'.1 hnd ha'
          rw [h1] at h2; exact (Option.some.inj h2).symm
        subst ea
        rw [hi] at hi'; cases hi'
        rw [hv] at hv'; cases hv'
        simp [List.getElem?_set_self hlt]
      · exact hva kv' hin a' i' v' ha' hi' hv' (by simpa using hlt)

theorem variedKeys_nodup {β : Type} (ns : Nat) (varied : List (Nat × β)) : (variedKeys ns varied).Nodup :=
  List.Nodup.sublist List.filter_sublist List.nodup_range

theorem variedKeys_sorted {β : Type} (ns : Nat) (varied : List (Nat × β)) : (variedKeys ns varied).Pairwise (· < ·) :=
  List.Pairwise.filter _ List.pairwise_lt_range

theorem mem_variedKeys {β : Type} (ns : Nat) (varied : List (Nat × β)) (j : Nat) :
    j ∈ variedKeys ns varied ↔ j < ns ∧ ∃ kv ∈ varied, kv.1 = j := by
  simp [variedKeys, List.mem_filter, List.mem_range]

theorem lookup_of_pairwise {β : Type} : ∀ (varied : List (Nat × β)) (kv : Nat × β),
    varied.Pairwise (fun p q => p.1 ≠ q.1) → kv ∈ varied → varied.lookup kv.1 = some kv.2
  | [], kv, _, h => by simp at h
  | p :: rest, kv, hpw, h => by
    have hpw' := List.pairwise_cons.mp hpw
    rcases List.mem_cons.mp h with rfl | hin
    · simp [List.lookup]
    · have hne : kv.1 ≠ p.1 := (hpw'.1 kv hin).symm
      have : (kv.1 == p.1) = false := by simpa using hne
      simp [List.lookup, this, lookup_of_pairwise rest kv hpw'.2 hin]

/-! ### round 7: activity product, several reactions, 2-d concentrations -/

theorem equilibriumResidualWith_ok (act : List α → Except Err α) (rc : α) (c0 : List α) (stoich : List Int) (K v : α)
    (h : equilibriumResidualWith act rc c0 stoich K = .ok v) :
    c0.length = stoich.length ∧ ∃ g, act (extentState c0 stoich rc) = .ok g ∧
      v = K - quotient (extentState c0 stoich rc) stoich * g := by
  unfold equilibriumResidualWith at h
  split_ifs at h with hl
  simp only [bind, Except.bind] at h
  split at h
  · cases h
  · rename_i q hq
    split at h
    · cases h
    · rename_i g hg
      simp only [pure, Except.pure, Except.ok.injEq] at h
      exact ⟨not_not.mp hl, g, hg, by rw [← h, eqQuotient_ok _ _ _ hq]⟩

theorem equilibriumResidualMulti_ok (rc c0 : List α) (stoich : List (List Int)) (K vs : List α)
    (h : equilibriumResidualMulti rc c0 stoich K = .ok vs) :
    c0.length = stoich.length ∧ K.length = rc.length ∧ vs.length = rc.length ∧
    ∀ r (hr : r < rc.length) (hk : r < K.length) (hv : r < vs.length),
      vs[r] = K[r] - quotient (extentStateMulti c0 stoich rc) (stoichColumn stoich r) := by
  unfold equilibriumResidualMulti at h
  split_ifs at h with hbad
  have hbad' := not_or.mp hbad
  have hbad'' := not_or.mp hbad'.2
  have hc : c0.length = stoich.length := not_not.mp hbad'.1
  have hK : K.length = rc.length := not_not.mp hbad''.2
  have hf := mapM_ok _ _ h
  have hlen := hf.length_eq
  simp only [List.length_zip, List.length_range, hK, Nat.min_self] at hlen
  refine ⟨hc, hK, hlen.symm, ?_⟩
  intro r hr hk hv
  have := (List.forall₂_iff_get.mp hf).2 r (by simp [hK, hr]) hv
  simp only [List.get_eq_getElem, List.getElem_zip, List.getElem_range, bind, Except.bind] at this
  split at this
  · cases this
  · rename_i q hq
    simp only [pure, Except.pure, Except.ok.injEq] at this
    rw [← this, eqQuotient_ok _ _ _ hq]

theorem eqQuotientRows_ok (concs : List (List α)) (stoich : List Int) (qs : List α)
    (h : eqQuotientRows concs stoich = .ok qs) :
    qs.length = concs.length ∧ ∀ i (hi : i < concs.length) (hq : i < qs.length), qs[i] = quotient concs[i] stoich := by
  have hf := mapM_ok _ _ h
  refine ⟨hf.length_eq.symm, fun i hi hq => ?_⟩
  have := (List.forall₂_iff_get.mp hf).2 i hi hq
  simp only [List.get_eq_getElem] at this
  exact eqQuotient_ok _ _ _ this

/-! ### round 9: NaN entries -/

theorem tooMuchNan_map_some (rtol : α) : ∀ (x : List α) (ub : List (Option α)),
    tooMuchNan rtol (x.map some) ub = tooMuch rtol x ub
  | [], _ => by simp [tooMuchNan, tooMuch]
  | _ :: _, [] => by simp [tooMuchNan, tooMuch]
  | x :: xs, b :: bs => by
    simp only [List.map_cons, tooMuchNan, tooMuch, tooMuchNan_map_some rtol xs bs]
    cases b <;> rfl

/-- on arrays without NaN the NaN-aware model is the plain one -/
theorem resultIsSaneNan_map_some (rtol : α) (comps : List (Comp α)) (init x : List α) :
    resultIsSaneNan rtol comps init (x.map some) = resultIsSane rtol comps init x := by
  unfold resultIsSaneNan resultIsSane
  cases upperConcBounds comps init with
  | error e => rfl
  | ok ub =>
    simp only [bind, Except.bind, List.length_map, tooMuchNan_map_some, List.any_map]
    rfl

/-! ### round 11: internal starting point of the linear formulation -/

theorem dot_convex (w1 w2 : α) : ∀ (b c d : List α), c.length = d.length →
    dot b (List.zipWith (fun x y => (w1 * x + y) / w2) c d) = (w1 * dot b c + dot b d) / w2
  | [], _, _, _ => by simp [dot]
  | _ :: _, [], [], _ => by simp [dot]
  | _ :: _, [], _ :: _, h => by simp at h
  | _ :: _, _ :: _, [], h => by simp at h
  | b :: bs, c :: cs, d :: ds, h => by
    have ih := dot_convex w1 w2 bs cs ds (by simpa using h)
    simp only [dot, List.zipWith_cons_cons, List.sum_cons] at ih ⊢
    rw [ih]; ring

theorem linInternalX0_ok (phases : List Nat) (rxns : List Rxn) (c0 x0 : List α) (h : linInternalX0 phases rxns c0 = .ok x0) :
    ∃ d, dissolved phases rxns c0 = .ok d ∧ d.length = c0.length ∧
      x0 = List.zipWith (fun c dv => (99 * c + dv) / 100) c0 d := by
  unfold linInternalX0 at h
  simp only [bind, Except.bind] at h
  split at h
  · cases h
  · rename_i d hd
    simp only [pure, Except.pure, Except.ok.injEq] at h
    exact ⟨d, hd, dissolved_length phases rxns c0 d hd, by rw [← h]; simp⟩

end ChemModel.EqSolve
