/-
C01 helper lemmas: the text of a well-formed formula before its suffix never itself ends in one of the
default phase suffixes `(s) (l) (g) (aq)` — so the suffix loop strips exactly the written suffix.
-/
import ChemModel.Proofs.FormulaRoundTrip

set_option linter.constructorNameAsVariable false

namespace ChemModel.Formula
open ChemModel.Gen

/-! ### table facts -/

def suffixShape (s : List Char) : Bool :=
  match s with
  | '(' :: r => (match r.reverse with
    | ')' :: wr => !wr.isEmpty && wr.all Char.isLower
    | _ => false)
  | _ => false

/-- every default suffix is `(` lowercase-letters `)` -/
theorem suffixes_shape : suffixesL.all suffixShape = true := by decide +kernel

/-- no default suffix is a final segment of `(cr)` or vice versa -/
theorem suffixes_vs_cr : suffixesL.all (fun s => decide (SuffIncomp s ['(', 'c', 'r', ')'])) = true := by decide +kernel

theorem suffix_shape_of_mem (s : List Char) (h : s ∈ suffixesL) :
    ∃ w, s = '(' :: (w ++ [')']) ∧ w ≠ [] ∧ ∀ c ∈ w, c.isLower = true := by
  have hb := List.all_eq_true.mp suffixes_shape s h
  unfold suffixShape at hb
  split at hb
  · rename_i r
    split at hb
    · rename_i wr hr
      simp only [Bool.and_eq_true, Bool.not_eq_true', List.all_eq_true, List.isEmpty_eq_false_iff] at hb
      refine ⟨wr.reverse, ?_, ?_, ?_⟩
      · have : r = (')' :: wr).reverse := by rw [← hr, List.reverse_reverse]
        rw [this]; simp
      · intro e; exact hb.1 (by simpa using e)
      · intro c hc; exact hb.2 c (by simpa using hc)
    · simp at hb
  · simp at hb

/-! ### last characters -/

theorem suffix_last {s b : List Char} {c d : Char} (h : s ++ [c] <:+ b ++ [d]) : c = d := by
  have := List.reverse_prefix.mpr h
  simp only [List.reverse_append, List.reverse_cons, List.reverse_nil, List.nil_append, List.cons_append,
    List.cons_prefix_cons] at this
  exact this.1

theorem suffix_concat {s b : List Char} {c : Char} (h : s ++ [c] <:+ b ++ [c]) : s <:+ b := by
  have := List.reverse_prefix.mpr h
  simp only [List.reverse_append, List.reverse_cons, List.reverse_nil, List.nil_append, List.cons_append,
    List.cons_prefix_cons] at this
  exact List.reverse_prefix.mp this.2

/-- a default suffix cannot end a text whose last character is not ')' -/
theorem no_suffix_of_last (s : List Char) (hs : s ∈ suffixesL) (b : List Char) (d : Char) (hd : d ≠ ')') :
    ¬ s <:+ b ++ [d] := by
  obtain ⟨w, rfl, _, _⟩ := suffix_shape_of_mem s hs
  intro h
  have : '(' :: (w ++ [')']) = ('(' :: w) ++ [')'] := by simp
  rw [this] at h
  exact hd (suffix_last h).symm

/-! ### the invariant `Q`: stripping trailing lowercase letters does not uncover '(' -/

def Q (s : List Char) : Prop := ∃ c rest, s.reverse.dropWhile Char.isLower = c :: rest ∧ c ≠ '('

theorem Q_append_right (a b : List Char) (h : Q b) : Q (a ++ b) := by
  obtain ⟨c, rest, he, hc⟩ := h
  refine ⟨c, rest ++ a.reverse, ?_, hc⟩
  rw [List.reverse_append, List.dropWhile_append, he]; simp

theorem Q_of_last (a : List Char) (c : Char) (h1 : c.isLower = false) (h2 : c ≠ '(') : Q (a ++ [c]) := by
  refine ⟨c, a.reverse, ?_, h2⟩
  simp [List.dropWhile, h1]

theorem Q_sym {z : Nat} (h1 : 1 ≤ z) (h2 : z ≤ 118) : Q (symChars z) := by
  have hs := symOK h1 h2
  generalize symChars z = s at *
  have hne : ∀ c ∈ s, c ≠ '(' := fun c hc => (isUpper_alpha_facts c (hs.alpha c hc)).2.2.2.2.1
  cases s with
  | nil => have := hs.len; simp at this
  | cons a s1 =>
    have ha := isUpper_notLower a (hs.upper a rfl)
    cases s1 with
    | nil => exact Q_of_last [] a ha (hne a (by simp))
    | cons b s2 =>
      cases s2 with
      | nil =>
        by_cases hb : b.isLower = true
        · exact ⟨a, [], by simp [List.dropWhile, hb, ha], hne a (by simp)⟩
        · exact Q_of_last [a] b (by simpa using hb) (hne b (by simp))
      | cons _ _ => have := hs.len; simp at this

/-- not lowercase and not '(' -/
def EndC (c : Char) : Prop := c.isLower = false ∧ c ≠ '('
instance : DecidablePred EndC := fun c => inferInstanceAs (Decidable (_ ∧ _))

/-- the text of count ++ state ++ marks is empty or ends in a digit, ')' or a mark -/
theorem tail_end (n : Cnt) (hn : n.wf = true) (st : Option St) (marks : List Char)
    (hm : ∀ c ∈ marks, isMark c = true) :
    n.render ++ (stText st ++ marks) = [] ∨ ∃ a c, n.render ++ (stText st ++ marks) = a ++ [c] ∧ EndC c := by
  have endOf : ∀ (l : List Char) (hl : l ≠ []), EndC (l.getLast hl) → ∀ pre : List Char, ∃ a c, pre ++ l = a ++ [c] ∧ EndC c := by
    intro l hl hlast pre
    refine ⟨pre ++ l.dropLast, l.getLast hl, ?_, hlast⟩
    rw [List.append_assoc, List.dropLast_concat_getLast hl]
  have digitEnd : ∀ c : Char, c.isDigit = true → EndC c :=
    fun c hc => ⟨isDigit_notLower c hc, isDigit_ne hc (by decide)⟩
  by_cases hmk : marks = []
  · subst hmk
    cases st with
    | some x =>
      right
      have key : ∀ y : St, y.text = y.text.dropLast ++ [')'] := by intro y; cases y <;> rfl
      exact ⟨n.render ++ x.text.dropLast, ')', by simp only [stText, List.append_nil]; rw [List.append_assoc, ← key x], by decide⟩
    | none =>
      simp only [stText, List.append_nil]
      cases n with
      | omitted => left; rfl
      | int ip =>
        right
        obtain ⟨hne, hd⟩ := (isDigits_iff ip).mp hn
        have := endOf ip hne (digitEnd _ (hd _ (List.getLast_mem hne))) []
        simpa [Cnt.render] using this
      | dec ip fp =>
        right
        simp only [Cnt.wf, Bool.and_eq_true] at hn
        obtain ⟨hne, hd⟩ := (isDigits_iff fp).mp hn.2
        have := endOf fp hne (digitEnd _ (hd _ (List.getLast_mem hne))) (ip ++ ['.'])
        simpa [Cnt.render] using this
  · right
    have := endOf marks hmk (by
        rcases isMark_cases (hm _ (List.getLast_mem hmk)) with e | e <;> rw [e] <;> exact ⟨by decide, by decide⟩)
      (n.render ++ stText st)
    simpa [List.append_assoc] using this

mutual
theorem Term.render_Q : ∀ (t : Term), t.wf = true → Q t.render
  | .elem z n st marks, h => by
    obtain ⟨h1, h2, hn, hm⟩ := Term.wf_elem h
    simp only [Term.render]
    rcases tail_end n hn st marks hm with e | ⟨a, c, e, hc⟩
    · rw [e, List.append_nil]; exact Q_sym h1 h2
    · rw [e, ← List.append_assoc]; exact Q_of_last _ c hc.1 hc.2
  | .group b body n st marks, h => by
    obtain ⟨_, _, hn, hm⟩ := Term.wf_group h
    simp only [Term.render]
    rcases tail_end n hn st marks hm with e | ⟨a, c, e, hc⟩
    · rw [e]
      have : b.op :: (body.render ++ [b.cl]) = (b.op :: body.render) ++ [b.cl] := by simp
      rw [this]
      exact Q_of_last _ _ (by cases b <;> decide) (by cases b <;> decide)
    · rw [e]
      have : b.op :: (body.render ++ b.cl :: (a ++ [c])) = (b.op :: (body.render ++ b.cl :: a)) ++ [c] := by simp
      rw [this]
      exact Q_of_last _ c hc.1 hc.2
  | .cage body, h => by
    obtain ⟨hb, hne⟩ := Term.wf_cage h
    simp only [Term.render]
    exact Q_append_right ['@'] _ (Terms.render_Q body hb hne)
theorem Terms.render_Q : ∀ (ts : Terms), ts.wf = true → ts.isNil = false → Q ts.render
  | .nil, _, h => by simp [Terms.isNil] at h
  | .cons t ts, h, _ => by
    obtain ⟨ht, hts, _⟩ := Terms.wf_cons h
    simp only [Terms.render]
    cases hn : ts.isNil with
    | true => rw [Terms.isNil_eq_true hn]; simpa [Terms.render] using Term.render_Q t ht
    | false => exact Q_append_right _ _ (Terms.render_Q ts hts hn)
end

/-! ### no default suffix at the end of a final-OK term list -/

/-- in any left context `X`, the text does not end in a default suffix -/
def TrailOK (s : List Char) : Prop := ∀ σ ∈ suffixesL, ∀ X : List Char, ¬ σ <:+ X ++ s

theorem trailOK_of_last (a : List Char) (c : Char) (hc : c ≠ ')') : TrailOK (a ++ [c]) := by
  intro σ hσ X
  rw [← List.append_assoc]
  exact no_suffix_of_last σ hσ _ c hc

theorem trailOK_cr (a : List Char) : TrailOK (a ++ ['(', 'c', 'r', ')']) := by
  intro σ hσ X h
  have hinc := List.all_eq_true.mp suffixes_vs_cr σ hσ
  simp only [decide_eq_true_eq] at hinc
  rw [← List.append_assoc] at h
  rcases List.suffix_or_suffix_of_suffix h (List.suffix_append (X ++ a) ['(', 'c', 'r', ')']) with h' | h'
  · exact hinc.1 h'
  · exact hinc.2 h'

/-- a parenthesis group with a well-formed body, nothing after the ')' -/
theorem trailOK_paren (B : List Char) (hB : Q B) : TrailOK ('(' :: (B ++ [')'])) := by
  intro σ hσ X h
  obtain ⟨w, rfl, hw, hlow⟩ := suffix_shape_of_mem σ hσ
  have e1 : '(' :: (w ++ [')']) = ('(' :: w) ++ [')'] := by simp
  have e2 : X ++ '(' :: (B ++ [')']) = (X ++ '(' :: B) ++ [')'] := by simp
  rw [e1, e2] at h
  obtain ⟨T, hT⟩ := suffix_concat h
  obtain ⟨c, rest, he, hc⟩ := Q_append_right (X ++ ['(']) B hB
  have e3 : X ++ ['('] ++ B = X ++ '(' :: B := by simp
  rw [e3, ← hT] at he
  rw [List.reverse_append, List.reverse_cons] at he
  have : (w.reverse ++ ['('] ++ T.reverse).dropWhile Char.isLower = '(' :: T.reverse := by
    rw [List.append_assoc, List.dropWhile_append_of_pos (fun a ha => hlow a (by simpa using ha))]
    simp [List.dropWhile]
  rw [this] at he
  simp at he
  exact hc he.1.symm

theorem term_tail_trailOK (pre : List Char) (n : Cnt) (hn : n.wf = true) (st : Option St) (hst : stFinalOK st = true)
    (marks : List Char) (hm : ∀ c ∈ marks, isMark c = true)
    (hbare : n = .omitted → st = none → marks = [] → TrailOK pre) :
    TrailOK (pre ++ (n.render ++ (stText st ++ marks))) := by
  have endOf : ∀ (l : List Char), l ≠ [] → (∀ c ∈ l, c ≠ ')') → ∀ p : List Char, TrailOK (p ++ l) := by
    intro l hl hall p
    have : p ++ l = (p ++ l.dropLast) ++ [l.getLast hl] := by
      rw [List.append_assoc, List.dropLast_concat_getLast hl]
    rw [this]
    exact trailOK_of_last _ _ (hall _ (List.getLast_mem hl))
  by_cases hmk : marks = []
  · subst hmk
    cases st with
    | some x =>
      cases x <;> simp [stFinalOK] at hst
      have := trailOK_cr (pre ++ n.render)
      simpa [stText, St.text, List.append_assoc] using this
    | none =>
      simp only [stText, List.append_nil]
      cases n with
      | omitted => simpa [Cnt.render] using hbare rfl rfl rfl
      | int ip =>
        obtain ⟨hne, hd⟩ := (isDigits_iff ip).mp hn
        exact endOf ip hne (fun c hc => isDigit_ne (hd c hc) (by decide)) pre
      | dec ip fp =>
        simp only [Cnt.wf, Bool.and_eq_true] at hn
        obtain ⟨hne, hd⟩ := (isDigits_iff fp).mp hn.2
        have := endOf fp hne (fun c hc => isDigit_ne (hd c hc) (by decide)) (pre ++ (ip ++ ['.']))
        simpa [Cnt.render, List.append_assoc] using this
  · have := endOf marks hmk (fun c hc => by rcases isMark_cases (hm c hc) with e | e <;> subst e <;> decide)
      (pre ++ (n.render ++ stText st))
    simpa [List.append_assoc] using this

theorem TrailOK.prepend {s : List Char} (h : TrailOK s) (p : List Char) : TrailOK (p ++ s) := by
  intro σ hσ X
  rw [← List.append_assoc]
  exact h σ hσ (X ++ p)

mutual
theorem Term.render_trailOK : ∀ (t : Term), t.wf = true → t.finalOK = true → TrailOK t.render
  | .elem z n st marks, h, hf => by
    obtain ⟨h1, h2, hn, hm⟩ := Term.wf_elem h
    simp only [Term.render]
    apply term_tail_trailOK _ n hn st (by simpa [Term.finalOK] using hf) marks hm
    intro _ _ _
    -- bare symbol: ends in a letter
    have hs := symOK h1 h2
    have hne : symChars z ≠ [] := by intro e; have := hs.len; rw [e] at this; simp at this
    have : symChars z = (symChars z).dropLast ++ [(symChars z).getLast hne] := (List.dropLast_concat_getLast hne).symm
    rw [this]
    exact trailOK_of_last _ _ (by
      have := (isUpper_alpha_facts _ (hs.alpha _ (List.getLast_mem hne)))
      intro e
      have ha := hs.alpha _ (List.getLast_mem hne)
      rw [e] at ha; exact absurd ha (by decide))
  | .group b body n st marks, h, hf => by
    obtain ⟨hb, hne, hn, hm⟩ := Term.wf_group h
    simp only [Term.render]
    have e : b.op :: (body.render ++ b.cl :: (n.render ++ (stText st ++ marks)))
        = (b.op :: (body.render ++ [b.cl])) ++ (n.render ++ (stText st ++ marks)) := by simp
    rw [e]
    apply term_tail_trailOK _ n hn st (by simpa [Term.finalOK] using hf) marks hm
    intro _ _ _
    cases b with
    | paren => exact trailOK_paren body.render (Terms.render_Q body hb hne)
    | square =>
      have : Br.square.op :: (body.render ++ [Br.square.cl]) = (Br.square.op :: body.render) ++ [']'] := by simp [Br.cl]
      rw [this]; exact trailOK_of_last _ _ (by decide)
    | curly =>
      have : Br.curly.op :: (body.render ++ [Br.curly.cl]) = (Br.curly.op :: body.render) ++ ['}'] := by simp [Br.cl]
      rw [this]; exact trailOK_of_last _ _ (by decide)
  | .cage body, h, hf => by
    obtain ⟨hb, hne⟩ := Term.wf_cage h
    simp only [Term.render]
    exact (Terms.render_trailOK body hb hne (by simpa [Term.finalOK] using hf)).prepend ['@']
theorem Terms.render_trailOK : ∀ (ts : Terms), ts.wf = true → ts.isNil = false → ts.finalOK = true → TrailOK ts.render
  | .nil, _, h, _ => by simp [Terms.isNil] at h
  | .cons t ts, h, _, hf => by
    obtain ⟨ht, hts, _⟩ := Terms.wf_cons h
    simp only [Terms.render]
    cases hn : ts.isNil with
    | true =>
      simp only [Terms.finalOK, hn, if_true] at hf
      rw [Terms.isNil_eq_true hn]
      simpa [Terms.render] using Term.render_trailOK t ht hf
    | false =>
      simp only [Terms.finalOK, hn] at hf
      exact (Terms.render_trailOK ts hts hn (by simpa using hf)).prepend _
end

/-! ### the formula level -/

theorem renderParts_trailOK (sep : Sep) (ps : List Part) (hne : ps ≠ []) (h : ∀ q ∈ ps, q.wf = true)
    (hf : lastFinalOK ps = true) : TrailOK (renderParts sep ps) := by
  induction ps with
  | nil => exact absurd rfl hne
  | cons p qs ih =>
    cases qs with
    | nil =>
      obtain ⟨_, ht, hn⟩ := Part.wf_iff p (h p (by simp))
      simp only [renderParts, Part.render]
      exact (Terms.render_trailOK p.terms ht hn (by simpa [lastFinalOK] using hf)).prepend _
    | cons q qs' =>
      rw [renderParts_cons2, ← List.append_assoc]
      exact (ih (by simp) (fun x hx => h x (by simp [hx])) (by simpa [lastFinalOK] using hf)).prepend _

/-- for a well-formed formula the suffix loop strips exactly the written suffix -/
theorem noSuffixEnd_of_wf (f : Formula) (h : f.WFd) : NoSuffixEnd f := by
  intro σ hσ
  cases hc : f.charge with
  | some c =>
    -- the text ends with the charge token: a sign or a digit
    have hd := chargeDigits_digits c (h.charge c hc)
    simp only [renderCharge, Charge.render_eq]
    by_cases hnil : chargeDigits c = []
    · rw [hnil]
      have : f.renderStoich ++ [if c.neg = true then '-' else '+'] = f.renderStoich ++ [if c.neg = true then '-' else '+'] := rfl
      exact no_suffix_of_last σ hσ _ _ (by cases c.neg <;> decide)
    · have e : f.renderStoich ++ (if c.neg = true then '-' else '+') :: chargeDigits c
          = (f.renderStoich ++ (if c.neg = true then '-' else '+') :: (chargeDigits c).dropLast) ++ [(chargeDigits c).getLast hnil] := by
        simp [List.dropLast_concat_getLast hnil]
      rw [e]
      exact no_suffix_of_last σ hσ _ _ (isDigit_ne (hd _ (List.getLast_mem hnil)) (by decide))
  | none =>
    have hfin : lastFinalOK f.parts = true := by
      rcases h.final with h' | h'
      · rw [hc] at h'; simp at h'
      · exact h'
    obtain ⟨p, ps, hp, _⟩ := h.first
    have := renderParts_trailOK f.sep f.parts (by rw [hp]; simp) h.parts hfin σ hσ []
    simpa [renderCharge, Formula.renderStoich] using this

end ChemModel.Formula
