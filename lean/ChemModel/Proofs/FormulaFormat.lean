/-
C13 helper lemmas.
Part 1: the digit-run substitution of `_formula_to_format` on rendered text (every written count becomes exactly one
        `sub(count)`, everything else is copied).
Part 2: `_formula_to_format` on the rendering of a well-formed AST = `present`.
Part 3: the token scanners `unLatex / unUnicode / unHtml` undo `present`.
Part 4: `canon` keeps the denotation.
Builds on the C01 lemmas (`Proofs/FormulaAssemble.lean`: prefix / suffix peeling, charge cascade, hydrate split, leading integer).
-/
import ChemModel.Model.FormulaFormat
import ChemModel.Proofs.FormulaSuffix

set_option linter.constructorNameAsVariable false

namespace ChemModel.FormulaFormat
open ChemModel.Formula ChemModel.Gen

/-! ## Part 1: digit runs -/

theorem andThen_some_nil (a : Option Str) : andThen a (some []) = a := by
  cases a <;> simp [andThen]

theorem andThen_some_some (x y : Str) : andThen (some x) (some y) = some (x ++ y) := rfl

theorem andThen_some (x : Str) (o : Option Str) : andThen (some x) o = o.map (x ++ ·) := by
  cases o <;> simp [andThen]

theorem andThen_assoc (a b c : Option Str) : andThen (andThen a b) c = andThen a (andThen b c) := by
  cases a <;> cases b <;> cases c <;> simp [andThen]

/-- the next character neither continues a digit run nor starts a fraction -/
def Stops (r : Str) : Prop := ∀ c, r.head? = some c → c.isDigit = false ∧ c ≠ '.'

theorem stops_nil : Stops [] := by intro c hc; simp at hc

theorem stops_cons {c : Char} {r : Str} (h1 : c.isDigit = false) (h2 : c ≠ '.') : Stops (c :: r) := by
  intro d hd; simp at hd; subst hd; exact ⟨h1, h2⟩

variable (sub : Str → Option Str)

theorem go_out_cons (c : Char) (r : Str) (hc : c.isDigit = false) :
    subRunsGo sub .out (c :: r) = (subRunsGo sub .out r).map (c :: ·) := by
  simp [subRunsGo, hc, andThen_some]

theorem go_out_append (x r : Str) (hx : ∀ c ∈ x, c.isDigit = false) :
    subRunsGo sub .out (x ++ r) = (subRunsGo sub .out r).map (x ++ ·) := by
  induction x with
  | nil => simp
  | cons c x ih =>
    rw [List.cons_append, go_out_cons sub c _ (hx c (by simp)), ih (fun d hd => hx d (by simp [hd]))]
    simp [Option.map_map, Function.comp_def]

theorem go_int_digits (ip ds r : Str) (hd : ∀ c ∈ ds, c.isDigit = true) :
    subRunsGo sub (.int ip) (ds ++ r) = subRunsGo sub (.int (ip ++ ds)) r := by
  induction ds generalizing ip with
  | nil => simp
  | cons c ds ih =>
    rw [List.cons_append]
    simp only [subRunsGo, hd c (by simp), if_true]
    rw [ih _ (fun d hd' => hd d (by simp [hd']))]
    simp

theorem go_frac_digits (ip fp ds r : Str) (hd : ∀ c ∈ ds, c.isDigit = true) :
    subRunsGo sub (.frac ip fp) (ds ++ r) = subRunsGo sub (.frac ip (fp ++ ds)) r := by
  induction ds generalizing fp with
  | nil => simp
  | cons c ds ih =>
    rw [List.cons_append]
    simp only [subRunsGo, hd c (by simp), if_true]
    rw [ih _ (fun d hd' => hd d (by simp [hd']))]
    simp

theorem go_int_stop (ip r : Str) (hr : Stops r) :
    subRunsGo sub (.int ip) r = andThen (sub ip) (subRunsGo sub .out r) := by
  cases r with
  | nil => simp [subRunsGo, andThen_some_nil]
  | cons c r =>
    obtain ⟨h1, h2⟩ := hr c (by simp)
    simp [subRunsGo, h1, h2]

theorem go_frac_stop (ip fp r : Str) (hfp : fp ≠ []) (hr : Stops r) :
    subRunsGo sub (.frac ip fp) r = andThen (sub (ip ++ '.' :: fp)) (subRunsGo sub .out r) := by
  cases r with
  | nil => simp [subRunsGo, hfp, andThen_some_nil]
  | cons c r =>
    obtain ⟨h1, _⟩ := hr c (by simp)
    simp [subRunsGo, h1, hfp]

/-- what the callback is applied to for a written count -/
def subCnt : Cnt → Option Str
  | .omitted => some []
  | n => sub n.render

/-- a written count followed by something that stops the run: exactly one callback, on exactly the count text -/
theorem go_out_cnt (n : Cnt) (hn : n.wf = true) (r : Str) (hr : Stops r) :
    subRunsGo sub .out (n.render ++ r) = andThen (subCnt sub n) (subRunsGo sub .out r) := by
  cases n with
  | omitted => simp [Cnt.render, subCnt, andThen_some]
  | int ip =>
    obtain ⟨hne, hdg⟩ := (isDigits_iff ip).mp hn
    cases ip with
    | nil => exact absurd rfl hne
    | cons a as =>
      simp only [Cnt.render, subCnt, List.cons_append]
      simp only [subRunsGo, hdg a (by simp), if_true]
      rw [go_int_digits sub [a] as r (fun c hc => hdg c (by simp [hc])), go_int_stop sub _ r hr]
      simp
  | dec ip fp =>
    simp only [Cnt.wf, Bool.and_eq_true] at hn
    obtain ⟨hne, hdg⟩ := (isDigits_iff ip).mp hn.1
    obtain ⟨hne2, hdg2⟩ := (isDigits_iff fp).mp hn.2
    cases ip with
    | nil => exact absurd rfl hne
    | cons a as =>
      simp only [Cnt.render, subCnt, List.cons_append, List.append_assoc]
      simp only [subRunsGo, hdg a (by simp), if_true]
      rw [go_int_digits sub [a] as _ (fun c hc => hdg c (by simp [hc]))]
      simp only [List.cons_append, List.nil_append, subRunsGo]
      have hdot : ('.' : Char).isDigit = false := by decide
      simp only [hdot, Bool.false_eq_true, if_false, if_true]
      rw [go_frac_digits sub _ [] fp r hdg2, go_frac_stop sub _ _ r (by simpa using hne2) hr]
      simp

/-! ### terms -/

/-- the callback agrees with the presentation on written counts; the brackets allowed by `ok` are shown verbatim -/
structure SubSpec (P : Pres) (ok : Br → Bool) : Prop where
  cnt : ∀ n : Cnt, n.wf = true → subCnt sub n = some (presCnt P n)
  br : ∀ b, ok b = true → P.op b = [b.op] ∧ P.cl b = [b.cl]

theorem stText_notDigit (st : Option St) : ∀ c ∈ stText st, c.isDigit = false := by
  cases st with
  | none => intro c hc; simp [stText] at hc
  | some x =>
    have key : ∀ s : St, ∀ c ∈ s.text, c.isDigit = false := by intro s; cases s <;> decide
    exact key x

theorem mark_notDigit {c : Char} (h : isMark c = true) : c.isDigit = false ∧ c ≠ '.' := by
  rcases isMark_cases h with e | e <;> subst e <;> exact ⟨by decide, by decide⟩

theorem stops_rest (st : Option St) (marks r : Str) (hm : ∀ c ∈ marks, isMark c = true) (hr : Stops r) :
    Stops (stText st ++ (marks ++ r)) :=
  rest_head (fun c => c.isDigit = false ∧ c ≠ '.') st marks r hm ⟨by decide, by decide⟩ (fun _ h => mark_notDigit h) hr

/-- count, state and marks of a term -/
theorem go_out_tail {P : Pres} {ok : Br → Bool} (hS : SubSpec sub P ok) (n : Cnt) (hn : n.wf = true) (st : Option St)
    (marks r : Str) (hm : ∀ c ∈ marks, isMark c = true) (hr : Stops r) :
    subRunsGo sub .out (n.render ++ (stText st ++ marks) ++ r)
      = (subRunsGo sub .out r).map ((presCnt P n ++ (stText st ++ marks)) ++ ·) := by
  have h1 : n.render ++ (stText st ++ marks) ++ r = n.render ++ (stText st ++ (marks ++ r)) := by simp
  rw [h1, go_out_cnt sub n hn _ (stops_rest st marks r hm hr), hS.cnt n hn, andThen_some]
  have h2 : stText st ++ (marks ++ r) = (stText st ++ marks) ++ r := by simp
  rw [h2, go_out_append sub (stText st ++ marks) r]
  · simp [Option.map_map, Function.comp_def]
  · intro c hc
    rcases List.mem_append.mp hc with h | h
    · exact stText_notDigit st c h
    · exact (mark_notDigit (hm c h)).1

theorem startC_stops {c : Char} {r : Str} (h : StartC c) : Stops (c :: r) :=
  stops_cons (startC_followC h).notDigit (startC_followC h).notDot

theorem br_notDigit (b : Br) : b.op.isDigit = false ∧ b.cl.isDigit = false ∧ b.cl ≠ '.' := by
  cases b <;> exact ⟨by decide, by decide, by decide⟩

mutual
theorem go_out_term {P : Pres} {ok : Br → Bool} (hS : SubSpec sub P ok) :
    ∀ (t : Term), t.wf = true → termBrAll ok t = true → ∀ r, Stops r →
      subRunsGo sub .out (t.render ++ r) = (subRunsGo sub .out r).map (presTerm P t ++ ·)
  | .elem z n st marks, h, _, r, hr => by
    obtain ⟨h1, h2, hn, hm⟩ := Term.wf_elem h
    have hs := symOK h1 h2
    have e : (Term.elem z n st marks).render ++ r = symChars z ++ (n.render ++ (stText st ++ marks) ++ r) := by
      simp [Term.render]
    rw [e, go_out_append sub (symChars z) _ (fun c hc => (isUpper_alpha_facts c (hs.alpha c hc)).1),
      go_out_tail sub hS n hn st marks r hm hr]
    simp [presTerm, Option.map_map, Function.comp_def]
  | .group b body n st marks, h, hb, r, hr => by
    obtain ⟨hbw, _, hn, hm⟩ := Term.wf_group h
    simp only [termBrAll, Bool.and_eq_true] at hb
    obtain ⟨hop, hcl⟩ := hS.br b hb.1
    have e : (Term.group b body n st marks).render ++ r
        = b.op :: (body.render ++ (b.cl :: (n.render ++ (stText st ++ marks) ++ r))) := by
      simp [Term.render]
    rw [e, go_out_cons sub b.op _ (br_notDigit b).1,
      go_out_terms hS body hbw hb.2 _ (stops_cons (br_notDigit b).2.1 (br_notDigit b).2.2),
      go_out_cons sub b.cl _ (br_notDigit b).2.1, go_out_tail sub hS n hn st marks r hm hr]
    simp [presTerm, hop, hcl, Option.map_map, Function.comp_def]
  | .cage body, h, hb, r, hr => by
    obtain ⟨hbw, _⟩ := Term.wf_cage h
    simp only [termBrAll] at hb
    have e : (Term.cage body).render ++ r = '@' :: (body.render ++ r) := by simp [Term.render]
    rw [e, go_out_cons sub '@' _ (by decide), go_out_terms hS body hbw hb r hr]
    simp [presTerm, Option.map_map, Function.comp_def]
theorem go_out_terms {P : Pres} {ok : Br → Bool} (hS : SubSpec sub P ok) :
    ∀ (ts : Terms), ts.wf = true → termsBrAll ok ts = true → ∀ r, Stops r →
      subRunsGo sub .out (ts.render ++ r) = (subRunsGo sub .out r).map (presTerms P ts ++ ·)
  | .nil, _, _, r, _ => by simp [Terms.render, presTerms]
  | .cons t ts, h, hb, r, hr => by
    obtain ⟨ht, hts, _⟩ := Terms.wf_cons h
    simp only [termsBrAll, Bool.and_eq_true] at hb
    have e : (Terms.cons t ts).render ++ r = t.render ++ (ts.render ++ r) := by simp [Terms.render]
    have hstop : Stops (ts.render ++ r) := by
      cases hnil : ts.isNil with
      | true => rw [Terms.isNil_eq_true hnil]; simpa [Terms.render] using hr
      | false =>
        obtain ⟨c, rest, he, hc⟩ := Terms.render_head ts hts hnil r
        rw [he]; exact startC_stops hc
    rw [e, go_out_term hS t ht hb.1 _ hstop, go_out_terms hS ts hts hb.2 r hr]
    simp [presTerms, Option.map_map, Function.comp_def]
end

/-- the digit-run substitution of one rendered term list -/
theorem subRuns_terms {P : Pres} {ok : Br → Bool} (hS : SubSpec sub P ok) (ts : Terms) (h : ts.wf = true)
    (hb : termsBrAll ok ts = true) : subRuns sub ts.render = some (presTerms P ts) := by
  have := go_out_terms sub hS ts h hb [] stops_nil
  simpa [subRuns, subRunsGo] using this

/-! ## Part 2: `_formula_to_format` on rendered text -/

/-! ### suffix stripping with the dropped list -/

theorem stripSuffixes_none' (ss : List Str) (body : Str) (hb : ∀ s ∈ ss, ¬ s <:+ body) :
    stripSuffixes ss body = ([], body) := by
  induction ss with
  | nil => rfl
  | cons s ss ih =>
    simp only [stripSuffixes, isSuffixOf_false (hb s (by simp))]
    exact ih (fun t ht => hb t (by simp [ht]))

theorem stripSuffixes_one' (ss : List Str) (hpw : ss.Pairwise SuffIncomp) (body sfx : Str)
    (hmem : sfx ∈ ss) (hb : ∀ s ∈ ss, ¬ s <:+ body) :
    stripSuffixes ss (body ++ sfx) = ([sfx], body) := by
  induction ss with
  | nil => simp at hmem
  | cons s ss ih =>
    have hpw' := List.pairwise_cons.mp hpw
    have hb' : ∀ t ∈ ss, ¬ t <:+ body := fun t ht => hb t (by simp [ht])
    by_cases hs : s = sfx
    · subst hs
      have hlen : s.length ≠ 0 := by
        intro h0
        have : s = [] := List.length_eq_zero_iff.mp h0
        exact hb s (by simp) (by rw [this]; exact List.nil_suffix)
      have hsuf : s.isSuffixOf (body ++ s) = true := List.isSuffixOf_iff_suffix.mpr (List.suffix_append body s)
      simp only [stripSuffixes, hsuf, if_true, hlen, if_false]
      have : List.take ((body ++ s).length - s.length) (body ++ s) = body := by simp
      rw [this, stripSuffixes_none' ss body hb']
    · have hin : sfx ∈ ss := by
        rcases List.mem_cons.mp hmem with h | h
        · exact absurd h.symm hs
        · exact h
      have hno : ¬ s <:+ body ++ sfx := by
        intro h
        rcases List.suffix_or_suffix_of_suffix h (List.suffix_append body sfx) with h2 | h2
        · exact (hpw'.1 sfx hin).1 h2
        · exact (hpw'.1 sfx hin).2 h2
      simp only [stripSuffixes, isSuffixOf_false hno]
      exact ih hpw'.2 hin hb'

/-- the same for a suffix list that may repeat an entry (`Species.from_formula(…, phases=("(aq)",))` passes `("(aq)", "(aq)")`):
    only DISTINCT entries must be incomparable -/
theorem stripSuffixes_one'' (ss : List Str) (hinc : ∀ a ∈ ss, ∀ b ∈ ss, a ≠ b → ¬ a <:+ b) (body sfx : Str)
    (hmem : sfx ∈ ss) (hb : ∀ s ∈ ss, ¬ s <:+ body) :
    stripSuffixes ss (body ++ sfx) = ([sfx], body) := by
  induction ss with
  | nil => simp at hmem
  | cons s ss ih =>
    have hb' : ∀ t ∈ ss, ¬ t <:+ body := fun t ht => hb t (by simp [ht])
    have hinc' : ∀ a ∈ ss, ∀ b ∈ ss, a ≠ b → ¬ a <:+ b := fun a ha b hb2 => hinc a (by simp [ha]) b (by simp [hb2])
    by_cases hs : s = sfx
    · subst hs
      have hlen : s.length ≠ 0 := by
        intro h0
        have : s = [] := List.length_eq_zero_iff.mp h0
        exact hb s (by simp) (by rw [this]; exact List.nil_suffix)
      have hsuf : s.isSuffixOf (body ++ s) = true := List.isSuffixOf_iff_suffix.mpr (List.suffix_append body s)
      simp only [stripSuffixes, hsuf, if_true, hlen, if_false]
      have : List.take ((body ++ s).length - s.length) (body ++ s) = body := by simp
      rw [this, stripSuffixes_none' ss body hb']
    · have hin : sfx ∈ ss := by
        rcases List.mem_cons.mp hmem with h | h
        · exact absurd h.symm hs
        · exact h
      have hno : ¬ s <:+ body ++ sfx := by
        intro h
        rcases List.suffix_or_suffix_of_suffix h (List.suffix_append body sfx) with h2 | h2
        · exact hinc s (by simp) sfx (by simp [hin]) hs h2
        · exact hinc sfx (by simp [hin]) s (by simp) (fun e => hs e.symm) h2
      simp only [stripSuffixes, isSuffixOf_false hno]
      exact ih hinc' hin hb'

/-- a suffix list `_formula_to_format` / `formula_to_composition` may be called with for the formula `f`: entries from the default
    vocabulary `(s) (l) (g) (aq)` (any order, repeats allowed) containing the suffix `f` is written with -/
structure SfxOK (sfx : List Str) (f : Formula) : Prop where
  sub : ∀ s ∈ sfx, s ∈ suffixesL
  mem : ∀ s, f.suffix = some s → s ∈ sfx

theorem suffixes_distinct_incomp' : ∀ a ∈ suffixesL, ∀ b ∈ suffixesL, a ≠ b → ¬ a <:+ b := by decide

theorem SfxOK.inc {sfx : List Str} {f : Formula} (h : SfxOK sfx f) : ∀ a ∈ sfx, ∀ b ∈ sfx, a ≠ b → ¬ a <:+ b :=
  fun a ha b hb => suffixes_distinct_incomp' a (h.sub a ha) b (h.sub b hb)

theorem sfxOK_default (f : Formula) (hd : f.WFd) : SfxOK suffixesL f := ⟨fun _ h => h, hd.suffix⟩

def suffixList : Option Str → List Str
  | none => []
  | some s => [s]

/-- `_formula_to_parts` on the rendering of a well-formed formula: stoichiometry, charge text, exactly the written
    prefixes and exactly the written suffix -/
theorem formulaToParts_render' (f : Formula) (h : f.WFd) (sfxs : List Str) (hok : SfxOK sfxs f) :
    formulaToParts prefixesL sfxs f.render
      = .ok ⟨f.renderStoich, f.charge.map Charge.render, f.prefixes, suffixList f.suffix⟩ := by
  have hsfx : ∀ s ∈ sfxs, ¬ s <:+ f.renderStoich ++ renderCharge f.charge :=
    fun s hs => noSuffixEnd_of_wf f h s (hok.sub s hs)
  let body := f.renderStoich ++ renderCharge f.charge
  let sfx : Str := renderSuffix f.suffix
  have hrender : f.render = f.prefixes.flatten ++ (body ++ sfx) := by
    simp [Formula.render, body, sfx, renderSuffix, List.append_assoc]
  obtain ⟨c, rest, he, hc⟩ := renderStoich_head f h (renderCharge f.charge ++ sfx)
  have he' : body ++ sfx = c :: rest := by simpa [body, List.append_assoc] using he
  have hstrip := stripPrefixes_sublist prefixesL prefixes_incomparable f.prefixes h.prefixes (body ++ sfx)
    (fun p hp => by rw [he']; exact prefix_not_start p hp c rest hc)
  have hsuff : stripSuffixes sfxs (body ++ sfx) = (suffixList f.suffix, body) := by
    cases hs : f.suffix with
    | none =>
      have : sfx = [] := by simp [sfx, hs, renderSuffix]
      rw [this, List.append_nil]
      exact stripSuffixes_none' sfxs body hsfx
    | some s =>
      have : sfx = s := by simp [sfx, hs, renderSuffix]
      rw [this]
      exact stripSuffixes_one'' sfxs hok.inc body s (hok.mem s hs) hsfx
  have hcf : ChargeFree f.renderStoich := renderParts_chargeFree f.sep f.parts h.parts
  have := charge_cascade f.renderStoich hcf f.charge h.charge f.prefixes (suffixList f.suffix)
  have hrev : (suffixList f.suffix).reverse = suffixList f.suffix := by cases f.suffix <;> rfl
  simp only [formulaToParts, hrender, hstrip, hsuff, hrev]
  exact this

/-! ### leading integer with its exact value -/

def partMult (p : Part) : Nat :=
  match p.n with
  | none => 1
  | some ds => digitsVal ds

theorem getLeadingInteger_part' (p : Part) (h : p.wf = true) :
    getLeadingInteger p.render = (partMult p, p.terms.render) := by
  obtain ⟨hn, ht, hne⟩ := Part.wf_iff p h
  obtain ⟨c, rest, he, hc⟩ := Terms.render_head p.terms ht hne []
  simp only [List.append_nil] at he
  have hstop : ∀ x, p.terms.render.head? = some x → x.isDigit = false := by
    intro x hx; rw [he] at hx; simp at hx; subst hx; exact (startC_followC hc).notDigit
  unfold Part.render partMult
  cases hp : p.n with
  | none =>
    have h0 : takeDigits p.terms.render = ([], p.terms.render) := by
      simpa using takeDigits_append [] p.terms.render (by simp) hstop
    simp [getLeadingInteger, h0]
  | some ds =>
    obtain ⟨hne', hd⟩ := hn ds hp
    have h0 := takeDigits_append ds p.terms.render hd hstop
    simp [getLeadingInteger, h0, hne']

/-! ### the charge token -/

theorem natStr_one : natStr 1 = ['1'] := by decide

theorem chargeToken_val (c : Charge) (h0 : c.val ≠ 0) : chargeToken c.val = some (chargeTok c) := by
  obtain ⟨neg, mag⟩ := c
  cases mag with
  | none => cases neg <;> simp [Charge.val, chargeToken, chargeTok]
  | some ds =>
    have hm : digitsVal ds ≠ 0 := by
      intro e; apply h0; simp [Charge.val, e]
    cases neg with
    | false =>
      simp only [Charge.val, chargeToken, chargeTok, Bool.false_eq_true, if_false, Int.one_mul]
      have h1 : ¬ ((digitsVal ds : Nat) : Int) < 0 := by omega
      have h2 : ((digitsVal ds : Nat) : Int) > 0 := by omega
      simp only [h1, h2, if_false, if_true]
      by_cases e : digitsVal ds = 1
      · simp [e]
      · have : ¬ ((digitsVal ds : Nat) : Int) = 1 := by omega
        simp [e, this]
    | true =>
      simp only [Charge.val, chargeToken, chargeTok, if_true]
      have h1 : (-1 : Int) * ((digitsVal ds : Nat) : Int) < 0 := by omega
      simp only [h1, if_true]
      by_cases e : digitsVal ds = 1
      · simp [e]
      · have e' : ¬ ((digitsVal ds : Nat) : Int) = 1 := by omega
        simp [e, e']

/-- the charge token is digits followed by one sign -/
theorem chargeTok_shape (c : Charge) : ∃ ds sg, chargeTok c = ds ++ [sg] ∧ (∀ x ∈ ds, x.isDigit = true) ∧ (sg = '+' ∨ sg = '-') := by
  refine ⟨_, _, rfl, ?_, by cases c.neg <;> simp⟩
  intro x hx
  cases hm : c.mag with
  | none => simp [hm] at hx
  | some ds =>
    simp only [hm] at hx
    split at hx
    · simp at hx
    · exact Nat.isDigit_of_mem_toDigits (by decide) (by decide) hx

/-! ### the whole function -/

/-- what the theorem needs to know about a format: its callbacks and tables agree with the presentation `P` -/
structure FmtSpec (F : Fmt) (P : Pres) (ok : Br → Bool) : Prop where
  keys : F.prefixes.map Prod.fst = prefixesL
  sub : SubSpec F.sub P ok
  sup : ∀ ds sg, (∀ x ∈ ds, x.isDigit = true) → (sg = '+' ∨ sg = '-') → F.sup (ds ++ [sg]) = some (P.sup (ds ++ [sg]))
  infx : P.infx = subs Render.infixSource F.infixes
  pre : ∀ p ∈ prefixesL, F.prefixes.lookup p = some (P.pre p)

theorem mapPrefixes_spec {F : Fmt} {P : Pres} {ok : Br → Bool} (hF : FmtSpec F P ok) (ps : List Str)
    (hps : ∀ p ∈ ps, p ∈ prefixesL) : mapPrefixes F.prefixes ps = some ((ps.map P.pre).flatten) := by
  induction ps with
  | nil => rfl
  | cons p ps ih =>
    simp only [mapPrefixes, hF.pre p (hps p (by simp)), ih (fun q hq => hps q (by simp [hq]))]
    simp [andThen]

theorem presMult_eq (p : Part) :
    (if partMult p ≠ 1 then natStr (partMult p) else []) = presMult p.n := by
  unfold partMult presMult
  cases p.n with
  | none => simp
  | some ds => by_cases e : digitsVal ds = 1 <;> simp [e]

theorem fmtRest_spec {F : Fmt} {P : Pres} {ok : Br → Bool} (hF : FmtSpec F P ok) (ps : List Part)
    (h : ∀ q ∈ ps, q.wf = true) (hb : ∀ q ∈ ps, termsBrAll ok q.terms = true) :
    fmtRest F (ps.map Part.render) = some (presRest P ps) := by
  induction ps with
  | nil => rfl
  | cons p ps ih =>
    have hp := h p (by simp)
    obtain ⟨_, ht, _⟩ := Part.wf_iff p hp
    simp only [List.map_cons, fmtRest, getLeadingInteger_part' p hp,
      subRuns_terms F.sub hF.sub p.terms ht (hb p (by simp)),
      ih (fun q hq => h q (by simp [hq])) (fun q hq => hb q (by simp [hq])), presMult_eq p]
    simp [andThen, presRest, hF.infx]

theorem formulaToFormat_render {F : Fmt} {P : Pres} {ok : Br → Bool} (hF : FmtSpec F P ok) (f : Formula) (h : f.WF)
    (hb : ∀ q ∈ f.parts, termsBrAll ok q.terms = true) (sfxs : List Str) (hok : SfxOK sfxs f) :
    formulaToFormat F sfxs f.render = .ok (present P f) := by
  have hd := Formula.wfd f h
  obtain ⟨p, ps, hp, hn⟩ := hd.first
  have hsplit := split_stoich f.sep p ps (fun q hq => hd.parts q (by rw [hp]; exact hq))
  have hpw := hd.parts p (by simp [hp])
  obtain ⟨_, ht, _⟩ := Part.wf_iff p hpw
  have hpr : p.render = p.terms.render := by simp [Part.render, hn]
  have hstoich : f.renderStoich = renderParts f.sep (p :: ps) := by simp [Formula.renderStoich, hp]
  have hfirst := subRuns_terms F.sub hF.sub p.terms ht (hb p (by simp [hp]))
  have hrest := fmtRest_spec hF ps (fun q hq => hd.parts q (by simp [hp, hq])) (fun q hq => hb q (by simp [hp, hq]))
  have hpre := mapPrefixes_spec hF f.prefixes (fun q hq => hd.prefixes.subset hq)
  unfold formulaToFormat
  rw [hF.keys, formulaToParts_render' f hd sfxs hok]
  simp only [hstoich, hsplit, hpr, hfirst, hrest, andThen_some_some]
  have hchg : fmtCharge F (presTerms P p.terms ++ presRest P ps) (f.charge.map Charge.render)
      = .ok ((presTerms P p.terms ++ presRest P ps) ++ presCharge P f.charge) := by
    cases hc : f.charge with
    | none => simp [fmtCharge, presCharge]
    | some c =>
      obtain ⟨ds, sg, e, hds, hsg⟩ := chargeTok_shape c
      by_cases hz : c.val = 0
      · simp [fmtCharge, getCharge_render c (hd.charge c hc), hz, presCharge]
      · simp only [Option.map_some, fmtCharge, getCharge_render c (hd.charge c hc), chargeToken_val c hz, presCharge, hz, if_false]
        rw [e, hF.sup ds sg hds hsg]
  rw [hchg]
  simp only [hpre]
  cases hs : f.suffix <;> simp [present, presParts, hp, hs, suffixList, renderSuffix, List.append_assoc]

/-! ## Part 3: the token scanners undo the presentation -/

theorem isDigit_mem (c : Char) (h : c.isDigit = true) : c ∈ digitChars := by
  have hb := isDigit_bounds c h
  have h1 : 48 ≤ c.toNat := UInt32.le_iff_toNat_le.mp hb.1
  have h2 : c.toNat ≤ 57 := UInt32.le_iff_toNat_le.mp hb.2
  have e : c = Char.ofNat c.toNat := (Char.ofNat_toNat c).symm
  have : c.toNat = 48 ∨ c.toNat = 49 ∨ c.toNat = 50 ∨ c.toNat = 51 ∨ c.toNat = 52 ∨ c.toNat = 53 ∨ c.toNat = 54
      ∨ c.toNat = 55 ∨ c.toNat = 56 ∨ c.toNat = 57 := by omega
  rcases this with k | k | k | k | k | k | k | k | k | k <;> (rw [e, k]; decide)

section scanner
variable (toks : List Tok)

theorem scan_skip (x r : Str) (m : Nat) (acc : Str) : scan toks x.length m acc (x ++ r) = scan toks 0 m acc r := by
  induction x with
  | nil => simp
  | cons c x ih => simp [scan, ih]

theorem scan_none {m : Nat} {acc : Str} {c : Char} {r : Str} (h : findTok toks m (c :: r) = none) :
    scan toks 0 m acc (c :: r) = c :: scan toks 0 m acc r := by
  simp [scan, h]

theorem scan_emit {m : Nat} {acc : Str} {c : Char} {x r s : Str}
    (h : findTok toks m (c :: (x ++ r)) = some ⟨m, c :: x, .emit s⟩) :
    scan toks 0 m acc (c :: (x ++ r)) = s ++ scan toks 0 m acc r := by
  simp [scan, h, scan_skip]

theorem scan_mode {m m' : Nat} {acc : Str} {c : Char} {x r : Str}
    (h : findTok toks m (c :: (x ++ r)) = some ⟨m, c :: x, .mode m'⟩) :
    scan toks 0 m acc (c :: (x ++ r)) = scan toks 0 m' acc r := by
  simp [scan, h, scan_skip]

theorem scan_acc {m : Nat} {acc : Str} {c d : Char} {x r : Str}
    (h : findTok toks m (c :: (x ++ r)) = some ⟨m, c :: x, .acc d⟩) :
    scan toks 0 m acc (c :: (x ++ r)) = scan toks 0 m (acc ++ [d]) r := by
  simp [scan, h, scan_skip]

theorem scan_flush {m : Nat} {acc : Str} {c sg : Char} {x r : Str}
    (h : findTok toks m (c :: (x ++ r)) = some ⟨m, c :: x, .flush sg⟩) :
    scan toks 0 m acc (c :: (x ++ r)) = sg :: (acc ++ scan toks 0 m [] r) := by
  simp [scan, h, scan_skip]

/-- no token of mode `m` starts with a character satisfying `q` -/
def headsOK (m : Nat) (q : Char → Bool) : Bool :=
  toks.all (fun t => t.mode != m || (match t.text with | [] => false | h :: _ => !q h))

theorem findTok_none_of_heads {m : Nat} {q : Char → Bool} (hq : headsOK toks m q = true) {c : Char} (hc : q c = true)
    (r : Str) : findTok toks m (c :: r) = none := by
  unfold findTok
  rw [List.find?_eq_none]
  intro t ht
  have := List.all_eq_true.mp hq t ht
  simp only [Bool.or_eq_true, bne_iff_ne, ne_eq] at this
  simp only [Bool.and_eq_true, beq_iff_eq, not_and]
  intro hm
  rcases this with h | h
  · exact absurd hm h
  · cases htx : t.text with
    | nil => rw [htx] at h; simp at h
    | cons a x =>
      rw [htx] at h
      simp only [Bool.not_eq_true'] at h
      intro hp
      have : a = c := by
        have := List.isPrefixOf_iff_prefix.mp hp
        exact (List.cons_prefix_cons.mp this).1
      rw [this, hc] at h
      exact absurd h (by decide)

/-- characters satisfying `q` are copied in mode `m` -/
theorem scan_copy {m : Nat} {q : Char → Bool} (hq : headsOK toks m q = true) (x r : Str) (acc : Str)
    (hx : ∀ c ∈ x, q c = true) : scan toks 0 m acc (x ++ r) = x ++ scan toks 0 m acc r := by
  induction x with
  | nil => simp
  | cons c x ih =>
    rw [List.cons_append, scan_none toks (findTok_none_of_heads toks hq (hx c (by simp)) _),
      ih (fun d hd => hx d (by simp [hd]))]
    simp

end scanner

/-- characters of a formula that every format shows verbatim -/
def plainB (c : Char) : Bool :=
  c.isAlpha || c.isDigit || c == '(' || c == ')' || c == '[' || c == ']' || c == '*' || c == '\'' || c == '@'

def cntB (c : Char) : Bool := c.isDigit || c == '.'

/-- what the inverse theorem needs to know about a format: its scanner undoes each piece of the presentation, and its
    prefix symbols can be told apart -/
structure UnSpec (tbl : List (Str × Str)) (toks : List Tok) (P : Pres) : Prop where
  plain : headsOK toks 0 plainB = true
  sub : ∀ x r, (∀ c ∈ x, cntB c = true) → x ≠ [] → scan toks 0 0 [] (P.sub x ++ r) = x ++ scan toks 0 0 [] r
  sup : ∀ ds sg r, (∀ c ∈ ds, c.isDigit = true) → (sg = '+' ∨ sg = '-') →
    scan toks 0 0 [] (P.sup (ds ++ [sg]) ++ r) = sg :: (ds ++ scan toks 0 0 [] r)
  infx : ∀ r, scan toks 0 0 [] (P.infx ++ r) = '.' :: '.' :: scan toks 0 0 [] r
  op : ∀ b r, scan toks 0 0 [] (P.op b ++ r) = b.op :: scan toks 0 0 [] r
  cl : ∀ b r, scan toks 0 0 [] (P.cl b ++ r) = b.cl :: scan toks 0 0 [] r
  vals_incomp : (tbl.map Prod.snd).Pairwise PrefIncomp
  vals_eq : prefixesL.map P.pre = tbl.map Prod.snd
  key_val : ∀ p ∈ prefixesL, keyOf tbl (P.pre p) = p
  vals_head : ∀ v ∈ tbl.map Prod.snd, ∃ h t, v = h :: t ∧ h.isUpper = false ∧ h ≠ '@'
  vals_br : ∀ v ∈ tbl.map Prod.snd, ∀ b, ¬ P.op b <+: v ∧ ¬ v <+: P.op b

theorem cnt_chars_wf (n : Cnt) (hn : n.wf = true) : ∀ c ∈ n.render, cntB c = true := by
  cases n with
  | omitted => intro c hc; simp [Cnt.render] at hc
  | int ip =>
    intro c hc
    simp [cntB, ((isDigits_iff ip).mp hn).2 c (by simpa [Cnt.render] using hc)]
  | dec ip fp =>
    simp only [Cnt.wf, Bool.and_eq_true] at hn
    intro c hc
    simp only [Cnt.render, List.mem_append, List.mem_cons] at hc
    rcases hc with h | h | h
    · simp [cntB, ((isDigits_iff ip).mp hn.1).2 c h]
    · simp [cntB, h]
    · simp [cntB, ((isDigits_iff fp).mp hn.2).2 c h]

section undo
variable {tbl : List (Str × Str)} {toks : List Tok} {P : Pres} (hU : UnSpec tbl toks P)
include hU

theorem scan_plain (x r : Str) (hx : ∀ c ∈ x, plainB c = true) :
    scan toks 0 0 [] (x ++ r) = x ++ scan toks 0 0 [] r :=
  scan_copy toks hU.plain x r [] hx

theorem scan_cnt (n : Cnt) (hn : n.wf = true) (r : Str) :
    scan toks 0 0 [] (presCnt P n ++ r) = n.render ++ scan toks 0 0 [] r := by
  cases n with
  | omitted => simp [presCnt, Cnt.render]
  | int ip =>
    have hne : (Cnt.int ip).render ≠ [] := by simpa [Cnt.render] using ((isDigits_iff ip).mp hn).1
    simpa [presCnt] using hU.sub _ r (cnt_chars_wf _ hn) hne
  | dec ip fp =>
    have hne : (Cnt.dec ip fp).render ≠ [] := by simp [Cnt.render]
    simpa [presCnt] using hU.sub _ r (cnt_chars_wf _ hn) hne

theorem stText_plain (st : Option St) : ∀ c ∈ stText st, plainB c = true := by
  cases st with
  | none => intro c hc; simp [stText] at hc
  | some x =>
    have key : ∀ s : St, ∀ c ∈ s.text, plainB c = true := by intro s; cases s <;> decide
    exact key x

theorem mark_plain {c : Char} (h : isMark c = true) : plainB c = true := by
  rcases isMark_cases h with e | e <;> subst e <;> decide

theorem alpha_plain {c : Char} (h : c.isAlpha = true) : plainB c = true := by simp [plainB, h]
theorem digit_plain {c : Char} (h : c.isDigit = true) : plainB c = true := by simp [plainB, h]

theorem scan_tail (n : Cnt) (hn : n.wf = true) (st : Option St) (marks r : Str) (hm : ∀ c ∈ marks, isMark c = true) :
    scan toks 0 0 [] (presCnt P n ++ (stText st ++ marks) ++ r)
      = n.render ++ (stText st ++ marks) ++ scan toks 0 0 [] r := by
  rw [List.append_assoc, scan_cnt hU n hn, scan_plain hU (stText st ++ marks) r]
  · simp
  · intro c hc
    rcases List.mem_append.mp hc with h | h
    · exact stText_plain hU st c h
    · exact mark_plain hU (hm c h)

mutual
theorem scan_term : ∀ (t : Term), t.wf = true → ∀ r,
    scan toks 0 0 [] (presTerm P t ++ r) = t.render ++ scan toks 0 0 [] r
  | .elem z n st marks, h, r => by
    obtain ⟨h1, h2, hn, hm⟩ := Term.wf_elem h
    have hs := symOK h1 h2
    have e : presTerm P (.elem z n st marks) ++ r = symChars z ++ (presCnt P n ++ (stText st ++ marks) ++ r) := by
      simp [presTerm]
    rw [e, scan_plain hU (symChars z) _ (fun c hc => alpha_plain hU (hs.alpha c hc)), scan_tail hU n hn st marks r hm]
    simp [Term.render]
  | .group b body n st marks, h, r => by
    obtain ⟨hbw, _, hn, hm⟩ := Term.wf_group h
    have e : presTerm P (.group b body n st marks) ++ r
        = P.op b ++ (presTerms P body ++ (P.cl b ++ (presCnt P n ++ (stText st ++ marks) ++ r))) := by
      simp [presTerm]
    rw [e, hU.op, scan_terms body hbw, hU.cl, scan_tail hU n hn st marks r hm]
    simp [Term.render]
  | .cage body, h, r => by
    obtain ⟨hbw, _⟩ := Term.wf_cage h
    have e : presTerm P (.cage body) ++ r = ['@'] ++ (presTerms P body ++ r) := by simp [presTerm]
    rw [e, scan_plain hU ['@'] _ (by decide), scan_terms body hbw]
    simp [Term.render]
theorem scan_terms : ∀ (ts : Terms), ts.wf = true → ∀ r,
    scan toks 0 0 [] (presTerms P ts ++ r) = ts.render ++ scan toks 0 0 [] r
  | .nil, _, r => by simp [presTerms, Terms.render]
  | .cons t ts, h, r => by
    obtain ⟨ht, hts, _⟩ := Terms.wf_cons h
    have e : presTerms P (.cons t ts) ++ r = presTerm P t ++ (presTerms P ts ++ r) := by simp [presTerms]
    rw [e, scan_term t ht, scan_terms ts hts]
    simp [Terms.render]
end

theorem natStr_plain (n : Nat) : ∀ c ∈ natStr n, plainB c = true :=
  fun c hc => digit_plain hU (Nat.isDigit_of_mem_toDigits (by decide) (by decide) hc)

/-- text of the hydrate parts after the first one in canonical writing -/
def restText : List Part → Str
  | [] => []
  | q :: qs => '.' :: '.' :: ((canonPart q).render ++ restText qs)

theorem scan_rest (ps : List Part) (h : ∀ q ∈ ps, q.wf = true) (r : Str) :
    scan toks 0 0 [] (presRest P ps ++ r) = restText ps ++ scan toks 0 0 [] r := by
  induction ps with
  | nil => simp [presRest, restText]
  | cons q qs ih =>
    obtain ⟨_, ht, _⟩ := Part.wf_iff q (h q (by simp))
    have e : presRest P (q :: qs) ++ r = P.infx ++ (presMult q.n ++ (presTerms P q.terms ++ (presRest P qs ++ r))) := by
      simp [presRest]
    have hm : ∀ c ∈ presMult q.n, plainB c = true := by
      intro c hc
      unfold presMult at hc
      cases hq : q.n with
      | none => simp [hq] at hc
      | some ds =>
        simp only [hq] at hc
        split at hc
        · simp at hc
        · exact natStr_plain hU _ c hc
    rw [e, hU.infx, scan_plain hU _ _ hm, scan_terms hU q.terms ht, ih (fun x hx => h x (by simp [hx]))]
    have : (canonPart q).render = presMult q.n ++ q.terms.render := by
      unfold canonPart Part.render canonN presMult
      cases q.n with
      | none => simp
      | some ds => by_cases e1 : digitsVal ds = 1 <;> simp [e1]
    simp [restText, this]

theorem renderParts_dots (p : Part) (ps : List Part) :
    renderParts .dots ((p :: ps).map canonPart) = (canonPart p).render ++ restText ps := by
  induction ps generalizing p with
  | nil => simp [renderParts, restText]
  | cons q qs ih =>
    have := ih q
    simp only [List.map_cons] at this ⊢
    rw [renderParts_cons2, this]
    simp [restText, Sep.text]

theorem scan_charge (c : Charge) (r : Str) :
    scan toks 0 0 [] (P.sup (chargeTok c) ++ r) = (canonCharge c).render ++ scan toks 0 0 [] r := by
  obtain ⟨ds, sg, e, hds, hsg⟩ := chargeTok_shape c
  have e2 : (canonCharge c).render = sg :: ds := by
    have e' := e
    unfold chargeTok at e'
    have := List.append_inj' e' rfl
    unfold canonCharge Charge.render canonN
    rw [← this.1]
    have hs : sg = (if c.neg then '-' else '+') := by simpa using this.2.symm
    rw [hs]
    cases c.mag with
    | none => simp
    | some d => by_cases e1 : digitsVal d = 1 <;> simp [e1]
  rw [e, hU.sup ds sg r hds hsg, e2]
  simp

theorem not_prefix_of_head {v : Str} {c : Char} {rest : Str} (hv : ∃ h t, v = h :: t ∧ h ≠ c) : ¬ v <+: c :: rest := by
  obtain ⟨h, t, rfl, hne⟩ := hv
  intro hp
  exact hne (List.cons_prefix_cons.mp hp).1

/-- no prefix symbol is an initial segment of a presented stoichiometry -/
theorem vals_not_prefix (ts : Terms) (h : ts.wf = true) (hne : ts.isNil = false) (r : Str) :
    ∀ v ∈ tbl.map Prod.snd, ¬ v <+: presTerms P ts ++ r := by
  intro v hv
  obtain ⟨t, ts', rfl⟩ := Terms.isNil_eq_false hne
  obtain ⟨ht, _, _⟩ := Terms.wf_cons h
  obtain ⟨a, x, rfl, hup, hat⟩ := hU.vals_head v hv
  cases t with
  | elem z n st marks =>
    obtain ⟨h1, h2, _, _⟩ := Term.wf_elem ht
    have hs := symOK h1 h2
    cases hz : symChars z with
    | nil => have := hs.len; rw [hz] at this; simp at this
    | cons c cs =>
      have hc : c.isUpper = true := hs.upper c (by rw [hz]; rfl)
      simp only [presTerms, presTerm, hz, List.cons_append]
      exact not_prefix_of_head hU ⟨a, x, rfl, fun e => by rw [e, hc] at hup; exact absurd hup (by decide)⟩
  | group b body n st marks =>
    simp only [presTerms, presTerm, List.append_assoc]
    intro hp
    rcases List.prefix_or_prefix_of_prefix hp (List.prefix_append (P.op b) _) with h3 | h3
    · exact (hU.vals_br _ hv b).2 h3
    · exact (hU.vals_br _ hv b).1 h3
  | cage body =>
    simp only [presTerms, presTerm, List.cons_append]
    exact not_prefix_of_head hU ⟨a, x, rfl, hat⟩

/-- **the inverse presentation map undoes the presentation**, up to `canon` -/
theorem unFormat_present (f : Formula) (h : f.WF) : unFormat tbl toks (present P f) = (canon f).render := by
  have hd := Formula.wfd f h
  obtain ⟨p, ps, hp, hn⟩ := hd.first
  have hpw := hd.parts p (by simp [hp])
  obtain ⟨_, ht, hne⟩ := Part.wf_iff p hpw
  let body := (presParts P f.parts ++ presCharge P f.charge) ++ renderSuffix f.suffix
  have hbody : body = presTerms P p.terms ++ ((presRest P ps ++ presCharge P f.charge) ++ renderSuffix f.suffix) := by
    simp [body, hp, presParts, List.append_assoc]
  have hsub : (f.prefixes.map P.pre).Sublist (tbl.map Prod.snd) := by
    rw [← hU.vals_eq]; exact hd.prefixes.map _
  have hstrip := stripPrefixes_sublist (tbl.map Prod.snd) hU.vals_incomp _ hsub body
    (by rw [hbody]; exact vals_not_prefix hU p.terms ht hne _)
  have hkeys : ((f.prefixes.map P.pre).map (keyOf tbl)) = f.prefixes := by
    rw [List.map_map]
    conv => rhs; rw [← List.map_id f.prefixes]
    apply List.map_congr_left
    intro q hq
    exact hU.key_val q (hd.prefixes.subset hq)
  have hscan : scan toks 0 0 [] body
      = renderParts .dots (f.parts.map canonPart) ++ (renderCharge (f.charge.bind canonChargeOpt) ++ renderSuffix f.suffix) := by
    rw [hbody, scan_terms hU p.terms ht, List.append_assoc,
      scan_rest hU ps (fun q hq => hd.parts q (by simp [hp, hq]))]
    have hcp : (canonPart p).render = p.terms.render := by simp [canonPart, Part.render, hn, canonN]
    rw [hp, renderParts_dots hU, hcp]
    have hsfx : ∀ c ∈ renderSuffix f.suffix, plainB c = true := by
      cases hs : f.suffix with
      | none => intro c hc; simp [renderSuffix] at hc
      | some sx =>
        have key : ∀ s ∈ suffixesL, ∀ c ∈ s, plainB c = true := by decide
        exact key sx (hd.suffix sx hs)
    have hend : scan toks 0 0 [] (renderSuffix f.suffix) = renderSuffix f.suffix := by
      have := scan_plain hU (renderSuffix f.suffix) [] hsfx
      simpa [scan] using this
    cases hc : f.charge with
    | none => simp [presCharge, renderCharge, hend]
    | some c =>
      by_cases hz : c.val = 0
      · simp [presCharge, canonChargeOpt, hz, renderCharge, hend]
      · simp only [presCharge, hz, if_false]
        rw [scan_charge hU c, hend]
        simp [renderCharge, canonChargeOpt, hz]
  have hpres : present P f = (f.prefixes.map P.pre).flatten ++ body := by simp [present, body]
  unfold unFormat
  rw [hpres, hstrip]
  simp only [hkeys, hscan]
  cases hs : f.suffix <;> simp [Formula.render, canon, Formula.renderStoich, renderSuffix, hs]

end undo

/-! ## Part 4: `canon` changes the writing only -/

theorem digitsVal_natStr (n : Nat) : digitsVal (natStr n) = n := by
  have h := Nat.ofDigitChars_toDigits (b := 10) (n := n) (by decide) (by decide)
  rw [Nat.ofDigitChars_eq_foldl] at h
  have e : ('0' : Char).toNat = 48 := by decide
  simpa [digitsVal, natStr, e] using h

theorem natStr_isDigits (n : Nat) : isDigits (natStr n) = true := by
  rw [isDigits_iff]
  exact ⟨Nat.toDigits_ne_nil, fun c hc => Nat.isDigit_of_mem_toDigits (by decide) (by decide) hc⟩

theorem canonPart_mult (p : Part) : (canonPart p).mult = p.mult := by
  unfold canonPart Part.mult canonN
  cases p.n with
  | none => rfl
  | some ds =>
    by_cases e : digitsVal ds = 1
    · simp [e, natCast_one_rat]
    · simp [e, digitsVal_natStr]

theorem canonCharge_val (c : Charge) : (canonCharge c).val = c.val := by
  unfold canonCharge Charge.val canonN
  cases c.mag with
  | none => rfl
  | some ds =>
    by_cases e : digitsVal ds = 1
    · simp [e]
    · simp [e, digitsVal_natStr]

theorem canon_occurrences (f : Formula) : (canon f).occurrences = f.occurrences := by
  unfold Formula.occurrences canon
  simp only
  induction f.parts with
  | nil => rfl
  | cons p ps ih =>
    simp only [List.map_cons, List.flatMap_cons, ih, canonPart_mult]
    rfl

theorem canon_denote (f : Formula) (k : Nat) : (canon f).denote k = f.denote k := by
  unfold Formula.denote
  rw [canon_occurrences]
  by_cases hk : k = 0
  · simp only [hk, if_true]
    show (match (f.charge.bind canonChargeOpt) with | none => (0 : Rat) | some c => (c.val : Rat)) = _
    cases f.charge with
    | none => rfl
    | some c =>
      by_cases hz : c.val = 0
      · simp [canonChargeOpt, hz]
      · simp [canonChargeOpt, hz, canonCharge_val]
  · simp [hk]

/-- is the charge token written with value zero (`+0`, `-00`)? -/
def zeroCharge (f : Formula) : Bool :=
  match f.charge with
  | some c => decide (c.val = 0)
  | none => false

/-- the composition dict of `canon f`: that of `f`, except that a charge written with value zero contributes no key 0 -/
theorem canon_composition (f : Formula) :
    (canon f).composition = if zeroCharge f = true then mergeComp f.occurrences else f.composition := by
  unfold Formula.composition zeroCharge
  rw [canon_occurrences]
  show (match (f.charge.bind canonChargeOpt) with | none => _ | some ch => _) = _
  cases f.charge with
  | none => simp
  | some c =>
    by_cases hz : c.val = 0
    · simp [canonChargeOpt, hz]
    · simp [canonChargeOpt, hz, canonCharge_val]

theorem zero_composition (f : Formula) (h : zeroCharge f = true) : f.composition = setKey 0 0 (mergeComp f.occurrences) := by
  unfold Formula.composition
  unfold zeroCharge at h
  cases hc : f.charge with
  | none => rw [hc] at h; exact absurd h (by decide)
  | some c =>
    rw [hc] at h
    have : c.val = 0 := by simpa using h
    simp [this]

theorem lastFinalOK_canon (ps : List Part) : lastFinalOK (ps.map canonPart) = lastFinalOK ps := by
  induction ps with
  | nil => rfl
  | cons p ps ih =>
    cases ps with
    | nil => rfl
    | cons q qs => simpa [lastFinalOK] using ih

theorem canonN_wf (n : Option Str) : (match canonN n with | none => true | some ds => isDigits ds) = true := by
  unfold canonN
  cases n with
  | none => rfl
  | some ds => by_cases e : digitsVal ds = 1 <;> simp [e, natStr_isDigits]

/-- `canon f` is again well-formed.  The side condition only concerns a charge written with value zero: dropping that token must not
    expose a final state `(s) (l) (g) (aq)` of the last term as if it were a phase suffix (e.g. `H2O(aq)+0`). -/
theorem canon_wf (f : Formula) (h : f.WF) (hz : zeroCharge f = true → lastFinalOK f.parts = true) : (canon f).WF := by
  have hd := Formula.wfd f h
  obtain ⟨p, ps, hp, hn⟩ := hd.first
  unfold Formula.WF Formula.wf
  simp only [Bool.and_eq_true]
  refine ⟨⟨⟨⟨⟨⟨List.isSublist_iff_sublist.mpr hd.prefixes, ?_⟩, ?_⟩, ?_⟩, ?_⟩, ?_⟩, ?_⟩
  · simp [canon, hp]
  · simp [canon, hp, canonPart, hn, canonN]
  · simp only [canon, List.all_map, List.all_eq_true]
    intro q hq
    have hq' := hd.parts q hq
    show (canonPart q).wf = true
    unfold Part.wf at hq' ⊢
    simp only [Bool.and_eq_true] at hq' ⊢
    exact ⟨⟨canonN_wf q.n, hq'.1.2⟩, hq'.2⟩
  · simp only [canon]
    cases hc : f.charge with
    | none => rfl
    | some c =>
      by_cases hz' : c.val = 0
      · simp [canonChargeOpt, hz']
      · simp only [canonChargeOpt, hz', if_false, Option.bind_some]
        exact canonN_wf c.mag
  · simp only [canon]
    cases hs : f.suffix with
    | none => rfl
    | some sx => simpa using hd.suffix sx hs
  · simp only [canon, lastFinalOK_canon]
    rcases hd.final with h7 | h7
    · cases hc : f.charge with
      | none => rw [hc] at h7; exact absurd h7 (by decide)
      | some c =>
        by_cases hz' : c.val = 0
        · have := hz (by simp [zeroCharge, hc, hz'])
          simp [this]
        · simp [canonChargeOpt, hz']
    · simp [h7]

/-! ## Part 5: LaTeX brace escaping is the identity on brace-free formulas -/

def nbB (c : Char) : Bool := c != '{' && c != '}'

def NoBrace (s : Str) : Prop := ∀ c ∈ s, nbB c = true

theorem NoBrace.append {a b : Str} (ha : NoBrace a) (hb : NoBrace b) : NoBrace (a ++ b) := by
  intro c hc
  rcases List.mem_append.mp hc with h | h
  · exact ha c h
  · exact hb c h

theorem NoBrace.cons {c : Char} {r : Str} (hc : nbB c = true) (hr : NoBrace r) : NoBrace (c :: r) := by
  intro d hd
  rcases List.mem_cons.mp hd with h | h
  · subst h; exact hc
  · exact hr d h

theorem NoBrace.nil : NoBrace [] := by intro c hc; simp at hc

theorem escapeBraces_noBrace {s : Str} (h : NoBrace s) : escapeBraces s = s := by
  induction s with
  | nil => rfl
  | cons c s ih =>
    have hc := h c (by simp)
    simp only [nbB, Bool.and_eq_true, bne_iff_ne, ne_eq] at hc
    have ih' := ih (fun d hd => h d (by simp [hd]))
    simp only [escapeBraces, List.flatMap_cons] at ih' ⊢
    rw [ih']
    simp [hc.1, hc.2]

theorem plain_noBrace {c : Char} (h : plainB c = true) : nbB c = true := by
  simp only [plainB, Bool.or_eq_true, beq_iff_eq] at h
  have key : ∀ d : Char, plainB d = false → c ≠ d := by
    intro d hd e; subst e
    have : plainB c = true := by simp only [plainB, Bool.or_eq_true, beq_iff_eq]; exact h
    rw [this] at hd; exact absurd hd (by decide)
  simp [nbB, key '{' (by decide), key '}' (by decide)]

theorem noBrace_of_plain {s : Str} (h : ∀ c ∈ s, plainB c = true) : NoBrace s :=
  fun c hc => plain_noBrace (h c hc)

theorem noBrace_digits {s : Str} (h : ∀ c ∈ s, c.isDigit = true) : NoBrace s :=
  noBrace_of_plain (fun c hc => by simp [plainB, h c hc])

theorem noBrace_cnt (n : Cnt) (hn : n.wf = true) : NoBrace n.render := by
  intro c hc
  have := cnt_chars_wf n hn c hc
  simp only [cntB, Bool.or_eq_true, beq_iff_eq] at this
  rcases this with h | h
  · exact plain_noBrace (by simp [plainB, h])
  · subst h; decide

theorem noBrace_tail (n : Cnt) (hn : n.wf = true) (st : Option St) (marks : Str) (hm : ∀ c ∈ marks, isMark c = true) :
    NoBrace (n.render ++ (stText st ++ marks)) := by
  refine (noBrace_cnt n hn).append (NoBrace.append ?_ ?_)
  · cases st with
    | none => exact NoBrace.nil
    | some x =>
      have key : ∀ s : St, ∀ c ∈ s.text, nbB c = true := by intro s; cases s <;> decide
      exact key x
  · intro c hc
    rcases isMark_cases (hm c hc) with e | e <;> subst e <;> decide

mutual
theorem noBrace_term : ∀ (t : Term), t.wf = true → termBrAll (fun b => b != .curly) t = true → NoBrace t.render
  | .elem z n st marks, h, _ => by
    obtain ⟨h1, h2, hn, hm⟩ := Term.wf_elem h
    simp only [Term.render]
    exact (noBrace_of_plain (fun c hc => by simp [plainB, (symOK h1 h2).alpha c hc])).append (noBrace_tail n hn st marks hm)
  | .group b body n st marks, h, hb => by
    obtain ⟨hbw, _, hn, hm⟩ := Term.wf_group h
    simp only [termBrAll, Bool.and_eq_true] at hb
    have hbr : nbB b.op = true ∧ nbB b.cl = true := by
      cases b
      · exact ⟨by decide, by decide⟩
      · exact ⟨by decide, by decide⟩
      · exact absurd hb.1 (by decide)
    simp only [Term.render]
    exact NoBrace.cons hbr.1 ((noBrace_terms body hbw hb.2).append (NoBrace.cons hbr.2 (noBrace_tail n hn st marks hm)))
  | .cage body, h, hb => by
    simp only [termBrAll] at hb
    simp only [Term.render]
    exact NoBrace.cons (by decide) (noBrace_terms body (Term.wf_cage h).1 hb)
theorem noBrace_terms : ∀ (ts : Terms), ts.wf = true → termsBrAll (fun b => b != .curly) ts = true → NoBrace ts.render
  | .nil, _, _ => NoBrace.nil
  | .cons t ts, h, hb => by
    simp only [termsBrAll, Bool.and_eq_true] at hb
    simp only [Terms.render]
    exact (noBrace_term t (Terms.wf_cons h).1 hb.1).append (noBrace_terms ts (Terms.wf_cons h).2.1 hb.2)
end

theorem noBrace_parts (sep : Sep) (ps : List Part) (h : ∀ q ∈ ps, q.wf = true)
    (hb : ∀ q ∈ ps, termsBrAll (fun b => b != .curly) q.terms = true) : NoBrace (renderParts sep ps) := by
  have hpart : ∀ q ∈ ps, NoBrace q.render := by
    intro q hq
    obtain ⟨hn, ht, _⟩ := Part.wf_iff q (h q hq)
    unfold Part.render
    refine NoBrace.append ?_ (noBrace_terms q.terms ht (hb q hq))
    cases hq' : q.n with
    | none => exact NoBrace.nil
    | some ds => exact noBrace_digits (hn ds hq').2
  induction ps with
  | nil => exact NoBrace.nil
  | cons p ps ih =>
    cases ps with
    | nil => simpa [renderParts] using hpart p (by simp)
    | cons q qs =>
      rw [renderParts_cons2]
      have hsep : NoBrace sep.text := by cases sep <;> (unfold NoBrace; decide)
      exact (hpart p (by simp)).append (hsep.append
        (ih (fun x hx => h x (by simp [hx])) (fun x hx => hb x (by simp [hx])) (fun x hx => hpart x (by simp [hx]))))

theorem noBrace_render (f : Formula) (h : f.WF) (hb : noCurly f = true) : NoBrace f.render := by
  have hd := Formula.wfd f h
  simp only [noCurly, List.all_eq_true] at hb
  unfold Formula.render
  refine NoBrace.append ?_ (NoBrace.append (noBrace_parts f.sep f.parts hd.parts hb) (NoBrace.append ?_ ?_))
  · intro c hc
    obtain ⟨p, hp, hcp⟩ := List.mem_flatten.mp hc
    have key : ∀ q ∈ prefixesL, ∀ c ∈ q, nbB c = true := by decide
    exact key p (hd.prefixes.subset hp) c hcp
  · cases hc : f.charge with
    | none => exact NoBrace.nil
    | some c =>
      simp only [renderCharge, Charge.render_eq]
      exact NoBrace.cons (by cases c.neg <;> decide) (noBrace_digits (chargeDigits_digits c (hd.charge c hc)))
  · cases hs : f.suffix with
    | none => exact NoBrace.nil
    | some sx =>
      have key : ∀ q ∈ suffixesL, ∀ c ∈ q, nbB c = true := by decide
      exact key sx (hd.suffix sx hs)

end ChemModel.FormulaFormat
