/-
Line protocol shared by all model drivers.

One JSON object per input line:  {"op": "<name>", ...arguments...}
One line of output per input line (a canonical string chosen by the op).
The driver never defaults: an unknown op or a malformed argument yields the
line `!bad-op` / `!bad-arg:<what>` so that the harness sees it as a disagreement.
-/
import Lean.Data.Json

namespace ChemModel.Proto
open Lean

abbrev Handler := String → Json → Except String String

def getStr (j : Json) (k : String) : Except String String :=
  match j.getObjVal? k with
  | .ok (.str s) => .ok s
  | _ => .error s!"!bad-arg:{k}"

def getInt (j : Json) (k : String) : Except String Int :=
  match j.getObjVal? k with
  | .ok v => match v.getInt? with
    | .ok i => .ok i
    | _ => .error s!"!bad-arg:{k}"
  | _ => .error s!"!bad-arg:{k}"

def getNat (j : Json) (k : String) : Except String Nat := do
  let i ← getInt j k
  if i < 0 then .error s!"!bad-arg:{k}" else .ok i.toNat

def getArr (j : Json) (k : String) : Except String (List Json) :=
  match j.getObjVal? k with
  | .ok (.arr a) => .ok a.toList
  | _ => .error s!"!bad-arg:{k}"

def getBool (j : Json) (k : String) : Except String Bool :=
  match j.getObjVal? k with
  | .ok (.bool b) => .ok b
  | _ => .error s!"!bad-arg:{k}"

def asInt (v : Json) : Except String Int :=
  match v.getInt? with
  | .ok i => .ok i
  | _ => .error "!bad-arg:int"

def asStr (v : Json) : Except String String :=
  match v with
  | .str s => .ok s
  | _ => .error "!bad-arg:str"

def asArr (v : Json) : Except String (List Json) :=
  match v with
  | .arr a => .ok a.toList
  | _ => .error "!bad-arg:arr"

/-- A rational is sent as the two-element array `[num, den]` (den > 0) or as a bare integer. -/
def asRat (v : Json) : Except String Rat :=
  match v with
  | .arr #[n, d] => do
      let n ← asInt n
      let d ← asInt d
      if d ≤ 0 then .error "!bad-arg:rat" else .ok (mkRat n d.toNat)
  | _ => do
      let n ← asInt v
      .ok (n : Rat)

def getRat (j : Json) (k : String) : Except String Rat :=
  match j.getObjVal? k with
  | .ok v => asRat v
  | _ => .error s!"!bad-arg:{k}"

def getRatList (j : Json) (k : String) : Except String (List Rat) := do
  (← getArr j k).mapM asRat

def getIntList (j : Json) (k : String) : Except String (List Int) := do
  (← getArr j k).mapM asInt

def getStrList (j : Json) (k : String) : Except String (List String) := do
  (← getArr j k).mapM asStr

/-- A float is sent as a JSON number. -/
def asFloat (v : Json) : Except String Float :=
  match v with
  | .num n => .ok n.toFloat
  | _ => .error "!bad-arg:float"

def getFloat (j : Json) (k : String) : Except String Float :=
  match j.getObjVal? k with
  | .ok v => asFloat v
  | _ => .error s!"!bad-arg:{k}"

/-- canonical text of a rational: `n/d` in lowest terms, `n` when d = 1 -/
def showRat (q : Rat) : String :=
  if q.den == 1 then toString q.num else s!"{q.num}/{q.den}"

def showRatList (l : List Rat) : String := "[" ++ ",".intercalate (l.map showRat) ++ "]"
def showIntList (l : List Int) : String := "[" ++ ",".intercalate (l.map toString) ++ "]"
def showNatList (l : List Nat) : String := "[" ++ ",".intercalate (l.map toString) ++ "]"
def showStrList (l : List String) : String := (Json.arr (l.map Json.str).toArray).compress

/-- floats are printed with 17 significant digits through the JSON printer; the harness
    compares them with a tolerance, never textually -/
def showFloat (x : Float) : String := toString x

def handleLine (h : Handler) (line : String) : String :=
  match Json.parse line with
  | .error _ => "!bad-json"
  | .ok j =>
    match getStr j "op" with
    | .error e => e
    | .ok op =>
      match h op j with
      | .ok s => s
      | .error e => e

partial def loop (h : Handler) (inp : IO.FS.Stream) (out : IO.FS.Stream) : IO Unit := do
  let line ← inp.getLine
  if line.isEmpty then return ()
  let l := String.ofList (line.toList.filter (fun c => c != '\n' && c != '\r'))
  out.putStrLn (handleLine h l)
  loop h inp out

def run (h : Handler) : IO Unit := do
  let inp ← IO.getStdin
  let out ← IO.getStdout
  loop h inp out
  out.flush

end ChemModel.Proto
