/-
Number classes for model functions that are written once and instantiated with
`Rat` (exact, executable), `Float` (executable, through exp/log/sqrt/pow) and `ℝ`
(Mathlib, proof files only).  Import-free.

Conventions for model / generated code generic over `α`:
* literals: integers as `((n : Nat) : α)` or `Num.ofInt`, decimals as `Num.dec num k` = num / 10^k (exact)
* transcendental functions only through the classes below
-/
namespace ChemModel

class HasExp (α : Type) where exp : α → α
class HasLog (α : Type) where log : α → α
class HasSqrt (α : Type) where sqrt : α → α
class HasTanh (α : Type) where tanh : α → α
class HasAtanh (α : Type) where atanh : α → α
/-- real power with a non-integer exponent (`x ** y` in Python for float y) -/
class HasRPow (α : Type) where rpow : α → α → α

namespace Num
variable {α : Type}

/-- integer power by repeated multiplication (Python `x ** n`, n ≥ 0 an int literal) -/
def npow [Mul α] [NatCast α] (x : α) : Nat → α
  | 0 => ((1 : Nat) : α)
  | n + 1 => npow x n * x

/-- integer literal -/
def ofInt [NatCast α] [Neg α] (i : Int) : α :=
  if i < 0 then -((i.natAbs : Nat) : α) else ((i.toNat : Nat) : α)

/-- exact decimal literal `m · 10^(-k)` -/
def dec [NatCast α] [Neg α] [Div α] (m : Int) (k : Nat) : α :=
  ofInt m / (((10 ^ k : Nat)) : α)

/-- exact fraction literal -/
def frac [NatCast α] [Neg α] [Div α] (n : Int) (d : Nat) : α := ofInt n / ((d : Nat) : α)

end Num

instance : HasExp Float := ⟨Float.exp⟩
instance : HasLog Float := ⟨Float.log⟩
instance : HasSqrt Float := ⟨Float.sqrt⟩
instance : HasTanh Float := ⟨Float.tanh⟩
instance : HasAtanh Float := ⟨Float.atanh⟩
instance : HasRPow Float := ⟨Float.pow⟩
instance : NatCast Float := ⟨Float.ofNat⟩

end ChemModel
