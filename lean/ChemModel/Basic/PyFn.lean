/-
Small vocabulary used by the functions that `tools/extract/pyfn2lean.py` generates (import-free).

* `PyFn.warnGate`  the `warn` flag in `if warn and (…): warnings.warn(…)` / `if warn:`.  The generated `…Warns` and `…WarnMsgs`
                   functions describe the call with `warn=True`; the flag is kept in the generated text so that a source edit
                   that drops the gate changes the text (the default of `warn` itself is in the `…Sig` record).
* `PyFn.anyS c`    `_any(c)` / `numpy.any(c)` applied to the truth value of a scalar comparison.
* `HasAbs`         `abs(x)` / `be.abs(x)` / `math.fabs(x)`.
Both `PyFn` functions are reducible (`abbrev`) identities; `simp only [PyFn.warnGate, PyFn.anyS, Bool.true_and]` removes them.
-/
namespace ChemModel

namespace PyFn
abbrev warnGate : Bool := true
abbrev anyS (c : Bool) : Bool := c
end PyFn

class HasAbs (α : Type) where abs : α → α
instance : HasAbs Float := ⟨Float.abs⟩
instance : HasAbs Rat := ⟨fun x => if x < 0 then -x else x⟩

end ChemModel
