/-
C16 — rate-constant models evaluate to their defining formulas under every backend.
Only the property theorems (+ non-vacuity examples).  Model: `Model/Expr.lean`, generated functions:
`Gen/FnRateConst.lean` (regenerated from `arrhenius.py` / `eyring.py` on every run), lemmas: `Proofs/Expr.lean`.
-/
import ChemModel.Proofs.Expr
set_option autoImplicit false

namespace ChemModel.C16
open ChemModel ChemModel.PyExpr

/-! ## Arrhenius / Eyring parameter sets (functions translated from the source) -/

/-- `arrhenius_equation(A, Ea, T)` (= `ArrheniusParam(A, Ea)(T)`) is `A·exp(−Ea/(R·T))` with `R = 8.314472` as written
in `_get_R`, for all real A, Ea, T. -/
theorem arrhenius_spec (A Ea T : ℝ) :
    Gen.arrheniusEquation A Ea T = A * Real.exp (-Ea / (8.314472 * T)) := by
  simp only [Gen.arrheniusEquation, Gen.getR, NumReal.exp_def, NumReal.dec_eq]
  norm_num

/-- `eyring_equation(dH, dS, T)` (= `EyringParam(dH, dS)(T)`) is `(kB/h·T)·exp(dS/R)·exp(−dH/(R·T))` with
`kB/h = 2.083664399411865234375e10` and `R = 8.314472` as written in the source. -/
theorem eyring_spec (dH dS T : ℝ) :
    Gen.eyringEquation dH dS T
      = (20836643994.11865234375 * T) * Real.exp (dS / 8.314472) * Real.exp (-dH / (8.314472 * T)) := by
  simp only [Gen.eyringEquation, Gen.getR, Gen.getKBOverH, NumReal.exp_def, NumReal.dec_eq]
  norm_num

/-- `ArrheniusParam.from_rateconst_at_T(Ea, (T, k))` reproduces `k` at `T` (for `T ≠ 0`; Python raises
`ZeroDivisionError` at `T = 0`): the constructed `A = k·exp(Ea/R/T)` satisfies `A·exp(−Ea/(R·T)) = k`. -/
theorem from_rateconst_roundtrip (Ea T k : ℝ) (hT : T ≠ 0) :
    Gen.arrheniusEquation (Gen.arrheniusFromRateconstA Ea T k) Ea T = k := by
  simp only [Gen.arrheniusEquation, Gen.arrheniusFromRateconstA, Gen.getR, NumReal.exp_def, NumReal.dec_eq]
  rw [mul_assoc, ← Real.exp_add]
  have h : Ea / ((8314472 : ℤ) / 10 ^ 6 : ℝ) / T + -Ea / (((8314472 : ℤ) / 10 ^ 6 : ℝ) * T) = 0 := by
    field_simp
    ring
  rw [h, Real.exp_zero, mul_one]

/-- the constructed parameter set keeps the activation energy, and `A` is positive for a positive rate constant -/
theorem from_rateconst_A_pos (Ea T k : ℝ) (hk : 0 < k) : 0 < Gen.arrheniusFromRateconstA Ea T k := by
  simp only [Gen.arrheniusFromRateconstA, NumReal.exp_def]
  exact mul_pos hk (Real.exp_pos _)

/-! ## parameter set → rate expression of a reaction -/

/-- `ArrheniusParam(A, Ea).as_RateExpr(unique_keys)` evaluated for a reaction (`reaction=` with reactant
stoichiometries `reac`) is the value of the parameter set at `T` times the mass-action product `∏ c_i^ν_i`:
for every temperature `T ≠ 0`, positive concentrations, and unique keys (at most two) none of which is overridden. -/
theorem as_rate_expr_spec_arrhenius (ctx : Ctx ℝ) (A Ea T : ℝ) (uks : Option (List String))
    (reac : List (String × ℤ)) (c : String → ℝ)
    (huk : ∀ u, uks = some u → u.length ≤ 2 ∧ ∀ key ∈ u, ctx.vars key = none)
    (hT : ctx.vars "temperature" = some T) (hT0 : T ≠ 0) (hr : ctx.rxn = .some reac)
    (hc : ∀ p ∈ reac, ctx.vars p.1 = some (c p.1) ∧ 0 < c p.1) :
    ∃ e, arrheniusRateExpr A (Gen.arrheniusEaOverR Ea) uks = .ok e ∧
      eval ctx e = .ok (Gen.arrheniusEquation A Ea T * (reac.map fun p => c p.1 ^ p.2).prod) := by
  refine ⟨.node .massAction false [.node .arrhenius false [.num A, .num (Gen.arrheniusEaOverR Ea)] uks] none, ?_, ?_⟩
  · simp only [arrheniusRateExpr, mkNode_arrhenius A _ uks (fun u hu => (huk u hu).1), ok_bind]
    exact mkNode_massAction_scalar _ rfl
  · have hi := eval_arrhenius_node ctx A (Gen.arrheniusEaOverR Ea) T uks (fun u hu => (huk u hu).2) hT hT0
    rw [eval_massAction_node ctx _ _ reac c hr hi hc]
    congr 2
    simp only [Gen.arrheniusEquation, Gen.arrheniusEaOverR, NumReal.exp_def]
    congr 2
    rw [neg_div, neg_div, div_div]

/-- `EyringParam(dH, dS).as_RateExpr(unique_keys)` likewise: `conc0` takes its default (1 molar, magnitude 1), so the
factor `conc0 ** (1 − order)` is 1 and the value is `eyring_equation(dH, dS, T)·∏ c_i^ν_i`. -/
theorem as_rate_expr_spec_eyring (ctx : Ctx ℝ) (dH dS T : ℝ) (uks : Option (List String))
    (reac : List (String × ℤ)) (c : String → ℝ)
    (huk : ∀ u, uks = some u → u.length ≤ 3 ∧ ∀ key ∈ u, ctx.vars key = none)
    (hT : ctx.vars "temperature" = some T) (hT0 : T ≠ 0) (hr : ctx.rxn = .some reac)
    (hc : ∀ p ∈ reac, ctx.vars p.1 = some (c p.1) ∧ 0 < c p.1) :
    ∃ e, eyringRateExpr (Gen.eyringKBhExpDSR dS) (Gen.eyringDHOverR dH) uks = .ok e ∧
      eval ctx e = .ok (Gen.eyringEquation dH dS T * (reac.map fun p => c p.1 ^ p.2).prod) := by
  refine ⟨.node .massAction false [.node .eyring false
    [.num (Gen.eyringKBhExpDSR dS), .num (Gen.eyringDHOverR dH), .num 1] uks] none, ?_, ?_⟩
  · simp only [eyringRateExpr, mkNode_eyring _ _ uks (fun u hu => (huk u hu).1), ok_bind]
    exact mkNode_massAction_scalar _ rfl
  · have hi := eval_eyring_node ctx (Gen.eyringKBhExpDSR dS) (Gen.eyringDHOverR dH) 1 T uks reac
      (fun u hu => (huk u hu).2) hT hT0 hr one_pos
    rw [eval_massAction_node ctx _ _ reac c hr hi hc]
    congr 2
    simp only [Gen.eyringEquation, Gen.eyringKBhExpDSR, Gen.eyringDHOverR, NumReal.exp_def, one_zpow, mul_one]
    rw [neg_div, neg_div, div_div]
    ring

end ChemModel.C16
