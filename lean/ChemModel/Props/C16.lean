/-
C16 — rate-constant models evaluate to their defining formulas under every backend.
Only the property theorems (+ non-vacuity examples).  Model: `Model/Expr.lean`, generated functions:
`Gen/FnRateConst.lean` (regenerated from `arrhenius.py` / `eyring.py` on every run), lemmas: `Proofs/Expr.lean`.
-/
import ChemModel.Proofs.ExprSym
import ChemModel.Gen.RatesSrc
set_option autoImplicit false

namespace ChemModel.C16
open ChemModel ChemModel.PyExpr

/-! ## Arrhenius / Eyring parameter sets (functions translated from the source) -/

/-- `arrhenius_equation(A, Ea, T)` (= `ArrheniusParam(A, Ea)(T)`) is `A·exp(−Ea/(R·T))` with `R = 8.314472` as written
in `_get_R`, for all real A, Ea and T ≠ 0 (Python raises `ZeroDivisionError` at T = 0; Lean's `x/0 = 0` must not be what
makes the statement true). -/
theorem arrhenius_spec (A Ea T : ℝ) (_hT : T ≠ 0) :
    Gen.arrheniusEquation A Ea T = A * Real.exp (-Ea / (8.314472 * T)) := by
  simp only [Gen.arrheniusEquation, Gen.getR, NumReal.exp_def, NumReal.dec_eq]
  norm_num

/-- `eyring_equation(dH, dS, T)` (= `EyringParam(dH, dS)(T)`) is `(kB/h·T)·exp(dS/R)·exp(−dH/(R·T))` with
`kB/h = 2.083664399411865234375e10` and `R = 8.314472` as written in the source. -/
theorem eyring_spec (dH dS T : ℝ) (_hT : T ≠ 0) :
    Gen.eyringEquation dH dS T
      = (20836643994.11865234375 * T) * Real.exp (dS / 8.314472) * Real.exp (-dH / (8.314472 * T)) := by
  simp only [Gen.eyringEquation, Gen.getR, Gen.getKBOverH, NumReal.exp_def, NumReal.dec_eq]
  norm_num

/-- `ArrheniusParam.from_rateconst_at_T(Ea, (T, k))` reproduces `k` at `T` (for `T ≠ 0`; Python raises
`ZeroDivisionError` at `T = 0`): the constructed `A = k·exp(Ea/R/T)` satisfies `A·exp(−Ea/(R·T)) = k`. -/
theorem from_rateconst_roundtrip (Ea T k : ℝ) (hT : T ≠ 0) :
    Gen.arrheniusEquation (Gen.arrheniusFromRateconstA Ea T k) Ea T = k := by
  simp only [Gen.arrheniusEquation, Gen.arrheniusFromRateconstA, Gen.getR, NumReal.exp_def, NumReal.dec_eq]
  rw [mul_assoc, ← Real.exp_add]
  have h : Ea / ((8314472 : ℤ) / 10 ^ 6 : ℝ) / T + -Ea / (((8314472 : ℤ) / 10 ^ 6 : ℝ) * T) = 0 := by
    field_simp
    ring
  rw [h, Real.exp_zero, mul_one]

/-! ## parameter set → rate expression of a reaction -/

/-- `ArrheniusParam(A, Ea).as_RateExpr(unique_keys)` evaluated for a reaction (`reaction=` with reactant
stoichiometries `reac`) is the value of the parameter set at `T` times the mass-action product `∏ c_i^ν_i`:
for every temperature `T ≠ 0`, positive concentrations, and unique keys (at most two) none of which is overridden. -/
theorem as_rate_expr_spec_arrhenius (ctx : Ctx ℝ) (A Ea T : ℝ) (uks : Option (List String))
    (reac : List (String × ℤ)) (c : String → ℝ)
    (huk : ∀ u, uks = some u → u.length ≤ 2 ∧ ∀ key ∈ u, ctx.vars key = none)
    (hT : ctx.vars "temperature" = some T) (hT0 : T ≠ 0) (hr : ctx.rxn = .some reac)
    (hc : ∀ p ∈ reac, ctx.vars p.1 = some (c p.1) ∧ 0 < c p.1) :
    ∃ e, arrheniusRateExpr A (Gen.arrheniusEaOverR Ea) uks = .ok e ∧
      eval ctx e = .ok (Gen.arrheniusEquation A Ea T * (reac.map fun p => c p.1 ^ p.2).prod) := by
  refine ⟨.node .massAction false [.node .arrhenius false [.num A, .num (Gen.arrheniusEaOverR Ea)] uks] none, ?_, ?_⟩
  · simp only [arrheniusRateExpr, mkNode_arrhenius A _ uks (fun u hu => (huk u hu).1), ok_bind]
    exact mkNode_massAction_scalar _ rfl
  · have hi := eval_arrhenius_node ctx A (Gen.arrheniusEaOverR Ea) T uks (fun u hu => (huk u hu).2) hT hT0
    rw [eval_massAction_node ctx _ _ reac c hr hi hc]
    congr 2
    simp only [Gen.arrheniusEquation, Gen.arrheniusEaOverR, NumReal.exp_def]
    congr 2
    rw [neg_div, neg_div, div_div]

/-- `EyringParam(dH, dS).as_RateExpr(unique_keys)` likewise: `conc0` takes its default (1 molar, magnitude 1), so the
factor `conc0 ** (1 − order)` is 1 and the value is `eyring_equation(dH, dS, T)·∏ c_i^ν_i`. -/
theorem as_rate_expr_spec_eyring (ctx : Ctx ℝ) (dH dS T : ℝ) (uks : Option (List String))
    (reac : List (String × ℤ)) (c : String → ℝ)
    (huk : ∀ u, uks = some u → u.length ≤ 3 ∧ ∀ key ∈ u, ctx.vars key = none)
    (hT : ctx.vars "temperature" = some T) (hT0 : T ≠ 0) (hr : ctx.rxn = .some reac)
    (hc : ∀ p ∈ reac, ctx.vars p.1 = some (c p.1) ∧ 0 < c p.1) :
    ∃ e, eyringRateExpr (Gen.eyringKBhExpDSR dS) (Gen.eyringDHOverR dH) uks = .ok e ∧
      eval ctx e = .ok (Gen.eyringEquation dH dS T * (reac.map fun p => c p.1 ^ p.2).prod) := by
  refine ⟨.node .massAction false [.node .eyring false
    [.num (Gen.eyringKBhExpDSR dS), .num (Gen.eyringDHOverR dH), .num 1] uks] none, ?_, ?_⟩
  · simp only [eyringRateExpr, mkNode_eyring _ _ uks (fun u hu => (huk u hu).1), ok_bind]
    exact mkNode_massAction_scalar _ rfl
  · have hi := eval_eyring_node ctx (Gen.eyringKBhExpDSR dS) (Gen.eyringDHOverR dH) 1 T uks reac
      (fun u hu => (huk u hu).2) hT hT0 hr one_pos
    rw [eval_massAction_node ctx _ _ reac c hr hi hc]
    congr 2
    simp only [Gen.eyringEquation, Gen.eyringKBhExpDSR, Gen.eyringDHOverR, NumReal.exp_def, one_zpow, mul_one]
    rw [neg_div, neg_div, div_div]
    ring

/-- `as_rate_expr_refuses_too_many_keys` — the failure side of `as_rate_expr_spec_*` (whose hypotheses `u.length ≤ 2` / `≤ 3` are thus
exactly the condition for the expression to be built): more unique keys than arguments is the `ValueError` of `Expr.__init__`. -/
theorem as_rate_expr_refuses_too_many_keys (a e : ℝ) (u : List String) :
    (2 < u.length → arrheniusRateExpr a e (some u) = .error .valueError)
    ∧ (3 < u.length → eyringRateExpr a e (some u) = .error .valueError) :=
  ⟨arrheniusRateExpr_too_many_keys a e u, eyringRateExpr_too_many_keys a e u⟩

/-! ## the operator algebra -/

/-- `operators_are_homomorphic`.  For operands `l`, `r` (numbers, strings, expressions; of the shape the operators
themselves construct) with values `a`, `b`: whatever tree an overloaded operator returns — the plain node OR one of its
short-cut results (`x + 0`, `x + y*0`, `x - 0`, `x * 1`, `x / 1`, `-(-x)`), in direct or reflected form — evaluates to
the arithmetic result, and has again that shape (so the statement composes over whole trees).
Exclusions, both mirrored from the code and witnessed below: `*` and `/` with a `MassAction` operand go through
`UnaryWrapper` and act on the rate coefficient (`massaction_operators_coefficient_level`,
`rdiv_massaction_semantics_witness`), and `x - ""` returns `x`. -/
theorem operators_are_homomorphic (ctx : Ctx ℝ) (l r e : Val ℝ) (a b : ℝ)
    (hpl : plainOps l = true) (hpr : plainOps r = true) (ha : eval ctx l = .ok a) (hb : eval ctx r = .ok b) :
    (pyAdd l r = .ok e → eval ctx e = .ok (a + b) ∧ plainOps e = true)
    ∧ (pySub l r = .ok e → r ≠ .str "" → eval ctx e = .ok (a - b) ∧ plainOps e = true)
    ∧ (pyMul l r = .ok e → l.isMassAction = false → r.isMassAction = false →
        eval ctx e = .ok (a * b) ∧ plainOps e = true)
    ∧ (pyDivOp l r = .ok e → l.isMassAction = false → r.isMassAction = false →
        eval ctx e = pyDiv a b ∧ plainOps e = true)
    ∧ (pyPow l r = .ok e → eval ctx e = PyNum.pow a b ∧ plainOps e = true)
    ∧ (pyNeg l = .ok e → eval ctx e = .ok (-a) ∧ plainOps e = true) := by
  refine ⟨?_, ?_, ?_, ?_, ?_, ?_⟩
  · intro h
    unfold pyAdd at h
    split at h
    · exact exprAdd_hom ctx l r e a b h hpl hpr ha hb
    · split at h
      · rw [add_comm]; exact exprAdd_hom ctx r l e b a h hpr hpl hb ha
      · cases h
  · intro h hne
    unfold pySub at h
    split at h
    · exact exprSub_hom ctx l r e a b h hne hpl hpr ha hb
    · split at h
      · cases hn : exprNeg r with
        | error err => rw [hn] at h; cases h
        | ok n =>
          rw [hn] at h
          simp only [ok_bind] at h
          obtain ⟨hnv, hnp⟩ := exprNeg_hom ctx r n b hn hpr hb
          have := exprAdd_hom ctx n l e (-b) a h hnp hpl hnv ha
          rw [sub_eq_add_neg, add_comm]; exact this
      · cases h
  · intro h hml hmr
    unfold pyMul at h
    split at h
    · exact exprMul_hom ctx l r e a b h hml hmr hpl hpr ha hb
    · split at h
      · rw [mul_comm]; exact exprMul_hom ctx r l e b a h hmr hml hpr hpl hb ha
      · cases h
  · intro h hml hmr
    unfold pyDivOp at h
    split at h
    · exact exprDiv_hom ctx l r e a b h hml hmr hpl hpr ha hb
    · split at h
      · exact exprRDiv_hom ctx r l e b a h hmr hpr hpl hb ha
      · cases h
  · intro h
    exact pyPow_hom ctx l r e a b h hpl hpr ha hb
  · intro h
    unfold pyNeg at h
    split at h
    · exact exprNeg_hom ctx l e a h hpl ha
    · cases h

/-- `operators_build_or_refuse` — the success characterisation for `operators_are_homomorphic` (which assumes `… = .ok e`).
SUCCESS: with at least one operand an Expr, no `MassAction` among the operands and no argument-less `Constant` (`constErr`),
`+ * / **` build a tree, and so does `−` when the left operand is an Expr.  REFUSALS: two bare operands are `TypeError` for every
operator, `-` of a bare value likewise, and `x + Constant()` is the `TypeError` of `Constant().trivially_zero`. -/
theorem operators_build_or_refuse (l r : Val ℝ) (a b : ℝ) :
    ((l.isNode = true ∨ r.isNode = true) → noMA l = true → noMA r = true → constErr l = none → constErr r = none →
      (∃ e, pyAdd l r = .ok e) ∧ (∃ e, pyMul l r = .ok e) ∧ (∃ e, pyDivOp l r = .ok e) ∧ (∃ e, pyPow l r = .ok e)
      ∧ (l.isNode = true → ∃ e, pySub l r = .ok e))
    ∧ (pyAdd (.num a : Val ℝ) (.num b) = .error .typeError ∧ pySub (.num a : Val ℝ) (.num b) = .error .typeError
      ∧ pyMul (.num a : Val ℝ) (.num b) = .error .typeError ∧ pyDivOp (.num a : Val ℝ) (.num b) = .error .typeError
      ∧ pyPow (.num a : Val ℝ) (.num b) = .error .typeError ∧ pyNeg (.num a : Val ℝ) = .error .typeError)
    ∧ pyAdd (symbolNode "x" : Val ℝ) (.node .const true [] none) = .error .typeError :=
  ⟨fun hn hml hmr hcl hcr => operators_total l r hn hml hmr hcl hcr,
   ⟨rfl, rfl, rfl, rfl, rfl, rfl⟩, rfl⟩

/-- `every_tree_evaluates_to_its_meaning` — the induction over whole build programs.  For every program `p` over bare
numbers / strings, `Constant`, `Symbol` and the operators `neg + − * / **` (any nesting, direct and reflected forms, every
short-cut): if the overloaded operators build a tree `e` from it and the plain arithmetic meaning of `p` is `v`, then
`e` evaluates to `v`.  (`okSub`: no subtraction of the bare empty string.) -/
theorem every_tree_evaluates_to_its_meaning (ctx : Ctx ℝ) (p : Prog) (e : Val ℝ) (v : ℝ)
    (hb : p.build = .ok e) (hm : p.meaning ctx = .ok v) (hs : p.okSub) : eval ctx e = .ok v :=
  (prog_spec ctx p e v hb hm hs).1

/-- `*` and `/` with a `MassAction` operand (`UnaryWrapper`, pinned by `test_rates.py::test_MassAction__expression`): for
`ma = MassAction([c])` with coefficient value `k`, an operand `o` with value `b` that is not itself a `MassAction`, and the
mass-action product `P = ∏ cᵢ^νᵢ`: `ma*o`, `o*ma` evaluate to `(k·b)·P`, `ma/o` to `(k/b)·P` and `o/ma` to `(b/k)·P` — the
operators act on the rate coefficient and the result is again a mass-action rate. -/
theorem massaction_operators_coefficient_level (ctx : Ctx ℝ) (c o e : Val ℝ) (k b : ℝ) (reac : List (String × ℤ))
    (conc : String → ℝ) (hr : ctx.rxn = .some reac) (hc : ∀ p ∈ reac, ctx.vars p.1 = some (conc p.1) ∧ 0 < conc p.1)
    (hk : eval ctx c = .ok k) (hb : eval ctx o = .ok b) (hmo : o.isMassAction = false) :
    let ma : Val ℝ := .node .massAction false [c] none
    let P := (reac.map fun p => conc p.1 ^ p.2).prod
    (pyMul ma o = .ok e → eval ctx e = .ok (k * b * P))
    ∧ (pyMul o ma = .ok e → eval ctx e = .ok (k * b * P))
    ∧ (pyDivOp ma o = .ok e → b ≠ 0 → eval ctx e = .ok (k / b * P))
    ∧ (pyDivOp o ma = .ok e → k ≠ 0 → eval ctx e = .ok (b / k * P)) :=
  massAction_ops ctx c o e k b reac conc hr hc hk hb hmo

/-- `UnaryWrapper` arithmetic is REFUSED for a wrapper that carries unique keys (`ValueError`: "UnaryWrapper can only be used when
unique_keys are None"): `ma * o`, `o * ma`, `ma / o` (o ≠ 1) and `o / ma` build nothing — so a product can never be silently
replaced as a whole by the override of the wrapped rate constant (`MassAction([3.0], ['k_fw']) * 2` with `k_fw = 7` is an error,
not `7·conc`). -/
theorem unarywrapper_refuses_unique_keys (na : Bool) (args : List (Val ℝ)) (u : List String) (o : Val ℝ)
    (ho : o.isMassAction = false) :
    let ma : Val ℝ := .node .massAction na args (some u)
    pyMul ma o = .error .valueError ∧ pyMul o ma = .error .valueError
    ∧ (isOne o = false → pyDivOp ma o = .error .valueError) ∧ pyDivOp o ma = .error .valueError := by
  intro ma
  have hu : uwArg ma = .error .valueError := by simp [ma, uwArg]
  have hm : ma.isMassAction = true := rfl
  have hn : ma.isNode = true := rfl
  have h1 : isOne ma = false := rfl
  refine ⟨?_, ?_, ?_, ?_⟩
  · simp [pyMul, hn, exprMul, hm, hu]
  · cases hon : o.isNode
    · simp [pyMul, hon, hn, exprMul, hm, hu]
    · simp [pyMul, hon, exprMul, ho, h1, hm, hu]
  · intro hone
    simp [pyDivOp, hn, exprDiv, hone, hm, hu]
  · cases hon : o.isNode
    · simp [pyDivOp, hon, hn, exprRDiv, hm, hu]
    · simp [pyDivOp, hon, exprDiv, h1, ho, hm, exprRDiv, hu]

/-! ## named overrides -/

/-- `override_replaces_exactly`.  For an instance of any class whose stored arguments evaluate to `g` and whose
`unique_keys = u` (distinct, none of them set in `variables`), setting the variable named by the i-th key makes
`all_args` return `g` with the i-th entry replaced by that value — that argument and no other.  Generic in the number
type. -/
theorem override_replaces_exactly {α : Type} [Add α] [Sub α] [Mul α] [Div α] [Neg α] [NatCast α] [PyNum α] (ctx : Ctx α) (k : Kind) (g : List α) (u : List String)
    (i : Nat) (v : α) (hn : k.nargs = some (g.length : Int) ∨ k.nargs = none) (hu : u.Nodup) (hi : i < u.length)
    (hlen : u.length ≤ g.length) (h : ∀ key ∈ u, ctx.vars key = none) :
    allArgs (ctx.set u[i] v) k false g.length (g.map Except.ok) (some u) = .ok (g.set i v)
    ∧ allArgs ctx k false g.length (g.map Except.ok) (some u) = .ok g :=
  ⟨allArgs_override ctx k g u i v hn hu hi hlen h,
   allArgs_no_override ctx k g (some u) hn (fun u' hu' => by cases hu'; exact h)⟩

/-- the same at the level of a value: overriding the first argument of `Arrhenius([A, Ea_over_R], ('kA',))` -/
theorem override_arrhenius (ctx : Ctx ℝ) (A E T v : ℝ) (key : String) (hk : ctx.vars key = none) (hkT : key ≠ "temperature")
    (hT : ctx.vars "temperature" = some T) (hT0 : T ≠ 0) :
    eval (ctx.set key v) (.node .arrhenius false [.num A, .num E] (some [key])) = .ok (v * Real.exp (-E / T))
    ∧ eval ctx (.node .arrhenius false [.num A, .num E] (some [key])) = .ok (A * Real.exp (-E / T)) := by
  constructor
  · have haa := allArgs_override ctx .arrhenius [A, E] [key] 0 v (Or.inl rfl) (by simp) (by simp) (by simp)
      (by simpa using hk)
    simp only [List.length_cons, List.length_nil, List.map_cons, List.map_nil, List.getElem_cons_zero,
      List.set_cons_zero] at haa
    have hT' : (ctx.set key v).vars "temperature" = some T := by
      simp only [Ctx.set, hT, ite_eq_right_iff]
      intro h; exact absurd h.symm hkT
    simp only [eval, evalList, call, List.map_cons, List.map_nil, noneArg_ok, List.length_cons, List.length_nil, haa,
      ok_bind, get_some hT', pyDiv_real hT0, exp_real, pure_eq_ok]
  · exact eval_arrhenius_node ctx A E T (some [key]) (fun u hu k' hk' => by cases hu; simp at hk'; subst hk'; exact hk) hT hT0

/-- `override_masks_stored_argument` (generalises `override_replaces_exactly`): the evaluated stored arguments `vals` may be anything
at position i — a nested expression, even one whose own evaluation FAILS — the override of the i-th unique key masks it; all other
arguments (known to evaluate to `g[j]`) are untouched.  Generic in the number type. -/
theorem override_masks_stored_argument {α : Type} [Add α] [Sub α] [Mul α] [Div α] [Neg α] [NatCast α] [PyNum α] (ctx : Ctx α)
    (k : Kind) (vals : List (Except Err α)) (g : List α) (u : List String) (i : Nat) (v : α) (hlen : vals.length = g.length)
    (hn : k.nargs = some (g.length : Int) ∨ k.nargs = none) (hu : u.Nodup) (hi : i < u.length) (hul : u.length ≤ g.length)
    (h : ∀ key ∈ u, ctx.vars key = none) (hv : ∀ j (hj : j < g.length), j ≠ i → vals[j]? = some (.ok g[j])) :
    allArgs (ctx.set u[i] v) k false g.length vals (some u) = .ok (g.set i v) :=
  allArgs_override_masks ctx k vals g u i v hlen hn hu hi hul h hv

/-- … at value level: `Arrhenius([<any expression>, E], ('k',))` with `k` set evaluates to `k·exp(−E/T)` whatever the stored
first argument is (e.g. a `Symbol` of a missing variable, whose evaluation is `KeyError`). -/
theorem override_masks_nested_expression (ctx : Ctx ℝ) (a0 : Val ℝ) (E T v : ℝ) (key : String) (hk : ctx.vars key = none)
    (hkT : key ≠ "temperature") (hT : ctx.vars "temperature" = some T) (hT0 : T ≠ 0) :
    eval (ctx.set key v) (.node .arrhenius false [a0, .num E] (some [key])) = .ok (v * Real.exp (-E / T)) :=
  eval_arrhenius_override_masks ctx a0 E T v key hk hkT hT hT0

/-- key-only instances (`cls.fk(*keys)`, `self.args is None`): every argument is the variable of its key —
`Arrhenius.fk(kA, kE)` evaluates to `variables[kA]·exp(−variables[kE]/T)` (generic form: `allArgs_fk`) — and a key-only
`MassAction.fk(key)` whose key is missing is `KeyError('Unique key missing')`: success and failure side. -/
theorem key_only_instances (ctx : Ctx ℝ) (kA kE key : String) (A E T : ℝ) (hA : ctx.vars kA = some A) (hE : ctx.vars kE = some E)
    (hT : ctx.vars "temperature" = some T) (hT0 : T ≠ 0) (hk : ctx.vars key = none) :
    eval ctx (.node .arrhenius true [] (some [kA, kE])) = .ok (A * Real.exp (-E / T))
    ∧ eval ctx (.node .massAction true [] (some [key])) = .error .keyError :=
  ⟨eval_arrhenius_fk ctx kA kE A E T hA hE hT hT0, eval_massAction_fk_missing ctx key hk⟩

/-- `override_under_composition`: the tree the operators build from a program does not depend on the variables, so a named
override acts on the built tree exactly as on the program's arithmetic meaning — for every program over `+ − * / ** neg` whose
leaves may be instances of any class carrying unique keys (`Prog.leaf`): evaluating the built tree WITH the override present equals
the meaning WITH the override present (and likewise without). -/
theorem override_under_composition (ctx : Ctx ℝ) (p : Prog) (e : Val ℝ) (key : String) (v w w0 : ℝ)
    (hb : p.build = .ok e) (hs : p.okSub) (hm : p.meaning (ctx.set key v) = .ok w) (hm0 : p.meaning ctx = .ok w0) :
    eval (ctx.set key v) e = .ok w ∧ eval ctx e = .ok w0 :=
  ⟨every_tree_evaluates_to_its_meaning (ctx.set key v) p e w hb hm hs, every_tree_evaluates_to_its_meaning ctx p e w0 hb hm0 hs⟩

/-- `override_of_defaulted_argument`: `Eyring([c0, c1], unique_keys=(k0, k1, k2))` — `__init__` appends the class default `conc0 = 1`
(magnitude of 1 molar), and the third key then overrides that DEFAULTED argument like a stored one: with `k2 = v` the value is
`c0·T·exp(−c1/T)·v^(1−order)`, without it the default `1^(1−order)`. -/
theorem override_of_defaulted_argument (ctx : Ctx ℝ) (c0 c1 T v : ℝ) (k0 k1 k2 : String) (reac : List (String × ℤ))
    (hnd : [k0, k1, k2].Nodup) (hk : ∀ key ∈ [k0, k1, k2], ctx.vars key = none) (hkT : k2 ≠ "temperature")
    (hT : ctx.vars "temperature" = some T) (hT0 : T ≠ 0) (hr : ctx.rxn = .some reac) (hv : 0 < v) :
    mkNode .eyring (.list [.num c0, .num c1]) (some [k0, k1, k2])
        = .ok (.node .eyring false [.num c0, .num c1, .num 1] (some [k0, k1, k2]))
    ∧ eval (ctx.set k2 v) (.node .eyring false [.num c0, .num c1, .num 1] (some [k0, k1, k2]))
        = .ok (c0 * T * Real.exp (-c1 / T) * v ^ (1 - order reac))
    ∧ eval ctx (.node .eyring false [.num c0, .num c1, .num 1] (some [k0, k1, k2]))
        = .ok (c0 * T * Real.exp (-c1 / T) * 1 ^ (1 - order reac)) :=
  eval_eyring_default_override ctx c0 c1 T v k0 k1 k2 reac hnd hk hkT hT hT0 hr hv

/-- `override_in_massaction_arithmetic`: for `ma = MassAction([c])` whose rate coefficient `c` is any expression carrying unique keys
(e.g. `Arrhenius([A, E], ('kA',))`) and an operand `o`: `ma*o`, `o*ma`, `ma/o`, `o/ma`, evaluated WITH the override `key = v` present,
are `(k ∘ b)·∏c^ν` where `k`, `b` are the values of `c`, `o` with the override present — the override acts on exactly its argument
inside the coefficient-level arithmetic (`key` is not a substance of the reaction). -/
theorem override_in_massaction_arithmetic (ctx : Ctx ℝ) (c o e : Val ℝ) (key : String) (v k b : ℝ) (reac : List (String × ℤ))
    (conc : String → ℝ) (hr : ctx.rxn = .some reac) (hkey : ∀ p ∈ reac, p.1 ≠ key)
    (hc : ∀ p ∈ reac, ctx.vars p.1 = some (conc p.1) ∧ 0 < conc p.1)
    (hk : eval (ctx.set key v) c = .ok k) (hb : eval (ctx.set key v) o = .ok b) (hmo : o.isMassAction = false) :
    let ma : Val ℝ := .node .massAction false [c] none
    let P := (reac.map fun p => conc p.1 ^ p.2).prod
    (pyMul ma o = .ok e → eval (ctx.set key v) e = .ok (k * b * P))
    ∧ (pyMul o ma = .ok e → eval (ctx.set key v) e = .ok (k * b * P))
    ∧ (pyDivOp ma o = .ok e → b ≠ 0 → eval (ctx.set key v) e = .ok (k / b * P))
    ∧ (pyDivOp o ma = .ok e → k ≠ 0 → eval (ctx.set key v) e = .ok (b / k * P)) :=
  massAction_ops_override ctx c o e key v k b reac conc hr hkey hc hk hb hmo

/-! ## polynomials and piecewise definitions -/

/-- `poly_spec`: an instance of `create_Poly(p)` / `create_Poly(p, reciprocal=True)` with coefficients `c₀, c₁, …`
evaluates to `Σ cⱼ·xʲ` / `Σ cⱼ·x⁻ʲ` where `x = variables[p]` (for the reciprocal form `x ≠ 0`: Python raises
`ZeroDivisionError` at 0). -/
theorem poly_spec (ctx : Ctx ℝ) (p : String) (recip : Bool) (c : ℝ) (cs : List ℝ) (x : ℝ)
    (hx : ctx.vars p = some x) (hx0 : recip = true → x ≠ 0) :
    eval ctx (.node (.poly p recip false) false ((c :: cs).map Val.num) none)
      = .ok ((((c :: cs).zipIdx 0).map fun q => q.1 * (if recip then x⁻¹ else x) ^ q.2).sum) := by
  rw [eval_poly_node ctx p recip false (c :: cs) none x (by simp) hx, polyBody_spec recip x hx0 c cs]
  rfl

/-- the shifted variants (`ShiftedTPoly`, …): the first argument is the reference point -/
theorem poly_shift_spec (ctx : Ctx ℝ) (p : String) (recip : Bool) (a0 c : ℝ) (cs : List ℝ) (x : ℝ)
    (hx : ctx.vars p = some x) (hx0 : recip = true → x - a0 ≠ 0) :
    eval ctx (.node (.poly p recip true) false ((a0 :: c :: cs).map Val.num) none)
      = .ok ((((c :: cs).zipIdx 0).map fun q => q.1 * (if recip then (x - a0)⁻¹ else (x - a0)) ^ q.2).sum) := by
  rw [eval_poly_node ctx p recip true (a0 :: c :: cs) none x (by simp) hx, polyBody_shift_spec recip x a0 hx0 c cs]
  rfl

/-- `piecewise_spec` (backends without `Piecewise`: math, numpy), for an instance `create_Piecewise(p)([lo₀, e₀, up₀, e₁, up₁, …])`
and `x = variables[p]`: fewer than three or an even number of entries is `ValueError`; otherwise the instance evaluates to `v`
exactly when `v = eᵢ` for the FIRST closed interval `[loᵢ, upᵢ]` that contains `x` (no such interval: `ValueError`). -/
theorem piecewise_spec (ctx : Ctx ℝ) (p : String) (b : List ℝ) (x : ℝ) (hx : ctx.vars p = some x) :
    ((b.length < 3 ∨ b.length % 2 ≠ 1) → eval ctx (.node (.piecewise p) false (b.map Val.num) none) = .error .valueError)
    ∧ (3 ≤ b.length → b.length % 2 = 1 → ∀ v,
        (eval ctx (.node (.piecewise p) false (b.map Val.num) none) = .ok v
          ↔ ∃ i, pwHit x b i ∧ b[2 * i + 1]? = some v ∧ ∀ j < i, ¬ pwHit x b j)) := by
  rw [eval_piecewise_node ctx p b x hx]
  constructor
  · intro h
    unfold pwBody
    rcases h with h | h
    · simp [h]
    · by_cases h3 : b.length < 3
      · simp [h3]
      · simp [h3, h]
  · intro h3 hodd v
    have hb : pwBody b x = pwSelect x b := by
      unfold pwBody
      simp [Nat.not_lt.mpr h3, hodd]
    rw [hb]
    constructor
    · exact pwSelect_spec x b v
    · rintro ⟨i, hi, hv, hmin⟩
      obtain ⟨v', hv'⟩ := pwSelect_complete x b i hi ⟨v, hv⟩
      obtain ⟨i', hi', hvi', hmin'⟩ := pwSelect_spec x b v' hv'
      have hii : i = i' := by
        rcases Nat.lt_trichotomy i i' with hlt | heq | hgt
        · exact absurd hi (hmin' i hlt)
        · exact heq
        · exact absurd hi' (hmin i' hgt)
      subst hii
      rw [hv] at hvi'
      cases hvi'
      exact hv'

/-- `equilibrium_equation_spec`: for an instance `v` of `MassActionEq` / `GibbsEqConst` (any expression with value `K`), an
equilibrium with at least one substance and positive concentrations, `v.equilibrium_equation(variables, equilibrium=eq)` is
`K − ∏ products^ν / ∏ reactants^ν` (written with the signed exponents of the code). -/
theorem equilibrium_equation_spec (ctx : Ctx ℝ) (v : Val ℝ) (K : ℝ) (prod reac : List (String × ℤ)) (c : String → ℝ)
    (hK : eval ctx v = .ok K) (hne : eqExponents prod reac ≠ [])
    (hc : ∀ p ∈ eqExponents prod reac, ctx.vars p.1 = some (c p.1) ∧ 0 < c p.1) :
    equilibriumEquation ctx v prod reac
      = .ok (K - ((prod.map fun p => c p.1 ^ p.2).prod * (reac.map fun p => c p.1 ^ (-p.2)).prod)) := by
  unfold equilibriumEquation
  rw [hK]
  simp only [ok_bind]
  cases hl : eqExponents prod reac with
  | nil => exact absurd hl hne
  | cons p rest =>
    obtain ⟨k, e⟩ := p
    rw [hl] at hc
    rw [eqConcProd_pos_none ctx c k e rest hc]
    simp only [pure_eq_ok]
    congr 2
    rw [← hl, eqExponents, List.map_append, List.prod_append, List.map_map]
    rfl

/-- `piecewise_of_expressions`: piecewise definitions OF EXPRESSIONS — when the stored bounds / branches are arbitrary expressions
(`Arrhenius`, polynomials, …) that evaluate to the numbers `b` (in the context their `_pw` body gives them: without the `reaction`
keyword), the instance evaluates exactly like the instance with the numbers `b` stored, to which `piecewise_spec` applies (first
closed interval containing x; the two `ValueError`s). All branches are evaluated eagerly, selected or not. -/
theorem piecewise_of_expressions (ctx : Ctx ℝ) (p : String) (args : List (Val ℝ)) (b : List ℝ) (x : ℝ) (hx : ctx.vars p = some x)
    (hargs : evalList (childCtx (.piecewise p) ctx) args = b.map Except.ok) :
    eval ctx (.node (.piecewise p) false args none) = eval ctx (.node (.piecewise p) false (b.map Val.num) none) := by
  rw [eval_piecewise_node_exprs ctx p args b x hx hargs, eval_piecewise_node ctx p b x hx]

/-- … and for an equilibrium without any substance the code computes `K − None`: `TypeError` (failure side of
`equilibrium_equation_spec`, whose hypothesis `eqExponents prod reac ≠ []` is therefore exactly the success condition besides the
variables being present and positive). -/
theorem equilibrium_equation_no_species (ctx : Ctx ℝ) (v : Val ℝ) (K : ℝ) (hK : eval ctx v = .ok K) :
    equilibriumEquation ctx v [] [] = .error .typeError :=
  equilibriumEquation_empty ctx v K hK

/-! ## closed formulas of the other rate / equilibrium expression classes (stored numeric arguments, no unique keys) -/

/-- `EyringHS([dH, dS, c0])` evaluates to the DOCUMENTED `(kB·T/h)·exp(dS/R)·exp(−dH/(R·T))·c0^(1−order)` (the code computes the single
exponential `exp(−(dH − T·dS)/(R·T))`), for `T, R, h ≠ 0`, `c0 > 0`. -/
theorem eyringHS_spec (ctx : Ctx ℝ) (dH dS c0 T R kB h : ℝ) (reac : List (String × ℤ))
    (hT : ctx.vars "temperature" = some T) (hR : ctx.vars "molar_gas_constant" = some R)
    (hkB : ctx.vars "Boltzmann_constant" = some kB) (hh : ctx.vars "Planck_constant" = some h)
    (hT0 : T ≠ 0) (hR0 : R ≠ 0) (hh0 : h ≠ 0) (hc0 : 0 < c0) (hr : ctx.rxn = .some reac) :
    eval ctx (.node .eyringHS false [.num dH, .num dS, .num c0] none)
      = .ok (kB * T / h * Real.exp (dS / R) * Real.exp (-dH / (R * T)) * c0 ^ (1 - order reac)) :=
  eval_eyringHS_node ctx dH dS c0 T R kB h reac hT hR hkB hh hT0 hR0 hh0 hc0 hr

/-- `mk_Radiolytic(n₀, n₁, …)([g₀, g₁, …])` evaluates to `density · Σᵢ doserate_{nᵢ} · gᵢ`: each yield with the dose rate of the
SAME position / name (any number ≥ 1 of dose rates, any order of names). -/
theorem radiolytic_spec (ctx : Ctx ℝ) (n0 : String) (names : List String) (g0 : ℝ) (gs : List ℝ) (rho : ℝ) (d : String → ℝ)
    (hn : names.length = gs.length) (hrho : ctx.vars "density" = some rho)
    (hd : ∀ k ∈ (n0 :: names).map (fun n => "doserate" ++ radSuffix n), ctx.vars k = some (d k)) :
    eval ctx (.node (.radiolytic (n0 :: names)) false ((g0 :: gs).map Val.num) none)
      = .ok (rho * (List.zipWith (fun k g => d k * g) ((n0 :: names).map (fun n => "doserate" ++ radSuffix n)) (g0 :: gs)).sum) :=
  eval_radiolytic_node ctx names g0 gs rho d n0 hn hrho hd

/-- `GibbsEqConst([dH/R, dS/R])` = `exp(dS/R − (dH/R)/T)`, `T ≠ 0`; `MassActionEq([K])` = `K`. -/
theorem gibbs_spec (ctx : Ctx ℝ) (dHR dSR T K : ℝ) (hT : ctx.vars "temperature" = some T) (hT0 : T ≠ 0) :
    eval ctx (.node .gibbsEqConst false [.num dHR, .num dSR] none) = .ok (Real.exp (dSR - dHR / T))
    ∧ eval ctx (.node .massActionEq false [.num K] none) = .ok K :=
  ⟨eval_gibbs_node ctx dHR dSR T hT hT0, eval_massActionEq_node ctx K⟩

/-- `RampedTemp([T0, dTdt])` = `T0 + dTdt·t` and `SinTemp([Tbase, Tamp, ω, φ])` = `Tbase + Tamp·sin(ω·t + φ)` at `t = variables['time']`. -/
theorem temperature_programs_spec (ctx : Ctx ℝ) (T0 dTdt Tb Ta w ph t : ℝ) (ht : ctx.vars "time" = some t) :
    eval ctx (.node .rampedTemp false [.num T0, .num dTdt] none) = .ok (T0 + dTdt * t)
    ∧ eval ctx (.node .sinTemp false [.num Tb, .num Ta, .num w, .num ph] none) = .ok (Tb + Ta * Real.sin (w * t + ph)) :=
  ⟨eval_rampedTemp_node ctx T0 dTdt t ht, eval_sinTemp_node ctx Tb Ta w ph t ht⟩

/-- `Exp([e])` = `exp(value of e)`; `Log10([e])` = `log₁₀(value of e)` for a positive value (`math.log10` raises otherwise). -/
theorem exp_log10_spec (ctx : Ctx ℝ) (v : Val ℝ) (a : ℝ) (hv : eval ctx v = .ok a) :
    eval ctx (.node .exp false [v] none) = .ok (Real.exp a)
    ∧ (0 < a → eval ctx (.node .log10 false [v] none) = .ok (Real.log a / Real.log 10)) :=
  ⟨eval_exp_node ctx v a hv, eval_log10_node ctx v a hv⟩

/-! ## backends -/

/-- `backend_naturality`.  For every map `φ` between two number structures that commutes with `+ − · / neg`, integer
literals, `==`, `<=`, `**`, `exp`, `log10`, `sin` (floats ↔ numpy scalars: the identity; numbers → magnitudes of quantities in
consistent units; numbers → symbolic expressions, and back by substitution), and for EVERY expression tree `v` — all 21
classes, any nesting, unique keys, defaults, the `reaction` keyword — evaluation commutes with `φ`, outcomes (exceptions)
included: the value does not depend on the backend. -/
theorem backend_naturality {α β : Type} [Add α] [Sub α] [Mul α] [Div α] [Neg α] [NatCast α] [PyNum α]
    [Add β] [Sub β] [Mul β] [Div β] [Neg β] [NatCast β] [PyNum β] (φ : α → β) (h : PyHom φ) (ctx : Ctx α) (v : Val α) :
    eval (ctx.map φ) (v.map φ) = (eval ctx v).map φ :=
  eval_nat h ctx v

/-- `symbolic_then_substituted` — the clause "evaluated symbolically and then substituted".  ASSUMPTION (not tied to sympy by any
correspondence run: `Sym` is noncomputable): sympy is idealised as a free term algebra whose automatic rewriting (`x - x → 0`,
`x**0 → 1`, …) is value-preserving wherever the numeric evaluation succeeds; the real sympy backend is compared by the oracle only.
`Sym` is the free term algebra
the sympy backend builds (variables, numbers, `+ − · / neg`, `**`, `exp`, `log10`, `sin`; evaluation with symbolic values never
raises and `==` / `<=` on symbols decide nothing), `substEval σ` substitutes numbers for the variables.  For EVERY expression
tree `v` without a Piecewise instance (its `lo <= x <= up` tests have no truth value on symbols: sympy builds a `Piecewise` of
closed intervals instead, compared by the oracle at and inside the bounds), whatever the variables hold (symbols or numbers):
if the numeric evaluation at σ succeeds with `r`, then the symbolic evaluation succeeds with a term `t`, and substituting σ into
`t` gives exactly `r`. -/
theorem symbolic_then_substituted (σ : String → ℝ) (ctx : Ctx Sym) (v : Val Sym) (hpw : noPW v = true) (r : ℝ)
    (hn : eval (ctx.map (substEval σ)) (v.map (substEval σ)) = .ok r) :
    ∃ t, eval ctx v = .ok t ∧ substEval σ t = r := by
  obtain ⟨t, ht⟩ := sym_eval_total σ ctx v hpw r hn
  exact ⟨t, ht, sym_subst_agrees σ ctx v hpw t r ht hn⟩

/-- `unit_scaling_arrhenius_rate` — the units clause for the core case, as pure algebra on magnitudes: measuring
concentrations in a unit `c` times larger, times in a unit `s` times larger and temperatures in a unit `θ` times larger turns
the inputs of `MassAction(Arrhenius([A, Ea_over_R]))` into `conc/c`, `T/θ`, `Ea_over_R/θ`, `A·c^(n−1)·s`, and the rate into
`rate·s/c` — the unit factor of concentration per time: the physical value does not depend on the units. -/
theorem unit_scaling_arrhenius_rate (ctx ctx' : Ctx ℝ) (A E T c s θ : ℝ) (reac : List (String × ℤ)) (conc : String → ℝ)
    (hc : 0 < c) (hθ : θ ≠ 0) (hT0 : T ≠ 0)
    (hT : ctx.vars "temperature" = some T) (hT' : ctx'.vars "temperature" = some (T / θ))
    (hr : ctx.rxn = .some reac) (hr' : ctx'.rxn = .some reac)
    (hconc : ∀ p ∈ reac, ctx.vars p.1 = some (conc p.1) ∧ 0 < conc p.1)
    (hconc' : ∀ p ∈ reac, ctx'.vars p.1 = some (conc p.1 / c)) :
    ∃ rate : ℝ,
      eval ctx (.node .massAction false [.node .arrhenius false [.num A, .num E] none] none) = .ok rate ∧
      eval ctx' (.node .massAction false
          [.node .arrhenius false [.num (A * c ^ (order reac - 1) * s), .num (E / θ)] none] none)
        = .ok (rate * s / c) :=
  arrhenius_rate_unit_scaling ctx ctx' A E T c s θ reac conc hc hθ hT0 hT hT' hr hr' hconc hconc'

/-- `unit_scaling_other_classes` — the change-of-units algebra for three more classes (magnitudes; `quantities` objects stay with the
oracle): `RampedTemp` with times in a unit `s` and temperatures in a unit `θ` times larger gives the temperature `/θ`; `GibbsEqConst` is
invariant under the temperature unit; a `Radiolytic` rate scales by the product of the three unit factors of density, dose rate, yield. -/
theorem unit_scaling_other_classes (ctx ctx' : Ctx ℝ) (T0 dTdt t s θ dHR dSR T g rho d a b c : ℝ) (hs : s ≠ 0) (hθ : θ ≠ 0)
    (hT0 : T ≠ 0) (ht : ctx.vars "time" = some t) (ht' : ctx'.vars "time" = some (t / s))
    (hT : ctx.vars "temperature" = some T) (hT' : ctx'.vars "temperature" = some (T / θ))
    (hrho : ctx.vars "density" = some rho) (hd : ctx.vars "doserate" = some d)
    (hrho' : ctx'.vars "density" = some (rho * a)) (hd' : ctx'.vars "doserate" = some (d * b)) :
    eval ctx' (.node .rampedTemp false [.num (T0 / θ), .num (dTdt * s / θ)] none)
        = (eval ctx (.node .rampedTemp false [.num T0, .num dTdt] none)).map (· / θ)
    ∧ eval ctx' (.node .gibbsEqConst false [.num (dHR / θ), .num dSR] none)
        = eval ctx (.node .gibbsEqConst false [.num dHR, .num dSR] none)
    ∧ eval ctx' (.node (.radiolytic [""]) false [.num (g * c)] none)
        = (eval ctx (.node (.radiolytic [""]) false [.num g] none)).map (· * (a * b * c)) :=
  ⟨eval_rampedTemp_scaled ctx ctx' T0 dTdt t s θ hs hθ ht ht', eval_gibbs_scaled ctx ctx' dHR dSR T θ hθ hT0 hT hT',
   eval_radiolytic_scaled ctx ctx' g rho d a b hrho hd hrho' hd' c⟩

/-! ## behaviour mirrored from the code that is not plain arithmetic on values (exact rational witnesses) -/

/-- `2 / MassAction([3])` for `2 A → …` at `[A] = 2`: `UnaryWrapper.__rtruediv__` gives `MassAction([2/3])`, i.e.
`(2/3)·2² = 8/3` — arithmetic with a `MassAction` acts on its rate COEFFICIENT, by design: the pinned test
`chempy/kinetics/tests/test_rates.py::test_MassAction__expression` asserts that `GeNH3 / ama` is a `MassAction` whose
`rate_coeff` is `r_GeNH3 / r_ama`.  (The quotient of the two VALUES would be `2/(3·2²) = 1/6`.) -/
theorem rdiv_massaction_semantics_witness :
    (do let e ← pyDivOp (constNode (2 : Rat)) (.node .massAction false [.num 3] none); eval wctx e) = .ok (8 / 3)
    ∧ (do let m ← eval wctx (.node .massAction false [.num (3 : Rat)] none); pyDiv 2 m) = .ok (1 / 6) := by
  constructor <;> decide +kernel

/-- a `MassAction` among the coefficients of a `create_Poly` instance does not receive `reaction=`:
`AttributeError` (the same under every backend: a rejection), although the same `MassAction` evaluates to 12 on its own. -/
theorem reaction_not_forwarded_witness :
    eval wctx (.node (.poly "T" false false) false [.node .massAction false [.num (3 : Rat)] none, .num 1] none)
      = .error .attributeError
    ∧ eval wctx (.node .massAction false [.num (3 : Rat)] none) = .ok 12 := by
  constructor <;> decide +kernel

/-- `Eyring.fk('k')` (no stored arguments, one unique key): argument 1 (`dH_over_R`) silently takes the default of
argument 2 (`conc0`), because `argument_defaults[1 - 3 + 1]` is Python's `[-1]`. -/
theorem default_index_wraparound_witness :
    argAt (α := Rat) wctx .eyring true 0 [] (some ["k"]) 1 = .ok 1 := by
  decide +kernel

/-! ## the hypotheses are satisfiable -/

/-- a NON-identity homomorphism in the sense of `backend_naturality`: substitute-then-evaluate from symbolic terms to the
exception-free reals (every field by computation) -/
example (σ : String → ℝ) : PyHom (fun t : Sym => (⟨substEval σ t⟩ : RTot)) := substEval_hom σ

/-- the hypotheses of `symbolic_then_substituted` are satisfiable with a symbolic variable: `Arrhenius([A, E])` at a symbolic
temperature -/
example : ∃ t, eval (⟨fun k => if k = "temperature" then some (Sym.var "T") else none, .absent⟩ : Ctx Sym)
    (.node .arrhenius false [.num (Sym.num 2), .num (Sym.num 3)] none) = .ok t :=
  ⟨_, rfl⟩

/-- `symbolic_then_substituted` applied to a concrete case, INCLUDING its hypothesis `hn` (numeric success at σ): `Arrhenius([2, 3])`
at the symbolic temperature `T`, σ(T) = 300 — the symbolic value substituted at σ is `2·exp(−3/300)` -/
example : ∃ t, eval (⟨fun k => if k = "temperature" then some (Sym.var "T") else none, .absent⟩ : Ctx Sym)
      (.node .arrhenius false [.num (Sym.num 2), .num (Sym.num 3)] none) = .ok t
    ∧ substEval (fun _ => 300) t = 2 * Real.exp (-3 / 300) := by
  refine symbolic_then_substituted (fun _ => 300) _ _ rfl _ ?_
  have h := eval_arrhenius_node
    (Ctx.map (substEval fun _ => 300) (⟨fun k => if k = "temperature" then some (Sym.var "T") else none, .absent⟩ : Ctx Sym))
    2 3 300 none (by simp) (by simp [Ctx.map, substEval]) (by norm_num)
  simpa [Val.map, Val.mapList, substEval] using h

/-- `override_masks_nested_expression`: the masked stored argument really fails on its own (`Symbol('missing')`) -/
example : eval (⟨fun k => if k = "temperature" then some 300 else none, .absent⟩ : Ctx ℝ) (symbolNode "missing") = .error .keyError := by
  simp [symbolNode, eval, call, Ctx.get]

/-- `override_under_composition`: a program with a keyed leaf — `Arrhenius([2, 3], ('kA',)) * 2` -/
example : (Prog.mul (.leaf (.node .arrhenius false [.num 2, .num 3] (some ["kA"]))) (.raw 2)).okSub := by
  simp [Prog.okSub, plainOps, plainOpsList, noMA, noMAList]

/-- `piecewise_of_expressions` with a genuine expression branch: bounds 0, 10 and the branch `Constant(2) * Symbol('y')` -/
example : evalList (childCtx (.piecewise "x") (⟨fun k => if k = "y" then some 3 else if k = "x" then some 5 else none, .absent⟩ : Ctx ℝ))
    [.num 0, .node .mul false [constNode 2, symbolNode "y"] none, .num 10] = [(0 : ℝ), 2 * 3, 10].map Except.ok := by
  have h := eval_mul_node
    (childCtx (.piecewise "x") (⟨fun k => if k = "y" then some 3 else if k = "x" then some 5 else none, .absent⟩ : Ctx ℝ))
    (constNode 2) (symbolNode "y") 2 3 (by simp [constNode, eval, call]) (by simp [symbolNode, eval, call, Ctx.get, childCtx])
  rw [evalList, evalList, evalList, evalList, h]
  rfl

/-- `override_of_defaulted_argument`, `override_in_massaction_arithmetic`: their key hypotheses are satisfiable (three distinct keys;
a keyed Arrhenius coefficient that evaluates with the override present) -/
example : (["k0", "k1", "k2"] : List String).Nodup := by decide
example : ∃ k, eval ((⟨fun n => if n = "temperature" then some 300 else none, .absent⟩ : Ctx ℝ).set "kA" 5)
    (.node .arrhenius false [.num 2, .num 3] (some ["kA"])) = .ok k :=
  ⟨_, (override_arrhenius (⟨fun n => if n = "temperature" then some 300 else none, .absent⟩ : Ctx ℝ) 2 3 300 5 "kA"
    (by simp) (by decide) (by simp) (by norm_num)).1⟩

/-- … and the identity (every field is checked) -/
example : PyHom (id : ℝ → ℝ) where
  map_add _ _ := rfl
  map_sub _ _ := rfl
  map_mul _ _ := rfl
  map_div _ _ := rfl
  map_neg _ := rfl
  map_natCast _ := rfl
  map_beq _ _ := rfl
  map_le _ _ := rfl
  map_pow x y := by cases h : PyNum.pow x y <;> simp [id, h, Except.map]
  map_exp x := rfl
  map_log10 x := by cases h : PyNum.log10 x <;> simp [id, h, Except.map]
  map_sin x := rfl

/-- a build program with a short-cut: `(x + 0) * 1` builds the bare `Symbol` and means `x` -/
example : (Prog.mul (.add (.sym "x") (.raw 0)) (.raw 1)).build = .ok (symbolNode "x") := by
  simp [Prog.build, pyAdd, pyMul, exprAdd, exprMul, conv, trivZero, constErr, constNode, symbolNode, Val.isNode,
    Val.isMassAction, isOne, PyNum.isScalar]

/-- a context as required by `as_rate_expr_spec_*`: `2 A + B → …` at 300 K -/
example : ∃ (ctx : Ctx ℝ) (reac : List (String × ℤ)) (c : String → ℝ),
    ctx.vars "temperature" = some 300 ∧ ctx.rxn = .some reac ∧ reac ≠ [] ∧
    (∀ p ∈ reac, ctx.vars p.1 = some (c p.1) ∧ 0 < c p.1) :=
  ⟨⟨fun k => if k = "temperature" then some 300 else if k = "A" then some 2 else if k = "B" then some 3 else none,
      .some [("A", 2), ("B", 1)]⟩, [("A", 2), ("B", 1)], fun k => if k = "A" then 2 else 3, by simp, rfl, by simp,
    by
      intro p hp
      simp only [List.mem_cons, List.not_mem_nil, or_false] at hp
      rcases hp with rfl | rfl <;> simp⟩

/-- operands of the shape required by `operators_are_homomorphic`, with a short-cut taken: `x + 0*y` is `x` -/
example : pyAdd (symbolNode "x" : Val ℝ) (.node .mul false [symbolNode "y", constNode 0] none) = .ok (symbolNode "x") := by
  simp [pyAdd, Val.isNode, symbolNode, exprAdd, conv, trivZero, constErr, constNode]

/-! ## guards: the code the hand-written bodies of `Model/Expr.lean` mirror (regenerated NORMALISED text vs. approved text;
robust against renaming of locals, single-use temporaries, else-after-return, docstrings, layout) -/

/-- `MassAction.active_conc_prod` (chempy/kinetics/rates.py) is — up to the normalisation of tools/extract/ratessrc.py — the code the hand model was written from -/
theorem massActionConcProd_guard : Gen.srcMassActionConcProd =
    "def(self, variables, backend=math, reaction=None): v0 = 1; for v1, v2 in reaction.reac.items(): v0 = v0 * variables[v1] ** v2; return v0" := rfl

/-- `MassAction.rate_coeff` (chempy/kinetics/rates.py) is — up to the normalisation of tools/extract/ratessrc.py — the code the hand model was written from -/
theorem massActionRateCoeff_guard : Gen.srcMassActionRateCoeff =
    "def(self, variables, backend=math, **kwargs): v0, = self.all_args(variables, backend=backend, **kwargs); return v0" := rfl

/-- `MassAction.__call__` (chempy/kinetics/rates.py) is — up to the normalisation of tools/extract/ratessrc.py — the code the hand model was written from -/
theorem massActionCall_guard : Gen.srcMassActionCall =
    "def(self, variables, backend=math, reaction=None, **kwargs): return self.rate_coeff(variables, backend=backend, reaction=reaction) * self.active_conc_prod(variables, backend=backend, reaction=reaction, **kwargs)" := rfl

/-- `Arrhenius.__call__` (chempy/kinetics/rates.py) is — up to the normalisation of tools/extract/ratessrc.py — the code the hand model was written from -/
theorem arrheniusCall_guard : Gen.srcArrheniusCall =
    "def(self, variables, backend=math, **kwargs): v0, v1 = self.all_args(variables, backend=backend, **kwargs); try: v1 = v1.simplified except AttributeError: pass; return v0 * backend.exp(-v1 / variables['temperature'])" := rfl

/-- `Eyring.__call__` (chempy/kinetics/rates.py) is — up to the normalisation of tools/extract/ratessrc.py — the code the hand model was written from -/
theorem eyringCall_guard : Gen.srcEyringCall =
    "def(self, variables, backend=math, **kwargs): v0, v1, v2 = self.all_args(variables, backend=backend, **kwargs); v3 = variables['temperature']; try: v1 = v1.simplified except AttributeError: pass; return v0 * v3 * backend.exp(-v1 / v3) * v2 ** (1 - kwargs['reaction'].order())" := rfl

/-- `EyringHS.__call__` (chempy/kinetics/rates.py) is — up to the normalisation of tools/extract/ratessrc.py — the code the hand model was written from -/
theorem eyringHSCall_guard : Gen.srcEyringHSCall =
    "def(self, variables, backend=math, reaction=None, **kwargs): v0, v1, v2 = self.all_args(variables, backend=backend, **kwargs); v3, v4, v5, v6 = [variables[v7] for v7 in self.parameter_keys]; v8 = -(v0 - v3 * v1) / (v4 * v3); try: v8 = v8.simplified except AttributeError: pass; return v5 / v6 * v3 * backend.exp(v8) * v2 ** (1 - reaction.order())" := rfl

/-- `mk_Radiolytic._Radiolytic.__call__` (chempy/kinetics/rates.py) is — up to the normalisation of tools/extract/ratessrc.py — the code the hand model was written from -/
theorem radiolyticCall_guard : Gen.srcRadiolyticCall =
    "def(self, variables, backend=math, reaction=None, **kwargs): return variables['density'] * reduce(add, [variables[v0] * v1 for v0, v1 in zip(self.parameter_keys[1:], self.all_args(variables, backend=backend, **kwargs))])" := rfl

/-- `RampedTemp.__call__` (chempy/kinetics/rates.py) is — up to the normalisation of tools/extract/ratessrc.py — the code the hand model was written from -/
theorem rampedTempCall_guard : Gen.srcRampedTempCall =
    "def(self, variables, backend=None, **kwargs): v0, v1 = self.all_args(variables, backend=backend, **kwargs); return v0 + v1 * variables['time']" := rfl

/-- `SinTemp.__call__` (chempy/kinetics/rates.py) is — up to the normalisation of tools/extract/ratessrc.py — the code the hand model was written from -/
theorem sinTempCall_guard : Gen.srcSinTempCall =
    "def(self, variables, backend=math, **kwargs): v0, v1, v2, v3 = self.all_args(variables, backend=backend, **kwargs); return v0 + v1 * backend.sin(v2 * variables['time'] + v3)" := rfl

/-- `MassActionEq.eq_const` (chempy/thermodynamics/expressions.py) is — up to the normalisation of tools/extract/ratessrc.py — the code the hand model was written from -/
theorem massActionEqConst_guard : Gen.srcMassActionEqConst =
    "def(self, variables, backend=math, **kwargs): v0, = self.all_args(variables, backend=backend, **kwargs); return v0" := rfl

/-- `MassActionEq.__call__` (chempy/thermodynamics/expressions.py) is — up to the normalisation of tools/extract/ratessrc.py — the code the hand model was written from -/
theorem massActionEqCall_guard : Gen.srcMassActionEqCall =
    "def(self, *args, **kwargs): return self.eq_const(*args, **kwargs)" := rfl

/-- `GibbsEqConst.eq_const` (chempy/thermodynamics/expressions.py) is — up to the normalisation of tools/extract/ratessrc.py — the code the hand model was written from -/
theorem gibbsEqConst_guard : Gen.srcGibbsEqConst =
    "def(self, variables, backend=math, **kwargs): v0, v1 = self.all_args(variables, backend=backend); v2, = self.all_params(variables, backend=backend); v3 = v1 - v0 / v2; try: v3 = v3.simplified except AttributeError: pass; return backend.exp(v3)" := rfl

/-- `create_Poly._poly` (chempy/util/_expr.py) is — up to the normalisation of tools/extract/ratessrc.py — the code the hand model was written from -/
theorem poly_guard : Gen.srcPoly =
    "def(args, x, backend=math, **kwargs): if shift is None: v0 = args v1 = x else: v0 = args[1:] v1 = x - args[0]; v2 = 1; v3 = None; for v4 in v0: if v3 is None: v3 = v4 * v2 else: v3 += v4 * v2 if reciprocal: v2 /= v1 else: v2 *= v1; return v3" := rfl

/-- `create_Piecewise._pw` (chempy/util/_expr.py) is — up to the normalisation of tools/extract/ratessrc.py — the code the hand model was written from -/
theorem piecewise_guard : Gen.srcPiecewise =
    "def(bounds_exprs, x, backend=math, **kwargs): if len(bounds_exprs) < 3: raise ValueError('Need at least 3 args'); if len(bounds_exprs) % 2 != 1: raise ValueError('Need an odd number of bounds/exprs'); v0 = (len(bounds_exprs) - 1) // 2; v1 = [bounds_exprs[2 * (v2 + 0)] for v2 in range(v0)]; v3 = [bounds_exprs[2 * (v2 + 1)] for v2 in range(v0)]; v4 = [bounds_exprs[2 * v2 + 1] for v2 in range(v0)]; try: v5 = backend.Piecewise except AttributeError: for v6, v7, v8 in zip(v1, v3, v4): if v6 <= x <= v7: return v8 else: raise ValueError('not within any bounds: %s' % x) else: v9 = backend.Symbol('NAN') return v5(*[(v8, backend.And(v6 <= x, x <= v7)) for v6, v7, v8 in zip(v1, v3, v4)] + ([(v9, True)] if nan_fallback else []))" := rfl

/-- `Expr.from_callback.body` (chempy/util/_expr.py) is — up to the normalisation of tools/extract/ratessrc.py — the code the hand model was written from -/
theorem fromCallbackBody_guard : Gen.srcFromCallbackBody =
    "def(self, variables, backend=math, **kw): v0 = self.all_args(variables, backend=backend); return callback(v0, *self.all_params(variables, backend=backend), backend=backend, **kw)" := rfl

/-- `Expr.arg` (chempy/util/_expr.py) is — up to the normalisation of tools/extract/ratessrc.py — the code the hand model was written from -/
theorem exprArg_guard : Gen.srcExprArg =
    "def(self, variables, index, backend=math, evaluate=True, **kwargs): if isinstance(index, str): index = self.argument_names.index(index); if self.unique_keys is None: v0 = self.args[index] elif index < len(self.unique_keys): v1 = self.unique_keys[index] try: v0 = variables[v1] except KeyError: if self.args is None: raise KeyError('Unique key missing: %s' % v1) v0 = self.args[index] elif self.args is None or index > len(self.args): v0 = self.argument_defaults[index - self.nargs + len(self.argument_defaults)] else: v0 = self.args[index]; if isinstance(v0, str): v0 = variables[v0]; if isinstance(v0, Expr) and evaluate: return v0(variables, backend=backend, **kwargs); return v0" := rfl

/-- `Expr.all_args` (chempy/util/_expr.py) is — up to the normalisation of tools/extract/ratessrc.py — the code the hand model was written from -/
theorem exprAllArgs_guard : Gen.srcExprAllArgs =
    "def(self, variables, backend=math, evaluate=True, **kwargs): if self.nargs is None or self.nargs == -1: v0 = len(self.args) else: v0 = self.nargs; return [self.arg(variables, v1, backend, evaluate, **kwargs) for v1 in range(v0)]" := rfl

/-- `Expr.all_params` (chempy/util/_expr.py) is — up to the normalisation of tools/extract/ratessrc.py — the code the hand model was written from -/
theorem exprAllParams_guard : Gen.srcExprAllParams =
    "def(self, variables, backend=math): return [v0(variables, backend=backend) if isinstance(v0, Expr) else v0 for v0 in [variables[v1] for v1 in self.parameter_keys]]" := rfl

/-- `UnaryFunction.__call__` (chempy/util/_expr.py) is — up to the normalisation of tools/extract/ratessrc.py — the code the hand model was written from -/
theorem unaryFunctionCall_guard : Gen.srcUnaryFunctionCall =
    "def(self, variables, backend=math, **kwargs): v0, = self.all_args(variables, backend=backend, **kwargs); return getattr(backend, self._func_name)(v0)" := rfl

/-- `Log10.__call__` (chempy/util/_expr.py) is — up to the normalisation of tools/extract/ratessrc.py — the code the hand model was written from -/
theorem log10Call_guard : Gen.srcLog10Call =
    "def(self, variables, backend=math, **kwargs): if hasattr(backend, 'log10'): return super().__call__(variables, backend=backend, **kwargs); v0, = self.all_args(variables, backend=backend, **kwargs); return backend.log(v0) / backend.log(10)" := rfl

/-- `_BinaryExpr.__call__` (chempy/util/_expr.py) is — up to the normalisation of tools/extract/ratessrc.py — the code the hand model was written from -/
theorem binaryCall_guard : Gen.srcBinaryCall =
    "def(self, variables, backend=math, **kwargs): v0, v1 = self.all_args(variables, backend=backend, **kwargs); return self._op(v0, v1)" := rfl

/-- `_NegExpr.__call__` (chempy/util/_expr.py) is — up to the normalisation of tools/extract/ratessrc.py — the code the hand model was written from -/
theorem negCall_guard : Gen.srcNegCall =
    "def(self, variables, backend=math, **kwargs): v0, = self.all_args(variables, backend=backend, **kwargs); return -v0" := rfl

/-- `Constant.__call__` (chempy/util/_expr.py) is — up to the normalisation of tools/extract/ratessrc.py — the code the hand model was written from -/
theorem constantCall_guard : Gen.srcConstantCall =
    "def(self, variables, backend=None, **kwargs): return self.args[0]" := rfl

/-- `Symbol.__call__` (chempy/util/_expr.py) is — up to the normalisation of tools/extract/ratessrc.py — the code the hand model was written from -/
theorem symbolCall_guard : Gen.srcSymbolCall =
    "def(self, variables, backend=None, **kwargs): v0, = self.unique_keys; return variables[v0]" := rfl

/-! ## signature records of the translated functions (defaults, decorators, how the backend is obtained, which attributes are called).
The `@skipped` hash (code the plain-number specialisation does not visit: the units / constants branches) is NOT pinned: it changes under
harmless refactorings (benign/R16); those branches are covered by the units × backends oracle only. -/

theorem getRSig_guard : (Gen.getRSig.filter fun p => p.1 != "@skipped") =
  [("constants", "None"),
   ("units", "None"),
   ("@decorators", ""),
   ("@args", ""),
   ("@fixed", ""),
   ("@objects", ""),
   ("@warn", ""),
   ("@backend", "")] := by decide

theorem getKBOverHSig_guard : (Gen.getKBOverHSig.filter fun p => p.1 != "@skipped") =
  [("constants", "None"),
   ("units", "None"),
   ("@decorators", ""),
   ("@args", ""),
   ("@fixed", ""),
   ("@objects", ""),
   ("@warn", ""),
   ("@backend", "")] := by decide

theorem arrheniusEquationSig_guard : (Gen.arrheniusEquationSig.filter fun p => p.1 != "@skipped") =
  [("A", "<required>"),
   ("Ea", "<required>"),
   ("T", "<required>"),
   ("constants", "None"),
   ("units", "None"),
   ("backend", "None"),
   ("@decorators", ""),
   ("@args", "A Ea T"),
   ("@fixed", ""),
   ("@objects", ""),
   ("@warn", ""),
   ("@backend", "get_backend(backend) ; be = get_backend(backend) ; be.exp")] := by decide

theorem eyringEquationSig_guard : (Gen.eyringEquationSig.filter fun p => p.1 != "@skipped") =
  [("dH", "<required>"),
   ("dS", "<required>"),
   ("T", "<required>"),
   ("constants", "None"),
   ("units", "None"),
   ("backend", "None"),
   ("@decorators", ""),
   ("@args", "dH dS T"),
   ("@fixed", ""),
   ("@objects", ""),
   ("@warn", ""),
   ("@backend", "get_backend(backend) ; be = get_backend(backend) ; be.exp")] := by decide

theorem arrheniusFromRateconstASig_guard : (Gen.arrheniusFromRateconstASig.filter fun p => p.1 != "@skipped") =
  [("Ea", "<required>"),
   ("T", "<required>"),
   ("k", "<required>"),
   ("@decorators", ""),
   ("@args", "Ea T k"),
   ("@fixed", ""),
   ("@objects", ""),
   ("@warn", ""),
   ("@backend", "backend.exp")] := by decide

theorem arrheniusEaOverRSig_guard : (Gen.arrheniusEaOverRSig.filter fun p => p.1 != "@skipped") =
  [("self", "<required>"),
   ("constants", "<required>"),
   ("units", "<required>"),
   ("backend", "None"),
   ("@decorators", ""),
   ("@args", "self_Ea"),
   ("@fixed", "constants=None, units=None"),
   ("@objects", "self"),
   ("@warn", ""),
   ("@backend", "")] := by decide

theorem eyringKBhExpDSRSig_guard : (Gen.eyringKBhExpDSRSig.filter fun p => p.1 != "@skipped") =
  [("self", "<required>"),
   ("constants", "None"),
   ("units", "None"),
   ("backend", "math"),
   ("@decorators", ""),
   ("@args", "self_dS"),
   ("@fixed", "constants=None, units=None"),
   ("@objects", "self"),
   ("@warn", ""),
   ("@backend", "backend.exp")] := by decide

theorem eyringDHOverRSig_guard : (Gen.eyringDHOverRSig.filter fun p => p.1 != "@skipped") =
  [("self", "<required>"),
   ("constants", "None"),
   ("units", "None"),
   ("backend", "None"),
   ("@decorators", ""),
   ("@args", "self_dH"),
   ("@fixed", "constants=None, units=None"),
   ("@objects", "self"),
   ("@warn", ""),
   ("@backend", "")] := by decide

end ChemModel.C16
